//go:build verif

package db

import (
	"context"
	"encoding/json"
	"fmt"
	"sort"
	"strconv"
	"strings"
	"testing"

	"github.com/couchbase/sync_gateway/base"
	"github.com/couchbase/sync_gateway/channels"
)

// C04 correspondence + monitors on the real RevTree, compareRevIDs/parseRevID, Document flag maintenance and the
// collection write path (Put / PutExistingRevWithBody -> IsIllegalConflict, addRevision, pruneRevisions, store + reload).

type c04Rev struct {
	ID      string `json:"id"`
	Parent  string `json:"parent,omitempty"`
	Deleted bool   `json:"deleted,omitempty"`
}

var c04Pad = strings.Repeat("p", 300)

// at most 3 reports per (monitor, signature): the recorder keeps only the first 50 failures overall
var c04FailCount = map[string]int{}

func c04Fail(rec *vRecorder, monitor, signature string, input any, detail string) {
	k := monitor + "|" + signature
	c04FailCount[k]++
	if c04FailCount[k] <= 3 {
		rec.Fail(monitor, signature, input, detail)
	}
}

// ---- independent (spec-side) reading of canonical ids "<gen>-<digest>" ----
func c04Split(id string) (int, string) {
	i := strings.IndexByte(id, '-')
	g, _ := strconv.Atoi(id[:i])
	return g, id[i+1:]
}

// specification order: generation first, then byte-wise digest
func c04SpecLess(a, b string) bool {
	ga, da := c04Split(a)
	gb, db := c04Split(b)
	if ga != gb {
		return ga < gb
	}
	return da < db
}

// the leaf maximising (not deleted, generation, digest)
func c04SpecWinner(leaves []c04Rev) string {
	best := -1
	for i, l := range leaves {
		if best < 0 {
			best = i
			continue
		}
		b := leaves[best]
		if (!l.Deleted && b.Deleted) || (l.Deleted == b.Deleted && c04SpecLess(b.ID, l.ID)) {
			best = i
		}
	}
	if best < 0 {
		return ""
	}
	return leaves[best].ID
}

// ---- Coq term emitters ----
func c04ID(id string) string {
	g, d := c04Split(id)
	return "(I " + cqI(g) + " " + cqStr(d) + ")"
}
func c04Opt(id string) string {
	if id == "" {
		return "None"
	}
	return "(Some " + c04ID(id) + ")"
}
func c04RevT(r c04Rev) string {
	return "(R " + c04ID(r.ID) + " " + c04Opt(r.Parent) + " " + cqBool(r.Deleted) + ")"
}
func c04TreeT(rs []c04Rev) string {
	parts := make([]string, len(rs))
	for i, r := range rs {
		parts[i] = c04RevT(r)
	}
	return cqList(parts)
}
func c04IDsT(ids []string) string {
	parts := make([]string, len(ids))
	for i, r := range ids {
		parts[i] = c04ID(r)
	}
	return cqList(parts)
}

// projected tree: sorted (id, parent, deleted)
func c04Snapshot(t RevTree) []c04Rev {
	out := make([]c04Rev, 0, len(t))
	for _, info := range t {
		out = append(out, c04Rev{ID: info.ID, Parent: info.Parent, Deleted: info.Deleted})
	}
	sort.Slice(out, func(i, j int) bool { return out[i].ID < out[j].ID })
	return out
}
func c04Build(ctx context.Context, revs []c04Rev) (RevTree, bool) {
	tree := RevTree{}
	ok := true
	for _, r := range revs {
		if err := tree.addRevision(ctx, "doc", RevInfo{ID: r.ID, Parent: r.Parent, Deleted: r.Deleted}); err != nil {
			ok = false
		}
	}
	return tree, ok
}
func c04LeafRevs(t RevTree) []c04Rev {
	var out []c04Rev
	for _, id := range t.GetLeaves() {
		out = append(out, c04Rev{ID: id, Parent: t[id].Parent, Deleted: t[id].Deleted})
	}
	sort.Slice(out, func(i, j int) bool { return out[i].ID < out[j].ID })
	return out
}
func c04Key(v any) string {
	b, _ := json.Marshal(v)
	return string(b)
}

// ---- monitors on a tree (Go-side reflections of the theorems) ----
type c04Mon struct {
	rec *vRecorder
	ctx context.Context
}

// wf: every parent present, child generation strictly above the parent's
func (m *c04Mon) wf(where string, snap []c04Rev, input any) bool {
	present := map[string]bool{}
	for _, r := range snap {
		if present[r.ID] {
			c04Fail(m.rec, "wf_unique_ids", where+":duplicate-id", input, "revision id stored twice: "+r.ID)
			return false
		}
		present[r.ID] = true
	}
	ok := true
	for _, r := range snap {
		if r.Parent == "" {
			continue
		}
		if !present[r.Parent] {
			c04Fail(m.rec, "wf_parent_present", where+":dangling-parent", input, fmt.Sprintf("%s has missing parent %s", r.ID, r.Parent))
			ok = false
			continue
		}
		gc, _ := c04Split(r.ID)
		gp, _ := c04Split(r.Parent)
		if gc <= gp {
			c04Fail(m.rec, "wf_generation_increases", where+":child-generation-not-above-parent", input, fmt.Sprintf("%s is a child of %s", r.ID, r.Parent))
			ok = false
		}
	}
	return ok
}

// winner_is_max + winner determinism over repeated evaluations (map iteration order varies between calls)
func (m *c04Mon) winner(where string, t RevTree, input any) {
	if len(t) == 0 {
		return
	}
	leaves := c04LeafRevs(t)
	spec := c04SpecWinner(leaves)
	w0, br0, cf0 := t.winningRevision(m.ctx)
	if w0 != spec {
		c04Fail(m.rec, "winner_is_max", where+":winner-not-maximal", input, fmt.Sprintf("winningRevision=%q but the leaf maximising (live, generation, digest) is %q", w0, spec))
	}
	for k := 0; k < 6; k++ {
		w, br, cf := t.copy().winningRevision(m.ctx)
		if w != w0 || br != br0 || cf != cf0 {
			c04Fail(m.rec, "winner_perm", where+":winner-depends-on-iteration-order", input, fmt.Sprintf("winningRevision returned %q then %q on the same tree", w0, w))
			break
		}
	}
	live := 0
	for _, l := range leaves {
		if !l.Deleted {
			live++
		}
	}
	if br0 != (len(leaves) > 1) || cf0 != (live > 1) {
		c04Fail(m.rec, "flags_agree", where+":branched-or-conflict-wrong", input, fmt.Sprintf("branched=%v conflict=%v with %d leaves, %d live", br0, cf0, len(leaves), live))
	}
}

// flags_agree on a Document whose flags were just computed from tree t
func (m *c04Mon) flags(where string, t RevTree, cur string, flags uint8, input any) {
	leaves := c04LeafRevs(t)
	live := 0
	for _, l := range leaves {
		if !l.Deleted {
			live++
		}
	}
	fd, fc, fb := flags&channels.Deleted != 0, flags&channels.Conflict != 0, flags&channels.Branched != 0
	if cur != c04SpecWinner(leaves) {
		c04Fail(m.rec, "current_is_winner", where+":current-rev-not-winner", input, fmt.Sprintf("current=%q, maximal leaf=%q", cur, c04SpecWinner(leaves)))
	}
	if info := t[cur]; info != nil && fd != info.Deleted {
		c04Fail(m.rec, "flags_agree", where+":deleted-flag-not-winner", input, fmt.Sprintf("Deleted flag %v but winner %s deleted=%v", fd, cur, info.Deleted))
	}
	if fd != (live == 0) {
		c04Fail(m.rec, "flags_agree", where+":deleted-flag-vs-leaves", input, fmt.Sprintf("Deleted flag %v with %d live leaves", fd, live))
	}
	if fc != (live > 1) {
		c04Fail(m.rec, "flags_agree", where+":conflict-flag-vs-leaves", input, fmt.Sprintf("Conflict flag %v with %d live leaves", fc, live))
	}
	if fb != (len(leaves) > 1) {
		c04Fail(m.rec, "flags_agree", where+":branched-flag-vs-leaves", input, fmt.Sprintf("Branched flag %v with %d leaves", fb, len(leaves)))
	}
}

// ---- RevTree-level sequence of addRevision calls ----
type c04AddObs struct {
	Acc     []bool
	Winners []string
	Fin     []c04Rev
	Leaves  []string
	W       string
	Br, Cf  bool
	HasFl   bool
	Fd, Fc  bool
	Fb      bool
	AllAcc  bool
}

func c04RunAdds(m *c04Mon, where string, seq []c04Rev) c04AddObs {
	var o c04AddObs
	o.AllAcc = true
	tree := RevTree{}
	for _, r := range seq {
		err := tree.addRevision(m.ctx, "doc", RevInfo{ID: r.ID, Parent: r.Parent, Deleted: r.Deleted})
		o.Acc = append(o.Acc, err == nil)
		if err != nil {
			o.AllAcc = false
		}
		w, _, _ := tree.winningRevision(m.ctx)
		o.Winners = append(o.Winners, w)
	}
	o.Fin = c04Snapshot(tree)
	o.Leaves = tree.GetLeaves()
	sort.Strings(o.Leaves)
	o.W, o.Br, o.Cf = tree.winningRevision(m.ctx)
	m.wf(where, o.Fin, seq)
	m.winner(where, tree, seq)
	if len(tree) > 0 {
		doc := NewDocument("doc")
		doc.History = tree
		doc.updateWinningRevAndSetDocFlags(m.ctx)
		o.HasFl = true
		o.Fd, o.Fc, o.Fb = doc.Flags&channels.Deleted != 0, doc.Flags&channels.Conflict != 0, doc.Flags&channels.Branched != 0
		m.flags(where, tree, doc.GetRevTreeID(), doc.Flags, seq)
	}
	return o
}

func c04AddCase(seq []c04Rev, o c04AddObs) string {
	steps := make([]string, len(seq))
	for i, r := range seq {
		steps[i] = "(" + c04RevT(r) + ", " + cqBool(o.Acc[i]) + ", " + c04Opt(o.Winners[i]) + ")"
	}
	fl := "None"
	if o.HasFl {
		fl = "(Some (" + cqBool(o.Fd) + ", " + cqBool(o.Fc) + ", " + cqBool(o.Fb) + "))"
	}
	return "CAdd " + cqList(steps) + " " + c04TreeT(o.Fin) + " " + c04IDsT(o.Leaves) + " " + c04Opt(o.W) + " " + cqBool(o.Br) + " " + cqBool(o.Cf) + " " + fl
}

func c04Perms(n int) [][]int {
	var res [][]int
	var rec func(cur []int, used []bool)
	rec = func(cur []int, used []bool) {
		if len(cur) == n {
			res = append(res, append([]int{}, cur...))
			return
		}
		for i := 0; i < n; i++ {
			if !used[i] {
				used[i] = true
				rec(append(cur, i), used)
				used[i] = false
			}
		}
	}
	rec(nil, make([]bool, n))
	return res
}

// random forest: node k's parent is an earlier node (or none); generations increase along edges
func c04RandForest(rnd *vRand, n int, digests []string, deadPct int, internalDead bool) []c04Rev {
	var revs []c04Rev
	used := map[string]bool{}
	for len(revs) < n {
		parent := ""
		g := 1
		if len(revs) > 0 && rnd.Chance(80) {
			p := revs[rnd.Intn(len(revs))]
			if rnd.Chance(60) { // prefer extending the most recent nodes: longer chains
				p = revs[len(revs)-1-rnd.Intn(min(2, len(revs)))]
			}
			parent = p.ID
			pg, _ := c04Split(p.ID)
			g = pg + 1
			if rnd.Chance(10) {
				g += 1 + rnd.Intn(2)
			}
		} else if rnd.Chance(30) {
			g = 1 + rnd.Intn(3)
		}
		id := strconv.Itoa(g) + "-" + digests[rnd.Intn(len(digests))]
		if used[id] {
			continue
		}
		used[id] = true
		revs = append(revs, c04Rev{ID: id, Parent: parent})
	}
	isParent := map[string]bool{}
	for _, r := range revs {
		isParent[r.Parent] = true
	}
	for i := range revs {
		if (internalDead || !isParent[revs[i].ID]) && rnd.Chance(deadPct) {
			revs[i].Deleted = true
		}
	}
	return revs
}

func c04Shuffle(rnd *vRand, n int) []int {
	p := make([]int, n)
	for i := range p {
		p[i] = i
	}
	for i := n - 1; i > 0; i-- {
		j := rnd.Intn(i + 1)
		p[i], p[j] = p[j], p[i]
	}
	return p
}

// a random order in which every node comes after its parent
func c04TopoOrder(rnd *vRand, revs []c04Rev) []int {
	n := len(revs)
	done := map[string]bool{"": true}
	var order []int
	placed := make([]bool, n)
	for len(order) < n {
		var ready []int
		for i, r := range revs {
			if !placed[i] && done[r.Parent] {
				ready = append(ready, i)
			}
		}
		if len(ready) == 0 {
			for i := range revs {
				if !placed[i] {
					ready = append(ready, i)
				}
			}
		}
		k := ready[rnd.Intn(len(ready))]
		placed[k] = true
		done[revs[k].ID] = true
		order = append(order, k)
	}
	return order
}

// ---- DB level ----
type c04Op struct {
	Kind    string   `json:"kind"` // push | put
	Hist    []string `json:"hist,omitempty"`
	Parent  string   `json:"parent,omitempty"`
	Deleted bool     `json:"deleted,omitempty"`
	NoConf  bool     `json:"no_conflicts,omitempty"`
}
type c04DocObs struct {
	Tree   []c04Rev `json:"tree"`
	Cur    string   `json:"cur"`
	Fd     bool     `json:"deleted"`
	Fc     bool     `json:"conflict"`
	Fb     bool     `json:"branched"`
	Leaves []c04Rev `json:"-"`
	BodyV  string   `json:"-"`
}
type c04DbRun struct {
	Results []string
	Obs     []c04DocObs
	Coq     string
	AllOk   bool
	NewIDs  []string
}

func c04DocT(o c04DocObs) string {
	return "(D " + c04TreeT(o.Tree) + " " + c04Opt(o.Cur) + " " + cqBool(o.Fd) + " " + cqBool(o.Fc) + " " + cqBool(o.Fb) + ")"
}

type c04Db struct {
	m      *c04Mon
	col    *DatabaseCollectionWithUser
	ctx    context.Context
	allowC bool
	limit  uint32
	n      int
}

func (d *c04Db) load(docid string) (c04DocObs, bool) {
	doc, err := d.col.GetDocument(d.ctx, docid, DocUnmarshalAll)
	if err != nil || doc == nil {
		return c04DocObs{}, false
	}
	o := c04DocObs{Tree: c04Snapshot(doc.History), Cur: doc.GetRevTreeID(),
		Fd: doc.Flags&channels.Deleted != 0, Fc: doc.Flags&channels.Conflict != 0, Fb: doc.Flags&channels.Branched != 0,
		Leaves: c04LeafRevs(doc.History)}
	if b := doc.Body(d.ctx); b != nil {
		if v, ok := b["v"].(string); ok {
			o.BodyV = v
		}
	}
	return o, true
}

// runs ops on a fresh document; after every op the document is re-read from the bucket (store + reload)
func (d *c04Db) run(where string, ops []c04Op) c04DbRun {
	d.n++
	docid := fmt.Sprintf("c04-%v-%d-%d", d.allowC, d.limit, d.n)
	var r c04DbRun
	r.AllOk = true
	var steps []string
	bodies := map[string]string{} // rev id -> the "v" its body was written with
	for i, op := range ops {
		var res string
		var opT string
		input := map[string]any{"allow_conflicts": d.allowC, "revs_limit": d.limit, "ops": ops[:i+1]}
		switch op.Kind {
		case "push":
			body := Body{"v": op.Hist[0]}
			if len(op.Hist[0])%2 == 0 {
				body["pad"] = c04Pad // > 250 bytes: stored out of line while the revision is a non-winning leaf
			}
			if op.Deleted {
				body[BodyDeleted] = true
			}
			doc, _, err := d.col.PutExistingRevWithBody(d.ctx, docid, body, append([]string{}, op.Hist...), op.NoConf, ExistingVersionWithUpdateToHLV)
			switch {
			case err == nil && doc == nil:
				res = "RCancel"
			case err == nil:
				res = "ROk"
				bodies[op.Hist[0]] = op.Hist[0]
				// the tree returned by the write must survive store + reload
				if after, ok := d.load(docid); !ok || c04Key(after.Tree) != c04Key(c04Snapshot(doc.History)) {
					c04Fail(d.m.rec, "reload_preserves_tree", where+":reload-changed-tree", input, fmt.Sprintf("written %v reloaded %v", c04Snapshot(doc.History), after.Tree))
				}
			default:
				if st, _ := base.ErrorAsHTTPStatus(err); st == 409 {
					res = "RConflict"
				} else {
					res = "RErr"
				}
			}
			opT = "OPush " + c04IDsT(op.Hist) + " " + cqBool(op.Deleted) + " " + cqBool(op.NoConf)
			r.NewIDs = append(r.NewIDs, "")
		case "put":
			v := fmt.Sprintf("put-%d-%d", d.n, i)
			body := Body{"v": v}
			if op.Parent != "" {
				body[BodyRev] = op.Parent
			}
			if op.Deleted {
				body[BodyDeleted] = true
			}
			newRev, doc, err := d.col.Put(d.ctx, docid, body)
			newT := "(I 0 [])"
			switch {
			case err == nil:
				res = "ROk"
				bodies[newRev] = v
				newT = c04ID(newRev)
				if after, ok := d.load(docid); !ok || c04Key(after.Tree) != c04Key(c04Snapshot(doc.History)) {
					c04Fail(d.m.rec, "reload_preserves_tree", where+":reload-changed-tree", input, fmt.Sprintf("written %v reloaded %v", c04Snapshot(doc.History), after.Tree))
				}
			default:
				if st, _ := base.ErrorAsHTTPStatus(err); st == 409 {
					res = "RConflict"
				} else {
					res = "RErr"
				}
				// the model needs some id of the right generation to reach the same verdict
				g := 1
				if op.Parent != "" {
					pg, _ := c04Split(op.Parent)
					g = pg + 1
				}
				newT = "(I " + cqI(g) + " [])"
			}
			opT = "OPut " + c04Opt(op.Parent) + " " + cqBool(op.Deleted) + " " + newT
			r.NewIDs = append(r.NewIDs, newRev)
		}
		d.m.rec.Err(res)
		if res != "ROk" && res != "RCancel" {
			r.AllOk = false
		}
		obs, exists := d.load(docid)
		r.Results = append(r.Results, res)
		r.Obs = append(r.Obs, obs)
		steps = append(steps, "("+opT+", "+res+", "+c04DocT(obs)+")")
		if !exists {
			continue
		}
		// monitors on the stored document
		d.m.wf(where, obs.Tree, input)
		live := 0
		for _, l := range obs.Leaves {
			if !l.Deleted {
				live++
			}
		}
		if obs.Cur != c04SpecWinner(obs.Leaves) {
			c04Fail(d.m.rec, "current_is_winner", where+":current-rev-not-winner", input, fmt.Sprintf("stored current=%q, maximal leaf=%q", obs.Cur, c04SpecWinner(obs.Leaves)))
		}
		if obs.Fd != (live == 0) {
			c04Fail(d.m.rec, "flags_agree", where+":deleted-flag-vs-leaves", input, fmt.Sprintf("stored Deleted flag %v with %d live leaves", obs.Fd, live))
		}
		if obs.Fc != (live > 1) {
			c04Fail(d.m.rec, "flags_agree", where+":conflict-flag-vs-leaves", input, fmt.Sprintf("stored Conflict flag %v with %d live leaves", obs.Fc, live))
		}
		if obs.Fb != (len(obs.Leaves) > 1) {
			if obs.Fb {
				// (defect repaired by commit ac6ea40) flags used to be computed before pruneRevisions removed an old tombstoned branch; the stale flag stayed until the next accepted write
				c04Fail(d.m.rec, "flags_agree", "branched-flag-stale-after-tombstoned-branch-pruned", input, fmt.Sprintf("stored Branched flag %v with %d leaves", obs.Fb, len(obs.Leaves)))
			} else {
				c04Fail(d.m.rec, "flags_agree", where+":branched-flag-vs-leaves", input, fmt.Sprintf("stored Branched flag %v with %d leaves", obs.Fb, len(obs.Leaves)))
			}
		}
		if !d.allowC && live > 1 {
			c04Fail(d.m.rec, "no_conflict_mode_single_live_leaf", where+":conflict-in-conflict-free-mode", input, fmt.Sprintf("%d live leaves with allow_conflicts=false", live))
		}
		if live > 0 {
			if want, known := bodies[obs.Cur]; known && obs.BodyV != want {
				c04Fail(d.m.rec, "winner_body", where+":current-body-not-winners", input, fmt.Sprintf("current rev %s was written with v=%q, document body has v=%q", obs.Cur, want, obs.BodyV))
			}
		}
	}
	r.Coq = "CDb " + cqBool(d.allowC) + " " + cqN(uint64(d.limit)) + " " + cqList(steps)
	return r
}

func c04Ancestry(revs []c04Rev, id string) []string {
	byID := map[string]c04Rev{}
	for _, r := range revs {
		byID[r.ID] = r
	}
	var h []string
	for id != "" {
		h = append(h, id)
		id = byID[id].Parent
	}
	return h
}

func TestVerifC04(t *testing.T) {
	rec := vNewRecorder(t, "C04", "C04.C04_Corr")
	rec.shardSize = 320
	defer rec.Finish()
	rnd := vNewRand(vSeed())
	ctx := base.TestCtx(t)
	m := &c04Mon{rec: rec, ctx: ctx}

	// =========== (1) parseRevID / compareRevIDs on textual ids ===========
	corpusIDs := []string{"1-abc", "2-abc", "10-abc", "9-abc", "1-abd", "1-ab", "1-", "2-", "1-a-b", "1--", "12-ffee",
		"01-abc", "+1-abc", "001-abc", "-1-abc", "1abc", "", "-", "--", "0-a", "00-a", "+0-a", "+-a", "+", "a-1", "1 -a", " 1-a", "1_0-a", "0x1-a", "1e1-a",
		"9223372036854775807-x", "9223372036854775808-x", "18446744073709551616-x", "0000000000000000000000001-x", "١-a", "1-\xff", "1-\x00", "3-zz", "3-z", "3-Z"}
	for i := 0; i < vBudget(150, 1500); i++ {
		base := corpusIDs[rnd.Intn(len(corpusIDs))]
		b := []byte(base)
		switch rnd.Intn(4) {
		case 0:
			if len(b) > 0 {
				b[rnd.Intn(len(b))] = []byte("0123456789-+ a_\xff")[rnd.Intn(16)]
			}
		case 1:
			p := rnd.Intn(len(b) + 1)
			b = append(b[:p:p], append([]byte{[]byte("0123456789-+ a")[rnd.Intn(14)]}, b[p:]...)...)
		case 2:
			if len(b) > 0 {
				p := rnd.Intn(len(b))
				b = append(b[:p:p], b[p+1:]...)
			}
		case 3:
			b = []byte(strconv.Itoa(1+rnd.Intn(12)) + "-" + []string{"a", "b", "ab", "", "ff", "fe"}[rnd.Intn(6)])
		}
		corpusIDs = append(corpusIDs, string(b))
	}
	for i, s := range corpusIDs {
		stream := "corpus"
		if i >= 40 {
			stream = "random"
		}
		g, d, err := parseRevID(s)
		term := "None"
		if err == nil {
			term = "(Some (" + cqI(g) + ", " + cqStr(d) + "))"
		} else {
			rec.Err("parse_error")
		}
		rec.Case(stream, "parse", "CParse "+cqStr(s)+" "+term, map[string]any{"in": s, "ok": err == nil, "gen": g, "digest": d}, err != nil || strings.Count(s, "-") > 1)
		// monitor: an accepted id denotes (gen >= 1, digest) and re-printing the canonical form parses to the same pair
		if err == nil {
			g2, d2, err2 := parseRevID(strconv.Itoa(g) + "-" + d)
			if g < 1 || err2 != nil || g2 != g || d2 != d {
				c04Fail(rec, "parse_canonical", "parse-revid", map[string]any{"in": s}, fmt.Sprintf("parsed (%d,%q), canonical form reparses to (%d,%q,%v)", g, d, g2, d2, err2))
			}
		}
	}
	{
		n := len(corpusIDs)
		for i := 0; i < 18; i++ {
			for j := 0; j < 18; j++ {
				a, b := corpusIDs[i], corpusIDs[j]
				c := compareRevIDs(ctx, a, b)
				rec.Case("corpus", "cmp", "CCmp "+cqStr(a)+" "+cqStr(b)+" ("+cqI(c)+")%Z", map[string]any{"a": a, "b": b, "r": c}, a != b)
			}
		}
		pairs := vBudget(200, 5000)
		for k := 0; k < pairs; k++ {
			a, b := corpusIDs[rnd.Intn(n)], corpusIDs[rnd.Intn(n)]
			c := compareRevIDs(ctx, a, b)
			rec.Case("random", "cmp", "CCmp "+cqStr(a)+" "+cqStr(b)+" ("+cqI(c)+")%Z", map[string]any{"a": a, "b": b, "r": c}, a != b)
		}
		// cmp_total_order monitor on canonical ids (implementation's own table)
		var canon []string
		seen := map[string]bool{}
		for _, s := range corpusIDs {
			if g, d, err := parseRevID(s); err == nil && strconv.Itoa(g)+"-"+d == s && !seen[s] && len(canon) < 60 {
				canon = append(canon, s)
				seen[s] = true
			}
		}
		for _, a := range canon {
			for _, b := range canon {
				ab, ba := compareRevIDs(ctx, a, b), compareRevIDs(ctx, b, a)
				rec.Count("random", "cmp_pair", a+"|"+b, a != b)
				if ab != -ba || (ab == 0) != (a == b) {
					c04Fail(rec, "cmp_total_order", "compare-revids-not-antisymmetric-or-not-total", map[string]any{"a": a, "b": b}, fmt.Sprintf("cmp(a,b)=%d cmp(b,a)=%d", ab, ba))
				}
				want := 0
				if c04SpecLess(a, b) {
					want = -1
				} else if c04SpecLess(b, a) {
					want = 1
				}
				if ab != want {
					c04Fail(rec, "cmp_total_order", "compare-revids-not-generation-then-digest", map[string]any{"a": a, "b": b}, fmt.Sprintf("cmp(a,b)=%d, (generation, digest) order says %d", ab, want))
				}
			}
		}
	}

	// =========== (2) bounded-exhaustive: all insertion orders of all small revision sets ===========
	universe := []string{"1-a", "1-b", "2-a", "2-b", "3-a"}
	maxSize := 3
	coqEvery := 6 // emit every k-th sequence as a Coq case (all of them feed the Go monitors)
	if vThorough() {
		maxSize = 4
		coqEvery = 40
	}
	seqNo := 0
	sets := 0
	var subsets func(start int, cur []string)
	handleSet := func(ids []string) {
		n := len(ids)
		// parent options: none, or another member of generation <= own (equal generation exercises the generation check)
		opts := make([][]string, n)
		for i, id := range ids {
			opts[i] = []string{""}
			gi, _ := c04Split(id)
			for j, other := range ids {
				if gj, _ := c04Split(other); j != i && gj <= gi {
					opts[i] = append(opts[i], other)
				}
			}
		}
		choice := make([]int, n)
		perms := c04Perms(n)
		for {
			for del := 0; del < 1<<n; del++ {
				revs := make([]c04Rev, n)
				for i := range ids {
					revs[i] = c04Rev{ID: ids[i], Parent: opts[i][choice[i]], Deleted: del&(1<<i) != 0}
				}
				sets++
				accepted := map[string]string{}
				for _, p := range perms {
					seq := make([]c04Rev, n)
					for k, idx := range p {
						seq[k] = revs[idx]
					}
					o := c04RunAdds(m, "exhaustive", seq)
					seqNo++
					nt := n >= 2 && (o.Br || !o.AllAcc)
					if seqNo%coqEvery == 0 {
						rec.Case("exhaustive", "add_seq", c04AddCase(seq, o), map[string]any{"seq": seq, "accepted": o.Acc, "winner": o.W}, nt)
					} else {
						rec.Count("exhaustive", "add_seq_monitor_only", c04Key(seq), nt)
					}
					if o.AllAcc {
						accepted[c04Key(p)] = c04Key([]any{o.Fin, o.Leaves, o.W, o.Br, o.Cf, o.Fd, o.Fc, o.Fb})
					}
				}
				// order_independent: every fully accepted order ends in the same tree, leaves, winner, flags
				var first, firstP string
				for p, k := range accepted {
					if first == "" {
						first, firstP = k, p
					} else if k != first {
						c04Fail(rec, "order_independent", "insertion-order-changes-result", map[string]any{"revs": revs, "order1": firstP, "order2": p}, first+" vs "+k)
					}
				}
			}
			// next parent assignment
			k := 0
			for k < n {
				choice[k]++
				if choice[k] < len(opts[k]) {
					break
				}
				choice[k] = 0
				k++
			}
			if k == n {
				break
			}
		}
	}
	subsets = func(start int, cur []string) {
		if len(cur) > 0 {
			handleSet(cur)
		}
		if len(cur) == maxSize {
			return
		}
		for i := start; i < len(universe); i++ {
			subsets(i+1, append(append([]string{}, cur...), universe[i]))
		}
	}
	subsets(0, nil)
	rec.Extra("exhaustive_add_sets", sets)
	rec.Extra("exhaustive_add_sequences", seqNo)
	rec.Extra("exhaustive", true)

	// a few fixed trees (shapes used by db/revtree_test.go)
	corpusTrees := [][]c04Rev{
		{{ID: "1-one"}, {ID: "2-two", Parent: "1-one"}, {ID: "3-three", Parent: "2-two"}},
		{{ID: "1-one"}, {ID: "2-two", Parent: "1-one"}, {ID: "3-three", Parent: "2-two"}, {ID: "3-drei", Parent: "2-two"}},
		{{ID: "1-one"}, {ID: "2-two", Parent: "1-one"}, {ID: "3-three", Parent: "2-two"}, {ID: "3-drei", Parent: "2-two", Deleted: true}, {ID: "4-vier", Parent: "3-drei"}},
		{{ID: "1-a"}, {ID: "1-b"}, {ID: "2-a", Parent: "1-b", Deleted: true}, {ID: "10-a", Parent: "2-a"}, {ID: "9-z", Parent: "1-a"}},
		{{ID: "2-two", Parent: "1-one"}, {ID: "1-one"}, {ID: "1-one"}, {ID: "1-x", Parent: "1-one"}, {ID: "2-ab", Parent: "1-one"}, {ID: "2-a", Parent: "1-one"}},
	}
	for _, seq := range corpusTrees {
		o := c04RunAdds(m, "corpus", seq)
		rec.Case("corpus", "add_seq", c04AddCase(seq, o), map[string]any{"seq": seq, "accepted": o.Acc, "winner": o.W}, true)
	}

	// =========== (3) random trees: insertion orders, pruning, encode/decode ===========
	digests := []string{"a", "b", "ab", "b0", "", "ff", "fe", "a0"}
	nTrees := vBudget(200, 2500)
	for it := 0; it < nTrees; it++ {
		n := 2 + rnd.Intn(9)
		if rnd.Chance(25) {
			n = 8 + rnd.Intn(5)
		}
		src := c04RandForest(rnd, n, digests, 30, rnd.Chance(30))
		// (3a) insertion: mostly valid order, sometimes arbitrary order / duplicates / generation violations
		var seq []c04Rev
		var order []int
		if rnd.Chance(70) {
			order = c04TopoOrder(rnd, src)
		} else {
			order = c04Shuffle(rnd, n)
		}
		for _, i := range order {
			seq = append(seq, src[i])
		}
		stream := "random"
		if rnd.Chance(30) {
			stream = "adversarial"
			for k := 0; k < 1+rnd.Intn(2); k++ {
				p := rnd.Intn(len(seq) + 1)
				var extra c04Rev
				switch rnd.Intn(3) {
				case 0: // duplicate id
					extra = seq[rnd.Intn(len(seq))]
					extra.Deleted = rnd.Bool()
				case 1: // generation not above the parent's
					par := seq[rnd.Intn(len(seq))]
					pg, _ := c04Split(par.ID)
					extra = c04Rev{ID: strconv.Itoa(max(1, pg-rnd.Intn(2))) + "-zz" + strconv.Itoa(k), Parent: par.ID}
				case 2: // unknown parent
					extra = c04Rev{ID: "4-q" + strconv.Itoa(k), Parent: "3-nowhere"}
				}
				seq = append(seq[:p:p], append([]c04Rev{extra}, seq[p:]...)...)
			}
		}
		o := c04RunAdds(m, stream, seq)
		rec.Case(stream, "add_seq", c04AddCase(seq, o), map[string]any{"seq": seq, "accepted": o.Acc, "winner": o.W}, o.Br || !o.AllAcc)
		rec.Size(fmt.Sprintf("tree_nodes_%02d", len(o.Fin)))
		// order_independent on a second valid order of the same set
		if stream == "random" {
			order2 := c04TopoOrder(rnd, src)
			var seq2, seq1 []c04Rev
			for _, i := range order2 {
				seq2 = append(seq2, src[i])
			}
			for _, i := range c04TopoOrder(rnd, src) {
				seq1 = append(seq1, src[i])
			}
			o1 := c04RunAdds(m, stream, seq1)
			o2 := c04RunAdds(m, stream, seq2)
			rec.Count(stream, "add_seq_monitor_only", c04Key(seq2), o2.Br)
			k1 := c04Key([]any{o1.Fin, o1.Leaves, o1.W, o1.Br, o1.Cf, o1.Fd, o1.Fc, o1.Fb})
			k2 := c04Key([]any{o2.Fin, o2.Leaves, o2.W, o2.Br, o2.Cf, o2.Fd, o2.Fc, o2.Fb})
			if o1.AllAcc && o2.AllAcc && k1 != k2 {
				c04Fail(rec, "order_independent", "insertion-order-changes-result", map[string]any{"order1": seq1, "order2": seq2}, k1+" vs "+k2)
			}
		}

		// (3b) pruning of the tree built from a valid order
		var valid []c04Rev
		for _, i := range c04TopoOrder(rnd, src) {
			valid = append(valid, src[i])
		}
		tree, allOK := c04Build(ctx, valid)
		if !allOK {
			continue
		}
		before := c04Snapshot(tree)
		depths := []uint32{1, 2, 3, 4}
		if !vThorough() {
			depths = []uint32{uint32(1 + rnd.Intn(2)), uint32(3 + rnd.Intn(2))}
		}
		for _, depth := range depths {
			pt := tree.copy()
			wBefore, _, _ := pt.winningRevision(ctx)
			liveBefore := 0
			for _, l := range c04LeafRevs(pt) {
				if !l.Deleted {
					liveBefore++
				}
			}
			pruned, _ := pt.pruneRevisions(ctx, depth, "")
			after := c04Snapshot(pt)
			wAfter, _, _ := pt.winningRevision(ctx)
			input := map[string]any{"tree": before, "max_depth": depth}
			rec.Case("random", "prune", "CPrune "+c04TreeT(before)+" "+cqN(uint64(depth))+" "+cqI(pruned)+" "+c04TreeT(after)+" "+c04Opt(wAfter),
				map[string]any{"tree": before, "max_depth": depth, "pruned": pruned, "after": after}, pruned > 0)
			if pruned > 0 {
				rec.Size(fmt.Sprintf("pruned_%d", min(pruned, 6)))
			}
			m.wf("prune", after, input)
			m.winner("prune", pt, input)
			if wAfter != wBefore {
				c04Fail(rec, "prune_keeps_winner", "prune-changes-winner", input, fmt.Sprintf("winner %q before, %q after", wBefore, wAfter))
			}
			liveAfter := 0
			for _, l := range c04LeafRevs(pt) {
				if !l.Deleted {
					liveAfter++
				}
			}
			if liveAfter != liveBefore {
				c04Fail(rec, "prune_keeps_live_leaves", "prune-changes-live-leaves", input, fmt.Sprintf("%d live leaves before, %d after", liveBefore, liveAfter))
			}
			if pruned != len(before)-len(after) {
				c04Fail(rec, "prune_count", "prune-count-wrong", input, fmt.Sprintf("reported %d, removed %d", pruned, len(before)-len(after)))
			}
			// depth bound: no path from a leaf upwards is longer than max_depth
			byID := map[string]c04Rev{}
			for _, r := range after {
				byID[r.ID] = r
			}
			minDepth := map[string]int{}
			for _, l := range c04LeafRevs(pt) {
				d := 1
				for id := l.ID; id != ""; id = byID[id].Parent {
					if old, ok := minDepth[id]; !ok || d < old {
						minDepth[id] = d
					}
					d++
				}
			}
			for id, d := range minDepth {
				if d > int(depth) {
					c04Fail(rec, "prune_depth_bound", "prune-leaves-node-too-deep", input, fmt.Sprintf("%s is %d levels above its nearest leaf", id, d))
				}
			}
		}

		// (3c) MarshalJSON / UnmarshalJSON
		ct := tree.copy()
		bodyOf := map[string]string{}
		for id, info := range ct {
			if rnd.Chance(30) {
				info.Body = []byte(`{"k":"` + id + `"}`)
				bodyOf[id] = string(info.Body)
			}
		}
		enc, err := ct.MarshalJSON()
		if err != nil {
			c04Fail(rec, "codec_roundtrip", "marshal-error", map[string]any{"tree": before}, err.Error())
			continue
		}
		var rep struct {
			Revs    []string `json:"revs"`
			Parents []int    `json:"parents"`
			Deleted []int    `json:"deleted"`
		}
		_ = json.Unmarshal(enc, &rep)
		var back RevTree
		if err := (&back).UnmarshalJSON(enc); err != nil || len(rep.Revs) != len(ct) {
			c04Fail(rec, "codec_roundtrip", "unmarshal-error", map[string]any{"tree": before, "json": string(enc)}, fmt.Sprint(err))
			continue
		}
		inOrder := make([]c04Rev, len(rep.Revs))
		for i, id := range rep.Revs {
			inOrder[i] = c04Rev{ID: id, Parent: ct[id].Parent, Deleted: ct[id].Deleted}
		}
		ps := make([]string, len(rep.Parents))
		for i, p := range rep.Parents {
			if p < 0 {
				ps[i] = "None"
			} else {
				ps[i] = "(Some " + cqI(p) + ")"
			}
		}
		ds := make([]string, len(rep.Deleted))
		for i, dI := range rep.Deleted {
			ds[i] = cqI(dI)
		}
		backSnap := c04Snapshot(back)
		rec.Case("random", "codec", "CCodec "+c04TreeT(inOrder)+" "+cqList(ps)+" "+cqList(ds)+" "+c04TreeT(backSnap),
			map[string]any{"tree": before, "json": string(enc)}, len(before) > 2)
		if c04Key(backSnap) != c04Key(before) {
			c04Fail(rec, "codec_roundtrip", "reload-changed-tree", map[string]any{"tree": before, "json": string(enc)}, fmt.Sprintf("decoded %v", backSnap))
		}
		for id, b := range bodyOf {
			if back[id] == nil || string(back[id].Body) != b {
				c04Fail(rec, "codec_roundtrip", "reload-changed-body", map[string]any{"tree": before, "json": string(enc)}, "inline body of "+id+" lost")
			}
		}
		// hand-built encodings: permuted arrays, some parents cut to -1, arbitrary deleted indexes
		if rnd.Chance(50) {
			perm := c04Shuffle(rnd, len(before))
			pos := map[string]int{}
			rl := revTreeList{Revs: make([]string, len(before)), Parents: make([]int, len(before))}
			for k, idx := range perm {
				rl.Revs[k] = before[idx].ID
				pos[before[idx].ID] = k
			}
			var dels []string
			for k, idx := range perm {
				rl.Parents[k] = -1
				if p := before[idx].Parent; p != "" && !rnd.Chance(15) {
					rl.Parents[k] = pos[p]
				} else if rnd.Chance(10) {
					rl.Parents[k] = -2 - rnd.Intn(3)
				}
				if rnd.Chance(35) {
					rl.Deleted = append(rl.Deleted, k)
					dels = append(dels, cqI(k))
				}
			}
			raw, _ := base.JSONMarshal(rl)
			var dec RevTree
			if err := (&dec).UnmarshalJSON(raw); err == nil {
				revsT := c04IDsT(rl.Revs)
				pT := make([]string, len(rl.Parents))
				for i, p := range rl.Parents {
					if p < 0 {
						pT[i] = "None"
					} else {
						pT[i] = "(Some " + cqI(p) + ")"
					}
				}
				rec.Case("adversarial", "decode", "CDecode (E "+revsT+" "+cqList(pT)+" "+cqList(dels)+") "+c04TreeT(c04Snapshot(dec)),
					map[string]any{"json": string(raw)}, true)
			}
		}
	}

	// =========== (4) the collection write path ===========
	runDb := func(allowC bool, limits []uint32) {
		db, dctx := SetupTestDBWithOptions(t, DatabaseContextOptions{AllowConflicts: base.Ptr(allowC)})
		defer db.Close(dctx)
		col, dctx := GetSingleDatabaseCollectionWithUser(dctx, t, db)
		d := &c04Db{m: m, col: col, ctx: dctx, allowC: allowC}
		origLimit := db.RevsLimit

		// (4-corpus) fixed sequences: tombstoned branch pruned away, tombstone of a tombstone, resurrection, equal-generation siblings
		corpusOps := []struct {
			limit uint32
			ops   []c04Op
		}{
			{3, []c04Op{{Kind: "push", Hist: []string{"1-a"}, Deleted: true}, {Kind: "push", Hist: []string{"5-a", "2-ff", "1-ff"}}, {Kind: "push", Hist: []string{"2-ff", "1-ff"}}, {Kind: "put", Parent: "5-a"}}},
			{origLimit, []c04Op{{Kind: "push", Hist: []string{"1-a"}}, {Kind: "push", Hist: []string{"2-a", "1-a"}, Deleted: true}, {Kind: "push", Hist: []string{"3-a", "2-a", "1-a"}, Deleted: true}, {Kind: "push", Hist: []string{"1-b"}}, {Kind: "push", Hist: []string{"2-b", "1-a"}}, {Kind: "put"}}},
			{origLimit, []c04Op{{Kind: "push", Hist: []string{"2-a", "1-a"}}, {Kind: "push", Hist: []string{"2-b", "1-a"}}, {Kind: "push", Hist: []string{"3-a", "2-b", "1-a"}, Deleted: true}, {Kind: "push", Hist: []string{"3-b", "2-a", "1-a"}, Deleted: true, NoConf: true}, {Kind: "put"}, {Kind: "push", Hist: []string{"4-a", "3-b"}, NoConf: true}}},
			{2, []c04Op{{Kind: "put"}, {Kind: "push", Hist: []string{"2-x", "1-y"}}, {Kind: "push", Hist: []string{"4-x", "3-x", "2-x", "1-y"}}, {Kind: "push", Hist: []string{"5-x", "4-x"}, Deleted: true}}},
		}
		for _, c := range corpusOps {
			d.limit = c.limit
			db.RevsLimit = c.limit
			r := d.run("db-corpus", c.ops)
			rec.Case("corpus", "db_seq", r.Coq, map[string]any{"allow_conflicts": allowC, "revs_limit": c.limit, "ops": c.ops, "results": r.Results}, true)
		}
		db.RevsLimit = origLimit

		// (4a) bounded-exhaustive: every order of pushing every node (with its full ancestry) of every forest of <= 3 nodes
		d.limit = origLimit
		small := []string{"1-a", "1-b", "2-a", "2-b", "3-a"}
		var forests [][]c04Rev
		var gen func(start int, cur []string)
		gen = func(start int, cur []string) {
			if n := len(cur); n > 0 {
				opts := make([][]string, n)
				for i, id := range cur {
					opts[i] = []string{""}
					gi, _ := c04Split(id)
					for _, other := range cur {
						if gj, _ := c04Split(other); gj < gi {
							opts[i] = append(opts[i], other)
						}
					}
				}
				choice := make([]int, n)
				for {
					for del := 0; del < 1<<n; del++ {
						f := make([]c04Rev, n)
						for i := range cur {
							f[i] = c04Rev{ID: cur[i], Parent: opts[i][choice[i]], Deleted: del&(1<<i) != 0}
						}
						forests = append(forests, f)
					}
					k := 0
					for k < n {
						choice[k]++
						if choice[k] < len(opts[k]) {
							break
						}
						choice[k] = 0
						k++
					}
					if k == n {
						break
					}
				}
			}
			if len(cur) == 3 {
				return
			}
			for i := start; i < len(small); i++ {
				gen(i+1, append(append([]string{}, cur...), small[i]))
			}
		}
		gen(0, nil)
		stride := 10
		if vThorough() {
			stride = 1
		}
		for fi, f := range forests {
			if (fi+int(vSeed()))%stride != 0 {
				continue
			}
			results := map[string]string{}
			var firstK, firstP string
			for _, p := range c04Perms(len(f)) {
				var ops []c04Op
				for _, idx := range p {
					ops = append(ops, c04Op{Kind: "push", Hist: c04Ancestry(f, f[idx].ID), Deleted: f[idx].Deleted})
				}
				r := d.run("db-exhaustive", ops)
				last := r.Obs[len(r.Obs)-1]
				rec.Case("exhaustive", "db_seq", r.Coq, map[string]any{"allow_conflicts": allowC, "ops": ops, "results": r.Results}, len(last.Leaves) > 1 || !r.AllOk)
				if r.AllOk {
					k := c04Key([]any{last.Leaves, last.Cur, last.Fd, last.Fc, last.Fb, last.BodyV})
					results[c04Key(p)] = k
					if firstK == "" {
						firstK, firstP = k, c04Key(ops)
					} else if k != firstK {
						c04Fail(rec, "db_order_independent", "push-order-changes-leaves-or-winner", map[string]any{"allow_conflicts": allowC, "forest": f, "order1": firstP, "order2": ops}, firstK+" vs "+k)
					}
				}
			}
		}

		// (4b) random op sequences over random source forests
		nSeq := vBudget(55, 700)
		for it := 0; it < nSeq; it++ {
			d.limit = limits[it%len(limits)]
			db.RevsLimit = d.limit
			n := 3 + rnd.Intn(5)
			if d.limit < 10 {
				n = 5 + rnd.Intn(6)
			}
			src := c04RandForest(rnd, n, []string{"a", "b", "ab", "ff"}, 30, rnd.Chance(40))
			var heads []c04Rev
			isParent := map[string]bool{}
			for _, r := range src {
				isParent[r.Parent] = true
			}
			for _, r := range src {
				if !isParent[r.ID] || rnd.Chance(35) {
					heads = append(heads, r)
				}
			}
			mk := func(order []int, withPuts bool) []c04Op {
				var ops []c04Op
				for _, idx := range order {
					h := heads[idx]
					hist := c04Ancestry(src, h.ID)
					ops = append(ops, c04Op{Kind: "push", Hist: hist, Deleted: h.Deleted})
				}
				return ops
			}
			order1 := c04Shuffle(rnd, len(heads))
			ops1 := mk(order1, false)
			stream := "random"
			if rnd.Chance(45) {
				// adversarial additions: truncated histories, no_conflicts pushes, Put on leaves / non-leaves / nothing
				stream = "adversarial"
				extra := 1 + rnd.Intn(3)
				for k := 0; k < extra; k++ {
					p := rnd.Intn(len(ops1) + 1)
					var op c04Op
					switch rnd.Intn(5) {
					case 0:
						h := src[rnd.Intn(len(src))]
						hist := c04Ancestry(src, h.ID)
						op = c04Op{Kind: "push", Hist: hist[:1+rnd.Intn(len(hist))], Deleted: rnd.Bool(), NoConf: rnd.Bool()}
					case 1:
						op = c04Op{Kind: "put", Parent: src[rnd.Intn(len(src))].ID, Deleted: rnd.Chance(40)}
					case 2:
						op = c04Op{Kind: "put", Deleted: rnd.Chance(20)}
					case 3:
						h := src[rnd.Intn(len(src))]
						g, _ := c04Split(h.ID)
						op = c04Op{Kind: "push", Hist: append([]string{strconv.Itoa(g+1) + "-n" + strconv.Itoa(k)}, c04Ancestry(src, h.ID)...), Deleted: rnd.Chance(40), NoConf: rnd.Chance(30)}
					case 4: // generation not above the parent's, or a disconnected new root
						h := src[rnd.Intn(len(src))]
						g, _ := c04Split(h.ID)
						if rnd.Bool() {
							op = c04Op{Kind: "push", Hist: []string{strconv.Itoa(g) + "-same", h.ID}}
						} else {
							op = c04Op{Kind: "push", Hist: []string{strconv.Itoa(1+rnd.Intn(3)) + "-root" + strconv.Itoa(k)}, Deleted: rnd.Chance(30)}
						}
					}
					ops1 = append(ops1[:p:p], append([]c04Op{op}, ops1[p:]...)...)
				}
			}
			r1 := d.run("db-"+stream, ops1)
			// a Put's parent may name the winner at that moment: "@" placeholders are not used; parents are literal ids
			last1 := r1.Obs[len(r1.Obs)-1]
			rec.Case(stream, "db_seq", r1.Coq, map[string]any{"allow_conflicts": allowC, "revs_limit": d.limit, "ops": ops1, "results": r1.Results}, len(last1.Leaves) > 1 || !r1.AllOk)
			for _, op := range ops1 {
				rec.Count(stream, "db_op_"+op.Kind, "", false)
			}
			if stream == "random" {
				ops2 := mk(c04Shuffle(rnd, len(heads)), false)
				r2 := d.run("db-"+stream, ops2)
				last2 := r2.Obs[len(r2.Obs)-1]
				rec.Case(stream, "db_seq", r2.Coq, map[string]any{"allow_conflicts": allowC, "revs_limit": d.limit, "ops": ops2, "results": r2.Results}, len(last2.Leaves) > 1 || !r2.AllOk)
				if r1.AllOk && r2.AllOk && d.limit >= 100 {
					k1 := c04Key([]any{last1.Leaves, last1.Cur, last1.Fd, last1.Fc, last1.Fb, last1.BodyV})
					k2 := c04Key([]any{last2.Leaves, last2.Cur, last2.Fd, last2.Fc, last2.Fb, last2.BodyV})
					if k1 != k2 {
						c04Fail(rec, "db_order_independent", "push-order-changes-leaves-or-winner", map[string]any{"allow_conflicts": allowC, "order1": ops1, "order2": ops2}, k1+" vs "+k2)
					}
				}
			}
		}
		db.RevsLimit = origLimit
	}
	runDb(true, []uint32{100, 100, 3, 2})
	// (defect repaired by commit 140db63) textual ids that are not in canonical form used to be accepted by the write path as
	// distinct revisions although they compare equal, which made the winner depend on map iteration order; now they get 400
	{
		db, dctx := SetupTestDBWithOptions(t, DatabaseContextOptions{AllowConflicts: base.Ptr(true)})
		col, dctx := GetSingleDatabaseCollectionWithUser(dctx, t, db)
		pushes := [][]string{{"1-abc"}, {"01-abc"}}
		accepted := 0
		for _, h := range pushes {
			if doc, _, err := col.PutExistingRevWithBody(dctx, "c04-noncanonical", Body{"v": h[0]}, h, false, ExistingVersionWithUpdateToHLV); err == nil && doc != nil {
				accepted++
			}
		}
		rec.Count("adversarial", "db_noncanonical_ids", "1-abc|01-abc", true)
		if doc, err := col.GetDocument(dctx, "c04-noncanonical", DocUnmarshalAll); err == nil && accepted == 2 {
			seen := map[string]int{}
			for i := 0; i < 64; i++ {
				w, _, _ := doc.History.copy().winningRevision(dctx)
				seen[w]++
			}
			if len(seen) > 1 {
				c04Fail(rec, "winner_perm", "noncanonical-revids-compare-equal-winner-nondeterministic", map[string]any{"allow_conflicts": true, "pushes": pushes},
					fmt.Sprintf("both revisions accepted; winningRevision over 64 evaluations of the stored tree: %v (compareRevIDs(\"1-abc\",\"01-abc\")=%d)", seen, compareRevIDs(dctx, "1-abc", "01-abc")))
			}
		}
		db.Close(dctx)
	}
	runDb(false, []uint32{50, 50, 3})

	// =========== (6)-(10) deepening round: history queries, pruning twice / then adding, codec with all fields at byte level ===========
	c04Deep(t, rec, m)

	// =========== (5) winning body under CAS retries ===========
	c04RaceBodies(t, rec, rnd)
}

// ---- (5) same revisions, one database raced (the promoting write loses its compare-and-swap to a competing
// write and is retried), one sequential: same winner, same winning body, same body for every live leaf ----
type c04BodyOp struct {
	Op    c04Op `json:"op"`
	Body  int   `json:"body"`
	Large bool  `json:"large,omitempty"`
}
type c04BodyObs struct {
	Cur     string         `json:"cur"`
	CurBody int            `json:"cur_body"` // -1: none / tombstone
	Leaves  map[string]int `json:"leaf_bodies"`
}

func c04BodyNum(b Body) int {
	if b == nil {
		return -1
	}
	if s, ok := b["n"].(string); ok {
		if v, err := strconv.Atoi(s); err == nil {
			return v
		}
	}
	return -1
}

func c04RaceBodies(t *testing.T, rec *vRecorder, rnd *vRand) {
	db, ctx := SetupTestDBWithOptions(t, DatabaseContextOptions{AllowConflicts: base.Ptr(true)})
	defer db.Close(ctx)
	col, ctx := GetSingleDatabaseCollectionWithUser(ctx, t, db)
	fs := &vFaultStore{DataStore: col.dataStore}
	col.dataStore = fs
	pad := strings.Repeat("x", 320)
	docNo := 0

	// apply one request; returns result kind and (for Put) the revision id created
	apply := func(docid string, o c04BodyOp) (string, string) {
		body := Body{"n": strconv.Itoa(o.Body)}
		if o.Large {
			body["pad"] = pad
		}
		if o.Op.Deleted {
			body[BodyDeleted] = true
		}
		var err error
		var doc *Document
		newRev := ""
		if o.Op.Kind == "push" {
			doc, _, err = col.PutExistingRevWithBody(ctx, docid, body, append([]string{}, o.Op.Hist...), false, ExistingVersionWithUpdateToHLV)
			if err == nil && doc == nil {
				return "RCancel", ""
			}
		} else {
			if o.Op.Parent != "" {
				body[BodyRev] = o.Op.Parent
			}
			newRev, _, err = col.Put(ctx, docid, body)
		}
		if err == nil {
			return "ROk", newRev
		}
		if st, _ := base.ErrorAsHTTPStatus(err); st == 409 {
			return "RConflict", ""
		}
		return "RErr", ""
	}
	observe := func(docid string) c04BodyObs {
		o := c04BodyObs{CurBody: -1, Leaves: map[string]int{}}
		db.FlushRevisionCacheForTest()
		doc, err := col.GetDocument(ctx, docid, DocUnmarshalAll)
		if err != nil || doc == nil {
			return o
		}
		o.Cur = doc.GetRevTreeID()
		if !doc.IsDeleted() {
			o.CurBody = c04BodyNum(doc.Body(ctx))
		}
		for _, l := range c04LeafRevs(doc.History) {
			if l.Deleted {
				continue
			}
			b, err := col.Get1xRevBody(ctx, docid, l.ID, false, nil)
			if err != nil {
				o.Leaves[l.ID] = -1
			} else {
				o.Leaves[l.ID] = c04BodyNum(b)
			}
		}
		return o
	}
	coqCase := func(steps []c04BodyOp, newRevs []string, o c04BodyObs) string {
		parts := make([]string, len(steps))
		for i, s := range steps {
			var opT string
			if s.Op.Kind == "push" {
				opT = "OPush " + c04IDsT(s.Op.Hist) + " " + cqBool(s.Op.Deleted) + " false"
			} else {
				id := "(I 0 [])"
				if newRevs[i] != "" {
					id = c04ID(newRevs[i])
				}
				opT = "OPut " + c04Opt(s.Op.Parent) + " " + cqBool(s.Op.Deleted) + " " + id
			}
			parts[i] = "(" + opT + ", " + cqI(s.Body) + ")"
		}
		cb := "None"
		if o.CurBody >= 0 {
			cb = "(Some " + cqI(o.CurBody) + ")"
		}
		ids := make([]string, 0, len(o.Leaves))
		for id := range o.Leaves {
			ids = append(ids, id)
		}
		sort.Strings(ids)
		lb := make([]string, len(ids))
		for i, id := range ids {
			v := o.Leaves[id]
			if v < 0 {
				v = 999999 // body could not be read: never equal to a body id that was written
			}
			lb[i] = "(" + c04ID(id) + ", " + cqI(v) + ")"
		}
		return "CBody true " + cqN(uint64(db.RevsLimit)) + " " + cqList(parts) + " " + c04Opt(o.Cur) + " " + cb + " " + cqList(lb)
	}

	nVar := vBudget(36, 300)
	for it := 0; it < nVar; it++ {
		bodyID := 10
		nb := func() int { bodyID++; return bodyID }
		// base: root, the winning branch 2-w, the non-winning leaf 2-l (large body => stored out of line), optional further leaves
		base0 := []c04BodyOp{
			{Op: c04Op{Kind: "push", Hist: []string{"1-a"}}, Body: nb()},
			{Op: c04Op{Kind: "push", Hist: []string{"2-w", "1-a"}}, Body: nb(), Large: it%3 == 0},
			{Op: c04Op{Kind: "push", Hist: []string{"2-l", "1-a"}}, Body: nb(), Large: it%7 != 6},
		}
		if it%2 == 1 {
			base0 = append(base0, c04BodyOp{Op: c04Op{Kind: "push", Hist: []string{"2-k", "1-a"}}, Body: nb(), Large: true})
		}
		if it%5 == 4 {
			base0 = append(base0, c04BodyOp{Op: c04Op{Kind: "push", Hist: []string{"3-w", "2-w", "1-a"}}, Body: nb(), Large: rnd.Bool()})
		}
		winner := "2-w"
		if it%5 == 4 {
			winner = "3-w"
		}
		// competitors: writes that commit between the promoting write's update callback and its compare-and-swap
		var comps []c04BodyOp
		switch it % 4 {
		case 0:
			comps = []c04BodyOp{{Op: c04Op{Kind: "push", Hist: []string{"2-c", "1-a"}}, Body: nb()}}
		case 1:
			comps = []c04BodyOp{{Op: c04Op{Kind: "push", Hist: []string{"2-c", "1-a"}}, Body: nb(), Large: true}}
		case 2:
			comps = []c04BodyOp{{Op: c04Op{Kind: "push", Hist: []string{"1-b"}}, Body: nb()}, {Op: c04Op{Kind: "push", Hist: []string{"2-d", "1-b"}}, Body: nb(), Large: true}}
		case 3: // a child of another non-winning leaf: becomes the winner itself when its generation is higher
			par := "2-l"
			if it%2 == 1 {
				par = "2-k"
			}
			comps = []c04BodyOp{{Op: c04Op{Kind: "push", Hist: []string{"3-e", par, "1-a"}}, Body: nb(), Large: rnd.Bool()}}
		}
		// the promoting write: tombstone the winning branch
		var promote c04BodyOp
		if it%3 == 1 {
			promote = c04BodyOp{Op: c04Op{Kind: "put", Parent: winner, Deleted: true}, Body: nb()}
		} else {
			g, _ := c04Split(winner)
			promote = c04BodyOp{Op: c04Op{Kind: "push", Hist: append([]string{strconv.Itoa(g+1) + "-t"}, c04Ancestry([]c04Rev{{ID: "1-a"}, {ID: "2-w", Parent: "1-a"}, {ID: "3-w", Parent: "2-w"}}, winner)...), Deleted: true}, Body: nb()}
		}
		commitOrder := append(append(append([]c04BodyOp{}, base0...), comps...), promote)

		docNo++
		raced := fmt.Sprintf("c04-race-%d", docNo)
		seq := fmt.Sprintf("c04-seq-%d", docNo)
		racedRevs := make([]string, len(commitOrder))
		seqRevs := make([]string, len(commitOrder))
		okAll := true
		// sequential database: the same revisions, one request after the other
		for i, o := range commitOrder {
			res, nr := apply(seq, o)
			seqRevs[i] = nr
			if res != "ROk" {
				okAll = false
			}
		}
		// raced database
		for i, o := range base0 {
			res, nr := apply(raced, o)
			racedRevs[i] = nr
			if res != "ROk" {
				okAll = false
			}
		}
		attempts := 0
		next := 0
		fs.onAttempt = func(key string, n int, cbErr error) error {
			if key != raced || cbErr != nil {
				return nil
			}
			attempts = n
			// one competitor per attempt: the promoting write is retried once per competitor
			if next < len(comps) {
				i := next
				next++
				res, nr := apply(raced, comps[i])
				racedRevs[len(base0)+i] = nr
				if res != "ROk" {
					okAll = false
				}
			}
			return nil
		}
		res, nr := apply(raced, promote)
		fs.onAttempt = nil
		racedRevs[len(commitOrder)-1] = nr
		if res != "ROk" {
			okAll = false
		}
		obsR, obsS := observe(raced), observe(seq)
		input := map[string]any{"allow_conflicts": true, "requests_in_commit_order": commitOrder,
			"raced": fmt.Sprintf("the last request ran its update callback %d times; the %d request(s) before it committed between its callback and its compare-and-swap", attempts, len(comps))}
		nt := attempts > 1
		rec.Case("raced", "body_seq", coqCase(commitOrder, racedRevs, obsR), map[string]any{"input": input, "observed": obsR}, nt)
		rec.Case("corpus", "body_seq", coqCase(commitOrder, seqRevs, obsS), map[string]any{"input": input, "observed": obsS}, false)
		rec.Size(fmt.Sprintf("promote_attempts_%d", attempts))
		if !okAll {
			rec.Err("body_seq_request_rejected")
			continue
		}
		if c04Key(obsR) != c04Key(obsS) {
			c04Fail(rec, "winning_body_order_independent", "winner-body-lost-on-cas-retry", input,
				fmt.Sprintf("raced database: current=%s body=%d live-leaf bodies=%v; sequential database: current=%s body=%d live-leaf bodies=%v",
					obsR.Cur, obsR.CurBody, obsR.Leaves, obsS.Cur, obsS.CurBody, obsS.Leaves))
		}
	}
	col.dataStore = fs.DataStore
}
