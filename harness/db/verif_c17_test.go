//go:build verif

package db

import (
	"context"
	"encoding/json"
	"fmt"
	"net/http/httptest"
	"sort"
	"strings"
	"testing"

	"github.com/couchbase/go-blip"
	"github.com/couchbase/sync_gateway/base"
)

// C17 correspondence + monitors on the real db.Checkpointer.
//
// Streams:  corpus (hand-written witnesses, always first) · exhaustive (every operation sequence of
// length <= D over 16 operations on 5 tokens, thresholds below and above the list length; digests
// re-computed by the Coq model, monitors on every node) · short (every sequence of length <= 2 as an
// explicit case) · ordered / late / adversarial (seeded random) · persist (CheckpointNow with a real
// local checkpoint document and an in-process BLIP peer storing the remote one).

type c17Op struct {
	K byte         // 'E' AddExpectedSeqs, 'K' AddAlreadyKnownSeq, 'P' AddProcessedSeq, 'D' AddExpectedSeqIDAndRevs, 'Q' AddProcessedSeqIDAndRev, 'T' tick
	S []SequenceID // E,K,D: the list; P: one; Q: zero (nil seq) or one
	D []int        // D: document keys parallel to S; Q: one document key
}

func c17Tok(s SequenceID) string {
	return "(T " + cqN(s.TriggeredBy) + " " + cqN(s.LowSeq) + " " + cqN(s.Seq) + ")"
}
func c17TokDesc(s SequenceID) string {
	return fmt.Sprintf("%d/%d/%d", s.TriggeredBy, s.LowSeq, s.Seq)
}
func c17Toks(l []SequenceID) string {
	p := make([]string, len(l))
	for i, s := range l {
		p[i] = c17Tok(s)
	}
	return cqList(p)
}
func (o c17Op) coq() string {
	switch o.K {
	case 'E':
		return "Expect " + c17Toks(o.S)
	case 'K':
		return "Known " + c17Toks(o.S)
	case 'P':
		return "Processed " + c17Tok(o.S[0])
	case 'D':
		p := make([]string, len(o.S))
		for i := range o.S {
			p[i] = "(" + cqI(o.D[i]) + ", " + c17Tok(o.S[i]) + ")"
		}
		return "ExpectDocs " + cqList(p)
	case 'Q':
		if len(o.S) == 0 {
			return "ProcessedDoc None " + cqI(o.D[0])
		}
		return "ProcessedDoc (Some " + c17Tok(o.S[0]) + ") " + cqI(o.D[0])
	}
	return "Tick"
}
func (o c17Op) desc() string {
	p := make([]string, len(o.S))
	for i, s := range o.S {
		p[i] = c17TokDesc(s)
		if o.K == 'D' {
			p[i] = fmt.Sprintf("doc%d=%s", o.D[i], p[i])
		}
	}
	switch o.K {
	case 'E':
		return "expect[" + strings.Join(p, ",") + "]"
	case 'K':
		return "known[" + strings.Join(p, ",") + "]"
	case 'P':
		return "processed " + p[0]
	case 'D':
		return "expectDocs[" + strings.Join(p, ",") + "]"
	case 'Q':
		if len(o.S) == 0 {
			return fmt.Sprintf("processedDoc doc%d (no seq)", o.D[0])
		}
		return fmt.Sprintf("processedDoc doc%d %s", o.D[0], p[0])
	}
	return "tick"
}
func c17OpsCoq(ops []c17Op) string {
	p := make([]string, len(ops))
	for i, o := range ops {
		p[i] = o.coq()
	}
	return cqList(p)
}
func c17OpsDesc(ops []c17Op) []string {
	p := make([]string, len(ops))
	for i, o := range ops {
		p[i] = o.desc()
	}
	return p
}

type c17Obs struct {
	Ret    *SequenceID
	LE, LP int
}

func (o c17Obs) coq() string {
	r := "None"
	if o.Ret != nil {
		r = "(Some " + c17Tok(*o.Ret) + ")"
	}
	return "(" + r + ", " + cqI(o.LE) + ", " + cqI(o.LP) + ")"
}
func (o c17Obs) desc() string {
	r := "-"
	if o.Ret != nil {
		r = c17TokDesc(*o.Ret)
	}
	return fmt.Sprintf("%s e=%d p=%d", r, o.LE, o.LP)
}

func c17Stats() CheckpointerStats {
	return CheckpointerStats{
		ProcessedSequenceLen:            &base.SgwIntStat{},
		ProcessedSequenceLenPostCleanup: &base.SgwIntStat{},
		ExpectedSequenceLen:             &base.SgwIntStat{},
		ExpectedSequenceLenPostCleanup:  &base.SgwIntStat{},
	}
}

func c17New(ctx context.Context, thr int) *Checkpointer {
	return &Checkpointer{
		ctx:                            ctx,
		expectedSeqs:                   make([]SequenceID, 0),
		processedSeqs:                  make(map[SequenceID]struct{}),
		idAndRevLookup:                 make(map[IDAndRev]SequenceID),
		expectedSeqCompactionThreshold: thr,
		stats:                          c17Stats(),
	}
}

// copy of the checkpointer's list state (used by the exhaustive walk to branch)
func c17Clone(c *Checkpointer) *Checkpointer {
	n := &Checkpointer{
		ctx:                            c.ctx,
		expectedSeqs:                   append(make([]SequenceID, 0, len(c.expectedSeqs)+1), c.expectedSeqs...),
		processedSeqs:                  make(map[SequenceID]struct{}, len(c.processedSeqs)+1),
		idAndRevLookup:                 make(map[IDAndRev]SequenceID, len(c.idAndRevLookup)),
		expectedSeqCompactionThreshold: c.expectedSeqCompactionThreshold,
		stats:                          c.stats,
	}
	for k := range c.processedSeqs {
		n.processedSeqs[k] = struct{}{}
	}
	for k, v := range c.idAndRevLookup {
		n.idAndRevLookup[k] = v
	}
	return n
}

func c17IDRev(d int) IDAndRev { return IDAndRev{DocID: fmt.Sprintf("doc%d", d), RevID: "1-abc"} }

// the harness's own record of the history (ghost state of the theorems)
type c17Ghost struct {
	E       []SequenceID // every announcement, in order (duplicates kept)
	EAt     []int        // index of the operation that announced E[i]
	P       map[SequenceID]bool
	look    map[int]SequenceID
	n       int         // operations applied
	last    *SequenceID // last value returned for persistence
	lastAt  int
	lateAnn bool // some announcement so far was before an already returned checkpoint (feed not ordered)
	rets    []SequenceID
}

func c17NewGhost() *c17Ghost {
	return &c17Ghost{P: map[SequenceID]bool{}, look: map[int]SequenceID{}, lastAt: -1}
}
func (g *c17Ghost) clone() *c17Ghost {
	n := &c17Ghost{E: g.E[:len(g.E):len(g.E)], EAt: g.EAt[:len(g.EAt):len(g.EAt)], P: make(map[SequenceID]bool, len(g.P)+1),
		look: make(map[int]SequenceID, len(g.look)), n: g.n, last: g.last, lastAt: g.lastAt, lateAnn: g.lateAnn,
		rets: g.rets[:len(g.rets):len(g.rets)]}
	for k := range g.P {
		n.P[k] = true
	}
	for k, v := range g.look {
		n.look[k] = v
	}
	return n
}
func (g *c17Ghost) announce(s SequenceID) {
	for _, r := range g.rets {
		if s.Before(r) {
			g.lateAnn = true
		}
	}
	g.E = append(g.E, s)
	g.EAt = append(g.EAt, g.n)
}

// pending: some announced sequence has not been handled
func (g *c17Ghost) pending() bool {
	for _, e := range g.E {
		if !g.P[e] {
			return true
		}
	}
	return false
}

type c17Failure struct {
	monitor, sig, detail string
	ops                  []string
	thr                  int
	size                 int
}

type c17Run struct {
	t     *testing.T
	rec   *vRecorder
	ctx   context.Context
	fails map[string]c17Failure // shortest failing input per signature
	order []string
	// established by the persist stream on the real CheckpointNow: a value returned by _updateCheckpointLists
	// that is Before the last persisted checkpoint is written to the stores all the same
	persistsLower     bool
	returnedNotStored int
}

func (r *c17Run) fail(monitor, sig string, thr int, ops []c17Op, detail string) {
	r.failSized(monitor, sig, thr, ops, detail, len(ops))
}

// failStored reports a failure observed on what CheckpointNow actually stored; for one signature it is
// preferred to a (shorter) failure observed on the value returned by _updateCheckpointLists
func (r *c17Run) failStored(monitor, sig string, thr int, ops []c17Op, detail string) {
	r.failSized(monitor, sig, thr, ops, detail, len(ops)-1000)
}

func (r *c17Run) failSized(monitor, sig string, thr int, ops []c17Op, detail string, size int) {
	f, ok := r.fails[sig]
	if ok && f.size <= size {
		return
	}
	if !ok {
		r.order = append(r.order, sig)
	}
	r.fails[sig] = c17Failure{monitor: monitor, sig: sig, detail: detail, ops: c17OpsDesc(ops), thr: thr, size: size}
}

const c17KnownSig = "checkpoint-regress-late-expected"

func (r *c17Run) flush() {
	// property-level conclusions first, state-level exactness next, the known regress last
	prio := map[string]int{"checkpoint-ahead-of-unprocessed": 0, "checkpoint-not-handled-expected": 1, "checkpoint-regress-ordered-feed": 2,
		"restart-skips-unhandled": 3, "checkpointer-panic": 4, c17KnownSig: 99}
	rank := func(s string) int {
		if v, ok := prio[s]; ok {
			return v
		}
		return 50
	}
	sort.SliceStable(r.order, func(i, j int) bool { return rank(r.order[i]) < rank(r.order[j]) })
	for _, sig := range r.order {
		f := r.fails[sig]
		r.rec.Fail(f.monitor, f.sig, map[string]any{"threshold": f.thr, "ops": f.ops}, f.detail)
	}
}

func c17LeTok(x, s SequenceID) bool { return x.Before(s) || x == s }

// apply one operation to the real checkpointer, update the ghost, run the monitors.
// ok=false when the implementation panicked (reported; the caller stops this run).
func (r *c17Run) apply(c *Checkpointer, g *c17Ghost, o c17Op, thr int, path []c17Op) (obs c17Obs, ok bool) {
	ok = true
	var preE []SequenceID
	var preP map[SequenceID]struct{}
	func() {
		defer func() {
			if p := recover(); p != nil {
				ok = false
				r.fail("no_panic", "checkpointer-panic", thr, path, fmt.Sprint(p))
			}
		}()
		switch o.K {
		case 'E':
			c.AddExpectedSeqs(o.S...)
		case 'K':
			c.AddAlreadyKnownSeq(o.S...)
		case 'P':
			c.AddProcessedSeq(o.S[0])
		case 'D':
			m := make(map[IDAndRev]SequenceID, len(o.S))
			for i, s := range o.S {
				m[c17IDRev(o.D[i])] = s
			}
			c.AddExpectedSeqIDAndRevs(m)
		case 'Q':
			var sp *SequenceID
			if len(o.S) == 1 {
				s := o.S[0]
				sp = &s
			}
			c.AddProcessedSeqIDAndRev(sp, c17IDRev(o.D[0]))
		case 'T':
			preE = append([]SequenceID(nil), c.expectedSeqs...)
			preP = make(map[SequenceID]struct{}, len(c.processedSeqs))
			for k := range c.processedSeqs {
				preP[k] = struct{}{}
			}
			func() {
				c.lock.Lock()
				defer c.lock.Unlock()
				obs.Ret = c._updateCheckpointLists()
			}()
		}
		obs.LE, obs.LP = c.getCounts()
	}()
	if !ok {
		return obs, false
	}
	// ghost
	switch o.K {
	case 'E':
		for _, s := range o.S {
			g.announce(s)
		}
	case 'K':
		for _, s := range o.S {
			g.announce(s)
		}
		for _, s := range o.S {
			g.P[s] = true
		}
	case 'P':
		g.P[o.S[0]] = true
	case 'D':
		for i, s := range o.S {
			g.announce(s)
			g.look[o.D[i]] = s
		}
	case 'Q':
		var s SequenceID
		if len(o.S) == 1 {
			s = o.S[0]
		} else if v, found := g.look[o.D[0]]; found {
			s = v
		}
		delete(g.look, o.D[0])
		g.P[s] = true
	case 'T':
		r.monitorTick(c, g, obs.Ret, preE, preP, thr, path)
	}
	g.n++
	return obs, true
}

func (r *c17Run) monitorTick(c *Checkpointer, g *c17Ghost, ret *SequenceID, preE []SequenceID, preP map[SequenceID]struct{}, thr int, path []c17Op) {
	inPre := func(x SequenceID) bool { _, ok := preP[x]; return ok }
	// ---- C17_tick_exact / lists_spec on the real lists before and after the tick ----
	good := func(y SequenceID) bool {
		for _, x := range preE {
			if c17LeTok(x, y) && !inPre(x) {
				return false
			}
		}
		return true
	}
	postE := c.expectedSeqs
	inPost := map[SequenceID]bool{}
	for _, x := range postE {
		inPost[x] = true
	}
	inPreE := map[SequenceID]bool{}
	for _, x := range preE {
		inPreE[x] = true
	}
	for _, x := range preE {
		if !inPost[x] && !inPre(x) {
			r.fail("tick_exact", "tick-drops-unprocessed", thr, path, "expected sequence "+c17TokDesc(x)+" left the expected list without being processed")
		}
	}
	for _, x := range postE {
		if !inPreE[x] {
			r.fail("tick_exact", "tick-invents-expected", thr, path, "sequence "+c17TokDesc(x)+" appeared in the expected list")
		}
	}
	for k := range c.processedSeqs {
		if !inPre(k) {
			r.fail("tick_exact", "tick-marks-unprocessed", thr, path, "sequence "+c17TokDesc(k)+" became processed during a tick")
		}
	}
	if ret != nil {
		s := *ret
		if !inPreE[s] || !inPre(s) {
			r.fail("tick_exact", "tick-returns-unhandled", thr, path, "returned "+c17TokDesc(s)+" which is not an expected, processed sequence")
		}
		for _, x := range preE {
			if c17LeTok(x, s) && !inPre(x) {
				r.fail("tick_exact", "tick-unsafe-prefix", thr, path, "returned "+c17TokDesc(s)+" although expected "+c17TokDesc(x)+" is unprocessed")
			}
		}
		for _, y := range preE {
			if s.Before(y) && good(y) {
				r.fail("tick_exact", "tick-lags", thr, path, "returned "+c17TokDesc(s)+" although everything up to "+c17TokDesc(y)+" is processed")
			}
		}
		for _, x := range postE {
			if x.Before(s) {
				r.fail("tick_exact", "tick-keeps-below-checkpoint", thr, path, "kept expected "+c17TokDesc(x)+" below returned "+c17TokDesc(s))
			}
		}
		for _, x := range preE {
			if _, still := c.processedSeqs[x]; still && c17LeTok(x, s) {
				r.fail("tick_exact", "tick-leaks-processed", thr, path, "processed mark of "+c17TokDesc(x)+" survives the tick that returned "+c17TokDesc(s))
			}
		}
	} else {
		for _, y := range preE {
			if good(y) {
				r.fail("tick_exact", "tick-lags", thr, path, "returned nothing although everything up to "+c17TokDesc(y)+" is processed")
				break
			}
		}
	}
	if ret == nil {
		return
	}
	s := *ret
	// ---- C17_checkpoint_is_handled_expected ----
	inE := false
	for _, e := range g.E {
		if e == s {
			inE = true
		}
	}
	if !inE || !g.P[s] {
		r.fail("checkpoint_is_handled_expected", "checkpoint-not-handled-expected", thr, path, "returned "+c17TokDesc(s)+" which was never expected or never handled")
	}
	// ---- C17_checkpoint_safe / C17_restart_no_skip ----
	for _, e := range g.E {
		if c17LeTok(e, s) && !g.P[e] {
			r.fail("checkpoint_safe", "checkpoint-ahead-of-unprocessed", thr, path, "returned "+c17TokDesc(s)+" while expected "+c17TokDesc(e)+" is neither processed nor known")
		}
	}
	// ---- C17_checkpoint_monotone (consecutive returns suffice: before is a strict total order) ----
	if g.last != nil && s.Before(*g.last) {
		late := false
		for i, e := range g.E {
			if e == s && g.EAt[i] > g.lastAt {
				late = true
			}
		}
		detail := "checkpoint handed to _setCheckpoints moves backwards: " + c17TokDesc(*g.last) + " then " + c17TokDesc(s)
		if late && !r.persistsLower {
			// CheckpointNow was seen NOT to store a lower value (a guard exists): the lower return value is not a
			// persisted regress; counted, not reported
			r.returnedNotStored++
		} else if late {
			r.fail("checkpoint_monotone", c17KnownSig, thr, path, detail+" ("+c17TokDesc(s)+" was announced after "+c17TokDesc(*g.last)+" had been returned: feed not ordered)")
		} else {
			r.fail("checkpoint_monotone", "checkpoint-regress-ordered-feed", thr, path, detail+" (nothing below the earlier checkpoint was announced since)")
		}
	}
	if !g.lateAnn && len(g.rets) > 0 && s.Before(g.rets[len(g.rets)-1]) {
		r.fail("checkpoint_monotone", "checkpoint-regress-ordered-feed", thr, path, "feed ordered so far, yet "+c17TokDesc(g.rets[len(g.rets)-1])+" is followed by "+c17TokDesc(s))
	}
	// ---- C17_restart_no_skip_later, while the feed has been ordered ----
	if !g.lateAnn {
		for _, old := range g.rets {
			for _, e := range g.E {
				if !g.P[e] && !old.Before(e) {
					r.fail("restart_no_skip_later", "restart-skips-unhandled", thr, path, "earlier checkpoint "+c17TokDesc(old)+" is not before unhandled "+c17TokDesc(e))
				}
			}
		}
	}
	g.last = &s
	g.lastAt = g.n
	g.rets = append(g.rets, s)
}

// run a whole operation list from an empty checkpointer
func (r *c17Run) runOps(thr int, ops []c17Op) (obs []c17Obs, nontrivial bool, complete bool) {
	c := c17New(r.ctx, thr)
	g := c17NewGhost()
	for i, o := range ops {
		ob, ok := r.apply(c, g, o, thr, ops[:i+1])
		if !ok {
			return obs, nontrivial, false
		}
		obs = append(obs, ob)
		if o.K == 'T' && ob.Ret != nil && g.pending() {
			nontrivial = true
		}
	}
	return obs, nontrivial, true
}

func (r *c17Run) emitRun(stream string, thr int, ops []c17Op) {
	obs, nontrivial, complete := r.runOps(thr, ops)
	if !complete {
		return
	}
	po := make([]string, len(obs))
	pd := make([]string, len(obs))
	for i, o := range obs {
		po[i] = o.coq()
		pd[i] = o.desc()
	}
	r.rec.Case(stream, "run", "CRun "+cqI(thr)+" "+c17OpsCoq(ops)+" "+cqList(po),
		map[string]any{"threshold": thr, "ops": c17OpsDesc(ops), "observed": pd}, nontrivial)
	r.rec.Size(fmt.Sprintf("len<=%d", (len(ops)+9)/10*10))
	for _, o := range ops {
		r.rec.hist["op_"+string(o.K)]++
	}
}

// ---------- exhaustive walk ----------
func c17Mix(h, v uint64) uint64 { return (h<<5 + h + v + 1) & (1<<40 - 1) }
func c17Enc(o c17Obs) uint64 {
	c := uint64(0)
	if o.Ret != nil {
		c = 1 + o.Ret.TriggeredBy + 16*o.Ret.LowSeq + 256*o.Ret.Seq
	}
	return (c*64+uint64(o.LE))*64 + uint64(o.LP)
}

type c17Walk struct {
	r          *c17Run
	thr        int
	alpha      []c17Op
	nodes      int
	nontrivial bool
	stream     string
}

func (w *c17Walk) dfs(c *Checkpointer, g *c17Ghost, depth int, h uint64, path []c17Op) uint64 {
	if depth == 0 {
		return h
	}
	for _, o := range w.alpha {
		c2 := c17Clone(c)
		g2 := g.clone()
		p2 := append(path[:len(path):len(path)], o)
		ob, ok := w.r.apply(c2, g2, o, w.thr, p2)
		w.nodes++
		w.r.rec.Count(w.stream, "node", "", false)
		if !ok {
			h = c17Mix(h, 1<<40)
			continue
		}
		if o.K == 'T' && ob.Ret != nil && g2.pending() {
			w.nontrivial = true
		}
		h = c17Mix(h, c17Enc(ob))
		h = w.dfs(c2, g2, depth-1, h, p2)
	}
	return h
}

func TestVerifC17(t *testing.T) {
	rec := vNewRecorder(t, "C17", "C17.C17_Corr")
	rec.shardSize = 100 // smaller shards than the default so that the digest cases spread over the Coq workers
	defer rec.Finish()
	ctx := base.TestCtx(t)
	r := &c17Run{t: t, rec: rec, ctx: ctx, fails: map[string]c17Failure{}}
	defer r.flush()
	rnd := vNewRand(vSeed())

	S := func(seq uint64) SequenceID { return SequenceID{Seq: seq} }
	TS := func(trig, seq uint64) SequenceID { return SequenceID{TriggeredBy: trig, Seq: seq} }
	LS := func(low, seq uint64) SequenceID { return SequenceID{LowSeq: low, Seq: seq} }
	E := func(s ...SequenceID) c17Op { return c17Op{K: 'E', S: s} }
	K := func(s ...SequenceID) c17Op { return c17Op{K: 'K', S: s} }
	P := func(s SequenceID) c17Op { return c17Op{K: 'P', S: []SequenceID{s}} }
	T := c17Op{K: 'T'}

	// ---- corpus ----
	regress := []c17Op{E(S(20)), P(S(20)), T, E(S(5)), P(S(5)), T}
	corpus := [][]c17Op{
		regress,
		{E(S(1), S(3), S(5)), P(S(3)), P(S(5)), T, E(S(4)), P(S(1)), T}, // compaction lowers a later checkpoint
		{E(S(1), S(2), S(2), S(3)), P(S(2)), P(S(3)), T, P(S(1)), T},    // duplicate un-marked by compaction
		{E(S(1), LS(1, 3), TS(2, 1)), P(TS(2, 1)), P(S(1)), T, E(S(2), S(3)), K(S(4)), P(LS(1, 3)), T, P(S(3)), T},
		{E(S(1), S(2), S(3)), P(S(3)), P(S(2)), T, P(S(1)), T, T},
		{P(S(7)), E(S(7)), T, {K: 'Q', D: []int{9}}, E(S(0)), T},
		{{K: 'D', S: []SequenceID{S(4), S(5)}, D: []int{1, 2}}, {K: 'Q', D: []int{2}}, {K: 'Q', S: []SequenceID{S(4)}, D: []int{1}}, T},
	}
	// ---- persist (first: it also establishes whether CheckpointNow stores a lower value) ----
	// CheckpointNow against a real local checkpoint document and an in-process BLIP peer
	c17Persist(t, r, vNewRand(vSeed()^0x17), [][]c17Op{regress, corpus[3], corpus[4]})
	rec.Extra("checkpointnow_stores_lower_value", r.persistsLower)
	// ---- world: persistence, restarts, failures between the two writes, status (verif_c17_persist_test.go) ----
	c17WorldStreams(t, r, vNewRand(vSeed()^0x1717))

	for _, ops := range corpus {
		for _, thr := range []int{0, 2, 100} {
			r.emitRun("corpus", thr, ops)
		}
	}

	// ---- exhaustive ----
	toks := []SequenceID{S(1), S(2), S(3), TS(2, 1), LS(1, 3)}
	var alpha []c17Op
	for _, s := range toks {
		alpha = append(alpha, E(s))
	}
	for _, s := range toks {
		alpha = append(alpha, K(s))
	}
	for _, s := range toks {
		alpha = append(alpha, P(s))
	}
	alpha = append(alpha, T)
	// per threshold, the depth walked below each 2-operation prefix; every node is both checked by the Go
	// monitors and folded into the digest that the Coq model re-computes
	type thrDepth struct{ thr, depth int }
	plan := []thrDepth{{1, 3}, {2, 2}, {100, 3}}
	if vThorough() {
		plan = []thrDepth{{0, 3}, {1, 4}, {2, 3}, {100, 3}}
	}
	totalNodes := 0
	var scope []string
	for _, pl := range plan {
		thr := pl.thr
		scope = append(scope, fmt.Sprintf("threshold %d: length <= %d", thr, 2+pl.depth))
		for _, o1 := range alpha {
			for _, o2 := range alpha {
				pre := []c17Op{o1, o2}
				c := c17New(ctx, thr)
				g := c17NewGhost()
				h := uint64(0)
				okAll := true
				for i, o := range pre {
					ob, ok := r.apply(c, g, o, thr, pre[:i+1])
					if !ok {
						okAll = false
						break
					}
					h = c17Mix(h, c17Enc(ob))
				}
				if !okAll {
					continue
				}
				w := &c17Walk{r: r, thr: thr, alpha: alpha, stream: "exhaustive"}
				d := w.dfs(c, g, pl.depth, h, pre)
				totalNodes += w.nodes + 2
				rec.Case("exhaustive", "subtree", "CDfs "+cqI(thr)+" "+c17OpsCoq(alpha)+" "+c17OpsCoq(pre)+" "+cqI(pl.depth)+" "+cqN(d),
					map[string]any{"threshold": thr, "prefix": c17OpsDesc(pre), "depth_below": pl.depth, "nodes": w.nodes, "digest": d}, w.nontrivial)
			}
		}
	}
	rec.Extra("exhaustive", true)
	rec.Extra("exhaustive_scope", fmt.Sprintf("every operation sequence over %d operations (expect/known/processed of tokens 1,2,3,2:1,1::3, and tick), %s; %d nodes, each checked by the Go monitors and re-computed by the Coq model (digests)", len(alpha), strings.Join(scope, "; "), totalNodes))

	// ---- short: every sequence of length <= 2 as an explicit, readable case ----
	for _, thr := range []int{0} { // threshold 0 is not in the quick exhaustive plan
		for _, o1 := range alpha {
			r.emitRun("short", thr, []c17Op{o1, T})
			for _, o2 := range alpha {
				r.emitRun("short", thr, []c17Op{o1, o2, T})
			}
		}
	}

	// ---- random streams ----
	pickThr := func() int { return []int{0, 1, 2, 5, 100}[rnd.Intn(5)] }
	randTok := func(max uint64) SequenceID {
		s := SequenceID{Seq: 1 + uint64(rnd.Intn(int(max)))}
		switch rnd.Intn(6) {
		case 0:
			s.TriggeredBy = 1 + uint64(rnd.Intn(int(max)))
		case 1:
			s.LowSeq = 1 + uint64(rnd.Intn(int(max)))
		case 2:
			if rnd.Chance(30) {
				s.TriggeredBy = 1 + uint64(rnd.Intn(int(max)))
				s.LowSeq = 1 + uint64(rnd.Intn(int(max)))
			}
		}
		if rnd.Chance(3) {
			s.Seq = 1<<63 + uint64(rnd.Intn(4))
		}
		return s
	}
	// (1) ordered: a pool of distinct tokens announced in Before-order in batches, completed out of order
	ordered := func(late bool) []c17Op {
		n := 4 + rnd.Intn(14)
		seen := map[SequenceID]bool{}
		var pool []SequenceID
		for len(pool) < n {
			s := randTok(30)
			if !seen[s] {
				seen[s] = true
				pool = append(pool, s)
			}
		}
		sort.Slice(pool, func(i, j int) bool { return pool[i].Before(pool[j]) })
		var held []SequenceID // late mode: some tokens are held back and announced later
		if late {
			var keep []SequenceID
			for _, s := range pool {
				if rnd.Chance(20) {
					held = append(held, s)
				} else {
					keep = append(keep, s)
				}
			}
			pool = keep
		}
		var ops []c17Op
		type pend struct {
			s   SequenceID
			doc int
		}
		var pending []pend
		next, doc := 0, 0
		for steps := 0; steps < 60 && (next < len(pool) || len(pending) > 0 || len(held) > 0); steps++ {
			switch x := rnd.Intn(10); {
			case x < 3 && next < len(pool):
				k := 1 + rnd.Intn(4)
				if next+k > len(pool) {
					k = len(pool) - next
				}
				batch := pool[next : next+k]
				next += k
				switch rnd.Intn(5) {
				case 0:
					ops = append(ops, K(batch...))
				case 1:
					o := c17Op{K: 'D'}
					for _, s := range batch {
						doc++
						o.S = append(o.S, s)
						o.D = append(o.D, doc)
						pending = append(pending, pend{s, doc})
					}
					ops = append(ops, o)
				default:
					ops = append(ops, E(batch...))
					for _, s := range batch {
						pending = append(pending, pend{s, 0})
					}
				}
			case x < 4 && len(held) > 0:
				i := rnd.Intn(len(held))
				ops = append(ops, E(held[i]))
				pending = append(pending, pend{held[i], 0})
				held = append(held[:i], held[i+1:]...)
			case x < 8 && len(pending) > 0:
				i := rnd.Intn(len(pending))
				p := pending[i]
				pending = append(pending[:i], pending[i+1:]...)
				if p.doc > 0 {
					if rnd.Bool() {
						ops = append(ops, c17Op{K: 'Q', D: []int{p.doc}})
					} else {
						ops = append(ops, c17Op{K: 'Q', S: []SequenceID{p.s}, D: []int{p.doc}})
					}
				} else {
					ops = append(ops, P(p.s))
				}
			default:
				ops = append(ops, T)
			}
		}
		return append(ops, T)
	}
	for i := 0; i < vBudget(350, 1500); i++ {
		r.emitRun("ordered", pickThr(), ordered(false))
	}
	for i := 0; i < vBudget(250, 1000); i++ {
		r.emitRun("late", pickThr(), ordered(true))
	}
	// (2) adversarial: anything goes over a small universe (duplicates, completions never announced or
	// announced later, lookups that fail, re-announcements)
	for i := 0; i < vBudget(500, 2500); i++ {
		u := make([]SequenceID, 3+rnd.Intn(6))
		for j := range u {
			u[j] = randTok(6)
		}
		pick := func() SequenceID { return u[rnd.Intn(len(u))] }
		n := 4 + rnd.Intn(30)
		var ops []c17Op
		for j := 0; j < n; j++ {
			switch x := rnd.Intn(20); {
			case x < 6:
				l := make([]SequenceID, rnd.Intn(4))
				for k := range l {
					l[k] = pick()
				}
				ops = append(ops, E(l...))
			case x < 8:
				l := make([]SequenceID, rnd.Intn(3))
				for k := range l {
					l[k] = pick()
				}
				ops = append(ops, K(l...))
			case x < 13:
				ops = append(ops, P(pick()))
			case x < 14:
				o := c17Op{K: 'D'}
				used := map[int]bool{}
				for k := rnd.Intn(3); k >= 0; k-- {
					d := rnd.Intn(4)
					if used[d] {
						continue
					}
					used[d] = true
					o.S = append(o.S, pick())
					o.D = append(o.D, d)
				}
				ops = append(ops, o)
			case x < 15:
				o := c17Op{K: 'Q', D: []int{rnd.Intn(4)}}
				if rnd.Chance(40) {
					o.S = []SequenceID{pick()}
				}
				ops = append(ops, o)
			default:
				ops = append(ops, T)
			}
		}
		r.emitRun("adversarial", pickThr(), append(ops, T))
	}

	rec.Extra("monitor_signatures_seen", r.order)
	rec.Extra("lower_return_values_not_stored", r.returnedNotStored)
}

// c17Persist drives CheckpointNow (the real persistence path: _updateCheckpointLists, _setCheckpoints,
// setLocalCheckpointWithRetry -> putSpecial on a real data store, setRemoteCheckpointWithRetry -> BLIP
// setCheckpoint to a peer that stores it with the passive side's putSpecial) and reads back what is stored.
func c17Persist(t *testing.T, r *c17Run, rnd *vRand, fixed [][]c17Op) {
	ctx := r.ctx
	bucket := base.GetTestBucket(t)
	defer bucket.Close(ctx)
	ds := bucket.GetSingleDataStore()

	const proto = "verif_c17"
	srvCtx, err := blip.NewContext(blip.ContextOptions{ProtocolIds: []string{proto}})
	if err != nil {
		t.Fatalf("blip server context: %v", err)
	}
	srvCtx.HandlerForProfile[MessageSetCheckpoint] = func(rq *blip.Message) {
		resp := rq.Response()
		var body Body
		if err := rq.ReadJSONBody(&body); err != nil {
			resp.SetError("HTTP", 400, err.Error())
			return
		}
		body, _ = stripAllSpecialProperties(body)
		rev := rq.Properties[SetCheckpointRev]
		revID, _, err := putSpecial(ctx, ds, DocTypeLocal, CheckpointDocIDPrefix+"peer-"+rq.Properties[SetCheckpointClient], rev, body, 0)
		if err != nil {
			st, msg := base.ErrorAsHTTPStatus(err)
			resp.SetError("HTTP", st, msg)
			return
		}
		resp.Properties[SetCheckpointResponseRev] = revID
	}
	srvCtx.HandlerForProfile[MessageGetCheckpoint] = func(rq *blip.Message) {
		rq.Response().SetError("HTTP", 404, "Not Found")
	}
	server := httptest.NewServer(srvCtx.WebSocketServer())
	defer server.Close()
	cliCtx, err := blip.NewContext(blip.ContextOptions{ProtocolIds: []string{proto}})
	if err != nil {
		t.Fatalf("blip client context: %v", err)
	}
	sender, err := cliCtx.Dial("ws" + strings.TrimPrefix(server.URL, "http"))
	if err != nil {
		t.Fatalf("blip dial: %v", err)
	}
	defer sender.Close()

	lastRev := ""
	stored := func(docID string) *string {
		raw, err := getSpecialBytes(ctx, ds, DocTypeLocal, docID, 0)
		if err != nil {
			lastRev = ""
			return nil
		}
		var cp replicationCheckpoint
		if json.Unmarshal(raw, &cp) != nil {
			lastRev = ""
			return nil
		}
		lastRev = cp.Rev
		return &cp.LastSeq
	}
	optStr := func(s *string) string {
		if s == nil {
			return "None"
		}
		return "(Some " + cqStr(*s) + ")"
	}
	descStr := func(s *string) string {
		if s == nil {
			return "-"
		}
		return *s
	}

	var cases [][]c17Op
	cases = append(cases, fixed...)
	for i := 0; i < vBudget(12, 60); i++ {
		// short runs over simple and canonical compound tokens, late announcements included
		u := []SequenceID{{Seq: 3}, {Seq: 5}, {Seq: 8}, {Seq: 20}, {LowSeq: 4, Seq: 20}, {TriggeredBy: 9, Seq: 2}, {Seq: 1 << 40}}
		var ops []c17Op
		for j, n := 0, 4+rnd.Intn(10); j < n; j++ {
			s := u[rnd.Intn(len(u))]
			switch rnd.Intn(5) {
			case 0, 1:
				ops = append(ops, c17Op{K: 'E', S: []SequenceID{s}})
			case 2, 3:
				ops = append(ops, c17Op{K: 'P', S: []SequenceID{s}})
			default:
				ops = append(ops, c17Op{K: 'T'})
			}
		}
		cases = append(cases, append(ops, c17Op{K: 'T'}))
	}
	for n, ops := range cases {
		thr := []int{2, 100}[n%2]
		client := fmt.Sprintf("c17-%d-%d", vSeed(), n)
		c := c17New(ctx, thr)
		c.clientID = client
		c.configHash = "verif"
		c.blipSender = sender
		c.collectionDataStore = ds
		c.metadataStore = ds
		g := c17NewGhost()
		var loc, rem, ld, rd []string
		var prev *SequenceID
		prevAt := -1
		nontrivial := false
		panicked := false
		localRev := ""
		for i, o := range ops {
			path := ops[:i+1]
			switch o.K {
			case 'E':
				c.AddExpectedSeqs(o.S...)
				for _, s := range o.S {
					g.announce(s)
				}
			case 'P':
				c.AddProcessedSeq(o.S[0])
				g.P[o.S[0]] = true
			case 'D':
				m := map[IDAndRev]SequenceID{}
				for k, s := range o.S {
					m[c17IDRev(o.D[k])] = s
					g.announce(s)
					g.look[o.D[k]] = s
				}
				c.AddExpectedSeqIDAndRevs(m)
			case 'K':
				c.AddAlreadyKnownSeq(o.S...)
				for _, s := range o.S {
					g.announce(s)
					g.P[s] = true
				}
			case 'T':
				func() {
					defer func() {
						if p := recover(); p != nil {
							panicked = true
							r.failStored("no_panic", "checkpointer-panic", thr, path, fmt.Sprint(p))
						}
					}()
					c.CheckpointNow()
				}()
			}
			if panicked {
				break
			}
			g.n++
			m := stored(CheckpointDocIDPrefix + "peer-" + client)
			l := stored(CheckpointDocIDPrefix + client)
			written := lastRev != localRev // this call wrote the local checkpoint document
			localRev = lastRev
			loc, rem = append(loc, optStr(l)), append(rem, optStr(m))
			ld, rd = append(ld, descStr(l)), append(rd, descStr(m))
			if o.K != 'T' {
				continue
			}
			// monitors on what is actually stored
			if (l == nil) != (m == nil) || (l != nil && *l != *m) {
				r.failStored("persisted_local_equals_remote", "persisted-local-remote-differ", thr, path, "local "+descStr(l)+" remote "+descStr(m))
			}
			if l == nil {
				continue
			}
			cur, perr := parseIntegerSequenceID(*l)
			if perr != nil {
				r.failStored("persisted_parses", "persisted-unparseable", thr, path, *l)
				continue
			}
			if c.lastCheckpointSeq.String() != *l {
				r.failStored("persisted_is_last_checkpoint", "persisted-differs-from-lastCheckpointSeq", thr, path, "stored "+*l+" lastCheckpointSeq "+c.lastCheckpointSeq.String())
			}
			if !written {
				continue
			}
			for _, e := range g.E {
				if c17LeTok(e, cur) && !g.P[e] {
					r.failStored("checkpoint_safe", "checkpoint-ahead-of-unprocessed", thr, path, "persisted "+*l+" while expected "+c17TokDesc(e)+" is neither processed nor known")
				}
			}
			if g.pending() {
				nontrivial = true
			}
			if prev != nil && cur.Before(*prev) {
				late := false
				for k, e := range g.E {
					if e == cur && g.EAt[k] > prevAt {
						late = true
					}
				}
				detail := "PERSISTED checkpoint (local document and remote peer) moves backwards: " + prev.String() + " then " + *l
				r.persistsLower = true
				if late {
					r.failStored("checkpoint_monotone", c17KnownSig, thr, path, detail+" (announced after the earlier checkpoint was persisted)")
				} else {
					r.failStored("checkpoint_monotone", "checkpoint-regress-ordered-feed", thr, path, detail)
				}
			}
			if prev == nil || cur != *prev {
				cc := cur
				prev = &cc
				prevAt = g.n - 1
			}
		}
		if panicked {
			continue
		}
		r.rec.Case("persist", "persist", "CPersist "+cqI(thr)+" "+c17OpsCoq(ops)+" "+cqList(loc)+" "+cqList(rem),
			map[string]any{"threshold": thr, "ops": c17OpsDesc(ops), "local_last_sequence": ld, "remote_last_sequence": rd}, nontrivial)
	}
}
