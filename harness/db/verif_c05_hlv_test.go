//go:build verif

package db

import (
	"fmt"
	"sort"
	"strings"
)

// C05, version-vector protocol: rev messages that carry an HLV ("<version>@<source>") go through
// db.PutExistingCurrentVersion, which the write-loop model does not cover (no HLV in the model).  This stream is
// monitor-only: it drives the REAL blipHandler.handleRev of a plain client connection (version-vector protocol,
// no resolver, not a peer gateway) on a conflict-free database, interleaved with REST writes, on live and on
// tombstoned documents, and checks after each message the instances of the C05 theorems that do not depend on the
// model's state: a refused push leaves the document untouched (C05_loser_leaves_no_trace), an acknowledged one
// gets a greater sequence (C05_acked_seq_increasing), and -- C05_plain_clients_one_child_per_parent -- no parent
// revision ever has two children.

type c05HlvSnap struct {
	exists  bool
	seq     uint64
	cur     string
	deleted bool
	cv      string
	tree    map[string]string // id -> parent|deleted
}

func (e *c05Env) hlvSnap(docid string) c05HlvSnap {
	doc, err := e.col.GetDocument(e.ctx, docid, DocUnmarshalAll)
	if err != nil || doc == nil {
		return c05HlvSnap{tree: map[string]string{}}
	}
	s := c05HlvSnap{exists: true, seq: doc.Sequence, cur: doc.GetRevTreeID(), deleted: doc.IsDeleted(), tree: map[string]string{}}
	if doc.HLV != nil {
		s.cv = doc.HLV.GetCurrentVersionString()
	}
	for id, ri := range doc.History {
		s.tree[id] = fmt.Sprintf("%s|%v", ri.Parent, ri.Deleted)
	}
	return s
}

func c05HlvSameTree(a, b map[string]string) bool {
	if len(a) != len(b) {
		return false
	}
	for k, v := range a {
		if b[k] != v {
			return false
		}
	}
	return true
}

func c05HLVStream(rec *vRecorder, rnd *vRand, e *c05Env) {
	n := vBudget(70, 500)
	for i := 0; i < n; i++ {
		e.docN++
		docid := fmt.Sprintf("c05hlv%d", e.docN)
		var revs []string // revtree ids of the document, oldest first
		var trace []string
		ver := uint64(0x10)
		steps := 3 + rnd.Intn(5)
		for s := 0; s < steps; s++ {
			before := e.hlvSnap(docid)
			if !before.exists || (!before.deleted && rnd.Chance(35)) {
				// REST write: create, child of the current revision, or deletion of it
				b := Body{"tag": s, "channels": []string{"c"}}
				what := "rest-put"
				if before.exists {
					b[BodyRev] = before.cur
					if rnd.Chance(45) {
						b[BodyDeleted] = true
						what = "rest-delete"
					}
				}
				rev, _, err := e.col.Put(e.ctx, docid, b)
				if err != nil {
					rec.Err("hlv_stream_rest_error:" + c05Classify(err))
					break
				}
				revs = append(revs, rev)
				trace = append(trace, what+" -> "+rev)
				continue
			}
			// a rev message with an HLV from a plain client
			ver += 1 + uint64(rnd.Intn(3))
			src := []string{"c3JjQQ", "c3JjQg"}[rnd.Intn(2)]
			w := &c05Writer{tag: 1000 + s, deleted: rnd.Chance(50), noconf: rnd.Chance(50), via: c05ViaBlip, conn: c05PlainV4}
			w.history = []string{fmt.Sprintf("%x@%s", ver, src)}
			mode := rnd.Intn(4)
			legacy := ""
			if len(revs) > 0 {
				legacy = revs[rnd.Intn(len(revs))]
			}
			modeName := ""
			switch {
			case mode == 0 && before.cv != "":
				modeName = "knows-current-version"
				w.history = append(w.history, before.cv)
			case mode == 1 && legacy != "":
				modeName = "stale-with-revtree-history"
				w.history = append(w.history, legacy)
			case mode == 2 && before.cv != "" && legacy != "":
				modeName = "knows-current-version-with-revtree-history"
				w.history = append(w.history, before.cv, legacy)
			default:
				modeName = "stale-without-history"
			}
			err := e.blipPush(c05PlainV4, docid, w)
			after := e.hlvSnap(docid)
			outcome := c05Classify(err)
			state := "live"
			if before.deleted {
				state = "tombstoned"
			}
			input := map[string]any{"doc": docid, "before": trace, "rev": w.history[0], "history": strings.Join(w.history[1:], ","), "deleted": w.deleted,
				"noconflicts": w.noconf, "document_state": state, "connection": "client-v4 (HLV)", "outcome": outcome}
			acked := err == nil && after.seq != before.seq
			if err != nil && (after.seq != before.seq || !c05HlvSameTree(before.tree, after.tree) || after.cur != before.cur) {
				rec.Fail("refused_push_no_trace", "refused-push-changed-document", input, "a refused rev message changed the stored document")
			}
			if acked && after.seq <= before.seq {
				rec.Fail("acked_seq_increasing", "sequence-not-increasing", input, "acknowledged rev message did not get a sequence above the one it superseded")
			}
			if acked {
				children := map[string][]string{}
				for id, pd := range after.tree {
					if p := strings.SplitN(pd, "|", 2)[0]; p != "" {
						children[p] = append(children[p], id)
					}
				}
				for p, ch := range children {
					if len(ch) > 1 {
						sort.Strings(ch)
						input["parent"], input["children"] = p, ch
						rec.Fail("one_child_per_parent_all", "hlv-second-child-without-forced-tombstone", input,
							"a rev message from a plain client was acknowledged and a parent revision now has two accepted children (conflict-free database)")
					}
				}
				if after.cur != "" && after.cur != before.cur {
					revs = append(revs, after.cur)
				}
			}
			if err == nil && !acked {
				outcome = "noop"
			}
			trace = append(trace, fmt.Sprintf("hlv-push %s del=%v %s -> %s", w.history[0], w.deleted, modeName, outcome))
			rec.Count("blip-hlv", "hlv_push", fmt.Sprintf("%s|%s|%v|%s|%d", modeName, state, w.deleted, outcome, len(after.tree)), err != nil || before.deleted)
			rec.Err("hlv_push:" + modeName + ":" + state + ":" + outcome)
		}
	}
}
