//go:build verif

package db

import (
	"bytes"
	"context"
	"fmt"
	"os"
	"sort"
	"strings"
	"testing"
	"time"

	sgbucket "github.com/couchbase/sg-bucket"
	"github.com/couchbase/sync_gateway/auth"
	"github.com/couchbase/sync_gateway/base"
)

// C11: fault enumeration.  For each request kind: run it cleanly with a tracing DataStore decorator (the
// storage-operation trace), then re-run it on a fresh but identical pre-state failing the k-th storage
// operation, for every k and every fault mode, and read the primary state back through the un-faulted store.

type c11Env struct {
	t    *testing.T
	ctx  context.Context
	db   *Database
	col  *DatabaseCollectionWithUser
	fs   *vFaultStore
	ms   *vFaultStore
	rawC base.DataStore
	rawM base.DataStore
	n    int
}

func c11NewEnv(t *testing.T) *c11Env {
	db, ctx := SetupTestDBWithOptions(t, DatabaseContextOptions{AllowConflicts: base.Ptr(true), BcryptCost: 4})
	col, ctx := GetSingleDatabaseCollectionWithUser(ctx, t, db)
	_, err := col.UpdateSyncFun(ctx, c11SyncFn)
	if err != nil {
		t.Fatalf("sync fn: %v", err)
	}
	e := &c11Env{t: t, ctx: ctx, db: db, col: col, rawC: col.dataStore, rawM: db.MetadataStore}
	e.fs = &vFaultStore{DataStore: col.dataStore, readFaults: true, onlyGoroutine: vGoID(), noteAttempts: true}
	col.dataStore = e.fs
	e.ms = &vFaultStore{DataStore: db.MetadataStore, readFaults: true, onlyGoroutine: vGoID()}
	db.MetadataStore = e.ms
	db.sequences.datastore = e.ms
	db.sequences.releaseSequenceWait = time.Hour
	// rosmar reports cross-cluster versioning as enabled, which switches the obsolete-attachment sweep off; the
	// flag is what updateAndReturnDoc consults (as the C14 harness does)
	db.CachedCCVEnabled.Store(false)
	return e
}

// raw read of a key from both stores: value + sync/vv/mou xattrs (bytes) + cas; "" when absent.
// noCas: leave the CAS out (CAS-retry kinds: the competing touch that forces the retry changes it)
func (e *c11Env) rawState(keys []string, noCas bool) map[string]string {
	casOf := func(c uint64) uint64 {
		if noCas {
			return 0
		}
		return c
	}
	out := map[string]string{}
	for _, k := range keys {
		for name, ds := range map[string]base.DataStore{"C": e.rawC, "M": e.rawM} {
			v, xs, cas, err := ds.GetWithXattrs(e.ctx, k, []string{base.SyncXattrName, base.VvXattrName, base.MouXattrName, base.GlobalXattrName})
			if err != nil {
				// not a document with xattrs: try plain
				rv, c2, err2 := ds.GetRaw(e.ctx, k)
				if err2 != nil {
					out[name+":"+k] = ""
					continue
				}
				out[name+":"+k] = fmt.Sprintf("cas=%d v=%s", casOf(c2), rv)
				continue
			}
			var xk []string
			for x := range xs {
				xk = append(xk, x)
			}
			sort.Strings(xk)
			var b bytes.Buffer
			fmt.Fprintf(&b, "cas=%d v=%s", casOf(cas), v)
			for _, x := range xk {
				fmt.Fprintf(&b, " %s=%s", x, xs[x])
			}
			out[name+":"+k] = b.String()
		}
	}
	return out
}

type c11Req struct {
	kind    string
	setup   func(e *c11Env, id string)                // un-faulted preparation of the pre-state
	run     func(e *c11Env, id string) error          // the request under test
	primary func(e *c11Env, id string) []string       // keys whose state must be all-or-nothing
	done    func(e *c11Env, id string) (bool, string) // is the request's effect visible to a subsequent read?

	// ---- requests with several commits (sub-requests) ----
	subs     int                                              // number of sub-requests (0 = 1)
	cont     bool                                             // a failed sub-request does not stop the following ones (bulk); else it aborts them
	runN     func(e *c11Env, id string) []error               // cont: one result per sub-request
	primaryN func(e *c11Env, id string, i int) []string       // keys of sub-request i
	doneN    func(e *c11Env, id string, i int) (bool, string) // effect of sub-request i visible?
	intactN  func(e *c11Env, id string, i int) bool           // abort mode, i>0: exactly the commits before i happened, nothing else
	// ---- follow-ups that are part of the visible effect ----
	core func(e *c11Env, id string) bool // the commit itself is visible (done = commit AND required follow-up effect)
	// ---- CAS retry inside the request ----
	hook  func(e *c11Env, id string) func(key string, n int, cbErr error) error
	noCas bool
	// ---- the commit copies an out-of-line revision body into the document (promotion of a non-winning revision) ----
	// the reads of _sync:rb: documents in the attempt that commits are class ReadBody (their failure is swallowed and
	// loses the body: finding swallowed-failure:promoted-revision-body-unreadable)
	bodyReads bool
}

func (rq *c11Req) nsubs() int {
	if rq.subs > 1 {
		return rq.subs
	}
	return 1
}
func (rq *c11Req) keysOf(e *c11Env, id string, i int) []string {
	if rq.primaryN != nil {
		return rq.primaryN(e, id, i)
	}
	return rq.primary(e, id)
}
func (rq *c11Req) doneOf(e *c11Env, id string, i int) (bool, string) {
	if rq.doneN != nil {
		return rq.doneN(e, id, i)
	}
	return rq.done(e, id)
}

// results: one per sub-request for cont requests, otherwise the single result of the request
func (rq *c11Req) exec(e *c11Env, id string) []error {
	if rq.runN != nil {
		return rq.runN(e, id)
	}
	return []error{rq.run(e, id)}
}

// afterDocCommit: a document commit of the same sub-request precedes the operation
func c11Class(op, key string, afterDocCommit bool) string {
	switch {
	case strings.HasPrefix(op, "Get"):
		return "Read"
	case (op == "Update" || op == "SubdocInsert") && (strings.Contains(key, "_sync:user") || strings.Contains(key, "_sync:role")):
		if afterDocCommit {
			// MarkPrincipalsChanged: the invalidation of a principal whose access the committed revision changed.
			// Its failure is logged and swallowed although the access change is part of the write's visible effect.
			return "Inval"
		}
		return "Read" // loading a principal refreshes its computed channels in place (idempotent read-repair)
	case op == "WriteUpdateWithXattrs":
		return "Aux" // entering the write: a failure aborts the request before anything happened
	case op == "Delete" && (strings.Contains(key, "_sync:rb:") || strings.Contains(key, "_sync:att")):
		// deleteRemovedRevisionBodies / the obsolete-attachment sweep: the delete of an auxiliary document that the
		// state before the request references.  Best effort (its failure is logged); only allowed after the commit.
		return "Cleanup"
	case strings.Contains(key, "_sync:rev:"):
		return "Opt" // temporary backup of the superseded revision body: best effort by design
	case strings.Contains(key, "unusedSeq"):
		return "Aux"
	case strings.HasSuffix(key, ":seq") || strings.Contains(key, "_sync:seq"):
		return "Aux"
	case strings.Contains(key, "_sync:att") || strings.Contains(key, "_sync:rb:") || strings.Contains(key, "_sync:rev:"):
		return "Aux"
	case strings.Contains(key, "useremail"):
		return "PostErr" // written by auth.Save after the principal; its failure is returned to the caller
	}
	return "Commit"
}

func (e *c11Env) put(id string, body Body) (string, *Document, error) {
	return e.col.Put(e.ctx, id, body)
}

func c11Requests() []c11Req {
	big := strings.Repeat("y", 300)
	docKey := func(e *c11Env, id string) []string { return []string{id} }
	userKeys := func(e *c11Env, id string) []string {
		a := e.db.Authenticator(e.ctx)
		return []string{a.DocIDForUser("u" + id), a.DocIDForRole("r" + id), id}
	}
	curRev := func(e *c11Env, id string) (string, Body) {
		doc, err := e.col.GetDocument(e.ctx, id, DocUnmarshalAll)
		if err != nil || doc == nil {
			return "", nil
		}
		b, _ := e.col.Get1xBody(e.ctx, id)
		return doc.GetRevTreeID(), b
	}
	return []c11Req{
		{kind: "doc_create",
			setup: func(e *c11Env, id string) {},
			run: func(e *c11Env, id string) error {
				_, _, err := e.put(id, Body{"v": 1, "channels": []string{"a"}})
				return err
			},
			primary: docKey,
			done: func(e *c11Env, id string) (bool, string) {
				_, b := curRev(e, id)
				return b != nil && fmt.Sprint(b["v"]) == "1", fmt.Sprint(b)
			}},
		{kind: "doc_update",
			setup: func(e *c11Env, id string) { _, _, _ = e.put(id, Body{"v": 1, "channels": []string{"a"}}) },
			run: func(e *c11Env, id string) error {
				rev, _ := curRev(e, id)
				_, _, err := e.put(id, Body{"v": 2, "channels": []string{"b"}, BodyRev: rev})
				return err
			},
			primary: docKey,
			done: func(e *c11Env, id string) (bool, string) {
				_, b := curRev(e, id)
				return b != nil && fmt.Sprint(b["v"]) == "2", fmt.Sprint(b)
			}},
		{kind: "doc_delete",
			setup: func(e *c11Env, id string) { _, _, _ = e.put(id, Body{"v": 1, "channels": []string{"a"}}) },
			run: func(e *c11Env, id string) error {
				rev, _ := curRev(e, id)
				_, _, err := e.put(id, Body{BodyDeleted: true, BodyRev: rev})
				return err
			},
			primary: docKey,
			done: func(e *c11Env, id string) (bool, string) {
				doc, err := e.col.GetDocument(e.ctx, id, DocUnmarshalAll)
				return err == nil && doc != nil && doc.IsDeleted(), ""
			}},
		{kind: "doc_rejected",
			setup: func(e *c11Env, id string) { _, _, _ = e.put(id, Body{"v": 1, "channels": []string{"a"}}) },
			run: func(e *c11Env, id string) error {
				rev, _ := curRev(e, id)
				_, _, err := e.put(id, Body{"v": 2, "reject": true, BodyRev: rev})
				return err
			},
			primary: docKey,
			done:    func(e *c11Env, id string) (bool, string) { return false, "a rejected write must never succeed" }},
		{kind: "conflicting_push_big_body",
			setup: func(e *c11Env, id string) {
				_, _, _ = e.put(id, Body{"v": 1, "channels": []string{"a"}})
				rev, _ := curRev(e, id)
				_, _, _ = e.put(id, Body{"v": 2, "channels": []string{"a"}, BodyRev: rev})
			},
			run: func(e *c11Env, id string) error {
				_, _, err := e.col.PutExistingRevWithBody(e.ctx, id, Body{"v": 9, "pad": big, "channels": []string{"a"}}, []string{"1-0000000000000000000000000000c0de"}, false, ExistingVersionWithUpdateToHLV)
				return err
			},
			primary: docKey,
			done: func(e *c11Env, id string) (bool, string) {
				b, err := e.col.Get1xRevBody(e.ctx, id, "1-0000000000000000000000000000c0de", false, nil)
				return err == nil && fmt.Sprint(b["v"]) == "9", fmt.Sprint(err)
			}},
		{kind: "attachment_write",
			setup: func(e *c11Env, id string) { _, _, _ = e.put(id, Body{"v": 1, "channels": []string{"a"}}) },
			run: func(e *c11Env, id string) error {
				rev, _ := curRev(e, id)
				_, _, err := e.put(id, Body{"v": 2, "channels": []string{"a"}, BodyRev: rev,
					BodyAttachments: map[string]any{"att.txt": map[string]any{"data": "aGVsbG8gd29ybGQ=", "content_type": "text/plain"}}})
				return err
			},
			primary: docKey,
			done: func(e *c11Env, id string) (bool, string) {
				doc, err := e.col.GetDocument(e.ctx, id, DocUnmarshalAll)
				if err != nil || doc == nil {
					return false, "no doc"
				}
				meta, ok := doc.Attachments()["att.txt"].(map[string]any)
				if !ok {
					return false, "no attachment metadata"
				}
				data, err := e.col.GetAttachment(e.ctx, MakeAttachmentKey(AttVersion2, id, meta["digest"].(string)))
				if err != nil {
					return false, "attachment data unreadable: " + err.Error()
				}
				return string(data) == "hello world", string(data)
			}},
		{kind: "doc_grant_access",
			setup: func(e *c11Env, id string) {
				_, _, _ = e.db.UpdatePrincipal(e.ctx, &auth.PrincipalConfig{Name: base.Ptr("u" + id), Password: base.Ptr("letmein")}, true, true)
			},
			run: func(e *c11Env, id string) error {
				_, _, err := e.put(id, Body{"v": 1, "channels": []string{"a"}, "grant": "u" + id})
				return err
			},
			primary: userKeys,
			core: func(e *c11Env, id string) bool {
				_, b := curRev(e, id)
				return b != nil && fmt.Sprint(b["v"]) == "1"
			},
			done: func(e *c11Env, id string) (bool, string) {
				u, err := e.db.Authenticator(e.ctx).GetUser("u" + id)
				if err != nil || u == nil {
					return false, "no user"
				}
				ch, err := u.InheritedCollectionChannels(e.col.ScopeName, e.col.Name)
				return err == nil && ch.Contains("granted"), fmt.Sprint(ch)
			}},
		{kind: "user_create",
			setup: func(e *c11Env, id string) {},
			run: func(e *c11Env, id string) error {
				_, _, err := e.db.UpdatePrincipal(e.ctx, &auth.PrincipalConfig{Name: base.Ptr("u" + id), Password: base.Ptr("letmein"), ExplicitChannels: base.SetOf("x")}, true, true)
				return err
			},
			primary: userKeys,
			done: func(e *c11Env, id string) (bool, string) {
				u, err := e.db.Authenticator(e.ctx).GetUser("u" + id)
				return err == nil && u != nil && u.ExplicitChannels().Contains("x"), ""
			}},
		{kind: "user_create_with_email",
			setup: func(e *c11Env, id string) {},
			run: func(e *c11Env, id string) error {
				_, _, err := e.db.UpdatePrincipal(e.ctx, &auth.PrincipalConfig{Name: base.Ptr("u" + id), Password: base.Ptr("letmein"), Email: base.Ptr(id + "@example.com")}, true, true)
				return err
			},
			primary: userKeys,
			done: func(e *c11Env, id string) (bool, string) {
				u, err := e.db.Authenticator(e.ctx).GetUser("u" + id)
				return err == nil && u != nil && u.Email() == id+"@example.com", ""
			}},
		{kind: "user_update_channels",
			setup: func(e *c11Env, id string) {
				_, _, _ = e.db.UpdatePrincipal(e.ctx, &auth.PrincipalConfig{Name: base.Ptr("u" + id), Password: base.Ptr("letmein"), ExplicitChannels: base.SetOf("x")}, true, true)
			},
			run: func(e *c11Env, id string) error {
				_, _, err := e.db.UpdatePrincipal(e.ctx, &auth.PrincipalConfig{Name: base.Ptr("u" + id), ExplicitChannels: base.SetOf("y")}, true, true)
				return err
			},
			primary: userKeys,
			done: func(e *c11Env, id string) (bool, string) {
				u, err := e.db.Authenticator(e.ctx).GetUser("u" + id)
				return err == nil && u != nil && u.ExplicitChannels().Contains("y") && !u.ExplicitChannels().Contains("x"), ""
			}},
		{kind: "role_create",
			setup: func(e *c11Env, id string) {},
			run: func(e *c11Env, id string) error {
				_, _, err := e.db.UpdatePrincipal(e.ctx, &auth.PrincipalConfig{Name: base.Ptr("r" + id), ExplicitChannels: base.SetOf("x")}, false, true)
				return err
			},
			primary: userKeys,
			done: func(e *c11Env, id string) (bool, string) {
				r, err := e.db.Authenticator(e.ctx).GetRole("r" + id)
				return err == nil && r != nil && r.ExplicitChannels().Contains("x"), ""
			}},
		{kind: "role_delete",
			setup: func(e *c11Env, id string) {
				_, _, _ = e.db.UpdatePrincipal(e.ctx, &auth.PrincipalConfig{Name: base.Ptr("r" + id), ExplicitChannels: base.SetOf("x")}, false, true)
			},
			run:     func(e *c11Env, id string) error { return e.db.DeleteRole(e.ctx, "r"+id, false) },
			primary: userKeys,
			done: func(e *c11Env, id string) (bool, string) {
				r, err := e.db.Authenticator(e.ctx).GetRole("r" + id)
				return err == nil && (r == nil || r.IsDeleted()), ""
			}},
		{kind: "role_purge",
			setup: func(e *c11Env, id string) {
				_, _, _ = e.db.UpdatePrincipal(e.ctx, &auth.PrincipalConfig{Name: base.Ptr("r" + id), ExplicitChannels: base.SetOf("x")}, false, true)
			},
			run:     func(e *c11Env, id string) error { return e.db.DeleteRole(e.ctx, "r"+id, true) },
			primary: userKeys,
			done: func(e *c11Env, id string) (bool, string) {
				r, err := e.db.Authenticator(e.ctx).GetRole("r" + id)
				return err == nil && r == nil, fmt.Sprint(err)
			}},
		{kind: "user_delete",
			setup: func(e *c11Env, id string) {
				_, _, _ = e.db.UpdatePrincipal(e.ctx, &auth.PrincipalConfig{Name: base.Ptr("u" + id), Password: base.Ptr("letmein")}, true, true)
			},
			run: func(e *c11Env, id string) error {
				a := e.db.Authenticator(e.ctx)
				u, err := a.GetUser("u" + id)
				if err != nil {
					return err
				}
				if u == nil {
					return base.ErrNotFound
				}
				return a.DeleteUser(u)
			},
			primary: userKeys,
			done: func(e *c11Env, id string) (bool, string) {
				u, err := e.db.Authenticator(e.ctx).GetUser("u" + id)
				return err == nil && u == nil, ""
			}},
		{kind: "session_create",
			setup: func(e *c11Env, id string) {
				_, _, _ = e.db.UpdatePrincipal(e.ctx, &auth.PrincipalConfig{Name: base.Ptr("u" + id), Password: base.Ptr("letmein")}, true, true)
			},
			run: func(e *c11Env, id string) error {
				a := e.db.Authenticator(e.ctx)
				u, err := a.GetUser("u" + id)
				if err != nil {
					return err
				}
				if u == nil {
					return base.ErrNotFound
				}
				s, err := a.CreateSession(e.ctx, u, time.Hour, false)
				if err == nil {
					c11Sessions[id] = s.ID
				}
				return err
			},
			primary: userKeys,
			done: func(e *c11Env, id string) (bool, string) {
				sid := c11Sessions[id]
				if sid == "" {
					return false, "no session id"
				}
				s, _, err := e.db.Authenticator(e.ctx).GetSession(sid)
				return err == nil && s != nil, fmt.Sprint(err)
			}},
	}
}

var c11Sessions = map[string]string{}
var c11Revs = map[string]string{} // revision created by a request's setup (read without triggering an import)

// ---- raw (un-faulted, import-free) view of a document ----

func (e *c11Env) rawDoc(id string) (doc *Document, body []byte, ok bool) {
	v, xs, cas, err := e.rawC.GetWithXattrs(e.ctx, id, []string{base.SyncXattrName, base.VvXattrName, base.MouXattrName, base.GlobalXattrName})
	if err != nil {
		return nil, nil, false
	}
	d, err := e.col.unmarshalDocumentWithXattrs(e.ctx, id, v, xs, cas, DocUnmarshalAll)
	if err != nil || d == nil {
		return nil, v, false
	}
	return d, v, true
}

// the bucket document is known to the gateway in its present version (its latest mutation has been imported or is
// the gateway's own); revs = number of revisions in its tree
func (e *c11Env) rawImported(id string) (imported bool, revs int, doc *Document) {
	d, v, ok := e.rawDoc(id)
	if !ok || !d.HasValidSyncData() {
		return false, 0, d
	}
	sg, _, _ := d.IsSGWrite(e.ctx, v)
	return sg, len(d.History), d
}

// a leaf revision whose body has v == want, read through the collection (only call when the document is imported)
func (e *c11Env) leafWithV(id string, want string) bool {
	d, _, ok := e.rawDoc(id)
	if !ok {
		return false
	}
	for _, leaf := range d.History.GetLeaves() {
		b, err := e.col.Get1xRevBody(e.ctx, id, leaf, false, nil)
		if err == nil && fmt.Sprint(b["v"]) == want {
			return true
		}
	}
	return false
}

func (e *c11Env) externalWrite(id string, body string) {
	if _, _, err := e.rawC.GetRaw(e.ctx, id); err != nil {
		if _, err := e.rawC.WriteCas(e.ctx, id, 0, 0, []byte(body), sgbucket.Raw); err != nil {
			e.t.Fatalf("external insert: %v", err)
		}
		return
	}
	if err := e.rawC.SetRaw(e.ctx, id, 0, nil, []byte(body)); err != nil {
		e.t.Fatalf("external update: %v", err)
	}
}

// the request kinds added by the deepening round: imports, session delete / one-time use, user updates,
// attachment replace / remove, access revocation, bulk writes, CAS retry inside a request
func c11RequestsDeep() []c11Req {
	docKey := func(e *c11Env, id string) []string { return []string{id} }
	userKeys := func(e *c11Env, id string) []string {
		a := e.db.Authenticator(e.ctx)
		return []string{a.DocIDForUser("u" + id), a.DocIDForRole("r" + id), id}
	}
	curRev := func(e *c11Env, id string) (string, Body) {
		doc, err := e.col.GetDocument(e.ctx, id, DocUnmarshalAll)
		if err != nil || doc == nil {
			return "", nil
		}
		b, _ := e.col.Get1xBody(e.ctx, id)
		return doc.GetRevTreeID(), b
	}
	admin := func(e *c11Env) *DatabaseCollectionWithUser {
		return &DatabaseCollectionWithUser{DatabaseCollection: e.col.DatabaseCollection, user: nil}
	}
	helloKey := func(id string) string {
		return MakeAttachmentKey(AttVersion2, id, Sha1DigestKey([]byte("hello world")))
	}
	attKeys := func(e *c11Env, id string) []string { return []string{id, helloKey(id)} }
	withAtt := func(e *c11Env, id string) {
		_, _, _ = e.put(id, Body{"v": 1, "channels": []string{"a"}})
		rev, _ := curRev(e, id)
		_, _, _ = e.put(id, Body{"v": 2, "channels": []string{"a"}, BodyRev: rev,
			BodyAttachments: map[string]any{"att.txt": map[string]any{"data": "aGVsbG8gd29ybGQ=", "content_type": "text/plain"}}})
	}
	mkUser := func(e *c11Env, id string) {
		_, _, _ = e.db.UpdatePrincipal(e.ctx, &auth.PrincipalConfig{Name: base.Ptr("u" + id), Password: base.Ptr("letmein"), ExplicitChannels: base.SetOf("x")}, true, true)
	}
	getUser := func(e *c11Env, id string) auth.User {
		u, err := e.db.Authenticator(e.ctx).GetUser("u" + id)
		if err != nil {
			return nil
		}
		return u
	}
	hasGranted := func(e *c11Env, id string) (bool, string) {
		u := getUser(e, id)
		if u == nil {
			return false, "no user"
		}
		ch, err := u.InheritedCollectionChannels(e.col.ScopeName, e.col.Name)
		return err == nil && ch.Contains("granted"), fmt.Sprint(ch)
	}
	// force exactly one CAS retry of the document write: a competing raw touch (an unrelated xattr) between the
	// first attempt's update callback and its compare-and-swap write
	touchOnce := func(e *c11Env, id string) func(key string, n int, cbErr error) error {
		fired := false
		return func(key string, n int, cbErr error) error {
			if key != id || fired || cbErr != nil {
				return nil
			}
			fired = true
			if _, err := e.rawC.SetXattrs(e.ctx, id, map[string][]byte{"verifx": []byte(`{"n":1}`)}); err != nil {
				e.t.Fatalf("touch: %v", err)
			}
			return nil
		}
	}
	// import before write: sub-request 0 = the import of the external body v=5 (a second revision), sub-request 1 =
	// the client's revision v=2 (a third revision)
	importThenDone := func(e *c11Env, id string, i int) (bool, string) {
		imp, revs, _ := e.rawImported(id)
		if !imp {
			return false, "not imported"
		}
		if i == 0 {
			return revs >= 2 && e.leafWithV(id, "5"), fmt.Sprint(revs)
		}
		return revs == 3 && e.leafWithV(id, "2"), fmt.Sprint(revs)
	}
	importThenIntact := func(e *c11Env, id string, i int) bool {
		imp, revs, _ := e.rawImported(id)
		return imp && revs == 2 && e.leafWithV(id, "5") && !e.leafWithV(id, "2")
	}
	return []c11Req{
		// ---- (a) imports ----
		{kind: "import_get_new",
			setup: func(e *c11Env, id string) { e.externalWrite(id, `{"v":5,"channels":["a"]}`) },
			run: func(e *c11Env, id string) error {
				_, err := e.col.GetDocument(e.ctx, id, DocUnmarshalAll)
				return err
			},
			primary: docKey,
			done: func(e *c11Env, id string) (bool, string) {
				imp, revs, _ := e.rawImported(id)
				return imp && revs == 1, fmt.Sprint(imp, revs)
			}},
		{kind: "import_get_update",
			setup: func(e *c11Env, id string) {
				_, _, _ = e.put(id, Body{"v": 1, "channels": []string{"a"}})
				e.externalWrite(id, `{"v":5,"channels":["b"]}`)
			},
			run: func(e *c11Env, id string) error {
				_, err := e.col.GetDocument(e.ctx, id, DocUnmarshalAll)
				return err
			},
			primary: docKey,
			done: func(e *c11Env, id string) (bool, string) {
				imp, revs, d := e.rawImported(id)
				return imp && revs == 2 && d.Channels["b"] == nil && d.Channels["a"] != nil, fmt.Sprint(imp, revs)
			}},
		{kind: "import_feed_raw",
			setup: func(e *c11Env, id string) { e.externalWrite(id, `{"v":5,"channels":["a"]}`) },
			run: func(e *c11Env, id string) error {
				// what the import listener does with a feed event: the mutation's value, xattrs and CAS come with the event
				v, xs, cas, err := e.rawC.GetWithXattrs(e.ctx, id, []string{base.SyncXattrName, base.VvXattrName, base.MouXattrName, base.GlobalXattrName})
				if err != nil {
					return err
				}
				_, err = admin(e).ImportDocRaw(e.ctx, id, v, xs, importDocOptions{mode: ImportFromFeed, isDelete: false, revSeqNo: 1}, cas)
				return err
			},
			primary: docKey,
			done: func(e *c11Env, id string) (bool, string) {
				imp, revs, _ := e.rawImported(id)
				return imp && revs == 1, fmt.Sprint(imp, revs)
			}},
		// a client write on top of an external write it has not seen: the document is imported first (a commit of its
		// own, made by a write nested in the client write's update callback), the client write's first attempt then
		// loses its CAS race against that import and the second attempt is decided on the imported document:
		// a REST PUT naming the pre-import revision is a conflict (rejected: the request has ONE commit, the import's)
		{kind: "import_then_put_conflict", subs: 2,
			setup: func(e *c11Env, id string) {
				rev, _, _ := e.put(id, Body{"v": 1, "channels": []string{"a"}})
				c11Revs[id] = rev
				e.externalWrite(id, `{"v":5,"channels":["a"]}`)
			},
			run: func(e *c11Env, id string) error {
				_, _, err := e.put(id, Body{"v": 2, "channels": []string{"a"}, BodyRev: c11Revs[id]})
				return err
			},
			primaryN: func(e *c11Env, id string, i int) []string { return []string{id} },
			doneN:    importThenDone,
			intactN:  importThenIntact},
		// ... a pushed revision (new_edits=false) with the pre-import revision as parent is accepted as a second
		// branch: TWO commits
		{kind: "import_then_push", subs: 2,
			setup: func(e *c11Env, id string) {
				rev, _, _ := e.put(id, Body{"v": 1, "channels": []string{"a"}})
				c11Revs[id] = rev
				e.externalWrite(id, `{"v":5,"channels":["a"]}`)
			},
			run: func(e *c11Env, id string) error {
				_, _, err := e.col.PutExistingRevWithBody(e.ctx, id, Body{"v": 2, "channels": []string{"a"}}, []string{"2-0000000000000000000000000000c0de", c11Revs[id]}, false, ExistingVersionWithUpdateToHLV)
				return err
			},
			primaryN: func(e *c11Env, id string, i int) []string { return []string{id} },
			doneN:    importThenDone,
			intactN:  importThenIntact},
		// ---- (b) sessions ----
		{kind: "session_delete",
			setup: func(e *c11Env, id string) {
				mkUser(e, id)
				a := e.db.Authenticator(e.ctx)
				if s, err := a.CreateSession(e.ctx, getUser(e, id), time.Hour, false); err == nil {
					c11Sessions[id] = s.ID
				}
			},
			run: func(e *c11Env, id string) error {
				return e.db.Authenticator(e.ctx).DeleteSession(e.ctx, c11Sessions[id], "u"+id)
			},
			primary: func(e *c11Env, id string) []string {
				return []string{e.db.Authenticator(e.ctx).DocIDForSession(c11Sessions[id])}
			},
			done: func(e *c11Env, id string) (bool, string) {
				_, _, err := e.db.Authenticator(e.ctx).GetSession(c11Sessions[id])
				return base.IsDocNotFoundError(err), fmt.Sprint(err)
			}},
		{kind: "session_one_time_use",
			setup: func(e *c11Env, id string) {
				mkUser(e, id)
				a := e.db.Authenticator(e.ctx)
				if s, err := a.CreateSession(e.ctx, getUser(e, id), time.Hour, true); err == nil {
					c11Sessions[id] = s.ID
				}
			},
			run: func(e *c11Env, id string) error {
				u, err := e.db.Authenticator(e.ctx).AuthenticateOneTimeSession(e.ctx, c11Sessions[id])
				if err == nil && (u == nil || u.Name() != "u"+id) {
					return fmt.Errorf("one-time session authenticated the wrong user")
				}
				return err
			},
			primary: func(e *c11Env, id string) []string {
				return []string{e.db.Authenticator(e.ctx).DocIDForSession(c11Sessions[id])}
			},
			done: func(e *c11Env, id string) (bool, string) {
				_, _, err := e.db.Authenticator(e.ctx).GetSession(c11Sessions[id])
				return base.IsDocNotFoundError(err), fmt.Sprint(err)
			}},
		// ---- (c) user updates ----
		{kind: "user_update_password",
			setup: mkUser,
			run: func(e *c11Env, id string) error {
				_, _, err := e.db.UpdatePrincipal(e.ctx, &auth.PrincipalConfig{Name: base.Ptr("u" + id), Password: base.Ptr("changed1")}, true, true)
				return err
			},
			primary: userKeys,
			done: func(e *c11Env, id string) (bool, string) {
				u := getUser(e, id)
				return u != nil && u.Authenticate("changed1") && !u.Authenticate("letmein"), ""
			}},
		{kind: "user_update_roles",
			setup: func(e *c11Env, id string) {
				mkUser(e, id)
				_, _, _ = e.db.UpdatePrincipal(e.ctx, &auth.PrincipalConfig{Name: base.Ptr("r" + id), ExplicitChannels: base.SetOf("rc")}, false, true)
			},
			run: func(e *c11Env, id string) error {
				_, _, err := e.db.UpdatePrincipal(e.ctx, &auth.PrincipalConfig{Name: base.Ptr("u" + id), ExplicitRoleNames: base.SetOf("r" + id)}, true, true)
				return err
			},
			primary: func(e *c11Env, id string) []string { return []string{e.db.Authenticator(e.ctx).DocIDForUser("u" + id)} },
			done: func(e *c11Env, id string) (bool, string) {
				u := getUser(e, id)
				if u == nil {
					return false, "no user"
				}
				ch, err := u.InheritedCollectionChannels(e.col.ScopeName, e.col.Name)
				_ = ch
				return err == nil && u.RoleNames().Contains("r"+id), fmt.Sprint(u.RoleNames(), ch)
			}},
		{kind: "user_disable",
			setup: mkUser,
			run: func(e *c11Env, id string) error {
				_, _, err := e.db.UpdatePrincipal(e.ctx, &auth.PrincipalConfig{Name: base.Ptr("u" + id), Disabled: base.Ptr(true)}, true, true)
				return err
			},
			primary: userKeys,
			done: func(e *c11Env, id string) (bool, string) {
				u := getUser(e, id)
				return u != nil && u.Disabled() && !u.Authenticate("letmein"), ""
			}},
		// ---- (d) attachments: replace / remove (the obsolete attachment is swept after the commit) ----
		{kind: "attachment_replace",
			setup: withAtt,
			run: func(e *c11Env, id string) error {
				rev, _ := curRev(e, id)
				_, _, err := e.put(id, Body{"v": 3, "channels": []string{"a"}, BodyRev: rev,
					BodyAttachments: map[string]any{"att.txt": map[string]any{"data": "Z29vZGJ5ZQ==", "content_type": "text/plain"}}})
				return err
			},
			primary: attKeys,
			done: func(e *c11Env, id string) (bool, string) {
				doc, err := e.col.GetDocument(e.ctx, id, DocUnmarshalAll)
				if err != nil || doc == nil {
					return false, "no doc"
				}
				meta, ok := doc.Attachments()["att.txt"].(map[string]any)
				if !ok {
					return false, "no attachment metadata"
				}
				dg, _ := meta["digest"].(string)
				data, err := e.col.GetAttachment(e.ctx, MakeAttachmentKey(AttVersion2, id, dg))
				if err != nil {
					return false, "attachment data unreadable: " + err.Error()
				}
				return string(data) == "goodbye", string(data)
			}},
		{kind: "attachment_remove",
			setup: withAtt,
			run: func(e *c11Env, id string) error {
				rev, _ := curRev(e, id)
				_, _, err := e.put(id, Body{"v": 3, "channels": []string{"a"}, BodyRev: rev})
				return err
			},
			primary: attKeys,
			done: func(e *c11Env, id string) (bool, string) {
				doc, err := e.col.GetDocument(e.ctx, id, DocUnmarshalAll)
				if err != nil || doc == nil {
					return false, "no doc"
				}
				_, b := curRev(e, id)
				return len(doc.Attachments()) == 0 && b != nil && fmt.Sprint(b["v"]) == "3", fmt.Sprint(doc.Attachments())
			}},
		// ---- (e) a document update that revokes access ----
		{kind: "doc_revoke_access",
			setup: func(e *c11Env, id string) {
				mkUser(e, id)
				_, _, _ = e.put(id, Body{"v": 1, "channels": []string{"a"}, "grant": "u" + id})
				if ok, det := hasGranted(e, id); !ok { // loads the user: its computed channels are stored
					e.t.Fatalf("doc_revoke_access setup: grant not effective: %s", det)
				}
			},
			run: func(e *c11Env, id string) error {
				rev, _ := curRev(e, id)
				_, _, err := e.put(id, Body{"v": 2, "channels": []string{"a"}, BodyRev: rev})
				return err
			},
			primary: userKeys,
			core: func(e *c11Env, id string) bool {
				_, b := curRev(e, id)
				return b != nil && fmt.Sprint(b["v"]) == "2"
			},
			done: func(e *c11Env, id string) (bool, string) {
				_, b := curRev(e, id)
				g, det := hasGranted(e, id)
				return b != nil && fmt.Sprint(b["v"]) == "2" && !g, det
			}},
		// ---- (f) bulk write of two documents (what handleBulkDocs does: one Put per document, each with its own status) ----
		{kind: "bulk_two_docs", subs: 2, cont: true,
			setup: func(e *c11Env, id string) { _, _, _ = e.put(id, Body{"v": 1, "channels": []string{"a"}}) },
			runN: func(e *c11Env, id string) []error {
				rev, _ := curRev(e, id)
				e.mark("~sub0")
				_, _, err1 := e.put(id, Body{"v": 2, "channels": []string{"b"}, BodyRev: rev})
				e.mark("~sub")
				_, _, err2 := e.put(id+".2", Body{"v": 7, "channels": []string{"a"}})
				return []error{err1, err2}
			},
			primaryN: func(e *c11Env, id string, i int) []string { return []string{[]string{id, id + ".2"}[i]} },
			doneN: func(e *c11Env, id string, i int) (bool, string) {
				_, b := curRev(e, []string{id, id + ".2"}[i])
				return b != nil && fmt.Sprint(b["v"]) == []string{"2", "7"}[i], fmt.Sprint(b)
			}},
		{kind: "bulk_rejected_then_ok", subs: 2, cont: true,
			setup: func(e *c11Env, id string) {},
			runN: func(e *c11Env, id string) []error {
				e.mark("~sub0")
				_, _, err1 := e.put(id, Body{"v": 2, "reject": true})
				e.mark("~sub")
				_, _, err2 := e.put(id+".2", Body{"v": 7, "channels": []string{"a"}})
				return []error{err1, err2}
			},
			primaryN: func(e *c11Env, id string, i int) []string { return []string{[]string{id, id + ".2"}[i]} },
			doneN: func(e *c11Env, id string, i int) (bool, string) {
				_, b := curRev(e, []string{id, id + ".2"}[i])
				return b != nil && fmt.Sprint(b["v"]) == []string{"2", "7"}[i], fmt.Sprint(b)
			}},
		// ---- (g) CAS retry inside the request ----
		{kind: "doc_update_cas_retry", noCas: true, hook: touchOnce,
			setup: func(e *c11Env, id string) { _, _, _ = e.put(id, Body{"v": 1, "channels": []string{"a"}}) },
			run: func(e *c11Env, id string) error {
				rev, _ := curRev(e, id)
				_, _, err := e.put(id, Body{"v": 2, "channels": []string{"b"}, BodyRev: rev})
				return err
			},
			primary: docKey,
			done: func(e *c11Env, id string) (bool, string) {
				_, b := curRev(e, id)
				return b != nil && fmt.Sprint(b["v"]) == "2", fmt.Sprint(b)
			}},
		{kind: "attachment_write_cas_retry", noCas: true, hook: touchOnce,
			setup: func(e *c11Env, id string) { _, _, _ = e.put(id, Body{"v": 1, "channels": []string{"a"}}) },
			run: func(e *c11Env, id string) error {
				rev, _ := curRev(e, id)
				_, _, err := e.put(id, Body{"v": 2, "channels": []string{"a"}, BodyRev: rev,
					BodyAttachments: map[string]any{"att.txt": map[string]any{"data": "aGVsbG8gd29ybGQ=", "content_type": "text/plain"}}})
				return err
			},
			primary: docKey,
			done: func(e *c11Env, id string) (bool, string) {
				doc, err := e.col.GetDocument(e.ctx, id, DocUnmarshalAll)
				if err != nil || doc == nil {
					return false, "no doc"
				}
				if _, ok := doc.Attachments()["att.txt"].(map[string]any); !ok {
					return false, "no attachment metadata"
				}
				data, err := e.col.GetAttachment(e.ctx, helloKey(id))
				if err != nil {
					return false, "attachment data unreadable: " + err.Error()
				}
				return string(data) == "hello world", string(data)
			}},
	}
}

// trace-only marker emitted by the harness itself (sub-request boundaries of a bulk write)
func (e *c11Env) mark(m string) {
	e.fs.mu.Lock()
	om := e.fs.onMark
	e.fs.mu.Unlock()
	if om != nil {
		om(m)
	}
}

// c11Shape: the operation classes of a marked trace and the sub-request of every operation.
// The storage operations appear in program order.  A document write is: "WriteUpdateWithXattrs key" (entering the
// call: Aux), the operations of each attempt's update callback, "WriteAttempt key" for each attempt whose callback
// succeeded (the compare-and-swap write: the LAST one of a call is the Commit, earlier ones lost their CAS race: Aux)
// and the end marker.  A write nested in another write's callback on the same key (import before write) is a
// sub-request of its own; "~sub" markers separate the documents of a bulk write.
func c11Shape(marked []string, bodyReads bool) (classes []string, subOf []int, nsub int) {
	type open struct {
		key      string
		start    int // index of the operation that entered the write
		attempts []int
	}
	var ops []string // the operation at each index
	var stack []open
	sub := 0
	committed := false // a document commit of the current sub-request has happened
	for _, m := range marked {
		if m == "~sub0" {
			// start of the first sub-request of a bulk write: what precedes is the request's preparation
			continue
		}
		if m == "~sub" {
			sub++
			committed = false
			continue
		}
		if strings.HasPrefix(m, "~end ") || strings.HasPrefix(m, "~fail ") {
			if len(stack) == 0 {
				continue
			}
			top := stack[len(stack)-1]
			stack = stack[:len(stack)-1]
			if n := len(top.attempts); n > 0 && strings.HasPrefix(m, "~end ") {
				classes[top.attempts[n-1]] = "Commit"
				committed = true
				if bodyReads {
					// the callback of the attempt that commits: after the previous (lost) attempt's write, or the entry
					from := top.start + 1
					if n > 1 {
						from = top.attempts[n-2] + 1
					}
					for j := from; j < top.attempts[n-1]; j++ {
						if classes[j] == "Read" && strings.HasPrefix(ops[j], "GetRaw ") && strings.Contains(ops[j], "_sync:rb:") {
							classes[j] = "ReadBody"
						}
					}
				}
				if len(stack) > 0 {
					sub++
					committed = false
				}
			}
			continue
		}
		parts := strings.SplitN(m, " ", 2)
		idx := len(classes)
		subOf = append(subOf, sub)
		ops = append(ops, m)
		switch parts[0] {
		case "WriteUpdateWithXattrs":
			stack = append(stack, open{key: parts[1], start: idx})
			classes = append(classes, "Aux")
		case "WriteAttempt":
			if len(stack) > 0 {
				stack[len(stack)-1].attempts = append(stack[len(stack)-1].attempts, idx)
			}
			classes = append(classes, "Aux")
		default:
			classes = append(classes, c11Class(parts[0], parts[1], committed))
		}
	}
	return classes, subOf, sub + 1
}

// sequences carried by the stored documents (current + recent): they are in use, not leaked
func (e *c11Env) seqsOnDocs(keys []string) map[uint64]bool {
	used := map[uint64]bool{}
	for _, k := range keys {
		if d, _, ok := e.rawDoc(k); ok && d.HasValidSyncData() {
			used[d.Sequence] = true
			for _, s := range d.RecentSequences {
				used[s] = true
			}
		}
	}
	return used
}

func TestVerifC11(t *testing.T) {
	rec := vNewRecorder(t, "C11", "C11.C11_Corr")
	defer rec.Finish()
	e := c11NewEnv(t)
	defer e.db.Close(e.ctx)
	// faults are addressed by (operation signature, occurrence) so that incidental extra reads do not shift them;
	// several targets = several faults in one request, each fires once
	type c11Target struct {
		sig   string
		occ   int
		fired bool
	}
	arm := func(targets []*c11Target, mode string) func(op, key string) error {
		seen := map[string]int{}
		return func(op, key string) error {
			if strings.Contains(key, "_sync:seq") {
				return nil // allocator batch reservations depend on history; the allocator is C07's subject
			}
			sig := c11OpSig(op + " " + key)
			seen[sig]++
			for _, tg := range targets {
				if tg.sig == sig && tg.occ == seen[sig] && !tg.fired {
					tg.fired = true
					switch mode {
					case "timeout":
						return base.ErrTimeout
					case "cas":
						return sgbucket.CasMismatchErr{Expected: 1, Actual: 2}
					}
					return errVInjected
				}
			}
			return nil
		}
	}
	setFail := func(f func(op, key string) error) {
		e.fs.mu.Lock()
		e.fs.failOp = f
		e.fs.mu.Unlock()
		e.ms.mu.Lock()
		e.ms.failOp = f
		e.ms.mu.Unlock()
	}
	setHook := func(h func(key string, n int, cbErr error) error) {
		e.fs.mu.Lock()
		e.fs.onAttempt = h
		e.fs.mu.Unlock()
	}
	modes := []string{"error", "timeout"}
	resName := map[bool]string{true: "RErr", false: "ROk"}
	stName := map[string]string{"unchanged": "SUnchanged", "committed": "SCommitted", "lost": "SLost", "other": "SOther"}
	kinds := append(append(c11Requests(), c11RequestsDeep()...), c11RequestsRB()...)
	rec.Extra("request_kinds", len(kinds))
	for ri := range kinds {
		rq := &kinds[ri]
		if only := os.Getenv("C11_ONLY"); only != "" && !strings.Contains(","+only+",", ","+rq.kind+",") {
			continue
		}
		nsub := rq.nsubs()
		multi := nsub > 1
		// ---- clean run: the storage-operation trace ----
		e.n++
		id := fmt.Sprintf("c11%s%d", rq.kind, e.n)
		rq.setup(e, id)
		var trace []string
		var marked []string // trace with markers
		started := !rq.cont // bulk: the operations before the first document's write are preparation, not traced
		collect := func(op, key string) error {
			if strings.Contains(key, "_sync:seq") || !started {
				return nil
			}
			trace = append(trace, op+" "+key)
			marked = append(marked, op+" "+key)
			return nil
		}
		e.fs.onMark = func(m string) {
			if m == "~sub0" {
				started = true
			}
			marked = append(marked, m)
		}
		e.ms.onMark = e.fs.onMark
		setFail(collect)
		if rq.hook != nil {
			setHook(rq.hook(e, id))
		}
		base0 := e.db.sequences.last
		e.ms.takeReleased()
		cleanErrs := rq.exec(e, id)
		setFail(nil)
		setHook(nil)
		e.fs.onMark, e.ms.onMark = nil, nil
		classes, subOf, shapeSubs := c11Shape(marked, rq.bodyReads && c11PromotedBodyReadSwallowed)
		if os.Getenv("C11_DEBUG") != "" {
			fmt.Printf("== %s clean=%v\n", rq.kind, cleanErrs)
			for _, m := range marked {
				fmt.Printf("     %s\n", m)
			}
		}
		if shapeSubs != nsub || len(classes) != len(trace) {
			rec.Fail("harness_selfcheck", "trace-shape:"+rq.kind, map[string]any{"kind": rq.kind, "marked": marked, "sub_requests_in_trace": shapeSubs, "declared": nsub}, "the clean trace does not have the declared number of sub-requests")
			continue
		}
		// which sub-requests succeed in the un-faulted run is what the model says about the clean trace (a segment
		// without commit is a rejected write); the clean run must agree
		hasCommit := make([]bool, nsub)
		for i, c := range classes {
			if c == "Commit" {
				hasCommit[subOf[i]] = true
			}
		}
		expectSuccess := true
		for i := 0; i < nsub; i++ {
			okClean, detail := rq.doneOf(e, id, i)
			var cerr error
			if rq.cont {
				cerr = cleanErrs[i]
			} else {
				cerr = cleanErrs[0]
			}
			if !hasCommit[i] {
				expectSuccess = false
			}
			if rq.cont || i == nsub-1 {
				if hasCommit[i] != (cerr == nil) || hasCommit[i] != okClean {
					rec.Fail("reported_success_durable", "clean-run-not-visible", map[string]any{"kind": rq.kind, "sub_request": i, "err": fmt.Sprint(cerr), "detail": detail, "has_commit": hasCommit[i]}, "un-faulted request did not succeed or is not visible")
				}
			} else if !okClean {
				rec.Fail("reported_success_durable", "clean-run-not-visible", map[string]any{"kind": rq.kind, "sub_request": i, "detail": detail}, "un-faulted request: an earlier commit is not visible")
			}
		}
		if strings.HasSuffix(rq.kind, "_rejected") && expectSuccess {
			rec.Fail("harness_selfcheck", "trace-shape:"+rq.kind, map[string]any{"kind": rq.kind, "marked": marked}, "a rejected write has a commit operation in its clean trace")
		}
		if !multi {
			c11Account(rec, e, rq.kind, "clean", -1, base0, cleanErrs[0])
		} else {
			e.ms.takeReleased()
		}
		rec.Size(fmt.Sprintf("%s:trace=%d", rq.kind, len(trace)))
		rec.Sample(map[string]any{"kind": rq.kind, "trace": trace, "classes": classes, "sub_request_of": subOf})

		// the Coq rendering of the trace: one list (single commit) or one list per sub-request
		segs := make([][]string, nsub)
		for i, c := range classes {
			segs[subOf[i]] = append(segs[subOf[i]], c)
		}
		var segStr []string
		for _, sg := range segs {
			segStr = append(segStr, "["+strings.Join(sg, "; ")+"]")
		}

		occOf := func(k int) int {
			occ := 0
			for j := 0; j <= k; j++ {
				if c11OpSig(trace[j]) == c11OpSig(trace[k]) {
					occ++
				}
			}
			return occ
		}
		runFaulted := func(ks []int, mode, stream string) {
			e.n++
			id := fmt.Sprintf("c11%s%d", rq.kind, e.n)
			rq.setup(e, id)
			keys := make([][]string, nsub)
			pre := make([]map[string]string, nsub)
			preAux := make([]map[string]string, nsub) // the auxiliary documents the stored state of the keys references
			var allKeys []string
			for i := 0; i < nsub; i++ {
				keys[i] = rq.keysOf(e, id, i)
				pre[i] = e.rawState(keys[i], rq.noCas)
				preAux[i] = e.auxState(e.auxRefs(keys[i]))
				allKeys = append(allKeys, keys[i]...)
			}
			var targets []*c11Target
			for _, k := range ks {
				targets = append(targets, &c11Target{sig: c11OpSig(trace[k]), occ: occOf(k)})
			}
			base1 := e.db.sequences.last
			e.ms.takeReleased()
			started = !rq.cont
			inner := arm(targets, mode)
			e.fs.onMark = func(m string) {
				if m == "~sub0" {
					started = true
				}
			}
			setFail(func(op, key string) error {
				if !started {
					return nil
				}
				return inner(op, key)
			})
			if rq.hook != nil {
				setHook(rq.hook(e, id))
			}
			errs := rq.exec(e, id)
			setFail(nil)
			setHook(nil)
			e.fs.onMark = nil
			// only the faults that actually fired are part of the case
			var firedIdx []string
			var firedOps []string
			var firedCls []string
			anyFired := len(ks) == 0 // the un-faulted run is a case of its own (empty fault set)
			for i, tg := range targets {
				if tg.fired {
					anyFired = true
					firedIdx = append(firedIdx, fmt.Sprintf("%d%%nat", ks[i]))
					firedOps = append(firedOps, trace[ks[i]])
					firedCls = append(firedCls, classes[ks[i]])
				}
			}
			sigOps := ""
			for _, o := range firedOps {
				sigOps += ":" + c11OpSig(o)
			}
			invalFired := false    // a principal invalidation after the commit was failed (its failure is swallowed)
			bodyReadFired := false // the read of the body of the revision to promote was failed (its failure is swallowed)
			for _, c := range firedCls {
				if c == "Inval" {
					invalFired = true
				}
				if c == "ReadBody" {
					bodyReadFired = true
				}
			}
			// ---- observation: per sub-request result and state ----
			unchanged := make([]bool, nsub)
			auxLost := make([][]string, nsub)
			visible := make([]bool, nsub)
			states := make([]string, nsub)
			results := make([]error, nsub)
			dets := make([]string, nsub)
			changedKey := ""
			for i := 0; i < nsub; i++ {
				post := e.rawState(keys[i], rq.noCas)
				unchanged[i] = true
				for kk, v := range pre[i] {
					if post[kk] != v {
						unchanged[i] = false
						changedKey = kk
					}
				}
				auxLost[i] = e.auxLost(preAux[i])
				visible[i], dets[i] = rq.doneOf(e, id, i)
				if rq.cont {
					results[i] = errs[i]
				} else {
					results[i] = errs[0]
				}
				switch {
				case visible[i]:
					states[i] = "committed"
				case unchanged[i]:
					states[i] = "unchanged"
				case !rq.cont && i > 0 && visible[i-1] && rq.intactN != nil && rq.intactN(e, id, i):
					states[i] = "unchanged" // exactly the earlier commits happened
				case rq.core != nil && rq.core(e, id):
					states[i] = "lost" // committed, but a follow-up that is part of the visible effect was lost
				default:
					states[i] = "other"
				}
			}
			var resS, stS []string
			for i := 0; i < nsub; i++ {
				resS = append(resS, map[bool]string{true: "err", false: "ok"}[results[i] != nil])
				stS = append(stS, states[i])
			}
			in := map[string]any{"kind": rq.kind, "op_index": ks, "op": firedOps, "mode": mode, "result": strings.Join(resS, ","), "state": strings.Join(stS, ","), "error": fmt.Sprint(errs), "aux_documents_lost": auxLost}
			// ---- monitors ----
			// the sub-request a reported failure belongs to: itself (bulk), or the first one whose effect is not
			// visible (a request whose failed sub-request aborts the rest reports one result for all of them)
			for i := 0; i < nsub; i++ {
				if !anyFired {
					break
				}
				failedHere := results[i] != nil
				if !rq.cont && failedHere {
					first := nsub - 1
					for j := 0; j < nsub; j++ {
						if !visible[j] {
							first = j
							break
						}
					}
					failedHere = i >= first
				}
				if failedHere && states[i] != "unchanged" && mode != "timeout" {
					sg := "partial-effect:" + rq.kind + sigOps
					if multi {
						sg = fmt.Sprintf("partial-effect:%s#%d%s", rq.kind, i, sigOps)
					}
					rec.Fail("fault_leaves_state_unchanged", sg, in, "request failed but primary state changed ("+changedKey+")")
				}
				// "a failed request changes no document, auxiliary documents included" (C11_failed_request_deletes_nothing)
				if failedHere && len(auxLost[i]) > 0 && mode != "timeout" {
					sg := "aux-deleted-by-failed-request:" + rq.kind + ":" + c11AuxSig(auxLost[i]) + sigOps
					if multi {
						sg = fmt.Sprintf("aux-deleted-by-failed-request:%s#%d:%s%s", rq.kind, i, c11AuxSig(auxLost[i]), sigOps)
					}
					rec.Fail("failed_request_deletes_nothing", sg, in, fmt.Sprintf("request failed, the stored document is as before, but auxiliary documents it references are gone or altered: %v", auxLost[i]))
				}
				if results[i] == nil && hasCommit[i] && !visible[i] {
					sg := "swallowed-failure:" + rq.kind + sigOps
					if invalFired && states[i] == "lost" {
						sg = "swallowed-failure:principal-invalidation-after-commit"
					} else if bodyReadFired && states[i] == "lost" {
						sg = "swallowed-failure:promoted-revision-body-unreadable"
					} else if multi {
						sg = fmt.Sprintf("swallowed-failure:%s#%d%s", rq.kind, i, sigOps)
					}
					rec.Fail("reported_success_durable", sg, in, "request reported success but its effect is not visible: "+dets[i])
				}
				if !hasCommit[i] && results[i] == nil && (rq.cont || i == nsub-1) {
					rec.Fail("rejected_write_succeeded", "rejected-write-succeeded", in, "a rejected write returned success")
				}
			}
			// ---- sequences ----
			if !multi {
				releaseFaulted := false // the fault hit the publication of an unused sequence itself
				for _, o := range firedOps {
					if strings.Contains(o, "unusedSeq") {
						releaseFaulted = true
					}
				}
				if mode != "timeout" && unchanged[0] && !releaseFaulted {
					k0 := -1
					if len(ks) > 0 {
						k0 = ks[0]
					}
					c11Account(rec, e, rq.kind, strings.Join(firedOps, "+")+"/"+mode, k0, base1, errs[0])
				} else {
					e.ms.takeReleased()
				}
			} else {
				anyErr := false
				for _, r := range results {
					if r != nil {
						anyErr = true
					}
				}
				released := map[uint64]bool{}
				for _, r := range e.ms.takeReleased() {
					released[r] = true
				}
				releaseFaulted := false // the fault hit the publication of an unused sequence itself
				for _, o := range firedOps {
					if strings.Contains(o, "unusedSeq") {
						releaseFaulted = true
					}
				}
				if mode != "timeout" && anyErr && !releaseFaulted {
					used := e.seqsOnDocs(allKeys)
					for s := base1 + 1; s <= e.db.sequences.last; s++ {
						if !released[s] && !used[s] {
							rec.Fail("failed_request_releases_sequences", "sequence-leak:"+rq.kind, map[string]any{"kind": rq.kind, "fault": strings.Join(firedOps, "+") + "/" + mode, "op_index": ks, "sequence": s - base1, "error": fmt.Sprint(errs)},
								"a sub-request failed but a sequence the request reserved is neither on a stored document nor published as unused")
							break
						}
					}
				}
			}
			// ---- the Coq case ----
			var coq string
			if !multi {
				coq = fmt.Sprintf("CFault %s [%s] %s %s %s %s %s", segStr[0], strings.Join(firedIdx, "; "), cqBool(mode == "cas"), cqBool(expectSuccess), resName[results[0] != nil], stName[states[0]], cqBool(len(auxLost[0]) > 0))
			} else {
				var rs, ss, as []string
				for i := 0; i < nsub; i++ {
					if rq.cont || i == 0 {
						rs = append(rs, resName[results[i] != nil])
					}
					ss = append(ss, stName[states[i]])
					as = append(as, cqBool(len(auxLost[i]) > 0))
				}
				coq = fmt.Sprintf("CMulti %s [%s] [%s] [%s] [%s] [%s]", cqBool(rq.cont), strings.Join(segStr, "; "), strings.Join(firedIdx, "; "), strings.Join(rs, "; "), strings.Join(ss, "; "), strings.Join(as, "; "))
			}
			rec.Case(stream, rq.kind, coq, in, anyFired)
			rec.Err(rq.kind + ":" + mode + ":" + strings.Join(resS, ",") + "/" + strings.Join(stS, ","))
		}
		// ---- the un-faulted run as a case (empty fault set): result, state and auxiliary documents as the model predicts ----
		runFaulted(nil, "error", "clean_run")
		// the hypothesis of the clean-up theorems (cleanup_after_commit), on the observed trace: an auxiliary document is
		// only deleted after the commit of its sub-request
		{
			firstCommit := make([]int, nsub)
			for i := range firstCommit {
				firstCommit[i] = -1
			}
			for i, c := range classes {
				if c == "Commit" && firstCommit[subOf[i]] < 0 {
					firstCommit[subOf[i]] = i
				}
			}
			for i, c := range classes {
				if c == "Cleanup" && (firstCommit[subOf[i]] < 0 || i < firstCommit[subOf[i]]) {
					rec.Fail("cleanup_only_after_commit", "cleanup-before-commit:"+rq.kind+":"+c11OpSig(trace[i]), map[string]any{"kind": rq.kind, "op_index": i, "op": trace[i], "trace": trace, "classes": classes},
						"an auxiliary document is deleted by an operation that is not preceded by the commit of its (sub-)request")
					break
				}
			}
		}
		// ---- every single fault ----
		for k := range trace {
			ms := modes
			if strings.HasPrefix(trace[k], "WriteCas ") {
				ms = []string{"error", "timeout", "cas"}
			}
			for _, mode := range ms {
				runFaulted([]int{k}, mode, "single_fault")
			}
		}
		// ---- pairs of faults: all pairs in the thorough tier; in the quick tier the pairs that start with a tolerated
		// operation (read / best effort / swallowed follow-up), the pairs that lie after the commit, and the pairs of
		// operations in two different sub-requests ----
		lastCommit := make([]int, nsub)
		for i := range lastCommit {
			lastCommit[i] = -1
		}
		for i, c := range classes {
			if c == "Commit" {
				lastCommit[subOf[i]] = i
			}
		}
		for i := range trace {
			for j := i + 1; j < len(trace); j++ {
				ci, cj := classes[i], classes[j]
				afterCommit := func(x int) bool { lc := lastCommit[subOf[x]]; return lc >= 0 && x > lc }
				interesting := ci == "Read" || ci == "Opt" || ci == "Inval" || (afterCommit(i) && afterCommit(j) && subOf[i] == subOf[j]) ||
					(subOf[i] != subOf[j] && ci != "Read" && cj != "Read")
				if vThorough() || interesting {
					runFaulted([]int{i, j}, "error", "fault_pair")
				}
			}
		}
	}
	rec.Extra("exhaustive", true)
}

func c11OpSig(tr string) string {
	parts := strings.SplitN(tr, " ", 2)
	key := parts[1]
	switch {
	case strings.Contains(key, "useremail"):
		key = "useremail"
	case strings.Contains(key, "_sync:user"):
		key = "user"
	case strings.Contains(key, "_sync:role"):
		key = "role"
	case strings.Contains(key, "_sync:session"):
		key = "session"
	case strings.Contains(key, "_sync:att"):
		key = "att"
	case strings.Contains(key, "_sync:rb"):
		key = "rb"
	case strings.Contains(key, "unusedSeq"):
		key = "unusedSeq"
	case strings.Contains(key, "_sync:seq"):
		key = "seq"
	case strings.HasSuffix(key, ".2"):
		key = "doc2" // the second document of a bulk write
	default:
		key = "doc"
	}
	return parts[0] + ":" + key
}

// sequences reserved during the request must be on a stored document/principal or published as unused
func c11Account(rec *vRecorder, e *c11Env, kind, what string, k int, base0 uint64, reqErr error) {
	last1 := e.db.sequences.last
	released := map[uint64]bool{}
	for _, r := range e.ms.takeReleased() {
		released[r] = true
	}
	if last1 == base0 {
		return
	}
	if reqErr == nil {
		return // a successful request carries its sequence (checked by C05/C07 correspondences)
	}
	for s := base0 + 1; s <= last1; s++ {
		if !released[s] {
			rec.Fail("failed_request_releases_sequences", "sequence-leak:"+kind, map[string]any{"kind": kind, "fault": what, "op_index": k, "sequence": s - base0, "error": fmt.Sprint(reqErr)},
				"the request failed but a sequence it reserved was not published as unused")
			return
		}
	}
}
