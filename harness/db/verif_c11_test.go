//go:build verif

package db

import (
	"bytes"
	"context"
	"fmt"
	"sort"
	"strings"
	"testing"
	"time"

	sgbucket "github.com/couchbase/sg-bucket"
	"github.com/couchbase/sync_gateway/auth"
	"github.com/couchbase/sync_gateway/base"
)

// C11: fault enumeration.  For each request kind: run it cleanly with a tracing DataStore decorator (the
// storage-operation trace), then re-run it on a fresh but identical pre-state failing the k-th storage
// operation, for every k and every fault mode, and read the primary state back through the un-faulted store.

type c11Env struct {
	t    *testing.T
	ctx  context.Context
	db   *Database
	col  *DatabaseCollectionWithUser
	fs   *vFaultStore
	ms   *vFaultStore
	rawC base.DataStore
	rawM base.DataStore
	n    int
}

func c11NewEnv(t *testing.T) *c11Env {
	db, ctx := SetupTestDBWithOptions(t, DatabaseContextOptions{AllowConflicts: base.Ptr(true), BcryptCost: 4})
	col, ctx := GetSingleDatabaseCollectionWithUser(ctx, t, db)
	_, err := col.UpdateSyncFun(ctx, `function(doc){ if (doc.reject) { throw({forbidden: "rejected"}); } channel(doc.channels); if (doc.grant) { access(doc.grant, "granted"); } }`)
	if err != nil {
		t.Fatalf("sync fn: %v", err)
	}
	e := &c11Env{t: t, ctx: ctx, db: db, col: col, rawC: col.dataStore, rawM: db.MetadataStore}
	e.fs = &vFaultStore{DataStore: col.dataStore, readFaults: true, onlyGoroutine: vGoID()}
	col.dataStore = e.fs
	e.ms = &vFaultStore{DataStore: db.MetadataStore, readFaults: true, onlyGoroutine: vGoID()}
	db.MetadataStore = e.ms
	db.sequences.datastore = e.ms
	db.sequences.releaseSequenceWait = time.Hour
	return e
}

// raw read of a key from both stores: value + sync/vv/mou xattrs (bytes) + cas; "" when absent
func (e *c11Env) rawState(keys []string) map[string]string {
	out := map[string]string{}
	for _, k := range keys {
		for name, ds := range map[string]base.DataStore{"C": e.rawC, "M": e.rawM} {
			v, xs, cas, err := ds.GetWithXattrs(e.ctx, k, []string{base.SyncXattrName, base.VvXattrName, base.MouXattrName, base.GlobalXattrName})
			if err != nil {
				// not a document with xattrs: try plain
				rv, c2, err2 := ds.GetRaw(e.ctx, k)
				if err2 != nil {
					out[name+":"+k] = ""
					continue
				}
				out[name+":"+k] = fmt.Sprintf("cas=%d v=%s", c2, rv)
				continue
			}
			var xk []string
			for x := range xs {
				xk = append(xk, x)
			}
			sort.Strings(xk)
			var b bytes.Buffer
			fmt.Fprintf(&b, "cas=%d v=%s", cas, v)
			for _, x := range xk {
				fmt.Fprintf(&b, " %s=%s", x, xs[x])
			}
			out[name+":"+k] = b.String()
		}
	}
	return out
}

type c11Req struct {
	kind    string
	setup   func(e *c11Env, id string)               // un-faulted preparation of the pre-state
	run     func(e *c11Env, id string) error         // the request under test
	primary func(e *c11Env, id string) []string      // keys whose state must be all-or-nothing
	done    func(e *c11Env, id string) (bool, string) // is the request's effect visible to a subsequent read?
}

func c11Class(op, key string) string {
	switch {
	case strings.HasPrefix(op, "Get"):
		return "Read"
	case op == "Update" && (strings.Contains(key, "_sync:user") || strings.Contains(key, "_sync:role")):
		return "Read" // loading a principal refreshes its computed channels in place (idempotent read-repair)
	case strings.Contains(key, "_sync:rev:"):
		return "Opt" // temporary backup of the superseded revision body: best effort by design
	case strings.Contains(key, "unusedSeq"):
		return "Aux"
	case strings.HasSuffix(key, ":seq") || strings.Contains(key, "_sync:seq"):
		return "Aux"
	case strings.Contains(key, "_sync:att") || strings.Contains(key, "_sync:rb:") || strings.Contains(key, "_sync:rev:"):
		return "Aux"
	case strings.Contains(key, "useremail"):
		return "PostErr" // written by auth.Save after the principal; its failure is returned to the caller
	}
	return "Commit"
}

func (e *c11Env) put(id string, body Body) (string, *Document, error) {
	return e.col.Put(e.ctx, id, body)
}

func c11Requests() []c11Req {
	big := strings.Repeat("y", 300)
	docKey := func(e *c11Env, id string) []string { return []string{id} }
	userKeys := func(e *c11Env, id string) []string {
		a := e.db.Authenticator(e.ctx)
		return []string{a.DocIDForUser("u" + id), a.DocIDForRole("r" + id), id}
	}
	curRev := func(e *c11Env, id string) (string, Body) {
		doc, err := e.col.GetDocument(e.ctx, id, DocUnmarshalAll)
		if err != nil || doc == nil {
			return "", nil
		}
		b, _ := e.col.Get1xBody(e.ctx, id)
		return doc.GetRevTreeID(), b
	}
	return []c11Req{
		{kind: "doc_create",
			setup:   func(e *c11Env, id string) {},
			run:     func(e *c11Env, id string) error { _, _, err := e.put(id, Body{"v": 1, "channels": []string{"a"}}); return err },
			primary: docKey,
			done: func(e *c11Env, id string) (bool, string) {
				_, b := curRev(e, id)
				return b != nil && fmt.Sprint(b["v"]) == "1", fmt.Sprint(b)
			}},
		{kind: "doc_update",
			setup: func(e *c11Env, id string) { _, _, _ = e.put(id, Body{"v": 1, "channels": []string{"a"}}) },
			run: func(e *c11Env, id string) error {
				rev, _ := curRev(e, id)
				_, _, err := e.put(id, Body{"v": 2, "channels": []string{"b"}, BodyRev: rev})
				return err
			},
			primary: docKey,
			done: func(e *c11Env, id string) (bool, string) {
				_, b := curRev(e, id)
				return b != nil && fmt.Sprint(b["v"]) == "2", fmt.Sprint(b)
			}},
		{kind: "doc_delete",
			setup: func(e *c11Env, id string) { _, _, _ = e.put(id, Body{"v": 1, "channels": []string{"a"}}) },
			run: func(e *c11Env, id string) error {
				rev, _ := curRev(e, id)
				_, _, err := e.put(id, Body{BodyDeleted: true, BodyRev: rev})
				return err
			},
			primary: docKey,
			done: func(e *c11Env, id string) (bool, string) {
				doc, err := e.col.GetDocument(e.ctx, id, DocUnmarshalAll)
				return err == nil && doc != nil && doc.IsDeleted(), ""
			}},
		{kind: "doc_rejected",
			setup:   func(e *c11Env, id string) { _, _, _ = e.put(id, Body{"v": 1, "channels": []string{"a"}}) },
			run: func(e *c11Env, id string) error {
				rev, _ := curRev(e, id)
				_, _, err := e.put(id, Body{"v": 2, "reject": true, BodyRev: rev})
				return err
			},
			primary: docKey,
			done:    func(e *c11Env, id string) (bool, string) { return false, "a rejected write must never succeed" }},
		{kind: "conflicting_push_big_body",
			setup: func(e *c11Env, id string) {
				_, _, _ = e.put(id, Body{"v": 1, "channels": []string{"a"}})
				rev, _ := curRev(e, id)
				_, _, _ = e.put(id, Body{"v": 2, "channels": []string{"a"}, BodyRev: rev})
			},
			run: func(e *c11Env, id string) error {
				_, _, err := e.col.PutExistingRevWithBody(e.ctx, id, Body{"v": 9, "pad": big, "channels": []string{"a"}}, []string{"1-0000000000000000000000000000c0de"}, false, ExistingVersionWithUpdateToHLV)
				return err
			},
			primary: docKey,
			done: func(e *c11Env, id string) (bool, string) {
				b, err := e.col.Get1xRevBody(e.ctx, id, "1-0000000000000000000000000000c0de", false, nil)
				return err == nil && fmt.Sprint(b["v"]) == "9", fmt.Sprint(err)
			}},
		{kind: "attachment_write",
			setup: func(e *c11Env, id string) { _, _, _ = e.put(id, Body{"v": 1, "channels": []string{"a"}}) },
			run: func(e *c11Env, id string) error {
				rev, _ := curRev(e, id)
				_, _, err := e.put(id, Body{"v": 2, "channels": []string{"a"}, BodyRev: rev,
					BodyAttachments: map[string]any{"att.txt": map[string]any{"data": "aGVsbG8gd29ybGQ=", "content_type": "text/plain"}}})
				return err
			},
			primary: docKey,
			done: func(e *c11Env, id string) (bool, string) {
				doc, err := e.col.GetDocument(e.ctx, id, DocUnmarshalAll)
				if err != nil || doc == nil {
					return false, "no doc"
				}
				meta, ok := doc.Attachments()["att.txt"].(map[string]any)
				if !ok {
					return false, "no attachment metadata"
				}
				data, err := e.col.GetAttachment(e.ctx, MakeAttachmentKey(AttVersion2, id, meta["digest"].(string)))
				if err != nil {
					return false, "attachment data unreadable: " + err.Error()
				}
				return string(data) == "hello world", string(data)
			}},
		{kind: "doc_grant_access",
			setup: func(e *c11Env, id string) {
				_, _, _ = e.db.UpdatePrincipal(e.ctx, &auth.PrincipalConfig{Name: base.Ptr("u" + id), Password: base.Ptr("letmein")}, true, true)
			},
			run: func(e *c11Env, id string) error {
				_, _, err := e.put(id, Body{"v": 1, "channels": []string{"a"}, "grant": "u" + id})
				return err
			},
			primary: userKeys,
			done: func(e *c11Env, id string) (bool, string) {
				u, err := e.db.Authenticator(e.ctx).GetUser("u" + id)
				if err != nil || u == nil {
					return false, "no user"
				}
				ch, err := u.InheritedCollectionChannels(e.col.ScopeName, e.col.Name)
				return err == nil && ch.Contains("granted"), fmt.Sprint(ch)
			}},
		{kind: "user_create",
			setup: func(e *c11Env, id string) {},
			run: func(e *c11Env, id string) error {
				_, _, err := e.db.UpdatePrincipal(e.ctx, &auth.PrincipalConfig{Name: base.Ptr("u" + id), Password: base.Ptr("letmein"), ExplicitChannels: base.SetOf("x")}, true, true)
				return err
			},
			primary: userKeys,
			done: func(e *c11Env, id string) (bool, string) {
				u, err := e.db.Authenticator(e.ctx).GetUser("u" + id)
				return err == nil && u != nil && u.ExplicitChannels().Contains("x"), ""
			}},
		{kind: "user_create_with_email",
			setup: func(e *c11Env, id string) {},
			run: func(e *c11Env, id string) error {
				_, _, err := e.db.UpdatePrincipal(e.ctx, &auth.PrincipalConfig{Name: base.Ptr("u" + id), Password: base.Ptr("letmein"), Email: base.Ptr(id + "@example.com")}, true, true)
				return err
			},
			primary: userKeys,
			done: func(e *c11Env, id string) (bool, string) {
				u, err := e.db.Authenticator(e.ctx).GetUser("u" + id)
				return err == nil && u != nil && u.Email() == id+"@example.com", ""
			}},
		{kind: "user_update_channels",
			setup: func(e *c11Env, id string) {
				_, _, _ = e.db.UpdatePrincipal(e.ctx, &auth.PrincipalConfig{Name: base.Ptr("u" + id), Password: base.Ptr("letmein"), ExplicitChannels: base.SetOf("x")}, true, true)
			},
			run: func(e *c11Env, id string) error {
				_, _, err := e.db.UpdatePrincipal(e.ctx, &auth.PrincipalConfig{Name: base.Ptr("u" + id), ExplicitChannels: base.SetOf("y")}, true, true)
				return err
			},
			primary: userKeys,
			done: func(e *c11Env, id string) (bool, string) {
				u, err := e.db.Authenticator(e.ctx).GetUser("u" + id)
				return err == nil && u != nil && u.ExplicitChannels().Contains("y") && !u.ExplicitChannels().Contains("x"), ""
			}},
		{kind: "role_create",
			setup: func(e *c11Env, id string) {},
			run: func(e *c11Env, id string) error {
				_, _, err := e.db.UpdatePrincipal(e.ctx, &auth.PrincipalConfig{Name: base.Ptr("r" + id), ExplicitChannels: base.SetOf("x")}, false, true)
				return err
			},
			primary: userKeys,
			done: func(e *c11Env, id string) (bool, string) {
				r, err := e.db.Authenticator(e.ctx).GetRole("r" + id)
				return err == nil && r != nil && r.ExplicitChannels().Contains("x"), ""
			}},
		{kind: "role_delete",
			setup: func(e *c11Env, id string) {
				_, _, _ = e.db.UpdatePrincipal(e.ctx, &auth.PrincipalConfig{Name: base.Ptr("r" + id), ExplicitChannels: base.SetOf("x")}, false, true)
			},
			run:     func(e *c11Env, id string) error { return e.db.DeleteRole(e.ctx, "r"+id, false) },
			primary: userKeys,
			done: func(e *c11Env, id string) (bool, string) {
				r, err := e.db.Authenticator(e.ctx).GetRole("r" + id)
				return err == nil && (r == nil || r.IsDeleted()), ""
			}},
		{kind: "role_purge",
			setup: func(e *c11Env, id string) {
				_, _, _ = e.db.UpdatePrincipal(e.ctx, &auth.PrincipalConfig{Name: base.Ptr("r" + id), ExplicitChannels: base.SetOf("x")}, false, true)
			},
			run:     func(e *c11Env, id string) error { return e.db.DeleteRole(e.ctx, "r"+id, true) },
			primary: userKeys,
			done: func(e *c11Env, id string) (bool, string) {
				r, err := e.db.Authenticator(e.ctx).GetRole("r" + id)
				return err == nil && r == nil, fmt.Sprint(err)
			}},
		{kind: "user_delete",
			setup: func(e *c11Env, id string) {
				_, _, _ = e.db.UpdatePrincipal(e.ctx, &auth.PrincipalConfig{Name: base.Ptr("u" + id), Password: base.Ptr("letmein")}, true, true)
			},
			run: func(e *c11Env, id string) error {
				a := e.db.Authenticator(e.ctx)
				u, err := a.GetUser("u" + id)
				if err != nil {
					return err
				}
				if u == nil {
					return base.ErrNotFound
				}
				return a.DeleteUser(u)
			},
			primary: userKeys,
			done: func(e *c11Env, id string) (bool, string) {
				u, err := e.db.Authenticator(e.ctx).GetUser("u" + id)
				return err == nil && u == nil, ""
			}},
		{kind: "session_create",
			setup: func(e *c11Env, id string) {
				_, _, _ = e.db.UpdatePrincipal(e.ctx, &auth.PrincipalConfig{Name: base.Ptr("u" + id), Password: base.Ptr("letmein")}, true, true)
			},
			run: func(e *c11Env, id string) error {
				a := e.db.Authenticator(e.ctx)
				u, err := a.GetUser("u" + id)
				if err != nil {
					return err
				}
				if u == nil {
					return base.ErrNotFound
				}
				s, err := a.CreateSession(e.ctx, u, time.Hour, false)
				if err == nil {
					c11Sessions[id] = s.ID
				}
				return err
			},
			primary: userKeys,
			done: func(e *c11Env, id string) (bool, string) {
				sid := c11Sessions[id]
				if sid == "" {
					return false, "no session id"
				}
				s, _, err := e.db.Authenticator(e.ctx).GetSession(sid)
				return err == nil && s != nil, fmt.Sprint(err)
			}},
	}
}

var c11Sessions = map[string]string{}

func TestVerifC11(t *testing.T) {
	rec := vNewRecorder(t, "C11", "C11.C11_Corr")
	defer rec.Finish()
	e := c11NewEnv(t)
	defer e.db.Close(e.ctx)
	// faults are addressed by (operation signature, occurrence) so that incidental extra reads do not shift them;
	// several targets = several faults in one request, each fires once
	type c11Target struct {
		sig   string
		occ   int
		fired bool
	}
	arm := func(targets []*c11Target, mode string) func(op, key string) error {
		seen := map[string]int{}
		return func(op, key string) error {
			if strings.Contains(key, "_sync:seq") {
				return nil // allocator batch reservations depend on history; the allocator is C07's subject
			}
			sig := c11OpSig(op + " " + key)
			seen[sig]++
			for _, tg := range targets {
				if tg.sig == sig && tg.occ == seen[sig] && !tg.fired {
					tg.fired = true
					switch mode {
					case "timeout":
						return base.ErrTimeout
					case "cas":
						return sgbucket.CasMismatchErr{Expected: 1, Actual: 2}
					}
					return errVInjected
				}
			}
			return nil
		}
	}
	setFail := func(f func(op, key string) error) {
		e.fs.mu.Lock()
		e.fs.failOp = f
		e.fs.mu.Unlock()
		e.ms.mu.Lock()
		e.ms.failOp = f
		e.ms.mu.Unlock()
	}
	modes := []string{"error", "timeout"}
	for _, rq := range c11Requests() {
		// ---- clean run: the storage-operation trace ----
		e.n++
		id := fmt.Sprintf("c11%s%d", rq.kind, e.n)
		rq.setup(e, id)
		var trace []string
		var tmu = &e.fs.mu
		_ = tmu
		var marked []string // trace with "~end" markers
		collect := func(op, key string) error {
			if strings.Contains(key, "_sync:seq") {
				return nil
			}
			trace = append(trace, op+" "+key)
			marked = append(marked, op+" "+key)
			return nil
		}
		e.fs.onMark = func(m string) { marked = append(marked, m) }
		e.ms.onMark = e.fs.onMark
		setFail(collect)
		base0 := e.db.sequences.last
		e.ms.takeReleased()
		cleanErr := rq.run(e, id)
		setFail(nil)
		e.fs.onMark, e.ms.onMark = nil, nil
		okClean, detail := rq.done(e, id)
		expectSuccess := rq.kind != "doc_rejected"
		if expectSuccess && (cleanErr != nil || !okClean) {
			rec.Fail("reported_success_durable", "clean-run-not-visible", map[string]any{"kind": rq.kind, "err": fmt.Sprint(cleanErr), "detail": detail}, "un-faulted request did not succeed or is not visible")
		}
		c11Account(rec, e, rq.kind, "clean", -1, base0, cleanErr)
		// Operations issued inside a WriteUpdateWithXattrs call (sequence reservation, attachment and revision
		// body documents) run in its update callback, i.e. BEFORE the compare-and-swap write: order the classes
		// accordingly (the call itself becomes the commit, placed at its end marker) and remap fault indexes.
		var classes []string
		remap := map[int]int{}
		{
			orig := 0
			var pendingIdx []int
			var pendingKey []string
			for _, m := range marked {
				if strings.HasPrefix(m, "~end ") {
					key := strings.TrimPrefix(m, "~end ")
					for j := len(pendingKey) - 1; j >= 0; j-- {
						if pendingKey[j] == key {
							remap[pendingIdx[j]] = len(classes)
							classes = append(classes, "Commit")
							pendingIdx = append(pendingIdx[:j], pendingIdx[j+1:]...)
							pendingKey = append(pendingKey[:j], pendingKey[j+1:]...)
							break
						}
					}
					continue
				}
				parts := strings.SplitN(m, " ", 2)
				if parts[0] == "WriteUpdateWithXattrs" {
					pendingIdx = append(pendingIdx, orig)
					pendingKey = append(pendingKey, parts[1])
				} else {
					remap[orig] = len(classes)
					classes = append(classes, c11Class(parts[0], parts[1]))
				}
				orig++
			}
			for _, pi := range pendingIdx { // no end marker seen (hooked path): keep in place at the end
				remap[pi] = len(classes)
				classes = append(classes, "Commit")
			}
		}
		commitIdx := -1
		_ = commitIdx
		rec.Size(fmt.Sprintf("%s:trace=%d", rq.kind, len(trace)))
		rec.Sample(map[string]any{"kind": rq.kind, "trace": trace})

		occOf := func(k int) int {
			occ := 0
			for j := 0; j <= k; j++ {
				if c11OpSig(trace[j]) == c11OpSig(trace[k]) {
					occ++
				}
			}
			return occ
		}
		runFaulted := func(ks []int, mode, stream string) {
			e.n++
			id := fmt.Sprintf("c11%s%d", rq.kind, e.n)
			rq.setup(e, id)
			keys := rq.primary(e, id)
			pre := e.rawState(keys)
			var targets []*c11Target
			for _, k := range ks {
				targets = append(targets, &c11Target{sig: c11OpSig(trace[k]), occ: occOf(k)})
			}
			base1 := e.db.sequences.last
			e.ms.takeReleased()
			setFail(arm(targets, mode))
			err := rq.run(e, id)
			setFail(nil)
			post := e.rawState(keys)
			unchanged := true
			var changedKey string
			for kk, v := range pre {
				if post[kk] != v {
					unchanged = false
					changedKey = kk
				}
			}
			visible, det := rq.done(e, id)
			result := "ok"
			if err != nil {
				result = "err"
			}
			state := "other"
			switch {
			case unchanged && !visible:
				state = "unchanged"
			case visible:
				state = "committed"
			}
			// only the faults that actually fired are part of the case
			var firedIdx []string
			var firedOps []string
			anyFired := false
			for i, tg := range targets {
				if tg.fired {
					anyFired = true
					firedIdx = append(firedIdx, fmt.Sprintf("%d%%nat", remap[ks[i]]))
					firedOps = append(firedOps, trace[ks[i]])
				}
			}
			in := map[string]any{"kind": rq.kind, "op_index": ks, "op": firedOps, "mode": mode, "result": result, "state": state, "error": fmt.Sprint(err)}
			sigOps := ""
			for _, o := range firedOps {
				sigOps += ":" + c11OpSig(o)
			}
			if anyFired && err != nil && !unchanged && mode != "timeout" {
				rec.Fail("fault_leaves_state_unchanged", "partial-effect:"+rq.kind+sigOps, in, "request failed but primary state changed ("+changedKey+")")
			}
			if anyFired && err == nil && expectSuccess && !visible {
				rec.Fail("reported_success_durable", "swallowed-failure:"+rq.kind+sigOps, in, "request reported success but its effect is not visible: "+det)
			}
			if !expectSuccess && err == nil {
				rec.Fail("rejected_write_succeeded", "rejected-write-succeeded", in, "a rejected write returned success")
			}
			if mode != "timeout" && unchanged {
				c11Account(rec, e, rq.kind, strings.Join(firedOps, "+")+"/"+mode, ks[0], base1, err)
			} else {
				e.ms.takeReleased()
			}
			cls := "[" + strings.Join(classes, "; ") + "]"
			coq := fmt.Sprintf("CFault %s [%s] %s %s %s %s", cls, strings.Join(firedIdx, "; "), cqBool(mode == "cas"), cqBool(expectSuccess), map[string]string{"ok": "ROk", "err": "RErr"}[result],
				map[string]string{"unchanged": "SUnchanged", "committed": "SCommitted", "other": "SOther"}[state])
			rec.Case(stream, rq.kind, coq, in, anyFired)
			rec.Err(rq.kind + ":" + mode + ":" + result + "/" + state)
		}
		// ---- every single fault ----
		for k := range trace {
			ms := modes
			if strings.HasPrefix(trace[k], "WriteCas ") {
				ms = []string{"error", "timeout", "cas"}
			}
			for _, mode := range ms {
				runFaulted([]int{k}, mode, "single_fault")
			}
		}
		// ---- pairs of faults: all pairs in the thorough tier, the pairs that start with a tolerated operation
		// (read / best effort) or lie after the commit in the quick tier ----
		for i := range trace {
			for j := i + 1; j < len(trace); j++ {
				ci, cj := classes[remap[i]], classes[remap[j]]
				interesting := ci == "Read" || ci == "Opt" || (ci != "Commit" && cj != "Commit" && remap[i] > 0 && classes[remap[i]-1] == "Commit")
				if vThorough() || interesting {
					runFaulted([]int{i, j}, "error", "fault_pair")
				}
			}
		}
	}
	rec.Extra("exhaustive", true)
}

func c11OpSig(tr string) string {
	parts := strings.SplitN(tr, " ", 2)
	key := parts[1]
	switch {
	case strings.Contains(key, "useremail"):
		key = "useremail"
	case strings.Contains(key, "_sync:user"):
		key = "user"
	case strings.Contains(key, "_sync:role"):
		key = "role"
	case strings.Contains(key, "_sync:session"):
		key = "session"
	case strings.Contains(key, "_sync:att"):
		key = "att"
	case strings.Contains(key, "_sync:rb"):
		key = "rb"
	case strings.Contains(key, "unusedSeq"):
		key = "unusedSeq"
	case strings.Contains(key, "_sync:seq"):
		key = "seq"
	default:
		key = "doc"
	}
	return parts[0] + ":" + key
}

// sequences reserved during the request must be on a stored document/principal or published as unused
func c11Account(rec *vRecorder, e *c11Env, kind, what string, k int, base0 uint64, reqErr error) {
	last1 := e.db.sequences.last
	released := map[uint64]bool{}
	for _, r := range e.ms.takeReleased() {
		released[r] = true
	}
	if last1 == base0 {
		return
	}
	if reqErr == nil {
		return // a successful request carries its sequence (checked by C05/C07 correspondences)
	}
	for s := base0 + 1; s <= last1; s++ {
		if !released[s] {
			rec.Fail("failed_request_releases_sequences", "sequence-leak:"+kind, map[string]any{"kind": kind, "fault": what, "op_index": k, "sequence": s - base0, "error": fmt.Sprint(reqErr)},
				"the request failed but a sequence it reserved was not published as unused")
			return
		}
	}
}
