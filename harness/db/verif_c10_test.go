//go:build verif

package db

import (
	"context"
	"encoding/json"
	"fmt"
	"iter"
	"maps"
	"sort"
	"strings"
	"testing"

	sgbucket "github.com/couchbase/sg-bucket"
	"github.com/couchbase/sync_gateway/base"
)

// C10 correspondence + monitors on the real db.HybridLogicalVector API, its stored/wire codecs and the
// hex helpers of base/util.go.  Ground truth for the histories: per replica the set of versions really
// seen (classic version vectors).

// ---------- interned source names (model: N, 0 = "") ----------
var c10Names = []string{"", "c3JjMQ", "c3JjMg", "c3JjMw", "c3JjNA"}

func c10ID(name string) uint64 {
	for i, n := range c10Names {
		if n == name {
			return uint64(i)
		}
	}
	for i, n := range c10MoreNames { // sources 5.. of the deepening streams (verif_c10_deep_test.go)
		if n == name {
			return uint64(len(c10Names) + i)
		}
	}
	panic("c10: unknown source name " + name)
}

func c10Map(m HLVVersions) string {
	type kv struct{ k, v uint64 }
	var l []kv
	for s, v := range m {
		l = append(l, kv{c10ID(s), v})
	}
	sort.Slice(l, func(i, j int) bool { return l[i].k < l[j].k })
	parts := make([]string, len(l))
	for i, e := range l {
		parts[i] = "(" + cqN(e.k) + "," + cqN(e.v) + ")"
	}
	return "[" + strings.Join(parts, ";") + "]"
}

// c10H renders a vector as a term of the model type hlv (nil = no document = the empty vector)
func c10H(h *HybridLogicalVector) string {
	if h == nil {
		return "(H 0 0 [] [])"
	}
	return "(H " + cqN(c10ID(h.SourceID)) + " " + cqN(h.Version) + " " + c10Map(h.MergeVersions) + " " + c10Map(h.PreviousVersions) + ")"
}
func c10OptH(h *HybridLogicalVector, err error) string {
	if err != nil {
		return "None"
	}
	return "(Some " + c10H(h) + ")"
}
func c10Desc(h *HybridLogicalVector) any {
	if h == nil {
		return nil
	}
	return map[string]any{"src": h.SourceID, "ver": h.Version, "mv": map[string]uint64(h.MergeVersions), "pv": map[string]uint64(h.PreviousVersions)}
}
func c10WF(h *HybridLogicalVector) bool {
	if h.SourceID == "" {
		return false
	}
	if _, ok := h.PreviousVersions[h.SourceID]; ok {
		return false
	}
	for k := range h.MergeVersions {
		if _, ok := h.PreviousVersions[k]; ok {
			return false
		}
	}
	return true
}

// ---------- byte-string keyed vectors for the codec cases (model: svec) ----------
func c10SMap(m map[string]uint64, order []string) string {
	if order == nil {
		for k := range m {
			order = append(order, k)
		}
		sort.Strings(order)
	}
	parts := make([]string, len(order))
	for i, k := range order {
		parts[i] = "(" + cqStr(k) + "," + cqN(m[k]) + ")"
	}
	return "[" + strings.Join(parts, ";") + "]"
}
func c10S(h *HybridLogicalVector, mvOrder, pvOrder []string) string {
	return "(mkS " + cqN(h.CurrentVersionCAS) + " " + cqStr(h.SourceID) + " " + cqN(h.Version) + " " + c10SMap(h.MergeVersions, mvOrder) + " " + c10SMap(h.PreviousVersions, pvOrder) + ")"
}
func c10StrList(l []string) string {
	parts := make([]string, len(l))
	for i, s := range l {
		parts[i] = cqStr(s)
	}
	return "[" + strings.Join(parts, ";") + "]"
}
func c10OptStrList(l *[]string) string {
	if l == nil {
		return "None"
	}
	return "(Some " + c10StrList(*l) + ")"
}
func c10OptStr(s *string) string {
	if s == nil {
		return "None"
	}
	return "(Some " + cqStr(*s) + ")"
}

type c10BV struct {
	CvCas *string   `json:"cvCas,omitempty"`
	Src   string    `json:"src"`
	Ver   string    `json:"ver"`
	PV    *[]string `json:"pv,omitempty"`
	MV    *[]string `json:"mv,omitempty"`
}

func (b c10BV) coq() string {
	return "(mkJ " + c10OptStr(b.CvCas) + " " + cqStr(b.Src) + " " + cqStr(b.Ver) + " " + c10OptStrList(b.PV) + " " + c10OptStrList(b.MV) + ")"
}

func c10Order(order []string) func(HLVVersions) iter.Seq2[string, uint64] {
	return func(hv HLVVersions) iter.Seq2[string, uint64] {
		return func(yield func(string, uint64) bool) {
			for _, k := range order {
				if v, ok := hv[k]; ok {
					if !yield(k, v) {
						return
					}
				}
			}
		}
	}
}

// ---------- replicas with ground truth ----------
type c10Replica struct {
	name  string
	id    uint64
	hlv   *HybridLogicalVector // nil: the replica does not hold the document
	clock *sgbucket.HybridLogicalClock
	phys  uint64
	seen  map[Version]bool
	recd  map[Version]bool // the versions the vector still records (ReplicaAll.v rec_step), see verif_c10_deep_test.go
}

func (r *c10Replica) newClock() {
	r.clock = sgbucket.NewHybridLogicalClock()
	r.clock.SetClockForTest(func() uint64 { return r.phys })
}

type c10Ev struct {
	Kind string `json:"kind"` // edit | pull | restart
	R    int    `json:"r"`
	Q    int    `json:"q,omitempty"`
	Phys uint64 `json:"phys,omitempty"`
}

func (e c10Ev) coq() string {
	switch e.Kind {
	case "edit":
		return "EEdit " + cqI(e.R) + " " + cqN(e.Phys)
	case "pull":
		return "EPull " + cqI(e.R) + " " + cqI(e.Q) + " " + cqN(e.Phys)
	}
	return "ERestart " + cqI(e.R)
}

func c10Value(h *HybridLogicalVector, s string) uint64 {
	if h == nil {
		return 0
	}
	v, _ := h.GetValue(s)
	return v
}

var c10KnownReported int

type c10Run struct {
	evTerms  []string
	obsTerms []string // "(outcome) (vector)" per event, for the tree form
	rec      *vRecorder
	ctx      context.Context
	evs      []c10Ev
	merges   int
	ffs      int
	same     int
	tainted  bool // ground truth no longer applicable (see the same-merge branch of a pull)
	knownHit bool // the last monitor run reported the known same-merge defect
	sameOK   int  // same-merge acceptances that lost nothing
	failures int
}

// reprMonitors: the accepted / merged / edited vector records precisely the versions its replica has seen
func (run *c10Run) reprMonitors(kind string, upto int, rep *c10Replica, before, incoming *HybridLogicalVector) {
	if run.tainted {
		return // after a same-merge acceptance the vector no longer represents the seen set (known finding)
	}
	// The one known defect (known_findings.json): a pull accepted on the same-merge rule drops the puller's own
	// current version.  Exactly that failure gets the known signature; anything else gets its own.
	const knownSig = "same-merge-accept-drops-local-version"
	fail := func(m, sig, detail string) {
		run.failures++
		if sig == knownSig {
			run.knownHit = true
			// recorded a few times only, so that it cannot crowd other failures out of the recorder's list
			c10KnownReported++
			if c10KnownReported > 4 {
				return
			}
		}
		run.rec.Fail(m, sig, map[string]any{"history": run.evs[:upto+1], "replica": rep.id, "vector_after": c10Desc(rep.hlv), "vector_before": c10Desc(before), "incoming": c10Desc(incoming)}, detail)
	}
	h := rep.hlv
	var localCV Version
	if before != nil {
		localCV = Version{SourceID: before.SourceID, Value: before.Version}
	}
	// nothing invented
	listed := []Version{{SourceID: h.SourceID, Value: h.Version}}
	for s, v := range h.MergeVersions {
		listed = append(listed, Version{SourceID: s, Value: v})
	}
	for s, v := range h.PreviousVersions {
		listed = append(listed, Version{SourceID: s, Value: v})
	}
	for _, p := range listed {
		if !rep.seen[p] {
			fail("nothing_invented", "repr:nothing_invented:"+kind, fmt.Sprintf("vector lists %d@%s which replica %d has never seen", p.Value, p.SourceID, rep.id))
			break
		}
	}
	// nothing lost
	var lost []Version
	for p := range rep.seen {
		if !h.DominatesSource(p) {
			lost = append(lost, p)
		}
	}
	sort.Slice(lost, func(i, j int) bool {
		if lost[i].SourceID != lost[j].SourceID {
			return lost[i].SourceID < lost[j].SourceID
		}
		return lost[i].Value > lost[j].Value
	})
	for _, p := range lost {
		sig := "repr:nothing_lost:" + kind
		if kind == "same-merge" && p.SourceID == localCV.SourceID && p.Value <= localCV.Value && c10Value(h, p.SourceID) == c10Value(incoming, p.SourceID) {
			sig = knownSig // the local current version (and nothing newer of its source) is what was dropped
		}
		fail("nothing_lost", sig, fmt.Sprintf("replica %d has seen %d@%s but its vector records %d for that source", rep.id, p.Value, p.SourceID, c10Value(h, p.SourceID)))
		if sig != knownSig {
			break
		}
	}
	// no source twice
	if !c10WF(h) {
		fail("no_source_twice", "repr:no_source_twice:"+kind, "a source of cv or mv is also listed in pv")
	}
	// no value lowered
	for _, s := range c10Names[1:] {
		if c10Value(h, s) < c10Value(before, s) || c10Value(h, s) < c10Value(incoming, s) {
			sig := "repr:no_value_lowered:" + kind
			if kind == "same-merge" && s == localCV.SourceID && c10Value(before, s) == localCV.Value && c10Value(h, s) == c10Value(incoming, s) {
				sig = knownSig // only the local cv's source went down, to the incoming vector's value
			}
			fail("no_value_lowered", sig, fmt.Sprintf("value of source %s lowered: before %d, incoming %d, after %d", s, c10Value(before, s), c10Value(incoming, s), c10Value(h, s)))
			if sig != knownSig {
				break
			}
		}
	}
}

// c10RunHistory executes the events on the real API, emits one Coq case and runs the monitors
func c10RunHistory(rec *vRecorder, ctx context.Context, stream string, evs []c10Ev, emit bool) *c10Run {
	run := &c10Run{rec: rec, ctx: ctx, evs: evs}
	reps := map[int]*c10Replica{}
	for i := 1; i <= 3; i++ {
		r := &c10Replica{name: c10Names[i], id: uint64(i), seen: map[Version]bool{}, recd: map[Version]bool{}}
		r.newClock()
		reps[i] = r
	}
	var evTerms, obsTerms []string
	for idx, e := range evs {
		rep := reps[e.R]
		outcome := "ONone"
		switch e.Kind {
		case "edit":
			// documentUpdateFunc: floor = maxValueForSource of the existing vector (0 for a new document), hlc.Now;
			// updateHLV(NewVersion): AddVersion
			var floor uint64
			if rep.hlv != nil {
				floor = rep.hlv.maxValueForSource(rep.name)
			}
			rep.phys = e.Phys
			v := rep.clock.Now(floor)
			if rep.hlv == nil {
				rep.hlv = &HybridLogicalVector{}
			}
			before := rep.hlv.Copy()
			err := rep.hlv.AddVersion(Version{SourceID: rep.name, Value: v})
			if err != nil {
				outcome = "OEditError"
				if !run.tainted {
					rec.Fail("local_versions_increase", "edit-rejected", map[string]any{"history": evs[:idx+1]}, "AddVersion rejected the locally generated version: "+err.Error())
				}
				run.recRejected("edit", idx, err)
			} else {
				outcome = "(OEdited " + cqN(v) + ")"
				run.checkNew(idx, reps, rep, v)
				rep.seen[Version{SourceID: rep.name, Value: v}] = true
				run.reprMonitors("edit", idx, rep, before, nil)
				run.recStep("edit", idx, rep, before, nil, v)
			}
		case "pull":
			inc := reps[e.Q]
			if e.R == e.Q || inc.hlv == nil {
				break
			}
			if rep.hlv == nil {
				// PutExistingCurrentVersion on a document without a vector
				rep.hlv = NewHybridLogicalVector()
				rep.hlv.UpdateWithIncomingHLV(inc.hlv.Copy())
				for p := range inc.seen {
					rep.seen[p] = true
				}
				outcome = "OCopied"
				run.reprMonitors("copy", idx, rep, nil, inc.hlv)
				run.recStep("copy", idx, rep, nil, inc, 0)
				break
			}
			before := rep.hlv.Copy()
			status := IsInConflict(ctx, rep.hlv, inc.hlv)
			sameMerge := len(inc.hlv.MergeVersions) != 0 && len(rep.hlv.MergeVersions) != 0 && maps.Equal(inc.hlv.MergeVersions, rep.hlv.MergeVersions)
			if !run.tainted {
				// ground truth: already known iff the local replica has seen the incoming cv; conflict iff concurrent
				// and not the same merge; otherwise accepted
				known := rep.seen[Version{SourceID: inc.hlv.SourceID, Value: inc.hlv.Version}]
				incSeenLocal := inc.seen[Version{SourceID: rep.hlv.SourceID, Value: rep.hlv.Version}]
				want := HLVNoConflict
				if known {
					want = HLVNoConflictRevAlreadyPresent
				} else if !incSeenLocal && !sameMerge {
					want = HLVConflict
				}
				if status != want {
					run.failures++
					mon, sig := "conflict_iff_concurrent", fmt.Sprintf("verdict:want%d:got%d", want, status)
					if known {
						// a revision the replica has already seen is not reported as already present
						mon, sig = "known_iff_seen", fmt.Sprintf("seen-revision-not-reported-known:got%d", status)
					}
					rec.Fail(mon, sig,
						map[string]any{"history": evs[:idx+1], "local": c10Desc(rep.hlv), "incoming": c10Desc(inc.hlv), "local_has_seen_incoming_cv": known, "incoming_has_seen_local_cv": incSeenLocal, "same_merge": sameMerge},
						fmt.Sprintf("IsInConflict returned %d, the version vectors say %d (1 no conflict, 2 conflict, 3 already present)", status, want))
				}
			}
			run.recVerdict(idx, rep, inc, status, sameMerge)
			switch status {
			case HLVNoConflictRevAlreadyPresent:
				outcome = "OKnown"
			case HLVNoConflict:
				ff := inc.hlv.DominatesSource(*rep.hlv.ExtractCurrentVersionFromHLV())
				rep.hlv.UpdateWithIncomingHLV(inc.hlv.Copy())
				for p := range inc.seen {
					rep.seen[p] = true
				}
				if ff {
					outcome = "OFastForward"
					run.ffs++
					run.reprMonitors("fast-forward", idx, rep, before, inc.hlv)
					run.recStep("fast-forward", idx, rep, before, inc, 0)
				} else {
					outcome = "OSameMerge"
					run.same++
					run.knownHit = false
					run.reprMonitors("same-merge", idx, rep, before, inc.hlv)
					run.recStep("same-merge", idx, rep, before, inc, 0)
					if run.knownHit {
						// known finding: the replica's vector no longer represents what it has seen
						run.tainted = true
					} else {
						run.sameOK++ // nothing lost: the ground truth stays applicable, monitoring continues
					}
				}
			case HLVConflict:
				// resolveDocMergeHLV: floor over both vectors, hlc.Now, MergeWithIncomingHLV on a copy
				floor := max(rep.hlv.maxValueForSource(rep.name), inc.hlv.maxValueForSource(rep.name))
				rep.phys = e.Phys
				v := rep.clock.Now(floor)
				newHLV := rep.hlv.Copy()
				err := newHLV.MergeWithIncomingHLV(Version{SourceID: rep.name, Value: v}, inc.hlv.Copy())
				if err != nil {
					outcome = "OMergeError"
					if !run.tainted {
						rec.Fail("local_versions_increase", "merge-rejected", map[string]any{"history": evs[:idx+1]}, "MergeWithIncomingHLV rejected the generated version: "+err.Error())
					}
					run.recRejected("merge", idx, err)
				} else {
					outcome = "(OMerged " + cqN(v) + ")"
					run.merges++
					run.checkNew(idx, reps, rep, v)
					rep.hlv = newHLV
					for p := range inc.seen {
						rep.seen[p] = true
					}
					rep.seen[Version{SourceID: rep.name, Value: v}] = true
					run.reprMonitors("merge", idx, rep, before, inc.hlv)
					run.recStep("merge", idx, rep, before, inc, v)
				}
			}
		case "restart":
			rep.newClock()
			outcome = "ORestarted"
		}
		evTerms = append(evTerms, e.coq())
		obsTerms = append(obsTerms, "("+outcome+", "+c10H(rep.hlv)+")")
		run.obsTerms = append(run.obsTerms, outcome+" "+c10H(rep.hlv))
	}
	run.evTerms = evTerms
	nontrivial := run.merges > 0 && run.ffs > 0
	if emit {
		rec.Case(stream, "history", "CHistory "+cqList(evTerms)+" "+cqList(obsTerms), map[string]any{"events": evs}, nontrivial)
	} else {
		key := strings.Join(evTerms, ";")
		rec.Count(stream, "history", key, nontrivial)
	}
	rec.Size(fmt.Sprintf("history-len-%02d", len(evs)/5*5))
	return run
}

// checkNew: a locally generated version is strictly above every version of the source any replica has seen
func (run *c10Run) checkNew(upto int, reps map[int]*c10Replica, rep *c10Replica, v uint64) {
	if run.tainted {
		return
	}
	for _, other := range reps {
		for p := range other.seen {
			if p.SourceID == rep.name && p.Value >= v {
				run.failures++
				run.rec.Fail("local_versions_increase", "generated-version-not-increasing", map[string]any{"history": run.evs[:upto+1], "generated": v, "existing": p.Value, "source": rep.name},
					fmt.Sprintf("replica %d generated %d but version %d of its source already exists", rep.id, v, p.Value))
				return
			}
		}
	}
}

// ---------- random vectors ----------
func c10RandMap(rnd *vRand, pct int, vals func() uint64, allowEmptyKey bool) HLVVersions {
	m := HLVVersions{}
	for i, n := range c10Names {
		if i == 0 {
			if allowEmptyKey && rnd.Chance(3) {
				m[n] = vals()
			}
			continue
		}
		if rnd.Chance(pct) {
			m[n] = vals()
		}
	}
	return m
}

func c10RandHLV(rnd *vRand, wf bool) *HybridLogicalVector {
	vals := func() uint64 {
		switch rnd.Intn(10) {
		case 0:
			return 0
		case 1:
			return uint64(1) << uint(rnd.Intn(64))
		}
		return uint64(1 + rnd.Intn(5))
	}
	h := &HybridLogicalVector{}
	h.SourceID = c10Names[1+rnd.Intn(len(c10Names)-1)]
	if !wf && rnd.Chance(5) {
		h.SourceID = ""
	}
	h.Version = vals()
	if wf && h.Version == 0 {
		h.Version = 1
	}
	h.MergeVersions = c10RandMap(rnd, 30, vals, !wf)
	h.PreviousVersions = c10RandMap(rnd, 40, vals, !wf)
	if rnd.Chance(40) {
		h.MergeVersions = nil
	}
	if rnd.Chance(20) {
		h.PreviousVersions = nil
	}
	if wf {
		delete(h.PreviousVersions, h.SourceID)
		for k := range h.MergeVersions {
			delete(h.PreviousVersions, k)
		}
	}
	return h
}

func c10Small() []*HybridLogicalVector {
	// all vectors over sources {1,2}, values {1,2}: cv 4 x mv 9 x pv 9 = 324 (well-formed and not)
	var out []*HybridLogicalVector
	opts := []uint64{0, 1, 2}
	for s := 1; s <= 2; s++ {
		for v := uint64(1); v <= 2; v++ {
			for _, m1 := range opts {
				for _, m2 := range opts {
					for _, p1 := range opts {
						for _, p2 := range opts {
							h := &HybridLogicalVector{SourceID: c10Names[s], Version: v}
							if m1 > 0 || m2 > 0 {
								h.MergeVersions = HLVVersions{}
							}
							if p1 > 0 || p2 > 0 {
								h.PreviousVersions = HLVVersions{}
							}
							if m1 > 0 {
								h.MergeVersions[c10Names[1]] = m1
							}
							if m2 > 0 {
								h.MergeVersions[c10Names[2]] = m2
							}
							if p1 > 0 {
								h.PreviousVersions[c10Names[1]] = p1
							}
							if p2 > 0 {
								h.PreviousVersions[c10Names[2]] = p2
							}
							out = append(out, h)
						}
					}
				}
			}
		}
	}
	return out
}

func c10Status(s HLVConflictStatus) string { return cqN(uint64(s)) }

func c10Unary(rec *vRecorder, stream string, h *HybridLogicalVector, ss []int, vs []uint64) {
	var ssT, vsT, gv, mx, dom []string
	for _, v := range vs {
		vsT = append(vsT, cqN(v))
	}
	if h.SourceID != "" && !h.DominatesSource(Version{SourceID: h.SourceID, Value: h.Version}) {
		rec.Fail("nothing_lost", "own-cv-not-dominated", map[string]any{"h": c10Desc(h)}, "a vector does not dominate its own current version")
	}
	for _, s := range ss {
		name := c10Names[s]
		ssT = append(ssT, cqI(s))
		if v, ok := h.GetValue(name); ok {
			gv = append(gv, "(Some "+cqN(v)+")")
		} else {
			gv = append(gv, "None")
		}
		mx = append(mx, cqN(h.maxValueForSource(name)))
		for _, v := range vs {
			d := h.DominatesSource(Version{SourceID: name, Value: v})
			if d != h.IsVersionKnown(Version{SourceID: name, Value: v}) {
				rec.Fail("dominates_is_known", "dominates-vs-known", map[string]any{"h": c10Desc(h), "s": name, "v": v}, "DominatesSource and IsVersionKnown disagree")
			}
			dom = append(dom, cqBool(d))
		}
	}
	rec.Case(stream, "unary", "CUnary "+c10H(h)+" "+cqList(ssT)+" "+cqList(vsT)+" "+cqList(gv)+" "+cqList(mx)+" "+cqList(dom), map[string]any{"h": c10Desc(h)}, !c10WF(h) || len(h.MergeVersions) > 0)
}

func c10Mut(rec *vRecorder, stream string, h *HybridLogicalVector, ss []int, vs []uint64) {
	var ssT, vsT, av, atp []string
	for _, v := range vs {
		vsT = append(vsT, cqN(v))
	}
	inv := h.Copy()
	inv.InvalidateMV()
	for _, s := range ss {
		name := c10Names[s]
		ssT = append(ssT, cqI(s))
		for _, v := range vs {
			c := h.Copy()
			err := c.AddVersion(Version{SourceID: name, Value: v})
			if err != nil && !c.Equal(h) {
				rec.Fail("add_version_error_keeps_vector", "add-version-error-mutates", map[string]any{"h": c10Desc(h), "s": name, "v": v}, "AddVersion returned an error but changed the vector")
			}
			av = append(av, c10OptH(c, err))
			c2 := h.Copy()
			res := c2.AddVersionToPV(name, v)
			atp = append(atp, "(HR "+c10H(c2)+" "+cqN(uint64(res))+")")
		}
	}
	rec.Case(stream, "mutators", "CMut "+c10H(h)+" "+cqList(ssT)+" "+cqList(vsT)+" "+c10H(inv)+" "+cqList(av)+" "+cqList(atp), map[string]any{"h": c10Desc(h)}, !c10WF(h) || len(h.MergeVersions) > 0)
}

func c10BinRow(rec *vRecorder, stream string, h *HybridLogicalVector, incs []*HybridLogicalVector, s int, v uint64) {
	var incT, uh, mg []string
	for _, inc := range incs {
		incT = append(incT, c10H(inc))
		c := h.Copy()
		c.UpdateHistory(inc.Copy())
		uh = append(uh, c10H(c))
		c2 := h.Copy()
		err := c2.MergeWithIncomingHLV(Version{SourceID: c10Names[s], Value: v}, inc.Copy())
		mg = append(mg, c10OptH(c2, err))
	}
	rec.Case(stream, "update_merge_row", "CBinRow "+c10H(h)+" "+cqList(incT)+" "+cqList(uh)+" "+cqI(s)+" "+cqN(v)+" "+cqList(mg), map[string]any{"h": c10Desc(h), "incoming": len(incs)}, true)
}

func TestVerifC10(t *testing.T) {
	rec := vNewRecorder(t, "C10", "C10.C10_Corr")
	rec.shardSize = 450
	defer rec.Finish()
	c10KnownReported = 0
	rnd := vNewRand(vSeed())
	ctx := base.TestCtx(t)

	// ================= (A) the vector API on small and random vectors =================
	small := c10Small()
	var wfSmall []*HybridLogicalVector
	for _, h := range small {
		if c10WF(h) {
			wfSmall = append(wfSmall, h)
		}
	}
	{
		// exhaustive IsInConflict table over the 324 small vectors (local x incoming)
		var hs, rows []string
		var codes []uint64
		for _, a := range small {
			hs = append(hs, c10H(a))
			for _, b := range small {
				codes = append(codes, uint64(IsInConflict(ctx, a, b)))
				rec.Count("exhaustive", "is_in_conflict_pair", "", false)
			}
		}
		for i := 0; i < len(codes); i += 27 {
			var packed uint64
			for j := min(i+27, len(codes)) - 1; j >= i; j-- {
				packed = packed*4 + codes[j]
			}
			rows = append(rows, cqN(packed))
		}
		rec.Case("exhaustive", "conflict_table", "CConflictTable "+cqList(hs)+" "+cqList(rows), map[string]any{"vectors": len(small), "pairs": len(small) * len(small)}, true)
	}
	ss := []int{0, 1, 2, 3}
	vs := []uint64{1, 2, 3}
	for _, h := range small {
		c10Unary(rec, "exhaustive", h, ss, vs)
		c10Mut(rec, "exhaustive", h, []int{1, 2, 3}, vs)
	}
	for _, h := range wfSmall {
		c10BinRow(rec, "exhaustive", h, wfSmall, 3, 3)
	}
	rec.Extra("small_vectors", len(small))
	rec.Extra("small_wellformed", len(wfSmall))
	nAPI := vBudget(250, 2500)
	for i := 0; i < nAPI; i++ {
		wf := rnd.Chance(50)
		a, b := c10RandHLV(rnd, wf), c10RandHLV(rnd, wf)
		stream := "random-malformed"
		if wf {
			stream = "random-valid"
		}
		rec.Case(stream, "is_in_conflict", "CConflict "+c10H(a)+" "+c10H(b)+" "+c10Status(IsInConflict(ctx, a, b)), map[string]any{"local": c10Desc(a), "incoming": c10Desc(b)}, true)
		rvs := []uint64{0, 1, uint64(1 + rnd.Intn(6)), a.Version, b.Version}
		c10Unary(rec, stream, a, []int{0, 1, 2, 3, 4}, rvs)
		c10Mut(rec, stream, a, []int{0, 1, 2, 3, 4}, rvs[1:])
		c := a.Copy()
		c.UpdateWithIncomingHLV(b.Copy())
		rec.Case(stream, "update_with_incoming", "CUpdate "+c10H(a)+" "+c10H(b)+" "+c10H(c), map[string]any{"local": c10Desc(a), "incoming": c10Desc(b)}, true)
		c10BinRow(rec, stream, a, []*HybridLogicalVector{b, c10RandHLV(rnd, wf)}, 1+rnd.Intn(4), uint64(1+rnd.Intn(8)))
	}
	// the hybrid logical clock (sg-bucket) as used for version generation
	for i := 0; i < vBudget(60, 600); i++ {
		pick := func() uint64 {
			if rnd.Chance(30) {
				return 0
			}
			return uint64(rnd.Intn(6)) << 16
		}
		phys, floor := pick(), uint64(rnd.Intn(5))<<16+uint64(rnd.Intn(3))
		clk := sgbucket.NewHybridLogicalClock()
		clk.SetClockForTest(func() uint64 { return phys })
		first := clk.Now(0) // becomes highestTime
		phys = pick() + uint64(rnd.Intn(2)*7)
		got := clk.Now(floor)
		rec.Case("random-valid", "hlc_now", "CNow "+cqN(phys&^sgbucket.HLCLogicalMask)+" "+cqN(first)+" "+cqN(floor)+" "+cqN(got), map[string]any{"phys": phys, "highest": first, "floor": floor, "now": got}, floor >= first)
		if got <= floor || got <= first {
			rec.Fail("local_versions_increase", "hlc-now-not-above-floor", map[string]any{"phys": phys, "highest": first, "floor": floor, "now": got}, "Now(floor) is not above the floor / the previous value")
		}
	}

	// ================= (B) histories over three replicas, against version vectors =================
	corpus := [][]c10Ev{
		// both sides merge the same conflict, then one pulls the other's merge
		{{Kind: "edit", R: 1}, {Kind: "edit", R: 2}, {Kind: "pull", R: 3, Q: 1}, {Kind: "pull", R: 1, Q: 2}, {Kind: "pull", R: 2, Q: 3}, {Kind: "pull", R: 1, Q: 2}, {Kind: "pull", R: 1, Q: 3}, {Kind: "edit", R: 1}},
		// both sides merge the same two foreign versions; 1 accepts 2's merge (nothing lost: source 1 is not a merge
		// version); its own merge revision, held by 3, comes back and must be reported as already present
		{{Kind: "edit", R: 2}, {Kind: "edit", R: 3}, {Kind: "pull", R: 1, Q: 2}, {Kind: "pull", R: 1, Q: 3}, {Kind: "pull", R: 2, Q: 3}, {Kind: "pull", R: 3, Q: 1}, {Kind: "pull", R: 1, Q: 2}, {Kind: "pull", R: 1, Q: 3}},
		// edit, replicate, edit on both sides, merge, replicate the merge, edit again
		{{Kind: "edit", R: 1}, {Kind: "pull", R: 2, Q: 1}, {Kind: "edit", R: 1}, {Kind: "edit", R: 2}, {Kind: "pull", R: 1, Q: 2}, {Kind: "pull", R: 2, Q: 1}, {Kind: "edit", R: 2}, {Kind: "pull", R: 3, Q: 2}, {Kind: "pull", R: 1, Q: 3}, {Kind: "pull", R: 1, Q: 2}},
		// clocks: physical time far ahead on one replica, restart with the clock behind
		{{Kind: "edit", R: 1, Phys: 5 << 16}, {Kind: "pull", R: 2, Q: 1}, {Kind: "edit", R: 2}, {Kind: "pull", R: 1, Q: 2}, {Kind: "restart", R: 1}, {Kind: "edit", R: 1}, {Kind: "edit", R: 1, Phys: 1 << 16}},
		// three-way: two merges in a row
		{{Kind: "edit", R: 1}, {Kind: "edit", R: 2}, {Kind: "edit", R: 3}, {Kind: "pull", R: 1, Q: 2}, {Kind: "pull", R: 1, Q: 3}, {Kind: "pull", R: 2, Q: 1}, {Kind: "pull", R: 3, Q: 1}, {Kind: "edit", R: 3}, {Kind: "pull", R: 2, Q: 3}},
	}
	totMerges, totFF, totSame := 0, 0, 0
	tally := func(run *c10Run) {
		totMerges += run.merges
		totFF += run.ffs
		totSame += run.same
	}
	for _, h := range corpus {
		tally(c10RunHistory(rec, ctx, "corpus", h, true))
	}
	// bounded-exhaustive: every sequence of edit / pull events of length depth over three replicas (clock at 0)
	var alphabet []c10Ev
	for r := 1; r <= 3; r++ {
		alphabet = append(alphabet, c10Ev{Kind: "edit", R: r})
		for q := 1; q <= 3; q++ {
			if q != r {
				alphabet = append(alphabet, c10Ev{Kind: "pull", R: r, Q: q})
			}
		}
	}
	depth := 4
	if vThorough() {
		depth = 5
	}
	// every sequence is run from scratch on the real code (with the monitors); the observations are then
	// arranged as one tree per first event, so that the model re-checks each shared prefix once
	type c10Node struct {
		ev, obs string
		kids    []*c10Node
		index   map[string]*c10Node
	}
	roots := &c10Node{index: map[string]*c10Node{}}
	var enum func(prefix []c10Ev)
	nExh := 0
	enum = func(prefix []c10Ev) {
		if len(prefix) == depth {
			run := c10RunHistory(rec, ctx, "exhaustive", append([]c10Ev{}, prefix...), false)
			tally(run)
			nExh++
			n := roots
			for i, et := range run.evTerms {
				k, ok := n.index[et]
				if !ok {
					k = &c10Node{ev: et, obs: run.obsTerms[i], index: map[string]*c10Node{}}
					n.index[et] = k
					n.kids = append(n.kids, k)
				} else if k.obs != run.obsTerms[i] {
					rec.Fail("deterministic", "same-prefix-different-result", map[string]any{"history": prefix[:i+1]}, "the same events gave two different results: "+k.obs+" / "+run.obsTerms[i])
				}
				n = k
			}
			return
		}
		for _, e := range alphabet {
			if len(prefix) == 0 && e.Kind != "edit" {
				continue // a pull before any edit does nothing: covered as the tail of a shorter sequence
			}
			enum(append(prefix, e))
		}
	}
	enum(nil)
	var render func(n *c10Node) (string, int)
	render = func(n *c10Node) (string, int) {
		var ks []string
		cnt := 1
		for _, k := range n.kids {
			t, c := render(k)
			ks = append(ks, t)
			cnt += c
		}
		return "(HT (" + n.ev + ") " + n.obs + " " + cqList(ks) + ")", cnt
	}
	for _, r := range roots.kids {
		t, cnt := render(r)
		rec.Case("exhaustive", "history_tree", "CHistoryTree "+t, map[string]any{"first_event": r.ev, "nodes": cnt, "depth": depth}, true)
	}
	rec.Extra("exhaustive_history_depth", depth)
	rec.Extra("exhaustive_histories", nExh)
	// random histories
	nHist := vBudget(500, 6000)
	for i := 0; i < nHist; i++ {
		n := 6 + rnd.Intn(20)
		var h []c10Ev
		var clockBase [4]uint64
		for len(h) < n {
			r := 1 + rnd.Intn(3)
			phys := uint64(0)
			if rnd.Chance(35) {
				clockBase[r] += uint64(rnd.Intn(3))
				phys = clockBase[r] << 16
			} else if rnd.Chance(10) {
				phys = uint64(rnd.Intn(4)) << 16 // a clock that went backwards or is far ahead
			}
			switch x := rnd.Intn(100); {
			case x < 35:
				h = append(h, c10Ev{Kind: "edit", R: r, Phys: phys})
			case x < 96:
				q := 1 + rnd.Intn(3)
				if q == r {
					q = 1 + (r % 3)
				}
				h = append(h, c10Ev{Kind: "pull", R: r, Q: q, Phys: phys})
			default:
				h = append(h, c10Ev{Kind: "restart", R: r})
			}
		}
		tally(c10RunHistory(rec, ctx, "random-valid", h, true))
	}
	// merge-heavy histories: two replicas resolve the same conflict independently, a third holds a stale copy,
	// then pulls / edits among the three (one side accepting the other's merge, the stale copy coming back)
	nMH := vBudget(400, 4000)
	for i := 0; i < nMH; i++ {
		perm := [][3]int{{1, 2, 3}, {1, 3, 2}, {2, 1, 3}, {2, 3, 1}, {3, 1, 2}, {3, 2, 1}}[rnd.Intn(6)]
		x, y, z := perm[0], perm[1], perm[2]
		var h []c10Ev
		if rnd.Bool() {
			// the merging replicas' own sources are among the merged versions
			h = []c10Ev{{Kind: "edit", R: x}, {Kind: "edit", R: y}, {Kind: "pull", R: z, Q: x}, {Kind: "pull", R: x, Q: y}, {Kind: "pull", R: y, Q: z}}
		} else {
			// x merges two foreign versions: its own source is not among the merge versions
			h = []c10Ev{{Kind: "edit", R: y}, {Kind: "edit", R: z}, {Kind: "pull", R: x, Q: y}, {Kind: "pull", R: x, Q: z}, {Kind: "pull", R: y, Q: z}}
			if rnd.Bool() {
				h = append(h, c10Ev{Kind: "pull", R: z, Q: x}) // z now holds a copy of x's merge revision
			}
		}
		for k := 3 + rnd.Intn(4); k > 0; k-- {
			r := 1 + rnd.Intn(3)
			if rnd.Chance(85) {
				q := 1 + rnd.Intn(3)
				if q == r {
					q = 1 + (r % 3)
				}
				h = append(h, c10Ev{Kind: "pull", R: r, Q: q})
			} else {
				h = append(h, c10Ev{Kind: "edit", R: r})
			}
		}
		tally(c10RunHistory(rec, ctx, "merge-heavy", h, true))
	}
	rec.Extra("history_merges", totMerges)
	rec.Extra("history_fast_forwards", totFF)
	rec.Extra("history_same_merge_accepts", totSame)

	// ================= (C) codecs =================
	c10Codecs(t, rec, rnd)

	// ================= (D) versions generated by the gateway itself (documentUpdateFunc / updateHLV) =================
	c10Gateway(t, rec, rnd)

	// ================= (E) deepening round: general update lemma, Compact, stored bytes, legacy ids =================
	c10Deep(t, rec, rnd, ctx, wfSmall)
	rec.Extra("exhaustive", true)
}

// ---------- codecs ----------
func c10Codecs(t *testing.T, rec *vRecorder, rnd *vRand) {
	// (C1) little-endian hex
	vals := []uint64{}
	for i := uint64(0); i <= 40; i++ {
		vals = append(vals, i)
	}
	for sh := uint(4); sh < 64; sh += 4 {
		vals = append(vals, uint64(1)<<sh-1, uint64(1)<<sh, uint64(1)<<sh+1, uint64(0xf)<<sh, uint64(0x10)<<(sh-4))
	}
	vals = append(vals, 1<<40, 1<<63, 1<<64-1, 1<<64-2, 0x0100000000000000, 0x1000000000000000, 0x00ff00ff00ff00ff, 0xff00ff00ff00ff00, 1757000000000000000)
	for i := 0; i < vBudget(40, 600); i++ {
		vals = append(vals, rnd.U64()>>uint(rnd.Intn(64)))
	}
	for _, v := range vals {
		s := base.Uint64ToLittleEndianHexAndStripZeros(v)
		rec.Case("exhaustive", "le_hex", "CLeHex "+cqN(v)+" "+cqStr(s), map[string]any{"v": v, "out": s}, v >= 16)
		back, err := base.HexCasToUint64ForDelta([]byte(s))
		if err != nil || back != v {
			rec.Fail("le_hex_roundtrip", "le-hex-roundtrip", map[string]any{"v": v, "encoded": s, "decoded": back}, fmt.Sprintf("delta hex round trip: %d -> %q -> %d (%v)", v, s, back, err))
		}
		cs := base.CasToString(v)
		rec.Case("exhaustive", "cas_string", "CCasString "+cqN(v)+" "+cqStr(cs), map[string]any{"v": v, "out": cs}, v >= 16)
		if base.HexCasToUint64(cs) != v {
			rec.Fail("le_hex_roundtrip", "cas-roundtrip", map[string]any{"v": v, "encoded": cs}, "CasToString / HexCasToUint64 round trip")
		}
	}
	hexAlphabet := []byte("0123456789abcdefABCDEF0000ffgx@ -")
	randHex := func(maxLen int, bad int) string {
		n := rnd.Intn(maxLen + 1)
		b := make([]byte, n)
		for i := range b {
			if rnd.Chance(bad) {
				b[i] = hexAlphabet[rnd.Intn(len(hexAlphabet))]
			} else {
				b[i] = hexAlphabet[rnd.Intn(22)]
			}
		}
		return string(b)
	}
	decodeCase := func(stream, in string) {
		v, err := base.HexCasToUint64ForDelta([]byte(in))
		r := "None"
		if err == nil {
			r = "(Some " + cqN(v) + ")"
			rec.Err("le_hex_decode:ok")
		} else {
			rec.Err("le_hex_decode:error")
		}
		rec.Case(stream, "le_hex_decode", "CLeHexDecode "+cqStr(in)+" "+r, map[string]any{"in": in, "ok": err == nil, "v": v}, err != nil || len(in)%2 == 1)
	}
	for _, in := range []string{"", "0", "1", "01", "10", "001", "0001", "ff", "FF", "fF", "g", "0g", "g0", "0x01", "ffffffffffffffff", "ffffffffffffffff0", "fffffffffffffffff", "00000000000000001", "0000000000000000", "000000000000000", " 1", "1 ", "-1"} {
		decodeCase("corpus", in)
	}
	for i := 0; i < vBudget(120, 1500); i++ {
		decodeCase("random-malformed", randHex(19, 8))
	}
	casCase := func(stream, in string) {
		v := base.HexCasToUint64(in)
		rec.Case(stream, "cas_parse", "CCasParse "+cqStr(in)+" "+cqN(v), map[string]any{"in": in, "v": v}, v == 0)
	}
	for _, in := range []string{"", "0x", "0x0000000000000000", "0x0100000000000000", "0100000000000000", "0x01", "0x010000000000000", "0x01000000000000000", "0X0100000000000000", "0x0x00000000000000", "0xgg00000000000000", "0xFFffFFffFFffFFff", "x00100000000000000"} {
		casCase("corpus", in)
	}
	for i := 0; i < vBudget(60, 800); i++ {
		in := randHex(18, 5)
		if rnd.Chance(60) {
			in = "0x" + randHex(16, 3)
			for len(in) < 18 && rnd.Chance(90) {
				in += "0"
			}
		}
		casCase("random-malformed", in)
	}

	// (C2) stored form: deltas.  All maps over three sources with values in {absent,1,2,3,2^40,2^64-1}
	names := []string{"c3JjMQ", "c3JjMg", "c3JjMw"}
	dvals := []uint64{0, 1, 2, 3, 1 << 40, 1<<64 - 1}
	var maps []map[string]uint64
	for _, a := range dvals {
		for _, b := range dvals {
			for _, c := range dvals {
				m := map[string]uint64{}
				for i, v := range []uint64{a, b, c} {
					if v != 0 {
						m[names[i]] = v
					}
				}
				maps = append(maps, m)
			}
		}
	}
	randMap := func() map[string]uint64 {
		m := map[string]uint64{}
		pool := []string{"c3JjMQ", "c3JjMg", "c3JjMw", "c3JjNA", "a", "src@with@at", "", "Revision+Tree+Encoding", "Unknown+Source", "x/y=="}
		for _, k := range pool {
			if rnd.Chance(35) {
				switch rnd.Intn(4) {
				case 0:
					m[k] = uint64(rnd.Intn(5))
				case 1:
					m[k] = rnd.U64()
				case 2:
					m[k] = uint64(1757000000000000000) + uint64(rnd.Intn(3))<<16
				default:
					m[k] = uint64(1) << uint(rnd.Intn(64))
				}
			}
		}
		return m
	}
	for i := 0; i < vBudget(80, 1000); i++ {
		maps = append(maps, randMap())
	}
	mapsEqual := func(a, b map[string]uint64) bool {
		if len(a) != len(b) {
			return false
		}
		for k, v := range a {
			if w, ok := b[k]; !ok || w != v {
				return false
			}
		}
		return true
	}
	var someDeltas [][]string
	for i, m := range maps {
		stream := "exhaustive"
		if i >= len(dvals)*len(dvals)*len(dvals) {
			stream = "random-valid"
		}
		out := VersionsToDeltas(m)
		rec.Case(stream, "versions_to_deltas", "CDeltas "+c10SMap(m, nil)+" "+c10StrList(out), map[string]any{"map": m, "deltas": out}, len(m) >= 2)
		back, err := PersistedDeltasToMap(out)
		if err != nil || !mapsEqual(back, m) {
			rec.Fail("deltas_roundtrip", "deltas-roundtrip", map[string]any{"map": m, "deltas": out, "back": back}, fmt.Sprintf("PersistedDeltasToMap(VersionsToDeltas(m)) != m (err=%v)", err))
		}
		if len(out) > 0 {
			someDeltas = append(someDeltas, out)
		}
	}
	fromCase := func(stream string, in []string) {
		m, err := PersistedDeltasToMap(in)
		r := "None"
		if err == nil {
			r = "(Some " + c10SMap(m, nil) + ")"
			rec.Err("from_deltas:ok")
		} else {
			rec.Err("from_deltas:error")
		}
		rec.Case(stream, "persisted_deltas_to_map", "CFromDeltas "+c10StrList(in)+" "+r, map[string]any{"in": in, "ok": err == nil, "map": m}, err != nil || len(in) >= 2)
	}
	fromCase("corpus", nil)
	fromCase("corpus", []string{"01@a", "01@a"})
	fromCase("corpus", []string{"ffffffffffffffff@a", "01@b", "01@c"})
	fromCase("corpus", []string{"01a", "01@b"})
	fromCase("corpus", []string{"@a", "1@b", "001@c", "@"})
	fromCase("corpus", []string{"0g@a"})
	fromCase("corpus", []string{"01@a@b", "02@"})
	for i := 0; i < vBudget(150, 2000); i++ {
		var in []string
		if len(someDeltas) > 0 && rnd.Chance(60) {
			in = append(in, someDeltas[rnd.Intn(len(someDeltas))]...)
			switch rnd.Intn(5) {
			case 0:
				rnd2 := rnd.Intn(len(in))
				in[rnd2] = strings.Replace(in[rnd2], "@", "", 1)
			case 1:
				in = append(in, in[rnd.Intn(len(in))])
			case 2:
				rnd2 := rnd.Intn(len(in))
				in[rnd2] = randHex(3, 10) + in[rnd2]
			case 3:
				rnd.Intn(1)
				for j := len(in) - 1; j > 0; j-- {
					k := rnd.Intn(j + 1)
					in[j], in[k] = in[k], in[j]
				}
			}
			fromCase("random-valid", in)
		} else {
			for j := rnd.Intn(4); j >= 0; j-- {
				in = append(in, randHex(17, 4)+"@"+names[rnd.Intn(3)])
			}
			fromCase("random-malformed", in)
		}
	}

	// (C3) stored form: MarshalJSON / UnmarshalJSON (fields of the JSON object)
	nJSON := vBudget(150, 2000)
	for i := 0; i < nJSON; i++ {
		h := &HybridLogicalVector{SourceID: []string{"c3JjMQ", "c3JjMg", "", "Unknown+Source"}[rnd.Intn(4)], Version: []uint64{0, 1, 2, 1 << 40, 1<<64 - 1, rnd.U64()}[rnd.Intn(6)]}
		h.CurrentVersionCAS = []uint64{0, 0, 5, 1<<64 - 1, rnd.U64()}[rnd.Intn(5)]
		if i < len(maps) {
			h.PreviousVersions = maps[(i*7)%len(maps)]
			h.MergeVersions = maps[(i*13+5)%len(maps)]
		} else {
			h.PreviousVersions, h.MergeVersions = randMap(), randMap()
		}
		data, err := h.MarshalJSON()
		if err != nil {
			rec.Fail("json_roundtrip", "marshal-error", map[string]any{"h": c10Desc(h)}, err.Error())
			continue
		}
		var bv c10BV
		if err := json.Unmarshal(data, &bv); err != nil {
			rec.Fail("json_roundtrip", "marshal-invalid-json", map[string]any{"json": string(data)}, err.Error())
			continue
		}
		rec.Case("random-valid", "marshal_json", "CMarshal "+c10S(h, nil, nil)+" "+bv.coq(), map[string]any{"h": c10Desc(h), "json": string(data)}, len(h.PreviousVersions)+len(h.MergeVersions) >= 2)
		var back HybridLogicalVector
		if err := back.UnmarshalJSON(data); err != nil || !back.Equal(h) || back.CurrentVersionCAS != h.CurrentVersionCAS {
			rec.Fail("json_roundtrip", "json-roundtrip", map[string]any{"h": c10Desc(h), "json": string(data), "back": c10Desc(&back)}, fmt.Sprintf("UnmarshalJSON(MarshalJSON(h)) != h (err=%v)", err))
		}
		// unmarshal: the produced object, and a damaged copy
		unm := func(stream string, bv c10BV) {
			data, _ := json.Marshal(bv)
			var u HybridLogicalVector
			err := u.UnmarshalJSON(data)
			r := "None"
			if err == nil {
				r = "(Some " + c10S(&u, nil, nil) + ")"
				rec.Err("unmarshal:ok")
			} else {
				rec.Err("unmarshal:error")
			}
			rec.Case(stream, "unmarshal_json", "CUnmarshal "+bv.coq()+" "+r, map[string]any{"json": string(data), "ok": err == nil}, err != nil || bv.PV != nil || bv.MV != nil)
		}
		unm("random-valid", bv)
		d := bv
		switch rnd.Intn(6) {
		case 0:
			d.Ver = randHex(18, 5)
		case 1:
			s := randHex(18, 5)
			d.CvCas = &s
		case 2:
			if d.PV != nil && len(*d.PV) > 0 {
				l := append([]string{}, *d.PV...)
				l[rnd.Intn(len(l))] = randHex(6, 20)
				d.PV = &l
			}
		case 3:
			if d.MV != nil && len(*d.MV) > 0 {
				l := append([]string{}, *d.MV...)
				l = append(l, l[0])
				d.MV = &l
			}
		case 4:
			e := []string{}
			d.PV = &e
		case 5:
			s := ""
			d.CvCas = &s
			d.Ver = ""
		}
		unm("random-malformed", d)
	}

	// (C4) wire form
	wireNames := []string{"c3JjMQ", "c3JjMg", "c3JjMw", "c3JjNA", "Revision+Tree+Encoding", "x/y=="}
	hexVals := func() uint64 {
		switch rnd.Intn(5) {
		case 0:
			return uint64(1 + rnd.Intn(4))
		case 1:
			return uint64(1) << uint(rnd.Intn(64))
		case 2:
			return 1<<64 - 1
		case 3:
			return uint64(1757000000000000000) + uint64(rnd.Intn(3))<<16
		}
		return rnd.U64() >> uint(rnd.Intn(64))
	}
	randWire := func() *HybridLogicalVector {
		perm := append([]string{}, wireNames...)
		for j := len(perm) - 1; j > 0; j-- {
			k := rnd.Intn(j + 1)
			perm[j], perm[k] = perm[k], perm[j]
		}
		h := &HybridLogicalVector{SourceID: perm[0], Version: hexVals()}
		nm, np := rnd.Intn(3), rnd.Intn(4)
		if rnd.Chance(50) {
			nm = 0
		}
		for j := 0; j < nm; j++ {
			if h.MergeVersions == nil {
				h.MergeVersions = HLVVersions{}
			}
			h.MergeVersions[perm[1+j]] = hexVals()
		}
		if nm > 0 && rnd.Chance(30) {
			h.MergeVersions[perm[0]] = h.Version / 2 // cv and mv may share a source (with different values)
			if h.MergeVersions[perm[0]] == h.Version {
				delete(h.MergeVersions, perm[0])
			}
		}
		for j := 0; j < np; j++ {
			if h.PreviousVersions == nil {
				h.PreviousVersions = HLVVersions{}
			}
			h.PreviousVersions[perm[3+j%3]] = hexVals()
		}
		return h
	}
	glue := func(rev, history string) string {
		// as the receiver does (GetHLVFromRevMessage)
		if history == "" {
			return rev
		}
		if strings.Contains(history, ";") {
			return rev + "," + history
		}
		return rev + ";" + history
	}
	parseCase := func(stream, in string) {
		h, legacy, err := extractHLVFromBlipString(in)
		r := "None"
		if err == nil {
			r = "(Some (" + c10S(h, nil, nil) + ", " + c10StrList(legacy) + "))"
			rec.Err("wire_parse:ok")
			// whatever the parser accepts is structurally valid
			for k := range h.PreviousVersions {
				if _, both := h.MergeVersions[k]; both {
					rec.Fail("wire_parse_wellformed", "wire-accepted-source-in-mv-and-pv", map[string]any{"in": in, "vector": c10Desc(h)}, "accepted wire string lists source "+k+" in mv and in pv")
				}
			}
			if v, ok := h.MergeVersions[h.SourceID]; ok && v == h.Version {
				rec.Fail("wire_parse_wellformed", "wire-accepted-cv-in-mv", map[string]any{"in": in, "vector": c10Desc(h)}, "accepted wire string repeats cv in mv")
			}
			// no source twice inside mv / inside pv: count the entries that parse as versions
			cnt := func(section string) int {
				n := 0
				for _, e := range strings.Split(section, ",") {
					if _, perr := ParseVersion(strings.TrimPrefix(e, " ")); perr == nil {
						n++
					}
				}
				return n
			}
			secs := strings.Split(in, ";")
			if cnt(secs[0]) != 1+len(h.MergeVersions) || (len(secs) > 1 && cnt(secs[1]) != len(h.PreviousVersions)) {
				rec.Fail("wire_parse_wellformed", "wire-accepted-duplicate-source", map[string]any{"in": in, "vector": c10Desc(h)}, "accepted wire string has more entries than the vector: a source listed twice was merged")
			}
		} else {
			rec.Err("wire_parse:error")
		}
		rec.Case(stream, "wire_parse", "CWireParse "+cqStr(in)+" "+r, map[string]any{"in": in, "ok": err == nil, "legacy": legacy}, err != nil || strings.ContainsAny(in, ",;"))
	}
	var validWire []string
	for i := 0; i < vBudget(150, 2000); i++ {
		h := randWire()
		var mvOrder, pvOrder []string
		for k := range h.MergeVersions {
			mvOrder = append(mvOrder, k)
		}
		for k := range h.PreviousVersions {
			pvOrder = append(pvOrder, k)
		}
		sort.Strings(mvOrder)
		sort.Strings(pvOrder)
		if rnd.Bool() {
			for a, b := 0, len(mvOrder)-1; a < b; a, b = a+1, b-1 {
				mvOrder[a], mvOrder[b] = mvOrder[b], mvOrder[a]
			}
		}
		if rnd.Bool() {
			for a, b := 0, len(pvOrder)-1; a < b; a, b = a+1, b-1 {
				pvOrder[a], pvOrder[b] = pvOrder[b], pvOrder[a]
			}
		}
		all := append(append([]string{}, mvOrder...), pvOrder...)
		rev := h.GetCurrentVersionString()
		hist := h.toHistoryForHLV(c10Order(all))
		rec.Case("random-valid", "wire_print", "CWirePrint "+c10S(h, mvOrder, pvOrder)+" "+cqStr(rev)+" "+cqStr(hist), map[string]any{"h": c10Desc(h), "rev": rev, "history": hist}, len(all) >= 2)
		// round trip on the real code, with Go's own iteration order
		wire := glue(rev, h.ToHistoryForHLV())
		back, legacy, err := extractHLVFromBlipString(wire)
		if err != nil || len(legacy) != 0 || !back.Equal(h) {
			rec.Fail("wire_roundtrip", "wire-roundtrip", map[string]any{"h": c10Desc(h), "wire": wire, "back": c10Desc(back)}, fmt.Sprintf("extractHLVFromBlipString(rev+history) != h (err=%v)", err))
		}
		validWire = append(validWire, wire, glue(rev, hist))
		parseCase("random-valid", wire)
	}
	for _, in := range []string{"", ";", ",", "@", "1@a", "1@", "@a", " 1@a", "  1@a", "1@a ", "1 @a", "1@a;", "1@a;;", "1@a;2@b;3@c", "1@a,2@b", "1@a,2@b;", "1@a,2@b,3@c;4@d", "1@a,1@a", "1@a,2@a", "1@a,2@b,3@b", "1@a;2@b,3@b", "1@a,2@b;3@b", "1@a;2@a", "1@a;1@a",
		"1@a,1-abc", "1@a;1-abc", "1@a;2@b,1-abc", "1@a;1-abc,2@b", "1@a;0-abc", "1@a;+1-abc", "1@a;-1-abc", "1@a;1_0-abc", "1@a;99999999999999999999-abc", "1@a;9223372036854775807-a", "1@a;9223372036854775808-a", "1-abc", "1-abc;1@a", "1@a, 2@b; 3@c, 4@d", "1@a,  2@b", "1@a; 1-abc",
		"ffffffffffffffff@a", "10000000000000000@a", "0000000000000000000001@a", "FF@a", "fF@a", "0x1@a", "g@a", "+1@a", "-1@a", "1_0@a", "1@a@b", "1@a;2@b@c", "1-2@a", "1@a;1-2@b", "1@a;3-x@b,2@c", "1@1-abc", "@;@", "1@a,@b", "0@", "1@a,0@", "1@a;0@", "1@;2@"} {
		parseCase("corpus", in)
	}
	wireAlphabet := []byte(",;@ -+1aF0g")
	for i := 0; i < vBudget(300, 4000); i++ {
		s := validWire[rnd.Intn(len(validWire))]
		b := []byte(s)
		for k := 1 + rnd.Intn(2); k > 0; k-- {
			switch rnd.Intn(5) {
			case 0:
				if len(b) > 0 {
					b[rnd.Intn(len(b))] = wireAlphabet[rnd.Intn(len(wireAlphabet))]
				}
			case 1:
				p := rnd.Intn(len(b) + 1)
				b = append(b[:p], append([]byte{wireAlphabet[rnd.Intn(len(wireAlphabet))]}, b[p:]...)...)
			case 2:
				if len(b) > 0 {
					p := rnd.Intn(len(b))
					b = append(b[:p], b[p+1:]...)
				}
			case 3:
				// duplicate one entry somewhere else
				parts := strings.FieldsFunc(string(b), func(r rune) bool { return r == ',' || r == ';' })
				if len(parts) > 0 {
					b = append(b, []byte(string(",;"[rnd.Intn(2)])+parts[rnd.Intn(len(parts))])...)
				}
			case 4:
				b = append(b, []byte([]string{",1-abc", ";2-def", ", 3-abc", ",x-1"}[rnd.Intn(4)])...)
			}
		}
		parseCase("random-malformed", string(b))
	}
}

// c10Gateway: real writes through a database collection with an adversarial wall clock (stuck, going
// backwards, restarted behind): the cv of every local write must be of our source and strictly above the
// previous value recorded for our source.  Ties the floor computed in documentUpdateFunc and updateHLV.
func c10Gateway(t *testing.T, rec *vRecorder, rnd *vRand) {
	db, ctx := setupTestDB(t)
	defer db.Close(ctx)
	collection, ctx := GetSingleDatabaseCollectionWithUser(ctx, t, db)
	base0 := sgbucket.HLCWallClock() - uint64(3600)*1_000_000_000 // an hour behind the bucket: never ahead of the CAS
	phys := base0
	db.hlc.SetClockForTest(func() uint64 { return phys })
	nDocs := vBudget(3, 12)
	for d := 0; d < nDocs; d++ {
		docID := fmt.Sprintf("c10doc%d", d)
		var sched []string
		rev, doc, err := collection.Put(ctx, docID, Body{"n": 0})
		if err != nil || doc.HLV == nil {
			rec.Fail("local_versions_increase", "gateway-write-failed", map[string]any{"doc": docID, "step": 0}, fmt.Sprintf("first write failed: %v", err))
			continue
		}
		last := doc.HLV.Version
		for i := 1; i <= 8; i++ {
			var what string
			switch rnd.Intn(5) {
			case 0:
				what = "same"
			case 1:
				what = "back"
				phys -= uint64(1+rnd.Intn(1000)) * 1_000_000
			case 2:
				what = "restart-behind" // a new clock (high-water mark lost) reading an earlier time
				phys = base0 - uint64(1+rnd.Intn(1000))*1_000_000_000
				db.hlc.SetClockForTest(func() uint64 { return phys })
			case 3:
				what = "forward"
				phys += uint64(1+rnd.Intn(1000)) * 1_000
			default:
				what = "restart-same"
				db.hlc.SetClockForTest(func() uint64 { return phys })
			}
			sched = append(sched, what)
			var err error
			rev, doc, err = collection.Put(ctx, docID, Body{"n": i, BodyRev: rev})
			rec.Count("gateway", "gateway_write", fmt.Sprintf("%d|%s", d, strings.Join(sched, ",")), what != "same" && what != "forward")
			if err != nil || doc == nil || doc.HLV == nil {
				rec.Fail("local_versions_increase", "gateway-write-failed", map[string]any{"doc": docID, "clock_schedule": sched, "previous_version": last}, fmt.Sprintf("local write failed: %v", err))
				break
			}
			if doc.HLV.SourceID != db.EncodedSourceID || doc.HLV.Version <= last {
				rec.Fail("local_versions_increase", "gateway-version-not-increasing", map[string]any{"doc": docID, "clock_schedule": sched, "previous_version": last, "new_version": doc.HLV.Version, "source": doc.HLV.SourceID},
					fmt.Sprintf("cv after a local write is %d@%s, previous value for our source %d", doc.HLV.Version, doc.HLV.SourceID, last))
				break
			}
			if _, inPV := doc.HLV.PreviousVersions[doc.HLV.SourceID]; inPV {
				rec.Fail("no_source_twice", "gateway-cv-source-in-pv", map[string]any{"doc": docID, "vector": c10Desc(doc.HLV)}, "cv source also listed in pv after a local write")
			}
			last = doc.HLV.Version
		}
	}
}
