//go:build verif

package db

import (
	"context"
	"encoding/json"
	"fmt"
	"os"
	"sort"
	"strings"
	"testing"

	sgbucket "github.com/couchbase/sg-bucket"
	"github.com/couchbase/sync_gateway/base"
	"github.com/couchbase/sync_gateway/channels"
)

// C09 correspondence + monitors: import / own-write detection on a real collection (rosmar, xattrs, AutoImport off).
//
// One document per case.  Ops (see coq/theories/C09/Import.v for the model of each):
//   set b    external SDK upsert of body {"v":b}            (raw datastore SetRaw)
//   del      external SDK delete                             (raw datastore Delete)
//   touch    external update of an unrelated xattr           (raw datastore SetXattrs, alive documents only)
//   put b    gateway Put of {"v":b} on top of the revision recorded in _sync (read raw, no import)
//   gdel     gateway tombstone (Put with _deleted)
//   meta     gateway metadata-only rewrite (ResyncDocument with regenerateSequences)
//   read     gateway GetDocument (on-demand import)
//   legacy b  a document as an older gateway version wrote it: body {"v":b}, valid _sync / _vv, and attachment metadata
//            still inside _sync (raw datastore WriteWithXattrs with the gateway's macro expansions; only when absent).
//            The import listener migrates that metadata (MigrateAttachmentMetadata) when it is handed such an event.
//   foreign b h  a document as another cluster's gateway wrote it and XDCR delivered it: body {"v":b}, valid _sync, and a
//            version vector of shape h (c09Shapes: current version of a foreign source, merge / previous versions of other
//            sources and possibly of this gateway's own source); raw WriteWithXattrs, only when absent
//   feed k   delivery of the feed event for the document version that existed after op k (0 = before op 1)
//            through importListener.ImportFeedEvent (ImportFromFeed)
//   race g n x   gateway op g, with op x executed when the n-th WriteUpdateWithXattrs callback of g completes
//            (between g's read/decision and its CAS write), via LeakyDataStore.SetUpdateCallback or -- second
//            environment, stream faultstore-race -- via the onAttempt hook of the vFaultStore decorator

type c09Op struct {
	K string `json:"k"`
	B int    `json:"b,omitempty"`
	I int    `json:"i,omitempty"`
	N int    `json:"n,omitempty"`
	H int    `json:"h,omitempty"`
	G *c09Op `json:"g,omitempty"`
	X *c09Op `json:"x,omitempty"`
}

func (o c09Op) coq() string {
	switch o.K {
	case "set":
		return "(SdkSet " + cqI(o.B) + ")"
	case "del":
		return "SdkDelete"
	case "touch":
		return "SdkTouch"
	case "put":
		return "(GwWrite " + cqI(o.B) + ")"
	case "legacy":
		return "(LegacyWrite " + cqI(o.B) + ")"
	case "foreign":
		return "(ForeignWrite " + cqI(o.B) + " " + c09Shapes[o.H%len(c09Shapes)].coq() + ")"
	case "gdel":
		return "GwDelete"
	case "meta":
		return "GwMetaOnly"
	case "read":
		return "Read"
	case "feed":
		return "(Feed " + cqI(o.I) + ")"
	case "race":
		return "(Race " + o.G.coq() + " " + cqI(o.N) + " " + o.X.coq() + ")"
	}
	return "BAD"
}
func (o c09Op) String() string {
	switch o.K {
	case "set", "put", "legacy":
		return fmt.Sprintf("%s%d", o.K, o.B)
	case "feed":
		return fmt.Sprintf("feed%d", o.I)
	case "foreign":
		return fmt.Sprintf("foreign%d.%d", o.B, o.H)
	case "race":
		return fmt.Sprintf("race(%s,%d,%s)", o.G.String(), o.N, o.X.String())
	}
	return o.K
}

// version vectors of the hand-written foreign documents, in MODEL numbers: source id 0 = this gateway, other ids =
// other clusters ("verifsrc<id>"); version numbers: 0 = an old version of this gateway's source, >= 1000 = versions
// of other sources.  Real version value = (model number + 1) << 16 (far below any CAS).
type c09HLV struct {
	Src, Ver int
	MV, PV   [][2]int
}

var c09Shapes = []c09HLV{
	{Src: 7, Ver: 1001},
	{Src: 7, Ver: 1001, PV: [][2]int{{8, 1002}}},
	{Src: 7, Ver: 1001, PV: [][2]int{{0, 0}, {8, 1002}}},
	{Src: 7, Ver: 1001, MV: [][2]int{{8, 1002}, {9, 1003}}, PV: [][2]int{{10, 1004}}},
	{Src: 7, Ver: 1001, MV: [][2]int{{0, 0}, {8, 1002}}, PV: [][2]int{{9, 1003}}},
	{Src: 7, Ver: 1001, MV: [][2]int{{8, 1005}}, PV: [][2]int{{8, 1002}, {9, 1003}}},
	{Src: 7, Ver: 1001, MV: [][2]int{{7, 1000}, {8, 1002}}, PV: [][2]int{{0, 0}}},
}

func c09Alist(l [][2]int) string {
	var xs []string
	for _, p := range l {
		xs = append(xs, fmt.Sprintf("(%d, %d)", p[0], p[1]))
	}
	return cqList(xs)
}
func (h c09HLV) coq() string {
	return fmt.Sprintf("(mkVV %d %d 0 %s %s)", h.Src, h.Ver, c09Alist(h.MV), c09Alist(h.PV))
}
func c09RealVer(m int) uint64 { return uint64(m+1) << 16 }
func c09ModelVer(v uint64) int {
	if v&0xffff == 0 && v>>16 >= 1 && v>>16 < 1<<20 {
		return int(v>>16) - 1
	}
	return 9999
}
func (e *c09Env) realSrc(m int) string {
	if m == 0 {
		return e.db.EncodedSourceID
	}
	return fmt.Sprintf("verifsrc%d", m)
}
func (e *c09Env) modelSrc(src string) int {
	if src == e.db.EncodedSourceID {
		return 0
	}
	var n int
	if _, err := fmt.Sscanf(src, "verifsrc%d", &n); err == nil {
		return n
	}
	return 98
}
func (e *c09Env) modelVersions(m HLVVersions) [][2]int {
	var out [][2]int
	for src, v := range m {
		out = append(out, [2]int{e.modelSrc(src), c09ModelVer(v)})
	}
	sort.Slice(out, func(i, j int) bool { return out[i][0] < out[j][0] })
	return out
}

type c09Rev struct {
	Gen, Parent int
	Deleted     bool
	Body        int // body id, 0 for a tombstone revision, 255 unknown
}

// projected observation of the bucket document after an op (raw read, never triggers an import)
type c09Obs struct {
	St      int // 0 absent, 1 alive, 2 tombstone
	Body    int // body id when alive (255 = not one of ours)
	HasSync bool
	Cur     int // generation of the current revision
	Hist    []c09Rev
	FCas    bool // cas == _sync.cas
	FCrc    bool // crc32c(body) == _sync.value_crc32c
	HasVV   bool
	FCv     bool // _vv cv == _sync.rev cv
	FCvCas  bool // _vv.cvCas == cas
	HasMou  bool
	FMou    bool // _mou.cas == cas
	FPcas   bool // _mou.pCas == _vv.cvCas
	VFull   int  // SyncData.IsSGWrite with the raw body: 0 no, 1 yes (2 = no sync data)
	VDoc    int  // Document.IsSGWrite without raw body
	VXattr  int  // IsSGWriteXattrOnly: 0 no, 1 yes, 2 ambiguous, 3 no sync data
	Res     int  // op result: 0 ok, 1 conflict, 2 not found, 3 cancelled/ignored, 9 other
	SeqUp   bool // _sync.sequence differs from the previous observation of a sequence
	Imports int  // ImportCount delta during the op
	Fired   bool // race ops: the interposed op was executed (the gateway op reached its n-th update callback)
	Att     bool // _sync still carries (pre-4.0) attachment metadata
	CvSrc   int        // _vv.src: 0 this gateway, n = verifsrc<n>, 99 no _vv
	CvK     int        // _vv.ver as a hand-made constant when the source is foreign, else 0
	MV, PV  [][2]int   // merge / previous versions (source id, version constant), sorted by source
	FSrc    bool       // _vv.src == _sync.rev.src
	Cancel  int        // ImportCancelCAS delta during the op
	Errs    int        // ImportErrorCount delta during the op
	ver, cvcas, pcas uint64 // raw _vv.ver, _vv.cvCas, _mou.pCas
	sgAll    bool      // SyncData.IsSGWrite / IsSGWriteXattrOnly / Document.IsSGWrite say "gateway write" for EVERY body and delete flag
	evCas    uint64    // feed ops: cas of the delivered event
	attempts []string  // fault-store races: what each attempt's update callback returned
	seq     uint64
	cas     uint64
	revs    map[int]string
}

func (o c09Obs) coq() string {
	var hs []string
	for _, r := range o.Hist {
		hs = append(hs, fmt.Sprintf("(R %d %d %s %d)", c09Nat(r.Gen), c09Nat(r.Parent), cqBool(r.Deleted), r.Body))
	}
	return fmt.Sprintf("(O %d %d %s %d %s %s %s %s %s %s %s %s %s %d %d %d %d %s %d %s %s %d %d %s %s %s %d %d)", o.St, o.Body, cqBool(o.HasSync), c09Nat(o.Cur), cqList(hs),
		cqBool(o.FCas), cqBool(o.FCrc), cqBool(o.HasVV), cqBool(o.FCv), cqBool(o.FCvCas), cqBool(o.HasMou), cqBool(o.FMou), cqBool(o.FPcas),
		o.VFull, o.VDoc, o.VXattr, o.Res, cqBool(o.SeqUp), o.Imports, cqBool(o.Fired), cqBool(o.Att),
		o.CvSrc, o.CvK, c09Alist(o.MV), c09Alist(o.PV), cqBool(o.FSrc), o.Cancel, o.Errs)
}

// unparsable revision ids give negative generations: keep the Coq term well-formed (and mismatching)
func c09Nat(v int) int {
	if v < 0 {
		return 99999
	}
	return v
}

type c09Snap struct {
	exists bool
	body   []byte
	xattrs map[string][]byte
	cas    uint64
	revNo  uint64
	tomb   bool
}

type c09Env struct {
	t        *testing.T
	ctx      context.Context
	db       *Database
	coll     *DatabaseCollectionWithUser
	lds      *base.LeakyDataStore
	fs       *vFaultStore // second environment: races are placed with the decorator's onAttempt hook
	raw      base.DataStore
	il       *importListener
	rec      *vRecorder
	nextKey  int
	debug    bool
	restamps int64
	reruns   int
	attempts []string // fault-store environment: what each attempt's update callback returned during the last race
}

const c09NBodies = 4

// body id 0 is the empty object (what the code substitutes for a missing body); 1..c09NBodies are {"v":n}
func c09Body(b int) []byte {
	if b == 0 {
		return []byte(`{}`)
	}
	return []byte(fmt.Sprintf(`{"v":%d}`, b))
}

var c09AllXattrs = []string{base.SyncXattrName, base.VvXattrName, base.MouXattrName, base.GlobalXattrName, base.VirtualXattrRevSeqNo}

func (e *c09Env) snap(key string) c09Snap {
	body, xattrs, cas, err := e.raw.GetWithXattrs(e.ctx, key, c09AllXattrs)
	if err != nil {
		return c09Snap{}
	}
	s := c09Snap{exists: true, body: body, xattrs: map[string][]byte{}, cas: cas, tomb: body == nil}
	for k, v := range xattrs {
		if k == base.VirtualXattrRevSeqNo {
			s.revNo, _ = unmarshalRevSeqNo(v)
			continue
		}
		if len(v) > 0 {
			s.xattrs[k] = v
		}
	}
	return s
}

func c09BodyID(raw []byte) int {
	for b := 0; b <= c09NBodies; b++ {
		if string(raw) == string(c09Body(b)) {
			return b
		}
	}
	return 255
}

// which body was revision revid created for?  (the rev id is a digest of generation, parent and body)
func c09RevTag(gen int, parent, revid string, deleted bool) int {
	for b := 0; b <= c09NBodies; b++ {
		if CreateRevIDWithBytes(gen, parent, c09Body(b)) == revid {
			return b
		}
	}
	if r, err := CreateRevID(gen, parent, Body{BodyDeleted: true}); err == nil && r == revid {
		return 0
	}
	return 255
}

func (e *c09Env) observe(key string, prev *c09Obs) c09Obs {
	s := e.snap(key)
	o := c09Obs{VFull: 2, VDoc: 2, VXattr: 3, CvSrc: 99, revs: map[int]string{}}
	if prev != nil {
		o.seq = prev.seq
	}
	if !s.exists {
		return o
	}
	o.cas = s.cas
	o.St = 1
	if s.tomb {
		o.St = 2
	} else {
		o.Body = c09BodyID(s.body)
	}
	doc, err := e.coll.unmarshalDocumentWithXattrs(e.ctx, key, s.body, s.xattrs, s.cas, DocUnmarshalAll)
	if err != nil {
		o.Res = 9
		return o
	}
	if sx := s.xattrs[base.SyncXattrName]; len(sx) > 0 {
		o.HasSync = true
		cur := doc.GetRevTreeID()
		o.Cur, _ = ParseRevID(e.ctx, cur)
		for id, ri := range doc.History {
			g, _ := ParseRevID(e.ctx, id)
			pg, _ := ParseRevID(e.ctx, ri.Parent)
			tag := c09RevTag(g, ri.Parent, id, ri.Deleted)
			o.Hist = append(o.Hist, c09Rev{Gen: g, Parent: pg, Deleted: ri.Deleted, Body: tag})
			if _, dup := o.revs[g]; dup {
				o.revs[-g] = id // branch marker
			}
			o.revs[g] = id
		}
		sort.Slice(o.Hist, func(i, j int) bool { return o.Hist[i].Gen > o.Hist[j].Gen })
		o.FCas = doc.SyncData.GetSyncCas() == s.cas
		crc := base.Crc32cHashString(s.body)
		if s.tomb {
			crc = base.DeleteCrc32c
		}
		o.FCrc = crc == doc.SyncData.Crc32c
		if doc.Sequence != o.seq {
			o.SeqUp = true
		}
		o.seq = doc.Sequence
		// the three detection variants, evaluated by the real functions on the raw snapshot
		var cv cvExtractor
		var rh *rawHLV
		if vv := s.xattrs[base.VvXattrName]; len(vv) > 0 {
			rh = base.Ptr(rawHLV(vv))
		}
		cv = rh
		var sd SyncData
		if err := base.JSONUnmarshal(sx, &sd); err == nil {
			o.Att = sd.AttachmentsPre4dot0 != nil
			isSG, _, _ := sd.IsSGWrite(e.ctx, s.cas, s.body, nil, cv)
			o.VFull = c09b2i(isSG)
			x, amb := sd.IsSGWriteXattrOnly(e.ctx, s.cas, s.tomb, nil, cv)
			o.VXattr = c09b2i(x)
			if amb {
				o.VXattr = 2
			}
			if o.FCas {
				// stamped by a gateway write: ask every variant about EVERY body (and no body), delete flag, with / without _vv
				o.sgAll = true
				d3, d3err := e.coll.unmarshalDocumentWithXattrs(e.ctx, key, s.body, s.xattrs, s.cas, DocUnmarshalAll)
				for b := 0; b <= c09NBodies+1; b++ {
					body := c09Body(b)
					if b == c09NBodies+1 {
						body = nil
					}
					sg, _, _ := sd.IsSGWrite(e.ctx, s.cas, body, nil, cv)
					sgNoCV, _, _ := sd.IsSGWrite(e.ctx, s.cas, body, nil, (*rawHLV)(nil))
					dsg := false
					if d3err == nil {
						dsg, _, _ = d3.IsSGWrite(e.ctx, body)
					}
					o.sgAll = o.sgAll && sg && sgNoCV && dsg
				}
				for _, del := range []bool{false, true} {
					x, amb := sd.IsSGWriteXattrOnly(e.ctx, s.cas, del, nil, cv)
					o.sgAll = o.sgAll && x && !amb
				}
			}
		}
		d2, err := e.coll.unmarshalDocumentWithXattrs(e.ctx, key, s.body, s.xattrs, s.cas, DocUnmarshalAll)
		if err == nil {
			isSG, _, _ := d2.IsSGWrite(e.ctx, nil)
			o.VDoc = c09b2i(isSG)
		}
	}
	if doc.HLV != nil && len(s.xattrs[base.VvXattrName]) > 0 {
		o.HasVV = true
		o.FCvCas = doc.HLV.CurrentVersionCAS == s.cas
		if o.HasSync {
			o.FCv = doc.SyncData.CVEqual(*doc.HLV.ExtractCurrentVersionFromHLV())
			o.FSrc = doc.HLV.SourceID == doc.SyncData.RevAndVersion.CurrentSource
		}
		o.CvSrc = e.modelSrc(doc.HLV.SourceID)
		if o.CvSrc != 0 {
			o.CvK = c09ModelVer(doc.HLV.Version)
		}
		o.ver, o.cvcas = doc.HLV.Version, doc.HLV.CurrentVersionCAS
		o.MV = e.modelVersions(doc.HLV.MergeVersions)
		o.PV = e.modelVersions(doc.HLV.PreviousVersions)
	}
	if doc.MetadataOnlyUpdate != nil {
		o.HasMou = true
		o.FMou = doc.MetadataOnlyUpdate.CAS() == s.cas
		o.pcas = doc.MetadataOnlyUpdate.PreviousCAS()
		if doc.HLV != nil {
			o.FPcas = doc.MetadataOnlyUpdate.PreviousCAS() == doc.HLV.CurrentVersionCAS
		}
	}
	return o
}

func c09b2i(b bool) int {
	if b {
		return 1
	}
	return 0
}

func c09ErrCode(err error) int {
	if err == nil {
		return 0
	}
	st, _ := base.ErrorAsHTTPStatus(err)
	switch {
	case st == 409:
		return 1
	case st == 404:
		return 2
	case err == base.ErrImportCasFailure || err == base.ErrImportCancelled || err == base.ErrAlreadyImported || err == base.ErrUpdateCancel:
		return 3
	}
	return 9
}

func c09ErrName(err error) string {
	switch {
	case err == nil:
		return "write"
	case err == base.ErrImportCasFailure:
		return "casfail"
	case err == base.ErrAlreadyImported:
		return "already"
	case err == base.ErrImportCancelled:
		return "cancelled"
	case err == base.ErrUpdateCancel:
		return "updatecancel"
	case err == base.ErrCasFailureShouldRetry:
		return "retry"
	}
	if st, _ := base.ErrorAsHTTPStatus(err); st == 409 {
		return "conflict"
	}
	return "error"
}

// build the feed event the import listener would receive for a document version
func c09Event(key string, s c09Snap, collID uint32) sgbucket.FeedEvent {
	ev := sgbucket.FeedEvent{Opcode: sgbucket.FeedOpMutation, Key: []byte(key), Cas: s.cas, RevNo: s.revNo, CollectionID: collID,
		DataType: sgbucket.FeedDataTypeJSON}
	if s.tomb {
		ev.Opcode = sgbucket.FeedOpDeletion
		ev.DataType = sgbucket.FeedDataTypeRaw
	}
	if len(s.xattrs) > 0 {
		var xs []sgbucket.Xattr
		var names []string
		for k := range s.xattrs {
			names = append(names, k)
		}
		sort.Strings(names)
		for _, k := range names {
			xs = append(xs, sgbucket.Xattr{Name: k, Value: s.xattrs[k]})
		}
		ev.Value = sgbucket.EncodeValueWithXattrs(s.body, xs...)
		ev.DataType |= sgbucket.FeedDataTypeXattr
	} else {
		ev.Value = s.body
	}
	return ev
}

// execute a simple (hook-free) op; returns result code
func (e *c09Env) exec(key string, op c09Op, events []c09Snap) int {
	switch op.K {
	case "set":
		// SDK upsert.  On a tombstone (or a missing document) this is an insert: rosmar's SetRaw leaves its internal
		// tombstone flag set when it revives a tombstone (WriteCas with cas 0 clears it, as Couchbase Server does).
		if s := e.snap(key); !s.exists || s.tomb {
			if _, err := e.raw.WriteCas(e.ctx, key, 0, 0, c09Body(op.B), sgbucket.Raw); err != nil {
				return 9
			}
			return 0
		}
		if err := e.raw.SetRaw(e.ctx, key, 0, nil, c09Body(op.B)); err != nil {
			return 9
		}
		return 0
	case "del":
		if err := e.raw.Delete(e.ctx, key); err != nil {
			return 2
		}
		return 0
	case "legacy":
		if s := e.snap(key); s.exists {
			return 3
		}
		body := c09Body(op.B)
		rev := CreateRevIDWithBytes(1, "", body)
		seq, err := e.db.sequences.nextSequence(e.ctx)
		if err != nil {
			return 9
		}
		ver := base.CasToString(uint64(1700000000000000000) + seq<<16)
		sd := SyncData{
			RevAndVersion:       channels.RevAndVersion{RevTreeID: rev, CurrentSource: e.db.EncodedSourceID, CurrentVersion: ver},
			Sequence:            seq,
			RecentSequences:     []uint64{seq},
			History:             RevTree{rev: &RevInfo{ID: rev}},
			AttachmentsPre4dot0: AttachmentsMeta{"a.txt": map[string]any{"digest": "sha1-Kq5sNclPz7QV2+lfQIuc6R7oRu0=", "length": 3, "revpos": 1, "stub": true}},
			Cas:                 expandMacroCASValueString,
			Crc32c:              "0x00000000",
		}
		rawSync, err := base.JSONMarshal(sd)
		if err != nil {
			return 9
		}
		rawVV := []byte(fmt.Sprintf(`{"cvCas":"0x0","src":%q,"ver":%q}`, e.db.EncodedSourceID, ver))
		opts := &sgbucket.MutateInOptions{MacroExpansion: append(macroExpandSpec(base.SyncXattrName),
			sgbucket.NewMacroExpansionSpec(xattrCurrentVersionCASPath(base.VvXattrName), sgbucket.MacroCas))}
		if _, err := e.raw.WriteWithXattrs(e.ctx, key, 0, 0, body, map[string][]byte{base.SyncXattrName: rawSync, base.VvXattrName: rawVV}, nil, opts); err != nil {
			if e.debug {
				fmt.Printf("    legacy write error: %v\n", err)
			}
			return 9
		}
		return 0
	case "foreign":
		if s := e.snap(key); s.exists {
			return 3
		}
		sh := c09Shapes[op.H%len(c09Shapes)]
		body := c09Body(op.B)
		rev := CreateRevIDWithBytes(1, "", body)
		seq, err := e.db.sequences.nextSequence(e.ctx)
		if err != nil {
			return 9
		}
		ver := base.CasToString(c09RealVer(sh.Ver))
		sd := SyncData{
			RevAndVersion:   channels.RevAndVersion{RevTreeID: rev, CurrentSource: e.realSrc(sh.Src), CurrentVersion: ver},
			Sequence:        seq,
			RecentSequences: []uint64{seq},
			History:         RevTree{rev: &RevInfo{ID: rev}},
			Cas:             expandMacroCASValueString,
			Crc32c:          "0x00000000",
		}
		rawSync, err := base.JSONMarshal(sd)
		if err != nil {
			return 9
		}
		hlv := HybridLogicalVector{SourceID: e.realSrc(sh.Src), Version: c09RealVer(sh.Ver)}
		for _, p := range sh.MV {
			hlv.SetMergeVersion(e.realSrc(p[0]), c09RealVer(p[1]))
		}
		for _, p := range sh.PV {
			hlv.SetPreviousVersion(e.realSrc(p[0]), c09RealVer(p[1]))
		}
		rawVV, err := base.JSONMarshal(hlv)
		if err != nil || len(rawVV) < 2 {
			return 9
		}
		rawVV = append([]byte(`{"cvCas":"0x0",`), rawVV[1:]...)
		opts := &sgbucket.MutateInOptions{MacroExpansion: append(macroExpandSpec(base.SyncXattrName),
			sgbucket.NewMacroExpansionSpec(xattrCurrentVersionCASPath(base.VvXattrName), sgbucket.MacroCas))}
		if _, err := e.raw.WriteWithXattrs(e.ctx, key, 0, 0, body, map[string][]byte{base.SyncXattrName: rawSync, base.VvXattrName: rawVV}, nil, opts); err != nil {
			if e.debug {
				fmt.Printf("    foreign write error: %v\n", err)
			}
			return 9
		}
		return 0
	case "touch":
		s := e.snap(key)
		if !s.exists || s.tomb {
			return 3
		}
		e.nextKey++
		if _, err := e.raw.SetXattrs(e.ctx, key, map[string][]byte{"verifx": []byte(fmt.Sprintf(`{"n":%d}`, e.nextKey))}); err != nil {
			return 9
		}
		return 0
	case "put", "gdel":
		body := Body{"v": op.B}
		if op.K == "gdel" {
			body = Body{BodyDeleted: true}
		}
		// the client's parent revision: what _sync records as current (raw read, no import); none if deleted/absent
		s := e.snap(key)
		if s.exists {
			if doc, err := e.coll.unmarshalDocumentWithXattrs(e.ctx, key, s.body, s.xattrs, s.cas, DocUnmarshalAll); err == nil && doc.HasValidSyncData() {
				cur := doc.GetRevTreeID()
				if ri := doc.History[cur]; ri != nil && !ri.Deleted {
					body[BodyRev] = cur
				}
			}
		}
		_, _, err := e.coll.Put(e.ctx, key, body)
		if e.debug && err != nil {
			fmt.Printf("    put error: %v\n", err)
		}
		return c09ErrCode(err)
	case "meta":
		err := e.coll.ResyncDocument(e.ctx, key, nil, true)
		if e.debug && err != nil {
			fmt.Printf("    resync error: %v\n", err)
		}
		return c09ErrCode(err)
	case "read":
		_, err := e.coll.GetDocument(e.ctx, key, DocUnmarshalAll)
		if e.debug && err != nil {
			fmt.Printf("    read error: %v\n", err)
		}
		return c09ErrCode(err)
	case "feed":
		if op.I < 0 || op.I >= len(events) || !events[op.I].exists {
			return 3
		}
		ev := c09Event(key, events[op.I], e.coll.GetCollectionID())
		// the checks importListener.ProcessFeedEvent makes before ImportFeedEvent
		if ev.Opcode == sgbucket.FeedOpDeletion && len(ev.Value) == 0 {
			return 3
		}
		e.il.ImportFeedEvent(e.ctx, e.coll, ev)
		return 0
	}
	return 9
}

func (e *c09Env) step(key string, op c09Op, events []c09Snap) (int, bool) {
	if op.K != "race" {
		return e.exec(key, op, events), false
	}
	count := 0
	fired := false
	inHook := false
	if e.fs != nil {
		// the decorator calls the hook after the update callback of every attempt (also of the nested on-demand import
		// of a gateway write) with what that callback returned, before the compare-and-swap write; it is not re-entered
		// by the writes of the interposed op
		e.attempts = nil
		e.fs.mu.Lock()
		e.fs.onAttempt = func(k string, attempt int, cbErr error) error {
			if k != key {
				return nil
			}
			e.attempts = append(e.attempts, c09ErrName(cbErr))
			if fired {
				return nil
			}
			count++
			if count == op.N {
				fired = true
				e.exec(key, *op.X, events)
			}
			return nil
		}
		e.fs.mu.Unlock()
		res := e.exec(key, *op.G, events)
		e.fs.mu.Lock()
		e.fs.onAttempt = nil
		e.fs.mu.Unlock()
		return res, fired
	}
	e.lds.SetUpdateCallback(func(k string) {
		if k != key || inHook || fired {
			return
		}
		count++
		if count == op.N {
			fired = true
			inHook = true
			e.exec(key, *op.X, events)
			inHook = false
		}
	})
	res := e.exec(key, *op.G, events)
	e.lds.SetUpdateCallback(nil)
	return res, fired
}

// run a case; returns per-op observations
func (e *c09Env) run(ops []c09Op) (string, []c09Obs, []bool) {
	e.nextKey++
	key := fmt.Sprintf("c09doc%d", e.nextKey)
	events := []c09Snap{e.snap(key)}
	var obs []c09Obs
	var restamped []bool
	var prev *c09Obs
	for _, op := range ops {
		imp0 := e.db.DbStats.SharedBucketImport().ImportCount.Value()
		can0 := e.db.DbStats.SharedBucketImport().ImportCancelCAS.Value()
		err0 := e.db.DbStats.SharedBucketImport().ImportErrorCount.Value()
		rs0 := e.db.DbStats.Database().HLVVersionCASRetryCount.Value()
		res, fired := e.step(key, op, events)
		o := e.observe(key, prev)
		o.Fired = fired
		if o.Res == 0 {
			o.Res = res
		}
		o.Imports = int(e.db.DbStats.SharedBucketImport().ImportCount.Value() - imp0)
		if op.K == "feed" && op.I >= 0 && op.I < len(events) {
			o.evCas = events[op.I].cas
		}
		if op.K == "race" && e.fs != nil {
			o.attempts = append([]string(nil), e.attempts...)
		}
		o.Cancel = int(e.db.DbStats.SharedBucketImport().ImportCancelCAS.Value() - can0)
		o.Errs = int(e.db.DbStats.SharedBucketImport().ImportErrorCount.Value() - err0)
		rs := e.db.DbStats.Database().HLVVersionCASRetryCount.Value() - rs0
		restamped = append(restamped, rs > 0)
		e.restamps += rs
		obs = append(obs, o)
		events = append(events, e.snap(key))
		prev = &obs[len(obs)-1]
		if e.debug {
			fmt.Printf("  %-28s -> %s\n", op.String(), o.coq())
		}
	}
	return key, obs, restamped
}

func TestVerifC09(t *testing.T) {
	rec := vNewRecorder(t, "C09", "C09.C09_Corr")
	defer rec.Finish()
	if os.Getenv("C09_LOG") != "" {
		base.SetUpTestLogging(t, base.LevelDebug, base.KeyImport, base.KeyCRUD, base.KeyVV)
	} else {
		base.SetUpTestLogging(t, base.LevelError, base.KeyNone)
	}

	lb := base.NewLeakyBucket(base.GetTestBucket(t), base.LeakyBucketConfig{})
	db, ctx := SetupTestDBForBucketWithOptions(t, lb, DatabaseContextOptions{})
	defer db.Close(ctx)
	coll, ctx := GetSingleDatabaseCollectionWithUser(ctx, t, db)
	lds, ok := base.AsLeakyDataStore(coll.dataStore)
	if !ok {
		t.Fatalf("collection datastore is not leaky: %T", coll.dataStore)
	}
	admin := &DatabaseCollectionWithUser{DatabaseCollection: coll.DatabaseCollection, user: nil}
	il := NewImportListener(ctx, "verifc09", db.DatabaseContext)
	il.collections[coll.GetCollectionID()] = *admin
	e := &c09Env{t: t, ctx: ctx, db: db, coll: coll, lds: lds, raw: lds.GetUnderlyingDataStore(), il: il, rec: rec, debug: os.Getenv("C09_DEBUG") != ""}

	// second environment: a plain (non-leaky) bucket whose collection datastore is decorated by vFaultStore; races are
	// placed with its onAttempt hook, which also tells what every attempt's update callback returned
	db2, ctx2 := SetupTestDBWithOptions(t, DatabaseContextOptions{})
	defer db2.Close(ctx2)
	coll2, ctx2 := GetSingleDatabaseCollectionWithUser(ctx2, t, db2)
	raw2 := coll2.dataStore
	fs := &vFaultStore{DataStore: raw2}
	coll2.dataStore = fs
	admin2 := &DatabaseCollectionWithUser{DatabaseCollection: coll2.DatabaseCollection, user: nil}
	il2 := NewImportListener(ctx2, "verifc09fs", db2.DatabaseContext)
	il2.collections[coll2.GetCollectionID()] = *admin2
	e2 := &c09Env{t: t, ctx: ctx2, db: db2, coll: coll2, fs: fs, raw: raw2, il: il2, rec: rec, debug: e.debug}

	if sc := os.Getenv("C09_SCRIPT"); sc != "" {
		// debugging aid: run scripts such as "set1 read set2 feed1 read;put1 del read"
		for _, line := range strings.Split(sc, ";") {
			ops := c09ParseScript(line)
			fmt.Printf("script: %s\n", line)
			env := e
			if os.Getenv("C09_FS") != "" {
				env = e2
			}
			env.debug = true
			key, _, rs := env.run(ops)
			s := env.snap(key)
			fmt.Printf("  final xattrs: %s restamped=%v\n", c09Dump(s), rs)
		}
		return
	}

	// the section hypothesis of the theorems: crc32c distinguishes the bodies involved (and the deleted marker)
	seen := map[string]int{base.DeleteCrc32c: -1}
	for b := 0; b <= c09NBodies; b++ {
		h := base.Crc32cHashString(c09Body(b))
		if o, dup := seen[h]; dup {
			rec.Fail("crc_distinguishes", "crc-collision", map[string]any{"a": o, "b": b}, "harness bodies do not have distinct crc32c")
		}
		seen[h] = b
	}

	rnd := vNewRand(vSeed())

	// ---- (a) corpus: the scenarios of the property text and the defects found while building the model ----
	for _, line := range c09Corpus {
		e.runCase("corpus", c09ParseScript(line))
	}

	// ---- (b) bounded-exhaustive ----
	full := []string{"set1", "set2", "del", "touch", "put3", "gdel", "meta", "read", "feedL", "feedP"}
	small := []string{"set1", "del", "put2", "gdel", "read", "feedL"}
	c09Enum(full, 3, func(toks []string) { e.runCase("exhaustive", c09Resolve(toks)) })
	c09Enum(small, 4, func(toks []string) { e.runCase("exhaustive", c09Resolve(toks)) })
	if vThorough() {
		c09Enum(full, 4, func(toks []string) { e.runCase("exhaustive", c09Resolve(toks)) })
		c09Enum(small, 5, func(toks []string) { e.runCase("exhaustive", c09Resolve(toks)) })
	}
	// every race (gateway op, hook position, interposed op) from every preparation prefix, followed by a read
	// and a redelivery of the last event
	prefixes := []string{"", "set1", "put1", "put1 set2", "put1 del", "put1 gdel", "put1 gdel del", "set1 del", "put1 set1",
		"put1 set2 meta", "put1 del read", "put1 touch", "set1 read set2", "put1 gdel set2"}
	gs := []string{"put3", "gdel", "meta", "read", "feedL", "feedP"}
	xs := []string{"set4", "del", "touch", "read", "feedL"}
	for _, pre := range prefixes {
		for _, g := range gs {
			for n := 1; n <= 2; n++ {
				for _, x := range xs {
					toks := append(strings.Fields(pre), fmt.Sprintf("race:%s:%d:%s", g, n, x), "read", "feedL")
					e.runCase("exhaustive-race", c09Resolve(toks))
				}
			}
		}
	}
	// legacy documents: every sequence of 3 ops after the legacy write, feed1 being the (delayed) event of that write
	leg := []string{"set2", "del", "touch", "put3", "meta", "read", "feedL", "feedP", "feed1"}
	c09Enum(leg, 3, func(toks []string) { e.runCase("exhaustive-legacy", c09Resolve(append([]string{"legacy1"}, toks...))) })
	for _, pre := range []string{"legacy1", "legacy1 set2", "legacy1 touch"} {
		for _, g := range []string{"put3", "meta", "read", "feed1", "feedL"} {
			for _, x := range []string{"set4", "del", "touch", "read", "feed1", "feedL"} {
				toks := append(strings.Fields(pre), fmt.Sprintf("race:%s:1:%s", g, x), "feed1", "read", "feedL")
				e.runCase("exhaustive-race", c09Resolve(toks))
			}
		}
	}
	// documents replicated from another cluster (version vector with a foreign current version, merge and previous
	// versions): every sequence of 2 ops after the foreign write for every vector shape (thorough: of 3 ops)
	hl := []string{"set2", "del", "touch", "put3", "gdel", "meta", "read", "feedL", "feedP"}
	for h := range c09Shapes {
		pre := fmt.Sprintf("foreign1.%d", h)
		c09Enum(hl, 2, func(toks []string) { e.runCase("exhaustive-hlv", c09Resolve(append([]string{pre}, toks...))) })
		if vThorough() {
			c09Enum(hl, 3, func(toks []string) { e.runCase("exhaustive-hlv", c09Resolve(append([]string{pre}, toks...))) })
		}
	}
	// the same races placed by the fault-store decorator (second environment): an SDK write / delete / xattr touch
	// landing between an import's (or a gateway write's) n-th update callback and its compare-and-swap write
	fprefixes := []string{"set1", "put1 set2", "put1 del", "put1 gdel set2", "set1 read set2", "put1 set2 meta", "put1 touch",
		"foreign1.1 set2", "foreign1.3 set2", "foreign1.4 del", "legacy1 set2", "put1 set1"}
	fgs := []string{"read", "feedL", "feedP", "put3", "gdel", "meta"}
	fxs := []string{"set4", "del", "touch", "set1"}
	for _, pre := range fprefixes {
		for _, g := range fgs {
			for n := 1; n <= 2; n++ {
				for _, x := range fxs {
					toks := append(strings.Fields(pre), fmt.Sprintf("race:%s:%d:%s", g, n, x), "read", "feedL")
					e2.runCase("faultstore-race", c09Resolve(toks))
				}
			}
		}
	}
	rec.Extra("exhaustive", true)

	// ---- (c) random: structured stream (mostly plain ops, feed indices near the end) and adversarial stream (races, stale
	// and out-of-range events, repeated deliveries) ----
	nStruct := vBudget(500, 5000)
	for i := 0; i < nStruct; i++ {
		n := 4 + rnd.Intn(9)
		var ops []c09Op
		if r := rnd.Intn(100); r < 25 {
			ops = append(ops, c09Op{K: "legacy", B: 1 + rnd.Intn(c09NBodies)})
		} else if r < 55 {
			ops = append(ops, c09Op{K: "foreign", B: 1 + rnd.Intn(c09NBodies), H: rnd.Intn(len(c09Shapes))})
		}
		for len(ops) < n {
			ops = append(ops, c09RandOp(rnd, len(ops), false))
		}
		e.runCase("random", ops)
	}
	nAdv := vBudget(400, 4000)
	for i := 0; i < nAdv; i++ {
		n := 3 + rnd.Intn(8)
		var ops []c09Op
		if r := rnd.Intn(100); r < 25 {
			ops = append(ops, c09Op{K: "legacy", B: 1 + rnd.Intn(c09NBodies)})
		} else if r < 55 {
			ops = append(ops, c09Op{K: "foreign", B: 1 + rnd.Intn(c09NBodies), H: rnd.Intn(len(c09Shapes))})
		}
		for len(ops) < n {
			ops = append(ops, c09RandOp(rnd, len(ops), true))
		}
		if i%4 == 3 {
			e2.runCase("adversarial-faultstore", ops)
		} else {
			e.runCase("adversarial", ops)
		}
	}
	rec.Extra("restamp_reruns", e.reruns+e2.reruns)
	rec.Extra("restamps_seen", e.restamps+e2.restamps)
}

var c09Corpus = []string{
	// external write imported once; reads and redelivered / stale events add nothing
	"set1 read read feed1 feed0 feed2",
	"put1 read set2 feed2 read feed3 feed2",
	"put1 set2 feed2 feed2 read",
	// own writes, same-body rewrite, unrelated xattr, metadata-only rewrite: never imported
	"put1 set1 read touch read meta read feed6 set2 meta read",
	"put1 meta meta read feed2 feed3 gdel read",
	// deletes and resurrection
	"read del read put1 del read feed3 del read set2 read",
	"set1 del read put2 read",
	"put1 gdel read feed1 feed2 set2 read put3 read",
	"put1 del feed2 read",
	"put1 gdel del read put2",
	// on-demand import on the write path (defect odw-import-delete-flag in the code as found)
	"put1 del put2 read",
	"put1 set2 gdel read",
	"set1 gdel read",
	"set1 put2 read",
	"put1 set2 put3 read",
	"put1 del gdel read",
	// races between the two import paths, and external writes landing inside a gateway write / import
	"put1 set2 race:read:1:feed2 read",
	"put1 set2 race:feed2:1:read read",
	"put1 set2 race:read:1:set3 read",
	"put1 set2 race:feed2:1:set3 read",
	"put1 race:put2:1:set3 read",
	"put1 race:put2:1:del read",
	"put1 race:meta:1:set2 read",
	"put1 set2 race:put3:1:set4 read",
	"put1 set2 race:put3:2:set4 read",
	"put1 race:gdel:1:set2 read",
	"put1 set2 race:read:1:del read",
	"put1 del race:read:1:set3 read",
	"put1 gdel del race:read:1:del read",
	// documents whose attachment metadata still sits in _sync: the import listener migrates it when it sees the
	// gateway-write event, guarded by that event's cas (delayed events must not stamp a later external write)
	"legacy1 read feed1 read feed1 feed2",
	"legacy1 set2 feed1 read",
	"legacy1 set2 feed1 feed2 feed1 read",
	"legacy1 touch feed1 feed2 read set3 feed1 feed2 feed4 read",
	"legacy1 del feed1 feed2 read",
	"legacy1 put2 feed1 meta feed1",
	"legacy1 race:feed1:1:set2 read",
	"set1 legacy2 read",
	// documents replicated from another cluster: the import makes the SDK mutation the current version (own source,
	// version = its cas), moves the foreign current version and the merge versions to the previous versions
	"foreign1.0 read feed1 set2 read feed2 feed3",
	"foreign1.1 set2 feed2 feed2 read put3 set4 read",
	"foreign1.2 set2 read set3 read meta feed4",
	"foreign1.3 del read set2 read",
	"foreign1.4 put2 set3 read gdel",
	"foreign1.5 set2 feed2 meta feed3 feed4 set3 feed6",
	"foreign1.6 touch read set2 read",
	"foreign1.3 set2 race:read:1:set3 read feed3",
	"foreign1.4 set2 race:feed2:1:set3 read",
	"set1 foreign2.0 read",
}

// enumerate all token sequences of exactly n symbols
func c09Enum(alpha []string, n int, f func([]string)) {
	idx := make([]int, n)
	for {
		toks := make([]string, n)
		for i, k := range idx {
			toks[i] = alpha[k]
		}
		f(toks)
		i := n - 1
		for i >= 0 {
			idx[i]++
			if idx[i] < len(alpha) {
				break
			}
			idx[i] = 0
			i--
		}
		if i < 0 {
			return
		}
	}
}

// feedL / feedP: the event of the version that existed after the previous op / the one before it
func c09Resolve(toks []string) []c09Op {
	var ops []c09Op
	for i, t := range toks {
		t = strings.ReplaceAll(t, "feedL", fmt.Sprintf("feed%d", i))
		p := i - 1
		if p < 0 {
			p = 0
		}
		t = strings.ReplaceAll(t, "feedP", fmt.Sprintf("feed%d", p))
		ops = append(ops, c09ParseOp(t))
	}
	return ops
}

func c09RandOp(rnd *vRand, pos int, adversarial bool) c09Op {
	feed := func() c09Op {
		k := pos
		switch {
		case adversarial && rnd.Chance(15):
			k = pos + 1 + rnd.Intn(3) // not yet existing
		case rnd.Chance(50):
			k = pos
		case pos > 0:
			k = rnd.Intn(pos + 1)
		}
		return c09Op{K: "feed", I: k}
	}
	simple := func(hook bool) c09Op {
		switch r := rnd.Intn(100); {
		case r < 22:
			return c09Op{K: "set", B: 1 + rnd.Intn(c09NBodies)}
		case r < 32:
			return c09Op{K: "del"}
		case r < 38:
			return c09Op{K: "touch"}
		case r < 58:
			return c09Op{K: "read"}
		case r < 78:
			return feed()
		}
		if hook {
			return c09Op{K: "read"}
		}
		switch r := rnd.Intn(10); {
		case r < 5:
			return c09Op{K: "put", B: 1 + rnd.Intn(c09NBodies)}
		case r < 7:
			return c09Op{K: "gdel"}
		}
		return c09Op{K: "meta"}
	}
	pct := 12
	if adversarial {
		pct = 55
	}
	if rnd.Chance(pct) {
		var g c09Op
		switch r := rnd.Intn(10); {
		case r < 3:
			g = c09Op{K: "put", B: 1 + rnd.Intn(c09NBodies)}
		case r < 4:
			g = c09Op{K: "gdel"}
		case r < 5:
			g = c09Op{K: "meta"}
		case r < 8:
			g = c09Op{K: "read"}
		default:
			g = feed()
		}
		x := simple(true)
		return c09Op{K: "race", G: &g, X: &x, N: 1 + rnd.Intn(2)}
	}
	return simple(false)
}

func c09IsImportOp(o c09Op) bool { return o.K == "read" || o.K == "feed" }
func c09IsExt(o c09Op) bool      { return o.K == "set" || o.K == "del" }

func c09SameVersions(a, b [][2]int) bool {
	if len(a) != len(b) {
		return false
	}
	for i := range a {
		if a[i] != b[i] {
			return false
		}
	}
	return true
}

func c09SameHist(a, b []c09Rev) bool {
	if len(a) != len(b) {
		return false
	}
	for i := range a {
		if a[i] != b[i] {
			return false
		}
	}
	return true
}

// run one case (re-run on a fresh document if correctVersionAheadOfCAS re-stamped: timing-dependent, not modelled),
// evaluate the monitors and record the Coq case
func (e *c09Env) runCase(stream string, ops []c09Op) {
	var obs []c09Obs
	for attempt := 0; ; attempt++ {
		var rs []bool
		_, obs, rs = e.run(ops)
		again := false
		for _, r := range rs {
			again = again || r
		}
		if !again || attempt >= 3 {
			break
		}
		e.reruns++
	}
	var names []string
	var coqOps, coqObs []string
	for i, op := range ops {
		names = append(names, op.String())
		coqOps = append(coqOps, op.coq())
		coqObs = append(coqObs, obs[i].coq())
		k := op.K
		if k == "race" {
			k = "race-" + op.G.K + "-" + op.X.K
		}
		e.rec.hist[k]++
		e.rec.Err(fmt.Sprintf("res%d", obs[i].Res))
	}
	e.rec.hist["_cases"]++
	e.rec.Size(fmt.Sprintf("len%02d", len(ops)))
	desc := map[string]any{"ops": strings.Join(names, " ")}
	nontriv := e.monitors(ops, obs, desc)
	e.rec.Case(stream, "trace", "(C "+cqList(coqOps)+" "+cqList(coqObs)+")", desc, nontriv)
}

// Go-side reflections of the theorems, evaluated on what the implementation did.  Returns the non-triviality of the case.
func (e *c09Env) monitors(ops []c09Op, obs []c09Obs, desc map[string]any) bool {
	in := func(i int) map[string]any {
		var names []string
		for _, op := range ops[:i+1] {
			names = append(names, op.String())
		}
		return map[string]any{"ops": strings.Join(names, " "), "failing_op": i + 1}
	}
	prev := c09Obs{VFull: 2, VDoc: 2, VXattr: 3}
	totalImports, exts := 0, 0
	sawImport, sawQuietRedelivery := false, false
	for i, op := range ops {
		o := obs[i]
		g := op
		if op.K == "race" {
			g = *op.G
			if c09IsExt(*op.X) && o.Fired {
				exts++
			}
		}
		if c09IsExt(op) {
			exts++
		}
		totalImports += o.Imports
		if o.Imports > 0 {
			sawImport = true
		}
		own := prev.HasSync && prev.VFull == 1
		gw := g.K == "put" || g.K == "gdel" || g.K == "meta" || g.K == "read" || g.K == "feed"

		// history is a chain, sequences never go backwards
		for j, r := range o.Hist {
			if (j+1 < len(o.Hist) && (r.Parent != o.Hist[j+1].Gen || r.Gen != r.Parent+1)) || (j+1 == len(o.Hist) && (r.Parent != 0 || r.Gen != 1)) {
				e.rec.Fail("history_is_chain", "history-branch", in(i), fmt.Sprintf("history %v is not a chain", o.Hist))
				break
			}
		}
		if o.HasSync && prev.HasSync && o.seq < prev.seq {
			e.rec.Fail("sequence_monotone", "seq-decrease", in(i), fmt.Sprintf("sequence %d -> %d", prev.seq, o.seq))
		}

		// own_write_never_imported: after a gateway write that succeeded every variant recognises it ...
		if op.K != "race" && o.Res == 0 && (g.K == "put" || g.K == "gdel" || (g.K == "meta" && own)) {
			if !(o.VFull == 1 && o.VDoc == 1 && (o.VXattr == 1 || o.VXattr == 2)) {
				e.rec.Fail("own_write_never_imported", "own-write-not-recognised", in(i), fmt.Sprintf("after %s: full=%d doc=%d xattr=%d", g.String(), o.VFull, o.VDoc, o.VXattr))
			}
		}
		// ... and an import attempt on an own write (or a redelivery after an import) changes nothing
		if op.K != "race" && c09IsImportOp(g) && own {
			if o.Imports != 0 || !c09SameHist(o.Hist, prev.Hist) || o.SeqUp {
				sig := "own-write-imported"
				if i > 0 && obs[i-1].Imports > 0 {
					sig = "import-not-idempotent"
				}
				e.rec.Fail("import_idempotent", sig, in(i), fmt.Sprintf("%s on a document recognised as gateway write: imports=%d hist %v -> %v seqchanged=%v", g.String(), o.Imports, prev.Hist, o.Hist, o.SeqUp))
			} else {
				sawQuietRedelivery = true
			}
		}
		// a race between two import paths imports at most once
		if op.K == "race" && c09IsImportOp(g) && c09IsImportOp(*op.X) {
			if o.Imports > 1 || len(o.Hist) > len(prev.Hist)+1 {
				e.rec.Fail("import_race_once", "double-import-race", in(i), fmt.Sprintf("imports=%d hist %v -> %v", o.Imports, prev.Hist, o.Hist))
			}
			if o.Imports == 1 {
				sawQuietRedelivery = true
			}
		}
		// import_parent_is_previous_current / generation / body, for a single import by read or feed
		if op.K != "race" && c09IsImportOp(g) && o.Imports == 1 {
			ok := len(o.Hist) >= 1
			if ok {
				nr := o.Hist[0]
				base := prev.Hist
				if !prev.HasSync {
					base = nil
				}
				ok = c09SameHist(o.Hist[1:], base) && nr.Parent == prev.Cur && nr.Gen == prev.Cur+1 && o.Cur == nr.Gen
				if ok && prev.St == 1 && (nr.Deleted || nr.Body != prev.Body) {
					ok = false
				}
				if ok && prev.St == 2 && !nr.Deleted {
					ok = false
				}
			}
			if !ok {
				e.rec.Fail("import_parent_generation_body", "import-revision-shape", in(i), fmt.Sprintf("bucket st=%d body=%d cur=%d hist %v -> %v", prev.St, prev.Body, prev.Cur, prev.Hist, o.Hist))
			}
		}
		// an external write is never turned into an "own write" by anything but an import (in particular not by the
		// attachment-metadata migration handed a delayed gateway-write event)
		if op.K != "race" && gw && !(o.Res == 0 && (g.K == "put" || g.K == "gdel")) {
			pending := prev.St != 0 && ((prev.HasSync && prev.VFull == 0) || (!prev.HasSync && prev.St == 1))
			if pending && o.Imports == 0 && o.HasSync && o.VFull == 1 {
				sig := "external-write-stamped-as-own"
				if prev.Att && g.K == "feed" {
					sig = "external-write-stamped-as-own-by-migration"
				}
				e.rec.Fail("import_only_way_to_own", sig, in(i), fmt.Sprintf("%s: bucket st=%d body=%d was a pending external write; now recognised as gateway write without import (hist %v)", g.String(), prev.St, prev.Body, o.Hist))
			}
		}
		if o.Imports > 1 && op.K != "race" {
			e.rec.Fail("import_once", "double-import", in(i), fmt.Sprintf("imports=%d in one op", o.Imports))
		}
		// ---- deepening ----
		// sgw_write_never_imported: an ACCEPTED gateway write (plain or raced) stamps _sync.cas with its own CAS, so every
		// variant of the detection says "gateway write" for every body, delete flag and version vector
		if o.Res == 0 && (g.K == "put" || g.K == "gdel") {
			if !(o.HasSync && o.FCas && o.sgAll && o.VXattr == 1) {
				e.rec.Fail("sgw_write_never_imported", "accepted-write-not-stamped", in(i), fmt.Sprintf("after %s: cas==_sync.cas %v, all variants for all bodies %v, xattr-only=%d", op.String(), o.FCas, o.sgAll, o.VXattr))
			}
		}
		// import_hlv_dominates_previous / metadata_only_update_not_reimported: a single import by read or feed
		if op.K != "race" && c09IsImportOp(g) && o.Imports == 1 && prev.St != 0 {
			updated := !prev.HasVV || !(prev.FCvCas || prev.FMou)
			bad := ""
			switch {
			case !o.HasVV:
				bad = "no _vv after import"
			case !o.FCv || !o.FSrc:
				bad = "_sync.rev does not record the current version of _vv"
			case updated && !(o.CvSrc == 0 && o.ver == prev.cas && o.cvcas == prev.cas && len(o.MV) == 0):
				bad = fmt.Sprintf("imported mutation is not the current version: src=%d ver==cas %v cvCas==cas %v mv=%v", o.CvSrc, o.ver == prev.cas, o.cvcas == prev.cas, o.MV)
			case !updated && !(o.CvSrc == prev.CvSrc && o.ver == prev.ver && c09SameVersions(o.MV, prev.MV) && c09SameVersions(o.PV, prev.PV)):
				bad = "version vector changed although the mutation already was the current version"
			}
			if bad == "" && updated && prev.HasVV {
				// dominance: every source the previous vector knew (GetValue order: cv, mv, pv) is still known, not older
				known := map[int]int{}
				for _, p := range prev.PV {
					known[p[0]] = p[1]
				}
				for _, p := range prev.MV {
					known[p[0]] = p[1]
				}
				if prev.CvSrc != 0 {
					known[prev.CvSrc] = prev.CvK
				}
				now := map[int]int{}
				for _, p := range o.PV {
					now[p[0]] = p[1]
				}
				for src, v := range known {
					if src == 0 {
						continue // the own source is the new current version (version = cas, newer than anything recorded)
					}
					if nv, ok := now[src]; !ok || nv < v {
						bad = fmt.Sprintf("source %d (version %d) of the previous vector is lost or moved back: pv=%v", src, v, o.PV)
					}
				}
				if _, ok := now[0]; ok {
					bad = fmt.Sprintf("own source is current version and previous version: pv=%v", o.PV)
				}
			}
			if bad != "" {
				e.rec.Fail("import_hlv_dominates_previous", "import-hlv", in(i), fmt.Sprintf("%s (previous cv src=%d k=%d mv=%v pv=%v)", bad, prev.CvSrc, prev.CvK, prev.MV, prev.PV))
			}
			wantP := prev.cas
			if prev.FMou {
				wantP = prev.pcas
			}
			if !(o.HasMou && o.FMou && o.pcas == wantP && o.FCas) {
				e.rec.Fail("metadata_only_update_not_reimported", "import-mou", in(i), fmt.Sprintf("after import: _mou present %v, _mou.cas==cas %v, _mou.pCas as expected %v, _sync.cas==cas %v", o.HasMou, o.FMou, o.pcas == wantP, o.FCas))
			}
		}
		// counters: a feed delivery imports, or cancels on CAS loss (only when the document moved on since the event),
		// or does nothing; import errors never happen on these streams
		if op.K != "race" && g.K == "feed" {
			if o.Imports+o.Cancel+o.Errs > 1 {
				e.rec.Fail("import_counters", "feed-counts", in(i), fmt.Sprintf("imports=%d cancelCAS=%d errors=%d for one delivery", o.Imports, o.Cancel, o.Errs))
			}
			if o.Cancel > 0 && o.evCas == prev.cas {
				e.rec.Fail("import_counters", "cancel-cas-without-cas-change", in(i), "ImportCancelCAS counted although the event is the current version")
			}
		}
		if o.Errs > 0 && op.K != "race" {
			// (in a race an on-demand import may find the document deleted without xattrs: ErrEmptyDocument, counted)
			e.rec.Fail("import_counters", "import-error", in(i), fmt.Sprintf("%s: ImportErrorCount +%d", op.String(), o.Errs))
		}
		// retry path (fault-store races): an SDK set landing between an import attempt's callback and its CAS write
		if op.K == "race" && o.Fired && op.X.K == "set" && len(o.attempts) >= op.N {
			at := o.attempts
			switch g.K {
			case "feed":
				if at[op.N-1] == "write" && !(len(at) == op.N+1 && at[op.N] == "casfail" && o.Imports == 0 && o.Cancel == 1) {
					e.rec.Fail("import_retry_path", "feed-import-cas-loss-not-cancelled", in(i), fmt.Sprintf("attempts=%v imports=%d cancelCAS=%d", at, o.Imports, o.Cancel))
				}
			case "read":
				if at[op.N-1] == "write" && len(at) < op.N+1 {
					e.rec.Fail("import_retry_path", "ondemand-import-no-retry", in(i), fmt.Sprintf("attempts=%v", at))
				}
				if o.Imports == 1 && !(len(o.Hist) > 0 && !o.Hist[0].Deleted && o.Hist[0].Body == op.X.B && o.Body == op.X.B) {
					e.rec.Fail("import_retry_path", "ondemand-retry-stale-body", in(i), fmt.Sprintf("attempts=%v: imported revision %v, bucket body %d, interposed set %d", at, o.Hist, o.Body, op.X.B))
				}
			}
		}
		if op.K == "race" && o.Fired && op.X.K == "set" && g.K == "feed" && o.Imports > 0 && e.fs == nil {
			e.rec.Fail("import_retry_path", "feed-import-after-cas-loss", in(i), fmt.Sprintf("imports=%d", o.Imports))
		}
		// latest_body_visible: after a successful read the current revision is for the bucket's body
		if op.K != "race" && g.K == "read" && o.Res == 0 {
			ok := o.HasSync && len(o.Hist) > 0 && o.VFull == 1
			if ok && o.St == 1 {
				ok = !o.Hist[0].Deleted && o.Hist[0].Body == o.Body
			}
			if ok && o.St == 2 {
				ok = o.Hist[0].Deleted
			}
			if !ok {
				e.rec.Fail("latest_body_visible", "read-body-mismatch", in(i), fmt.Sprintf("st=%d body=%d hist=%v", o.St, o.Body, o.Hist))
			}
		}
		if op.K != "race" && g.K == "read" && o.Res != 0 && prev.St == 1 {
			e.rec.Fail("latest_body_visible", "read-fails-on-live-doc", in(i), fmt.Sprintf("res=%d", o.Res))
		}
		// gateway_preserves_external_body: imports, metadata-only rewrites and REJECTED writes never change the body
		// or the liveness of the bucket document; only an interposed external write may
		if gw {
			wantSt, wantBody := prev.St, prev.Body
			if op.K == "race" && o.Fired {
				switch op.X.K {
				case "set":
					wantSt, wantBody = 1, op.X.B
				case "del":
					if prev.St != 0 {
						wantSt, wantBody = 2, 0
					}
				}
			}
			accepted := o.Res == 0 && (g.K == "put" || g.K == "gdel")
			if accepted {
				if g.K == "put" {
					wantSt, wantBody = 1, g.B
				} else {
					wantSt, wantBody = 2, 0
				}
			}
			if o.St != wantSt || o.Body != wantBody {
				sig := "import-changed-body"
				switch g.K {
				case "put", "gdel":
					sig = "odw-import-delete-flag"
				case "read":
					sig = "ondemand-retry-delete-flag"
				}
				e.rec.Fail("gateway_preserves_external_body", sig, in(i), fmt.Sprintf("%s (res=%d): bucket document st=%d body=%d, expected st=%d body=%d", op.String(), o.Res, o.St, o.Body, wantSt, wantBody))
			}
		}
		prev = o
	}
	if totalImports > exts {
		e.rec.Fail("imports_bounded_by_external_writes", "import-loop", in(len(ops)-1), fmt.Sprintf("%d imports for %d external writes", totalImports, exts))
	}
	desc["imports"] = totalImports
	return sawImport && sawQuietRedelivery
}

func c09Dump(s c09Snap) string {
	m := map[string]any{"body": string(s.body), "cas": s.cas}
	for k, v := range s.xattrs {
		var x any
		_ = json.Unmarshal(v, &x)
		m[k] = x
	}
	b, _ := json.Marshal(m)
	return string(b)
}

func c09ParseOp(tok string) c09Op {
	var o c09Op
	switch {
	case strings.HasPrefix(tok, "set"):
		o.K = "set"
		fmt.Sscanf(tok[3:], "%d", &o.B)
	case strings.HasPrefix(tok, "put"):
		o.K = "put"
		fmt.Sscanf(tok[3:], "%d", &o.B)
	case strings.HasPrefix(tok, "legacy"):
		o.K = "legacy"
		fmt.Sscanf(tok[6:], "%d", &o.B)
	case strings.HasPrefix(tok, "foreign"):
		o.K = "foreign"
		fmt.Sscanf(tok[7:], "%d.%d", &o.B, &o.H)
	case strings.HasPrefix(tok, "feed"):
		o.K = "feed"
		fmt.Sscanf(tok[4:], "%d", &o.I)
	case strings.HasPrefix(tok, "race:"):
		// race:g:n:x
		p := strings.Split(tok, ":")
		g := c09ParseOp(p[1])
		x := c09ParseOp(p[3])
		o = c09Op{K: "race", G: &g, X: &x}
		fmt.Sscanf(p[2], "%d", &o.N)
	default:
		o.K = tok
	}
	return o
}
func c09ParseScript(line string) []c09Op {
	var ops []c09Op
	for _, tok := range strings.Fields(line) {
		ops = append(ops, c09ParseOp(tok))
	}
	return ops
}
