//go:build verif

package db

import (
	"context"
	"encoding/json"
	"fmt"
	"sort"
	"strings"
	"sync"
	"testing"
	"time"

	sgbucket "github.com/couchbase/sg-bucket"
	"github.com/couchbase/sync_gateway/base"
	"github.com/couchbase/sync_gateway/channels"
)

// C18 (deepening): the resync RUN as an interruptible process.  One real database with one or two named
// collections (document "d<100*collection+n>"), written under the functions F1, switched to F2, then driven
// through the REAL ResyncManagerDCP segment by segment: Start (with / without reset, regenerate_sequences,
// a `collections` restriction), a chosen number of ResyncDocument calls per collection, then Stop -- or a
// simulated crash (the status and checkpoint documents are put back to what they were when the segment
// started and a new manager object replaces the old one) -- or completion; document writes and user loads
// between the segments and while the run is held.  The Coq model (Run.v) replays the same steps: it must
// predict WHICH documents each segment hands to ResyncDocument (the feed snapshot above the checkpoint, in
// CAS order), every document's state after every segment, docs_changed, the invalidation state and the
// sequences of the principals.

// ---------- the gate: a DataStore that counts ResyncDocument calls per collection and holds the run ----------
type c18GateCtl struct {
	mu      sync.Mutex
	active  bool
	quiet   bool // the harness itself is writing
	hold    chan struct{}
	limit   map[int]int
	visits  map[int][]string
	seqAcct []c18SeqAcct // per ResyncDocument call: sequences the allocator handed out / released during the call
	stats   func() (assigned, released int64)
	blocked chan int
	release chan struct{}
}

type c18SeqAcct struct {
	Key                string
	Assigned, Released int64
	Written            bool
}

type c18Gate struct {
	base.DataStore
	sgbucket.ViewStore // the access / role_access views are queried through the collection's data store
	ctl *c18GateCtl
	col int
}

func (g *c18Gate) GetUnderlyingDataStore() base.DataStore { return g.DataStore }

func (g *c18Gate) WriteUpdateWithXattrs(ctx context.Context, k string, xattrKeys []string, exp uint32, previous *sgbucket.BucketDocument, opts *sgbucket.MutateInOptions, callback sgbucket.WriteUpdateWithXattrsFunc) (uint64, error) {
	c := g.ctl
	c.mu.Lock()
	on := c.active && !c.quiet
	hold := c.hold
	c.mu.Unlock()
	if !on {
		return g.DataStore.WriteUpdateWithXattrs(ctx, k, xattrKeys, exp, previous, opts, callback)
	}
	<-hold
	var a0, r0 int64
	if c.stats != nil {
		a0, r0 = c.stats()
	}
	cas, err := g.DataStore.WriteUpdateWithXattrs(ctx, k, xattrKeys, exp, previous, opts, callback)
	c.mu.Lock()
	if c.stats != nil {
		a1, r1 := c.stats()
		c.seqAcct = append(c.seqAcct, c18SeqAcct{Key: k, Assigned: a1 - a0, Released: r1 - r0, Written: err == nil})
	}
	c.visits[g.col] = append(c.visits[g.col], k)
	n := len(c.visits[g.col])
	lim, has := c.limit[g.col]
	rel, bl := c.release, c.blocked
	c.mu.Unlock()
	if has && n == lim {
		bl <- g.col
		<-rel
	}
	return cas, err
}

// ---------- a case ----------
type c18RStep struct {
	Kind string // "write" | "start" | "users"
	// write
	W *c18W
	// start: one segment of a run
	Reset, Regen bool
	Cols         []int       // nil: all collections (hasAllCollections)
	Stop         map[int]int // per selected collection: per-mille of the pending documents after which the run is held (absent / nil map: run to completion)
	Crash        bool        // the interruption is a crash
	Continue     bool        // the run is only held (for the writes of During), then released without Stop: it completes
	During       []c18W      // writes while the run is held
}

type c18RCase struct {
	NCols  int
	F1, F2 []c18F
	H1     []c18W
	Users  []c18User
	Roles  []c18Role
	Steps  []c18RStep
}

type c18REnv struct {
	t    *testing.T
	tb   *base.TestBucket
	db   *Database
	ctx  context.Context
	cols []*DatabaseCollectionWithUser
	ctxs []context.Context
	ctl  *c18GateCtl
}

func c18RNewEnv(t *testing.T, c c18RCase) *c18REnv {
	tb := base.GetTestBucket(t)
	opts := DefaultCacheOptions()
	db, ctx := SetupTestDBForBucketWithOptions(t, tb, DatabaseContextOptions{AllowConflicts: base.Ptr(true), CacheOptions: &opts, BcryptCost: 4,
		Scopes: GetScopesOptions(t, tb, c.NCols)})
	e := &c18REnv{t: t, tb: tb, db: db, ctx: ctx, ctl: &c18GateCtl{}}
	names := db.DataStoreNames()
	sort.Slice(names, func(i, j int) bool { return names[i].String() < names[j].String() })
	for i, n := range names {
		col, err := db.GetDatabaseCollectionWithUser(n.ScopeName(), n.CollectionName())
		if err != nil {
			t.Fatalf("c18 run: collection %v: %v", n, err)
		}
		vs, _ := base.AsViewStore(col.DatabaseCollection.dataStore)
		col.DatabaseCollection.dataStore = &c18Gate{DataStore: col.DatabaseCollection.dataStore, ViewStore: vs, ctl: e.ctl, col: i}
		e.cols = append(e.cols, col)
		e.ctxs = append(e.ctxs, col.AddCollectionContext(ctx))
	}
	for i := range e.cols {
		e.setFn(i, c.F1[i])
	}
	a := db.Authenticator(ctx)
	for _, r := range c.Roles {
		role, err := a.NewRole(r.Name, base.SetFromArray(r.Ch))
		if err == nil {
			err = a.Save(role)
		}
		if err != nil {
			t.Fatalf("c18 run role %s: %v", r.Name, err)
		}
	}
	for _, u := range c.Users {
		user, err := a.NewUser(u.Name, "pass", base.SetFromArray(u.Ch))
		if err == nil {
			if len(u.Roles) > 0 {
				user.SetExplicitRoles(channels.AtSequence(base.SetFromArray(u.Roles), 1), 1)
			}
			err = a.Save(user)
		}
		if err != nil {
			t.Fatalf("c18 run user %s: %v", u.Name, err)
		}
	}
	return e
}
func (e *c18REnv) close() {
	e.db.Close(e.ctx)
	e.tb.Close(e.ctx)
}
func (e *c18REnv) setFn(i int, f c18F) {
	if _, err := e.cols[i].UpdateSyncFun(e.ctxs[i], f.js()); err != nil {
		e.t.Fatalf("c18 run sync function: %v", err)
	}
}
func (e *c18REnv) put(w c18W) error {
	i := w.Doc / 100
	e.ctl.mu.Lock()
	e.ctl.quiet = true
	e.ctl.mu.Unlock()
	_, _, err := e.cols[i].PutExistingRevWithBody(e.ctxs[i], c18DocID(w.Doc), w.Body.body(w.Del), w.Hist, false, ExistingVersionWithUpdateToHLV)
	e.ctl.mu.Lock()
	e.ctl.quiet = false
	e.ctl.mu.Unlock()
	return err
}
func (e *c18REnv) loadUsers(names []string) {
	a := e.db.Authenticator(e.ctx)
	for _, n := range names {
		if user, err := a.GetUser(n); err == nil && user != nil {
			_, _ = user.InheritedCollectionChannels(e.cols[0].ScopeName, e.cols[0].Name)
		}
	}
}
func (e *c18REnv) getDoc(id int) *Document {
	i := id / 100
	doc, err := e.cols[i].GetDocument(e.ctxs[i], c18DocID(id), DocUnmarshalAll)
	if err != nil {
		return nil
	}
	return doc
}
func (e *c18REnv) observeDocs(ids []int) ([]c18Doc, map[int]*Document) {
	var out []c18Doc
	docs := map[int]*Document{}
	for _, id := range ids {
		doc := e.getDoc(id)
		if doc == nil {
			continue
		}
		docs[id] = doc
		od := c18Doc{ID: id, Cur: doc.GetRevTreeID(), Del: doc.IsDeleted(), Ch: c18Sorted(doc.getCurrentChannels().ToArray()),
			Access: c18Grants(doc.Access), Roles: c18Grants(doc.RoleAccess), Seq: doc.Sequence, Recent: append([]uint64{}, doc.RecentSequences...)}
		leaves := doc.History.GetLeaves()
		sort.Strings(leaves)
		for _, l := range leaves {
			ch, _ := doc.channelsForRevTreeID(l)
			od.Leaves = append(od.Leaves, c18Leaf{Rev: l, Del: doc.History[l].Deleted, Ch: c18Sorted(ch.ToArray())})
		}
		out = append(out, od)
	}
	return out, docs
}
func (e *c18REnv) observeUsers(users []c18User, ids []int) []c18UserObs {
	_, docs := e.observeDocs(ids)
	var out []c18UserObs
	a := e.db.Authenticator(e.ctx)
	col := e.cols[0]
	for _, u := range users {
		user, err := a.GetUser(u.Name)
		if err != nil || user == nil {
			e.t.Fatalf("c18 run get user %s: %v", u.Name, err)
		}
		uo := c18UserObs{Name: u.Name}
		chs, err := user.InheritedCollectionChannels(col.ScopeName, col.Name)
		if err != nil {
			e.t.Fatalf("c18 run channels of %s: %v", u.Name, err)
		}
		for _, k := range chs.AllKeys() {
			if k != channels.DocumentPublicChannel {
				uo.Ch = append(uo.Ch, k)
			}
		}
		sort.Strings(uo.Ch)
		uo.Roles = c18Sorted(user.RoleNames().AllKeys())
		ucol := &DatabaseCollectionWithUser{DatabaseCollection: col.DatabaseCollection, user: user}
		for _, id := range ids {
			doc := docs[id]
			if doc == nil {
				continue
			}
			if !doc.IsDeleted() && ucol.authorizeDoc(doc, "") == nil {
				uo.Vis = append(uo.Vis, id)
			}
			leaves := doc.History.GetLeaves()
			sort.Strings(leaves)
			for _, l := range leaves {
				if ucol.authorizeDoc(doc, l) == nil {
					uo.VisLeaf = append(uo.VisLeaf, fmt.Sprintf("%d|%s", id, l))
				}
			}
		}
		out = append(out, uo)
	}
	return out
}

// raw read of a principal document: its sequence, and for a user whether the computed channels (of ANY collection)
// / the computed roles are invalidated
func (e *c18REnv) rawPrincipal(key string) (seq uint64, chPend map[string]bool, rolePend bool) {
	var m map[string]any
	chPend = map[string]bool{}
	if _, err := e.db.MetadataStore.Get(e.ctx, key, &m); err != nil {
		return 0, chPend, false
	}
	if f, ok := m["sequence"].(float64); ok {
		seq = uint64(f)
	}
	if f, ok := m["role_inval_seq"].(float64); ok && f != 0 {
		rolePend = true
	}
	if f, ok := m["channel_inval_seq"].(float64); ok && f != 0 {
		chPend["_default._default"] = true
	}
	if ca, ok := m["collection_access"].(map[string]any); ok {
		for scope, v := range ca {
			if cm, ok := v.(map[string]any); ok {
				for coll, cv := range cm {
					if x, ok := cv.(map[string]any); ok {
						if f, ok := x["channel_inval_seq"].(float64); ok && f != 0 {
							chPend[scope+"."+coll] = true
						}
					}
				}
			}
		}
	}
	return seq, chPend, rolePend
}
func (e *c18REnv) colKey(i int) string { return e.cols[i].ScopeName + "." + e.cols[i].Name }
func (e *c18REnv) principalSeqs(c c18RCase) []uint64 {
	var out []uint64
	for _, r := range c.Roles {
		s, _, _ := e.rawPrincipal(e.db.MetadataKeys.RoleKey(r.Name))
		out = append(out, s)
	}
	for _, u := range c.Users {
		s, _, _ := e.rawPrincipal(e.db.MetadataKeys.UserKey(u.Name))
		out = append(out, s)
	}
	return out
}

func (e *c18REnv) manager() *ResyncManagerDCP { return e.db.ResyncManager.Process.(*ResyncManagerDCP) }
func (e *c18REnv) statusKey() string {
	return e.db.MetadataKeys.BackgroundProcessStatusPrefix("resync")
}
func (e *c18REnv) status() (state BackgroundProcessState, changed int64) {
	var resp ResyncManagerResponseDCP
	raw, err := e.db.ResyncManager.GetStatus(e.ctx)
	if err == nil {
		err = base.JSONUnmarshal(raw, &resp)
	}
	if err != nil {
		e.t.Fatalf("c18 run status: %v", err)
	}
	return resp.State, resp.DocsChanged
}
func (e *c18REnv) waitState(want BackgroundProcessState) bool {
	deadline := time.Now().Add(20 * time.Second)
	for time.Now().Before(deadline) {
		if e.db.ResyncManager.GetRunState() == want {
			// the terminal status is persisted right after the state change
			for i := 0; i < 2000; i++ {
				if st, _ := e.status(); st == want {
					return true
				}
				time.Sleep(time.Millisecond)
			}
			return false
		}
		time.Sleep(time.Millisecond)
	}
	return false
}

// number of documents of collection i the feed will hand to ResyncDocument: those above the checkpoint (tombstones
// included: their event carries the xattrs, so the run loop does not skip them; ResyncDocument's callback cancels)
func (e *c18REnv) pending(i int, ids []int, ckpt uint64) int {
	n := 0
	for _, id := range ids {
		if id/100 != i {
			continue
		}
		if doc := e.getDoc(id); doc != nil && doc.Cas > ckpt {
			n++
		}
	}
	return n
}

func c18Global(key string) int { // "d105" -> 105
	n := 0
	fmt.Sscanf(strings.TrimPrefix(key, "d"), "%d", &n)
	return n
}

func c18RCqList(v []uint64) string { return cqNList(v) }

// ---------- one case ----------
func c18RRun(t *testing.T, rec *vRecorder, fl *c18Failer, stream string, c c18RCase) {
	idset := map[int]bool{}
	for _, w := range c.H1 {
		idset[w.Doc] = true
	}
	for _, s := range c.Steps {
		if s.W != nil {
			idset[s.W.Doc] = true
		}
		for _, w := range s.During {
			idset[w.Doc] = true
		}
	}
	var ids []int
	for id := range idset {
		ids = append(ids, id)
	}
	sort.Ints(ids)
	var f1js, f2js []string
	for i := 0; i < c.NCols; i++ {
		f1js = append(f1js, c.F1[i].js())
		f2js = append(f2js, c.F2[i].js())
	}
	desc := map[string]any{"collections": c.NCols, "f1": f1js, "f2": f2js, "writes_under_f1": c.H1, "users": c.Users, "roles": c.Roles, "steps": c.Steps}
	single := c.NCols == 1

	e := c18RNewEnv(t, c)
	defer e.close()
	var h1 []string
	for _, w := range c.H1 {
		e.loadUsers(w.LoadBefore)
		h1 = append(h1, c18LoadsCoq(w.LoadBefore)...)
		if err := e.put(w); err != nil {
			rec.Err("run_put_old:rejected")
		} else {
			rec.Err("run_put_old:ok")
		}
		h1 = append(h1, w.coq())
	}
	for i := range e.cols {
		e.setFn(i, c.F2[i])
	}
	before, _ := e.observeDocs(ids)
	pseq0 := e.principalSeqs(c)
	docsCoq := func(ds []c18Doc) string {
		var it []string
		for _, d := range ds {
			it = append(it, d.coq())
		}
		return cqList(it)
	}
	// the top-level state (current revision, channels, grants) of every document under the old functions
	oldTop := map[int]string{}
	top := func(d c18Doc) string {
		return fmt.Sprintf("%s|%v|%v|%v|%v", d.Cur, d.Del, d.Ch, d.Access, d.Roles)
	}
	for _, d := range before {
		oldTop[d.ID] = top(d)
	}
	written := map[int]bool{} // documents written after the switch

	var steps []string
	nontrivial := false
	interrupted := 0
	dirty := false          // a resync write has happened since all principals were last invalidated
	selected := map[int]bool{} // collections selected by some Start
	lastState := ""
	// no `reset`, no crash, the same collection set at every Start: the run keeps one id, its counter survives every
	// interruption (C18_single_id_run_invalidates)
	gentle := true
	firstCols, seenStart := "", false
	for _, s := range c.Steps {
		if s.Kind != "start" {
			continue
		}
		if !seenStart {
			firstCols, seenStart = fmt.Sprint(s.Cols), true
		}
		if s.Reset || s.Crash || fmt.Sprint(s.Cols) != firstCols {
			gentle = false
		}
	}
	for si, s := range c.Steps {
		switch s.Kind {
		case "write":
			e.loadUsers(s.W.LoadBefore)
			for _, l := range c18LoadsCoq(s.W.LoadBefore) {
				steps = append(steps, "TW "+l)
			}
			if err := e.put(*s.W); err != nil {
				rec.Err("run_put_new:rejected")
			} else {
				rec.Err("run_put_new:ok")
				written[s.W.Doc] = true
			}
			steps = append(steps, "TW "+s.W.coq())
			o, _ := e.observeDocs(ids)
			steps = append(steps, "TObs "+docsCoq(o))
		case "users":
			if single {
				uo := e.observeUsers(c.Users, ids)
				var us []string
				for _, u := range uo {
					us = append(us, u.coq())
				}
				steps = append(steps, "TUsers "+cqList(us))
				// monitor: after a COMPLETED run a user's effective channels are those granted by the documents as they are now
				if lastState == "completed" {
					c18RUserMonitor(e, fl, desc, c, ids, uo, dirty && !gentle)
				}
			}
		case "start":
			sel := s.Cols
			var selNames []sgbucket.DataStoreName
			if sel == nil {
				for i := 0; i < c.NCols; i++ {
					sel = append(sel, i)
				}
			} else {
				for _, i := range s.Cols {
					selNames = append(selNames, e.cols[i].dataStore)
				}
			}
			for _, i := range sel {
				selected[i] = true
			}
			var colsCoq []string
			for _, i := range s.Cols {
				colsCoq = append(colsCoq, cqN(uint64(i)))
			}
			preDocs, _ := e.observeDocs(ids)
			// arm the gate
			ctl := e.ctl
			ctl.mu.Lock()
			ctl.active, ctl.hold, ctl.limit, ctl.visits, ctl.seqAcct = true, make(chan struct{}), map[int]int{}, map[int][]string{}, nil
			ctl.stats = nil
			if single {
				// one feed goroutine and a harness that only writes while the run is held: the allocator's counters move
				// only through the ResyncDocument call in progress
				ctl.stats = func() (int64, int64) {
					return int64(e.db.DbStats.Database().SequenceAssignedCount.Value()), int64(e.db.DbStats.Database().SequenceReleasedCount.Value())
				}
			}
			ctl.blocked, ctl.release = make(chan int, 8), make(chan struct{})
			ctl.mu.Unlock()
			if err := e.db.ResyncManager.Start(e.ctx, ResyncOptions{Collections: base.NewCollectionNames(selNames...), Reset: s.Reset, RegenerateSequences: s.Regen}); err != nil {
				t.Fatalf("c18 run start (step %d): %v", si, err)
			}
			steps = append(steps, fmt.Sprintf("TStart %s %s %s", cqBool(s.Reset), cqBool(s.Regen), cqList(colsCoq)))
			// what a crash would leave behind: status and checkpoint documents as they are now
			statusRaw, _, _ := e.db.MetadataStore.GetRaw(e.ctx, e.statusKey())
			ckptKey := GetResyncDCPCheckpointPrefix(e.db.DatabaseContext, e.manager().ResyncID, false)
			ckptRaw, _, ckptErr := e.db.MetadataStore.GetRaw(e.ctx, ckptKey)
			var ck struct {
				LastCas map[uint32]uint64 `json:"last_cas"`
			}
			if ckptErr == nil {
				_ = json.Unmarshal(ckptRaw, &ck)
			}
			// plan the interruption
			nlimited := 0
			if s.Stop != nil {
				for _, i := range sel {
					p := e.pending(i, ids, ck.LastCas[e.cols[i].GetCollectionID()])
					if p == 0 {
						continue
					}
					frac, ok := s.Stop[i]
					if !ok {
						frac = 1000
					}
					k := (p*frac + 999) / 1000
					if k < 1 {
						k = 1
					}
					if k > p {
						k = p
					}
					ctl.mu.Lock()
					ctl.limit[i] = k
					ctl.mu.Unlock()
					nlimited++
				}
			}
			close(ctl.hold)
			how := 1
			if nlimited > 0 {
				for n := 0; n < nlimited; n++ {
					select {
					case <-ctl.blocked:
					case <-time.After(20 * time.Second):
						t.Fatalf("c18 run: the held run did not reach its limits (step %d)", si)
					}
				}
				how = 0
				if s.Crash {
					how = 2
				}
				if s.Continue {
					how = 1
				}
			} else if !e.waitState(BackgroundProcessStateCompleted) {
				t.Fatalf("c18 run: run did not complete (step %d)", si)
			}
			// the documents handed to ResyncDocument so far, per collection (all of them when the run completed)
			taken := map[int]int{}
			visited := map[int]bool{}
			collect := func() (string, int) {
				ctl.mu.Lock()
				defer ctl.mu.Unlock()
				var vs []string
				n := 0
				for _, i := range sel {
					var it []string
					for _, k := range ctl.visits[i][taken[i]:] {
						it = append(it, cqN(uint64(c18Global(k))))
						visited[c18Global(k)] = true
						n++
					}
					taken[i] = len(ctl.visits[i])
					vs = append(vs, "("+cqN(uint64(i))+", "+cqList(it)+")")
				}
				return cqList(vs), n
			}
			vs1, nvis := collect()
			e.db.FlushRevisionCacheForTest()
			afterVisits, _ := e.observeDocs(ids)
			steps = append(steps, fmt.Sprintf("TVisits %s %s", vs1, docsCoq(afterVisits)))
			if nlimited > 0 {
				interrupted++
				// writes while the run is held
				for _, w := range s.During {
					w := w
					if err := e.put(w); err != nil {
						rec.Err("run_put_during:rejected")
					} else {
						rec.Err("run_put_during:ok")
						written[w.Doc] = true
					}
					steps = append(steps, "TW "+w.coq())
					o, _ := e.observeDocs(ids)
					steps = append(steps, "TObs "+docsCoq(o))
				}
				if s.Continue {
					close(ctl.release)
					if !e.waitState(BackgroundProcessStateCompleted) {
						t.Fatalf("c18 run: released run did not complete (step %d)", si)
					}
				} else {
					if err := e.db.ResyncManager.Stop(e.ctx); err != nil {
						t.Fatalf("c18 run stop: %v", err)
					}
					close(ctl.release)
					if !e.waitState(BackgroundProcessStateStopped) {
						t.Fatalf("c18 run: run did not stop (step %d)", si)
					}
				}
				// the feed may have delivered a few more events before it noticed the terminator
				if vs2, n2 := collect(); n2 > 0 {
					nvis += n2
					rec.Err("segment:events_after_stop")
					e.db.FlushRevisionCacheForTest()
					o, _ := e.observeDocs(ids)
					steps = append(steps, fmt.Sprintf("TVisits %s %s", vs2, docsCoq(o)))
					afterVisits = o
				}
				if how == 2 {
					// the process died instead: nothing of this segment was persisted, and its memory is gone
					if statusRaw != nil {
						_ = e.db.MetadataStore.SetRaw(e.ctx, e.statusKey(), 0, nil, statusRaw)
					}
					if ckptErr == nil {
						_ = e.db.MetadataStore.SetRaw(e.ctx, ckptKey, 0, nil, ckptRaw)
					} else {
						_ = e.db.MetadataStore.Delete(e.ctx, ckptKey)
					}
					e.db.ResyncManager = NewResyncManagerDCP(e.db.DatabaseContext, false)
				}
			}
			rec.Err(fmt.Sprintf("segment:how=%d,visits=%d", how, nvis))
			// ---- monitors on the segment ----
			c18RSegmentMonitors(e, fl, desc, c, s, sel, preDocs, afterVisits, visited, oldTop, written, how)
			// regenerate_sequences, "unused ones released": of the sequences the allocator hands out during one ResyncDocument
			// call exactly one ends on the document when it is rewritten (none when the call cancels); the others are released
			ctl.mu.Lock()
			acct := append([]c18SeqAcct{}, ctl.seqAcct...)
			ctl.mu.Unlock()
			for _, a := range acct {
				want := int64(0)
				if a.Written && s.Regen {
					want = 1
				}
				if a.Assigned-a.Released != want {
					rec.Err("regen_visit:sequence_lost")
					fl.Fail("regen_unused_sequences_released", "resync-regen-cas-retry-leaks-sequence",
						map[string]any{"case": desc, "step": si, "doc": a.Key, "assigned": a.Assigned, "released": a.Released, "written": a.Written},
						fmt.Sprintf("ResyncDocument(%s): the allocator handed out %d sequence(s), %d released, document rewritten=%v: %d sequence(s) neither on a document nor released",
							a.Key, a.Assigned, a.Released, a.Written, a.Assigned-a.Released-want))
				} else if a.Assigned > 0 {
					rec.Err("regen_visit:sequences_accounted")
				}
			}
			for _, d := range afterVisits {
				if p := c18FindDoc(preDocs, d.ID); p != nil && top(*p) != top(d) && !written[d.ID] {
					nontrivial = true
					dirty = true
				}
			}
			ctl.mu.Lock()
			ctl.active = false
			ctl.mu.Unlock()
			lastState = map[int]string{0: "stopped", 1: "completed", 2: "crashed"}[how]
			// docs_changed as persisted; principals raw
			var st struct {
				Status struct {
					DocsChanged int64 `json:"docs_changed"`
				} `json:"status"`
			}
			raw, _, _ := e.db.MetadataStore.GetRaw(e.ctx, e.statusKey())
			_ = json.Unmarshal(raw, &st)
			pseqs := e.principalSeqs(c)
			var pend []string
			allInval := true
			for _, u := range c.Users {
				_, chp, rlp := e.rawPrincipal(e.db.MetadataKeys.UserKey(u.Name))
				for i := range e.cols {
					if !chp[e.colKey(i)] {
						allInval = false
					}
				}
				if !rlp {
					allInval = false
				}
				if single {
					pend = append(pend, fmt.Sprintf("(%d, %s, %s)", c18Idx(u.Name), cqBool(chp[e.colKey(0)]), cqBool(rlp)))
				}
			}
			for _, r := range c.Roles {
				_, chp, _ := e.rawPrincipal(e.db.MetadataKeys.RoleKey(r.Name))
				for i := range e.cols {
					if !chp[e.colKey(i)] {
						allInval = false
					}
				}
			}
			steps = append(steps, fmt.Sprintf("TEnd %d %d %s %s", how, st.Status.DocsChanged, cqNList(pseqs), cqList(pend)))
			// monitor (C18_finish_invalidates, repaired code): EVERY completed run has invalidated every principal for EVERY
			// collection.  Exact predicate: the invalidation is stamped with the database's sequence counter and a stamp of 0
			// means "not invalidated", so on a database whose counter is still 0 (no sequence was ever allocated: no document
			// was ever written) the flags cannot be raised; there a later load must give exactly the admin grants (checked by
			// reloading), the only thing an empty set of documents grants.
			if how == 1 {
				endSeq, _ := e.db.sequences.getSequence(e.ctx)
				switch {
				case allInval || len(c.Users) == 0:
					dirty = false
				case endSeq == 0:
					rec.Err("completed_run:sequence_counter_zero")
					dirty = false
					if single {
						for i, uo := range e.observeUsers(c.Users, ids) {
							if !c18Eq(uo.Ch, c18Sorted(c.Users[i].Ch)) && len(c.Users[i].Roles) == 0 {
								fl.Fail("finish_invalidates_all_collections", "resync-completed-principals-not-invalidated", map[string]any{"case": desc, "step": si, "user": uo},
									"empty database: a reloaded user holds channels other than its admin grants")
							}
						}
						steps = append(steps, c18LoadsCoqSteps(c.Users)...)
					}
				default:
					sig := "resync-completed-principals-not-invalidated"
					if st.Status.DocsChanged == 0 {
						// the guard `docs_changed > 0` of the code before /repo bc044df
						sig = "resync-reset-after-interrupted-run-principals-stale"
					}
					fl.Fail("finish_invalidates_all_collections", sig, map[string]any{"case": desc, "step": si, "docs_changed": st.Status.DocsChanged, "sequence_counter": endSeq},
						"the run reported completed, the database's sequence counter is positive, but some principal's computed channels / roles are not invalidated for every collection")
				}
			}
			// monitor (regenerate_sequences, all collections): every principal document got a fresh sequence
			if how == 1 && s.Regen && s.Cols == nil {
				maxDoc := uint64(0)
				for _, d := range preDocs {
					if d.Seq > maxDoc {
						maxDoc = d.Seq
					}
				}
				seen := map[uint64]bool{}
				for _, d := range afterVisits {
					seen[d.Seq] = true
				}
				for _, ps := range pseqs {
					if ps <= maxDoc || seen[ps] {
						fl.Fail("regen_run_sequences", "resync-regen-principal-sequence", map[string]any{"case": desc, "step": si, "principal_sequences": pseqs},
							fmt.Sprintf("principal sequence %d is not fresh (documents before the run reach %d)", ps, maxDoc))
					}
					seen[ps] = true
				}
			}
		}
	}
	_ = selected
	var us, rs []string
	if single {
		for _, u := range c.Users {
			us = append(us, "("+cqN(c18Idx(u.Name))+", "+c18Set(u.Ch, c18Chan)+", "+c18Set(u.Roles, c18Idx)+")")
		}
		for _, r := range c.Roles {
			rs = append(rs, "("+cqN(c18Idx(r.Name))+", "+c18Set(r.Ch, c18Chan)+")")
		}
	}
	var fs1, fs2 []string
	for i := 0; i < c.NCols; i++ {
		fs1 = append(fs1, c.F1[i].coq())
		fs2 = append(fs2, c.F2[i].coq())
	}
	pseqCoq := cqNList(pseq0)
	coq := fmt.Sprintf("CRun %d %s %s %s %s %s %s %s %s", c.NCols, cqList(fs1), cqList(fs2), cqList(h1), cqList(us), cqList(rs), pseqCoq, docsCoq(before), cqList(steps))
	rec.Size(fmt.Sprintf("run_docs=%d", len(ids)))
	rec.Case(stream, "run", coq, desc, nontrivial && interrupted > 0 || c.NCols > 1 && nontrivial)
}

// the users of a case loaded one by one, as steps of the Coq case
func c18LoadsCoqSteps(us []c18User) []string {
	var out []string
	for _, u := range us {
		out = append(out, "TW (L "+cqN(c18Idx(u.Name))+")")
	}
	return out
}

func c18FindDoc(ds []c18Doc, id int) *c18Doc {
	for i := range ds {
		if ds[i].ID == id {
			return &ds[i]
		}
	}
	return nil
}

// what the CURRENT function of the document's collection produces for the stored body of its current revision
// (real JS engine): channels, access grants, role grants
func (e *c18REnv) evalCurrent(id int, doc *Document) (ch, acc, rls []string, ok bool) {
	i := id / 100
	rev := doc.GetRevTreeID()
	bodyBytes, _, _, err := e.cols[i].getRevision(e.ctxs[i], doc, rev)
	if err != nil {
		return nil, nil, nil, false
	}
	var body Body
	if err := body.Unmarshal(bodyBytes); err != nil {
		return nil, nil, nil, false
	}
	body[BodyId] = doc.ID
	body[BodyRev] = rev
	if doc.History[rev].Deleted {
		body[BodyDeleted] = true
	}
	out, err := e.cols[i].ChannelMapper.MapToChannelsAndAccess(e.ctxs[i], body, "", nil, nil)
	if err != nil || out == nil {
		return nil, nil, nil, false
	}
	if out.Rejection != nil {
		return nil, nil, nil, true
	}
	flat := func(m channels.AccessMap, strip bool) []string {
		var o []string
		for name, set := range m {
			for c := range set {
				v := c
				if strip {
					v = strings.TrimPrefix(c, "role:")
				}
				o = append(o, name+">"+v)
			}
		}
		sort.Strings(o)
		return o
	}
	return c18Sorted(out.Channels.ToArray()), flat(out.Access, false), flat(out.Roles, true), true
}

func c18RSegmentMonitors(e *c18REnv, fl *c18Failer, desc map[string]any, c c18RCase, s c18RStep, sel []int, pre, post []c18Doc, visited map[int]bool,
	oldTop map[int]string, written map[int]bool, how int) {
	inSel := map[int]bool{}
	for _, i := range sel {
		inSel[i] = true
	}
	top := func(d c18Doc) string { return fmt.Sprintf("%s|%v|%v|%v|%v", d.Cur, d.Del, d.Ch, d.Access, d.Roles) }
	during := map[int]bool{} // written by the harness while the run was held
	for _, w := range s.During {
		during[w.Doc] = true
	}
	for _, d := range post {
		p := c18FindDoc(pre, d.ID)
		if p == nil || during[d.ID] {
			continue
		}
		in := map[string]any{"case": desc, "doc": c18DocID(d.ID), "before_segment": p, "after_segment": d}
		// only_selected_collections_change
		if !inSel[d.ID/100] && (top(*p) != top(d) || p.Seq != d.Seq || fmt.Sprint(p.Leaves) != fmt.Sprint(d.Leaves)) {
			fl.Fail("only_selected_collections_change", "resync-touched-unselected-collection", in, "a document of a collection that was not selected changed during the run")
		}
		// a document the run did not visit is not changed by it
		if !visited[d.ID] && (top(*p) != top(d) || p.Seq != d.Seq) {
			fl.Fail("interrupted_run_is_safe", "resync-changed-unvisited-document", in, "a document that was not handed to ResyncDocument changed during the segment")
		}
		doc := e.getDoc(d.ID)
		if doc == nil {
			continue
		}
		wch, wacc, wrl, ok := e.evalCurrent(d.ID, doc)
		if !ok {
			continue
		}
		isNew := c18Eq(d.Ch, wch) && c18Eq(d.Access, wacc) && c18Eq(d.Roles, wrl)
		// interrupted_run_is_safe: fully old or fully new, never a mix
		if !isNew && !written[d.ID] && oldTop[d.ID] != top(d) {
			fl.Fail("interrupted_run_is_safe", "resync-interrupted-mixed-state", in,
				fmt.Sprintf("document is neither in its old-function state nor in the new function's: channels %v grants %v %v; new function gives %v %v %v", d.Ch, d.Access, d.Roles, wch, wacc, wrl))
		}
		// every visited live document carries the new function's verdict (complete_after_success, per visit)
		if visited[d.ID] && !d.Del && !isNew {
			fl.Fail("resync_complete_after_success", "resync-visited-document-stale", in,
				fmt.Sprintf("visited live document has channels %v grants %v %v; the new function gives %v %v %v", d.Ch, d.Access, d.Roles, wch, wacc, wrl))
		}
		if how == 1 && inSel[d.ID/100] && !isNew {
			if d.Del {
				// stale_after_resync_iff_tombstone_grant: the known finding, exactly
				fl.Fail("resync_tombstone_eq_fresh", "resync-tombstone-not-revisited", in,
					fmt.Sprintf("tombstoned document keeps channels %v / grants %v %v after a completed run; the new function gives %v / %v %v", d.Ch, d.Access, d.Roles, wch, wacc, wrl))
			} else {
				fl.Fail("resync_complete_after_success", "resync-completed-live-document-stale", in,
					fmt.Sprintf("live document is stale after a run that reported completed: channels %v grants %v %v; the new function gives %v %v %v", d.Ch, d.Access, d.Roles, wch, wacc, wrl))
			}
		}
		// regenerate_sequences: a visited live document got a fresh sequence, recorded in recent_sequences
		if s.Regen && visited[d.ID] && !d.Del && !p.Del {
			fresh := d.Seq > p.Seq
			for _, q := range pre {
				if q.Seq >= d.Seq {
					fresh = false
				}
			}
			inRecent := false
			for _, x := range d.Recent {
				if x == d.Seq {
					inRecent = true
				}
			}
			if !fresh || !inRecent {
				fl.Fail("regen_run_sequences", "resync-regen-sequences", in, fmt.Sprintf("sequence %d -> %d, recent %v", p.Seq, d.Seq, d.Recent))
			}
		}
		if !s.Regen && (d.Seq != p.Seq || !c18EqU(d.Recent, p.Recent)) {
			fl.Fail("regen_run_sequences", "resync-sequence-changed", in, "sequence changed without regenerate_sequences")
		}
	}
	if s.Regen {
		seen := map[uint64]int{}
		for _, d := range post {
			if !d.Del {
				if o, dup := seen[d.Seq]; dup {
					fl.Fail("regen_run_sequences", "resync-regen-sequences", map[string]any{"case": desc}, fmt.Sprintf("sequence %d on documents d%d and d%d", d.Seq, o, d.ID))
				}
				seen[d.Seq] = d.ID
			}
		}
	}
}

// after a completed run: each user's effective channels / roles are what the documents AS THEY ARE NOW grant
// (admin grants plus the access() / role() grants stored on the documents, through the roles held)
func c18RUserMonitor(e *c18REnv, fl *c18Failer, desc map[string]any, c c18RCase, ids []int, uo []c18UserObs, dirty bool) {
	docs, _ := e.observeDocs(ids)
	grant := map[string]map[string]bool{} // principal ("u1" / "role:r0") -> channels
	roleOf := map[string]map[string]bool{}
	add := func(m map[string]map[string]bool, k, v string) {
		if m[k] == nil {
			m[k] = map[string]bool{}
		}
		m[k][v] = true
	}
	for _, d := range docs {
		for _, g := range d.Access {
			p := strings.SplitN(g, ">", 2)
			add(grant, p[0], p[1])
		}
		for _, g := range d.Roles {
			p := strings.SplitN(g, ">", 2)
			add(roleOf, p[0], p[1])
		}
	}
	roleCh := map[string][]string{}
	for _, r := range c.Roles {
		roleCh[r.Name] = r.Ch
	}
	for i, u := range c.Users {
		want := map[string]bool{}
		for _, ch := range u.Ch {
			want[ch] = true
		}
		for ch := range grant[u.Name] {
			want[ch] = true
		}
		roles := map[string]bool{}
		for _, r := range u.Roles {
			roles[r] = true
		}
		for r := range roleOf[u.Name] {
			roles[r] = true
		}
		for r := range roles {
			if _, exists := roleCh[r]; !exists {
				continue
			}
			for _, ch := range roleCh[r] {
				want[ch] = true
			}
			for ch := range grant["role:"+r] {
				want[ch] = true
			}
		}
		var w []string
		for ch := range want {
			w = append(w, ch)
		}
		sort.Strings(w)
		if !c18Eq(uo[i].Ch, w) {
			sig := "resync-completed-principals-stale"
			if dirty {
				// a resync write was followed by no invalidation, and the run changed its id on the way (reset / changed
				// collection set / crash): the finding recorded as C18_Refuted.resync_reset_after_interrupted_run_principals_stale
				sig = "resync-reset-after-interrupted-run-principals-stale"
			}
			fl.Fail("resync_principals_after_completed_run", sig, map[string]any{"case": desc, "user": u.Name, "effective": uo[i].Ch, "granted_now": w},
				fmt.Sprintf("after a run that reported completed user %s has channels %v; the documents as they are now grant %v", u.Name, uo[i].Ch, w))
		}
	}
}

// ---------- generators and streams ----------
func c18RShift(ws []c18W, col int) []c18W { // the documents of a single-collection corpus moved into collection col
	out := make([]c18W, len(ws))
	for i, w := range ws {
		w.Doc = col*100 + w.Doc%100
		out[i] = w
	}
	return out
}
func c18RW(doc int, hist []string, b c18B, del bool) *c18W {
	w := c18W1(doc, hist, b, del)
	return &w
}

func c18RGenCase(r *vRand, ncols int, adversarial bool) c18RCase {
	c := c18RCase{NCols: ncols}
	for i := 0; i < ncols; i++ {
		c.F1 = append(c.F1, c18GenF(r, adversarial, adversarial))
		c.F2 = append(c.F2, c18GenF(r, adversarial, adversarial))
	}
	c.Users, c.Roles = c18GenPrincipals(r)
	type dstate struct {
		ws []c18W // the planned history of the document, in order
		n  int    // how many have been written
	}
	var docs []*dstate
	for col := 0; col < ncols; col++ {
		nd := 2 + r.Intn(4)
		for d := 0; d < nd; d++ {
			id := col*100 + d
			steps := 1 + r.Intn(4)
			ws := c18GenDoc(r, id, steps, adversarial, func() bool { return false })
			docs = append(docs, &dstate{ws: ws})
		}
	}
	// under the old functions: a prefix of every document's history, the documents interleaved at random
	target := map[*dstate]int{}
	for _, d := range docs {
		target[d] = 1 + r.Intn(len(d.ws))
		if r.Chance(15) {
			target[d] = 0 // the document is created after the switch
		}
	}
	for {
		var cand []*dstate
		for _, d := range docs {
			if d.n < target[d] {
				cand = append(cand, d)
			}
		}
		if len(cand) == 0 {
			break
		}
		d := cand[r.Intn(len(cand))]
		c.H1 = append(c.H1, d.ws[d.n])
		d.n++
	}
	nextWrite := func() *c18W {
		var cand []*dstate
		for _, d := range docs {
			if d.n < len(d.ws) {
				cand = append(cand, d)
			}
		}
		if len(cand) == 0 {
			return nil
		}
		d := cand[r.Intn(len(cand))]
		w := d.ws[d.n]
		d.n++
		if ncols == 1 && r.Chance(25) {
			w.LoadBefore = []string{fmt.Sprintf("u%d", r.Intn(3))}
		}
		return &w
	}
	allCols := func() []int {
		if ncols == 1 || r.Chance(55) {
			return nil
		}
		if r.Chance(50) {
			return []int{r.Intn(ncols)}
		}
		return []int{0, 1}
	}
	regen := r.Chance(30)
	nseg := 1 + r.Intn(3)
	cols := allCols()
	if ncols == 1 && r.Chance(50) {
		c.Steps = append(c.Steps, c18RStep{Kind: "users"}) // every user loaded (computed sets stored) before the run
	}
	for s := 0; s < nseg; s++ {
		last := s == nseg-1
		st := c18RStep{Kind: "start", Regen: regen, Cols: cols}
		if s > 0 {
			st.Reset = r.Chance(20)
			if r.Chance(15) {
				st.Regen = !regen
			}
			if r.Chance(15) {
				st.Cols = allCols()
			}
		}
		if !last {
			st.Stop = map[int]int{}
			for i := 0; i < ncols; i++ {
				st.Stop[i] = []int{1, 300, 500, 700, 1000}[r.Intn(5)]
			}
			st.Crash = r.Chance(25)
			st.Continue = !st.Crash && r.Chance(20) // only held for the writes below, then released: completes
			for k := r.Intn(3); k > 0; k-- {
				if w := nextWrite(); w != nil {
					w.LoadBefore = nil
					st.During = append(st.During, *w)
				}
			}
		}
		c.Steps = append(c.Steps, st)
		if !last {
			for k := r.Intn(3); k > 0; k-- {
				if w := nextWrite(); w != nil {
					c.Steps = append(c.Steps, c18RStep{Kind: "write", W: w})
				}
			}
			if ncols == 1 && r.Chance(30) {
				c.Steps = append(c.Steps, c18RStep{Kind: "users"})
			}
		}
	}
	c.Steps = append(c.Steps, c18RStep{Kind: "users"})
	if r.Chance(40) {
		// and once more: nothing may change
		c.Steps = append(c.Steps, c18RStep{Kind: "start", Cols: cols}, c18RStep{Kind: "users"})
	}
	return c
}

func c18RunStreams(t *testing.T, rec *vRecorder, fl *c18Failer, rnd *vRand) {
	users := []c18User{{Name: "u0", Ch: []string{"A"}, Roles: []string{"r1"}}, {Name: "u1"}, {Name: "u2", Ch: []string{"B"}}}
	roles := []c18Role{{Name: "r0", Ch: []string{"E"}}, {Name: "r1", Ch: []string{"F"}}}
	fa := c18F{CA: true, G: 1, R: 1}
	fb := c18F{CB: true, G: 2, R: 2}
	fc := c18F{CA: true, CB: true, RG: 1}
	one := func(f1, f2 c18F, steps ...c18RStep) c18RCase {
		return c18RCase{NCols: 1, F1: []c18F{f1}, F2: []c18F{f2}, H1: c18ShapeCorpus(), Users: users, Roles: roles, Steps: steps}
	}
	start := func(reset, regen bool, cols []int, stop map[int]int) c18RStep {
		return c18RStep{Kind: "start", Reset: reset, Regen: regen, Cols: cols, Stop: stop}
	}
	us := c18RStep{Kind: "users"}
	half, all1 := map[int]int{0: 500}, map[int]int{0: 1000}

	// ---- (r1) interrupt: Start / Stop / Start on the shape corpus ----
	// stop half way, resume, complete
	c18RRun(t, rec, fl, "interrupt", one(fa, fb, start(false, false, nil, half), us, start(false, false, nil, nil), us, start(false, false, nil, nil), us))
	// stop half way, writes between Stop and Start (a new document, a new revision of a visited and of an unvisited document, a deletion), resume
	c18RRun(t, rec, fl, "interrupt", one(fa, fb, start(false, false, nil, half),
		c18RStep{Kind: "write", W: c18RW(6, []string{"1-aaa"}, c18B{A: "A", B: "D", U: "u1", GA: "E", GB: "F"}, false)},
		c18RStep{Kind: "write", W: c18RW(2, []string{"2-bbb", "1-aaa"}, c18B{A: "C", B: "D", U: "u2", GA: "C", GB: "D"}, false)},
		c18RStep{Kind: "write", W: c18RW(0, []string{"2-ccc", "1-ccc"}, c18B{A: "B", B: "C"}, false)},
		c18RStep{Kind: "write", W: c18RW(4, []string{"2-aaa", "1-aaa"}, c18B{}, true)},
		us, start(false, false, nil, nil), us))
	// stop after one document, reset, stop half way, resume
	c18RRun(t, rec, fl, "interrupt", one(fb, fa, start(false, false, nil, map[int]int{0: 1}), start(true, false, nil, half), start(false, false, nil, nil), us))
	// writes while the run is held (one to a document already visited, one to a document still queued: its ResyncDocument retries on the CAS)
	c18RRun(t, rec, fl, "interrupt", one(fa, fc, c18RStep{Kind: "start", Stop: map[int]int{0: 300}, During: []c18W{
		c18W1(0, []string{"2-ddd", "1-ccc"}, c18B{A: "D", B: "A", U: "u1", GA: "C", GB: "D"}, false),
		c18W1(5, []string{"3-aaa", "2-aaa", "1-aaa"}, c18B{A: "B", B: "B", TR: "r0", GA: "E"}, false),
		c18W1(7, []string{"1-aaa"}, c18B{A: "A", B: "B"}, false)}},
		us, start(false, false, nil, nil), us))
	// the process dies half way: the checkpoint and the counter of the segment are lost, the restarted run starts over
	c18RRun(t, rec, fl, "interrupt", one(fa, fb, c18RStep{Kind: "start", Stop: half, Crash: true}, start(false, false, nil, nil), us))
	// stop half way, the process dies in the resumed segment, resume again
	c18RRun(t, rec, fl, "interrupt", one(fa, fb, start(false, false, nil, map[int]int{0: 300}), c18RStep{Kind: "start", Stop: half, Crash: true}, start(false, false, nil, nil), us))
	// every document processed, then stopped; the restart with `reset` finds nothing to change
	c18RRun(t, rec, fl, "interrupt", one(fa, fb, us, start(false, false, nil, all1), start(true, false, nil, nil), us))
	// the same without `reset`: the resumed run restores the counter of the stopped one
	c18RRun(t, rec, fl, "interrupt", one(fa, fb, us, start(false, false, nil, all1), start(false, false, nil, nil), us))

	// ---- (r2) regenerate_sequences across an interruption; the principals' sequences ----
	c18RRun(t, rec, fl, "regen", one(fa, fb, start(false, true, nil, half), start(false, true, nil, nil), us))
	c18RRun(t, rec, fl, "regen", one(fa, fa, start(false, true, nil, map[int]int{0: 300}), c18RStep{Kind: "write", W: c18RW(6, []string{"1-aaa"}, c18B{A: "A"}, false)}, start(false, true, nil, nil), us))
	c18RRun(t, rec, fl, "regen", one(fa, fb, start(false, true, nil, nil), us, start(false, true, nil, half), start(false, false, nil, nil), us))

	// held, a queued document rewritten meanwhile (its ResyncDocument loses the CAS on the event's copy and runs again), released: completes
	c18RRun(t, rec, fl, "regen", one(fa, fb, c18RStep{Kind: "start", Regen: true, Stop: map[int]int{0: 300}, Continue: true, During: []c18W{
		c18W1(5, []string{"3-aaa", "2-aaa", "1-aaa"}, c18B{A: "B", B: "B", TR: "r0", GA: "E"}, false),
		c18W1(4, []string{"2-ccc", "1-aaa"}, c18B{A: "C", B: "A", U: "u0", GA: "C", GB: "D"}, false)}}, us))

	// ---- (r3) collections: two collections with different functions, the `collections` restriction ----
	h2 := append(c18RShift(c18ShapeCorpus(), 0), c18RShift(c18ShapeCorpus(), 1)...)
	two := func(steps ...c18RStep) c18RCase {
		return c18RCase{NCols: 2, F1: []c18F{fa, fb}, F2: []c18F{fb, fc}, H1: h2, Users: users, Roles: roles, Steps: steps}
	}
	c18RRun(t, rec, fl, "collections", two(start(false, false, []int{0}, nil), start(false, false, []int{1}, nil), start(false, false, nil, nil)))
	c18RRun(t, rec, fl, "collections", two(start(false, false, []int{1}, map[int]int{1: 500}), start(false, false, []int{1}, nil), start(false, true, []int{0}, nil)))
	// the collection set changes between Stop and Start: the run starts over with a new id
	c18RRun(t, rec, fl, "collections", two(start(false, false, []int{0}, map[int]int{0: 500}), start(false, false, nil, map[int]int{0: 300, 1: 700}),
		c18RStep{Kind: "write", W: c18RW(103, []string{"3-aaa", "2-aaa", "1-aaa"}, c18B{A: "A", B: "C"}, false)}, start(false, false, nil, nil)))
	c18RRun(t, rec, fl, "collections", two(start(false, true, nil, map[int]int{0: 700, 1: 300}), start(false, true, nil, nil), start(false, true, []int{1}, nil)))

	// ---- (r4) random ----
	n := vBudget(14, 300)
	for i := 0; i < n; i++ {
		c18RRun(t, rec, fl, "run-random", c18RGenCase(rnd, 1+i%2, i%4 == 3))
	}
}
