//go:build verif

package db

import (
	"encoding/json"
	"fmt"
	"sort"
	"strconv"
	"strings"
	"testing"

	"github.com/couchbase/sync_gateway/base"
)

// C04, deepening round: history queries (getHistory / getParent / isLeaf / findAncestorFromSet / ContainsCycles),
// pruning twice and pruning-then-adding, MarshalJSON / UnmarshalJSON with every persisted field at byte level,
// UnmarshalJSON on malformed revTreeLists (error / panic / silent acceptance) and on hand-written JSON text.

// ---- Coq terms for the tree with all persisted fields ----
func c04ChanList(s base.Set) []string {
	out := make([]string, 0, len(s))
	for k := range s {
		out = append(out, k)
	}
	sort.Strings(out)
	return out
}
func c04StrsT(l []string) string {
	parts := make([]string, len(l))
	for i, s := range l {
		parts[i] = c04BytesT([]byte(s))
	}
	return cqList(parts)
}
func c04XRevT(info *RevInfo) string {
	body := "None"
	if info.Body != nil {
		body = "(Some " + c04BytesT(info.Body) + ")"
	}
	return "(X " + c04RevT(c04Rev{ID: info.ID, Parent: info.Parent, Deleted: info.Deleted}) + " (XI " + body + " " + c04BytesT([]byte(info.BodyKey)) + " " +
		c04StrsT(c04ChanList(info.Channels)) + " " + cqBool(info.HasAttachments) + "))"
}
func c04XTreeT(t RevTree, order []string) string {
	parts := make([]string, len(order))
	for i, id := range order {
		parts[i] = c04XRevT(t[id])
	}
	return cqList(parts)
}
func c04SortedIDs(t RevTree) []string {
	ids := make([]string, 0, len(t))
	for id := range t {
		ids = append(ids, id)
	}
	sort.Strings(ids)
	return ids
}
// a byte string as a Coq term: printable runs as string literals (parsed far faster than lists of numerals)
func c04BytesT(b []byte) string {
	if len(b) == 0 {
		return "[]"
	}
	var parts []string
	i := 0
	for i < len(b) {
		j := i
		if b[i] >= 32 && b[i] <= 126 {
			for j < len(b) && b[j] >= 32 && b[j] <= 126 {
				j++
			}
			parts = append(parts, `unB "`+strings.ReplaceAll(string(b[i:j]), `"`, `""`)+`"%string`)
		} else {
			for j < len(b) && !(b[j] >= 32 && b[j] <= 126) {
				j++
			}
			parts = append(parts, cqBytes(b[i:j]))
		}
		i = j
	}
	return "(" + strings.Join(parts, " ++ ") + ")"
}

func c04ZList(v []int) string {
	parts := make([]string, len(v))
	for i, x := range v {
		parts[i] = "(" + strconv.Itoa(x) + ")%Z"
	}
	return cqList(parts)
}

type c04XSnap struct {
	ID, Parent, Body, Key string
	Deleted, Att, HasBody bool
	Chans                 []string
}

func c04XSnapshot(t RevTree) []c04XSnap {
	var out []c04XSnap
	for _, id := range c04SortedIDs(t) {
		i := t[id]
		out = append(out, c04XSnap{ID: i.ID, Parent: i.Parent, Body: string(i.Body), HasBody: i.Body != nil, Key: i.BodyKey, Deleted: i.Deleted, Att: i.HasAttachments, Chans: c04ChanList(i.Channels)})
	}
	return out
}

// UnmarshalJSON with the runtime panic (index out of range) turned into an outcome
func c04Decode(raw []byte) (kind string, tree RevTree) {
	defer func() {
		if r := recover(); r != nil {
			kind, tree = "DPanic", nil
		}
	}()
	var t RevTree
	if err := (&t).UnmarshalJSON(raw); err != nil {
		return "DErr", nil
	}
	return "DOk", t
}
func c04OutcomeT(kind string, t RevTree) string {
	if kind == "DOk" {
		return "(DOk " + c04XTreeT(t, c04SortedIDs(t)) + ")"
	}
	return kind
}

func c04SortedKeys[V any](m map[string]V) []string {
	ks := make([]string, 0, len(m))
	for k := range m {
		ks = append(ks, k)
	}
	sort.Strings(ks)
	return ks
}

// the revTreeList as a Coq [rtl] (revision ids must be canonical "<gen>-<digest>")
func c04RtlT(r *revTreeList) string {
	bo := "None"
	if len(r.Bodies_Old) > 0 { // an empty slice is dropped by omitempty: the decoder then sees nil
		bo = "(Some " + c04StrsT(r.Bodies_Old) + ")"
	}
	bm := "None"
	if r.BodyMap != nil {
		var ps []string
		for _, k := range c04SortedKeys(r.BodyMap) {
			ps = append(ps, "("+cqStr(k)+", "+c04BytesT([]byte(r.BodyMap[k]))+")")
		}
		bm = "(Some " + cqList(ps) + ")"
	}
	var km []string
	for _, k := range c04SortedKeys(r.BodyKeyMap) {
		km = append(km, "("+cqStr(k)+", "+c04BytesT([]byte(r.BodyKeyMap[k]))+")")
	}
	var co []string
	for _, s := range r.Channels_Old {
		co = append(co, c04StrsT(c04ChanList(s)))
	}
	var cm []string
	for _, k := range c04SortedKeys(r.ChannelsMap) {
		cm = append(cm, "("+cqStr(k)+", "+c04StrsT(c04ChanList(r.ChannelsMap[k]))+")")
	}
	return "(RTL " + c04IDsT(r.Revs) + " " + c04ZList(r.Parents) + " " + c04ZList(r.Deleted) + " " + bo + " " + bm + " " + cqList(km) + " " +
		cqList(co) + " " + cqList(cm) + " " + c04ZList(r.HasAttachments) + ")"
}

func c04Acyclic(t RevTree) bool {
	for id := range t {
		seen := map[string]bool{}
		for cur := id; cur != ""; {
			if seen[cur] {
				return false
			}
			seen[cur] = true
			info := t[cur]
			if info == nil {
				break
			}
			cur = info.Parent
		}
	}
	return true
}

var c04BodyAlphabet = []string{`{"k":"v"}`, `{"q":"a\"b\\c"}`, "{\"lt\":\"<&>\"}", "{\"nl\":\"\\n\"}", "line1\nline2\ttab", "ctl\x01\x1f\x7f", "sl/ash", `{}`, "plain", "\b\f\r"}
var c04ChanAlphabet = []string{"A", "B", "chan1", "a\"b", "x<y", "*", "!"}

// decorate a tree with bodies / body keys / channels / attachment flags
func c04Decorate(rnd *vRand, t RevTree) {
	leaves := map[string]bool{}
	for _, id := range t.GetLeaves() {
		leaves[id] = true
	}
	for _, id := range c04SortedIDs(t) {
		info := t[id]
		switch {
		case rnd.Chance(25):
			info.Body = []byte(c04BodyAlphabet[rnd.Intn(len(c04BodyAlphabet))])
		case rnd.Chance(8):
			info.Body = []byte{}
		}
		if rnd.Chance(20) {
			info.BodyKey = "_sync:rb:" + id + ":" + strconv.Itoa(rnd.Intn(100))
		}
		if leaves[id] && rnd.Chance(40) || rnd.Chance(5) {
			info.Channels = base.Set{}
			for k := 0; k < 1+rnd.Intn(3); k++ {
				info.Channels[c04ChanAlphabet[rnd.Intn(len(c04ChanAlphabet))]] = struct{}{}
			}
		}
		info.HasAttachments = rnd.Chance(20)
	}
}

// what a store + reload is specified to do to a record (theorem C04_struct_roundtrip_any_listing)
func c04Normalise(t RevTree) []c04XSnap {
	snap := c04XSnapshot(t)
	for i := range snap {
		if snap[i].Parent != "" && t[snap[i].Parent] == nil {
			snap[i].Parent = ""
		}
		if snap[i].Key != "" || snap[i].Body == "" {
			snap[i].Body, snap[i].HasBody = "", false
		}
	}
	return snap
}

func c04Deep(t *testing.T, rec *vRecorder, m *c04Mon) {
	rnd := vNewRand(vSeed() ^ 0xC04D)
	ctx := m.ctx
	digests := []string{"a", "b", "ab", "b0", "", "ff", "fe", "a0"}
	absent := "9-zz"

	mkTree := func() (RevTree, []c04Rev) {
		for {
			n := 2 + rnd.Intn(7)
			if rnd.Chance(20) {
				n = 8 + rnd.Intn(4)
			}
			src := c04RandForest(rnd, n, digests, 30, rnd.Chance(30))
			var valid []c04Rev
			for _, i := range c04TopoOrder(rnd, src) {
				valid = append(valid, src[i])
			}
			if tree, ok := c04Build(ctx, valid); ok {
				return tree, c04Snapshot(tree)
			}
		}
	}

	// =========== (6) history queries ===========
	nHist := vBudget(100, 1600)
	for it := 0; it < nHist; it++ {
		tree, _ := mkTree()
		stream, shape := "random", "wf"
		extraIDs := []string{absent}
		switch rnd.Intn(6) {
		case 0: // pruned
			tree.pruneRevisions(ctx, uint32(1+rnd.Intn(3)), "")
			shape = "pruned"
		case 1: // a dangling parent link (a non-leaf removed without snipping)
			ids := c04SortedIDs(tree)
			victim := ids[rnd.Intn(len(ids))]
			if !tree.isLeaf(victim) {
				delete(tree, victim)
				extraIDs = append(extraIDs, victim)
				stream, shape = "adversarial", "dangling"
			}
		case 2: // a cycle: some node's parent link is redirected to one of its descendants (or to itself)
			ids := c04SortedIDs(tree)
			d := ids[rnd.Intn(len(ids))]
			h, _ := tree.getHistory(d)
			a := h[rnd.Intn(len(h))]
			tree[a].Parent = d
			stream, shape = "adversarial", "cyclic"
		}
		snap := c04Snapshot(tree)
		ids := append(c04SortedIDs(tree), extraIDs...)
		acyclic := c04Acyclic(tree)
		var qs []string
		for _, id := range ids {
			h, err := tree.getHistory(id)
			par := tree.getParent(id)
			lf := tree.isLeaf(id)
			qs = append(qs, "("+c04ID(id)+", ("+c04IDsT(h)+", "+cqBool(err != nil)+"), "+c04Opt(par)+", "+cqBool(lf)+")")
			if err != nil {
				rec.Err("history_cycle_error")
			}
			// monitors (history_is_path, get_parent_is_second) on trees without cycles
			if acyclic && tree[id] != nil {
				okPath := err == nil && len(h) > 0 && h[0] == id && len(h) <= len(tree)
				for k := 0; okPath && k < len(h); k++ {
					info := tree[h[k]]
					switch {
					case info == nil:
						okPath = false
					case k+1 < len(h):
						gc, _ := c04Split(h[k])
						gp, _ := c04Split(h[k+1])
						okPath = info.Parent == h[k+1] && (shape == "cyclic" || gp < gc)
					default:
						okPath = info.Parent == "" || tree[info.Parent] == nil
					}
				}
				if !okPath {
					c04Fail(rec, "history_is_path", "history-not-a-parent-path", map[string]any{"tree": snap, "rev": id}, fmt.Sprintf("getHistory=%v err=%v", h, err))
				}
				want := ""
				if len(h) > 1 {
					want = h[1]
				} else if tree[id].Parent != "" {
					want = tree[id].Parent // dangling link
				}
				if par != want {
					c04Fail(rec, "get_parent_is_second", "get-parent-not-second-of-history", map[string]any{"tree": snap, "rev": id}, fmt.Sprintf("getParent=%q history=%v", par, h))
				}
			}
		}
		cyc := tree.ContainsCycles()
		if shape != "cyclic" && cyc {
			c04Fail(rec, "no_cycles_reported", "cycle-reported-on-acyclic-tree", map[string]any{"tree": snap}, "ContainsCycles() = true")
		}
		var fa []string
		if acyclic {
			for k := 0; k < 3; k++ {
				start := ids[rnd.Intn(len(ids))]
				var set []string
				for j := 0; j < rnd.Intn(4); j++ {
					set = append(set, ids[rnd.Intn(len(ids))])
				}
				got := tree.findAncestorFromSet(start, set)
				fa = append(fa, "("+c04ID(start)+", "+c04IDsT(set)+", "+c04Opt(got)+")")
				// find_ancestor_sound_complete: first element of the walk (history, or the id itself / a dangling parent) in the set
				walk := []string{start}
				if tree[start] != nil {
					walk, _ = tree.getHistory(start)
					if last := tree[walk[len(walk)-1]]; last.Parent != "" {
						walk = append(walk, last.Parent)
					}
				}
				want := ""
				for _, x := range walk {
					hit := false
					for _, a := range set {
						hit = hit || a == x
					}
					if hit {
						want = x
						break
					}
				}
				if got != want {
					c04Fail(rec, "find_ancestor_sound_complete", "find-ancestor-not-first-of-history", map[string]any{"tree": snap, "rev": start, "set": set}, fmt.Sprintf("findAncestorFromSet=%q, first of %v in the set is %q", got, walk, want))
				}
			}
		}
		rec.Case(stream, "history", "CHist "+c04TreeT(snap)+" "+cqList(qs)+" "+cqBool(cyc)+" "+cqList(fa),
			map[string]any{"tree": snap, "shape": shape, "contains_cycles": cyc}, shape != "wf" || len(snap) > 3)
		rec.Size("history_" + shape)
	}

	// =========== (7) pruning twice; pruning, then adding a child ===========
	nPr := vBudget(120, 2500)
	for it := 0; it < nPr; it++ {
		tree, before := mkTree()
		depth := uint32(1 + rnd.Intn(4))
		pt := tree.copy()
		pruned, _ := pt.pruneRevisions(ctx, depth, "")
		res := c04Snapshot(pt)
		pt2 := pt.copy()
		pruned2, _ := pt2.pruneRevisions(ctx, depth, "")
		res2 := c04Snapshot(pt2)
		input := map[string]any{"tree": before, "max_depth": depth}
		if pruned2 != 0 || c04Key(res2) != c04Key(res) {
			c04Fail(rec, "prune_idempotent", "second-prune-changes-tree", input, fmt.Sprintf("second pruneRevisions removed %d: %v -> %v", pruned2, res, res2))
		}
		// a child: of a leaf of the pruned tree (mostly), of some other node of the unpruned tree, or a duplicate id
		ptLeaves := pt.GetLeaves()
		sort.Strings(ptLeaves)
		parent := ptLeaves[rnd.Intn(len(ptLeaves))]
		leafParent := true
		if rnd.Chance(20) {
			parent = before[rnd.Intn(len(before))].ID
			leafParent = pt.isLeaf(parent)
		}
		pg, _ := c04Split(parent)
		child := c04Rev{ID: strconv.Itoa(pg+1+rnd.Intn(2)) + "-" + []string{"c", "zz", "0"}[rnd.Intn(3)] + "n", Parent: parent, Deleted: rnd.Chance(40)}
		if rnd.Chance(7) {
			child.ID = before[rnd.Intn(len(before))].ID
			leafParent = false
		}
		u1, u2 := tree.copy(), pt.copy()
		err1 := u1.addRevision(ctx, "doc", RevInfo{ID: child.ID, Parent: child.Parent, Deleted: child.Deleted})
		err2 := u2.addRevision(ctx, "doc", RevInfo{ID: child.ID, Parent: child.Parent, Deleted: child.Deleted})
		w1, _, cf1 := u1.winningRevision(ctx)
		w2, _, cf2 := u2.winningRevision(ctx)
		if leafParent {
			if err1 != nil || err2 != nil {
				c04Fail(rec, "prune_then_add_consistent", "child-of-leaf-rejected", map[string]any{"tree": before, "max_depth": depth, "child": child}, fmt.Sprintf("unpruned: %v, pruned: %v", err1, err2))
			} else if w1 != w2 || cf1 != cf2 {
				c04Fail(rec, "prune_then_add_consistent", "winner-differs-after-prune-then-add", map[string]any{"tree": before, "max_depth": depth, "child": child}, fmt.Sprintf("winner %q (conflict %v) when added before pruning, %q (conflict %v) after", w1, cf1, w2, cf2))
			}
		}
		var hs []string
		for _, l := range ptLeaves {
			hb, _ := tree.getHistory(l)
			ha, _ := pt.getHistory(l)
			hs = append(hs, "("+c04ID(l)+", "+c04IDsT(hb)+", "+c04IDsT(ha)+")")
			prefix := len(ha) <= len(hb)
			for k := 0; prefix && k < len(ha); k++ {
				prefix = ha[k] == hb[k]
			}
			if !prefix {
				c04Fail(rec, "history_after_prune", "pruned-history-not-a-prefix", map[string]any{"tree": before, "max_depth": depth, "leaf": l}, fmt.Sprintf("before %v after %v", hb, ha))
			}
		}
		rec.Case("random", "prune_twice_add", "CPruneX "+c04TreeT(before)+" "+cqN(uint64(depth))+" "+c04TreeT(res)+" "+cqI(pruned2)+" "+cqBool(c04Key(res2) == c04Key(res))+" "+
			c04RevT(child)+" "+cqBool(err1 == nil)+" "+cqBool(err2 == nil)+" "+c04Opt(w1)+" "+c04Opt(w2)+" "+cqList(hs),
			map[string]any{"tree": before, "max_depth": depth, "pruned": pruned, "child": child, "w1": w1, "w2": w2}, pruned > 0)
	}

	// =========== (8) MarshalJSON / UnmarshalJSON, all fields, byte level ===========
	nCodec := vBudget(130, 2500)
	for it := 0; it < nCodec; it++ {
		tree, _ := mkTree()
		shape := "wf"
		switch rnd.Intn(5) {
		case 0:
			tree.pruneRevisions(ctx, uint32(1+rnd.Intn(3)), "")
			shape = "pruned"
		case 1:
			ids := c04SortedIDs(tree)
			victim := ids[rnd.Intn(len(ids))]
			if !tree.isLeaf(victim) {
				delete(tree, victim)
				shape = "dangling"
			}
		}
		c04Decorate(rnd, tree)
		enc, err := tree.MarshalJSON()
		if err != nil {
			c04Fail(rec, "revtree_json_roundtrip", "marshal-error", map[string]any{"tree": c04XSnapshot(tree)}, err.Error())
			continue
		}
		var rep struct {
			Revs []string `json:"revs"`
		}
		_ = json.Unmarshal(enc, &rep)
		kind, back := c04Decode(enc)
		input := map[string]any{"tree": c04XSnapshot(tree), "json": string(enc)}
		if kind != "DOk" || len(rep.Revs) != len(tree) {
			c04Fail(rec, "revtree_json_roundtrip", "unmarshal-of-own-encoding-failed", input, kind)
			continue
		}
		rec.Case("random", "codec_bytes", "CXCodec "+c04XTreeT(tree, rep.Revs)+" "+c04BytesT(enc)+" "+c04XTreeT(back, c04SortedIDs(back)),
			input, len(tree) > 2)
		rec.Size("codec_" + shape)
		want, got := c04Normalise(tree), c04XSnapshot(back)
		if c04Key(want) != c04Key(got) {
			sig := "reload-changed-field"
			if len(want) == len(got) {
				for i := range want {
					a, b := want[i], got[i]
					switch {
					case a.Parent != b.Parent || a.Deleted != b.Deleted || a.ID != b.ID:
						sig = "reload-changed-tree"
					case a.Body != b.Body || a.HasBody != b.HasBody:
						sig = "reload-changed-body"
					case a.Key != b.Key:
						sig = "reload-changed-body-key"
					case c04Key(a.Chans) != c04Key(b.Chans):
						sig = "reload-changed-channels"
					case a.Att != b.Att:
						sig = "reload-changed-has-attachments"
					default:
						continue
					}
					break
				}
			}
			c04Fail(rec, "revtree_json_roundtrip", sig, input, fmt.Sprintf("expected %v, decoded %v", want, got))
		}
		// encode_deterministic_up_to_order: another iteration order, same tree after decoding
		enc2, _ := tree.copy().MarshalJSON()
		if k2, back2 := c04Decode(enc2); k2 != "DOk" || c04Key(c04XSnapshot(back2)) != c04Key(got) {
			c04Fail(rec, "encode_deterministic_up_to_order", "encodings-decode-differently", map[string]any{"json1": string(enc), "json2": string(enc2)}, "two encodings of one tree decode to different trees")
		}
	}

	// =========== (9) UnmarshalJSON on hand-built revTreeLists: well-formed and every malformed shape ===========
	nDec := vBudget(200, 3500)
	for it := 0; it < nDec; it++ {
		tree, _ := mkTree()
		c04Decorate(rnd, tree)
		ids := c04SortedIDs(tree)
		perm := c04Shuffle(rnd, len(ids))
		pos := map[string]int{}
		rl := &revTreeList{Revs: make([]string, len(ids)), Parents: make([]int, len(ids))}
		for k, idx := range perm {
			rl.Revs[k] = ids[idx]
			pos[ids[idx]] = k
		}
		for k, id := range rl.Revs {
			info := tree[id]
			rl.Parents[k] = -1
			if info.Parent != "" {
				rl.Parents[k] = pos[info.Parent]
			}
			ks := strconv.Itoa(k)
			if info.Deleted {
				rl.Deleted = append(rl.Deleted, k)
			}
			if info.HasAttachments {
				rl.HasAttachments = append(rl.HasAttachments, k)
			}
			if info.BodyKey != "" {
				if rl.BodyKeyMap == nil {
					rl.BodyKeyMap = map[string]string{}
				}
				rl.BodyKeyMap[ks] = info.BodyKey
			} else if info.Body != nil {
				if rl.BodyMap == nil {
					rl.BodyMap = map[string]string{}
				}
				rl.BodyMap[ks] = string(info.Body)
			}
			if len(info.Channels) > 0 {
				if rl.ChannelsMap == nil {
					rl.ChannelsMap = map[string]base.Set{}
				}
				rl.ChannelsMap[ks] = info.Channels
			}
		}
		n := len(ids)
		shape := "valid"
		stream := "random"
		mut := rnd.Intn(20)
		switch mut {
		case 0, 1: // valid, permuted arrays
		case 2:
			shape = "length-mismatch"
			if rnd.Bool() {
				rl.Parents = rl.Parents[:n-1]
			} else {
				rl.Parents = append(rl.Parents, -1)
			}
		case 3:
			shape = "parent-index-too-large"
			rl.Parents[rnd.Intn(n)] = n + rnd.Intn(3)
		case 4:
			shape = "parent-index-below-minus-one"
			rl.Parents[rnd.Intn(n)] = -2 - rnd.Intn(4)
		case 5:
			shape = "deleted-index-out-of-range"
			rl.Deleted = append(rl.Deleted, []int{n, n + 2, -1, -3}[rnd.Intn(4)])
		case 6:
			shape = "attachment-index-out-of-range"
			rl.HasAttachments = append(rl.HasAttachments, []int{n, n + 5, -1}[rnd.Intn(3)])
		case 7:
			shape = "duplicate-rev-id"
			rl.ChannelsMap = nil
			i, j := rnd.Intn(n), rnd.Intn(n)
			if i != j {
				rl.Revs[i] = rl.Revs[j]
			}
		case 8:
			shape = "self-or-cyclic-parent"
			i := rnd.Intn(n)
			if rnd.Bool() {
				rl.Parents[i] = i
			} else {
				j := rnd.Intn(n)
				rl.Parents[i], rl.Parents[j] = j, i
			}
		case 9:
			shape = "parent-generation-not-lower"
			i, j := rnd.Intn(n), rnd.Intn(n)
			rl.Parents[i] = j
		case 10:
			shape = "channels-map-bad-key"
			rl.ChannelsMap = map[string]base.Set{[]string{"x", "", "1.5", "1_0", "99999", "-1", " 1"}[rnd.Intn(7)]: base.SetOf("A")}
		case 11:
			shape = "channels-map-odd-key"
			rl.ChannelsMap = map[string]base.Set{[]string{"+0", "00", "0", "-0"}[rnd.Intn(4)]: base.SetOf("Z", "A")}
		case 12:
			shape = "both-channel-fields"
			rl.ChannelsMap = map[string]base.Set{"0": base.SetOf("A")}
			rl.Channels_Old = []base.Set{base.SetOf("B")}
		case 13:
			shape = "legacy-bodies"
			rl.BodyMap = nil
			rl.Bodies_Old = make([]string, n)
			for k := range rl.Bodies_Old {
				if rnd.Chance(40) {
					rl.Bodies_Old[k] = c04BodyAlphabet[rnd.Intn(len(c04BodyAlphabet))]
				}
			}
			if rnd.Chance(30) {
				rl.Bodies_Old = rl.Bodies_Old[:rnd.Intn(n)]
				shape = "legacy-bodies-too-short"
			}
		case 14:
			shape = "legacy-channels"
			rl.ChannelsMap = nil
			m := n
			if rnd.Chance(30) {
				m = rnd.Intn(n + 1)
			}
			for k := 0; k < m; k++ {
				switch rnd.Intn(3) {
				case 0:
					rl.Channels_Old = append(rl.Channels_Old, nil)
				case 1:
					rl.Channels_Old = append(rl.Channels_Old, base.SetOf(c04ChanAlphabet[rnd.Intn(len(c04ChanAlphabet))]))
				default:
					rl.Channels_Old = append(rl.Channels_Old, base.SetOf("A", "B"))
				}
			}
			if rnd.Chance(20) {
				rl.Channels_Old = append(rl.Channels_Old, base.SetOf("extra"))
				shape = "legacy-channels-too-long"
			}
		case 15:
			shape = "body-map-odd-key"
			rl.BodyMap = map[string]string{"0" + strconv.Itoa(rnd.Intn(n)): "ignored", strconv.Itoa(rnd.Intn(n)): ""}
		case 16:
			shape = "empty"
			rl = &revTreeList{Revs: []string{}, Parents: []int{}}
		default: // valid
		}
		if shape != "valid" {
			stream = "adversarial"
		}
		raw, err := base.JSONMarshal(rl)
		if err != nil {
			continue
		}
		kind, dec := c04Decode(raw)
		rec.Err("decode_" + kind)
		rec.Size("decode_" + shape)
		rec.Case(stream, "decode_arrays", "CXDecode "+c04RtlT(rl)+" "+c04BytesT(raw)+" "+c04OutcomeT(kind, dec),
			map[string]any{"json": string(raw), "shape": shape, "outcome": kind}, shape != "valid")
		// monitor: a revTreeList produced from a well-formed tree decodes to that tree
		if shape == "valid" {
			if kind != "DOk" || c04Key(c04XSnapshot(dec)) != c04Key(c04Normalise(tree)) {
				c04Fail(rec, "revtree_json_roundtrip", "valid-arrays-not-decoded-to-the-tree", map[string]any{"json": string(raw)}, kind)
			}
		}
	}

	// =========== (10) UnmarshalJSON on hand-written JSON text: member order, white space, escapes ===========
	nTxt := vBudget(70, 1200)
	for it := 0; it < nTxt; it++ {
		tree, _ := mkTree()
		c04Decorate(rnd, tree)
		ids := c04SortedIDs(tree)
		pos := map[string]int{}
		for k, id := range ids {
			pos[id] = k
		}
		ws := func() string {
			if rnd.Chance(35) {
				return []string{" ", "\n", "\t", "\r\n ", "  "}[rnd.Intn(5)]
			}
			return ""
		}
		str := func(s string) string { // a JSON string literal with randomly chosen (valid) escapes
			var b strings.Builder
			b.WriteByte('"')
			for _, c := range []byte(s) {
				switch {
				case c == '"' || c == '\\':
					b.WriteString("\\" + string(c))
				case c < 0x20:
					switch {
					case c == '\n' && rnd.Bool():
						b.WriteString(`\n`)
					case c == '\t' && rnd.Bool():
						b.WriteString(`\t`)
					default:
						b.WriteString(fmt.Sprintf(`\u%04X`, c))
					}
				case c == '/' && rnd.Bool():
					b.WriteString(`\/`)
				case rnd.Chance(10):
					b.WriteString(fmt.Sprintf(`\u00%02x`, c))
				default:
					b.WriteByte(c)
				}
			}
			b.WriteByte('"')
			return b.String()
		}
		list := func(items []string) string { return "[" + ws() + strings.Join(items, ws()+","+ws()) + ws() + "]" }
		obj := func(items []string) string { return "{" + ws() + strings.Join(items, ws()+","+ws()) + ws() + "}" }
		var revs, parents, deleted, att, bm, km, cm []string
		for k, id := range ids {
			info := tree[id]
			revs = append(revs, str(id))
			p := -1
			if info.Parent != "" {
				p = pos[info.Parent]
			}
			parents = append(parents, strconv.Itoa(p))
			if info.Deleted {
				deleted = append(deleted, strconv.Itoa(k))
			}
			if info.HasAttachments {
				att = append(att, strconv.Itoa(k))
			}
			ks := str(strconv.Itoa(k))
			if info.BodyKey != "" {
				km = append(km, ks+ws()+":"+ws()+str(info.BodyKey))
			} else if info.Body != nil {
				bm = append(bm, ks+ws()+":"+ws()+str(string(info.Body)))
			}
			if len(info.Channels) > 0 {
				var cs []string
				for _, c := range c04ChanList(info.Channels) {
					cs = append(cs, str(c))
				}
				cm = append(cm, ks+ws()+":"+ws()+list(cs))
			}
		}
		members := []string{`"revs"` + ws() + ":" + ws() + list(revs), `"parents"` + ws() + ":" + ws() + list(parents)}
		if len(deleted) > 0 || rnd.Chance(20) {
			members = append(members, `"deleted"`+ws()+":"+ws()+list(deleted))
		}
		if len(att) > 0 || rnd.Chance(20) {
			members = append(members, `"hasAttachments"`+ws()+":"+ws()+list(att))
		}
		if len(bm) > 0 || rnd.Chance(20) {
			members = append(members, `"bodymap"`+ws()+":"+ws()+obj(bm))
		}
		if len(km) > 0 || rnd.Chance(20) {
			members = append(members, `"bodyKeyMap"`+ws()+":"+ws()+obj(km))
		}
		if len(cm) > 0 || rnd.Chance(20) {
			members = append(members, `"channelsMap"`+ws()+":"+ws()+obj(cm))
		}
		order := c04Shuffle(rnd, len(members))
		shuffled := make([]string, len(members))
		for k, idx := range order {
			shuffled[k] = members[idx]
		}
		text := ws() + obj(shuffled) + ws()
		kind, dec := c04Decode([]byte(text))
		rec.Case("random", "decode_text", "CXBytes "+c04BytesT([]byte(text))+" "+c04OutcomeT(kind, dec), map[string]any{"json": text, "outcome": kind}, true)
		if kind != "DOk" || c04Key(c04XSnapshot(dec)) != c04Key(c04Normalise(tree)) {
			c04Fail(rec, "revtree_json_roundtrip", "hand-written-json-not-decoded-to-the-tree", map[string]any{"json": text}, kind)
		}
	}
}
