//go:build verif

package db

import (
	"context"
	"fmt"
	"hash/fnv"
	"sort"
	"strconv"
	"strings"
	"testing"
	"time"

	"github.com/couchbase/sync_gateway/auth"
	"github.com/couchbase/sync_gateway/base"
	"github.com/couchbase/sync_gateway/channels"
)

// C01 correspondence + monitors, layer 1: the real db.singleChannelCacheImpl.
//
// Every trace builds a fresh singleChannelCacheImpl (newChannelCacheWithOptions) whose
// ChannelQueryHandler is a fake backed by the harness's ground truth B (the list of all writes that
// concern the channel): it returns the latest entry per document with startSeq <= sequence <= endSeq,
// ascending, filtered to active entries when asked, cut at the limit -- the contract of QueryChannels.
// Operations: W (a write reaches the bucket), A (the caching feed delivers an entry: addToCache),
// PP (raw prependChanges), PA (pruneCacheAge, the aged entries chosen by the trace), PU (purge:
// documents leave the bucket, then Remove), GCa (GetCachedChanges), GC (GetChanges).  After every
// operation the projected cache (validFrom, [(seq, doc, rev, removed, deleted)]) and the
// operation's result are recorded; the Coq model replays the trace.

type c01E struct {
	Seq uint64 `json:"s"`
	Doc uint64 `json:"d"`
	Rev uint64 `json:"r"`
	Rm  bool   `json:"rm,omitempty"`
	Del bool   `json:"del,omitempty"`
}

func (e c01E) coq() string {
	return fmt.Sprintf("E %d %d %d %s %s", e.Seq, e.Doc, e.Rev, cqBool(e.Rm), cqBool(e.Del))
}
func (e c01E) String() string {
	s := fmt.Sprintf("%d:d%d", e.Seq, e.Doc)
	if e.Rm {
		s += "-"
	}
	if e.Del {
		s += "x"
	}
	return s
}
func c01EsCoq(l []c01E) string {
	p := make([]string, len(l))
	for i, e := range l {
		p[i] = e.coq()
	}
	return "[" + strings.Join(p, "; ") + "]"
}
func c01EsString(l []c01E) string {
	p := make([]string, len(l))
	for i, e := range l {
		p[i] = e.String()
	}
	return "[" + strings.Join(p, " ") + "]"
}
func c01EsEq(a, b []c01E) bool {
	if len(a) != len(b) {
		return false
	}
	for i := range a {
		if a[i] != b[i] {
			return false
		}
	}
	return true
}

func (e c01E) active() bool { return !e.Rm && !e.Del }

func (e c01E) logEntry() *LogEntry {
	le := &LogEntry{Sequence: e.Seq, DocID: "d" + strconv.FormatUint(e.Doc, 10), RevID: strconv.FormatUint(e.Rev, 10) + "-r",
		TimeReceived: channels.NewFeedTimestampFromNow()}
	if e.Rm {
		le.Flags |= channels.Removed
	}
	if e.Del {
		le.Flags |= channels.Deleted
	}
	return le
}
func c01FromLog(le *LogEntry) c01E {
	d, _ := strconv.ParseUint(strings.TrimPrefix(le.DocID, "d"), 10, 64)
	r, _ := strconv.ParseUint(strings.TrimSuffix(le.RevID, "-r"), 10, 64)
	return c01E{Seq: le.Sequence, Doc: d, Rev: r, Rm: le.Flags&channels.Removed != 0, Del: le.Flags&channels.Deleted != 0}
}
func c01FromLogs(l []*LogEntry) []c01E {
	out := make([]c01E, 0, len(l))
	for _, le := range l {
		if le == nil {
			out = append(out, c01E{Seq: 0, Doc: 999999})
			continue
		}
		out = append(out, c01FromLog(le))
	}
	return out
}

// ---------- ground truth (Go side, independent of the Coq model) ----------
func c01Latest(B []c01E) []c01E {
	var out []c01E
	for _, e := range B {
		latest := true
		for _, x := range B {
			if x.Doc == e.Doc && x.Seq > e.Seq {
				latest = false
				break
			}
		}
		if latest {
			out = append(out, e)
		}
	}
	sort.SliceStable(out, func(i, j int) bool { return out[i].Seq < out[j].Seq })
	return out
}
func c01Truth(B []c01E, since uint64) []c01E {
	out := []c01E{}
	for _, e := range c01Latest(B) {
		if e.Seq > since {
			out = append(out, e)
		}
	}
	return out
}
func c01In(e c01E, l []c01E) bool {
	for _, x := range l {
		if x == e {
			return true
		}
	}
	return false
}

type c01QH struct {
	B       *[]c01E
	queries int
}

func (q *c01QH) getChangesInChannelFromQuery(ctx context.Context, channel string, startSeq, endSeq uint64, limit int, activeOnly bool) (LogEntries, error) {
	q.queries++
	out := make(LogEntries, 0)
	for _, e := range c01Latest(*q.B) {
		if e.Seq < startSeq || e.Seq > endSeq {
			continue
		}
		if activeOnly && !e.active() {
			continue
		}
		out = append(out, e.logEntry())
		if limit > 0 && len(out) >= limit {
			break
		}
	}
	return out, nil
}

// ---------- operations ----------
type c01Op struct {
	K     string  `json:"op"`
	E     *c01E   `json:"e,omitempty"`
	R     bool    `json:"removal,omitempty"`
	Ch    []c01E  `json:"changes,omitempty"`
	A     uint64  `json:"a,omitempty"`
	B     uint64  `json:"b,omitempty"`
	L     []uint64 `json:"l,omitempty"`
	Since uint64  `json:"since,omitempty"`
	Limit int     `json:"limit,omitempty"`
	AO    bool    `json:"active_only,omitempty"`
}

func (o c01Op) coq() string {
	switch o.K {
	case "W":
		return "W (" + o.E.coq() + ")"
	case "A":
		return "A (" + o.E.coq() + ") " + cqBool(o.R)
	case "PP":
		return fmt.Sprintf("PP %s %d %d", c01EsCoq(o.Ch), o.A, o.B)
	case "PA":
		return "PA " + cqNList(o.L)
	case "PU":
		return "PU " + cqNList(o.L)
	case "GCa":
		return fmt.Sprintf("GCa %d %d", o.Since, o.Limit)
	}
	return fmt.Sprintf("GC %d %d %s", o.Since, o.Limit, cqBool(o.AO))
}
func (o c01Op) String() string {
	switch o.K {
	case "W":
		return "W" + o.E.String()
	case "A":
		if o.R {
			return "Ar" + o.E.String()
		}
		return "A" + o.E.String()
	case "PP":
		return fmt.Sprintf("PP%s@%d-%d", c01EsString(o.Ch), o.A, o.B)
	case "PA":
		return fmt.Sprintf("PA%v", o.L)
	case "PU":
		return fmt.Sprintf("PU%v", o.L)
	case "GCa":
		return fmt.Sprintf("GCa(%d,%d)", o.Since, o.Limit)
	}
	ao := ""
	if o.AO {
		ao = ",active"
	}
	return fmt.Sprintf("GC(%d,%d%s)", o.Since, o.Limit, ao)
}
func c01OpsString(ops []c01Op) string {
	p := make([]string, len(ops))
	for i, o := range ops {
		p[i] = o.String()
	}
	return strings.Join(p, " ")
}

type c01Obs struct {
	VF   uint64
	Logs []c01E
	Out  string // Coq term of type out
	Rows []c01E
}

func (o c01Obs) coq() string {
	return fmt.Sprintf("O %d %s (%s)", o.VF, c01EsCoq(o.Logs), o.Out)
}

// ---------- one real cache + its ground truth ----------
type c01Comp struct {
	ctx    context.Context
	cache  *singleChannelCacheImpl
	qh     *c01QH
	B, F   []c01E
	maxLen int
	minLen int
	vf0    uint64
	hitBackfill bool
	hitPrune    bool
}

var c01Stats *base.CacheStats

func c01CacheStats(t *testing.T) *base.CacheStats {
	if c01Stats == nil {
		stats, err := base.NewSyncGatewayStats()
		if err != nil {
			t.Fatalf("stats: %v", err)
		}
		dbstats, err := stats.NewDBStats("c01", false, false, false, false, nil, nil)
		if err != nil {
			t.Fatalf("dbstats: %v", err)
		}
		c01Stats = dbstats.Cache()
	}
	return c01Stats
}

func c01NewComp(t *testing.T, ctx context.Context, vf0 uint64, maxLen, minLen int) *c01Comp {
	c := &c01Comp{ctx: ctx, maxLen: maxLen, minLen: minLen, vf0: vf0}
	c.qh = &c01QH{B: &c.B}
	c.cache = newChannelCacheWithOptions(ctx, c.qh, channels.NewID("C", 0), vf0,
		ChannelCacheOptions{ChannelCacheMaxLength: maxLen, ChannelCacheMinLength: minLen}, c01CacheStats(t))
	return c
}

func c01NotDocs(ds []uint64, l []c01E) []c01E {
	out := l[:0:0]
	for _, e := range l {
		keep := true
		for _, d := range ds {
			if d == e.Doc {
				keep = false
			}
		}
		if keep {
			out = append(out, e)
		}
	}
	return out
}

func (c *c01Comp) apply(o c01Op) c01Obs {
	out := "RNone"
	var rows []c01E
	switch o.K {
	case "W":
		c.B = append([]c01E{*o.E}, c.B...)
	case "A":
		c.cache.addToCache(c.ctx, o.E.logEntry(), o.R)
		d := *o.E
		if o.R {
			d.Rm = true
		}
		c.F = append([]c01E{d}, c.F...)
	case "PP":
		ch := make(LogEntries, len(o.Ch))
		for i, e := range o.Ch {
			ch[i] = e.logEntry()
		}
		c.cache.prependChanges(c.ctx, ch, o.A, o.B)
	case "PA":
		old := time.Now().Add(-2 * time.Hour)
		for _, le := range c.cache.logs {
			le.TimeReceived = channels.NewFeedTimestampFromNow()
			for _, s := range o.L {
				if s == le.Sequence {
					le.TimeReceived = channels.NewFeedTimestamp(&old)
				}
			}
		}
		c.cache.pruneCacheAge(c.ctx)
	case "PU":
		c.B = c01NotDocs(o.L, c.B)
		c.F = c01NotDocs(o.L, c.F)
		ids := make([]string, len(o.L))
		for i, d := range o.L {
			ids[i] = "d" + strconv.FormatUint(d, 10)
		}
		n := c.cache.Remove(c.ctx, 0, ids, time.Now().Add(time.Hour))
		out = fmt.Sprintf("RCount %d", n)
	case "GCa":
		vf, r := c.cache.GetCachedChanges(ChangesOptions{Since: SequenceID{Seq: o.Since}, Limit: o.Limit})
		rows = c01FromLogs(r)
		out = fmt.Sprintf("RCached %d %s", vf, c01EsCoq(rows))
	case "GC":
		q0 := c.qh.queries
		r, err := c.cache.GetChanges(c.ctx, ChangesOptions{Since: SequenceID{Seq: o.Since}, Limit: o.Limit, ActiveOnly: o.AO, ChangesCtx: c.ctx})
		if err != nil {
			out = "RNone"
		} else {
			rows = c01FromLogs(r)
			out = "RRows " + c01EsCoq(rows)
		}
		if c.qh.queries > q0 {
			c.hitBackfill = true
		}
	}
	if c.cache.validFrom > c.vf0 {
		c.hitPrune = true
	}
	return c01Obs{VF: c.cache.validFrom, Logs: c01FromLogs(c.cache.logs), Out: out, Rows: rows}
}

// ---------- monitors: Go-side reflections of cc_inv and of the read theorems ----------
type c01Fail struct{ mon, detail string }

func (c *c01Comp) checkInv() *c01Fail {
	logs := c01FromLogs(c.cache.logs)
	vf := c.cache.validFrom
	seen := map[uint64]bool{}
	lat := c01Latest(c.B)
	for i, e := range logs {
		if i > 0 && logs[i-1].Seq >= e.Seq {
			return &c01Fail{"cc_inv.ascending", fmt.Sprintf("logs %s not strictly ascending", c01EsString(logs))}
		}
		if seen[e.Doc] {
			return &c01Fail{"cc_inv.one_entry_per_document", fmt.Sprintf("document d%d twice in %s", e.Doc, c01EsString(logs))}
		}
		seen[e.Doc] = true
		if e.Seq < vf {
			return &c01Fail{"cc_inv.above_valid_from", fmt.Sprintf("entry %s below validFrom %d", e, vf)}
		}
		if !c01In(e, c.B) {
			return &c01Fail{"cc_inv.sound", fmt.Sprintf("cached entry %s is not a write of the channel", e)}
		}
		// (a newer DELIVERED entry of the same document may legitimately be absent while a still newer
		// write is undelivered; what is proved -- cached_is_latest -- is checked next)
		for _, f := range c.F {
			if f.Doc == e.Doc && f.Seq > e.Seq && c01In(f, lat) {
				return &c01Fail{"cc_inv.cached_is_latest", fmt.Sprintf("cached %s but the document's latest write %s was delivered", e, f)}
			}
		}
	}
	if len(logs) > c.maxLen {
		return &c01Fail{"cc_inv.length_bound", fmt.Sprintf("%d entries, max %d", len(logs), c.maxLen)}
	}
	if len(c.cache.cachedDocIDs) != len(seen) {
		return &c01Fail{"cc_inv.document_index", fmt.Sprintf("cachedDocIDs has %d keys, logs %s", len(c.cache.cachedDocIDs), c01EsString(logs))}
	}
	for d := range seen {
		if _, ok := c.cache.cachedDocIDs["d"+strconv.FormatUint(d, 10)]; !ok {
			return &c01Fail{"cc_inv.document_index", fmt.Sprintf("d%d cached but not in cachedDocIDs", d)}
		}
	}
	for _, f := range c.F {
		if f.Seq >= vf && c01In(f, lat) && !c01In(f, logs) {
			return &c01Fail{"cc_inv.complete_above_valid_from", fmt.Sprintf("delivered latest entry %s >= validFrom %d missing from %s", f, vf, c01EsString(logs))}
		}
	}
	return nil
}

func (c *c01Comp) quiescent() bool {
	for _, b := range c.B {
		if !c01In(b, c.F) {
			return false
		}
	}
	return true
}

func c01Take(n int, l []c01E) []c01E {
	if n > 0 && len(l) > n {
		return l[:n]
	}
	return l
}
func c01Active(l []c01E) []c01E {
	out := []c01E{}
	for _, e := range l {
		if e.active() {
			out = append(out, e)
		}
	}
	return out
}

// Bpre/Fpre: ground truth at the time of the read
func c01CheckRead(o c01Op, rows []c01E, B, F []c01E, quiescent bool) *c01Fail {
	seen := map[uint64]bool{}
	for i, e := range rows {
		if i > 0 && rows[i-1].Seq >= e.Seq {
			return &c01Fail{"get_changes_sound.ascending", fmt.Sprintf("rows %s", c01EsString(rows))}
		}
		if seen[e.Doc] {
			return &c01Fail{"get_changes_sound.one_row_per_document", fmt.Sprintf("rows %s", c01EsString(rows))}
		}
		seen[e.Doc] = true
		if e.Seq <= o.Since {
			return &c01Fail{"get_changes_sound.after_since", fmt.Sprintf("row %s not after %d", e, o.Since)}
		}
		if !c01In(e, B) {
			return &c01Fail{"get_changes_sound.real_entry", fmt.Sprintf("row %s is not a write of the channel", e)}
		}
	}
	if o.Limit > 0 && !o.AO && len(rows) > o.Limit {
		return &c01Fail{"get_changes_sound.limit", fmt.Sprintf("%d rows, limit %d", len(rows), o.Limit)}
	}
	truth := c01Truth(B, o.Since)
	if o.Limit == 0 && !o.AO {
		for _, f := range F {
			if f.Seq > o.Since && c01In(f, truth) && !c01In(f, rows) {
				return &c01Fail{"get_changes_complete", fmt.Sprintf("delivered latest entry %s missing from rows %s", f, c01EsString(rows))}
			}
		}
	}
	if quiescent {
		if !o.AO {
			if want := c01Take(o.Limit, truth); !c01EsEq(rows, want) {
				return &c01Fail{"get_changes_quiescent", fmt.Sprintf("rows %s, truth %s", c01EsString(rows), c01EsString(want))}
			}
		} else if o.Limit == 0 {
			if got, want := c01Active(rows), c01Active(truth); !c01EsEq(got, want) {
				return &c01Fail{"get_changes_quiescent.active_only", fmt.Sprintf("active rows %s, truth %s", c01EsString(got), c01EsString(want))}
			}
		}
	}
	return nil
}

type c01Trace struct {
	VF0    uint64  `json:"valid_from"`
	MaxLen int     `json:"max_len"`
	MinLen int     `json:"min_len"`
	Ops    []c01Op `json:"-"`
	Text   string  `json:"ops"`
}

// runs one trace on a fresh real cache; monitors only when wf (the structured streams)
func c01RunTrace(t *testing.T, rec *vRecorder, ctx context.Context, stream string, tr *c01Trace, wf bool, emit bool) {
	c := c01NewComp(t, ctx, tr.VF0, tr.MaxLen, tr.MinLen)
	steps := make([]string, 0, len(tr.Ops))
	failed := false
	for i, o := range tr.Ops {
		Bpre, Fpre := c.B, c.F
		q := c.quiescent()
		ob := c.apply(o)
		if emit {
			steps = append(steps, "("+o.coq()+", "+ob.coq()+")")
		}
		if !wf || failed {
			continue
		}
		var f *c01Fail
		if o.K == "GC" && strings.HasPrefix(ob.Out, "RRows") {
			f = c01CheckRead(o, ob.Rows, Bpre, Fpre, q)
		}
		if f == nil {
			f = c.checkInv()
		}
		if f != nil {
			failed = true
			rec.Fail(f.mon, f.mon+"/after-"+o.K, map[string]any{"valid_from": tr.VF0, "max_len": tr.MaxLen, "min_len": tr.MinLen,
				"ops": c01OpsString(tr.Ops[:i+1])}, f.detail)
		}
	}
	tr.Text = c01OpsString(tr.Ops)
	nontrivial := c.hitBackfill || c.hitPrune
	if emit {
		rec.Case(stream, "cache-trace", fmt.Sprintf("CComp %d %d %d %s", tr.VF0, tr.MaxLen, tr.MinLen, cqList(steps)), tr, nontrivial)
	} else {
		rec.Count(stream, "cache-trace-monitored", fmt.Sprintf("%d/%d/%d/%s", tr.VF0, tr.MaxLen, tr.MinLen, tr.Text), nontrivial)
	}
	rec.Size(fmt.Sprintf("cache-trace-len-%02d", (len(tr.Ops)+4)/5*5))
}

// ---------- generators ----------
type c01Gen struct {
	next    uint64
	pending []c01E
	revs    uint64
}

func (g *c01Gen) write(doc uint64, rm, del bool) c01E {
	g.next++
	g.revs++
	return c01E{Seq: g.next, Doc: doc, Rev: g.revs, Rm: rm, Del: del}
}

// prehistory: n writes that are in the bucket before the cache exists (validFrom = n+1)
func c01Prehistory(g *c01Gen, n int) []c01Op {
	var ops []c01Op
	for i := 0; i < n; i++ {
		e := g.write(uint64(i%3+1), false, false)
		ops = append(ops, c01Op{K: "W", E: &e})
	}
	return ops
}

// the alphabet of the bounded-exhaustive enumeration, as a function of the generator state
func c01Alphabet(g *c01Gen) []string {
	a := []string{"wa1", "wa2", "wa3", "wr1", "wd2", "wo1", "wo2", "gc00", "gc01", "gcm0", "gcm1", "gca0", "gca1", "pa", "pu1"}
	if len(g.pending) > 0 {
		a = append(a, "dl")
	}
	return a
}

func c01Expand(g *c01Gen, sym string, F *[]c01E) []c01Op {
	wa := func(doc uint64, rm, del bool) []c01Op {
		e := g.write(doc, rm, del)
		b := e
		b.Rm = false
		*F = append(*F, e)
		// the bucket holds the entry with its removal flag; the feed delivers it with isRemoval
		return []c01Op{{K: "W", E: &e}, {K: "A", E: &b, R: rm}}
	}
	mid := g.next / 2
	switch sym {
	case "wa1":
		return wa(1, false, false)
	case "wa2":
		return wa(2, false, false)
	case "wa3":
		return wa(3, false, false)
	case "wr1":
		return wa(1, true, false)
	case "wd2":
		return wa(2, false, true)
	case "wo1", "wo2":
		e := g.write(uint64(sym[2]-'0'), false, false)
		g.pending = append(g.pending, e)
		return []c01Op{{K: "W", E: &e}}
	case "dl":
		e := g.pending[0]
		g.pending = g.pending[1:]
		*F = append(*F, e)
		return []c01Op{{K: "A", E: &e}}
	case "gc00":
		return []c01Op{{K: "GC", Since: 0, Limit: 0}}
	case "gc01":
		return []c01Op{{K: "GC", Since: 0, Limit: 1}}
	case "gcm0":
		return []c01Op{{K: "GC", Since: mid, Limit: 0}}
	case "gcm1":
		return []c01Op{{K: "GC", Since: mid, Limit: 2}}
	case "gca0":
		return []c01Op{{K: "GC", Since: 0, Limit: 0, AO: true}}
	case "gca1":
		return []c01Op{{K: "GC", Since: mid, Limit: 1, AO: true}}
	case "pa":
		var all []uint64
		for s := uint64(1); s <= g.next; s++ {
			all = append(all, s)
		}
		return []c01Op{{K: "PA", L: all}}
	case "pu1":
		var np []c01E
		for _, p := range g.pending {
			if p.Doc != 1 {
				np = append(np, p)
			}
		}
		g.pending = np
		return []c01Op{{K: "PU", L: []uint64{1}}}
	}
	return nil
}

func c01Hash(s string) uint64 {
	h := fnv.New64a()
	_, _ = h.Write([]byte(s))
	return h.Sum64()
}

// every symbol sequence of the given depth; each is finished by a full read so that the final
// state is observed through GetChanges as well
func c01Exhaustive(t *testing.T, rec *vRecorder, ctx context.Context, pre, maxLen, minLen, depth int, sampleMod uint64, counter *int) {
	var walk func(path []string)
	walk = func(path []string) {
		g := &c01Gen{}
		var F []c01E
		ops := c01Prehistory(g, pre)
		vf0 := g.next + 1
		var alpha []string
		for _, s := range path {
			ops = append(ops, c01Expand(g, s, &F)...)
		}
		alpha = c01Alphabet(g)
		if len(path) == depth {
			ops = append(ops, c01Op{K: "GC", Since: 0, Limit: 0})
			tr := &c01Trace{VF0: vf0, MaxLen: maxLen, MinLen: minLen, Ops: ops}
			key := fmt.Sprintf("%d/%d/%d/%s/%d", pre, maxLen, minLen, strings.Join(path, ","), vSeed())
			emit := sampleMod <= 1 || c01Hash(key)%sampleMod == 0
			c01RunTrace(t, rec, ctx, "exhaustive", tr, true, emit)
			*counter++
			return
		}
		for _, s := range alpha {
			walk(append(append([]string{}, path...), s))
		}
	}
	walk(nil)
}

func c01RandomTrace(r *vRand, length int) *c01Trace {
	maxLen := []int{1, 2, 3, 5}[r.Intn(4)]
	minLen := 1 + r.Intn(maxLen)
	if r.Chance(15) {
		minLen = maxLen + r.Intn(2)
	} else if maxLen > 1 && r.Chance(50) {
		minLen = 1
	}
	ndocs := uint64(3 + r.Intn(4))
	g := &c01Gen{}
	ops := c01Prehistory(g, []int{0, 0, 2, 4, 7}[r.Intn(5)])
	vf0 := g.next + 1
	var F []c01E
	for len(ops) < length {
		switch p := r.Intn(100); {
		case p < 34:
			e := g.write(1+uint64(r.Intn(int(ndocs))), r.Chance(12), r.Chance(12))
			b := e
			b.Rm = false
			ops = append(ops, c01Op{K: "W", E: &e}, c01Op{K: "A", E: &b, R: e.Rm})
			F = append(F, e)
		case p < 44:
			e := g.write(1+uint64(r.Intn(int(ndocs))), r.Chance(10), r.Chance(10))
			g.pending = append(g.pending, e)
			ops = append(ops, c01Op{K: "W", E: &e})
		case p < 56:
			if len(g.pending) > 0 {
				i := r.Intn(len(g.pending))
				e := g.pending[i]
				g.pending = append(append([]c01E{}, g.pending[:i]...), g.pending[i+1:]...)
				b := e
				b.Rm = false
				ops = append(ops, c01Op{K: "A", E: &b, R: e.Rm})
				F = append(F, e)
			}
		case p < 61:
			if len(F) > 0 { // duplicate delivery
				e := F[r.Intn(len(F))]
				b := e
				b.Rm = false
				ops = append(ops, c01Op{K: "A", E: &b, R: e.Rm})
			}
		case p < 84:
			since := uint64(0)
			if r.Chance(70) {
				since = uint64(r.Intn(int(g.next + 2)))
			}
			ops = append(ops, c01Op{K: "GC", Since: since, Limit: []int{0, 0, 1, 2, 3}[r.Intn(5)], AO: r.Chance(20)})
		case p < 88:
			ops = append(ops, c01Op{K: "GCa", Since: uint64(r.Intn(int(g.next + 2))), Limit: r.Intn(3)})
		case p < 94:
			var aged []uint64
			cut := uint64(r.Intn(int(g.next + 2)))
			for s := uint64(1); s <= g.next; s++ {
				if s <= cut || r.Chance(15) {
					aged = append(aged, s)
				}
			}
			ops = append(ops, c01Op{K: "PA", L: aged})
		default:
			d := 1 + uint64(r.Intn(int(ndocs)))
			ds := []uint64{d}
			if r.Chance(30) {
				ds = append(ds, 1+uint64(r.Intn(int(ndocs))))
			}
			g.pending = c01NotDocs(ds, g.pending)
			F = c01NotDocs(ds, F)
			ops = append(ops, c01Op{K: "PU", L: ds})
		}
	}
	// drain: deliver everything still pending, then read from several positions (quiescent reads)
	for _, e := range g.pending {
		b := e
		b.Rm = false
		ops = append(ops, c01Op{K: "A", E: &b, R: e.Rm})
	}
	g.pending = nil
	ops = append(ops, c01Op{K: "GC", Since: uint64(r.Intn(int(g.next + 1))), Limit: r.Intn(3)}, c01Op{K: "GC", Since: 0, Limit: 0})
	return &c01Trace{VF0: vf0, MaxLen: maxLen, MinLen: minLen, Ops: ops}
}

// adversarial: entries that are not writes of the channel, duplicate sequences, raw prepends with
// arbitrary ranges (ascending, one entry per document, nothing below changesValidFrom), mismatched
// removal flags.  Correspondence only: the hypotheses of the theorems do not hold here.
func c01AdversarialTrace(r *vRand, length int) *c01Trace {
	maxLen := []int{1, 2, 3, 5}[r.Intn(4)]
	minLen := 1 + r.Intn(maxLen+1)
	vf0 := uint64(r.Intn(6))
	var ops []c01Op
	rev := uint64(0)
	rndE := func(lo uint64) c01E {
		rev++
		return c01E{Seq: lo + uint64(r.Intn(12)), Doc: 1 + uint64(r.Intn(4)), Rev: rev, Rm: r.Chance(15), Del: r.Chance(15)}
	}
	for len(ops) < length {
		switch p := r.Intn(100); {
		case p < 20:
			e := rndE(0)
			ops = append(ops, c01Op{K: "W", E: &e})
		case p < 55:
			e := rndE(0)
			ops = append(ops, c01Op{K: "A", E: &e, R: r.Chance(20)})
		case p < 70:
			a := uint64(r.Intn(10))
			var ch []c01E
			seq := a
			used := map[uint64]bool{}
			for n := r.Intn(5); n > 0; n-- {
				seq += uint64(r.Intn(3))
				e := rndE(0)
				e.Seq = seq
				seq++
				if used[e.Doc] {
					continue
				}
				used[e.Doc] = true
				ch = append(ch, e)
			}
			ops = append(ops, c01Op{K: "PP", Ch: ch, A: a, B: a + uint64(r.Intn(12))})
		case p < 85:
			ops = append(ops, c01Op{K: "GC", Since: uint64(r.Intn(12)), Limit: r.Intn(4), AO: r.Chance(25)})
		case p < 90:
			ops = append(ops, c01Op{K: "GCa", Since: uint64(r.Intn(12)), Limit: r.Intn(3)})
		case p < 95:
			var aged []uint64
			for s := uint64(0); s < 12; s++ {
				if r.Chance(50) {
					aged = append(aged, s)
				}
			}
			ops = append(ops, c01Op{K: "PA", L: aged})
		default:
			ops = append(ops, c01Op{K: "PU", L: []uint64{1 + uint64(r.Intn(4))}})
		}
	}
	return &c01Trace{VF0: vf0, MaxLen: maxLen, MinLen: minLen, Ops: ops}
}

func c01Corpus() []*c01Trace {
	e := func(s, d uint64) *c01E { return &c01E{Seq: s, Doc: d, Rev: s} }
	wa := func(s, d uint64) []c01Op { return []c01Op{{K: "W", E: e(s, d)}, {K: "A", E: e(s, d)}} }
	cat := func(l ...[]c01Op) []c01Op {
		var o []c01Op
		for _, x := range l {
			o = append(o, x...)
		}
		return o
	}
	gc := func(since uint64, limit int) []c01Op { return []c01Op{{K: "GC", Since: since, Limit: limit}} }
	return []*c01Trace{
		// TestDuplicateDocID of the repository
		{VF0: 0, MaxLen: 5, MinLen: 1, Ops: cat(wa(1, 1), wa(2, 3), wa(3, 5), gc(0, 0), wa(4, 3), gc(0, 0), wa(5, 1), gc(0, 0), wa(6, 1), gc(0, 0))},
		// tiny cache: every read below the newest entry needs the query, the overlap element at validFrom must appear once
		{VF0: 1, MaxLen: 1, MinLen: 1, Ops: cat(wa(1, 1), wa(2, 2), wa(3, 3), gc(0, 0), gc(1, 0), gc(2, 0), gc(0, 1), gc(0, 2))},
		// late arrival below the tail, same document older and newer
		{VF0: 1, MaxLen: 3, MinLen: 1, Ops: cat([]c01Op{{K: "W", E: e(1, 1)}, {K: "W", E: e(2, 2)}, {K: "W", E: e(3, 1)}},
			[]c01Op{{K: "A", E: e(2, 2)}, {K: "A", E: e(3, 1)}, {K: "A", E: e(1, 1)}}, gc(0, 0))},
		// back-fill into a cache with room, then with a limit that cuts the query
		{VF0: 4, MaxLen: 5, MinLen: 1, Ops: cat([]c01Op{{K: "W", E: e(1, 1)}, {K: "W", E: e(2, 2)}, {K: "W", E: e(3, 3)}}, wa(4, 4), gc(0, 2), gc(2, 0), gc(0, 0))},
	}
}

func c01Component(t *testing.T, rec *vRecorder, ctx context.Context) {
	for _, tr := range c01Corpus() {
		c01RunTrace(t, rec, ctx, "corpus", tr, true, true)
	}
	// bounded-exhaustive: all symbol sequences over the 15/16-symbol alphabet
	nEx := 0
	type cfg struct{ pre, maxLen, minLen, depth int }
	cfgs := []cfg{{0, 1, 1, 3}, {2, 1, 1, 3}, {2, 2, 1, 3}, {0, 2, 1, 3}, {2, 3, 1, 3}, {2, 5, 1, 3}, {2, 1, 1, 4}, {2, 2, 1, 4}}
	if vThorough() {
		cfgs = append(cfgs, cfg{0, 1, 1, 4}, cfg{0, 2, 1, 4}, cfg{2, 3, 1, 4}, cfg{2, 3, 2, 4}, cfg{3, 2, 1, 4})
	}
	target := vBudget(700, 8000)
	total := 0
	for _, c := range cfgs {
		n := 1
		for i := 0; i < c.depth; i++ {
			n *= 15
		}
		total += n
	}
	mod := uint64(total/target + 1)
	for _, c := range cfgs {
		c01Exhaustive(t, rec, ctx, c.pre, c.maxLen, c.minLen, c.depth, mod, &nEx)
	}
	rec.Extra("exhaustive_cache_traces", nEx)
	rec.Extra("exhaustive_sample_modulus", mod)
	r := vNewRand(vSeed()*1000003 + 11)
	for i, n := 0, vBudget(250, 3000); i < n; i++ {
		c01RunTrace(t, rec, ctx, "random", c01RandomTrace(r, 30), true, true)
	}
	for i, n := 0, vBudget(100, 1500); i < n; i++ {
		c01RunTrace(t, rec, ctx, "adversarial", c01AdversarialTrace(r, 20), false, true)
	}
}

// =====================================================================================
// Layers 2 and 3: the real database on rosmar.
//
// A scenario creates three users (channels {A}, {A,B}, {*}) BEFORE any document exists, then runs a
// random history over 4 documents and the channels A, B, "!" (sync function channel(doc.channels)):
// create / update / channel move / delete / conflicting revision (winning or losing) / resurrect.
// The harness keeps its own shadow of every revision tree and records, per acknowledged write, the
// history entry (document, sequence, winning revision, its channels, deleted) -- the input of the
// Coq specification expected_changes.  At checkpoints, after WaitForPendingChanges, it issues
// MultiChangesFeed requests (admin and users, channel subsets and "*", handed-out and compound since
// values, limit 0/1/2, active_only), warm, with ChannelCacheMaxLength 1, and after dropping every
// channel cache; each response is recorded for the model and checked by Go-side monitors.

var c01ChanNames = []string{"*", "!", "A", "B"}

func c01ChanID(name string) uint64 {
	for i, n := range c01ChanNames {
		if n == name {
			return uint64(i)
		}
	}
	return 99
}

type c01Leaf struct {
	rev     string
	gen     int
	dig     string
	deleted bool
	chans   []uint64
	hist    []string // newest first, includes rev
}

type c01Doc struct {
	leaves []*c01Leaf
}

func (d *c01Doc) winner() *c01Leaf {
	var w *c01Leaf
	for _, l := range d.leaves {
		if w == nil {
			w = l
			continue
		}
		le, we := !l.deleted, !w.deleted
		if (le && !we) || (le == we && (l.gen > w.gen || (l.gen == w.gen && l.dig > w.dig))) {
			w = l
		}
	}
	return w
}

type c01Hop struct {
	Doc   uint64   `json:"doc"`
	Seq   uint64   `json:"seq"`
	Rev   uint64   `json:"rev"`
	Chans []uint64 `json:"chans"`
	Del   bool     `json:"del,omitempty"`
	Op    string   `json:"op"`
}

func (h c01Hop) coq() string {
	return fmt.Sprintf("H %d %d %d %s %s", h.Doc, h.Seq, h.Rev, cqNList(h.Chans), cqBool(h.Del))
}

type c01User struct {
	name  string
	id    uint64   // interned "_user/<name>"
	chans []uint64 // granted
	seq   uint64
}

type c01Row struct {
	T, L, S uint64
	ID, Rev uint64
	Del     bool
	Rm      []uint64
}

func (r c01Row) coq() string {
	return fmt.Sprintf("R %d %d %d %d %d %s %s", r.T, r.L, r.S, r.ID, r.Rev, cqBool(r.Del), cqNList(r.Rm))
}
func (r c01Row) String() string {
	s := fmt.Sprintf("%d", r.S)
	if r.T != 0 || r.L != 0 {
		s = fmt.Sprintf("%d:%d:%d", r.L, r.T, r.S)
	}
	s += fmt.Sprintf("/id%d/r%d", r.ID, r.Rev)
	if r.Del {
		s += "x"
	}
	if len(r.Rm) > 0 {
		s += fmt.Sprintf("-%v", r.Rm)
	}
	return s
}
func c01RowsCoq(l []c01Row) string {
	p := make([]string, len(l))
	for i, r := range l {
		p[i] = r.coq()
	}
	return "[" + strings.Join(p, "; ") + "]"
}
func c01RowsString(l []c01Row) string {
	p := make([]string, len(l))
	for i, r := range l {
		p[i] = r.String()
	}
	return "[" + strings.Join(p, " ") + "]"
}
func c01RowEq(a, b c01Row) bool {
	if a.T != b.T || a.L != b.L || a.S != b.S || a.ID != b.ID || a.Rev != b.Rev || a.Del != b.Del || len(a.Rm) != len(b.Rm) {
		return false
	}
	for i := range a.Rm {
		if a.Rm[i] != b.Rm[i] {
			return false
		}
	}
	return true
}
func c01RowsEq(a, b []c01Row) bool {
	if len(a) != len(b) {
		return false
	}
	for i := range a {
		if !c01RowEq(a[i], b[i]) {
			return false
		}
	}
	return true
}

type c01Req struct {
	User   int // -1 admin, else index into users
	Chans  []string
	Since  SequenceID
	Limit  int
	AO     bool
}

func (q c01Req) String() string {
	u := "admin"
	if q.User >= 0 {
		u = fmt.Sprintf("u%d", q.User+1)
	}
	ao := ""
	if q.AO {
		ao = ",active_only"
	}
	return fmt.Sprintf("%s%v since=%s limit=%d%s", u, q.Chans, q.Since.String(), q.Limit, ao)
}

type c01Sys struct {
	t      *testing.T
	rec    *vRecorder
	db     *Database
	ctx    context.Context
	col    *DatabaseCollectionWithUser
	docs   map[uint64]*c01Doc
	revs   map[string]uint64
	hist   []c01Hop
	users  []*c01User
	maxSeq uint64
	cfg    string
	nconf  int
	failed map[string]bool
}

func c01NewSys(t *testing.T, rec *vRecorder, cfg string, principalAPI bool) *c01Sys {
	co := DefaultCacheOptions()
	if cfg == "maxlen1" {
		co.ChannelCacheOptions.ChannelCacheMaxLength = 1
		co.ChannelCacheOptions.ChannelCacheMinLength = 1
	}
	db, ctx := SetupTestDBWithOptions(t, DatabaseContextOptions{AllowConflicts: base.Ptr(true), CacheOptions: &co,
		Scopes: GetScopesOptionsDefaultCollectionOnly(t)})
	col, ctx := GetSingleDatabaseCollectionWithUser(ctx, t, db)
	col.ChannelMapper = channels.NewChannelMapper(ctx, channels.DocChannelsSyncFunction, db.Options.JavascriptTimeout)
	s := &c01Sys{t: t, rec: rec, db: db, ctx: ctx, col: col, docs: map[uint64]*c01Doc{}, revs: map[string]uint64{}, cfg: cfg, failed: map[string]bool{}}
	a := db.Authenticator(ctx)
	for i, chs := range [][]string{{"A"}, {"A", "B"}, {"*"}} {
		name := fmt.Sprintf("u%d", i+1)
		set := base.Set{}
		var ids []uint64
		for _, c := range chs {
			set[c] = struct{}{}
			ids = append(ids, c01ChanID(c))
		}
		if principalAPI {
			// the admin API path: allocates a sequence for the principal document, grants at that sequence
			pw := "letmein"
			if _, _, err := db.UpdatePrincipal(ctx, &auth.PrincipalConfig{Name: &name, Password: &pw, ExplicitChannels: set}, true, true); err != nil {
				t.Fatalf("UpdatePrincipal: %v", err)
			}
		} else {
			u, err := a.NewUser(name, "letmein", set)
			if err != nil {
				t.Fatalf("NewUser: %v", err)
			}
			if err := a.Save(u); err != nil {
				t.Fatalf("Save user: %v", err)
			}
		}
		u2, err := a.GetUser(name)
		if err != nil || u2 == nil {
			t.Fatalf("GetUser: %v", err)
		}
		s.users = append(s.users, &c01User{name: name, id: 101 + uint64(i), chans: ids, seq: u2.Sequence()})
		if u2.Sequence() > s.maxSeq {
			s.maxSeq = u2.Sequence()
		}
	}
	return s
}

func (s *c01Sys) close() { s.db.Close(s.ctx) }

func (s *c01Sys) revID(rev string) uint64 {
	if v, ok := s.revs[rev]; ok {
		return v
	}
	v := uint64(len(s.revs) + 1)
	s.revs[rev] = v
	return v
}

func c01ChanStrings(ids []uint64) []string {
	out := make([]string, len(ids))
	for i, c := range ids {
		out[i] = c01ChanNames[c]
	}
	return out
}

func c01SplitRev(rev string) (int, string) {
	i := strings.Index(rev, "-")
	g, _ := strconv.Atoi(rev[:i])
	return g, rev[i+1:]
}

// performs one write against the real database, mirrors it in the shadow, appends the history entry
func (s *c01Sys) write(r *vRand, docN uint64) {
	docid := fmt.Sprintf("doc%d", docN)
	d := s.docs[docN]
	if d == nil {
		d = &c01Doc{}
		s.docs[docN] = d
	}
	subset := func() []uint64 {
		var out []uint64
		for _, c := range []uint64{1, 2, 3} {
			if r.Chance(40) {
				out = append(out, c)
			}
		}
		return out
	}
	body := func(chs []uint64) Body {
		s.nconf++
		return Body{"channels": c01ChanStrings(chs), "n": s.nconf}
	}
	w := d.winner()
	op := ""
	var doc *Document
	var err error
	switch {
	case w == nil || w.deleted:
		// create / resurrect
		op = "create"
		chs := subset()
		if r.Chance(30) {
			chs = []uint64{2}
		}
		var rev string
		rev, doc, err = s.col.Put(s.ctx, docid, body(chs))
		if err == nil {
			g, dg := c01SplitRev(rev)
			nl := &c01Leaf{rev: rev, gen: g, dig: dg, chans: chs, hist: []string{rev}}
			if w != nil {
				nl.hist = append([]string{rev}, w.hist...)
				s.replaceLeaf(d, w, nl)
				op = "resurrect"
			} else {
				d.leaves = append(d.leaves, nl)
			}
		}
	default:
		switch p := r.Intn(100); {
		case p < 50: // update / channel move
			op = "update"
			chs := subset()
			b := body(chs)
			b[BodyRev] = w.rev
			var rev string
			rev, doc, err = s.col.Put(s.ctx, docid, b)
			if err == nil {
				g, dg := c01SplitRev(rev)
				s.replaceLeaf(d, w, &c01Leaf{rev: rev, gen: g, dig: dg, chans: chs, hist: append([]string{rev}, w.hist...)})
			}
		case p < 70: // delete the winning branch
			op = "delete"
			var rev string
			rev, doc, err = s.col.DeleteDoc(s.ctx, docid, DocVersion{RevTreeID: w.rev})
			if err == nil {
				g, dg := c01SplitRev(rev)
				s.replaceLeaf(d, w, &c01Leaf{rev: rev, gen: g, dig: dg, deleted: true, hist: append([]string{rev}, w.hist...)})
			}
		default: // conflicting revision: a sibling of the winner, winning or losing
			if len(d.leaves) >= 3 {
				return
			}
			op = "conflict-lose"
			dig := fmt.Sprintf("000%d", s.nconf)
			if r.Bool() {
				op = "conflict-win"
				dig = fmt.Sprintf("zzz%d", s.nconf)
			}
			chs := subset()
			rev := fmt.Sprintf("%d-%s", w.gen, dig)
			hist := append([]string{rev}, w.hist[1:]...)
			doc, _, err = s.col.PutExistingRevWithBody(s.ctx, docid, body(chs), hist, false, ExistingVersionWithUpdateToHLV)
			if err == nil {
				d.leaves = append(d.leaves, &c01Leaf{rev: rev, gen: w.gen, dig: dig, chans: chs, hist: hist})
			}
		}
	}
	if err != nil {
		s.rec.Err("write-" + op + "-error")
		s.t.Logf("c01: write %s %s failed: %v", op, docid, err)
		return
	}
	nw := d.winner()
	if doc.GetRevTreeID() != nw.rev {
		s.fail("history_shadow", "winner/"+op, map[string]any{"doc": docid, "op": op}, fmt.Sprintf("document says current revision %s, shadow says %s", doc.GetRevTreeID(), nw.rev))
	}
	chs := nw.chans
	if nw.deleted {
		chs = nil
	}
	s.hist = append(s.hist, c01Hop{Doc: docN, Seq: doc.Sequence, Rev: s.revID(nw.rev), Chans: chs, Del: nw.deleted, Op: op})
	if doc.Sequence > s.maxSeq {
		s.maxSeq = doc.Sequence
	}
	s.rec.Err("write-" + op)
}

func (s *c01Sys) replaceLeaf(d *c01Doc, old, nl *c01Leaf) {
	for i, l := range d.leaves {
		if l == old {
			d.leaves[i] = nl
			return
		}
	}
	d.leaves = append(d.leaves, nl)
}

func (s *c01Sys) fail(mon, sig string, input any, detail string) {
	if s.failed[mon+sig] {
		return
	}
	s.failed[mon+sig] = true
	s.rec.Fail(mon, mon+"/"+sig, input, detail)
}

func (s *c01Sys) histDesc() []string {
	out := make([]string, len(s.hist))
	for i, h := range s.hist {
		out[i] = fmt.Sprintf("#%d %s doc%d rev%d %v del=%v", h.Seq, h.Op, h.Doc, h.Rev, c01ChanStrings(h.Chans), h.Del)
	}
	return out
}

func (s *c01Sys) collectionFor(u int) *DatabaseCollectionWithUser {
	c := *s.col
	if u >= 0 {
		usr, err := s.db.Authenticator(s.ctx).GetUser(s.users[u].name)
		if err != nil || usr == nil {
			s.t.Fatalf("GetUser: %v", err)
		}
		c.user = usr
	} else {
		c.user = nil
	}
	return &c
}

func (s *c01Sys) projectRow(e *ChangeEntry) c01Row {
	r := c01Row{T: e.Seq.TriggeredBy, L: e.Seq.LowSeq, S: e.Seq.Seq, Del: e.Deleted}
	if strings.HasPrefix(e.ID, "_user/") {
		for _, u := range s.users {
			if e.ID == "_user/"+u.name {
				r.ID = u.id
			}
		}
	} else {
		n, _ := strconv.ParseUint(strings.TrimPrefix(e.ID, "doc"), 10, 64)
		r.ID = n
	}
	if len(e.Changes) > 0 {
		r.Rev = s.revID(e.Changes[0][ChangesVersionTypeRevTreeID])
	}
	for c := range e.Removed {
		r.Rm = append(r.Rm, c01ChanID(c))
	}
	sort.Slice(r.Rm, func(i, j int) bool { return r.Rm[i] < r.Rm[j] })
	return r
}

func (s *c01Sys) run(q c01Req) ([]c01Row, bool) {
	col := s.collectionFor(q.User)
	set := base.Set{}
	for _, c := range q.Chans {
		set[c] = struct{}{}
	}
	ctx, cancel := context.WithCancel(s.ctx)
	defer cancel()
	feed, err := col.MultiChangesFeed(ctx, set, ChangesOptions{Since: q.Since, Limit: q.Limit, ActiveOnly: q.AO, ChangesCtx: ctx})
	if err != nil || feed == nil {
		return nil, false
	}
	var rows []c01Row
	ok := true
	for e := range feed {
		if e == nil {
			continue
		}
		if e.Err != nil {
			ok = false
			continue
		}
		rows = append(rows, s.projectRow(e))
	}
	return rows, ok
}

// ---------- Go-side specification helpers for the monitors ----------
func (s *c01Sys) chanLog(c uint64) []c01E {
	var out []c01E
	cur := map[uint64][]uint64{}
	has := func(l []uint64, x uint64) bool {
		for _, y := range l {
			if y == x {
				return true
			}
		}
		return false
	}
	for _, h := range s.hist {
		if c == 0 || has(h.Chans, c) {
			out = append(out, c01E{Seq: h.Seq, Doc: h.Doc, Rev: h.Rev, Del: h.Del})
		} else if has(cur[h.Doc], c) {
			out = append(out, c01E{Seq: h.Seq, Doc: h.Doc, Rev: h.Rev, Rm: true, Del: h.Del})
		}
		cur[h.Doc] = h.Chans
	}
	return out
}

func (s *c01Sys) visible(q c01Req) []uint64 {
	var req []uint64
	star := false
	for _, c := range q.Chans {
		req = append(req, c01ChanID(c))
		if c == "*" {
			star = true
		}
	}
	if q.User < 0 {
		return req
	}
	g := s.users[q.User].chans
	all := append([]uint64{1}, g...)
	gstar := false
	for _, c := range g {
		if c == 0 {
			gstar = true
		}
	}
	if star {
		return all
	}
	var out []uint64
	for _, c := range req {
		in := gstar
		for _, a := range all {
			if a == c {
				in = true
			}
		}
		if in {
			out = append(out, c)
		}
	}
	return out
}

func (s *c01Sys) monitors(q c01Req, rows []c01Row) {
	input := map[string]any{"history": s.histDesc(), "request": q.String(), "cache": s.cfg}
	safe := q.Since.SafeSequence()
	for i, r := range rows {
		if i > 0 {
			a := SequenceID{TriggeredBy: rows[i-1].T, LowSeq: rows[i-1].L, Seq: rows[i-1].S}
			b := SequenceID{TriggeredBy: r.T, LowSeq: r.L, Seq: r.S}
			if !a.Before(b) {
				s.fail("changes.ascending_no_duplicates", "rows", input, "rows "+c01RowsString(rows))
				return
			}
		}
		if r.S <= safe && r.T == 0 {
			s.fail("changes.after_since", "rows", input, fmt.Sprintf("row %s not after since %s", r, q.Since.String()))
			return
		}
	}
	if q.Limit > 0 && len(rows) > q.Limit {
		s.fail("changes.limit", "rows", input, fmt.Sprintf("%d rows for limit %d", len(rows), q.Limit))
		return
	}
	vis := s.visible(q)
	type key struct{ seq, doc uint64 }
	truthRows := map[key][]uint64{} // (seq, doc) -> channels in which it is a removal (nil entry = active somewhere)
	activeSomewhere := map[key]bool{}
	for _, c := range vis {
		for _, e := range c01Truth(s.chanLog(c), safe) {
			k := key{e.Seq, e.Doc}
			if _, ok := truthRows[k]; !ok {
				truthRows[k] = nil
			}
			if e.Rm {
				truthRows[k] = append(truthRows[k], c)
			} else {
				activeSomewhere[k] = true
			}
		}
	}
	seen := map[key]bool{}
	for _, r := range rows {
		if r.ID > 100 {
			if q.User < 0 || r.ID != s.users[q.User].id {
				s.fail("changes.only_visible", "principal", input, fmt.Sprintf("row %s is another principal's document", r))
				return
			}
			continue
		}
		k := key{r.S, r.ID}
		seen[k] = true
		if _, ok := truthRows[k]; !ok {
			s.fail("changes.only_visible", "document", input, fmt.Sprintf("row %s: document %d has no entry at sequence %d in any of the visible channels %v after %d", r, r.ID, r.S, c01ChanStrings(vis), safe))
			return
		}
		want := append([]uint64{}, truthRows[k]...)
		sort.Slice(want, func(i, j int) bool { return want[i] < want[j] })
		if fmt.Sprint(want) != fmt.Sprint(append([]uint64{}, r.Rm...)) {
			s.fail("changes.removed_union", "document", input, fmt.Sprintf("row %s: removed %v, channels left at that sequence %v", r, r.Rm, want))
			return
		}
	}
	if q.Limit == 0 {
		for k := range truthRows {
			if seen[k] || k.seq > s.maxSeq {
				continue
			}
			if q.AO {
				del := false
				for _, h := range s.hist {
					if h.Seq == k.seq {
						del = h.Del
					}
				}
				if del || !activeSomewhere[k] {
					continue
				}
			}
			s.fail("changes.complete", "document", input, fmt.Sprintf("document %d changed at sequence %d in a visible channel %v after %d but has no row in %s", k.doc, k.seq, c01ChanStrings(vis), safe, c01RowsString(rows)))
			return
		}
	}
}

func (s *c01Sys) reqCoq(q c01Req) string {
	user := "None"
	var udoc, useq uint64
	if q.User >= 0 {
		u := s.users[q.User]
		user = "(Some " + cqNList(u.chans) + ")"
		udoc, useq = u.id, u.seq
	}
	var chs []uint64
	for _, c := range q.Chans {
		chs = append(chs, c01ChanID(c))
	}
	return fmt.Sprintf("Q %s %d %d %s %d %d %d %d %s %d", user, udoc, useq, cqNList(chs), q.Since.TriggeredBy, q.Since.LowSeq, q.Since.Seq, q.Limit, cqBool(q.AO), s.maxSeq)
}

// per-channel feeds of an admin request, taken from the real changesFeed goroutines
func (s *c01Sys) adminFeeds(q c01Req) (feeds [][]c01Row, hi uint64, ok bool) {
	col := s.collectionFor(-1)
	ctx, cancel := context.WithCancel(s.ctx)
	defer cancel()
	hi = col.changeCache().getChannelCache().GetHighCacheSequence()
	names := append([]string{}, q.Chans...)
	sort.Strings(names)
	for _, name := range names {
		scc, err := col.changeCache().getChannelCache().getSingleChannelCache(ctx, channels.NewID(name, col.GetCollectionID()))
		if err != nil {
			return nil, 0, false
		}
		var rows []c01Row
		for e := range col.changesFeed(ctx, scc, ChangesOptions{Since: q.Since, Limit: q.Limit, ActiveOnly: q.AO, ChangesCtx: ctx}, "") {
			if e == nil || e.Err != nil {
				return nil, 0, false
			}
			rows = append(rows, s.projectRow(e))
		}
		feeds = append(feeds, rows)
	}
	return feeds, hi, true
}

type c01SysDesc struct {
	Cache    string   `json:"cache"`
	Phase    string   `json:"phase"`
	History  []string `json:"history"`
	Requests []string `json:"requests"`
}

func (s *c01Sys) checkpoint(r *vRand, phase string, reqs []c01Req, memo map[string][]c01Row) {
	s.db.WaitForPendingChanges(s.t)
	var pairs []string
	var descs []string
	histCoq := make([]string, len(s.hist))
	for i, h := range s.hist {
		histCoq[i] = h.coq()
	}
	flush := func() {
		if len(pairs) == 0 {
			return
		}
		s.rec.Case("system", "history+requests", fmt.Sprintf("CSys %s %s", cqList(histCoq), cqList(pairs)),
			c01SysDesc{Cache: s.cfg, Phase: phase, History: s.histDesc(), Requests: descs}, true)
		pairs, descs = nil, nil
	}
	for _, q := range reqs {
		rows, ok := s.run(q)
		if !ok {
			s.fail("changes.error_entry", "feed", map[string]any{"history": s.histDesc(), "request": q.String()}, "the feed returned an error entry")
			continue
		}
		s.rec.Err("request")
		s.monitors(q, rows)
		if memo != nil {
			if prev, ok := memo[q.String()]; ok {
				if !c01RowsEq(prev, rows) {
					s.fail("changes.cache_independent", "flushed", map[string]any{"history": s.histDesc(), "request": q.String(), "cache": s.cfg},
						fmt.Sprintf("warm cache answered %s, after dropping the channel caches %s", c01RowsString(prev), c01RowsString(rows)))
				}
			} else {
				memo[q.String()] = rows
			}
		}
		pairs = append(pairs, fmt.Sprintf("(%s, %s)", s.reqCoq(q), c01RowsCoq(rows)))
		descs = append(descs, q.String()+" -> "+c01RowsString(rows))
		if len(pairs) >= 40 {
			flush()
		}
		// paging by last_seq must concatenate to the unpaged answer
		if q.Limit > 0 && !q.AO && r.Chance(50) {
			full, ok1 := s.run(c01Req{User: q.User, Chans: q.Chans, Since: q.Since, Limit: 0})
			var cat []c01Row
			since := q.Since
			okp := ok1
			for n := 0; n < 40; n++ {
				page, okk := s.run(c01Req{User: q.User, Chans: q.Chans, Since: since, Limit: q.Limit})
				if !okk {
					okp = false
					break
				}
				if len(page) == 0 {
					break
				}
				cat = append(cat, page...)
				last := page[len(page)-1]
				since = SequenceID{TriggeredBy: last.T, LowSeq: last.L, Seq: last.S}
			}
			s.rec.Count("system", "paged-request", "", true)
			if okp && !c01RowsEq(cat, full) {
				s.fail("changes.resume_paging", "pages", map[string]any{"history": s.histDesc(), "request": q.String(), "cache": s.cfg},
					fmt.Sprintf("pages concatenate to %s, unpaged answer %s", c01RowsString(cat), c01RowsString(full)))
			}
		}
		// merge-loop correspondence on the real per-channel feeds (admin requests: no back-fill rewriting of since)
		if q.User < 0 && r.Chance(60) {
			if feeds, hi, ok := s.adminFeeds(q); ok {
				fs := make([]string, len(feeds))
				fd := make([]string, len(feeds))
				for i, f := range feeds {
					fs[i] = c01RowsCoq(f)
					fd[i] = c01RowsString(f)
				}
				s.rec.Case("system", "merge-loop", fmt.Sprintf("CMerge %s %s %d %d 0 %s", cqList(fs), cqBool(q.AO), hi, q.Limit, c01RowsCoq(rows)),
					map[string]any{"request": q.String(), "feeds": fd, "out": c01RowsString(rows)}, len(feeds) > 1)
			}
		}
	}
	flush()
}

func (s *c01Sys) requests(r *vRand) []c01Req {
	type who struct {
		u     int
		chans [][]string
	}
	whos := []who{
		{-1, [][]string{{"*"}, {"A"}, {"B", "!"}, {"A", "B", "!"}}},
		{0, [][]string{{"*"}, {"A"}, {"A", "B"}}},
		{1, [][]string{{"*"}, {"B"}}},
		{2, [][]string{{"*"}, {"A"}}},
	}
	var sinces []SequenceID
	sinces = append(sinces, SequenceID{})
	for i := 0; i < 2 && s.maxSeq > 0; i++ {
		sinces = append(sinces, SequenceID{Seq: 1 + uint64(r.Intn(int(s.maxSeq)))})
	}
	if s.maxSeq > 2 {
		hi := 2 + uint64(r.Intn(int(s.maxSeq-1)))
		sinces = append(sinces, SequenceID{LowSeq: 1 + uint64(r.Intn(int(hi-1))), Seq: hi})
	}
	opts := []struct {
		limit int
		ao    bool
	}{{0, false}, {1, false}, {2, false}, {0, true}, {2, true}}
	var out []c01Req
	for _, w := range whos {
		for _, chs := range w.chans {
			for _, since := range sinces {
				for _, o := range opts {
					out = append(out, c01Req{User: w.u, Chans: chs, Since: since, Limit: o.limit, AO: o.ao})
				}
			}
		}
	}
	return out
}

func c01Scenario(t *testing.T, rec *vRecorder, r *vRand, cfg string, principalAPI bool, writes int) {
	s := c01NewSys(t, rec, cfg, principalAPI)
	if principalAPI {
		s.cfg += "+principal-api"
	}
	defer s.close()
	for i := 0; i < writes; i++ {
		s.write(r, 1+uint64(r.Intn(4)))
		if i == writes/2 {
			s.checkpoint(r, "mid", s.requests(r), nil)
		}
	}
	reqs := s.requests(r)
	memo := map[string][]c01Row{}
	s.checkpoint(r, "end-warm", reqs, memo)
	// drop every channel cache: the same requests must give the same answers from cold caches
	s.db.changeCache.getChannelCache().Clear()
	var sub []c01Req
	for _, q := range reqs {
		if r.Chance(50) {
			sub = append(sub, q)
		}
	}
	s.checkpoint(r, "end-flushed", sub, memo)
	rec.Size(fmt.Sprintf("history-len-%02d", (len(s.hist)+4)/5*5))
}

func c01System(t *testing.T, rec *vRecorder) {
	r := vNewRand(vSeed()*7368787 + 5)
	n := vBudget(8, 60)
	for i := 0; i < n; i++ {
		cfg := "default"
		if i%2 == 1 {
			cfg = "maxlen1"
		}
		c01Scenario(t, rec, r, cfg, i%4 >= 2, 8+r.Intn(9))
	}
}

func TestVerifC01(t *testing.T) {
	rec := vNewRecorder(t, "C01", "C01.C01_Corr")
	defer rec.Finish()
	ctx := base.TestCtx(t)
	c01Component(t, rec, ctx)
	c01System(t, rec)
}
