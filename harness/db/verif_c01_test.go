//go:build verif

package db

import (
	"context"
	"fmt"
	"hash/fnv"
	"sort"
	"strconv"
	"strings"
	"testing"
	"time"

	"github.com/couchbase/sync_gateway/auth"
	"github.com/couchbase/sync_gateway/base"
	"github.com/couchbase/sync_gateway/channels"
)

// C01 correspondence + monitors, layer 1: the real db.singleChannelCacheImpl.
//
// Every trace builds a fresh singleChannelCacheImpl (newChannelCacheWithOptions) whose
// ChannelQueryHandler is a fake backed by the harness's ground truth B (the list of all writes that
// concern the channel): it returns the latest entry per document with startSeq <= sequence <= endSeq,
// ascending, filtered to active entries when asked, cut at the limit -- the contract of QueryChannels.
// Operations: W (a write reaches the bucket), A (the caching feed delivers an entry: addToCache),
// PP (raw prependChanges), PA (pruneCacheAge, the aged entries chosen by the trace), PU (purge:
// documents leave the bucket, then Remove), GCa (GetCachedChanges), GC (GetChanges).  After every
// operation the projected cache (validFrom, [(seq, doc, rev, removed, deleted)]) and the
// operation's result are recorded; the Coq model replays the trace.

type c01E struct {
	Seq uint64 `json:"s"`
	Doc uint64 `json:"d"`
	Rev uint64 `json:"r"`
	Rm  bool   `json:"rm,omitempty"`
	Del bool   `json:"del,omitempty"`
}

func (e c01E) coq() string {
	return fmt.Sprintf("E %d %d %d %s %s", e.Seq, e.Doc, e.Rev, cqBool(e.Rm), cqBool(e.Del))
}
func (e c01E) String() string {
	s := fmt.Sprintf("%d:d%d", e.Seq, e.Doc)
	if e.Rm {
		s += "-"
	}
	if e.Del {
		s += "x"
	}
	return s
}
func c01EsCoq(l []c01E) string {
	p := make([]string, len(l))
	for i, e := range l {
		p[i] = e.coq()
	}
	return "[" + strings.Join(p, "; ") + "]"
}
func c01EsString(l []c01E) string {
	p := make([]string, len(l))
	for i, e := range l {
		p[i] = e.String()
	}
	return "[" + strings.Join(p, " ") + "]"
}
func c01EsEq(a, b []c01E) bool {
	if len(a) != len(b) {
		return false
	}
	for i := range a {
		if a[i] != b[i] {
			return false
		}
	}
	return true
}

func (e c01E) active() bool { return !e.Rm && !e.Del }

func (e c01E) logEntry() *LogEntry {
	le := &LogEntry{Sequence: e.Seq, DocID: "d" + strconv.FormatUint(e.Doc, 10), RevID: strconv.FormatUint(e.Rev, 10) + "-r",
		TimeReceived: channels.NewFeedTimestampFromNow()}
	if e.Rm {
		le.Flags |= channels.Removed
	}
	if e.Del {
		le.Flags |= channels.Deleted
	}
	return le
}
func c01FromLog(le *LogEntry) c01E {
	d, _ := strconv.ParseUint(strings.TrimPrefix(le.DocID, "d"), 10, 64)
	r, _ := strconv.ParseUint(strings.TrimSuffix(le.RevID, "-r"), 10, 64)
	return c01E{Seq: le.Sequence, Doc: d, Rev: r, Rm: le.Flags&channels.Removed != 0, Del: le.Flags&channels.Deleted != 0}
}
func c01FromLogs(l []*LogEntry) []c01E {
	out := make([]c01E, 0, len(l))
	for _, le := range l {
		if le == nil {
			out = append(out, c01E{Seq: 0, Doc: 999999})
			continue
		}
		out = append(out, c01FromLog(le))
	}
	return out
}

// ---------- ground truth (Go side, independent of the Coq model) ----------
func c01Latest(B []c01E) []c01E {
	var out []c01E
	for _, e := range B {
		latest := true
		for _, x := range B {
			if x.Doc == e.Doc && x.Seq > e.Seq {
				latest = false
				break
			}
		}
		if latest {
			out = append(out, e)
		}
	}
	sort.SliceStable(out, func(i, j int) bool { return out[i].Seq < out[j].Seq })
	return out
}
func c01Truth(B []c01E, since uint64) []c01E {
	out := []c01E{}
	for _, e := range c01Latest(B) {
		if e.Seq > since {
			out = append(out, e)
		}
	}
	return out
}
func c01In(e c01E, l []c01E) bool {
	for _, x := range l {
		if x == e {
			return true
		}
	}
	return false
}

type c01QH struct {
	B       *[]c01E
	queries int
}

func (q *c01QH) getChangesInChannelFromQuery(ctx context.Context, channel string, startSeq, endSeq uint64, limit int, activeOnly bool) (LogEntries, error) {
	q.queries++
	out := make(LogEntries, 0)
	for _, e := range c01Latest(*q.B) {
		if e.Seq < startSeq || e.Seq > endSeq {
			continue
		}
		if activeOnly && !e.active() {
			continue
		}
		out = append(out, e.logEntry())
		if limit > 0 && len(out) >= limit {
			break
		}
	}
	return out, nil
}

// ---------- operations ----------
type c01Op struct {
	K     string  `json:"op"`
	E     *c01E   `json:"e,omitempty"`
	R     bool    `json:"removal,omitempty"`
	Ch    []c01E  `json:"changes,omitempty"`
	A     uint64  `json:"a,omitempty"`
	B     uint64  `json:"b,omitempty"`
	L     []uint64 `json:"l,omitempty"`
	Since uint64  `json:"since,omitempty"`
	Limit int     `json:"limit,omitempty"`
	AO    bool    `json:"active_only,omitempty"`
	// FD / BF: changesFeed with since token (Trig, Low, Since), request limit Limit, ChannelQueryLimit QLimit
	Trig   uint64 `json:"trig,omitempty"`
	Low    uint64 `json:"low,omitempty"`
	QLimit int    `json:"qlimit,omitempty"`
}

func (o c01Op) coq() string {
	switch o.K {
	case "FD", "BF":
		return fmt.Sprintf("%s %d %d %d %d %s %d", o.K, o.Trig, o.Low, o.Since, o.Limit, cqBool(o.AO), o.QLimit)
	case "BG":
		return fmt.Sprintf("BG %d %d %s", o.Since, o.Limit, cqBool(o.AO))
	case "W":
		return "W (" + o.E.coq() + ")"
	case "A":
		return "A (" + o.E.coq() + ") " + cqBool(o.R)
	case "PP":
		return fmt.Sprintf("PP %s %d %d", c01EsCoq(o.Ch), o.A, o.B)
	case "PA":
		return "PA " + cqNList(o.L)
	case "PU":
		return "PU " + cqNList(o.L)
	case "GCa":
		return fmt.Sprintf("GCa %d %d", o.Since, o.Limit)
	}
	return fmt.Sprintf("GC %d %d %s", o.Since, o.Limit, cqBool(o.AO))
}
func (o c01Op) String() string {
	switch o.K {
	case "FD", "BF":
		ao := ""
		if o.AO {
			ao = ",active"
		}
		return fmt.Sprintf("%s(%s,limit=%d%s,q=%d)", o.K, SequenceID{TriggeredBy: o.Trig, LowSeq: o.Low, Seq: o.Since}.String(), o.Limit, ao, o.QLimit)
	case "BG":
		ao := ""
		if o.AO {
			ao = ",active"
		}
		return fmt.Sprintf("BG(%d,%d%s)", o.Since, o.Limit, ao)
	case "W":
		return "W" + o.E.String()
	case "A":
		if o.R {
			return "Ar" + o.E.String()
		}
		return "A" + o.E.String()
	case "PP":
		return fmt.Sprintf("PP%s@%d-%d", c01EsString(o.Ch), o.A, o.B)
	case "PA":
		return fmt.Sprintf("PA%v", o.L)
	case "PU":
		return fmt.Sprintf("PU%v", o.L)
	case "GCa":
		return fmt.Sprintf("GCa(%d,%d)", o.Since, o.Limit)
	}
	ao := ""
	if o.AO {
		ao = ",active"
	}
	return fmt.Sprintf("GC(%d,%d%s)", o.Since, o.Limit, ao)
}
func c01OpsString(ops []c01Op) string {
	p := make([]string, len(ops))
	for i, o := range ops {
		p[i] = o.String()
	}
	return strings.Join(p, " ")
}

type c01Obs struct {
	VF    uint64
	Logs  []c01E
	Out   string // Coq term of type xout
	Rows  []c01E
	FRows []c01Row // rows of a changesFeed run
	Err   bool
	Runaway bool // the run had to be stopped (row flood or watchdog)
}

func (o c01Obs) coq() string {
	return fmt.Sprintf("O %d %s (%s)", o.VF, c01EsCoq(o.Logs), o.Out)
}

// ---------- one real cache + its ground truth ----------
type c01Comp struct {
	ctx    context.Context
	cache  *singleChannelCacheImpl
	qh     *c01QH
	B, F   []c01E
	maxLen int
	minLen int
	vf0    uint64
	hitBackfill bool
	hitPrune    bool
	hitPaging   bool // some changesFeed run needed more than one GetChanges call
	runaway     bool // a changesFeed run had to be stopped
	bypass      *bypassChannelCache
	col         *DatabaseCollectionWithUser // carries nothing but ChannelQueryLimit: all changesFeed reads of its receiver
}

var c01Stats *base.CacheStats

func c01CacheStats(t *testing.T) *base.CacheStats {
	if c01Stats == nil {
		stats, err := base.NewSyncGatewayStats()
		if err != nil {
			t.Fatalf("stats: %v", err)
		}
		dbstats, err := stats.NewDBStats("c01", false, false, false, false, nil, nil)
		if err != nil {
			t.Fatalf("dbstats: %v", err)
		}
		c01Stats = dbstats.Cache()
	}
	return c01Stats
}

func c01NewComp(t *testing.T, ctx context.Context, vf0 uint64, maxLen, minLen int) *c01Comp {
	c := &c01Comp{ctx: ctx, maxLen: maxLen, minLen: minLen, vf0: vf0}
	c.qh = &c01QH{B: &c.B}
	c.cache = newChannelCacheWithOptions(ctx, c.qh, channels.NewID("C", 0), vf0,
		ChannelCacheOptions{ChannelCacheMaxLength: maxLen, ChannelCacheMinLength: minLen}, c01CacheStats(t))
	c.bypass = &bypassChannelCache{channel: channels.NewID("C", 0), queryHandler: c.qh}
	c.col = &DatabaseCollectionWithUser{DatabaseCollection: &DatabaseCollection{dbCtx: &DatabaseContext{Options: DatabaseContextOptions{CacheOptions: &CacheOptions{}}}}}
	return c
}

const c01CompChan = 7 // comp_chan of ChangesFeed.v

// runs the REAL changesFeed goroutine (db/changes.go) over the given SingleChannelCache
func (c *c01Comp) feed(sc SingleChannelCache, o c01Op) (rows []c01Row, ok bool) {
	c.col.dbCtx.Options.CacheOptions.ChannelQueryLimit = o.QLimit
	ctx, cancel := context.WithCancel(c.ctx)
	defer cancel()
	// a loop that never advances may also emit nothing (every row suppressed): stop it after a while
	wd := 3 * time.Second
	if c01FeedRunaways >= 3 { // already reported: a run normally takes microseconds, do not spend the budget on a broken loop
		wd = 50 * time.Millisecond
	}
	watchdog := time.AfterFunc(wd, func() { c.runaway = true; cancel() })
	defer watchdog.Stop()
	q0 := c.qh.queries
	h0 := c01Stats.ChannelCacheHits.Value() + c01Stats.ChannelCacheMisses.Value()
	ok = true
	for e := range c.col.changesFeed(ctx, sc, ChangesOptions{Since: SequenceID{TriggeredBy: o.Trig, LowSeq: o.Low, Seq: o.Since}, Limit: o.Limit, ActiveOnly: o.AO, ChangesCtx: ctx}, "") {
		if e == nil || e.Err != nil {
			ok = false
			continue
		}
		r := c01Row{T: e.Seq.TriggeredBy, L: e.Seq.LowSeq, S: e.Seq.Seq, Del: e.Deleted}
		r.ID, _ = strconv.ParseUint(strings.TrimPrefix(e.ID, "d"), 10, 64)
		if len(e.Changes) > 0 {
			r.Rev, _ = strconv.ParseUint(strings.TrimSuffix(e.Changes[0][ChangesVersionTypeRevTreeID], "-r"), 10, 64)
		}
		if len(e.Removed) > 0 {
			r.Rm = []uint64{c01CompChan}
		}
		rows = append(rows, r)
		if len(rows) > 4*len(c.B)+20 { // a loop that does not advance: stop it, the monitors report the rows
			cancel()
			c.runaway = true
			break
		}
	}
	calls := c.qh.queries - q0
	if sc == SingleChannelCache(c.cache) {
		calls = int(c01Stats.ChannelCacheHits.Value() + c01Stats.ChannelCacheMisses.Value() - h0)
	}
	c01FeedRuns++
	if calls > 1 {
		c.hitPaging = true
		c01FeedRunsPaged++
	}
	return rows, ok
}

var c01FeedRuns, c01FeedRunsPaged, c01SysBypass int64
var c01SysStuck, c01FeedRunaways int

func c01NotDocs(ds []uint64, l []c01E) []c01E {
	out := l[:0:0]
	for _, e := range l {
		keep := true
		for _, d := range ds {
			if d == e.Doc {
				keep = false
			}
		}
		if keep {
			out = append(out, e)
		}
	}
	return out
}

func (c *c01Comp) apply(o c01Op) c01Obs {
	out := "RNone"
	var rows []c01E
	switch o.K {
	case "W":
		c.B = append([]c01E{*o.E}, c.B...)
	case "A":
		c.cache.addToCache(c.ctx, o.E.logEntry(), o.R)
		d := *o.E
		if o.R {
			d.Rm = true
		}
		c.F = append([]c01E{d}, c.F...)
	case "PP":
		ch := make(LogEntries, len(o.Ch))
		for i, e := range o.Ch {
			ch[i] = e.logEntry()
		}
		c.cache.prependChanges(c.ctx, ch, o.A, o.B)
	case "PA":
		old := time.Now().Add(-2 * time.Hour)
		for _, le := range c.cache.logs {
			le.TimeReceived = channels.NewFeedTimestampFromNow()
			for _, s := range o.L {
				if s == le.Sequence {
					le.TimeReceived = channels.NewFeedTimestamp(&old)
				}
			}
		}
		c.cache.pruneCacheAge(c.ctx)
	case "PU":
		c.B = c01NotDocs(o.L, c.B)
		c.F = c01NotDocs(o.L, c.F)
		ids := make([]string, len(o.L))
		for i, d := range o.L {
			ids[i] = "d" + strconv.FormatUint(d, 10)
		}
		n := c.cache.Remove(c.ctx, 0, ids, time.Now().Add(time.Hour))
		out = fmt.Sprintf("RCount %d", n)
	case "GCa":
		vf, r := c.cache.GetCachedChanges(ChangesOptions{Since: SequenceID{Seq: o.Since}, Limit: o.Limit})
		rows = c01FromLogs(r)
		out = fmt.Sprintf("RCached %d %s", vf, c01EsCoq(rows))
	case "GC":
		q0 := c.qh.queries
		r, err := c.cache.GetChanges(c.ctx, ChangesOptions{Since: SequenceID{Seq: o.Since}, Limit: o.Limit, ActiveOnly: o.AO, ChangesCtx: c.ctx})
		if err != nil {
			out = "RNone"
		} else {
			rows = c01FromLogs(r)
			out = "RRows " + c01EsCoq(rows)
		}
		if c.qh.queries > q0 {
			c.hitBackfill = true
		}
	case "FD", "BF":
		var sc SingleChannelCache = c.cache
		if o.K == "BF" {
			sc = c.bypass
		}
		q0 := c.qh.queries
		fr, ok := c.feed(sc, o)
		if o.K == "FD" && c.qh.queries > q0 {
			c.hitBackfill = true
		}
		ob := c01Obs{VF: c.cache.validFrom, Logs: c01FromLogs(c.cache.logs), Out: "RFeed " + c01RowsCoq(fr), FRows: fr, Err: !ok && !c.runaway, Runaway: c.runaway}
		if c.runaway {
			c01FeedRunaways++
		}
		c.runaway = false
		if c.cache.validFrom > c.vf0 {
			c.hitPrune = true
		}
		return ob
	case "BG":
		r, err := c.bypass.GetChanges(c.ctx, ChangesOptions{Since: SequenceID{Seq: o.Since}, Limit: o.Limit, ActiveOnly: o.AO, ChangesCtx: c.ctx})
		if err != nil {
			out = "RNone"
		} else {
			rows = c01FromLogs(r)
			out = "RRows " + c01EsCoq(rows)
		}
	}
	if c.cache.validFrom > c.vf0 {
		c.hitPrune = true
	}
	return c01Obs{VF: c.cache.validFrom, Logs: c01FromLogs(c.cache.logs), Out: out, Rows: rows}
}

// ---------- monitors: Go-side reflections of cc_inv and of the read theorems ----------
type c01Fail struct{ mon, detail string }

func (c *c01Comp) checkInv() *c01Fail {
	logs := c01FromLogs(c.cache.logs)
	vf := c.cache.validFrom
	seen := map[uint64]bool{}
	lat := c01Latest(c.B)
	for i, e := range logs {
		if i > 0 && logs[i-1].Seq >= e.Seq {
			return &c01Fail{"cc_inv.ascending", fmt.Sprintf("logs %s not strictly ascending", c01EsString(logs))}
		}
		if seen[e.Doc] {
			return &c01Fail{"cc_inv.one_entry_per_document", fmt.Sprintf("document d%d twice in %s", e.Doc, c01EsString(logs))}
		}
		seen[e.Doc] = true
		if e.Seq < vf {
			return &c01Fail{"cc_inv.above_valid_from", fmt.Sprintf("entry %s below validFrom %d", e, vf)}
		}
		if !c01In(e, c.B) {
			return &c01Fail{"cc_inv.sound", fmt.Sprintf("cached entry %s is not a write of the channel", e)}
		}
		// (a newer DELIVERED entry of the same document may legitimately be absent while a still newer
		// write is undelivered; what is proved -- cached_is_latest -- is checked next)
		for _, f := range c.F {
			if f.Doc == e.Doc && f.Seq > e.Seq && c01In(f, lat) {
				return &c01Fail{"cc_inv.cached_is_latest", fmt.Sprintf("cached %s but the document's latest write %s was delivered", e, f)}
			}
		}
	}
	if len(logs) > c.maxLen {
		return &c01Fail{"cc_inv.length_bound", fmt.Sprintf("%d entries, max %d", len(logs), c.maxLen)}
	}
	if len(c.cache.cachedDocIDs) != len(seen) {
		return &c01Fail{"cc_inv.document_index", fmt.Sprintf("cachedDocIDs has %d keys, logs %s", len(c.cache.cachedDocIDs), c01EsString(logs))}
	}
	for d := range seen {
		if _, ok := c.cache.cachedDocIDs["d"+strconv.FormatUint(d, 10)]; !ok {
			return &c01Fail{"cc_inv.document_index", fmt.Sprintf("d%d cached but not in cachedDocIDs", d)}
		}
	}
	for _, f := range c.F {
		if f.Seq >= vf && c01In(f, lat) && !c01In(f, logs) {
			return &c01Fail{"cc_inv.complete_above_valid_from", fmt.Sprintf("delivered latest entry %s >= validFrom %d missing from %s", f, vf, c01EsString(logs))}
		}
	}
	return nil
}

func (c *c01Comp) quiescent() bool {
	for _, b := range c.B {
		if !c01In(b, c.F) {
			return false
		}
	}
	return true
}

func c01Take(n int, l []c01E) []c01E {
	if n > 0 && len(l) > n {
		return l[:n]
	}
	return l
}
func c01Active(l []c01E) []c01E {
	out := []c01E{}
	for _, e := range l {
		if e.active() {
			out = append(out, e)
		}
	}
	return out
}

// Bpre/Fpre: ground truth at the time of the read
func c01CheckRead(o c01Op, rows []c01E, B, F []c01E, quiescent bool) *c01Fail {
	seen := map[uint64]bool{}
	for i, e := range rows {
		if i > 0 && rows[i-1].Seq >= e.Seq {
			return &c01Fail{"get_changes_sound.ascending", fmt.Sprintf("rows %s", c01EsString(rows))}
		}
		if seen[e.Doc] {
			return &c01Fail{"get_changes_sound.one_row_per_document", fmt.Sprintf("rows %s", c01EsString(rows))}
		}
		seen[e.Doc] = true
		if e.Seq <= o.Since {
			return &c01Fail{"get_changes_sound.after_since", fmt.Sprintf("row %s not after %d", e, o.Since)}
		}
		if !c01In(e, B) {
			return &c01Fail{"get_changes_sound.real_entry", fmt.Sprintf("row %s is not a write of the channel", e)}
		}
	}
	if o.Limit > 0 && !o.AO && len(rows) > o.Limit {
		return &c01Fail{"get_changes_sound.limit", fmt.Sprintf("%d rows, limit %d", len(rows), o.Limit)}
	}
	truth := c01Truth(B, o.Since)
	if o.Limit == 0 && !o.AO {
		for _, f := range F {
			if f.Seq > o.Since && c01In(f, truth) && !c01In(f, rows) {
				return &c01Fail{"get_changes_complete", fmt.Sprintf("delivered latest entry %s missing from rows %s", f, c01EsString(rows))}
			}
		}
	}
	if quiescent {
		if !o.AO {
			if want := c01Take(o.Limit, truth); !c01EsEq(rows, want) {
				return &c01Fail{"get_changes_quiescent", fmt.Sprintf("rows %s, truth %s", c01EsString(rows), c01EsString(want))}
			}
		} else if o.Limit == 0 {
			if got, want := c01Active(rows), c01Active(truth); !c01EsEq(got, want) {
				return &c01Fail{"get_changes_quiescent.active_only", fmt.Sprintf("active rows %s, truth %s", c01EsString(got), c01EsString(want))}
			}
		}
	}
	return nil
}

func c01RowEntry(r c01Row) c01E {
	return c01E{Seq: r.S, Doc: r.ID, Rev: r.Rev, Rm: len(r.Rm) > 0, Del: r.Del}
}

// what changesFeed emits for a list of log entries (the inner loop of the goroutine)
func c01Emit(trig uint64, l []c01E) []c01Row {
	out := []c01Row{}
	for _, e := range l {
		if e.Seq >= trig {
			trig = 0
		}
		if trig > 0 && (e.Del || e.Rm) {
			continue
		}
		r := c01Row{T: trig, S: e.Seq, ID: e.Doc, Rev: e.Rev, Del: e.Del}
		if e.Rm {
			r.Rm = []uint64{c01CompChan}
		}
		out = append(out, r)
	}
	return out
}

// Go-side reflections of paginate_eq / paginate_eq_active_only / paginate_prefix / bypass_* (ChangesFeedProofs.v).
// B, F: ground truth at the time of the run; quiescent: nothing undelivered (always taken as true for
// the bypass cache, which reads the bucket).
func c01CheckFeed(o c01Op, ob c01Obs, B, F []c01E, quiescent bool) *c01Fail {
	if ob.Err {
		return &c01Fail{"changes_feed.error_entry", "the feed sent an error entry"}
	}
	rows := ob.FRows
	if ob.Runaway || len(rows) > 4*len(B)+20 {
		if len(rows) > 6 {
			rows = rows[:6]
		}
		return &c01Fail{"changes_feed.runaway", fmt.Sprintf("the feed did not terminate (stopped by the harness): %d writes in the channel, first rows %s", len(B), c01RowsString(rows))}
	}
	safe := SequenceID{TriggeredBy: o.Trig, LowSeq: o.Low, Seq: o.Since}.SafeSequence()
	for i, r := range rows {
		if i > 0 && rows[i-1].S >= r.S {
			return &c01Fail{"changes_feed_sound.ascending", "rows " + c01RowsString(rows)}
		}
		if r.S <= safe {
			return &c01Fail{"changes_feed_sound.after_since", fmt.Sprintf("row %s not after %d", r, safe)}
		}
		if !c01In(c01RowEntry(r), B) {
			return &c01Fail{"changes_feed_sound.real_entry", fmt.Sprintf("row %s is not a write of the channel", r)}
		}
		wantT := uint64(0)
		if r.S < o.Trig {
			wantT = o.Trig
		}
		if r.T != wantT || r.L != 0 {
			return &c01Fail{"changes_feed_sound.token", fmt.Sprintf("row %s: token should be (%d,0,%d)", r, wantT, r.S)}
		}
		if r.T > 0 && (r.Del || len(r.Rm) > 0) {
			return &c01Fail{"changes_feed_sound.backfill_filter", fmt.Sprintf("row %s is a deletion / removal inside a back-fill", r)}
		}
	}
	if o.K == "BF" {
		quiescent = true
	}
	if !quiescent {
		return nil
	}
	truth := c01Truth(B, safe)
	switch {
	case !o.AO && o.Trig == 0:
		if want := c01Emit(0, c01Take(o.Limit, truth)); !c01RowsEq(rows, want) {
			return &c01Fail{"paginate_eq", fmt.Sprintf("feed rows %s, one unlimited read cut at the limit %s", c01RowsString(rows), c01RowsString(want))}
		}
	case !o.AO:
		full := c01Emit(o.Trig, truth)
		ok := len(rows) <= len(full) && c01RowsEq(rows, full[:len(rows)]) && (len(rows) == len(full) || (o.Limit > 0 && len(rows) >= o.Limit))
		if !ok {
			return &c01Fail{"paginate_prefix", fmt.Sprintf("feed rows %s, emission of the whole answer %s, limit %d", c01RowsString(rows), c01RowsString(full), o.Limit)}
		}
	case o.Trig == 0:
		var got []c01E
		for _, r := range rows {
			got = append(got, c01RowEntry(r))
		}
		if g, w := c01Active(got), c01Active(truth); !c01EsEq(g, w) {
			return &c01Fail{"paginate_eq.active_only", fmt.Sprintf("active feed rows %s, active truth %s", c01EsString(g), c01EsString(w))}
		}
	}
	return nil
}

func c01CheckBypassGet(o c01Op, rows []c01E, B []c01E) *c01Fail {
	truth := c01Truth(B, o.Since)
	if o.AO {
		truth = c01Active(truth)
	}
	if want := c01Take(o.Limit, truth); !c01EsEq(rows, want) {
		return &c01Fail{"bypass_reads_bucket", fmt.Sprintf("bypass rows %s, want %s", c01EsString(rows), c01EsString(want))}
	}
	return nil
}

type c01Trace struct {
	VF0    uint64  `json:"valid_from"`
	MaxLen int     `json:"max_len"`
	MinLen int     `json:"min_len"`
	Ops    []c01Op `json:"-"`
	Text   string  `json:"ops"`
}

// runs one trace on a fresh real cache; monitors only when wf (the structured streams)
func c01RunTrace(t *testing.T, rec *vRecorder, ctx context.Context, stream string, tr *c01Trace, wf bool, emit bool) {
	c := c01NewComp(t, ctx, tr.VF0, tr.MaxLen, tr.MinLen)
	steps := make([]string, 0, len(tr.Ops))
	failed := false
	var prevOp c01Op
	var prevOb c01Obs
	for i, o := range tr.Ops {
		Bpre, Fpre := c.B, c.F
		q := c.quiescent()
		ob := c.apply(o)
		if emit {
			steps = append(steps, "("+o.coq()+", "+ob.coq()+")")
		}
		pOp, pOb := prevOp, prevOb
		prevOp, prevOb = o, ob
		if !wf || failed {
			continue
		}
		var f *c01Fail
		if o.K == "GC" && strings.HasPrefix(ob.Out, "RRows") {
			f = c01CheckRead(o, ob.Rows, Bpre, Fpre, q)
			// bypass_equals_cached: the same read answered just before by the bypass cache
			if f == nil && q && pOp.K == "BG" && pOp.Since == o.Since && pOp.Limit == o.Limit && pOp.AO == o.AO && strings.HasPrefix(pOb.Out, "RRows") {
				if !o.AO && !c01EsEq(pOb.Rows, ob.Rows) {
					f = &c01Fail{"bypass_equals_cached", fmt.Sprintf("bypass cache answered %s, channel cache %s", c01EsString(pOb.Rows), c01EsString(ob.Rows))}
				} else if o.AO && o.Limit == 0 && !c01EsEq(pOb.Rows, c01Active(ob.Rows)) {
					f = &c01Fail{"bypass_equals_cached.active_only", fmt.Sprintf("bypass cache answered %s, active rows of the channel cache %s", c01EsString(pOb.Rows), c01EsString(c01Active(ob.Rows)))}
				}
			}
		}
		if o.K == "FD" || o.K == "BF" {
			f = c01CheckFeed(o, ob, Bpre, Fpre, q)
			if f == nil && o.K == "FD" && q && pOp.K == "BF" && pOp.Trig == o.Trig && pOp.Low == o.Low && pOp.Since == o.Since && pOp.Limit == o.Limit && pOp.AO == o.AO && !o.AO && !c01RowsEq(pOb.FRows, ob.FRows) {
				f = &c01Fail{"bypass_feed_equals_cached_feed", fmt.Sprintf("feed over the bypass cache %s, over the channel cache %s", c01RowsString(pOb.FRows), c01RowsString(ob.FRows))}
			}
		}
		if o.K == "BG" && strings.HasPrefix(ob.Out, "RRows") {
			f = c01CheckBypassGet(o, ob.Rows, Bpre)
		}
		if f == nil {
			f = c.checkInv()
		}
		if f != nil {
			failed = true
			rec.Fail(f.mon, f.mon+"/after-"+o.K, map[string]any{"valid_from": tr.VF0, "max_len": tr.MaxLen, "min_len": tr.MinLen,
				"ops": c01OpsString(tr.Ops[:i+1])}, f.detail)
		}
	}
	tr.Text = c01OpsString(tr.Ops)
	nontrivial := c.hitBackfill || c.hitPrune || c.hitPaging
	if emit {
		rec.Case(stream, "cache-trace", fmt.Sprintf("CComp %d %d %d %s", tr.VF0, tr.MaxLen, tr.MinLen, cqList(steps)), tr, nontrivial)
	} else {
		rec.Count(stream, "cache-trace-monitored", fmt.Sprintf("%d/%d/%d/%s", tr.VF0, tr.MaxLen, tr.MinLen, tr.Text), nontrivial)
	}
	rec.Size(fmt.Sprintf("cache-trace-len-%02d", (len(tr.Ops)+4)/5*5))
}

// ---------- generators ----------
type c01Gen struct {
	next    uint64
	pending []c01E
	revs    uint64
}

func (g *c01Gen) write(doc uint64, rm, del bool) c01E {
	g.next++
	g.revs++
	return c01E{Seq: g.next, Doc: doc, Rev: g.revs, Rm: rm, Del: del}
}

// prehistory: n writes that are in the bucket before the cache exists (validFrom = n+1)
func c01Prehistory(g *c01Gen, n int) []c01Op {
	var ops []c01Op
	for i := 0; i < n; i++ {
		e := g.write(uint64(i%3+1), false, false)
		ops = append(ops, c01Op{K: "W", E: &e})
	}
	return ops
}

// the alphabet of the bounded-exhaustive enumeration, as a function of the generator state
func c01Alphabet(g *c01Gen) []string {
	a := []string{"wa1", "wa2", "wa3", "wr1", "wd2", "wo1", "wo2", "gc00", "gc01", "gcm0", "gcm1", "gca0", "gca1", "pa", "pu1"}
	if len(g.pending) > 0 {
		a = append(a, "dl")
	}
	return a
}

func c01Expand(g *c01Gen, sym string, F *[]c01E) []c01Op {
	wa := func(doc uint64, rm, del bool) []c01Op {
		e := g.write(doc, rm, del)
		b := e
		b.Rm = false
		*F = append(*F, e)
		// the bucket holds the entry with its removal flag; the feed delivers it with isRemoval
		return []c01Op{{K: "W", E: &e}, {K: "A", E: &b, R: rm}}
	}
	mid := g.next / 2
	switch sym {
	case "wa1":
		return wa(1, false, false)
	case "wa2":
		return wa(2, false, false)
	case "wa3":
		return wa(3, false, false)
	case "wr1":
		return wa(1, true, false)
	case "wd2":
		return wa(2, false, true)
	case "wo1", "wo2":
		e := g.write(uint64(sym[2]-'0'), false, false)
		g.pending = append(g.pending, e)
		return []c01Op{{K: "W", E: &e}}
	case "dl":
		e := g.pending[0]
		g.pending = g.pending[1:]
		*F = append(*F, e)
		return []c01Op{{K: "A", E: &e}}
	case "gc00":
		return []c01Op{{K: "GC", Since: 0, Limit: 0}}
	case "gc01":
		return []c01Op{{K: "GC", Since: 0, Limit: 1}}
	case "gcm0":
		return []c01Op{{K: "GC", Since: mid, Limit: 0}}
	case "gcm1":
		return []c01Op{{K: "GC", Since: mid, Limit: 2}}
	case "gca0":
		return []c01Op{{K: "GC", Since: 0, Limit: 0, AO: true}}
	case "gca1":
		return []c01Op{{K: "GC", Since: mid, Limit: 1, AO: true}}
	case "pa":
		var all []uint64
		for s := uint64(1); s <= g.next; s++ {
			all = append(all, s)
		}
		return []c01Op{{K: "PA", L: all}}
	case "pu1":
		var np []c01E
		for _, p := range g.pending {
			if p.Doc != 1 {
				np = append(np, p)
			}
		}
		g.pending = np
		return []c01Op{{K: "PU", L: []uint64{1}}}
	}
	return nil
}

func c01Hash(s string) uint64 {
	h := fnv.New64a()
	_, _ = h.Write([]byte(s))
	return h.Sum64()
}

// every symbol sequence of the given depth; each is finished by a full read so that the final
// state is observed through GetChanges as well
func c01Exhaustive(t *testing.T, rec *vRecorder, ctx context.Context, pre, maxLen, minLen, depth int, sampleMod uint64, counter *int) {
	var walk func(path []string)
	walk = func(path []string) {
		g := &c01Gen{}
		var F []c01E
		ops := c01Prehistory(g, pre)
		vf0 := g.next + 1
		var alpha []string
		for _, s := range path {
			ops = append(ops, c01Expand(g, s, &F)...)
		}
		alpha = c01Alphabet(g)
		if len(path) == depth {
			ops = append(ops, c01Op{K: "GC", Since: 0, Limit: 0})
			tr := &c01Trace{VF0: vf0, MaxLen: maxLen, MinLen: minLen, Ops: ops}
			key := fmt.Sprintf("%d/%d/%d/%s/%d", pre, maxLen, minLen, strings.Join(path, ","), vSeed())
			emit := sampleMod <= 1 || c01Hash(key)%sampleMod == 0
			c01RunTrace(t, rec, ctx, "exhaustive", tr, true, emit)
			*counter++
			return
		}
		for _, s := range alpha {
			walk(append(append([]string{}, path...), s))
		}
	}
	walk(nil)
}

// the read part of a feed trace: the request answered by the bypass cache, immediately followed by
// the same request answered through the channel cache (possibly with another ChannelQueryLimit)
func c01FeedPair(t, l, since uint64, limit int, ao bool, q1, q2 int) []c01Op {
	return []c01Op{{K: "BF", Trig: t, Low: l, Since: since, Limit: limit, AO: ao, QLimit: q1},
		{K: "FD", Trig: t, Low: l, Since: since, Limit: limit, AO: ao, QLimit: q2}}
}
func c01GetPair(since uint64, limit int, ao bool) []c01Op {
	return []c01Op{{K: "BG", Since: since, Limit: limit, AO: ao}, {K: "GC", Since: since, Limit: limit, AO: ao}}
}
func c01FeedVariants(g *c01Gen) [][]c01Op {
	mid := g.next / 2
	return [][]c01Op{
		c01FeedPair(0, 0, 0, 0, false, 1, 1),
		c01FeedPair(0, 0, 0, 0, false, 2, 2),
		c01FeedPair(0, 0, 0, 3, false, 2, 2),
		c01FeedPair(0, 0, 0, 2, false, 3, 1),
		c01FeedPair(0, 0, mid, 0, false, 1, 2),
		c01FeedPair(0, 0, 0, 0, true, 1, 1),
		c01FeedPair(0, 0, 0, 0, true, 2, 2),
		c01FeedPair(0, 0, 0, 1, true, 2, 3),
		c01FeedPair(0, 0, mid, 2, true, 1, 1),
		c01FeedPair(g.next, 0, 0, 0, false, 2, 2), // every row below the trigger: stamped, deletions / removals suppressed
		c01FeedPair(mid+1, 0, 0, 2, false, 1, 1),
		c01FeedPair(0, 1, mid+1, 0, false, 2, 2), // low::seq, read from the low sequence
		c01GetPair(0, 0, false),
		c01GetPair(0, 2, false),
		c01GetPair(mid, 1, true),
		c01GetPair(0, 0, true),
	}
}

// every sequence of [depth] state-changing symbols, then every feed variant (each on a fresh cache), then a full read
func c01ExhaustiveFeeds(t *testing.T, rec *vRecorder, ctx context.Context, pre, maxLen, minLen, depth int, sampleMod uint64, counter *int) {
	base0 := []string{"wa1", "wa2", "wa3", "wr1", "wd2", "wo1", "wo2", "pa", "pu1", "gc00", "gcm1"}
	var walk func(path []string)
	walk = func(path []string) {
		build := func() (*c01Gen, []c01Op, uint64) {
			g := &c01Gen{}
			var F []c01E
			ops := c01Prehistory(g, pre)
			vf0 := g.next + 1
			for _, s := range path {
				ops = append(ops, c01Expand(g, s, &F)...)
			}
			return g, ops, vf0
		}
		g, _, _ := build()
		if len(path) == depth {
			for vi := range c01FeedVariants(g) {
				g2, ops, vf0 := build()
				ops = append(ops, c01FeedVariants(g2)[vi]...)
				ops = append(ops, c01Op{K: "GC", Since: 0, Limit: 0})
				tr := &c01Trace{VF0: vf0, MaxLen: maxLen, MinLen: minLen, Ops: ops}
				key := fmt.Sprintf("feed/%d/%d/%d/%s/%d/%d", pre, maxLen, minLen, strings.Join(path, ","), vi, vSeed())
				emit := sampleMod <= 1 || c01Hash(key)%sampleMod == 0
				c01RunTrace(t, rec, ctx, "exhaustive-feed", tr, true, emit)
				*counter++
			}
			return
		}
		alpha := base0
		if len(g.pending) > 0 {
			alpha = append(append([]string{}, base0...), "dl")
		}
		for _, s := range alpha {
			walk(append(append([]string{}, path...), s))
		}
	}
	walk(nil)
}

func c01RandomTrace(r *vRand, length int) *c01Trace {
	maxLen := []int{1, 2, 3, 5}[r.Intn(4)]
	minLen := 1 + r.Intn(maxLen)
	if r.Chance(15) {
		minLen = maxLen + r.Intn(2)
	} else if maxLen > 1 && r.Chance(50) {
		minLen = 1
	}
	ndocs := uint64(3 + r.Intn(4))
	g := &c01Gen{}
	ops := c01Prehistory(g, []int{0, 0, 2, 4, 7}[r.Intn(5)])
	vf0 := g.next + 1
	var F []c01E
	for len(ops) < length {
		switch p := r.Intn(100); {
		case p < 34:
			e := g.write(1+uint64(r.Intn(int(ndocs))), r.Chance(12), r.Chance(12))
			b := e
			b.Rm = false
			ops = append(ops, c01Op{K: "W", E: &e}, c01Op{K: "A", E: &b, R: e.Rm})
			F = append(F, e)
		case p < 44:
			e := g.write(1+uint64(r.Intn(int(ndocs))), r.Chance(10), r.Chance(10))
			g.pending = append(g.pending, e)
			ops = append(ops, c01Op{K: "W", E: &e})
		case p < 56:
			if len(g.pending) > 0 {
				i := r.Intn(len(g.pending))
				e := g.pending[i]
				g.pending = append(append([]c01E{}, g.pending[:i]...), g.pending[i+1:]...)
				b := e
				b.Rm = false
				ops = append(ops, c01Op{K: "A", E: &b, R: e.Rm})
				F = append(F, e)
			}
		case p < 61:
			if len(F) > 0 { // duplicate delivery
				e := F[r.Intn(len(F))]
				b := e
				b.Rm = false
				ops = append(ops, c01Op{K: "A", E: &b, R: e.Rm})
			}
		case p < 76:
			since := uint64(0)
			if r.Chance(70) {
				since = uint64(r.Intn(int(g.next + 2)))
			}
			ops = append(ops, c01Op{K: "GC", Since: since, Limit: []int{0, 0, 1, 2, 3}[r.Intn(5)], AO: r.Chance(20)})
		case p < 84:
			ops = append(ops, c01RandomFeedOps(r, g)...)
		case p < 88:
			ops = append(ops, c01Op{K: "GCa", Since: uint64(r.Intn(int(g.next + 2))), Limit: r.Intn(3)})
		case p < 94:
			var aged []uint64
			cut := uint64(r.Intn(int(g.next + 2)))
			for s := uint64(1); s <= g.next; s++ {
				if s <= cut || r.Chance(15) {
					aged = append(aged, s)
				}
			}
			ops = append(ops, c01Op{K: "PA", L: aged})
		default:
			d := 1 + uint64(r.Intn(int(ndocs)))
			ds := []uint64{d}
			if r.Chance(30) {
				ds = append(ds, 1+uint64(r.Intn(int(ndocs))))
			}
			g.pending = c01NotDocs(ds, g.pending)
			F = c01NotDocs(ds, F)
			ops = append(ops, c01Op{K: "PU", L: ds})
		}
	}
	// drain: deliver everything still pending, then read from several positions (quiescent reads)
	for _, e := range g.pending {
		b := e
		b.Rm = false
		ops = append(ops, c01Op{K: "A", E: &b, R: e.Rm})
	}
	g.pending = nil
	ops = append(ops, c01Op{K: "GC", Since: uint64(r.Intn(int(g.next + 1))), Limit: r.Intn(3)})
	// quiescent: the bypass cache, the channel cache and the feeds over them must agree
	ops = append(ops, c01RandomFeedOps(r, g)...)
	ops = append(ops, c01RandomFeedOps(r, g)...)
	ops = append(ops, c01Op{K: "GC", Since: 0, Limit: 0})
	return &c01Trace{VF0: vf0, MaxLen: maxLen, MinLen: minLen, Ops: ops}
}

func c01RandomFeedOps(r *vRand, g *c01Gen) []c01Op {
	since := uint64(0)
	if r.Chance(60) {
		since = uint64(r.Intn(int(g.next + 2)))
	}
	limit := []int{0, 0, 1, 2, 3, 5}[r.Intn(6)]
	ao := r.Chance(25)
	q1, q2 := 1+r.Intn(4), 1+r.Intn(4)
	switch p := r.Intn(100); {
	case p < 30:
		return c01GetPair(since, limit, ao)
	case p < 75:
		return c01FeedPair(0, 0, since, limit, ao, q1, q2)
	case p < 90: // TriggeredBy: rows below it are stamped and filtered
		t := 1 + uint64(r.Intn(int(g.next+2)))
		s := uint64(0)
		if t > 1 && r.Chance(50) {
			s = uint64(r.Intn(int(t)))
		}
		return c01FeedPair(t, 0, s, limit, ao, q1, q2)
	default: // low::seq
		hi := 1 + uint64(r.Intn(int(g.next+1)))
		return c01FeedPair(0, uint64(r.Intn(int(hi+1))), hi, limit, ao, q1, q2)
	}
}

// adversarial: entries that are not writes of the channel, duplicate sequences, raw prepends with
// arbitrary ranges (ascending, one entry per document, nothing below changesValidFrom), mismatched
// removal flags.  Correspondence only: the hypotheses of the theorems do not hold here.
func c01AdversarialTrace(r *vRand, length int) *c01Trace {
	maxLen := []int{1, 2, 3, 5}[r.Intn(4)]
	minLen := 1 + r.Intn(maxLen+1)
	vf0 := uint64(r.Intn(6))
	var ops []c01Op
	rev := uint64(0)
	rndE := func(lo uint64) c01E {
		rev++
		return c01E{Seq: lo + uint64(r.Intn(12)), Doc: 1 + uint64(r.Intn(4)), Rev: rev, Rm: r.Chance(15), Del: r.Chance(15)}
	}
	for len(ops) < length {
		switch p := r.Intn(100); {
		case p < 20:
			e := rndE(0)
			ops = append(ops, c01Op{K: "W", E: &e})
		case p < 55:
			e := rndE(0)
			ops = append(ops, c01Op{K: "A", E: &e, R: r.Chance(20)})
		case p < 70:
			a := uint64(r.Intn(10))
			var ch []c01E
			seq := a
			used := map[uint64]bool{}
			for n := r.Intn(5); n > 0; n-- {
				seq += uint64(r.Intn(3))
				e := rndE(0)
				e.Seq = seq
				seq++
				if used[e.Doc] {
					continue
				}
				used[e.Doc] = true
				ch = append(ch, e)
			}
			ops = append(ops, c01Op{K: "PP", Ch: ch, A: a, B: a + uint64(r.Intn(12))})
		case p < 85:
			ops = append(ops, c01Op{K: "GC", Since: uint64(r.Intn(12)), Limit: r.Intn(4), AO: r.Chance(25)})
		case p < 90:
			ops = append(ops, c01Op{K: "GCa", Since: uint64(r.Intn(12)), Limit: r.Intn(3)})
		case p < 95:
			var aged []uint64
			for s := uint64(0); s < 12; s++ {
				if r.Chance(50) {
					aged = append(aged, s)
				}
			}
			ops = append(ops, c01Op{K: "PA", L: aged})
		default:
			ops = append(ops, c01Op{K: "PU", L: []uint64{1 + uint64(r.Intn(4))}})
		}
	}
	return &c01Trace{VF0: vf0, MaxLen: maxLen, MinLen: minLen, Ops: ops}
}

func c01Corpus() []*c01Trace {
	e := func(s, d uint64) *c01E { return &c01E{Seq: s, Doc: d, Rev: s} }
	wa := func(s, d uint64) []c01Op { return []c01Op{{K: "W", E: e(s, d)}, {K: "A", E: e(s, d)}} }
	cat := func(l ...[]c01Op) []c01Op {
		var o []c01Op
		for _, x := range l {
			o = append(o, x...)
		}
		return o
	}
	gc := func(since uint64, limit int) []c01Op { return []c01Op{{K: "GC", Since: since, Limit: limit}} }
	return []*c01Trace{
		// TestDuplicateDocID of the repository
		{VF0: 0, MaxLen: 5, MinLen: 1, Ops: cat(wa(1, 1), wa(2, 3), wa(3, 5), gc(0, 0), wa(4, 3), gc(0, 0), wa(5, 1), gc(0, 0), wa(6, 1), gc(0, 0))},
		// tiny cache: every read below the newest entry needs the query, the overlap element at validFrom must appear once
		{VF0: 1, MaxLen: 1, MinLen: 1, Ops: cat(wa(1, 1), wa(2, 2), wa(3, 3), gc(0, 0), gc(1, 0), gc(2, 0), gc(0, 1), gc(0, 2))},
		// late arrival below the tail, same document older and newer
		{VF0: 1, MaxLen: 3, MinLen: 1, Ops: cat([]c01Op{{K: "W", E: e(1, 1)}, {K: "W", E: e(2, 2)}, {K: "W", E: e(3, 1)}},
			[]c01Op{{K: "A", E: e(2, 2)}, {K: "A", E: e(3, 1)}, {K: "A", E: e(1, 1)}}, gc(0, 0))},
		// back-fill into a cache with room, then with a limit that cuts the query
		{VF0: 4, MaxLen: 5, MinLen: 1, Ops: cat([]c01Op{{K: "W", E: e(1, 1)}, {K: "W", E: e(2, 2)}, {K: "W", E: e(3, 3)}}, wa(4, 4), gc(0, 2), gc(2, 0), gc(0, 0))},
		// changesFeed pagination: five entries older than the cache, query limit 2: three queries, the overlap element once
		{VF0: 6, MaxLen: 2, MinLen: 1, Ops: cat([]c01Op{{K: "W", E: e(1, 1)}, {K: "W", E: e(2, 2)}, {K: "W", E: e(3, 3)}, {K: "W", E: e(4, 4)}, {K: "W", E: e(5, 5)}},
			wa(6, 6), wa(7, 7), c01FeedPair(0, 0, 0, 0, false, 2, 2), c01FeedPair(0, 0, 0, 4, false, 3, 2), c01FeedPair(0, 0, 1, 0, true, 2, 1), gc(0, 0))},
		// the same through a cache of length 5 that the first pages fill (prepend between two pages of one feed)
		{VF0: 6, MaxLen: 5, MinLen: 1, Ops: cat([]c01Op{{K: "W", E: e(1, 1)}, {K: "W", E: e(2, 2)}, {K: "W", E: e(3, 3)}, {K: "W", E: e(4, 4)}, {K: "W", E: e(5, 5)}},
			wa(6, 6), c01FeedPair(0, 0, 0, 0, false, 1, 2), c01GetPair(0, 0, false), c01GetPair(2, 2, false), gc(0, 0))},
		// back-fill token: rows below the trigger are stamped, the removal and the tombstone among them are not sent
		{VF0: 1, MaxLen: 5, MinLen: 1, Ops: cat(wa(1, 1), wa(2, 2), []c01Op{{K: "W", E: &c01E{Seq: 3, Doc: 1, Rev: 3, Rm: true}}, {K: "A", E: e(3, 1), R: true},
			{K: "W", E: &c01E{Seq: 4, Doc: 3, Rev: 4, Del: true}}, {K: "A", E: &c01E{Seq: 4, Doc: 3, Rev: 4, Del: true}}}, wa(5, 4), wa(6, 5),
			c01FeedPair(6, 0, 0, 0, false, 2, 2), c01FeedPair(6, 0, 0, 2, false, 1, 1), c01FeedPair(6, 0, 2, 0, false, 2, 3), gc(0, 0))},
	}
}

func c01Component(t *testing.T, rec *vRecorder, ctx context.Context) {
	for _, tr := range c01Corpus() {
		c01RunTrace(t, rec, ctx, "corpus", tr, true, true)
	}
	// bounded-exhaustive: all symbol sequences over the 15/16-symbol alphabet
	nEx := 0
	type cfg struct{ pre, maxLen, minLen, depth int }
	cfgs := []cfg{{0, 1, 1, 3}, {2, 1, 1, 3}, {2, 2, 1, 3}, {0, 2, 1, 3}, {2, 3, 1, 3}, {2, 5, 1, 3}, {2, 1, 1, 4}, {2, 2, 1, 4}}
	if vThorough() {
		cfgs = append(cfgs, cfg{0, 1, 1, 4}, cfg{0, 2, 1, 4}, cfg{2, 3, 1, 4}, cfg{2, 3, 2, 4}, cfg{3, 2, 1, 4})
	}
	target := vBudget(700, 8000)
	total := 0
	for _, c := range cfgs {
		n := 1
		for i := 0; i < c.depth; i++ {
			n *= 15
		}
		total += n
	}
	mod := uint64(total/target + 1)
	for _, c := range cfgs {
		c01Exhaustive(t, rec, ctx, c.pre, c.maxLen, c.minLen, c.depth, mod, &nEx)
	}
	rec.Extra("exhaustive_cache_traces", nEx)
	rec.Extra("exhaustive_sample_modulus", mod)
	// bounded-exhaustive for the feed loop and the bypass cache
	nFeed := 0
	fcfgs := []cfg{{2, 1, 1, 3}, {2, 2, 1, 3}, {0, 3, 1, 3}}
	if vThorough() {
		fcfgs = append(fcfgs, cfg{0, 1, 1, 3}, cfg{3, 2, 2, 3}, cfg{2, 5, 1, 3})
	}
	ftotal := len(fcfgs) * 12 * 12 * 12 * 16
	fmod := uint64(ftotal/vBudget(500, 6000) + 1)
	for _, c := range fcfgs {
		c01ExhaustiveFeeds(t, rec, ctx, c.pre, c.maxLen, c.minLen, c.depth, fmod, &nFeed)
	}
	rec.Extra("exhaustive_feed_traces", nFeed)
	defer func() {
		rec.Extra("changes_feed_runs", c01FeedRuns)
		rec.Extra("changes_feed_runs_with_more_than_one_page", c01FeedRunsPaged)
	}()
	rec.Extra("exhaustive_feed_sample_modulus", fmod)
	r := vNewRand(vSeed()*1000003 + 11)
	for i, n := 0, vBudget(250, 3000); i < n; i++ {
		c01RunTrace(t, rec, ctx, "random", c01RandomTrace(r, 30), true, true)
	}
	for i, n := 0, vBudget(100, 1500); i < n; i++ {
		c01RunTrace(t, rec, ctx, "adversarial", c01AdversarialTrace(r, 20), false, true)
	}
}

// =====================================================================================
// Layers 2 and 3: the real database on rosmar.
//
// A scenario creates three users (channels {A}, {A,B}, {*}) BEFORE any document exists, then runs a
// random history over 4 documents and the channels A, B, "!" (sync function channel(doc.channels)):
// create / update / channel move / delete / conflicting revision (winning or losing) / resurrect.
// The harness keeps its own shadow of every revision tree and records, per acknowledged write, the
// history entry (document, sequence, winning revision, its channels, deleted) -- the input of the
// Coq specification expected_changes.  At checkpoints, after WaitForPendingChanges, it issues
// MultiChangesFeed requests (admin and users, channel subsets and "*", handed-out and compound since
// values, limit 0/1/2, active_only), warm, with ChannelCacheMaxLength 1, and after dropping every
// channel cache; each response is recorded for the model and checked by Go-side monitors.

var c01ChanNames = []string{"*", "!", "A", "B"}

func c01ChanID(name string) uint64 {
	for i, n := range c01ChanNames {
		if n == name {
			return uint64(i)
		}
	}
	return 99
}

type c01Leaf struct {
	rev     string
	gen     int
	dig     string
	deleted bool
	chans   []uint64
	hist    []string // newest first, includes rev
}

type c01Doc struct {
	leaves []*c01Leaf
}

func (d *c01Doc) winner() *c01Leaf {
	var w *c01Leaf
	for _, l := range d.leaves {
		if w == nil {
			w = l
			continue
		}
		le, we := !l.deleted, !w.deleted
		if (le && !we) || (le == we && (l.gen > w.gen || (l.gen == w.gen && l.dig > w.dig))) {
			w = l
		}
	}
	return w
}

type c01Hop struct {
	Doc   uint64   `json:"doc"`
	Seq   uint64   `json:"seq"`
	Rev   uint64   `json:"rev"`
	Chans []uint64 `json:"chans"`
	Del   bool     `json:"del,omitempty"`
	Op    string   `json:"op"`
}

func (h c01Hop) coq() string {
	return fmt.Sprintf("H %d %d %d %s %s", h.Doc, h.Seq, h.Rev, cqNList(h.Chans), cqBool(h.Del))
}

type c01User struct {
	name  string
	id    uint64   // interned "_user/<name>"
	chans []uint64 // granted
	seq   uint64
}

type c01Row struct {
	T, L, S uint64
	ID, Rev uint64
	Del     bool
	Rm      []uint64
}

func (r c01Row) coq() string {
	return fmt.Sprintf("R %d %d %d %d %d %s %s", r.T, r.L, r.S, r.ID, r.Rev, cqBool(r.Del), cqNList(r.Rm))
}
func (r c01Row) String() string {
	s := fmt.Sprintf("%d", r.S)
	if r.T != 0 || r.L != 0 {
		s = fmt.Sprintf("%d:%d:%d", r.L, r.T, r.S)
	}
	s += fmt.Sprintf("/id%d/r%d", r.ID, r.Rev)
	if r.Del {
		s += "x"
	}
	if len(r.Rm) > 0 {
		s += fmt.Sprintf("-%v", r.Rm)
	}
	return s
}
func c01RowsCoq(l []c01Row) string {
	p := make([]string, len(l))
	for i, r := range l {
		p[i] = r.coq()
	}
	return "[" + strings.Join(p, "; ") + "]"
}
func c01RowsString(l []c01Row) string {
	p := make([]string, len(l))
	for i, r := range l {
		p[i] = r.String()
	}
	return "[" + strings.Join(p, " ") + "]"
}
func c01RowEq(a, b c01Row) bool {
	if a.T != b.T || a.L != b.L || a.S != b.S || a.ID != b.ID || a.Rev != b.Rev || a.Del != b.Del || len(a.Rm) != len(b.Rm) {
		return false
	}
	for i := range a.Rm {
		if a.Rm[i] != b.Rm[i] {
			return false
		}
	}
	return true
}
func c01RowsEq(a, b []c01Row) bool {
	if len(a) != len(b) {
		return false
	}
	for i := range a {
		if !c01RowEq(a[i], b[i]) {
			return false
		}
	}
	return true
}

type c01Req struct {
	User   int // -1 admin, else index into users
	Chans  []string
	Since  SequenceID
	Limit  int
	AO     bool
}

func (q c01Req) String() string {
	u := "admin"
	if q.User >= 0 {
		u = fmt.Sprintf("u%d", q.User+1)
	}
	ao := ""
	if q.AO {
		ao = ",active_only"
	}
	since := q.Since.String()
	if !c01Canonical(q.Since) { // a token no server prints: show the triple, its text may coincide with another token's
		since = fmt.Sprintf("(trig %d, low %d, seq %d)", q.Since.TriggeredBy, q.Since.LowSeq, q.Since.Seq)
	}
	return fmt.Sprintf("%s%v since=%s limit=%d%s", u, q.Chans, since, q.Limit, ao)
}

type c01Sys struct {
	t      *testing.T
	rec    *vRecorder
	db     *Database
	ctx    context.Context
	col    *DatabaseCollectionWithUser
	docs   map[uint64]*c01Doc
	revs   map[string]uint64
	hist   []c01Hop
	users  []*c01User
	maxSeq uint64
	cfg    string
	nconf  int
	failed map[string]bool
	lowseq bool     // every gap in the sequence order is skipped at once (CachePendingSeqMaxNum 0) and the writer leaves gaps
	api    bool     // principals created through the admin API (they own sequences)
	gaps   []uint64 // sequences reserved and never used
	nbump  int
	named  bool // the database serves a NAMED collection (collection id != 0)
	gate     *c01Gate // in front of the real DocChanged: deduplicates held mutations as the server's feed does
	recCache *c01RecCache
	impl     *channelCacheImpl
}

func c01NewSys(t *testing.T, rec *vRecorder, cfg string, principalAPI bool) *c01Sys {
	co := DefaultCacheOptions()
	lowseq, named := false, false
	for _, opt := range strings.Split(cfg, "+") {
		switch opt {
		case "maxlen1":
			co.ChannelCacheOptions.ChannelCacheMaxLength = 1
			co.ChannelCacheOptions.ChannelCacheMinLength = 1
		case "qlimit2": // changesFeed paginates: every channel read is cut into pages of two entries
			co.ChannelCacheOptions.ChannelQueryLimit = 2
		case "qlimit3":
			co.ChannelCacheOptions.ChannelQueryLimit = 3
		case "bypass0": // no channel cache may exist: every feed reads through a bypassChannelCache
			co.ChannelCacheOptions.MaxNumChannels = 0
		case "bypass1": // the first channel requested gets the only cache, all others are bypassed
			co.ChannelCacheOptions.MaxNumChannels = 1
		case "lowseq":
			co.CachePendingSeqMaxNum = 0
			lowseq = true
		case "named":
			named = true
		}
	}
	dbo := DatabaseContextOptions{AllowConflicts: base.Ptr(true), CacheOptions: &co, Scopes: GetScopesOptionsDefaultCollectionOnly(t)}
	if named {
		dbo.Scopes = nil // SetupTestDBForBucketWithOptions picks a named collection of the test bucket
	}
	db, ctx := SetupTestDBWithOptions(t, dbo)
	col, ctx := GetSingleDatabaseCollectionWithUser(ctx, t, db)
	col.ChannelMapper = channels.NewChannelMapper(ctx, channels.DocChannelsSyncFunction, db.Options.JavascriptTimeout)
	s := &c01Sys{t: t, rec: rec, db: db, ctx: ctx, col: col, docs: map[uint64]*c01Doc{}, revs: map[string]uint64{}, cfg: cfg, failed: map[string]bool{}, lowseq: lowseq, api: principalAPI, named: named}
	if named && col.GetCollectionID() == base.DefaultCollectionID {
		t.Fatalf("c01: asked for a named collection, got the default one")
	}
	s.installGate()
	a := db.Authenticator(ctx)
	for i, chs := range [][]string{{"A"}, {"A", "B"}, {"*"}} {
		name := fmt.Sprintf("u%d", i+1)
		set := base.Set{}
		var ids []uint64
		for _, c := range chs {
			set[c] = struct{}{}
			ids = append(ids, c01ChanID(c))
		}
		if principalAPI {
			// the admin API path: allocates a sequence for the principal document, grants at that sequence
			pw := "letmein"
			pc := &auth.PrincipalConfig{Name: &name, Password: &pw, ExplicitChannels: set}
			if named {
				pc = &auth.PrincipalConfig{Name: &name, Password: &pw}
				pc.SetExplicitChannels(col.ScopeName, col.Name, chs...)
			}
			if _, _, err := db.UpdatePrincipal(ctx, pc, true, true); err != nil {
				t.Fatalf("UpdatePrincipal: %v", err)
			}
		} else {
			var u auth.User
			var err error
			if named {
				// collection access of a named collection; a NON-ZERO invalidation sequence makes the next load recompute the
				// channel set (0 means "not invalidated": the set computed by NewUser, '!' only, would stay)
				if u, err = a.NewUser(name, "letmein", nil); err == nil {
					u.SetCollectionExplicitChannels(col.ScopeName, col.Name, channels.AtSequence(set, 1), 1)
				}
			} else {
				u, err = a.NewUser(name, "letmein", set)
			}
			if err != nil {
				t.Fatalf("NewUser: %v", err)
			}
			if err := a.Save(u); err != nil {
				t.Fatalf("Save user: %v", err)
			}
		}
		u2, err := a.GetUser(name)
		if err != nil || u2 == nil {
			t.Fatalf("GetUser: %v", err)
		}
		s.users = append(s.users, &c01User{name: name, id: 101 + uint64(i), chans: ids, seq: u2.Sequence()})
		if u2.Sequence() > s.maxSeq {
			s.maxSeq = u2.Sequence()
		}
	}
	return s
}

func (s *c01Sys) close() { s.db.Close(s.ctx) }

func (s *c01Sys) revID(rev string) uint64 {
	if v, ok := s.revs[rev]; ok {
		return v
	}
	v := uint64(len(s.revs) + 1)
	s.revs[rev] = v
	return v
}

func c01ChanStrings(ids []uint64) []string {
	out := make([]string, len(ids))
	for i, c := range ids {
		out[i] = c01ChanNames[c]
	}
	return out
}

func c01SplitRev(rev string) (int, string) {
	i := strings.Index(rev, "-")
	g, _ := strconv.Atoi(rev[:i])
	return g, rev[i+1:]
}

// performs one write against the real database, mirrors it in the shadow, appends the history entry
func (s *c01Sys) write(r *vRand, docN uint64) {
	docid := fmt.Sprintf("doc%d", docN)
	d := s.docs[docN]
	if d == nil {
		d = &c01Doc{}
		s.docs[docN] = d
	}
	subset := func() []uint64 {
		var out []uint64
		for _, c := range []uint64{1, 2, 3} {
			if r.Chance(40) {
				out = append(out, c)
			}
		}
		return out
	}
	body := func(chs []uint64) Body {
		s.nconf++
		return Body{"channels": c01ChanStrings(chs), "n": s.nconf}
	}
	w := d.winner()
	op := ""
	var doc *Document
	var err error
	if !(w != nil && !w.deleted && len(d.leaves) >= 3) && s.lowseq && len(s.gaps) < 3 && r.Chance(30) {
		s.gap()
	}
	switch {
	case w == nil || w.deleted:
		// create / resurrect
		op = "create"
		chs := subset()
		if r.Chance(30) {
			chs = []uint64{2}
		}
		var rev string
		rev, doc, err = s.col.Put(s.ctx, docid, body(chs))
		if err == nil {
			g, dg := c01SplitRev(rev)
			nl := &c01Leaf{rev: rev, gen: g, dig: dg, chans: chs, hist: []string{rev}}
			if w != nil {
				nl.hist = append([]string{rev}, w.hist...)
				s.replaceLeaf(d, w, nl)
				op = "resurrect"
			} else {
				d.leaves = append(d.leaves, nl)
			}
		}
	default:
		switch p := r.Intn(100); {
		case p < 50: // update / channel move
			op = "update"
			chs := subset()
			b := body(chs)
			b[BodyRev] = w.rev
			var rev string
			rev, doc, err = s.col.Put(s.ctx, docid, b)
			if err == nil {
				g, dg := c01SplitRev(rev)
				s.replaceLeaf(d, w, &c01Leaf{rev: rev, gen: g, dig: dg, chans: chs, hist: append([]string{rev}, w.hist...)})
			}
		case p < 70: // delete the winning branch
			op = "delete"
			var rev string
			rev, doc, err = s.col.DeleteDoc(s.ctx, docid, DocVersion{RevTreeID: w.rev})
			if err == nil {
				g, dg := c01SplitRev(rev)
				s.replaceLeaf(d, w, &c01Leaf{rev: rev, gen: g, dig: dg, deleted: true, hist: append([]string{rev}, w.hist...)})
			}
		default: // conflicting revision: a sibling of the winner, winning or losing
			if len(d.leaves) >= 3 {
				return
			}
			op = "conflict-lose"
			dig := fmt.Sprintf("000%d", s.nconf)
			if r.Bool() {
				op = "conflict-win"
				dig = fmt.Sprintf("zzz%d", s.nconf)
			}
			chs := subset()
			rev := fmt.Sprintf("%d-%s", w.gen, dig)
			hist := append([]string{rev}, w.hist[1:]...)
			doc, _, err = s.col.PutExistingRevWithBody(s.ctx, docid, body(chs), hist, false, ExistingVersionWithUpdateToHLV)
			if err == nil {
				d.leaves = append(d.leaves, &c01Leaf{rev: rev, gen: w.gen, dig: dig, chans: chs, hist: hist})
			}
		}
	}
	if err != nil {
		s.rec.Err("write-" + op + "-error")
		s.t.Logf("c01: write %s %s failed: %v", op, docid, err)
		return
	}
	nw := d.winner()
	if doc.GetRevTreeID() != nw.rev {
		s.fail("history_shadow", "winner/"+op, map[string]any{"doc": docid, "op": op}, fmt.Sprintf("document says current revision %s, shadow says %s", doc.GetRevTreeID(), nw.rev))
	}
	chs := nw.chans
	if nw.deleted {
		chs = nil
	}
	s.hist = append(s.hist, c01Hop{Doc: docN, Seq: doc.Sequence, Rev: s.revID(nw.rev), Chans: chs, Del: nw.deleted, Op: op})
	if doc.Sequence > s.maxSeq {
		s.maxSeq = doc.Sequence
	}
	s.rec.Err("write-" + op)
}

// reserves a sequence that no write will ever use: the next write leaves a gap, which the change cache
// (CachePendingSeqMaxNum 0) declares skipped as soon as that write arrives
func (s *c01Sys) gap() uint64 {
	n, err := s.db.sequences.nextSequence(s.ctx)
	if err != nil {
		s.t.Fatalf("nextSequence: %v", err)
	}
	s.gaps = append(s.gaps, n)
	s.rec.Err("gap")
	return n
}

// the server's low sequence as SimpleMultiChangesFeed computes it
func (s *c01Sys) low() uint64 {
	if o := s.db.changeCache.getOldestSkippedSequence(s.ctx); o > 0 {
		return o - 1
	}
	return 0
}

// gives a user's principal document a new sequence without touching the channel grants (e-mail change)
func (s *c01Sys) bumpUser(i int) {
	s.nbump++
	u := s.users[i]
	email := fmt.Sprintf("%s_%d@example.com", u.name, s.nbump)
	if _, _, err := s.db.UpdatePrincipal(s.ctx, &auth.PrincipalConfig{Name: &u.name, Email: &email}, true, true); err != nil {
		s.t.Fatalf("UpdatePrincipal(email): %v", err)
	}
	u2, err := s.db.Authenticator(s.ctx).GetUser(u.name)
	if err != nil || u2 == nil {
		s.t.Fatalf("GetUser: %v", err)
	}
	u.seq = u2.Sequence()
	if u.seq > s.maxSeq {
		s.maxSeq = u.seq
	}
	s.rec.Err("user-bump")
}

// deterministic write for the witness scenarios: create or update the document with the given channels
func (s *c01Sys) put(docN uint64, chs []uint64) {
	docid := fmt.Sprintf("doc%d", docN)
	d := s.docs[docN]
	if d == nil {
		d = &c01Doc{}
		s.docs[docN] = d
	}
	s.nconf++
	b := Body{"channels": c01ChanStrings(chs), "n": s.nconf}
	w := d.winner()
	if w != nil {
		b[BodyRev] = w.rev
	}
	rev, doc, err := s.col.Put(s.ctx, docid, b)
	if err != nil {
		s.t.Fatalf("put %s: %v", docid, err)
	}
	g, dg := c01SplitRev(rev)
	nl := &c01Leaf{rev: rev, gen: g, dig: dg, chans: chs, hist: []string{rev}}
	if w != nil {
		nl.hist = append([]string{rev}, w.hist...)
		s.replaceLeaf(d, w, nl)
	} else {
		d.leaves = append(d.leaves, nl)
	}
	s.hist = append(s.hist, c01Hop{Doc: docN, Seq: doc.Sequence, Rev: s.revID(rev), Chans: chs, Op: "put"})
	if doc.Sequence > s.maxSeq {
		s.maxSeq = doc.Sequence
	}
}

func (s *c01Sys) replaceLeaf(d *c01Doc, old, nl *c01Leaf) {
	for i, l := range d.leaves {
		if l == old {
			d.leaves[i] = nl
			return
		}
	}
	d.leaves = append(d.leaves, nl)
}

func (s *c01Sys) fail(mon, sig string, input any, detail string) {
	if s.failed[mon+sig] {
		return
	}
	s.failed[mon+sig] = true
	s.rec.Fail(mon, mon+"/"+sig, input, detail)
}

func (s *c01Sys) histDesc() []string {
	out := make([]string, len(s.hist))
	for i, h := range s.hist {
		out[i] = fmt.Sprintf("#%d %s doc%d rev%d %v del=%v", h.Seq, h.Op, h.Doc, h.Rev, c01ChanStrings(h.Chans), h.Del)
	}
	return out
}

func (s *c01Sys) collectionFor(u int) *DatabaseCollectionWithUser {
	c := *s.col
	if u >= 0 {
		usr, err := s.db.Authenticator(s.ctx).GetUser(s.users[u].name)
		if err != nil || usr == nil {
			s.t.Fatalf("GetUser: %v", err)
		}
		c.user = usr
	} else {
		c.user = nil
	}
	return &c
}

func (s *c01Sys) projectRow(e *ChangeEntry) c01Row {
	r := c01Row{T: e.Seq.TriggeredBy, L: e.Seq.LowSeq, S: e.Seq.Seq, Del: e.Deleted}
	if strings.HasPrefix(e.ID, "_user/") {
		for _, u := range s.users {
			if e.ID == "_user/"+u.name {
				r.ID = u.id
			}
		}
	} else {
		n, _ := strconv.ParseUint(strings.TrimPrefix(e.ID, "doc"), 10, 64)
		r.ID = n
	}
	if len(e.Changes) > 0 {
		r.Rev = s.revID(e.Changes[0][ChangesVersionTypeRevTreeID])
	}
	for c := range e.Removed {
		r.Rm = append(r.Rm, c01ChanID(c))
	}
	sort.Slice(r.Rm, func(i, j int) bool { return r.Rm[i] < r.Rm[j] })
	return r
}

func (s *c01Sys) run(q c01Req) ([]c01Row, bool) {
	col := s.collectionFor(q.User)
	set := base.Set{}
	for _, c := range q.Chans {
		set[c] = struct{}{}
	}
	if c01SysStuck >= 2 { // one-shot requests do not terminate: reported twice, do not spend the whole budget waiting
		return nil, false
	}
	ctx, cancel := context.WithCancel(s.ctx)
	defer cancel()
	stopped := false
	watchdog := time.AfterFunc(20*time.Second, func() { stopped = true; cancel() }) // a one-shot request that never ends
	defer watchdog.Stop()
	feed, err := col.MultiChangesFeed(ctx, set, ChangesOptions{Since: q.Since, Limit: q.Limit, ActiveOnly: q.AO, ChangesCtx: ctx})
	if err != nil || feed == nil {
		return nil, false
	}
	var rows []c01Row
	ok := true
	defer func() {
		if stopped {
			c01SysStuck++
			s.failed["changes.error_entry"+"feed"] = true // the cancelled request is reported once, as what it is
			s.fail("changes.request_does_not_terminate", "one-shot", map[string]any{"history": s.histDesc(), "request": q.String(), "cache": s.cfg}, "a one-shot request had not finished after 20 s (or had sent 10000 rows) and was cancelled by the harness")
		}
	}()
	for e := range feed {
		if len(rows) > 10000 {
			stopped = true
			cancel()
			break
		}
		if e == nil {
			continue
		}
		if e.Err != nil {
			ok = false
			continue
		}
		rows = append(rows, s.projectRow(e))
	}
	return s.reportRebuiltDeletion(q.String(), rows), ok
}

// ---------- Go-side specification helpers for the monitors ----------
func (s *c01Sys) chanLog(c uint64) []c01E {
	var out []c01E
	cur := map[uint64][]uint64{}
	has := func(l []uint64, x uint64) bool {
		for _, y := range l {
			if y == x {
				return true
			}
		}
		return false
	}
	for _, h := range s.hist {
		if c == 0 || has(h.Chans, c) {
			out = append(out, c01E{Seq: h.Seq, Doc: h.Doc, Rev: h.Rev, Del: h.Del})
		} else if has(cur[h.Doc], c) {
			out = append(out, c01E{Seq: h.Seq, Doc: h.Doc, Rev: h.Rev, Rm: true, Del: h.Del})
		}
		cur[h.Doc] = h.Chans
	}
	return out
}

func (s *c01Sys) visible(q c01Req) []uint64 {
	var req []uint64
	star := false
	for _, c := range q.Chans {
		req = append(req, c01ChanID(c))
		if c == "*" {
			star = true
		}
	}
	if q.User < 0 {
		return req
	}
	g := s.users[q.User].chans
	all := append([]uint64{1}, g...)
	gstar := false
	for _, c := range g {
		if c == 0 {
			gstar = true
		}
	}
	if star {
		return all
	}
	var out []uint64
	for _, c := range req {
		in := gstar
		for _, a := range all {
			if a == c {
				in = true
			}
		}
		if in {
			out = append(out, c)
		}
	}
	return out
}

// the position the per-channel feeds read from (norm_since / chan_since of VisibleTok.v)
func c01ChanSince(since SequenceID, low uint64) uint64 {
	if since.LowSeq != 0 && since.LowSeq == low {
		since.LowSeq = 0
	}
	if since.TriggeredBy != 0 {
		return SequenceID{LowSeq: since.LowSeq, Seq: since.TriggeredBy - 1}.SafeSequence()
	}
	return since.SafeSequence()
}

func c01Canonical(s SequenceID) bool {
	p, err := ParsePlainSequenceID(s.String())
	return err == nil && p == s
}

func (s *c01Sys) monitors(q c01Req, rows []c01Row, low uint64) {
	input := map[string]any{"history": s.histDesc(), "request": q.String(), "cache": s.cfg, "low_sequence": low}
	safe := c01ChanSince(q.Since, low)
	for i, r := range rows {
		if i > 0 {
			a := SequenceID{TriggeredBy: rows[i-1].T, LowSeq: rows[i-1].L, Seq: rows[i-1].S}
			b := SequenceID{TriggeredBy: r.T, LowSeq: r.L, Seq: r.S}
			if !a.Before(b) {
				s.fail("changes.ascending_no_duplicates", "rows", input, "rows "+c01RowsString(rows))
				return
			}
		}
		if r.S <= safe || r.T != 0 || r.L != low {
			if r.ID > 100 && !c01Canonical(q.Since) {
				continue // the user pseudo-feed of a token the server never printed is tested with Before, not with the channel position
			}
			s.fail("changes.after_since", "rows", input, fmt.Sprintf("row %s not after since %s (position %d) or not stamped with the low sequence %d", r, q.Since.String(), safe, low))
			return
		}
	}
	if q.Limit > 0 && len(rows) > q.Limit {
		s.fail("changes.limit", "rows", input, fmt.Sprintf("%d rows for limit %d", len(rows), q.Limit))
		return
	}
	vis := s.visible(q)
	type key struct{ seq, doc uint64 }
	truthRows := map[key][]uint64{} // (seq, doc) -> channels in which it is a removal (nil entry = active somewhere)
	activeSomewhere := map[key]bool{}
	for _, c := range vis {
		for _, e := range c01Truth(s.chanLog(c), safe) {
			k := key{e.Seq, e.Doc}
			if _, ok := truthRows[k]; !ok {
				truthRows[k] = nil
			}
			if e.Rm {
				truthRows[k] = append(truthRows[k], c)
			} else {
				activeSomewhere[k] = true
			}
		}
	}
	seen := map[key]bool{}
	for _, r := range rows {
		if r.ID > 100 {
			if q.User < 0 || r.ID != s.users[q.User].id {
				s.fail("changes.only_visible", "principal", input, fmt.Sprintf("row %s is another principal's document", r))
				return
			}
			continue
		}
		k := key{r.S, r.ID}
		seen[k] = true
		if _, ok := truthRows[k]; !ok {
			s.fail("changes.only_visible", "document", input, fmt.Sprintf("row %s: document %d has no entry at sequence %d in any of the visible channels %v after %d", r, r.ID, r.S, c01ChanStrings(vis), safe))
			return
		}
		want := append([]uint64{}, truthRows[k]...)
		sort.Slice(want, func(i, j int) bool { return want[i] < want[j] })
		if fmt.Sprint(want) != fmt.Sprint(append([]uint64{}, r.Rm...)) {
			s.fail("changes.removed_union", "document", input, fmt.Sprintf("row %s: removed %v, channels left at that sequence %v", r, r.Rm, want))
			return
		}
	}
	if q.Limit == 0 {
		for k := range truthRows {
			if seen[k] || k.seq > s.maxSeq {
				continue
			}
			if q.AO {
				del := false
				for _, h := range s.hist {
					if h.Seq == k.seq {
						del = h.Del
					}
				}
				if del || !activeSomewhere[k] {
					continue
				}
			}
			s.fail("changes.complete", "document", input, fmt.Sprintf("document %d changed at sequence %d in a visible channel %v after %d but has no row in %s", k.doc, k.seq, c01ChanStrings(vis), safe, c01RowsString(rows)))
			return
		}
	}
}

func (s *c01Sys) reqCoq(q c01Req, low uint64) string {
	user := "None"
	var udoc, useq uint64
	if q.User >= 0 {
		u := s.users[q.User]
		user = "(Some " + cqNList(u.chans) + ")"
		udoc, useq = u.id, u.seq
	}
	var chs []uint64
	for _, c := range q.Chans {
		chs = append(chs, c01ChanID(c))
	}
	if low != 0 {
		return fmt.Sprintf("QL %s %d %d %s %d %d %d %d %s %d %d", user, udoc, useq, cqNList(chs), q.Since.TriggeredBy, q.Since.LowSeq, q.Since.Seq, q.Limit, cqBool(q.AO), s.maxSeq, low)
	}
	return fmt.Sprintf("Q %s %d %d %s %d %d %d %d %s %d", user, udoc, useq, cqNList(chs), q.Since.TriggeredBy, q.Since.LowSeq, q.Since.Seq, q.Limit, cqBool(q.AO), s.maxSeq)
}

// per-channel feeds of an admin request, taken from the real changesFeed goroutines
func (s *c01Sys) adminFeeds(q c01Req, low uint64) (feeds [][]c01Row, hi uint64, ok bool) {
	if q.Since.LowSeq != 0 && q.Since.LowSeq == low { // as SimpleMultiChangesFeed does before building the feeds
		q.Since.LowSeq = 0
	}
	col := s.collectionFor(-1)
	ctx, cancel := context.WithCancel(s.ctx)
	defer cancel()
	hi = col.changeCache().getChannelCache().GetHighCacheSequence()
	names := append([]string{}, q.Chans...)
	sort.Strings(names)
	for _, name := range names {
		scc, err := col.changeCache().getChannelCache().getSingleChannelCache(ctx, channels.NewID(name, col.GetCollectionID()))
		if err != nil {
			return nil, 0, false
		}
		var rows []c01Row
		for e := range col.changesFeed(ctx, scc, ChangesOptions{Since: q.Since, Limit: q.Limit, ActiveOnly: q.AO, ChangesCtx: ctx}, "") {
			if e == nil || e.Err != nil {
				return nil, 0, false
			}
			rows = append(rows, s.projectRow(e))
		}
		feeds = append(feeds, s.reportRebuiltDeletion(q.String()+" (channel feed "+name+")", rows))
	}
	return feeds, hi, true
}

type c01SysDesc struct {
	Cache    string   `json:"cache"`
	Phase    string   `json:"phase"`
	History  []string `json:"history"`
	Requests []string `json:"requests"`
}

func (s *c01Sys) checkpoint(r *vRand, phase string, reqs []c01Req, memo map[string][]c01Row) {
	s.db.WaitForPendingChanges(s.t)
	s.systemCacheInv(phase + "/before-requests")
	defer s.systemCacheInv(phase + "/after-requests")
	low := s.low()
	if low != 0 {
		s.rec.Err("checkpoint-with-low-sequence")
	}
	var pairs []string
	var descs []string
	histCoq := make([]string, len(s.hist))
	for i, h := range s.hist {
		histCoq[i] = h.coq()
	}
	flush := func() {
		if len(pairs) == 0 {
			return
		}
		s.rec.Case("system", "history+requests", fmt.Sprintf("CSys %s %s", cqList(histCoq), cqList(pairs)),
			c01SysDesc{Cache: s.cfg, Phase: phase, History: s.histDesc(), Requests: descs}, true)
		pairs, descs = nil, nil
	}
	for _, q := range reqs {
		rows, ok := s.run(q)
		if !ok {
			s.fail("changes.error_entry", "feed", map[string]any{"history": s.histDesc(), "request": q.String()}, "the feed returned an error entry")
			continue
		}
		if s.low() != low {
			s.t.Fatalf("c01: the low sequence changed during a checkpoint (%d -> %d)", low, s.low())
		}
		s.rec.Err("request")
		s.rec.Err("request-since-" + c01SinceKind(q.Since, low))
		if ql := s.db.Options.CacheOptions.ChannelQueryLimit; ql < 10 && len(rows) > ql {
			s.rec.Err("request-answer-longer-than-query-limit") // some channel feed needed several pages
		}
		s.monitors(q, rows, low)
		if memo != nil {
			if prev, ok := memo[q.String()]; ok {
				if !c01RowsEq(prev, rows) {
					s.fail("changes.cache_independent", "flushed", map[string]any{"history": s.histDesc(), "request": q.String(), "cache": s.cfg},
						fmt.Sprintf("warm cache answered %s, after dropping the channel caches %s", c01RowsString(prev), c01RowsString(rows)))
				}
			} else {
				memo[q.String()] = rows
			}
		}
		pairs = append(pairs, fmt.Sprintf("(%s, %s)", s.reqCoq(q, low), c01RowsCoq(rows)))
		descs = append(descs, q.String()+" -> "+c01RowsString(rows))
		if len(pairs) >= 40 {
			flush()
		}
		// paging by last_seq must concatenate to the unpaged answer: the next page is requested from the
		// token of the last row as the server prints it (String) and parses it back (ParsePlainSequenceID).
		// Theorem C01_resume_paging: any since token the server could have printed (canonical), unchanged low sequence.
		if q.Limit > 0 && !q.AO && c01Canonical(q.Since) && r.Chance(50) {
			full, ok1 := s.run(c01Req{User: q.User, Chans: q.Chans, Since: q.Since, Limit: 0})
			var cat []c01Row
			since := q.Since
			okp := ok1
			compound := false
			for n := 0; n < 40; n++ {
				page, okk := s.run(c01Req{User: q.User, Chans: q.Chans, Since: since, Limit: q.Limit})
				if !okk {
					okp = false
					break
				}
				if len(page) == 0 {
					break
				}
				cat = append(cat, page...)
				last := page[len(page)-1]
				printed := SequenceID{TriggeredBy: last.T, LowSeq: last.L, Seq: last.S}.String()
				parsed, err := ParsePlainSequenceID(printed)
				if err != nil {
					s.fail("changes.resume_paging", "token", map[string]any{"history": s.histDesc(), "request": q.String(), "cache": s.cfg}, fmt.Sprintf("handed-out token %q does not parse: %v", printed, err))
					okp = false
					break
				}
				if parsed.LowSeq != 0 || parsed.TriggeredBy != 0 {
					compound = true
				}
				since = parsed
			}
			s.rec.Count("system", "paged-request", "", true)
			if compound {
				s.rec.Err("paged-request-resumed-from-compound-token")
			}
			if q.Since.TriggeredBy != 0 || q.Since.LowSeq != 0 {
				s.rec.Err("paged-request-started-from-compound-token")
			}
			if okp && !c01RowsEq(cat, full) {
				s.fail("changes.resume_paging", "pages", map[string]any{"history": s.histDesc(), "request": q.String(), "cache": s.cfg, "low_sequence": low},
					fmt.Sprintf("pages concatenate to %s, unpaged answer %s", c01RowsString(cat), c01RowsString(full)))
			}
		}
		// merge-loop correspondence on the real per-channel feeds (admin requests without TriggeredBy: the feeds read from the request's own token)
		if q.User < 0 && q.Since.TriggeredBy == 0 && r.Chance(60) {
			if feeds, hi, ok := s.adminFeeds(q, low); ok {
				fs := make([]string, len(feeds))
				fd := make([]string, len(feeds))
				for i, f := range feeds {
					fs[i] = c01RowsCoq(f)
					fd[i] = c01RowsString(f)
				}
				s.rec.Case("system", "merge-loop", fmt.Sprintf("CMerge %s %s %d %d %d %s", cqList(fs), cqBool(q.AO), hi, q.Limit, low, c01RowsCoq(rows)),
					map[string]any{"request": q.String(), "feeds": fd, "out": c01RowsString(rows), "low_sequence": low}, len(feeds) > 1)
			}
		}
	}
	flush()
}

func c01SinceKind(s SequenceID, low uint64) string {
	k := "simple"
	switch {
	case s.TriggeredBy != 0 && s.LowSeq != 0:
		k = "low-triggered"
	case s.TriggeredBy != 0:
		k = "triggered"
	case s.LowSeq != 0 && s.LowSeq == low:
		k = "low-current"
	case s.LowSeq != 0:
		k = "low"
	}
	if !c01Canonical(s) {
		k += "-noncanonical"
	}
	return k
}

func (s *c01Sys) requests(r *vRand) []c01Req {
	type who struct {
		u     int
		chans [][]string
	}
	whos := []who{
		{-1, [][]string{{"*"}, {"A"}, {"B", "!"}, {"A", "B", "!"}}},
		{0, [][]string{{"*"}, {"A"}, {"A", "B"}}},
		{1, [][]string{{"*"}, {"B"}}},
		{2, [][]string{{"*"}, {"A"}}},
	}
	var sinces []SequenceID
	sinces = append(sinces, SequenceID{})
	for i := 0; i < 2 && s.maxSeq > 0; i++ {
		sinces = append(sinces, SequenceID{Seq: 1 + uint64(r.Intn(int(s.maxSeq)))})
	}
	if s.maxSeq > 2 {
		hi := 2 + uint64(r.Intn(int(s.maxSeq-1)))
		sinces = append(sinces, SequenceID{LowSeq: 1 + uint64(r.Intn(int(hi-1))), Seq: hi})
		// two more tokens per checkpoint out of: TriggeredBy tokens as a server prints them during a back-fill
		// (t:s and l:t:s with s < t, l < t), a low::seq token carrying the server's current low sequence,
		// and a token no server prints (l::s with l >= s).  Tokens t:s with t <= s (never printed either) are
		// outside the model: a channel granted exactly at t is then read from s, as a back-fill in progress.
		m := s.maxSeq
		pool := []SequenceID{
			{TriggeredBy: hi, Seq: uint64(r.Intn(int(hi)))},
			{TriggeredBy: 1 + uint64(r.Intn(int(m+1))), Seq: 0},
			{TriggeredBy: hi, LowSeq: 1 + uint64(r.Intn(int(hi-1))), Seq: uint64(r.Intn(int(hi)))},
			{LowSeq: hi + uint64(r.Intn(3)), Seq: uint64(r.Intn(int(hi + 1)))},
		}
		if low := s.low(); low > 0 && low < m {
			pool = append(pool, SequenceID{LowSeq: low, Seq: low + 1 + uint64(r.Intn(int(m-low)))}, SequenceID{LowSeq: low, Seq: low + 1 + uint64(r.Intn(int(m-low)))})
		}
		for i := 0; i < 2; i++ {
			sinces = append(sinces, pool[r.Intn(len(pool))])
		}
	}
	opts := []struct {
		limit int
		ao    bool
	}{{0, false}, {1, false}, {2, false}, {0, true}, {2, true}}
	var out []c01Req
	for _, w := range whos {
		for _, chs := range w.chans {
			for _, since := range sinces {
				for _, o := range opts {
					out = append(out, c01Req{User: w.u, Chans: chs, Since: since, Limit: o.limit, AO: o.ao})
				}
			}
		}
	}
	return out
}

func c01Scenario(t *testing.T, rec *vRecorder, r *vRand, cfg string, principalAPI bool, writes int) {
	s := c01NewSys(t, rec, cfg, principalAPI)
	if principalAPI {
		s.cfg += "+principal-api"
	}
	defer s.close()
	for i := 0; i < writes; i++ {
		if r.Chance(30) {
			s.rapid(r, 1+uint64(r.Intn(4))) // 2-3 updates of one document, delivered as ONE deduplicated mutation
		} else {
			s.write(r, 1+uint64(r.Intn(4)))
		}
		if principalAPI && len(s.hist) > 0 && r.Chance(15) {
			s.bumpUser(r.Intn(len(s.users))) // the user's own row moves in between the document rows
		}
		if i == writes/2 {
			s.checkpoint(r, "mid", s.requests(r), nil)
		}
	}
	reqs := s.requests(r)
	memo := map[string][]c01Row{}
	s.checkpoint(r, "end-warm", reqs, memo)
	// drop every channel cache: the same requests must give the same answers from cold caches
	s.db.changeCache.getChannelCache().Clear()
	var sub []c01Req
	for _, q := range reqs {
		if r.Chance(50) {
			sub = append(sub, q)
		}
	}
	s.checkpoint(r, "end-flushed", sub, memo)
	s.dedupCheck()
	c01SysBypass += s.db.DbStats.Cache().ChannelCacheBypassCount.Value()
	rec.Size(fmt.Sprintf("history-len-%02d", (len(s.hist)+4)/5*5))
}

func c01System(t *testing.T, rec *vRecorder) {
	r := vNewRand(vSeed()*7368787 + 5)
	cfgs := []string{"default", "named", "maxlen1+named", "qlimit2", "bypass0", "lowseq+named", "maxlen1+qlimit3", "bypass1+qlimit2+named", "lowseq+maxlen1+qlimit2", "bypass0+lowseq+qlimit3", "qlimit2+bypass0+named", "lowseq"}
	n := vBudget(12, 72)
	for i := 0; i < n; i++ {
		c01Scenario(t, rec, r, cfgs[i%len(cfgs)], (i/2+i)%2 == 1, 8+r.Intn(9))
	}
	c01Witnesses(t, rec)
	rec.Extra("system_bypass_caches_handed_out", c01SysBypass)
}

// Replays, on the real database, of the two lemmas that delimit C01_resume_paging (VisibleResume.v).
// Neither is a defect: (1) a token no server prints ("1000::0": low sequence above the sequence) makes the channel
// feeds and the user pseudo-feed start at different positions, so paging from it does not concatenate;
// (2) when the low sequence changes between two pages (a skipped sequence is released) the resumed request
// re-sends the rows between the old low sequence and the token (at-least-once, by design).
func c01Witnesses(t *testing.T, rec *vRecorder) {
	r := vNewRand(99)
	{
		s := c01NewSys(t, rec, "default", true)
		s.cfg += "+principal-api+witness-noncanonical"
		s.put(1, []uint64{2})
		s.bumpUser(0)
		s.put(2, []uint64{2})
		s.db.WaitForPendingChanges(t)
		since, err := ParsePlainSequenceID("1000::0")
		if err != nil {
			t.Fatalf("parse: %v", err)
		}
		page1, ok1 := s.run(c01Req{User: 0, Chans: []string{"*"}, Since: since, Limit: 1})
		full, ok2 := s.run(c01Req{User: 0, Chans: []string{"*"}, Since: since, Limit: 0})
		repro := false
		if ok1 && ok2 && len(page1) == 1 {
			tok, _ := ParsePlainSequenceID(SequenceID{TriggeredBy: page1[0].T, LowSeq: page1[0].L, Seq: page1[0].S}.String())
			rest, ok3 := s.run(c01Req{User: 0, Chans: []string{"*"}, Since: tok, Limit: 0})
			repro = ok3 && !c01RowsEq(append(append([]c01Row{}, page1...), rest...), full)
		}
		rec.Extra("witness_noncanonical_token_paging_differs", repro)
		// the same requests as correspondence cases: the model must predict exactly these rows
		s.checkpoint(r, "witness", []c01Req{{User: 0, Chans: []string{"*"}, Since: since, Limit: 1}, {User: 0, Chans: []string{"*"}, Since: since, Limit: 0},
			{User: 0, Chans: []string{"*"}, Since: SequenceID{Seq: s.hist[0].Seq}, Limit: 0}}, nil)
		s.close()
	}
	{
		s := c01NewSys(t, rec, "lowseq", false)
		s.cfg += "+witness-low-change"
		s.put(1, []uint64{2})
		g := s.gap()
		s.put(2, []uint64{2})
		s.put(3, []uint64{2})
		s.put(4, []uint64{2})
		s.db.WaitForPendingChanges(t)
		low1 := s.low()
		page1, ok1 := s.run(c01Req{User: -1, Chans: []string{"*"}, Limit: 3})
		s.checkpoint(r, "witness-page1", []c01Req{{User: -1, Chans: []string{"*"}, Limit: 3}}, nil)
		repro := false
		if ok1 && len(page1) == 3 && low1 == g-1 && low1 > 0 {
			tok, _ := ParsePlainSequenceID(SequenceID{TriggeredBy: page1[2].T, LowSeq: page1[2].L, Seq: page1[2].S}.String())
			if err := s.db.sequences.releaseSequence(s.ctx, g); err != nil {
				t.Fatalf("releaseSequence: %v", err)
			}
			for i := 0; i < 500 && s.low() != 0; i++ {
				time.Sleep(10 * time.Millisecond)
			}
			if s.low() == 0 {
				page2, ok2 := s.run(c01Req{User: -1, Chans: []string{"*"}, Since: tok})
				resent := 0
				for _, a := range page1 {
					for _, b := range page2 {
						if a.S == b.S && a.ID == b.ID {
							resent++
						}
					}
				}
				repro = ok2 && tok.LowSeq == low1 && resent == 2
				s.checkpoint(r, "witness-page2", []c01Req{{User: -1, Chans: []string{"*"}, Since: tok}}, nil)
			}
		}
		t.Logf("c01 witness low-change: gap %d low1 %d page1 %s repro %v", g, low1, c01RowsString(page1), repro)
		rec.Extra("witness_low_sequence_change_resends", repro)
		s.close()
	}
}

func TestVerifC01(t *testing.T) {
	rec := vNewRecorder(t, "C01", "C01.C01_Corr")
	defer rec.Finish()
	ctx := base.TestCtx(t)
	c01Wakeup(t, rec) // first: its findings (liveness) lead the report
	c01Notify(t, rec, ctx)
	c01Component(t, rec, ctx)
	c01System(t, rec)
}
