//go:build verif

package db

import (
	"context"
	"encoding/json"
	"fmt"
	"os"
	"sort"
	"strings"
	"testing"

	sgbucket "github.com/couchbase/sg-bucket"
	"github.com/couchbase/sync_gateway/auth"
	"github.com/couchbase/sync_gateway/base"
	"github.com/couchbase/sync_gateway/channels"
)

// C03 -- effective access = admin grants + grants of the winning live revisions + "!" + the same for every
// existing role held.
//
// The harness drives a REAL database (rosmar, conflicts allowed) whose sync function executes channel() /
// access() / role() from document fields.  A history is a list of operations:
//   put       PutExistingRevWithBody of a chosen revision id (child of a leaf / of an interior revision, new root
//             branch, tombstone of a leaf, body rejected by the sync function)
//   setprinc  DatabaseContext.UpdatePrincipal (create when missing; admin channels / admin roles)
//   delrole   DatabaseContext.DeleteRole (soft delete or purge)     deluser  Authenticator.DeleteUser
//   loaduser  Authenticator.GetUser + InheritedCollectionChannels + RoleNames     loadrole  GetRole + channels
// Every operation and the observable it produced is emitted as one Coq case per history (model = Access.v);
// the monitors compare every load with a Go-side computation of the specification from the ground truth of the
// history (explicit sets, current winning live revisions, existing roles).

const c03SyncFn = `function(doc, oldDoc) {
	if (doc.reject) { throw({forbidden: "c03 reject"}); }
	if (doc.chans) { channel(doc.chans); }
	if (doc.acc) { for (var i = 0; i < doc.acc.length; i++) { access(doc.acc[i].to, doc.acc[i].v); } }
	if (doc.rol) { for (var i = 0; i < doc.rol.length; i++) { role(doc.rol[i].to, doc.rol[i].v); } }
}`

var c03ChanNames = []string{"!", "A", "B", "C", "D"}

type c03Rev struct {
	Gen int    `json:"gen"`
	Dig uint64 `json:"dig"`
}

func (r c03Rev) String() string { return fmt.Sprintf("%d-%032x", r.Gen, r.Dig) }
func (r c03Rev) coq() string    { return "(" + cqI(r.Gen) + "," + cqN(r.Dig) + ")" }

type c03Grant struct {
	Role bool  `json:"to_role,omitempty"` // access(): the grantee is a role
	To   int   `json:"to"`
	V    []int `json:"v"` // access(): channel indexes; role(): role indexes
}

type c03Op struct {
	Kind string `json:"kind"`
	// put
	Doc    int        `json:"doc"`
	Parent *c03Rev    `json:"parent,omitempty"`
	Rev    *c03Rev    `json:"rev,omitempty"`
	Body   string     `json:"body,omitempty"` // live | tomb | reject
	Acc    []c03Grant `json:"acc,omitempty"`
	Rol    []c03Grant `json:"rol,omitempty"`
	// principals
	User  bool  `json:"user,omitempty"`
	Who   int   `json:"who"`
	Chans []int `json:"chans,omitempty"`
	Roles []int `json:"roles,omitempty"`
	SetCh bool  `json:"set_chans,omitempty"`
	SetRo bool  `json:"set_roles,omitempty"`
	Purge bool  `json:"purge,omitempty"`
}

type c03Out struct {
	Kind   string `json:"kind"` // status | user | role
	Ok     bool   `json:"ok"`
	Exists bool   `json:"exists"`
	Chans  []int  `json:"chans,omitempty"`
	Roles  []int  `json:"roles,omitempty"`
	Raced  bool   `json:"raced,omitempty"` // loadrace: the first run of the rebuild callback produced a write that lost the CAS race
}

// ---------- ground truth of a history (the specification side of the monitors) ----------
type c03Leaf struct {
	rev  c03Rev
	tomb bool
	acc  []c03Grant
	rol  []c03Grant
}
type c03Princ struct {
	exists  bool
	deleted bool
	xch     map[int]bool
	xro     map[int]bool
}
type c03Truth struct {
	docs  map[int][]c03Leaf
	users map[int]*c03Princ
	roles map[int]*c03Princ
}

func c03NewTruth() *c03Truth {
	return &c03Truth{docs: map[int][]c03Leaf{}, users: map[int]*c03Princ{}, roles: map[int]*c03Princ{}}
}

// the winning revision: live beats deleted, then higher generation, then higher digest
func c03Winner(ls []c03Leaf) *c03Leaf {
	var w *c03Leaf
	for i := range ls {
		l := &ls[i]
		if w == nil {
			w = l
			continue
		}
		if w.tomb != l.tomb {
			if w.tomb {
				w = l
			}
			continue
		}
		if l.rev.Gen > w.rev.Gen || (l.rev.Gen == w.rev.Gen && l.rev.Dig > w.rev.Dig) {
			w = l
		}
	}
	return w
}

func (tr *c03Truth) apply(op c03Op) {
	switch op.Kind {
	case "put":
		if op.Body == "reject" {
			return
		}
		ls := tr.docs[op.Doc]
		for _, l := range ls {
			if l.rev == *op.Rev {
				return
			}
		}
		var nl []c03Leaf
		for _, l := range ls {
			if op.Parent != nil && l.rev == *op.Parent {
				continue
			}
			nl = append(nl, l)
		}
		nl = append(nl, c03Leaf{rev: *op.Rev, tomb: op.Body == "tomb", acc: op.Acc, rol: op.Rol})
		tr.docs[op.Doc] = nl
	case "setprinc", "loadrace":
		m := tr.roles
		if op.User {
			m = tr.users
		}
		p := m[op.Who]
		if p == nil || !p.exists || p.deleted {
			p = &c03Princ{exists: true, xch: map[int]bool{}, xro: map[int]bool{}}
			m[op.Who] = p
		}
		if op.SetCh {
			p.xch = map[int]bool{}
			for _, c := range op.Chans {
				p.xch[c] = true
			}
		}
		if op.SetRo && op.User {
			p.xro = map[int]bool{}
			for _, r := range op.Roles {
				p.xro[r] = true
			}
		}
	case "delrole":
		p := tr.roles[op.Who]
		if p != nil && p.exists && !p.deleted {
			if op.Purge {
				delete(tr.roles, op.Who)
			} else {
				p.deleted = true
			}
		}
	case "deluser":
		delete(tr.users, op.Who)
	case "purge":
		delete(tr.docs, op.Doc)
	}
}

func (tr *c03Truth) docGrants(role bool, who int, roleGrants bool) map[int]bool {
	res := map[int]bool{}
	for _, ls := range tr.docs {
		w := c03Winner(ls)
		if w == nil || w.tomb {
			continue
		}
		gs := w.acc
		if roleGrants {
			gs = w.rol
		}
		for _, g := range gs {
			if g.Role == role && g.To == who {
				for _, v := range g.V {
					res[v] = true
				}
			}
		}
	}
	return res
}

func (tr *c03Truth) ownChans(role bool, who int, p *c03Princ) map[int]bool {
	res := map[int]bool{0: true}
	for c := range p.xch {
		res[c] = true
	}
	for c := range tr.docGrants(role, who, false) {
		res[c] = true
	}
	return res
}

// specification of loaduser: (channels, roles) or nil when the user does not exist
func (tr *c03Truth) specUser(u int) (map[int]bool, map[int]bool) {
	p := tr.users[u]
	if p == nil || !p.exists {
		return nil, nil
	}
	ros := map[int]bool{}
	for r := range p.xro {
		ros[r] = true
	}
	for r := range tr.docGrants(false, u, true) {
		ros[r] = true
	}
	chs := tr.ownChans(false, u, p)
	for r := range ros {
		rp := tr.roles[r]
		if rp != nil && rp.exists && !rp.deleted {
			for c := range tr.ownChans(true, r, rp) {
				chs[c] = true
			}
		}
	}
	return chs, ros
}

func (tr *c03Truth) specRole(r int) map[int]bool {
	p := tr.roles[r]
	if p == nil || !p.exists || p.deleted {
		return nil
	}
	return tr.ownChans(true, r, p)
}

func c03Keys(m map[int]bool) []int {
	res := make([]int, 0, len(m))
	for k := range m {
		res = append(res, k)
	}
	sort.Ints(res)
	return res
}

func c03SameSet(a []int, m map[int]bool) (extra, missing []int) {
	seen := map[int]bool{}
	for _, x := range a {
		seen[x] = true
		if !m[x] {
			extra = append(extra, x)
		}
	}
	for x := range m {
		if !seen[x] {
			missing = append(missing, x)
		}
	}
	sort.Ints(extra)
	sort.Ints(missing)
	return
}

// ---------- the real database ----------
type c03Env struct {
	t         *testing.T
	db        *Database
	ctx       context.Context
	col       *DatabaseCollectionWithUser
	scope     string
	coll      string
	isDefault bool
	histNo    int
	worlds    int
	race      *c03RaceStore
}

func c03NewEnv(t *testing.T, defaultCollection bool) *c03Env {
	opts := DatabaseContextOptions{AllowConflicts: base.Ptr(true), BcryptCost: 4}
	if defaultCollection {
		opts.Scopes = GetScopesOptionsDefaultCollectionOnly(t)
	}
	db, ctx := SetupTestDBWithOptions(t, opts)
	db.DatabaseContext.AllowEmptyPassword = true
	col, cctx := GetSingleDatabaseCollectionWithUser(ctx, t, db)
	col.ChannelMapper = channels.NewChannelMapper(cctx, c03SyncFn, db.Options.JavascriptTimeout)
	e := &c03Env{t: t, db: db, ctx: cctx, col: col, scope: col.ScopeName, coll: col.Name}
	e.isDefault = base.IsDefaultCollection(e.scope, e.coll)
	return e
}

func (e *c03Env) close() {
	if e.race != nil {
		e.db.DatabaseContext.MetadataStore = e.race.DataStore
	}
	e.db.Close(e.ctx)
}

// c03RaceStore decorates the metadata store (where principal documents live): when armed for a key, the next
// Update of that key runs the edit AFTER the first run of the update callback and BEFORE its compare-and-swap
// write, exactly once (nested updates of the same key by the edit itself are not intercepted).
type c03RaceStore struct {
	base.DataStore
	armKey     string
	edit       func()
	fired      bool
	firstWrote bool // the first run of the callback returned a document to write
	calls      int  // runs of the callback of the intercepted Update
}

func (s *c03RaceStore) arm(key string, edit func()) {
	s.armKey, s.edit, s.fired, s.firstWrote, s.calls = key, edit, false, false, 0
}

func (s *c03RaceStore) Update(ctx context.Context, k string, exp uint32, cb sgbucket.UpdateFunc) (uint64, error) {
	if s.armKey == "" || k != s.armKey {
		return s.DataStore.Update(ctx, k, exp, cb)
	}
	edit := s.edit
	s.armKey, s.edit = "", nil
	wrapped := func(cur []byte) ([]byte, *uint32, bool, error) {
		up, e, del, err := cb(cur)
		s.calls++
		if !s.fired {
			s.fired = true
			s.firstWrote = err == nil && up != nil
			edit()
		}
		return up, e, del, err
	}
	return s.DataStore.Update(ctx, k, exp, wrapped)
}

// the same decorator for a store that supports sub-document operations (InvalidateChannels / InvalidateRoles
// then take the same path as without the decorator)
type c03RaceSubdocStore struct {
	*c03RaceStore
	sgbucket.SubdocStore
}

func c03NewRaceEnv(t *testing.T, defaultCollection bool) *c03Env {
	e := c03NewEnv(t, defaultCollection)
	dbc := e.db.DatabaseContext
	e.race = &c03RaceStore{DataStore: dbc.MetadataStore}
	if sub, ok := base.AsSubdocStore(dbc.MetadataStore); ok {
		dbc.MetadataStore = &c03RaceSubdocStore{c03RaceStore: e.race, SubdocStore: sub}
	} else {
		dbc.MetadataStore = e.race
	}
	return e
}

func (e *c03Env) uname(i int) string { return fmt.Sprintf("h%du%d", e.histNo, i) }
func (e *c03Env) rname(i int) string { return fmt.Sprintf("h%dr%d", e.histNo, i) }
func (e *c03Env) dname(i int) string { return fmt.Sprintf("h%dd%d", e.histNo, i) }

func (e *c03Env) chanIdx(rec *vRecorder, names map[string]channels.VbSequence) ([]int, bool) {
	var res []int
	ok := true
	for n := range names {
		found := false
		for i, c := range c03ChanNames {
			if c == n {
				res = append(res, i)
				found = true
			}
		}
		if !found {
			ok = false
		}
	}
	sort.Ints(res)
	return res, ok
}

func (e *c03Env) roleIdx(names map[string]channels.VbSequence) ([]int, bool) {
	var res []int
	ok := true
	pre := fmt.Sprintf("h%dr", e.histNo)
	for n := range names {
		var i int
		if strings.HasPrefix(n, pre) {
			if _, err := fmt.Sscanf(n[len(pre):], "%d", &i); err == nil {
				res = append(res, i)
				continue
			}
		}
		ok = false
	}
	sort.Ints(res)
	return res, ok
}

func (e *c03Env) grantsJSON(gs []c03Grant, roleGrants bool) []any {
	var res []any
	for _, g := range gs {
		to := e.uname(g.To)
		if g.Role {
			to = channels.RoleAccessPrefix + e.rname(g.To)
		}
		vs := []any{}
		for _, v := range g.V {
			if roleGrants {
				vs = append(vs, channels.RoleAccessPrefix+e.rname(v))
			} else {
				vs = append(vs, c03ChanNames[v])
			}
		}
		res = append(res, map[string]any{"to": to, "v": vs})
	}
	return res
}

// run one operation on the real code
func (e *c03Env) do(rec *vRecorder, op c03Op) (c03Out, error) {
	a := e.db.Authenticator(e.ctx)
	switch op.Kind {
	case "put":
		body := Body{}
		switch op.Body {
		case "tomb":
			body[BodyDeleted] = true
		case "reject":
			body["reject"] = true
		}
		if op.Body != "tomb" {
			body["chans"] = []any{"A"}
			if len(op.Acc) > 0 {
				body["acc"] = e.grantsJSON(op.Acc, false)
			}
			if len(op.Rol) > 0 {
				body["rol"] = e.grantsJSON(op.Rol, true)
			}
		}
		hist := []string{op.Rev.String()}
		if op.Parent != nil {
			hist = append(hist, op.Parent.String())
		}
		_, _, err := e.col.PutExistingRevWithBody(e.ctx, e.dname(op.Doc), body, hist, false, ExistingVersionWithUpdateToHLV)
		if err != nil {
			st, _ := base.ErrorAsHTTPStatus(err)
			if st == 403 || st == 500 {
				return c03Out{Kind: "status", Ok: false}, nil
			}
			return c03Out{Kind: "status", Ok: false}, err
		}
		return c03Out{Kind: "status", Ok: true}, nil
	case "loadrace":
		if e.race == nil {
			return c03Out{}, fmt.Errorf("loadrace outside a race environment")
		}
		key := a.DocIDForRole(e.rname(op.Who))
		load := c03Op{Kind: "loadrole", Who: op.Who}
		if op.User {
			key = a.DocIDForUser(e.uname(op.Who))
			load = c03Op{Kind: "loaduser", Who: op.Who}
		}
		edit := op
		edit.Kind = "setprinc"
		var editErr error
		e.race.arm(key, func() { _, editErr = e.do(rec, edit) })
		out, err := e.do(rec, load)
		if !e.race.fired {
			e.race.arm("", nil)
			return out, fmt.Errorf("the load did not go through a datastore Update of %s", key)
		}
		out.Raced = e.race.firstWrote
		if err == nil && editErr != nil {
			err = fmt.Errorf("edit inside the raced load: %w", editErr)
		}
		if err == nil && out.Raced && e.race.calls < 2 {
			err = fmt.Errorf("the rebuild callback was not re-run after losing the CAS race (calls=%d)", e.race.calls)
		}
		return out, err
	case "purge":
		err := e.col.Purge(e.ctx, e.dname(op.Doc), false)
		if err != nil {
			if st, _ := base.ErrorAsHTTPStatus(err); st == 404 || base.IsDocNotFoundError(err) {
				return c03Out{Kind: "status", Ok: false}, nil
			}
			return c03Out{Kind: "status", Ok: false}, err
		}
		return c03Out{Kind: "status", Ok: true}, nil
	case "setprinc":
		name := e.rname(op.Who)
		if op.User {
			name = e.uname(op.Who)
		}
		cfg := &auth.PrincipalConfig{Name: &name}
		if op.SetCh {
			set := base.Set{}
			for _, c := range op.Chans {
				set[c03ChanNames[c]] = struct{}{}
			}
			if e.isDefault {
				cfg.ExplicitChannels = set
			} else {
				cfg.CollectionAccess = map[string]map[string]*auth.CollectionAccessConfig{e.scope: {e.coll: {ExplicitChannels_: set}}}
			}
		}
		if op.SetRo && op.User {
			set := base.Set{}
			for _, r := range op.Roles {
				set[e.rname(r)] = struct{}{}
			}
			cfg.ExplicitRoleNames = set
		}
		_, _, err := e.db.DatabaseContext.UpdatePrincipal(e.ctx, cfg, op.User, true)
		return c03Out{Kind: "status", Ok: err == nil}, err
	case "delrole":
		err := e.db.DatabaseContext.DeleteRole(e.ctx, e.rname(op.Who), op.Purge)
		if err != nil && base.IsDocNotFoundError(err) || err == base.ErrNotFound {
			return c03Out{Kind: "status", Ok: false}, nil
		}
		return c03Out{Kind: "status", Ok: err == nil}, err
	case "deluser":
		u, err := a.GetUser(e.uname(op.Who))
		if err != nil {
			return c03Out{Kind: "status"}, err
		}
		if u == nil {
			return c03Out{Kind: "status", Ok: false}, nil
		}
		err = a.DeleteUser(u)
		return c03Out{Kind: "status", Ok: err == nil}, err
	case "loaduser":
		u, err := a.GetUser(e.uname(op.Who))
		if err != nil {
			return c03Out{Kind: "user"}, err
		}
		if u == nil {
			return c03Out{Kind: "user", Exists: false}, nil
		}
		ts, err := u.InheritedCollectionChannels(e.scope, e.coll)
		if err != nil {
			return c03Out{Kind: "user"}, err
		}
		chs, ok1 := e.chanIdx(rec, ts)
		ros, ok2 := e.roleIdx(u.RoleNames())
		if !ok1 || !ok2 {
			return c03Out{Kind: "user", Exists: true, Chans: chs, Roles: ros}, fmt.Errorf("unknown channel or role name in %v / %v", ts, u.RoleNames())
		}
		if u.RoleNames() == nil {
			return c03Out{Kind: "user", Exists: true, Chans: chs, Roles: ros}, fmt.Errorf("RoleNames() is nil after GetUser")
		}
		return c03Out{Kind: "user", Exists: true, Chans: chs, Roles: ros}, nil
	case "loadrole":
		r, err := a.GetRole(e.rname(op.Who))
		if err != nil {
			return c03Out{Kind: "role"}, err
		}
		if r == nil {
			return c03Out{Kind: "role", Exists: false}, nil
		}
		ts := r.CollectionChannels(e.scope, e.coll)
		if ts == nil {
			return c03Out{Kind: "role", Exists: true}, fmt.Errorf("role channels nil (invalidated) after GetRole")
		}
		chs, ok := e.chanIdx(rec, ts)
		if !ok {
			return c03Out{Kind: "role", Exists: true, Chans: chs}, fmt.Errorf("unknown channel name in %v", ts)
		}
		return c03Out{Kind: "role", Exists: true, Chans: chs}, nil
	}
	return c03Out{}, fmt.Errorf("unknown op kind %q", op.Kind)
}

// ---------- Coq emission ----------
func c03IntList(v []int) string {
	parts := make([]string, len(v))
	for i, x := range v {
		parts[i] = cqI(x)
	}
	return "[" + strings.Join(parts, ";") + "]"
}

func c03OpCoq(op c03Op) string {
	switch op.Kind {
	case "put":
		par := "None"
		if op.Parent != nil {
			par = "(Some " + op.Parent.coq() + ")"
		}
		body := "BTomb"
		switch op.Body {
		case "reject":
			body = "BReject"
		case "live":
			var acc, rol []string
			for _, g := range op.Acc {
				k := "PU"
				if g.Role {
					k = "PR"
				}
				acc = append(acc, "("+k+" "+cqI(g.To)+","+c03IntList(g.V)+")")
			}
			for _, g := range op.Rol {
				rol = append(rol, "("+cqI(g.To)+","+c03IntList(g.V)+")")
			}
			body = "(BLive (mkV " + cqList(acc) + " " + cqList(rol) + "))"
		}
		return "Put " + cqI(op.Doc) + " " + par + " " + op.Rev.coq() + " " + body
	case "setprinc":
		ch, ro := "None", "None"
		if op.SetCh {
			ch = "(Some " + c03IntList(op.Chans) + ")"
		}
		if op.SetRo && op.User {
			ro = "(Some " + c03IntList(op.Roles) + ")"
		}
		if op.User {
			return "SetUser " + cqI(op.Who) + " " + ch + " " + ro
		}
		return "SetRole " + cqI(op.Who) + " " + ch
	case "loadrace":
		ch, ro := "None", "None"
		if op.SetCh {
			ch = "(Some " + c03IntList(op.Chans) + ")"
		}
		if op.SetRo && op.User {
			ro = "(Some " + c03IntList(op.Roles) + ")"
		}
		if op.User {
			return "LoadUserRace " + cqI(op.Who) + " " + ch + " " + ro
		}
		return "LoadRoleRace " + cqI(op.Who) + " " + ch
	case "purge":
		return "Purge " + cqI(op.Doc)
	case "delrole":
		return "DelRole " + cqI(op.Who) + " " + cqBool(op.Purge)
	case "deluser":
		return "DelUser " + cqI(op.Who)
	case "loaduser":
		return "LoadUser " + cqI(op.Who)
	case "loadrole":
		return "LoadRole " + cqI(op.Who)
	}
	return "LoadUser 0"
}

func c03OutCoq(o c03Out) string {
	switch o.Kind {
	case "status":
		return "OStatus " + cqBool(o.Ok)
	case "user":
		if !o.Exists {
			return "OUser None"
		}
		return "OUser (Some (" + c03IntList(o.Chans) + "," + c03IntList(o.Roles) + "))"
	case "role":
		if !o.Exists {
			return "ORole None"
		}
		return "ORole (Some " + c03IntList(o.Chans) + ")"
	}
	return "OStatus false"
}

// ---------- running a history ----------
type c03Failure struct {
	monitor, sig, detail string
	at                   int
}

// runs ops on a fresh name space of env; returns observables and the first monitor failure (nil if none)
func c03Run(e *c03Env, rec *vRecorder, ops []c03Op) ([]c03Out, *c03Failure) {
	e.histNo++
	tr := c03NewTruth()
	outs := make([]c03Out, 0, len(ops))
	var fail *c03Failure
	purged := false
	raced := false
	setFail := func(i int, mon, sig, detail string) {
		if fail == nil {
			// a grant that survives (or comes back after) a load whose rebuild lost a CAS race against an admin edit
			if raced && strings.HasSuffix(sig, "-extra") {
				sig = "stale-admin-grant-after-raced-rebuild"
			}
			// db/crud.go Purge does not invalidate the grantees: a grant that outlives a purged document is
			// reported under its own signature (see C03_Refuted.v)
			if purged && strings.HasSuffix(sig, "-extra") {
				sig = "purge-stale-grant"
			}
			fail = &c03Failure{monitor: mon, sig: sig, detail: detail, at: i}
		}
	}
	checkUser := func(i, who int, out c03Out, chs, ros map[int]bool, afterRace bool) {
		if afterRace {
			raced = true
		}
		if (chs != nil) != out.Exists {
			setFail(i, "access_spec", "user-existence", fmt.Sprintf("op %d: user exists=%v, spec %v", i, out.Exists, chs != nil))
		} else if chs != nil {
			if extra, missing := c03SameSet(out.Roles, ros); len(extra)+len(missing) > 0 {
				sig := "user-roles-missing"
				if len(extra) > 0 {
					sig = "user-roles-extra"
				}
				setFail(i, "access_spec", sig, fmt.Sprintf("op %d: user %d roles %v, spec %v (extra %v missing %v)", i, who, out.Roles, c03Keys(ros), extra, missing))
			}
			if extra, missing := c03SameSet(out.Chans, chs); len(extra)+len(missing) > 0 {
				sig := "user-channels-missing"
				if len(extra) > 0 {
					sig = "user-channels-extra"
				}
				setFail(i, "access_spec", sig, fmt.Sprintf("op %d: user %d channels %v, spec %v (extra %v missing %v)", i, who, out.Chans, c03Keys(chs), extra, missing))
			}
		}
	}
	checkRole := func(i, who int, out c03Out, chs map[int]bool, afterRace bool) {
		if afterRace {
			raced = true
		}
		if (chs != nil) != out.Exists {
			setFail(i, "role_spec", "role-existence", fmt.Sprintf("op %d: role exists=%v, spec %v", i, out.Exists, chs != nil))
		} else if chs != nil {
			if extra, missing := c03SameSet(out.Chans, chs); len(extra)+len(missing) > 0 {
				sig := "role-channels-missing"
				if len(extra) > 0 {
					sig = "role-channels-extra"
				}
				setFail(i, "role_spec", sig, fmt.Sprintf("op %d: role %d channels %v, spec %v (extra %v missing %v)", i, who, out.Chans, c03Keys(chs), extra, missing))
			}
		}
	}
	for i, op := range ops {
		out, err := e.do(rec, op)
		if err != nil {
			setFail(i, "operation_succeeds", "op-error:"+op.Kind, fmt.Sprintf("op %d (%s): %v", i, op.Kind, err))
		}
		outs = append(outs, out)
		switch op.Kind {
		case "purge":
			if out.Ok {
				purged = true
			}
			if want := len(tr.docs[op.Doc]) > 0; out.Ok != want && err == nil {
				setFail(i, "purge_status", "purge-status", fmt.Sprintf("op %d: purge ok=%v, expected %v", i, out.Ok, want))
			}
		case "put":
			want := op.Body != "reject"
			if out.Ok != want && err == nil {
				setFail(i, "put_status", "put-status", fmt.Sprintf("op %d: put accepted=%v, expected %v", i, out.Ok, want))
			}
		case "loaduser":
			chs, ros := tr.specUser(op.Who)
			checkUser(i, op.Who, out, chs, ros, false)
		case "loadrole":
			checkRole(i, op.Who, out, tr.specRole(op.Who), false)
		case "loadrace":
			// a raced load answers "load; edit" when the rebuild callback had nothing to write (no CAS write to
			// lose) and "edit; load" when its write lost the race and the callback ran again on the new document
			if op.User {
				chs, ros := tr.specUser(op.Who)
				tr.apply(op)
				if out.Raced {
					chs, ros = tr.specUser(op.Who)
					raced = true
				}
				checkUser(i, op.Who, out, chs, ros, out.Raced)
			} else {
				chs := tr.specRole(op.Who)
				tr.apply(op)
				if out.Raced {
					chs = tr.specRole(op.Who)
					raced = true
				}
				checkRole(i, op.Who, out, chs, out.Raced)
			}
			continue
		}
		tr.apply(op)
	}
	return outs, fail
}

func c03Case(ops []c03Op, outs []c03Out) string {
	os_ := make([]string, len(ops))
	for i, op := range ops {
		os_[i] = c03OpCoq(op)
	}
	us := make([]string, len(outs))
	for i, o := range outs {
		us[i] = c03OutCoq(o)
	}
	return "Case " + cqList(os_) + " " + cqList(us)
}

// non-trivial: the history contains a put that changes some principal's document grants in BOTH directions over
// time (a grant and later a revocation or vice versa) and a load of an existing user after it.
func c03Nontrivial(ops []c03Op, outs []c03Out) bool {
	tr := c03NewTruth()
	grew, shrank, loadedAfter := false, false, false
	for i, op := range ops {
		if op.Kind == "put" {
			before := map[string]bool{}
			for u := 0; u < 3; u++ {
				for c := range tr.docGrants(false, u, false) {
					before[fmt.Sprintf("u%dc%d", u, c)] = true
				}
				for c := range tr.docGrants(false, u, true) {
					before[fmt.Sprintf("u%dr%d", u, c)] = true
				}
			}
			for r := 0; r < 2; r++ {
				for c := range tr.docGrants(true, r, false) {
					before[fmt.Sprintf("r%dc%d", r, c)] = true
				}
			}
			tr.apply(op)
			after := map[string]bool{}
			for u := 0; u < 3; u++ {
				for c := range tr.docGrants(false, u, false) {
					after[fmt.Sprintf("u%dc%d", u, c)] = true
				}
				for c := range tr.docGrants(false, u, true) {
					after[fmt.Sprintf("u%dr%d", u, c)] = true
				}
			}
			for r := 0; r < 2; r++ {
				for c := range tr.docGrants(true, r, false) {
					after[fmt.Sprintf("r%dc%d", r, c)] = true
				}
			}
			for k := range after {
				if !before[k] {
					grew = true
				}
			}
			for k := range before {
				if !after[k] {
					shrank = true
				}
			}
			continue
		}
		tr.apply(op)
		if op.Kind == "loaduser" && outs[i].Exists && grew && shrank {
			loadedAfter = true
		}
	}
	return loadedAfter
}

// greedy shrink of a failing history: drop operations while the same monitor signature still fails
func c03Shrink(e *c03Env, rec *vRecorder, ops []c03Op, f *c03Failure) ([]c03Op, *c03Failure) {
	cur := append([]c03Op{}, ops[:f.at+1]...)
	curF := f
	budget := 120
	for changed := true; changed && budget > 0; {
		changed = false
		for i := len(cur) - 2; i >= 0 && budget > 0; i-- {
			cand := append(append([]c03Op{}, cur[:i]...), cur[i+1:]...)
			budget--
			_, f2 := c03Run(e, rec, cand)
			if f2 != nil && f2.sig == curF.sig {
				cur = cand[:f2.at+1]
				curF = f2
				changed = true
				if i > len(cur)-1 {
					i = len(cur) - 1
				}
			}
		}
	}
	return cur, curF
}

var c03Shrunk = map[string]bool{}

func c03History(e *c03Env, rec *vRecorder, stream, kind string, ops []c03Op) {
	outs, f := c03Run(e, rec, ops)
	nt := c03Nontrivial(ops, outs)
	desc := map[string]any{"ops": ops, "outs": outs, "default_collection": e.isDefault}
	rec.Case(stream, kind, c03Case(ops, outs), desc, nt)
	rec.Size(fmt.Sprintf("len%02d", (len(ops)/5)*5))
	for i, op := range ops {
		rec.hist["op_"+op.Kind]++
		if op.Kind == "put" {
			rec.hist["put_"+op.Body]++
			if !outs[i].Ok {
				rec.Err("put_rejected")
			}
		}
		if (op.Kind == "loaduser" || op.Kind == "loadrole") && !outs[i].Exists {
			rec.Err("load_missing_principal")
		}
		if op.Kind == "delrole" && !outs[i].Ok {
			rec.Err("delrole_not_found")
		}
	}
	if f != nil {
		input := map[string]any{"ops": ops[:f.at+1], "default_collection": e.isDefault}
		detail := f.detail
		if !c03Shrunk[f.sig] {
			c03Shrunk[f.sig] = true
			sops, sf := c03Shrink(e, rec, ops, f)
			input = map[string]any{"ops": sops, "default_collection": e.isDefault, "shrunk_from_ops": len(ops)}
			detail = sf.detail
		}
		rec.Fail(f.monitor, f.sig, input, detail)
	}
}

// ---------- generators ----------
type c03Gen struct {
	rnd     *vRand
	tr      *c03Truth // shadow used only to pick parents / existing principals
	nextDig uint64
	nU, nR  int
	nD      int
	adv     bool
	purge   bool
	race    bool
}

func (g *c03Gen) subset(n, pct int) []int {
	res := []int{}
	for i := 0; i < n; i++ {
		if g.rnd.Chance(pct) {
			res = append(res, i)
		}
	}
	return res
}

func (g *c03Gen) chanSubset(pct int) []int {
	res := []int{}
	for i := 1; i < len(c03ChanNames); i++ {
		if g.rnd.Chance(pct) {
			res = append(res, i)
		}
	}
	return res
}

func (g *c03Gen) verdict() ([]c03Grant, []c03Grant) {
	var acc, rol []c03Grant
	n := g.rnd.Intn(4)
	for i := 0; i < n; i++ {
		gr := c03Grant{Role: g.rnd.Chance(35)}
		if gr.Role {
			gr.To = g.rnd.Intn(g.nR)
		} else {
			gr.To = g.rnd.Intn(g.nU)
		}
		gr.V = g.chanSubset(35)
		if len(gr.V) == 0 && !(g.adv && g.rnd.Chance(30)) {
			gr.V = []int{1 + g.rnd.Intn(len(c03ChanNames)-1)}
		}
		acc = append(acc, gr)
	}
	n = g.rnd.Intn(3)
	for i := 0; i < n; i++ {
		gr := c03Grant{To: g.rnd.Intn(g.nU)}
		gr.V = g.subset(g.nR, 50)
		if len(gr.V) == 0 && !(g.adv && g.rnd.Chance(30)) {
			gr.V = []int{g.rnd.Intn(g.nR)}
		}
		rol = append(rol, gr)
	}
	return acc, rol
}

func (g *c03Gen) put() c03Op {
	d := g.rnd.Intn(g.nD)
	ls := g.tr.docs[d]
	g.nextDig++
	op := c03Op{Kind: "put", Doc: d, Body: "live"}
	shape := g.rnd.Intn(100)
	switch {
	case len(ls) == 0 || shape < 15: // new root branch (first revision, or a conflicting root)
		op.Rev = &c03Rev{Gen: 1 + g.rnd.Intn(2), Dig: g.digest()}
		if op.Rev.Gen == 2 { // root branch with an unknown parent
			op.Parent = &c03Rev{Gen: 1, Dig: g.digest()}
		}
	default:
		var l c03Leaf
		if shape < 60 {
			l = *c03Winner(ls)
		} else {
			l = ls[g.rnd.Intn(len(ls))]
		}
		p := l.rev
		op.Parent = &p
		op.Rev = &c03Rev{Gen: p.Gen + 1, Dig: g.digest()}
	}
	b := g.rnd.Intn(100)
	switch {
	case b < 22 && op.Parent != nil:
		op.Body = "tomb"
	case b < 30:
		op.Body = "reject"
		op.Acc, op.Rol = g.verdict()
	default:
		op.Acc, op.Rol = g.verdict()
	}
	return op
}

// digests are chosen so that both "new beats old" and "old beats new" occur among equal generations
func (g *c03Gen) digest() uint64 {
	g.nextDig++
	if g.rnd.Bool() {
		return 1<<40 + g.nextDig
	}
	return 1<<40 - g.nextDig
}

func (g *c03Gen) setprinc() c03Op {
	op := c03Op{Kind: "setprinc", User: g.rnd.Chance(60)}
	if op.User {
		op.Who = g.rnd.Intn(g.nU)
	} else {
		op.Who = g.rnd.Intn(g.nR)
	}
	if g.rnd.Chance(60) {
		op.SetCh = true
		op.Chans = g.chanSubset(30)
	}
	if op.User && g.rnd.Chance(50) {
		op.SetRo = true
		op.Roles = g.subset(g.nR, 45)
	}
	return op
}

func (g *c03Gen) next() c03Op {
	if g.purge && g.rnd.Chance(10) {
		return c03Op{Kind: "purge", Doc: g.rnd.Intn(g.nD)}
	}
	if g.race && g.rnd.Chance(22) {
		// a load raced by an admin edit of the same principal; half of the edits EMPTY the admin channels / roles
		op := g.setprinc()
		op.Kind = "loadrace"
		if !op.SetCh && !op.SetRo {
			op.SetCh = true
		}
		if op.SetCh && g.rnd.Bool() {
			op.Chans = []int{}
		}
		if op.SetRo && g.rnd.Bool() {
			op.Roles = []int{}
		}
		return op
	}
	k := g.rnd.Intn(100)
	w := []int{38, 22, 6, 3, 24, 7} // put setprinc delrole deluser loaduser loadrole
	if g.adv {
		w = []int{45, 14, 12, 6, 17, 6}
	}
	kinds := []string{"put", "setprinc", "delrole", "deluser", "loaduser", "loadrole"}
	acc := 0
	kind := "put"
	for i, x := range w {
		acc += x
		if k < acc {
			kind = kinds[i]
			break
		}
	}
	switch kind {
	case "put":
		return g.put()
	case "setprinc":
		return g.setprinc()
	case "delrole":
		return c03Op{Kind: "delrole", Who: g.rnd.Intn(g.nR), Purge: g.rnd.Chance(40)}
	case "deluser":
		return c03Op{Kind: "deluser", Who: g.rnd.Intn(g.nU)}
	case "loaduser":
		return c03Op{Kind: "loaduser", Who: g.rnd.Intn(g.nU)}
	}
	return c03Op{Kind: "loadrole", Who: g.rnd.Intn(g.nR)}
}

func c03LoadAll(nU, nR int) []c03Op {
	var res []c03Op
	for r := 0; r < nR; r++ {
		res = append(res, c03Op{Kind: "loadrole", Who: r})
	}
	for u := 0; u < nU; u++ {
		res = append(res, c03Op{Kind: "loaduser", Who: u})
	}
	return res
}

func c03RandomHistory(rnd *vRand, adv, purge bool, race ...bool) []c03Op {
	g := &c03Gen{rnd: rnd, tr: c03NewTruth(), nU: 3, nR: 2, nD: 4, adv: adv, purge: purge, race: len(race) > 0 && race[0]}
	if g.race {
		g.nU, g.nR, g.nD = 2, 1, 2 // concentrate: admin sets are often non-empty and principals often invalidated
	}
	n := 8 + rnd.Intn(23)
	checkAll := rnd.Chance(35)
	// in most histories the principals are created up front; in the others (and always in the adversarial stream)
	// they appear whenever the generator gets to them, i.e. often after the granting documents
	var ops []c03Op
	push := func(op c03Op) {
		ops = append(ops, op)
		g.tr.apply(op)
	}
	if !adv && rnd.Chance(50) {
		for u := 0; u < g.nU; u++ {
			push(c03Op{Kind: "setprinc", User: true, Who: u})
		}
		for r := 0; r < g.nR; r++ {
			push(c03Op{Kind: "setprinc", Who: r})
		}
	}
	for len(ops) < n {
		op := g.next()
		push(op)
		if checkAll && op.Kind != "loaduser" && op.Kind != "loadrole" {
			for _, l := range c03LoadAll(g.nU, g.nR) {
				push(l)
			}
		}
	}
	// late creation of whoever is still missing, then a final load of everybody
	for u := 0; u < g.nU; u++ {
		if p := g.tr.users[u]; p == nil {
			push(c03Op{Kind: "setprinc", User: true, Who: u})
		}
	}
	for _, l := range c03LoadAll(g.nU, g.nR) {
		push(l)
	}
	return ops
}

// ---------- corpus: one hand-written history per clause of the property ----------
func c03Corpus() map[string][]c03Op {
	r := func(g int, d uint64) *c03Rev { return &c03Rev{Gen: g, Dig: d} }
	mkU := func(u int) c03Op { return c03Op{Kind: "setprinc", User: true, Who: u} }
	mkR := func(x int) c03Op { return c03Op{Kind: "setprinc", Who: x} }
	lu := func(u int) c03Op { return c03Op{Kind: "loaduser", Who: u} }
	lr := func(x int) c03Op { return c03Op{Kind: "loadrole", Who: x} }
	put := func(d int, par, rev *c03Rev, acc, rol []c03Grant) c03Op {
		return c03Op{Kind: "put", Doc: d, Parent: par, Rev: rev, Body: "live", Acc: acc, Rol: rol}
	}
	tomb := func(d int, par, rev *c03Rev) c03Op {
		return c03Op{Kind: "put", Doc: d, Parent: par, Rev: rev, Body: "tomb"}
	}
	aU := func(u int, cs ...int) c03Grant { return c03Grant{To: u, V: cs} }
	aR := func(x int, cs ...int) c03Grant { return c03Grant{Role: true, To: x, V: cs} }
	return map[string][]c03Op{
		"grant_then_revoke_by_update": {mkU(0), lu(0), put(0, nil, r(1, 5), []c03Grant{aU(0, 1, 2)}, nil), lu(0),
			put(0, r(1, 5), r(2, 5), []c03Grant{aU(0, 2)}, nil), lu(0), put(0, r(2, 5), r(3, 5), nil, nil), lu(0)},
		"revoke_on_tombstone_and_resurrect": {mkU(0), put(0, nil, r(1, 5), []c03Grant{aU(0, 1)}, nil), lu(0),
			tomb(0, r(1, 5), r(2, 5)), lu(0), put(0, r(2, 5), r(3, 5), []c03Grant{aU(0, 3)}, nil), lu(0)},
		"principal_created_after_document": {put(0, nil, r(1, 5), []c03Grant{aU(0, 1), aR(0, 2)}, []c03Grant{aU(0, 0)}), lu(0), lr(0),
			mkU(0), lu(0), mkR(0), lu(0), lr(0)},
		"non_winning_revision_has_no_effect": {mkU(0), mkU(1), put(0, nil, r(1, 9), []c03Grant{aU(0, 1)}, nil), lu(0), lu(1),
			put(0, nil, r(1, 3), []c03Grant{aU(1, 2)}, nil), lu(0), lu(1),
			// tombstoning the winning branch promotes the other leaf: its grants appear, the old ones go
			tomb(0, r(1, 9), r(2, 9)), lu(0), lu(1),
			// a longer branch wins over the promoted one
			put(0, r(1, 3), r(2, 1), []c03Grant{aU(0, 4)}, nil), lu(0), lu(1)},
		"role_inheritance_admin_and_grant": {mkU(0), mkR(0), mkR(1),
			c03Op{Kind: "setprinc", Who: 0, SetCh: true, Chans: []int{1}},
			put(0, nil, r(1, 5), []c03Grant{aR(1, 2)}, []c03Grant{aU(0, 1)}), lu(0),
			c03Op{Kind: "setprinc", User: true, Who: 0, SetRo: true, Roles: []int{0}}, lu(0),
			c03Op{Kind: "setprinc", User: true, Who: 0, SetRo: true, Roles: []int{}}, lu(0),
			tomb(0, r(1, 5), r(2, 5)), lu(0)},
		"deleted_role_not_inherited_and_recreated": {mkU(0), mkR(0),
			c03Op{Kind: "setprinc", Who: 0, SetCh: true, Chans: []int{3}},
			c03Op{Kind: "setprinc", User: true, Who: 0, SetRo: true, Roles: []int{0}}, lu(0),
			put(0, nil, r(1, 5), []c03Grant{aR(0, 1)}, nil), lu(0),
			c03Op{Kind: "delrole", Who: 0}, lu(0), lr(0),
			put(0, r(1, 5), r(2, 5), []c03Grant{aR(0, 2)}, nil), lu(0),
			mkR(0), lu(0), lr(0),
			c03Op{Kind: "delrole", Who: 0, Purge: true}, lu(0), mkR(0), lu(0)},
		"admin_channels_both_directions": {mkU(0), c03Op{Kind: "setprinc", User: true, Who: 0, SetCh: true, Chans: []int{1, 2}}, lu(0),
			c03Op{Kind: "setprinc", User: true, Who: 0, SetCh: true, Chans: []int{2}}, lu(0),
			c03Op{Kind: "setprinc", User: true, Who: 0, SetCh: true, Chans: []int{}}, lu(0)},
		"rejected_write_has_no_effect": {mkU(0), put(0, nil, r(1, 5), []c03Grant{aU(0, 1)}, nil), lu(0),
			c03Op{Kind: "put", Doc: 0, Parent: r(1, 5), Rev: r(2, 5), Body: "reject", Acc: []c03Grant{aU(0, 2)}}, lu(0)},
		"user_deleted_and_recreated": {mkU(0), c03Op{Kind: "setprinc", User: true, Who: 0, SetCh: true, Chans: []int{4}},
			put(0, nil, r(1, 5), []c03Grant{aU(0, 1)}, nil), lu(0), c03Op{Kind: "deluser", Who: 0}, lu(0),
			put(0, r(1, 5), r(2, 5), []c03Grant{aU(0, 2)}, nil), mkU(0), lu(0)},
		"two_documents_same_grant": {mkU(0), put(0, nil, r(1, 5), []c03Grant{aU(0, 1)}, nil), put(1, nil, r(1, 6), []c03Grant{aU(0, 1)}, nil), lu(0),
			tomb(0, r(1, 5), r(2, 5)), lu(0), tomb(1, r(1, 6), r(2, 6)), lu(0)},
		// pushing a revision that is already a leaf is a no-op
		"duplicate_leaf_revision_is_noop": {mkU(0), put(0, nil, r(1, 5), []c03Grant{aU(0, 1)}, nil), lu(0),
			put(0, nil, r(1, 5), []c03Grant{aU(0, 2)}, nil), lu(0)},
		"invalidated_twice_before_load": {mkU(0), mkR(0), put(0, nil, r(1, 5), []c03Grant{aU(0, 1), aR(0, 2)}, []c03Grant{aU(0, 0)}),
			put(0, r(1, 5), r(2, 5), []c03Grant{aU(0, 3)}, nil), put(1, nil, r(1, 7), []c03Grant{aR(0, 4)}, []c03Grant{aU(0, 0, 1)}), lu(0), lr(0)},
	}
}

// ---------- bounded-exhaustive: all sequences over a small alphabet, resolved against the running state ----------
type c03Abs int

const (
	c03AMkUser c03Abs = iota
	c03AMkRole
	c03APutGrant   // child of the winner (or first revision) granting A to u0, B to r0, role r0 to u0
	c03APutPlain   // child of the winner granting nothing
	c03ATombWinner // tombstone of the winning leaf
	c03ALoser      // conflicting root branch that loses (low digest) granting C to u0
	c03AAdminRole  // admin role r0 toggled on u0
	c03ADelRole
	c03ALoad
	c03ANumAbs
)

func c03Resolve(seq []c03Abs) []c03Op {
	tr := c03NewTruth()
	var ops []c03Op
	dig := uint64(1 << 20)
	adminOn := false
	push := func(op c03Op) {
		ops = append(ops, op)
		tr.apply(op)
	}
	child := func(body string, acc, rol []c03Grant) {
		dig++
		w := c03Winner(tr.docs[0])
		op := c03Op{Kind: "put", Doc: 0, Body: body, Acc: acc, Rol: rol}
		if w == nil {
			if body == "tomb" {
				return
			}
			op.Rev = &c03Rev{Gen: 1, Dig: dig}
		} else {
			p := w.rev
			op.Parent = &p
			op.Rev = &c03Rev{Gen: p.Gen + 1, Dig: dig}
		}
		push(op)
	}
	for _, a := range seq {
		switch a {
		case c03AMkUser:
			push(c03Op{Kind: "setprinc", User: true, Who: 0})
		case c03AMkRole:
			push(c03Op{Kind: "setprinc", Who: 0})
		case c03APutGrant:
			child("live", []c03Grant{{To: 0, V: []int{1}}, {Role: true, To: 0, V: []int{2}}}, []c03Grant{{To: 0, V: []int{0}}})
		case c03APutPlain:
			child("live", nil, nil)
		case c03ATombWinner:
			child("tomb", nil, nil)
		case c03ALoser:
			dig++
			push(c03Op{Kind: "put", Doc: 0, Body: "live", Rev: &c03Rev{Gen: 1, Dig: 1<<20 - dig%1000}, Acc: []c03Grant{{To: 0, V: []int{3}}}})
		case c03AAdminRole:
			adminOn = !adminOn
			rs := []int{}
			if adminOn {
				rs = []int{0}
			}
			push(c03Op{Kind: "setprinc", User: true, Who: 0, SetRo: true, Roles: rs})
		case c03ADelRole:
			push(c03Op{Kind: "delrole", Who: 0})
		case c03ALoad:
			push(c03Op{Kind: "loaduser", Who: 0})
		}
	}
	push(c03Op{Kind: "loadrole", Who: 0})
	push(c03Op{Kind: "loaduser", Who: 0})
	return ops
}

func TestVerifC03(t *testing.T) {
	rec := vNewRecorder(t, "C03", "C03.C03_Corr")
	defer rec.Finish()
	rnd := vNewRand(vSeed())
	base.SetUpTestLogging(t, base.LevelError, base.KeyNone)

	if os.Getenv("VERIF_C03_ONLY") == "session" { // debugging aid: the session streams alone
		c03sStreams(t, rec, rnd)
		return
	}
	envs := map[bool]*c03Env{}
	used := map[bool]int{}
	env := func(def bool) *c03Env {
		// a fresh database every 40 histories keeps the access views small
		if e := envs[def]; e != nil && used[def] < 40 {
			used[def]++
			return e
		}
		if e := envs[def]; e != nil {
			e.close()
		}
		e := c03NewEnv(t, def)
		envs[def] = e
		used[def] = 1
		return e
	}
	defer func() {
		for _, e := range envs {
			if e != nil {
				e.close()
			}
		}
	}()

	// (i) corpus, on the default collection and on a named collection
	corpus := c03Corpus()
	names := make([]string, 0, len(corpus))
	for n := range corpus {
		names = append(names, n)
	}
	sort.Strings(names)
	for _, n := range names {
		for _, def := range []bool{true, false} {
			c03History(env(def), rec, "corpus", "corpus_"+n, corpus[n])
		}
	}

	// (ii) bounded-exhaustive: every sequence of length <= L over the 9 abstract operations
	maxLen := 3
	if vThorough() {
		maxLen = 4
	}
	if os.Getenv("VERIF_BUDGET") != "" {
		maxLen = 2 // the failing-input search concentrates on the random streams
	}
	nEx := 0
	var seq []c03Abs
	var enum func(depth int)
	enum = func(depth int) {
		if depth > 0 {
			c03History(env(nEx%2 == 0), rec, "exhaustive", "exhaustive", c03Resolve(seq))
			nEx++
		}
		if depth == maxLen {
			return
		}
		for a := c03Abs(0); a < c03ANumAbs; a++ {
			seq = append(seq, a)
			enum(depth + 1)
			seq = seq[:len(seq)-1]
		}
	}
	enum(0)
	rec.Extra("exhaustive", true)
	rec.Extra("exhaustive_scope", fmt.Sprintf("all %d sequences of length 1..%d over 9 abstract operations (1 user, 1 role, 1 document), each followed by loadrole, loaduser", nEx, maxLen))

	// (iii) seeded random histories: structured and adversarial
	nRand := vBudget(160, 1500)
	for i := 0; i < nRand; i++ {
		c03History(env(i%2 == 0), rec, "random", "random", c03RandomHistory(rnd, false, false))
	}
	for i := 0; i < nRand/2; i++ {
		c03History(env(i%2 == 0), rec, "adversarial", "adversarial", c03RandomHistory(rnd, true, false))
	}
	// (iv) purge stream (outside the property's quantifier; the model is faithful to the missing invalidation)
	r := func(g int, d uint64) *c03Rev { return &c03Rev{Gen: g, Dig: d} }
	purgeCorpus := [][]c03Op{
		{{Kind: "setprinc", User: true, Who: 0}, {Kind: "put", Doc: 0, Rev: r(1, 5), Body: "live", Acc: []c03Grant{{To: 0, V: []int{1, 2}}}},
			{Kind: "loaduser", Who: 0}, {Kind: "purge", Doc: 0}, {Kind: "loaduser", Who: 0}},
		{{Kind: "setprinc", User: true, Who: 0}, {Kind: "put", Doc: 0, Rev: r(1, 5), Body: "live", Acc: []c03Grant{{To: 0, V: []int{1}}}},
			{Kind: "purge", Doc: 0}, {Kind: "loaduser", Who: 0}, {Kind: "purge", Doc: 0},
			{Kind: "put", Doc: 0, Rev: r(1, 6), Body: "live", Acc: []c03Grant{{To: 0, V: []int{3}}}}, {Kind: "loaduser", Who: 0}},
	}
	for i, ops := range purgeCorpus {
		c03History(env(i%2 == 0), rec, "purge", "purge_corpus", ops)
	}
	nPurge := vBudget(12, 100)
	for i := 0; i < nPurge; i++ {
		c03History(env(i%2 == 0), rec, "purge", "purge_random", c03RandomHistory(rnd, false, true))
	}
	// (v) loads raced by an admin edit: the lazy rebuild of GetUser / GetRole loses its CAS write to UpdatePrincipal
	// on the same principal (forced by a decorator of the metadata store), on the default and a named collection
	raceEnvs := map[bool]*c03Env{true: c03NewRaceEnv(t, true), false: c03NewRaceEnv(t, false)}
	defer func() {
		for _, e := range raceEnvs {
			e.close()
		}
	}()
	ru := func(ch, ro []int, setCh, setRo bool) c03Op {
		return c03Op{Kind: "loadrace", User: true, Who: 0, SetCh: setCh, Chans: ch, SetRo: setRo, Roles: ro}
	}
	su := func(ch, ro []int, setCh, setRo bool) c03Op {
		return c03Op{Kind: "setprinc", User: true, Who: 0, SetCh: setCh, Chans: ch, SetRo: setRo, Roles: ro}
	}
	lu0, lr0 := c03Op{Kind: "loaduser", Who: 0}, c03Op{Kind: "loadrole", Who: 0}
	grantU := func(d int, dig uint64, c int) c03Op {
		return c03Op{Kind: "put", Doc: d, Rev: r(1, dig), Body: "live", Acc: []c03Grant{{To: 0, V: []int{c}}}}
	}
	raceCorpus := map[string][]c03Op{
		// the admin channels are emptied while the invalidated user is being rebuilt
		"user_admin_channels_emptied":  {su([]int{1, 2}, nil, true, false), lu0, grantU(0, 5, 3), ru([]int{}, nil, true, false), lu0},
		"user_admin_channels_replaced": {su([]int{1, 2}, nil, true, false), lu0, grantU(0, 5, 3), ru([]int{4}, nil, true, false), lu0},
		// the admin roles are emptied while the user's roles are being rebuilt
		"user_admin_roles_emptied": {{Kind: "setprinc", Who: 0, SetCh: true, Chans: []int{2}}, su(nil, []int{0}, false, true), lu0,
			{Kind: "put", Doc: 0, Rev: r(1, 5), Body: "live", Rol: []c03Grant{{To: 0, V: []int{0}}}},
			{Kind: "put", Doc: 0, Parent: r(1, 5), Rev: r(2, 5), Body: "live"}, ru(nil, []int{}, false, true), lu0},
		"user_both_emptied_right_after_edit": {su([]int{1}, []int{0}, true, true), ru([]int{}, []int{}, true, true), lu0},
		"role_admin_channels_emptied": {{Kind: "setprinc", Who: 0, SetCh: true, Chans: []int{1, 2}}, su(nil, []int{0}, false, true), lr0,
			{Kind: "put", Doc: 0, Rev: r(1, 5), Body: "live", Acc: []c03Grant{{Role: true, To: 0, V: []int{3}}}},
			{Kind: "loadrace", Who: 0, SetCh: true, Chans: []int{}}, lr0, lu0},
		// nothing to rebuild: the load answers from the document read before the edit, the edit lands
		"user_no_rebuild_needed":                 {su([]int{1}, nil, true, false), lu0, ru([]int{}, nil, true, false), lu0},
		"missing_principals_created_by_the_edit": {ru([]int{2}, nil, true, false), lu0, {Kind: "loadrace", Who: 0, SetCh: true, Chans: []int{3}}, lr0},
		"deleted_role_recreated_by_the_edit": {{Kind: "setprinc", Who: 0, SetCh: true, Chans: []int{1}}, {Kind: "delrole", Who: 0},
			{Kind: "loadrace", Who: 0, SetCh: true, Chans: []int{}}, lr0},
	}
	rnames := make([]string, 0, len(raceCorpus))
	for n := range raceCorpus {
		rnames = append(rnames, n)
	}
	sort.Strings(rnames)
	for _, n := range rnames {
		for _, def := range []bool{true, false} {
			c03History(raceEnvs[def], rec, "race", "race_corpus_"+n, raceCorpus[n])
		}
	}
	nRace := vBudget(40, 400)
	for i := 0; i < nRace; i++ {
		c03History(raceEnvs[i%2 == 0], rec, "race", "race_random", c03RandomHistory(rnd, false, false, true))
	}
	// (vi) extended streams (verif_c03_x_test.go): user-context writes, grant sequences / histories, the access API
	// (the bucket pool bounds the number of databases open at once: the ones used so far are closed first)
	for k, e := range envs {
		if e != nil {
			e.close()
		}
		delete(envs, k)
	}
	for k, e := range raceEnvs {
		e.close()
		delete(raceEnvs, k)
	}
	c03xStreams(t, rec, rnd)
	// (vii) long-lived sessions (verif_c03_sess_test.go): open BLIP contexts / continuous feeds across role swaps
	c03sStreams(t, rec, rnd)
	if b, err := json.Marshal(map[string]int{"race": nRace + 2*len(raceCorpus), "random": nRand, "adversarial": nRand / 2, "exhaustive": nEx, "purge": nPurge + len(purgeCorpus)}); err == nil {
		rec.Extra("histories", string(b))
	}
}
