//go:build verif

package db

import (
	"encoding/json"
	"fmt"
	"sort"
	"strings"

	"github.com/couchbase/sync_gateway/base"
)

// C11, auxiliary documents as part of the compared store state.
//
// A stored document references auxiliary documents: the out-of-line body documents (_sync:rb:<digest>) of its
// non-winning revisions whose body exceeds the inline limit (the keys are in the stored revision tree) and the
// attachment documents of its current revision.  "A failed request changes no document" includes them: the
// harness snapshots every auxiliary document the primary keys of a (sub-)request reference BEFORE the request and
// compares afterwards.  The deletes of such documents (deleteRemovedRevisionBodies, the obsolete-attachment sweep)
// are the operation class Cleanup of the model: they may only run after the commit.
//
// The request kinds below work on a conflicted document whose non-winning leaf has an out-of-line body:
//   - tombstone the winner  -> the non-winning leaf is PROMOTED (its body moves into the document, the body document
//     becomes obsolete);
//   - EXTEND the non-winning branch (the parent's body is backed up and dropped from the tree, the child's body is
//     written out of line);
//   - a write that PRUNES an old tombstoned branch whose leaf has an out-of-line body;
// each accepted (every single fault, pairs), REJECTED by the sync function (every single fault), and with a forced
// CAS RETRY (accepted, and rejected on the retry).

// The unchanged code swallows a failed read of the out-of-line body of a revision it promotes (finding
// swallowed-failure:promoted-revision-body-unreadable; model class ReadBody).  Once /repo makes that read fatal
// (promoteNonWinningRevisionBody returning the loader's error), set this to false: the reads are then plain Read
// operations whose failure aborts the write.
var c11PromotedBodyReadSwallowed = false

const c11SyncFn = `function(doc){ if (doc.reject) { throw({forbidden: "rejected"}); } channel(doc.channels); if (doc.grant) { access(doc.grant, "granted"); } }`
const c11SyncFnRejectAll = `function(doc){ throw({forbidden: "rejected on retry"}); }`

// the auxiliary documents referenced by the stored state of keys: out-of-line revision bodies named in the stored
// revision tree, attachment documents of the current revision
func (e *c11Env) auxRefs(keys []string) []string {
	set := map[string]bool{}
	for _, k := range keys {
		d, _, ok := e.rawDoc(k)
		if !ok || d == nil || !d.HasValidSyncData() {
			continue
		}
		for _, info := range d.History {
			if info != nil && info.BodyKey != "" {
				set[info.BodyKey] = true
			}
		}
		for _, m := range d.Attachments() {
			meta, ok := m.(map[string]any)
			if !ok {
				continue
			}
			digest, _ := meta["digest"].(string)
			ver, vok := GetAttachmentVersion(meta)
			if digest == "" || !vok {
				continue
			}
			set[MakeAttachmentKey(ver, k, digest)] = true
		}
	}
	var out []string
	for k := range set {
		out = append(out, k)
	}
	sort.Strings(out)
	return out
}

// raw content of auxiliary documents ("" = absent), read through the un-faulted store
func (e *c11Env) auxState(refs []string) map[string]string {
	out := map[string]string{}
	for _, k := range refs {
		v, _, err := e.rawC.GetRaw(e.ctx, k)
		if err != nil {
			out[k] = ""
			continue
		}
		out[k] = "v=" + string(v)
	}
	return out
}

// the auxiliary documents of pre that are gone or altered
func (e *c11Env) auxLost(pre map[string]string) []string {
	var lost []string
	for k, v := range pre {
		cur, _, err := e.rawC.GetRaw(e.ctx, k)
		if err != nil || "v="+string(cur) != v {
			lost = append(lost, k)
		}
	}
	sort.Strings(lost)
	return lost
}

// the auxiliary documents the stored state of keys references now that do not exist
func (e *c11Env) auxDangling(keys []string) []string {
	var missing []string
	for _, k := range e.auxRefs(keys) {
		if _, _, err := e.rawC.GetRaw(e.ctx, k); err != nil {
			missing = append(missing, k)
		}
	}
	return missing
}

func c11AuxSig(keys []string) string {
	kinds := map[string]bool{}
	for _, k := range keys {
		switch {
		case strings.Contains(k, "_sync:rb:"):
			kinds["rb"] = true
		case strings.Contains(k, "_sync:att"):
			kinds["att"] = true
		default:
			kinds["other"] = true
		}
	}
	var out []string
	for k := range kinds {
		out = append(out, k)
	}
	sort.Strings(out)
	return strings.Join(out, "+")
}

func c11RequestsRB() []c11Req {
	big := func(c string) string { return strings.Repeat(c, 300) }
	docKey := func(e *c11Env, id string) []string { return []string{id} }
	push := func(e *c11Env, id string, body Body, history ...string) error {
		_, _, err := e.col.PutExistingRevWithBody(e.ctx, id, body, history, false, ExistingVersionWithUpdateToHLV)
		return err
	}
	must := func(e *c11Env, what string, err error) {
		if err != nil {
			e.t.Fatalf("c11 rb setup (%s): %v", what, err)
		}
	}
	// the stored document, read raw: current revision, its body, the revision tree
	stored := func(e *c11Env, id string) (cur string, body map[string]any, d *Document) {
		d, raw, ok := e.rawDoc(id)
		if !ok || d == nil {
			return "", nil, nil
		}
		_ = json.Unmarshal(raw, &body)
		return d.GetRevTreeID(), body, d
	}
	// the body of a non-winning revision as a subsequent read sees it (revision cache flushed: from the bucket)
	revBody := func(e *c11Env, id, rev string) Body {
		e.db.FlushRevisionCacheForTest()
		b, err := e.col.Get1xRevBody(e.ctx, id, rev, false, nil)
		if err != nil {
			return nil
		}
		return b
	}
	//        1-a
	//       /   \
	//    2-a     2-b        2-a: 300-byte body, non-winning -> stored out of line (_sync:rb:<digest(id, 2-a)>)
	//             |
	//            3-b        3-b: the winner
	conflicted := func(e *c11Env, id string) {
		must(e, "1-a", push(e, id, Body{"v": "1a", "channels": []string{"a"}}, "1-a"))
		must(e, "2-a", push(e, id, Body{"v": "2a", "pad": big("p"), "channels": []string{"a"}}, "2-a", "1-a"))
		must(e, "2-b", push(e, id, Body{"v": "2b", "channels": []string{"a"}}, "2-b", "1-a"))
		must(e, "3-b", push(e, id, Body{"v": "3b", "channels": []string{"a"}}, "3-b", "2-b", "1-a"))
		refs := e.auxRefs([]string{id})
		if len(refs) != 1 || refs[0] != generateRevBodyKey(id, "2-a") {
			e.t.Fatalf("c11 rb setup: expected the body of 2-a out of line, stored tree references %v", refs)
		}
		if b := revBody(e, id, "2-a"); b == nil || fmt.Sprint(b["v"]) != "2a" {
			e.t.Fatalf("c11 rb setup: 2-a unreadable: %v", b)
		}
	}
	//        1-a
	//       /   \
	//   2-a(D)   2-b - 3-b - 4-b     2-a: a TOMBSTONE with a 300-byte body, non-winning, out of line.
	// With revs_limit 2 the next revision on the b branch (generation 5) makes the tombstoned branch too old:
	// it is pruned and its body document becomes obsolete.
	prunable := func(e *c11Env, id string) {
		must(e, "1-a", push(e, id, Body{"v": "1a", "channels": []string{"a"}}, "1-a"))
		must(e, "2-b", push(e, id, Body{"v": "2b", "channels": []string{"a"}}, "2-b", "1-a"))
		must(e, "2-a", push(e, id, Body{BodyDeleted: true, "v": "2a", "pad": big("t"), "channels": []string{"a"}}, "2-a", "1-a"))
		must(e, "3-b", push(e, id, Body{"v": "3b", "channels": []string{"a"}}, "3-b", "2-b", "1-a"))
		must(e, "4-b", push(e, id, Body{"v": "4b", "channels": []string{"a"}}, "4-b", "3-b", "2-b", "1-a"))
		refs := e.auxRefs([]string{id})
		if len(refs) != 1 || refs[0] != generateRevBodyKey(id, "2-a") {
			e.t.Fatalf("c11 rb setup: expected the body of the tombstone 2-a out of line, stored tree references %v", refs)
		}
	}
	withRevsLimit := func(e *c11Env, n uint32, f func() error) error {
		old := e.db.RevsLimit
		e.db.RevsLimit = n
		defer func() { e.db.RevsLimit = old }()
		return f()
	}
	// force exactly one CAS retry (a competing raw touch of an unrelated xattr between the first attempt's update
	// callback and its compare-and-swap write); rejectRetry: the sync function is replaced at the same moment, so
	// that the SECOND attempt is rejected (restored by the request's run function)
	touchOnce := func(rejectRetry bool) func(e *c11Env, id string) func(key string, n int, cbErr error) error {
		return func(e *c11Env, id string) func(key string, n int, cbErr error) error {
			fired := false
			return func(key string, n int, cbErr error) error {
				if key != id || fired || cbErr != nil {
					return nil
				}
				fired = true
				if _, err := e.rawC.SetXattrs(e.ctx, id, map[string][]byte{"verifx": []byte(`{"n":1}`)}); err != nil {
					e.t.Fatalf("touch: %v", err)
				}
				if rejectRetry {
					if _, err := e.col.ChannelMapper.SetFunction(c11SyncFnRejectAll); err != nil {
						e.t.Fatalf("switching the sync function: %v", err)
					}
				}
				return nil
			}
		}
	}
	restoreSyncFn := func(e *c11Env) {
		if _, err := e.col.ChannelMapper.SetFunction(c11SyncFn); err != nil {
			e.t.Fatalf("restoring the sync function: %v", err)
		}
	}

	// ---- the requests ----
	promote := func(reject bool) func(e *c11Env, id string) error {
		return func(e *c11Env, id string) error {
			body := Body{BodyDeleted: true, BodyRev: "3-b"}
			if reject {
				body["reject"] = true
			}
			_, _, err := e.put(id, body)
			return err
		}
	}
	promoteDone := func(e *c11Env, id string) (bool, string) {
		// 2-a is the current revision, with its COMPLETE body in the document, and nothing the tree references is missing
		cur, body, _ := stored(e, id)
		pad, _ := body["pad"].(string)
		ok := cur == "2-a" && fmt.Sprint(body["v"]) == "2a" && pad == big("p") && len(e.auxDangling([]string{id})) == 0
		return ok, fmt.Sprintf("current=%s v=%v len(pad)=%d dangling=%v", cur, body["v"], len(pad), e.auxDangling([]string{id}))
	}
	extend := func(reject bool) func(e *c11Env, id string) error {
		return func(e *c11Env, id string) error {
			body := Body{"v": "3a", "pad": big("q"), "channels": []string{"a"}}
			if reject {
				body["reject"] = true
			}
			return push(e, id, body, "3-a", "2-a", "1-a")
		}
	}
	extendDone := func(e *c11Env, id string) (bool, string) {
		cur, _, d := stored(e, id)
		if d == nil || d.History["3-a"] == nil {
			return false, "3-a not in the stored tree"
		}
		b := revBody(e, id, "3-a")
		pad, _ := b["pad"].(string)
		ok := cur == "3-b" && b != nil && fmt.Sprint(b["v"]) == "3a" && pad == big("q") && len(e.auxDangling([]string{id})) == 0
		return ok, fmt.Sprintf("current=%s 3-a=%v dangling=%v", cur, b != nil, e.auxDangling([]string{id}))
	}
	prune := func(reject bool) func(e *c11Env, id string) error {
		return func(e *c11Env, id string) error {
			body := Body{"v": "5b", "channels": []string{"a"}}
			if reject {
				body["reject"] = true
			}
			return withRevsLimit(e, 2, func() error { return push(e, id, body, "5-b", "4-b", "3-b", "2-b", "1-a") })
		}
	}
	pruneDone := func(e *c11Env, id string) (bool, string) {
		cur, body, d := stored(e, id)
		if d == nil {
			return false, "no document"
		}
		ok := cur == "5-b" && fmt.Sprint(body["v"]) == "5b" && d.History["2-a"] == nil && len(e.auxDangling([]string{id})) == 0
		return ok, fmt.Sprintf("current=%s v=%v 2-a in tree=%v", cur, body["v"], d.History["2-a"] != nil)
	}
	promoteCore := func(e *c11Env, id string) bool { // the commit itself: 2-a is the stored current revision
		cur, _, _ := stored(e, id)
		return cur == "2-a"
	}
	never := func(e *c11Env, id string) (bool, string) { return false, "a rejected write must never succeed" }
	withRestore := func(run func(e *c11Env, id string) error) func(e *c11Env, id string) error {
		return func(e *c11Env, id string) error {
			defer restoreSyncFn(e)
			return run(e, id)
		}
	}
	return []c11Req{
		{kind: "rb_promote_rejected", bodyReads: true, setup: conflicted, run: promote(true), primary: docKey, done: never},
		{kind: "rb_promote", bodyReads: true, setup: conflicted, run: promote(false), primary: docKey, done: promoteDone, core: promoteCore},
		{kind: "rb_extend", setup: conflicted, run: extend(false), primary: docKey, done: extendDone},
		{kind: "rb_extend_rejected", setup: conflicted, run: extend(true), primary: docKey, done: never},
		{kind: "rb_prune", setup: prunable, run: prune(false), primary: docKey, done: pruneDone},
		{kind: "rb_prune_rejected", setup: prunable, run: prune(true), primary: docKey, done: never},
		// CAS retry: the first attempt's callback has already taken the body out of the in-memory tree when its write loses the race
		{kind: "rb_promote_cas_retry", bodyReads: true, noCas: true, hook: touchOnce(false), setup: conflicted, run: promote(false), primary: docKey, done: promoteDone, core: promoteCore},
		{kind: "rb_extend_cas_retry", noCas: true, hook: touchOnce(false), setup: conflicted, run: extend(false), primary: docKey, done: extendDone},
		{kind: "rb_prune_cas_retry", noCas: true, hook: touchOnce(false), setup: prunable, run: prune(false), primary: docKey, done: pruneDone},
		// ... and the retry is rejected by the sync function
		{kind: "rb_promote_cas_retry_rejected", bodyReads: true, noCas: true, hook: touchOnce(true), setup: conflicted, run: withRestore(promote(false)), primary: docKey, done: never},
	}
}

var _ = base.SyncXattrName
