//go:build verif

package db

import (
	"context"
	"encoding/json"
	"fmt"
	"maps"
	"sort"
	"strconv"
	"strings"
	"testing"
	"time"

	"github.com/couchbase/go-blip"
)

// C10, deepening round (called from TestVerifC10, verif_c10_test.go):
//   - the general update lemma (HLVUpdate.v): which local versions UpdateWithIncomingHLV keeps ([keptb]), checked on
//     the real UpdateWithIncomingHLV for all pairs of the small well-formed vectors and random ones (stream
//     "update-loss"), and the recorded-set bookkeeping of ReplicaAll.v run next to every history (monitors
//     all-histories:*), so that histories are monitored after a same-merge acceptance too;
//   - HybridLogicalVector.compactWithValue / Compact (HLVCompact.v), stream "compact";
//   - the bytes MarshalJSON produces / UnmarshalJSON reads (HLVJson.v), stream "json-bytes";
//   - legacy revision ids: LegacyRevToRevTreeEncodedVersion and the rev-message history built for a legacy peer
//     (buildRevHistory + blipRevMessageProperties -> GetHLVFromRevMessage) (HLVLegacy.v), streams "legacy", "wire-legacy".

var c10MoreNames = []string{"c3JjNQ", "c3JjNg", "c3JjNw", "c3JjOA", "c3JjOQ"}

func c10AllNames() []string {
	return append(append([]string{}, c10Names[1:]...), c10MoreNames...)
}

// ---------- the formula of the general update lemma, Go side ----------
func c10Older(hl, hi *HybridLogicalVector) bool {
	for s, v := range hl.MergeVersions {
		if s == hi.SourceID {
			continue
		}
		if m, ok := hi.MergeVersions[s]; ok && m < v {
			return true
		}
	}
	return false
}

func c10Passes(hl, hi *HybridLogicalVector, p Version) bool {
	if p.SourceID == hi.SourceID {
		return false
	}
	if _, in := hi.MergeVersions[p.SourceID]; !in {
		return true
	}
	if !c10Older(hl, hi) {
		return false
	}
	return p.Value <= max(hl.MergeVersions[p.SourceID], hl.PreviousVersions[p.SourceID])
}

func c10Kept(hl, hi *HybridLogicalVector, p Version) bool {
	return hi.DominatesSource(p) || c10Passes(hl, hi, p)
}

// a vector that can represent a set of seen versions: well-formed, no empty name, no zero value, the merge version
// under the source of cv (if any) not above cv
func c10Reprable(h *HybridLogicalVector) bool {
	if !c10WF(h) || h.Version == 0 {
		return false
	}
	if m, ok := h.MergeVersions[h.SourceID]; ok && m > h.Version {
		return false
	}
	for _, mm := range []HLVVersions{h.MergeVersions, h.PreviousVersions} {
		for k, v := range mm {
			if k == "" || v == 0 {
				return false
			}
		}
	}
	return true
}

// the versions a vector lists and the ones just below them
func c10LocalVersions(h *HybridLogicalVector) []Version {
	set := map[Version]bool{{SourceID: h.SourceID, Value: h.Version}: true}
	for s, v := range h.MergeVersions {
		if v <= c10Value(h, s) {
			set[Version{SourceID: s, Value: v}] = true
		}
	}
	for s, v := range h.PreviousVersions {
		set[Version{SourceID: s, Value: v}] = true
	}
	for p := range maps.Clone(set) {
		if p.Value > 1 {
			set[Version{SourceID: p.SourceID, Value: p.Value - 1}] = true
		}
	}
	var out []Version
	for p := range set {
		out = append(out, p)
	}
	sort.Slice(out, func(i, j int) bool {
		if out[i].SourceID != out[j].SourceID {
			return out[i].SourceID < out[j].SourceID
		}
		return out[i].Value < out[j].Value
	})
	return out
}

var c10DeepReported = map[string]int{}

func c10FailFew(rec *vRecorder, monitor, sig string, input any, detail string) {
	c10DeepReported[sig]++
	if c10DeepReported[sig] > 3 {
		return
	}
	rec.Fail(monitor, sig, input, detail)
}

// c10KeptMonitor runs the real update and the Go-side formula; returns the flags (does the result still dominate p)
func c10KeptMonitor(rec *vRecorder, hl, hi *HybridLogicalVector, ps []Version) (flags []string, lost int) {
	res := hl.Copy()
	res.UpdateWithIncomingHLV(hi.Copy())
	for _, p := range ps {
		got := res.DominatesSource(p)
		if !got {
			lost++
		}
		if want := c10Kept(hl, hi, p); want != got {
			c10FailFew(rec, "update_general", "update-loss-formula", map[string]any{"local": c10Desc(hl), "incoming": c10Desc(hi), "version": p, "result": c10Desc(res)},
				fmt.Sprintf("UpdateWithIncomingHLV: local version %d@%s recorded afterwards = %v, the general update lemma says %v", p.Value, p.SourceID, got, want))
		}
		flags = append(flags, cqBool(got))
	}
	if res.SourceID != hi.SourceID || res.Version != hi.Version {
		c10FailFew(rec, "update_general", "update-cv-not-incoming", map[string]any{"local": c10Desc(hl), "incoming": c10Desc(hi), "result": c10Desc(res)}, "cv after UpdateWithIncomingHLV is not the incoming cv")
	}
	for _, s := range c10AllNames() {
		if c10Value(res, s) < c10Value(hi, s) {
			c10FailFew(rec, "update_general", "update-lowers-incoming-value", map[string]any{"local": c10Desc(hl), "incoming": c10Desc(hi), "result": c10Desc(res), "source": s}, "a value of the incoming vector was lowered")
		}
	}
	return flags, lost
}

func c10VersionTerms(ps []Version) []string {
	var out []string
	for _, p := range ps {
		out = append(out, "("+cqN(c10ID(p.SourceID))+","+cqN(p.Value)+")")
	}
	return out
}

// one local vector against a list of incoming vectors: one Coq case
func c10KeptRow(rec *vRecorder, stream string, hl *HybridLogicalVector, his []*HybridLogicalVector) {
	ps := c10LocalVersions(hl)
	var hisT, flags []string
	lost := 0
	for _, hi := range his {
		f, l := c10KeptMonitor(rec, hl, hi, ps)
		flags = append(flags, f...)
		lost += l
		hisT = append(hisT, c10H(hi))
		rec.Count(stream, "update_kept_pair", c10H(hl)+c10H(hi), l > 0)
	}
	rec.Case(stream, "update_kept_row", "CKeptRow "+c10H(hl)+" "+cqList(hisT)+" "+cqList(c10VersionTerms(ps))+" "+cqList(flags), map[string]any{"local": c10Desc(hl), "incoming": len(his), "lost": lost}, lost > 0)
}

func c10KeptCase(rec *vRecorder, stream string, hl, hi *HybridLogicalVector) {
	ps := c10LocalVersions(hl)
	res := hl.Copy()
	res.UpdateWithIncomingHLV(hi.Copy())
	var psT, flags []string
	lost := 0
	for _, p := range ps {
		got := res.DominatesSource(p)
		if !got {
			lost++
		}
		if want := c10Kept(hl, hi, p); want != got {
			c10FailFew(rec, "update_general", "update-loss-formula", map[string]any{"local": c10Desc(hl), "incoming": c10Desc(hi), "version": p, "result": c10Desc(res)},
				fmt.Sprintf("UpdateWithIncomingHLV: local version %d@%s recorded afterwards = %v, the general update lemma says %v", p.Value, p.SourceID, got, want))
		}
		psT = append(psT, "("+cqN(c10ID(p.SourceID))+","+cqN(p.Value)+")")
		flags = append(flags, cqBool(got))
	}
	// no value of the incoming vector is lowered, cv is the incoming cv
	if res.SourceID != hi.SourceID || res.Version != hi.Version {
		c10FailFew(rec, "update_general", "update-cv-not-incoming", map[string]any{"local": c10Desc(hl), "incoming": c10Desc(hi), "result": c10Desc(res)}, "cv after UpdateWithIncomingHLV is not the incoming cv")
	}
	for _, s := range c10AllNames() {
		if c10Value(res, s) < c10Value(hi, s) {
			c10FailFew(rec, "update_general", "update-lowers-incoming-value", map[string]any{"local": c10Desc(hl), "incoming": c10Desc(hi), "result": c10Desc(res), "source": s}, "a value of the incoming vector was lowered")
		}
	}
	rec.Case(stream, "update_kept", "CKept "+c10H(hl)+" "+c10H(hi)+" "+cqList(psT)+" "+cqList(flags), map[string]any{"local": c10Desc(hl), "incoming": c10Desc(hi), "lost": lost}, lost > 0)
}

// ---------- recorded sets next to the histories (ReplicaAll.v) ----------
func c10SeenV(S map[Version]bool, p Version) bool {
	for q := range S {
		if q.SourceID == p.SourceID && q.Value >= p.Value {
			return true
		}
	}
	return false
}

func (run *c10Run) recFail(monitor, sig string, idx int, extra map[string]any, detail string) {
	run.failures++
	in := map[string]any{"history": run.evs[:idx+1]}
	for k, v := range extra {
		in[k] = v
	}
	c10FailFew(run.rec, monitor, sig, in, detail)
}

func (run *c10Run) recRejected(kind string, idx int, err error) {
	run.recFail("history_no_errors_all", "all-histories:"+kind+"-rejected", idx, nil, "a locally generated version was rejected: "+err.Error())
}

// the verdict against the recorded sets, before the pull is applied
func (run *c10Run) recVerdict(idx int, rep, inc *c10Replica, status HLVConflictStatus, sameMerge bool) {
	incCV := Version{SourceID: inc.hlv.SourceID, Value: inc.hlv.Version}
	repCV := Version{SourceID: rep.hlv.SourceID, Value: rep.hlv.Version}
	want := !c10SeenV(rep.recd, incCV) && !c10SeenV(inc.recd, repCV) && !sameMerge
	if (status == HLVConflict) != want {
		run.recFail("history_conflict_all", "all-histories:verdict", idx, map[string]any{"local": c10Desc(rep.hlv), "incoming": c10Desc(inc.hlv), "status": int(status)},
			fmt.Sprintf("IsInConflict = %d, the recorded sets say conflict = %v", status, want))
	}
}

func (run *c10Run) recStep(kind string, idx int, rep *c10Replica, before *HybridLogicalVector, inc *c10Replica, v uint64) {
	checkNew := func() {
		for p := range rep.recd {
			if p.SourceID == rep.name && p.Value >= v {
				run.recFail("local_versions_increase_all", "all-histories:generated-not-above-recorded", idx, map[string]any{"generated": v, "recorded": p.Value},
					fmt.Sprintf("replica %d generated %d although its vector recorded %d for its source", rep.id, v, p.Value))
				return
			}
		}
	}
	switch kind {
	case "edit":
		checkNew()
		rep.recd[Version{SourceID: rep.name, Value: v}] = true
	case "copy":
		rep.recd = maps.Clone(inc.recd)
	case "merge":
		checkNew()
		for p := range inc.recd {
			rep.recd[p] = true
		}
		rep.recd[Version{SourceID: rep.name, Value: v}] = true
	default: // fast-forward, same-merge: the general update lemma
		next := maps.Clone(inc.recd)
		for p := range rep.recd {
			if c10Kept(before, inc.hlv, p) {
				next[p] = true
			} else if rep.hlv.DominatesSource(p) {
				run.recFail("update_general", "all-histories:lost-version-still-recorded", idx, map[string]any{"version": p, "vector_after": c10Desc(rep.hlv)},
					fmt.Sprintf("the general update lemma says %d@%s is lost by this %s, the vector still records it", p.Value, p.SourceID, kind))
			}
		}
		rep.recd = next
	}
	// the vector represents the recorded set
	h := rep.hlv
	for p := range rep.recd {
		if !h.DominatesSource(p) {
			run.recFail("history_repr_all", "all-histories:recorded-not-dominated:"+kind, idx, map[string]any{"version": p, "vector_after": c10Desc(h), "replica": rep.id},
				fmt.Sprintf("replica %d: %d@%s should be recorded after this %s but the vector has %d for that source", rep.id, p.Value, p.SourceID, kind, c10Value(h, p.SourceID)))
			break
		}
		if !rep.seen[p] {
			run.recFail("history_repr_all", "all-histories:recorded-not-seen:"+kind, idx, map[string]any{"version": p}, "bookkeeping: a recorded version was never seen")
			break
		}
	}
	listed := []Version{{SourceID: h.SourceID, Value: h.Version}}
	for s, x := range h.MergeVersions {
		listed = append(listed, Version{SourceID: s, Value: x})
	}
	for s, x := range h.PreviousVersions {
		listed = append(listed, Version{SourceID: s, Value: x})
	}
	for _, p := range listed {
		if !rep.recd[p] {
			run.recFail("history_repr_all", "all-histories:listed-not-recorded:"+kind, idx, map[string]any{"version": p, "vector_after": c10Desc(h), "replica": rep.id},
				fmt.Sprintf("replica %d lists %d@%s after this %s, which is not among the recorded versions", rep.id, p.Value, p.SourceID, kind))
			break
		}
	}
	if !c10WF(h) {
		run.recFail("history_repr_all", "all-histories:no_source_twice:"+kind, idx, map[string]any{"vector_after": c10Desc(h)}, "a source of cv or mv is also listed in pv")
	}
	// a history without same-merge acceptance records everything
	if run.same == 0 && len(rep.recd) != len(rep.seen) {
		run.recFail("clean_records_all", "all-histories:clean-history-records-less", idx, map[string]any{"recorded": len(rep.recd), "seen": len(rep.seen)}, "no same-merge acceptance so far, yet recorded != seen")
	}
}

// ---------- random vectors over nine sources ----------
func c10BigHLV(rnd *vRand, maxPV int, vals func() uint64) *HybridLogicalVector {
	names := c10AllNames()
	for j := len(names) - 1; j > 0; j-- {
		k := rnd.Intn(j + 1)
		names[j], names[k] = names[k], names[j]
	}
	h := &HybridLogicalVector{SourceID: names[0], Version: vals()}
	i := 1
	if rnd.Chance(35) {
		h.MergeVersions = HLVVersions{}
		for k := 1 + rnd.Intn(2); k > 0; k-- {
			h.MergeVersions[names[i]] = vals()
			i++
		}
	}
	n := rnd.Intn(maxPV + 1)
	if n > 0 {
		h.PreviousVersions = HLVVersions{}
	}
	for ; n > 0 && i < len(names); n-- {
		h.PreviousVersions[names[i]] = vals()
		i++
	}
	return h
}

func c10CompactMonitors(rec *vRecorder, h *HybridLogicalVector, c uint64, r *HybridLogicalVector) {
	in := map[string]any{"vector": c10Desc(h), "compact_to": c, "result": c10Desc(r)}
	if r.SourceID != h.SourceID || r.Version != h.Version || !maps.Equal(r.MergeVersions, h.MergeVersions) {
		c10FailFew(rec, "compact_keeps_cv_mv", "compact-touched-cv-mv", in, "compaction changed cv or mv")
	}
	for s, v := range r.PreviousVersions {
		if w, ok := h.PreviousVersions[s]; !ok || w != v {
			c10FailFew(rec, "compact_keeps_cv_mv", "compact-invented-pv", in, "compaction left a pv entry that was not there")
		}
	}
	n, n2 := len(h.PreviousVersions), len(r.PreviousVersions)
	if n2 < min(n, minPVEntriesRetained) {
		c10FailFew(rec, "compact_retains", "compact-below-min-retained", in, fmt.Sprintf("%d of %d pv entries left", n2, n))
	}
	if (c == 0 || n < minPVEntriesBeforeCompaction) && n2 != n {
		c10FailFew(rec, "compact_retains", "compact-not-disabled", in, "compaction ran although disabled (threshold 0) or fewer than 5 pv entries")
	}
	var oldestKeptCand uint64
	haveKept := false
	for s, v := range h.PreviousVersions {
		_, kept := r.PreviousVersions[s]
		if !kept && v >= c {
			c10FailFew(rec, "compact_retains", "compact-removed-recent", in, fmt.Sprintf("removed %d@%s which is not older than the threshold", v, s))
		}
		if kept && v < c && (!haveKept || v < oldestKeptCand) {
			oldestKeptCand, haveKept = v, true
		}
	}
	if haveKept {
		for s, v := range h.PreviousVersions {
			if _, kept := r.PreviousVersions[s]; !kept && v > oldestKeptCand {
				c10FailFew(rec, "compact_oldest_first", "compact-not-oldest-first", in, fmt.Sprintf("removed %d@%s but kept an older candidate (%d)", v, s, oldestKeptCand))
			}
		}
	}
	// as much as allowed is removed
	if c != 0 && n >= minPVEntriesBeforeCompaction {
		cands := 0
		for _, v := range h.PreviousVersions {
			if v < c {
				cands++
			}
		}
		if want := min(cands, n-minPVEntriesRetained); n-n2 != want {
			c10FailFew(rec, "compact_retains", "compact-removed-count", in, fmt.Sprintf("removed %d entries, expected %d", n-n2, want))
		}
	}
}

func c10Compact(rec *vRecorder, rnd *vRand, ctx context.Context) {
	small := func() uint64 { return uint64(1 + rnd.Intn(6)) }
	spread := func() uint64 { return uint64(1+rnd.Intn(40)) * 3 }
	one := func(stream string, h *HybridLogicalVector, c uint64) *HybridLogicalVector {
		r := h.Copy()
		r.compactWithValue(ctx, "c10doc", c)
		c10CompactMonitors(rec, h, c, r)
		rec.Case(stream, "compact_with_value", "CCompact "+c10H(h)+" "+cqN(c)+" "+c10H(r), map[string]any{"vector": c10Desc(h), "compact_to": c, "result": c10Desc(r)}, len(r.PreviousVersions) < len(h.PreviousVersions))
		return r
	}
	// corpus: the boundaries 4 / 5 entries, 3 retained, ties at the boundary, threshold 0
	names := c10AllNames()
	mk := func(vals ...uint64) *HybridLogicalVector {
		h := &HybridLogicalVector{SourceID: names[0], Version: 9, PreviousVersions: HLVVersions{}}
		for i, v := range vals {
			h.PreviousVersions[names[1+i]] = v
		}
		return h
	}
	for _, c := range []uint64{0, 1, 3, 4, 10} {
		for _, h := range []*HybridLogicalVector{mk(), mk(1, 2, 3, 4), mk(1, 2, 3, 4, 5), mk(5, 4, 3, 2, 1, 6), mk(2, 2, 2, 2, 2), mk(1, 2, 2, 2, 3, 3), mk(1, 1, 2, 2, 3, 3, 4, 4), mk(7, 8, 9, 7, 8, 9)} {
			one("corpus", h, c)
		}
	}
	n := vBudget(350, 3500)
	for i := 0; i < n; i++ {
		vals := small
		if rnd.Bool() {
			vals = spread // mostly distinct values: the deterministic model function applies
		}
		h := c10BigHLV(rnd, 8, vals)
		var c uint64
		switch rnd.Intn(6) {
		case 0:
			c = 0
		case 1:
			c = 1 << 62
		default:
			c = vals() + uint64(rnd.Intn(2))
		}
		one("compact", h, c)
	}
	// Compact(purgeInterval): disabled with 0; otherwise the threshold is now - purgeInterval
	now := uint64(time.Now().UnixNano())
	hour := uint64(time.Hour)
	for i := 0; i < vBudget(40, 400); i++ {
		h := c10BigHLV(rnd, 8, func() uint64 { return now - uint64(rnd.Intn(6))*hour })
		r0 := h.Copy()
		r0.Compact(ctx, "c10doc", 0)
		if !r0.Equal(h) {
			c10FailFew(rec, "compact_retains", "compact-not-disabled", map[string]any{"vector": c10Desc(h), "purge_interval": 0}, "Compact with purge interval 0 changed the vector")
		}
		iv := time.Duration(1+rnd.Intn(4))*time.Hour + 30*time.Minute
		c := uint64(time.Now().Add(-iv).UnixNano())
		r := h.Copy()
		r.Compact(ctx, "c10doc", iv)
		c10CompactMonitors(rec, h, c, r)
		rec.Case("compact", "compact_purge_interval", "CCompact "+c10H(h)+" "+cqN(c)+" "+c10H(r), map[string]any{"vector": c10Desc(h), "purge_interval": iv.String(), "result": c10Desc(r)}, len(r.PreviousVersions) < len(h.PreviousVersions))
	}
	// soundness of the conflict predicate under compaction of either side
	conflicts, pairs := 0, 0
	for i := 0; i < vBudget(1500, 15000); i++ {
		hl, hi := c10BigHLV(rnd, 8, small), c10BigHLV(rnd, 8, small)
		before := IsInConflict(ctx, hl, hi)
		pairs++
		if before == HLVConflict {
			conflicts++
		}
		cl, ci := hl.Copy(), hi.Copy()
		cl.compactWithValue(ctx, "c10doc", small()+1)
		ci.compactWithValue(ctx, "c10doc", small()+1)
		for _, pr := range [][2]*HybridLogicalVector{{cl, hi}, {hl, ci}, {cl, ci}} {
			after := IsInConflict(ctx, pr[0], pr[1])
			in := map[string]any{"local": c10Desc(hl), "incoming": c10Desc(hi), "local_compacted": c10Desc(pr[0]), "incoming_compacted": c10Desc(pr[1]), "before": int(before), "after": int(after)}
			if before == HLVConflict && after != HLVConflict {
				c10FailFew(rec, "compact_sound", "compact-conflict-became-accept", in, fmt.Sprintf("in conflict before compaction, %d afterwards", after))
			}
			if after == HLVNoConflict && before == HLVConflict {
				c10FailFew(rec, "compact_accept_sound", "compact-accepts-concurrent", in, "accepted after compaction although concurrent before")
			}
		}
		rec.Count("compact", "compact_conflict_pair", c10H(hl)+c10H(hi), before == HLVConflict)
	}
	rec.Extra("compact_pairs", pairs)
	rec.Extra("compact_pairs_in_conflict", conflicts)
}

// ---------- stored bytes ----------
func c10JSONBytes(rec *vRecorder, rnd *vRand) {
	names := []string{"c3JjMQ", "c3JjMg", "c3JjMw", "Revision+Tree+Encoding", "Unknown+Source", "x/y==", "", "a\"b", "back\\slash", "<tag>&amp;", "tab\tnl\ncr\r", "\x01\x08\x0c\x1f", "del\x7f", "café", "日本", "src@with@at", "{}[],:"}
	vals := func() uint64 {
		switch rnd.Intn(6) {
		case 0:
			return uint64(rnd.Intn(4))
		case 1:
			return rnd.U64()
		case 2:
			return uint64(1757000000000000000) + uint64(rnd.Intn(3))<<16
		case 3:
			return 1<<64 - 1
		case 4:
			return uint64(0xab) << uint(8*rnd.Intn(8))
		}
		return uint64(1) << uint(rnd.Intn(64))
	}
	randMap := func(pct int) HLVVersions {
		m := HLVVersions{}
		for _, k := range names {
			if rnd.Chance(pct) {
				m[k] = vals()
			}
		}
		if rnd.Chance(30) && len(m) >= 2 { // equal values: the order among them is the implementation's choice
			var ks []string
			for k := range m {
				ks = append(ks, k)
			}
			sort.Strings(ks)
			m[ks[0]] = m[ks[1]]
		}
		return m
	}
	n := vBudget(220, 2500)
	for i := 0; i < n; i++ {
		h := &HybridLogicalVector{SourceID: names[rnd.Intn(len(names))], Version: vals(), CurrentVersionCAS: []uint64{0, 0, 7, 1<<64 - 1, rnd.U64()}[rnd.Intn(5)]}
		switch rnd.Intn(4) {
		case 0:
		case 1:
			h.PreviousVersions = randMap(25)
		case 2:
			h.MergeVersions = randMap(15)
		default:
			h.PreviousVersions, h.MergeVersions = randMap(25), randMap(15)
		}
		data, err := h.MarshalJSON()
		if err != nil {
			c10FailFew(rec, "json_bytes_roundtrip", "marshal-error", map[string]any{"h": c10Desc(h)}, err.Error())
			continue
		}
		var bv c10BV
		if err := json.Unmarshal(data, &bv); err != nil {
			c10FailFew(rec, "json_bytes_roundtrip", "marshal-invalid-json", map[string]any{"json": string(data)}, err.Error())
			continue
		}
		rec.Case("json-bytes", "marshal_bytes", "CMarshalBytes "+c10S(h, nil, nil)+" "+bv.coq()+" "+cqBytes(data), map[string]any{"h": c10Desc(h), "json": string(data)}, len(h.PreviousVersions)+len(h.MergeVersions) >= 2)
		var back HybridLogicalVector
		err = back.UnmarshalJSON(data)
		r := "None"
		if err == nil {
			r = "(Some " + c10S(&back, nil, nil) + ")"
		}
		rec.Case("json-bytes", "unmarshal_bytes", "CUnmarshalBytes "+cqBytes(data)+" "+r, map[string]any{"json": string(data), "ok": err == nil}, len(h.PreviousVersions)+len(h.MergeVersions) >= 2)
		if err != nil || !back.Equal(h) || back.CurrentVersionCAS != h.CurrentVersionCAS {
			c10FailFew(rec, "json_bytes_roundtrip", "json-bytes-roundtrip", map[string]any{"h": c10Desc(h), "json": string(data), "back": c10Desc(&back)}, fmt.Sprintf("UnmarshalJSON(MarshalJSON(h)) != h (err=%v)", err))
		}
		// member order of the stored object: cvCas, src, ver, pv, mv (those present)
		{
			dec := json.NewDecoder(strings.NewReader(string(data)))
			var keys []string
			depth := 0
			for {
				tok, err := dec.Token()
				if err != nil {
					break
				}
				if d, ok := tok.(json.Delim); ok {
					if d == '{' || d == '[' {
						depth++
					} else {
						depth--
					}
					continue
				}
				if k, ok := tok.(string); ok && depth == 1 {
					keys = append(keys, k)
					if k == "cvCas" || k == "src" || k == "ver" { // skip the string value
						_, _ = dec.Token()
					}
				}
			}
			var want []string
			if h.CurrentVersionCAS != 0 {
				want = append(want, "cvCas")
			}
			want = append(want, "src", "ver")
			if len(h.PreviousVersions) > 0 {
				want = append(want, "pv")
			}
			if len(h.MergeVersions) > 0 {
				want = append(want, "mv")
			}
			if strings.Join(keys, ",") != strings.Join(want, ",") {
				c10FailFew(rec, "stored_bytes_determine_fields", "json-bytes-member-order", map[string]any{"h": c10Desc(h), "json": string(data), "members": keys, "expected": want}, "members of the stored object are not cvCas, src, ver, pv, mv in this order")
			}
		}
		// shape of the hexadecimal fields: 0x + 16 lower-case digits; deltas lower-case, no trailing zero
		lower := func(s string) bool { return strings.Trim(s, "0123456789abcdef") == "" }
		if !strings.HasPrefix(bv.Ver, "0x") || len(bv.Ver) != 18 || !lower(bv.Ver[2:]) {
			c10FailFew(rec, "cas_string_shape", "ver-not-canonical-hex", map[string]any{"json": string(data)}, "ver is not 0x + 16 lower-case hexadecimal digits")
		}
		for _, l := range []*[]string{bv.PV, bv.MV} {
			if l == nil {
				continue
			}
			for _, d := range *l {
				hx, _, _ := strings.Cut(d, "@")
				if hx == "" || !lower(hx) || (len(hx) > 1 && strings.HasSuffix(hx, "0")) {
					c10FailFew(rec, "delta_hex_shape", "delta-not-canonical-hex", map[string]any{"json": string(data), "delta": d}, "a delta is not stripped lower-case hexadecimal")
				}
			}
		}
	}
}

// ---------- legacy revision ids ----------
func c10Legacy(rec *vRecorder, rnd *vRand) {
	type okRev struct {
		gen int
		val uint64
		rev string
	}
	var oks []okRev
	one := func(stream, rev string) {
		v, err := LegacyRevToRevTreeEncodedVersion(rev)
		r, gen := "None", 0
		if err == nil {
			r = "(Some " + cqN(v.Value) + ")"
			gen = GetGenerationFromEncodedVersionValue(v.Value)
			rec.Err("legacy:ok")
			if v.SourceID != encodedRevTreeSourceID {
				c10FailFew(rec, "legacy_generation_roundtrip", "legacy-wrong-source", map[string]any{"rev": rev}, "encoded version has source "+v.SourceID)
			}
			g, _ := strconv.Atoi(rev[:strings.Index(rev, "-")])
			if g < 1<<24 {
				if gen != g {
					c10FailFew(rec, "legacy_generation_roundtrip", "legacy-generation-lost", map[string]any{"rev": rev, "value": v.Value, "generation": gen}, fmt.Sprintf("generation %d encoded, %d decoded", g, gen))
				}
				oks = append(oks, okRev{g, v.Value, rev})
			}
		} else {
			rec.Err("legacy:error")
		}
		rec.Case(stream, "legacy_rev", "CLegacyRev "+cqStr(rev)+" "+r+" "+cqI(gen), map[string]any{"rev": rev, "ok": err == nil, "generation": gen}, err != nil || len(rev) > 8)
	}
	for _, rev := range []string{"", "-", "1-", "-abc", "1-abc", "2-def", "1-0123456789", "1-0123456789abcdef", "1-ABCDEF", "1-abcdeg", "1-xyz", "01-abc", "+1-abc", "0-abc", "-1-abc", "1_0-abc", "10-ff", "16777215-ffffffffff", "16777216-abc", "16777217-1", "4294967296-1",
		"9223372036854775807-a", "9223372036854775808-a", "99999999999999999999-a", "1-a-b", "1--", "1-0x1", "1- 1", "3-a@b", "1-fffffffffff", "2-0000000000", "12-1", "1 -abc", "1-abc ", "abc", "1"} {
		one("corpus", rev)
	}
	hexd := "0123456789abcdef"
	for i := 0; i < vBudget(200, 2500); i++ {
		var g string
		switch rnd.Intn(8) {
		case 0:
			g = strconv.Itoa(1<<24 - 1 + rnd.Intn(3))
		case 1:
			g = strconv.FormatUint(rnd.U64()>>uint(rnd.Intn(40)), 10)
		case 2:
			g = "0" + strconv.Itoa(rnd.Intn(20))
		default:
			g = strconv.Itoa(1 + rnd.Intn(300))
		}
		var d strings.Builder
		for k := rnd.Intn(14); k > 0; k-- {
			if rnd.Chance(4) {
				d.WriteByte("gG-_ A"[rnd.Intn(6)])
			} else if rnd.Chance(10) {
				d.WriteByte("ABCDEF"[rnd.Intn(6)])
			} else {
				d.WriteByte(hexd[rnd.Intn(16)])
			}
		}
		stream := "legacy"
		one(stream, g+"-"+d.String())
	}
	// ordered by generation first
	for i := range oks {
		for j := range oks {
			if oks[i].gen < oks[j].gen && !(oks[i].val < oks[j].val) {
				c10FailFew(rec, "legacy_order_by_generation", "legacy-order", map[string]any{"lower": oks[i].rev, "higher": oks[j].rev}, "a revision id of a lower generation is not encoded below one of a higher generation")
			}
		}
	}
	rec.Extra("legacy_order_pairs", len(oks)*len(oks))
}

func c10WireLegacy(rec *vRecorder, rnd *vRand) {
	wireNames := []string{"c3JjMQ", "c3JjMg", "c3JjMw", "c3JjNA", "Revision+Tree+Encoding", "x/y=="}
	hexVals := func() uint64 {
		switch rnd.Intn(4) {
		case 0:
			return uint64(1 + rnd.Intn(4))
		case 1:
			return uint64(1) << uint(rnd.Intn(64))
		case 2:
			return uint64(1757000000000000000) + uint64(rnd.Intn(3))<<16
		}
		return rnd.U64() >> uint(rnd.Intn(64))
	}
	revs := []string{"3-abc", "2-def", "1-0123456789abcdef", "10-ff", "7-", "4-a-b", "12-ABC"}
	bsc := &BlipSyncContext{activeCBMobileSubprotocol: CBMobileReplicationV4}
	mvOnly, mvOnlyRejected := 0, 0
	n := vBudget(260, 3000)
	for i := 0; i < n; i++ {
		perm := append([]string{}, wireNames...)
		for j := len(perm) - 1; j > 0; j-- {
			k := rnd.Intn(j + 1)
			perm[j], perm[k] = perm[k], perm[j]
		}
		h := &HybridLogicalVector{SourceID: perm[0], Version: hexVals() | 1}
		var mvOrder, pvOrder []string
		if rnd.Chance(55) {
			h.MergeVersions = HLVVersions{}
			for j := 1 + rnd.Intn(2); j > 0; j-- {
				h.MergeVersions[perm[j]] = hexVals() | 1
				mvOrder = append(mvOrder, perm[j])
			}
		}
		for j := rnd.Intn(3); j > 0; j-- {
			if h.PreviousVersions == nil {
				h.PreviousVersions = HLVVersions{}
			}
			h.PreviousVersions[perm[2+j]] = hexVals() | 1
			pvOrder = append(pvOrder, perm[2+j])
		}
		var lg []string
		for j := 1 + rnd.Intn(3); j > 0; j-- {
			lg = append(lg, revs[rnd.Intn(len(revs))])
		}
		// sender: the real glue for a peer that holds a legacy revision (scenario 3 of buildRevHistory)
		rev := h.GetCurrentVersionString()
		hlvHistory := h.toHistoryForHLV(c10Order(append(append([]string{}, mvOrder...), pvOrder...)))
		history, treeProp := bsc.buildRevHistory(revHistoryInput{revTreeHistory: lg[1:], hlvHistory: hlvHistory, revID: lg[0], localIsLegacyRev: false, remoteIsLegacyRev: true})
		props, err := blipRevMessageProperties(history, false, SequenceID{Seq: 1}, "", treeProp)
		if err != nil {
			c10FailFew(rec, "wire_legacy_roundtrip", "wire-legacy-properties-error", map[string]any{"h": c10Desc(h)}, err.Error())
			continue
		}
		// receiver
		msg := blip.NewRequest()
		msg.Properties[RevMessageRev] = rev
		if hs, ok := props[RevMessageHistory]; ok {
			msg.Properties[RevMessageHistory] = hs
		}
		back, legacy, err := GetHLVFromRevMessage(msg)
		r := "None"
		if err == nil {
			r = "(Some (" + c10S(back, nil, nil) + ", " + c10StrList(legacy) + "))"
		}
		hist := props[RevMessageHistory]
		onlyMV := len(h.MergeVersions) > 0 && len(h.PreviousVersions) == 0
		rec.Case("wire-legacy", "wire_legacy", "CWireLegacy "+c10S(h, mvOrder, pvOrder)+" "+c10StrList(lg)+" "+cqStr(rev)+" "+cqStr(hist)+" "+r,
			map[string]any{"h": c10Desc(h), "legacy": lg, "rev": rev, "history": hist, "ok": err == nil}, onlyMV || len(lg) >= 2)
		good := err == nil && back.Equal(h) && len(legacy) == len(lg)
		if good {
			for k := range lg {
				good = good && legacy[k] == lg[k]
			}
		}
		if onlyMV {
			mvOnly++
		}
		if !good {
			sig := "wire-legacy-roundtrip"
			if onlyMV && err != nil {
				sig = "wire-legacy-mv-only-history-rejected"
				mvOnlyRejected++
			}
			c10FailFew(rec, "wire_legacy_roundtrip", sig, map[string]any{"vector": c10Desc(h), "rev_property": rev, "history_property": hist, "legacy": lg, "error": fmt.Sprint(err)},
				fmt.Sprintf("rev message for a legacy peer: GetHLVFromRevMessage(rev=%q, history=%q) gives err=%v", rev, hist, err))
		}
	}
	rec.Extra("wire_legacy_mv_only", mvOnly)
	rec.Extra("wire_legacy_mv_only_rejected", mvOnlyRejected)
}

func c10Deep(t *testing.T, rec *vRecorder, rnd *vRand, ctx context.Context, wfSmall []*HybridLogicalVector) {
	c10DeepReported = map[string]int{}
	// (E1) the general update lemma on the real UpdateWithIncomingHLV: all pairs of the small vectors that can
	// represent a seen set, and random ones over four sources
	var reprable []*HybridLogicalVector
	for _, h := range wfSmall {
		if c10Reprable(h) {
			reprable = append(reprable, h)
		}
	}
	for _, hl := range reprable {
		c10KeptRow(rec, "exhaustive", hl, reprable)
	}
	rec.Extra("update_kept_small_vectors", len(reprable))
	for i, tries := 0, 0; i < vBudget(300, 3000) && tries < 100000; tries++ {
		hl, hi := c10RandHLV(rnd, true), c10RandHLV(rnd, true)
		if !c10Reprable(hl) || !c10Reprable(hi) {
			continue
		}
		i++
		c10KeptCase(rec, "update-loss", hl, hi)
	}
	// histories of C10_Refuted.v, replayed on the real API (the correspondence confirms every observation):
	// the same-merge acceptance that forgets replica 1's own version, then a clock restart and a local edit that
	// generates that version a second time (local_versions_increase_full_refuted)
	for _, h := range [][]c10Ev{
		{{Kind: "edit", R: 1}, {Kind: "edit", R: 2}, {Kind: "pull", R: 3, Q: 1}, {Kind: "pull", R: 1, Q: 2}, {Kind: "pull", R: 2, Q: 3}, {Kind: "pull", R: 1, Q: 2}, {Kind: "restart", R: 1}, {Kind: "edit", R: 1}},
		// the lossless direction: replica 3 merged two foreign versions, its own source is not blocked
		{{Kind: "edit", R: 1}, {Kind: "edit", R: 2}, {Kind: "pull", R: 3, Q: 1}, {Kind: "pull", R: 3, Q: 2}, {Kind: "pull", R: 1, Q: 2}, {Kind: "pull", R: 3, Q: 1}, {Kind: "pull", R: 1, Q: 3}, {Kind: "edit", R: 3}},
	} {
		c10RunHistory(rec, ctx, "corpus", h, true)
	}
	// (E2) Compact
	c10Compact(rec, rnd, ctx)
	// (E3) stored bytes
	c10JSONBytes(rec, rnd)
	// (E4) legacy revision ids
	c10Legacy(rec, rnd)
	c10WireLegacy(rec, rnd)
}
