//go:build verif

package db

import (
	"context"
	"errors"
	"fmt"
	"reflect"
	"sort"
	"strings"
	"sync"
	"sync/atomic"
	"testing"
	"time"
	"unsafe"

	sgbucket "github.com/couchbase/sg-bucket"
	"github.com/couchbase/sync_gateway/base"
	"github.com/couchbase/sync_gateway/channels"
	skiplist "github.com/couchbasedeps/fast-skiplist"
)

// C08 correspondence + monitors on the real db.changeCache (sequence buffering).
//
// Every case builds a fresh changeCache (Init/Start) over a fresh channelCacheImpl wrapped in a recording
// decorator, applies a list of operations through processEntry / releaseUnusedSequence /
// releaseUnusedSequenceRange / InsertPendingEntries / CleanSkippedSequenceQueue and projects the state
// after every operation.  CachePendingSeqMaxWait is a day, so "aged" is a TimeReceived two days in the
// past; the periodic background tasks therefore never fire on their own.

type c08Kind int

const (
	c08Doc c08Kind = iota
	c08Princ
	c08Unused
)

func (k c08Kind) coq() string { return [...]string{"KDoc", "KPrinc", "KUnused"}[k] }

type c08Op struct {
	Typ  string  `json:"op"` // A arrive single, R arrive range, H housekeep, X abandon, Y abandon the skip-list elements whose bit is set, O open channel cache S (lazily)
	Kind c08Kind `json:"kind,omitempty"`
	S    uint64  `json:"s,omitempty"`
	Hi   uint64  `json:"hi,omitempty"`
	Aged bool    `json:"aged,omitempty"`
	Bits []bool  `json:"old,omitempty"` // Y: element j of the skipped list is older than CacheSkippedSeqMaxWait
	Real int     `json:"real_wait_ms,omitempty"` // Y: no timestamp is touched; CacheSkippedSeqMaxWait is Real ms for the call (the real clock decides)
}

func c08Bits(b []bool) string {
	it := make([]string, len(b))
	for i, x := range b {
		it[i] = cqBool(x)
	}
	return "[" + strings.Join(it, ";") + "]"
}

func (o c08Op) coq() string {
	switch o.Typ {
	case "A":
		return fmt.Sprintf("Arrive %s %d %s", o.Kind.coq(), o.S, cqBool(o.Aged))
	case "R":
		return fmt.Sprintf("ArriveRange %d %d %s", o.S, o.Hi, cqBool(o.Aged))
	case "H":
		return "Housekeep"
	case "Y":
		return "AbandonSome " + c08Bits(o.Bits)
	}
	return "Abandon"
}

// xcoq: the operation as an [xop] of ChanLayer.v
func (o c08Op) xcoq() string {
	if o.Typ == "O" {
		return fmt.Sprintf("XOpen %d", o.S)
	}
	return "XBuf (" + o.coq() + ")"
}

// channels of a document, by sequence number (chf_bits of C08_Corr.v): bit 0 -> channel 1, bit 1 -> channel 2
func c08ChanIDs(s uint64) []uint64 {
	var r []uint64
	if s&1 != 0 {
		r = append(r, 1)
	}
	if s&2 != 0 {
		r = append(r, 2)
	}
	return r
}
func c08ChanName(id uint64) string {
	if id == 0 {
		return channels.UserStarChannel
	}
	return fmt.Sprintf("c08ch%d", id)
}
func c08ChanMap(s uint64) channels.ChannelMap {
	m := channels.ChannelMap{}
	for _, id := range c08ChanIDs(s) {
		m[c08ChanName(id)] = nil
	}
	return m
}
func (o c08Op) String() string {
	a := ""
	if o.Aged {
		a = "!"
	}
	switch o.Typ {
	case "A":
		return fmt.Sprintf("%s%d%s", [...]string{"d", "p", "u"}[o.Kind], o.S, a)
	case "R":
		return fmt.Sprintf("u%d-%d%s", o.S, o.Hi, a)
	case "O":
		return fmt.Sprintf("open%d", o.S)
	case "Y":
		b := ""
		for _, x := range o.Bits {
			if x {
				b += "1"
			} else {
				b += "0"
			}
		}
		return "Y" + b
	}
	return o.Typ
}
func c08OpsString(ops []c08Op) string {
	p := make([]string, len(ops))
	for i, o := range ops {
		p[i] = o.String()
	}
	return strings.Join(p, " ")
}

type c08Dlv struct {
	Kind   c08Kind `json:"kind"`
	Seq    uint64  `json:"seq"`
	End    uint64  `json:"end,omitempty"`
	Late   bool    `json:"late,omitempty"`
	InSkip bool    `json:"inskip,omitempty"`
}

func (d c08Dlv) coq() string {
	return fmt.Sprintf("D %s %d %d %s %s", d.Kind.coq(), d.Seq, d.End, cqBool(d.Late), cqBool(d.InSkip))
}

// recording decorator around the real channel cache: what the change cache forwards, and when
type c08RecCache struct {
	ChannelCache
	cc  *changeCache
	mu  sync.Mutex
	log []c08Dlv
}

func (r *c08RecCache) note(k c08Kind, change *LogEntry) {
	d := c08Dlv{Kind: k, Seq: change.Sequence, End: change.EndSequence, Late: change.Skipped, InSkip: r.cc.skippedSeqs.Contains(change.Sequence)}
	r.mu.Lock()
	r.log = append(r.log, d)
	r.mu.Unlock()
}
func (r *c08RecCache) AddToCache(ctx context.Context, change *LogEntry) []channels.ID {
	r.note(c08Doc, change)
	return r.ChannelCache.AddToCache(ctx, change)
}
func (r *c08RecCache) AddPrincipal(change *LogEntry) {
	r.note(c08Princ, change)
	r.ChannelCache.AddPrincipal(change)
}
func (r *c08RecCache) AddUnusedSequence(change *LogEntry) {
	r.note(c08Unused, change)
	r.ChannelCache.AddUnusedSequence(change)
}

// a real single-channel cache with a late-sequence client registered at creation, as an open continuous feed has
type c08Chan struct {
	id  uint64
	sc  *singleChannelCacheImpl
	reg uint64 // what RegisterLateSequenceClient returned
}

type c08Env struct {
	t      *testing.T
	ctx    context.Context
	dbc    *DatabaseContext
	active *channels.ActiveChannels
	traces int
}

const c08MaxWait = 24 * time.Hour

type c08Inst struct {
	env     *c08Env
	cc      *changeCache
	rec     *c08RecCache
	chc     *channelCacheImpl
	star    *singleChannelCacheImpl
	chans   []*c08Chan // active single-channel caches in creation order, "*" first
	initial uint64
	maxp    int
	seen    int  // deliveries already reported
	viaFeed bool // unused-sequence notifications enter through DocChanged with a real feed event (key parsing glue)
}

func (e *c08Env) newInst(maxp int, initial uint64) *c08Inst {
	opts := DefaultCacheOptions()
	opts.CachePendingSeqMaxNum = maxp
	opts.CachePendingSeqMaxWait = c08MaxWait
	opts.CacheSkippedSeqMaxWait = c08MaxWait
	chc, err := newChannelCache(e.ctx, "c08", opts.ChannelCacheOptions, testQueryHandlerFactory, e.active, e.dbc.DbStats.Cache())
	if err != nil {
		e.t.Fatalf("newChannelCache: %v", err)
	}
	cc := &changeCache{}
	rec := &c08RecCache{ChannelCache: chc, cc: cc}
	if err := cc.Init(e.ctx, e.dbc, rec, nil, &opts, e.dbc.MetadataKeys); err != nil {
		e.t.Fatalf("changeCache.Init: %v", err)
	}
	if err := cc.Start(initial); err != nil {
		e.t.Fatalf("changeCache.Start: %v", err)
	}
	star, ok := chc.addChannelCache(e.ctx, channels.NewID(channels.UserStarChannel, base.DefaultCollectionID))
	if !ok {
		e.t.Fatalf("cannot create the star channel cache")
	}
	in := &c08Inst{env: e, cc: cc, rec: rec, chc: chc, star: star, initial: initial, maxp: maxp}
	// a feed registered on the late-sequence log keeps every late arrival in it (entries nobody listens to are pruned)
	in.chans = []*c08Chan{{id: 0, sc: star, reg: star.RegisterLateSequenceClient()}}
	return in
}

func (in *c08Inst) close() {
	in.cc.Stop(in.env.ctx)
	in.chc.Stop(in.env.ctx)
}

func c08Stamp(aged bool) channels.FeedTimestamp {
	if aged {
		tm := time.Now().Add(-2 * c08MaxWait)
		return channels.NewFeedTimestamp(&tm)
	}
	return channels.NewFeedTimestampFromNow()
}

func (in *c08Inst) apply(op c08Op) {
	ctx := in.env.ctx
	ts := c08Stamp(op.Aged)
	switch op.Typ {
	case "A":
		switch op.Kind {
		case c08Unused:
			if in.viaFeed {
				tm := time.Now()
				if op.Aged {
					tm = tm.Add(-2 * c08MaxWait)
				}
				in.cc.DocChanged(sgbucket.FeedEvent{Key: []byte(in.cc.metaKeys.UnusedSeqKey(op.S)), TimeReceived: tm}, DocTypeUnusedSeq)
			} else {
				in.cc.releaseUnusedSequence(ctx, op.S, ts)
			}
		case c08Princ:
			in.cc.processEntry(ctx, &LogEntry{Sequence: op.S, DocID: fmt.Sprintf("_user/u%d", op.S), IsPrincipal: true, TimeReceived: ts})
		default:
			in.cc.processEntry(ctx, &LogEntry{Sequence: op.S, DocID: fmt.Sprintf("doc%d", op.S), RevID: "1-abc", TimeReceived: ts,
				CollectionID: base.DefaultCollectionID, Channels: c08ChanMap(op.S)})
		}
	case "R":
		if in.viaFeed && !op.Aged { // processUnusedSequenceRange stamps the entry with the current time
			in.cc.DocChanged(sgbucket.FeedEvent{Key: []byte(in.cc.metaKeys.UnusedSeqRangeKey(op.S, op.Hi)), TimeReceived: time.Now()}, DocTypeUnusedSeqRange)
		} else {
			in.cc.releaseUnusedSequenceRange(ctx, op.S, op.Hi, ts)
		}
	case "O":
		// first request for the channel: the real channelCacheImpl creates the cache lazily (validFrom =
		// highCacheSequence+1) and the feed registers on its late-sequence log
		for _, c := range in.chans {
			if c.id == op.S {
				return
			}
		}
		v, err := in.chc.getSingleChannelCache(ctx, channels.NewID(c08ChanName(op.S), base.DefaultCollectionID))
		sc, ok := v.(*singleChannelCacheImpl)
		if err != nil || !ok {
			in.env.t.Fatalf("cannot open channel cache %d: %v", op.S, err)
		}
		in.chans = append(in.chans, &c08Chan{id: op.S, sc: sc, reg: sc.RegisterLateSequenceClient()})
	case "H":
		atomic.StoreInt64(&in.cc.lastAddPendingTime, 0) // "CachePendingSeqMaxWait has passed since the last run"
		_ = in.cc.InsertPendingEntries(ctx)
	case "X":
		in.cc.options.CacheSkippedSeqMaxWait = 0 // every skipped entry is old enough
		_ = in.cc.CleanSkippedSequenceQueue(ctx)
		in.cc.options.CacheSkippedSeqMaxWait = c08MaxWait
	case "Y":
		if op.Real > 0 {
			// the timestamps PushSkipped took from the real clock decide
			in.cc.options.CacheSkippedSeqMaxWait = time.Duration(op.Real) * time.Millisecond
			_ = in.cc.CleanSkippedSequenceQueue(ctx)
			in.cc.options.CacheSkippedSeqMaxWait = c08MaxWait
			return
		}
		// the adversary chooses, element by element, which timestamps are older than CacheSkippedSeqMaxWait (a day)
		now := time.Now().Unix()
		j := 0
		for e := in.cc.skippedSeqs.list.Front(); e != nil; e = e.Next() {
			ts := now
			if j < len(op.Bits) && op.Bits[j] {
				ts = now - int64((2 * c08MaxWait).Seconds())
			}
			c08SetTimestamp(e, ts)
			j++
		}
		_ = in.cc.CleanSkippedSequenceQueue(ctx)
	}
}

// the key of a skip-list element is unexported in its package: the harness plays the clock by writing the
// timestamp in place (single-threaded at that point)
func c08SetTimestamp(e *skiplist.Element, ts int64) {
	f := reflect.ValueOf(e).Elem().FieldByName("key").FieldByName("Timestamp")
	*(*int64)(unsafe.Pointer(f.UnsafeAddr())) = ts
}

type c08Obs struct {
	Next   uint64      `json:"next"`
	Pend   [][2]uint64 `json:"pending"`
	Recv   []uint64    `json:"received"`
	Skip   [][2]uint64 `json:"skipped"`
	Stable uint64      `json:"stable"`
	Dl     []c08Dlv    `json:"delivered"`
}

// the keys of the skip list's elements, one by one (the structure matters: CompactList abandons whole elements)
func (in *c08Inst) skippedRanges() [][2]uint64 {
	var out [][2]uint64
	for e := in.cc.skippedSeqs.list.Front(); e != nil; e = e.Next() {
		k := e.Key()
		out = append(out, [2]uint64{k.Start, k.End})
	}
	return out
}

func (in *c08Inst) observe() c08Obs {
	c := in.cc
	c.lock.Lock()
	o := c08Obs{Next: c.nextSequence, Stable: c._getMaxStableCached(in.env.ctx)}
	for _, p := range c.pendingLogs {
		o.Pend = append(o.Pend, [2]uint64{p.Sequence, p.EndSequence})
	}
	for s := range c.receivedSeqs {
		o.Recv = append(o.Recv, s)
	}
	c.lock.Unlock()
	sort.Slice(o.Pend, func(i, j int) bool {
		if o.Pend[i][0] != o.Pend[j][0] {
			return o.Pend[i][0] < o.Pend[j][0]
		}
		return o.Pend[i][1] < o.Pend[j][1]
	})
	sort.Slice(o.Recv, func(i, j int) bool { return o.Recv[i] < o.Recv[j] })
	o.Skip = in.skippedRanges()
	in.rec.mu.Lock()
	o.Dl = append([]c08Dlv(nil), in.rec.log[in.seen:]...)
	in.seen = len(in.rec.log)
	in.rec.mu.Unlock()
	return o
}

func c08Pairs(p [][2]uint64) string {
	it := make([]string, len(p))
	for i, x := range p {
		it[i] = fmt.Sprintf("(%d,%d)", x[0], x[1])
	}
	return "[" + strings.Join(it, ";") + "]"
}
func (o c08Obs) coq() string {
	dl := make([]string, len(o.Dl))
	for i, d := range o.Dl {
		dl[i] = d.coq()
	}
	return fmt.Sprintf("O %d %s %s %s %d %s", o.Next, c08Pairs(o.Pend), cqNList(o.Recv), c08Pairs(o.Skip), o.Stable, cqList(dl))
}

// what a channel cache holds at the end: validFrom, cached sequences (sorted), and what the feed registered at its
// creation reads from the late-sequence log (the real GetLateSequencesSince), in arrival order
type c08ChanObs struct {
	ID     uint64   `json:"id"`
	Valid  uint64   `json:"valid_from"`
	Cached []uint64 `json:"cached"`
	Late   []uint64 `json:"late"`
	Err    string   `json:"late_err,omitempty"`
}

func (c *c08Chan) contents() c08ChanObs {
	o := c08ChanObs{ID: c.id}
	c.sc.lock.RLock()
	o.Valid = c.sc.validFrom
	for _, l := range c.sc.logs {
		o.Cached = append(o.Cached, l.Sequence)
	}
	c.sc.lock.RUnlock()
	sort.Slice(o.Cached, func(i, j int) bool { return o.Cached[i] < o.Cached[j] })
	entries, last, err := c.sc.GetLateSequencesSince(c.reg)
	if err != nil {
		o.Err = err.Error()
	}
	c.reg = last
	for _, l := range entries {
		o.Late = append(o.Late, l.Sequence)
	}
	return o
}
func (o c08ChanObs) coq() string {
	return fmt.Sprintf("(%d, %d, %s, %s)", o.ID, o.Valid, cqNList(o.Cached), cqNList(o.Late))
}

// ---------- Go-side reflections of the theorem statements ----------

func c08InRanges(s uint64, r [][2]uint64) bool {
	for _, x := range r {
		if x[0] <= s && s <= x[1] {
			return true
		}
	}
	return false
}

func c08Covers(o c08Op, s uint64) bool {
	switch o.Typ {
	case "A":
		return o.S == s
	case "R":
		return o.S <= s && s <= o.Hi
	}
	return false
}

type c08Event struct {
	k      c08Kind
	lo, hi uint64
}

func c08EventOf(o c08Op) (c08Event, bool) {
	switch o.Typ {
	case "A":
		return c08Event{o.Kind, o.S, o.S}, true
	case "R":
		return c08Event{c08Unused, o.S, o.Hi}, true
	}
	return c08Event{}, false
}

// feed_consistent /\ ops_wf of C08_Properties.v
func c08Consistent(ops []c08Op, initial uint64) bool {
	var evs []c08Event
	for _, o := range ops {
		e, ok := c08EventOf(o)
		if !ok {
			continue
		}
		if e.lo > e.hi || (e.lo < e.hi && e.lo <= initial && initial < e.hi) {
			return false
		}
		for _, f := range evs {
			if e != f && !(e.hi < f.lo || f.hi < e.lo) {
				return false
			}
		}
		evs = append(evs, e)
	}
	return true
}

var c08Seq1Skipped int

type c08Mon struct {
	rec        *vRecorder
	stream     string
	maxp       int
	initial    uint64
	consistent bool
	hist       []c08Op
	abandoned  [][2]uint64
	all        []c08Dlv
	prevNext   uint64
	prevSkip   [][2]uint64
	prevRecv   []uint64
	prevPend   [][2]uint64
	input      func() any // what to report as the failing input (default: the operations so far)
	docMode    bool // the history holds the expansion of document events: mentions in recent_sequences are not arrivals of their own
	buffered   bool
	skippedAny bool
	dupAny     bool
	lateAny    bool
	failed     bool
}

func (m *c08Mon) fail(mon, sig string, detail string) {
	if m.failed {
		return
	}
	m.failed = true
	if m.input != nil {
		m.rec.Fail(mon, sig, m.input(), detail)
		return
	}
	m.rec.Fail(mon, sig, map[string]any{"stream": m.stream, "maxp": m.maxp, "initial": m.initial, "ops": m.hist, "trace": c08OpsString(m.hist)}, detail)
}

func (m *c08Mon) covered(s uint64) bool {
	for _, o := range m.hist {
		if c08Covers(o, s) {
			return true
		}
	}
	return false
}

// after applies the monitors to the state reached by the last operation of m.hist
func (m *c08Mon) after(op c08Op, o c08Obs) {
	wasSkipped := op.Typ == "A" && c08InRanges(op.S, m.prevSkip)
	wasReceived := false
	for _, r := range m.prevRecv {
		if op.Typ == "A" && r == op.S {
			wasReceived = true
		}
	}
	if op.Typ == "A" || op.Typ == "R" {
		for _, h := range m.hist[:len(m.hist)-1] {
			if h.Typ == op.Typ && h.S == op.S && h.Hi == op.Hi {
				m.dupAny = true
			}
		}
	}
	m.noteAbandon(op, o)
	m.deliveries(o)
	// seqbuf_late_delivered: a skipped sequence that turns up is delivered late and leaves the skipped list
	if wasSkipped && !wasReceived {
		if len(o.Dl) != 1 || o.Dl[0].Seq != op.S || !o.Dl[0].Late || !o.Dl[0].InSkip || o.Dl[0].Kind != op.Kind {
			m.fail("seqbuf_late_delivered", "late-arrival-not-delivered", fmt.Sprintf("skipped sequence %d arrived, deliveries %+v", op.S, o.Dl))
		}
		if c08InRanges(op.S, o.Skip) {
			m.fail("seqbuf_late_delivered", "late-arrival-still-skipped", fmt.Sprintf("sequence %d still in the skipped list after its late arrival", op.S))
		}
	}
	m.state(o)
	// seqbuf_exactly_once (second half), on consistent feeds: an arrived entry is delivered, pending or abandoned
	if m.consistent && !m.docMode {
		for _, h := range m.hist {
			if h.Typ != "A" || h.S <= m.initial {
				continue
			}
			m.mustBeAccountedFor(h.Kind, h.S, o)
		}
	}
	m.prevNext, m.prevSkip, m.prevRecv = o.Next, o.Skip, o.Recv
}

// CleanSkippedSequenceQueue: which elements of the skip list went (partial abandonment: exactly the elements whose
// timestamp was old enough -- seqbuf_abandon_exact)
func (m *c08Mon) noteAbandon(op c08Op, o c08Obs) {
	switch op.Typ {
	case "X":
		m.abandoned = append(m.abandoned, m.prevSkip...)
		if len(o.Skip) != 0 {
			m.fail("seqbuf_abandon_exact", "abandon-all-left-elements", fmt.Sprintf("every skipped element was old enough, yet %v remain", o.Skip))
		}
	case "Y":
		if op.Real > 0 { // the real clock decided: read off what went
			for _, e := range m.prevSkip {
				if !c08HasPair(o.Skip, e) {
					m.abandoned = append(m.abandoned, e)
				}
			}
			return
		}
		var kept [][2]uint64
		for j, e := range m.prevSkip {
			if j < len(op.Bits) && op.Bits[j] {
				m.abandoned = append(m.abandoned, e)
			} else {
				kept = append(kept, e)
			}
		}
		if fmt.Sprint(kept) != fmt.Sprint(o.Skip) {
			m.fail("seqbuf_abandon_exact", "abandoned-wrong-elements", fmt.Sprintf("skipped elements %v, old enough %v: expected %v to remain, found %v", m.prevSkip, op.Bits, kept, o.Skip))
		}
	}
}

func c08HasPair(l [][2]uint64, x [2]uint64) bool {
	for _, y := range l {
		if y == x {
			return true
		}
	}
	return false
}

// what reached the channel cache during the last step
func (m *c08Mon) deliveries(o c08Obs) {
	// seqbuf_exactly_once (first half): nothing reaches the channel cache twice
	for _, d := range o.Dl {
		lo, hi := d.Seq, d.Seq
		if d.End != 0 {
			hi = d.End
		}
		for _, p := range m.all {
			plo, phi := p.Seq, p.Seq
			if p.End != 0 {
				phi = p.End
			}
			if !(hi < plo || phi < lo) {
				m.fail("seqbuf_exactly_once", "delivered-twice", fmt.Sprintf("sequence %d forwarded to the channel cache again (earlier %+v, now %+v)", d.Seq, p, d))
			}
		}
		if d.Late {
			m.lateAny = true
		}
		if d.Late != d.InSkip {
			m.fail("seqbuf_late_delivered", "late-flag-vs-skipped-list", fmt.Sprintf("delivery %+v: Skipped flag and presence in the skipped list disagree at the time of the cache add", d))
		}
		m.all = append(m.all, d)
	}
}

func (m *c08Mon) mustBeAccountedFor(k c08Kind, s uint64, o c08Obs) {
	found := c08InRanges(s, m.abandoned)
	for _, d := range m.all {
		if d.Seq == s && d.End == 0 && d.Kind == k {
			found = true
		}
	}
	for _, p := range o.Pend {
		if p[0] == s && p[1] == 0 {
			found = true
		}
	}
	if !found {
		m.fail("seqbuf_exactly_once", "arrival-lost", fmt.Sprintf("sequence %d (%s) arrived but is neither delivered nor pending nor abandoned", s, k.coq()))
	}
}

// the monitors that only look at the state (and the history of what was covered)
func (m *c08Mon) state(o c08Obs) {
	if len(o.Pend) > 0 {
		m.buffered = true
	}
	if len(o.Skip) > 0 {
		m.skippedAny = true
	}
	// seqbuf_defensive: nextSequence never moves backwards
	if o.Next < m.prevNext {
		m.fail("seqbuf_next_monotone", "next-regressed", fmt.Sprintf("nextSequence went from %d to %d", m.prevNext, o.Next))
	}
	// seqbuf_hwm_contiguous / seqbuf_skipped_exact
	if o.Next > m.initial+1 && o.Next-m.initial < 5000 {
		for s := m.initial + 1; s < o.Next; s++ {
			cov, sk, ab := m.covered(s), c08InRanges(s, o.Skip), c08InRanges(s, m.abandoned)
			if !cov && !sk && !ab {
				m.fail("seqbuf_hwm_contiguous", "gap-hidden", fmt.Sprintf("sequence %d is below nextSequence %d but never arrived, was never declared unused, and is not skipped", s, o.Next))
			}
			if m.consistent && sk && cov {
				m.fail("seqbuf_skipped_exact", "skipped-but-arrived", fmt.Sprintf("sequence %d arrived or was declared unused but is still in the skipped list", s))
			}
			if sk && ab {
				m.fail("seqbuf_skipped_exact", "skipped-and-abandoned", fmt.Sprintf("sequence %d was abandoned and is in the skipped list", s))
			}
		}
	}
	prevHi := m.initial
	for _, r := range o.Skip {
		if r[0] <= m.initial || r[1] >= o.Next {
			m.fail("seqbuf_skipped_exact", "skipped-out-of-window", fmt.Sprintf("skipped range %v outside (initial=%d, next=%d)", r, m.initial, o.Next))
		}
		// the elements of the skip list are ascending and pairwise disjoint (sk_wf_from, for every operation list)
		if r[0] > r[1] || r[0] <= prevHi {
			m.fail("seqbuf_skipped_exact", "skiplist-elements-overlap", fmt.Sprintf("skip-list elements %v are not ascending and disjoint", o.Skip))
		}
		prevHi = r[1]
		// seqbuf_stable_safe
		if o.Stable >= r[0] {
			m.fail("seqbuf_stable_safe", "stable-not-below-skipped", fmt.Sprintf("stable sequence %d is not below skipped %d", o.Stable, r[0]))
		}
	}
	if o.Stable+1 > o.Next {
		m.fail("seqbuf_stable_safe", "stable-above-hwm", fmt.Sprintf("stable sequence %d above nextSequence-1 = %d", o.Stable, o.Next-1))
	}
	// low sequence stamped on rows (db/changes.go) + the real SequenceID.SafeSequence: resuming never passes a skipped sequence
	// (oldest skipped = 1 is the corner recorded in C08_Refuted.low_seq_hides_sequence_1; the stamping code itself
	// is not driven by this harness, so that corner is only counted)
	if len(o.Skip) > 0 && o.Skip[0][0] == 1 {
		c08Seq1Skipped++
	}
	if len(o.Skip) > 0 && o.Skip[0][0] > 1 {
		low := o.Skip[0][0] - 1
		for _, q := range []uint64{low, low + 1, o.Next - 1, o.Next, o.Next + 7} {
			if q == 0 {
				continue
			}
			if r := (SequenceID{LowSeq: low, Seq: q}).SafeSequence(); r >= o.Skip[0][0] {
				m.fail("seqbuf_resume_safe", "resume-passes-skipped", fmt.Sprintf("row seq %d with low %d resumes from %d, not below skipped %d", q, low, r, o.Skip[0][0]))
			}
		}
	}
	// seqbuf_received_exact_all_feeds: receivedSeqs is exactly the set of buffered single sequences, on EVERY feed (the
	// 'oldest pending < nextSequence' branch never drops a single sequence) ...
	var singles []uint64
	for _, p := range o.Pend {
		if p[1] == 0 {
			singles = append(singles, p[0])
		}
	}
	if fmt.Sprint(singles) != fmt.Sprint(o.Recv) {
		m.fail("seqbuf_received_exact", "received-set-differs", fmt.Sprintf("receivedSeqs %v, buffered single sequences %v", o.Recv, singles))
	}
	// ... seqbuf_singles_never_stale: and none of them is below nextSequence
	for _, x := range singles {
		if x < o.Next {
			m.fail("seqbuf_received_exact", "buffered-single-below-next", fmt.Sprintf("buffered single sequence %d is below nextSequence %d", x, o.Next))
		}
	}
	// seqbuf_pending_ties_identical, on consistent feeds: entries that share a start sequence are copies of one unused range
	if m.consistent {
		for i := 1; i < len(o.Pend); i++ {
			if o.Pend[i][0] == o.Pend[i-1][0] && (o.Pend[i][1] != o.Pend[i-1][1] || o.Pend[i][1] == 0) {
				m.fail("seqbuf_pending_ties_identical", "different-entries-share-start", fmt.Sprintf("pending entries %v and %v share their start sequence", o.Pend[i-1], o.Pend[i]))
			}
		}
	}
}

// ---------- running one trace ----------

type c08Result struct {
	ops        []c08Op // the operations as recorded (pseudo-operations removed, real-clock abandonment with the bits observed)
	obs        []c08Obs
	chans      []c08ChanObs // final contents of every channel cache, "*" first
	lazy       bool         // the trace opens channel caches lazily
	nontrivial bool
	lateAny    bool
	lateBelow  bool // a late arrival reached a cache whose validFrom is above it
}

func c08Has(l []uint64, x uint64) bool {
	for _, y := range l {
		if y == x {
			return true
		}
	}
	return false
}

func (e *c08Env) runTrace(rec *vRecorder, stream string, maxp int, initial uint64, ops []c08Op, consistent bool) c08Result {
	in := e.newInst(maxp, initial)
	defer in.close()
	e.traces++
	in.viaFeed = (stream == "random-consistent" || stream == "adversarial" || stream == "corpus" || stream == "lazy-channels") && e.traces%2 == 0
	m := &c08Mon{rec: rec, stream: stream, maxp: maxp, initial: initial, consistent: consistent, prevNext: initial + 1}
	var res c08Result
	// for every late document: the channel caches (of its channels, and "*") that were active when it was forwarded
	type lateDoc struct {
		seq   uint64
		chans []uint64
	}
	var lateDocs []lateDoc
	var sleptAt time.Time
	for _, op := range ops {
		if op.Typ == "sleep" {
			time.Sleep(time.Duration(op.S) * time.Millisecond)
			sleptAt = time.Now()
			continue
		}
		var open []uint64
		for _, c := range in.chans {
			open = append(open, c.id)
		}
		in.apply(op)
		o := in.observe()
		if op.Typ == "Y" && op.Real > 0 {
			// the real clock decided; an element the trace says must be old enough has to be gone
			seen := make([]bool, len(m.prevSkip))
			for j, e := range m.prevSkip {
				seen[j] = !c08HasPair(o.Skip, e)
				if j < len(op.Bits) && op.Bits[j] && !seen[j] {
					m.hist = append(m.hist, op)
					m.fail("seqbuf_abandon_exact", "real-clock-kept-old-element", fmt.Sprintf("skip-list element %v was pushed more than CacheSkippedSeqMaxWait ago and survived CleanSkippedSequenceQueue", e))
					m.hist = m.hist[:len(m.hist)-1]
				}
			}
			// ... and an element pushed after the pause, less than CacheSkippedSeqMaxWait - 1 s ago by the harness's own
			// clock, has to stay
			if time.Since(sleptAt) < time.Duration(op.Real-1000)*time.Millisecond {
				for j, e := range m.prevSkip {
					if j < len(op.Bits) && !op.Bits[j] && seen[j] {
						m.hist = append(m.hist, op)
						m.fail("seqbuf_abandon_exact", "real-clock-abandoned-young-element", fmt.Sprintf("skip-list element %v was pushed less than CacheSkippedSeqMaxWait ago and was abandoned", e))
						m.hist = m.hist[:len(m.hist)-1]
					}
				}
			}
			op.Bits = seen
		}
		res.ops = append(res.ops, op)
		m.hist = append(m.hist, op)
		if op.Typ == "O" {
			res.lazy = true
		}
		m.after(op, o)
		res.obs = append(res.obs, o)
		for _, d := range o.Dl {
			if d.Kind == c08Doc && d.Late {
				ld := lateDoc{seq: d.Seq}
				for _, id := range open {
					if id == 0 || c08Has(c08ChanIDs(d.Seq), id) {
						ld.chans = append(ld.chans, id)
					}
				}
				lateDocs = append(lateDocs, ld)
			}
		}
	}
	byID := map[uint64]c08ChanObs{}
	for _, c := range in.chans {
		co := c.contents()
		res.chans = append(res.chans, co)
		byID[c.id] = co
		if co.Err != "" {
			m.fail("seqbuf_late_reaches_open_feeds", "late-feed-rollback", fmt.Sprintf("channel %d: GetLateSequencesSince failed: %s", c.id, co.Err))
		}
	}
	// seqbuf_late_reaches_open_feeds: a late arrival is readable from the late-sequence log of every cache of its
	// channels that was active (had a registered feed) when it was forwarded, whatever that cache's validFrom
	for _, ld := range lateDocs {
		for _, id := range ld.chans {
			co := byID[id]
			if !c08Has(co.Late, ld.seq) {
				m.fail("seqbuf_late_reaches_open_feeds", "late-arrival-not-delivered-to-open-feed",
					fmt.Sprintf("late arrival %d (channels %v) was not put on the late-sequence log of channel cache %d (validFrom %d, log %v, late log read by its feed %v)",
						ld.seq, c08ChanIDs(ld.seq), id, co.Valid, co.Cached, co.Late))
			}
			if ld.seq < co.Valid {
				res.lateBelow = true
			}
		}
	}
	// the "*" channel cache holds exactly the documents forwarded; its late log exactly the late ones
	var docs, lates []uint64
	for _, d := range m.all {
		if d.Kind == c08Doc {
			docs = append(docs, d.Seq)
			if d.Late {
				lates = append(lates, d.Seq)
			}
		}
	}
	sort.Slice(docs, func(i, j int) bool { return docs[i] < docs[j] })
	star := res.chans[0]
	if fmt.Sprint(docs) != fmt.Sprint(star.Cached) {
		m.fail("seqbuf_star_cache", "star-cache-differs", fmt.Sprintf("documents forwarded %v, star channel cache holds %v", docs, star.Cached))
	}
	if fmt.Sprint(lates) != fmt.Sprint(star.Late) {
		m.fail("seqbuf_star_cache", "late-log-differs", fmt.Sprintf("late documents forwarded %v, star late log holds %v", lates, star.Late))
	}
	res.nontrivial = m.buffered && (m.skippedAny || m.dupAny)
	if res.lazy {
		res.nontrivial = res.nontrivial && res.lateBelow
	}
	res.lateAny = m.lateAny
	return res
}

func c08CaseTerm(maxp int, initial uint64, _ []c08Op, res c08Result) string {
	ops := res.ops
	steps := make([]string, len(ops))
	if res.lazy {
		for i, op := range ops {
			steps[i] = "(" + op.xcoq() + ", " + res.obs[i].coq() + ")"
		}
		ch := make([]string, len(res.chans))
		for i, c := range res.chans {
			ch[i] = c.coq()
		}
		return fmt.Sprintf("XCase %d %d %s %s", maxp, initial, cqList(steps), cqList(ch))
	}
	for i, op := range ops {
		steps[i] = "(" + op.coq() + ", " + res.obs[i].coq() + ")"
	}
	return fmt.Sprintf("Case %d %d %s %s %s", maxp, initial, cqList(steps), cqNList(res.chans[0].Cached), cqNList(res.chans[0].Late))
}

// emit = also evaluate the trace on the model inside Coq
func (e *c08Env) doCase(rec *vRecorder, stream, kind string, maxp int, initial uint64, ops []c08Op, emit bool) c08Result {
	cons := c08Consistent(ops, initial)
	res := e.runTrace(rec, stream, maxp, initial, ops, cons)
	for _, op := range ops {
		rec.Err("op:" + op.Typ) // op-kind histogram (not errors)
	}
	rec.Size(fmt.Sprintf("len%02d", len(ops)))
	if emit {
		desc := map[string]any{"maxp": maxp, "initial": initial, "trace": c08OpsString(ops), "final": res.obs[len(res.obs)-1], "channel_caches": res.chans}
		rec.Case(stream, kind, c08CaseTerm(maxp, initial, ops, res), desc, res.nontrivial)
	} else {
		rec.Count(stream, kind, fmt.Sprintf("%d|%d|%s", maxp, initial, c08OpsString(ops)), res.nontrivial)
	}
	return res
}


// ---------- system level: real database, real caching feed, real continuous changes feeds ----------

type c08SysDoc struct {
	Seq   uint64   `json:"seq"`
	Chans []uint64 `json:"channels"` // 1, 2: the user's channels; 3: a channel the user cannot read
}
type c08SysScenario struct {
	Mode    string      `json:"feeds"` // "compound-since", "since-0", "both"
	Early   []c08SysDoc `json:"written_first"`
	Late    []c08SysDoc `json:"written_after_feeds_opened"`
	LastSeq uint64      `json:"last_early_sequence"`
	LowSeq  uint64      `json:"feed_since_low"`
}

type c08SysFeed struct {
	name string
	ch   <-chan *ChangeEntry
	got  map[uint64]int
}

// One scenario: documents 1..n are written directly with their sequence numbers except a few that are withheld; the
// change cache gives up on the withheld ones (skipped).  Continuous feeds are then opened for a user -- one with the
// compound since a client holds at that point {LowSeq: oldest skipped - 1, Seq: n}, so that its channel caches are
// created lazily with validFrom n+1, above the skipped sequences -- and the withheld documents are written.  Every
// open feed must deliver every late document of the user's channels.
func c08SystemScenario(t *testing.T, rec *vRecorder, rnd *vRand, k int) bool {
	opts := shortWaitCache()
	opts.BroadcastChangesInterval = 5 * time.Millisecond
	opts.SkippedSequenceBroadcastInterval = 5 * time.Millisecond
	db, ctx := setupTestDBWithCacheOptions(t, opts)
	defer db.Close(ctx)
	authenticator := db.Authenticator(ctx)
	user, err := authenticator.NewUser("naomi", "letmein", channels.BaseSetOf(t, c08ChanName(1), c08ChanName(2)))
	if err != nil || authenticator.Save(user) != nil {
		t.Fatalf("cannot create the user: %v", err)
	}
	collection := GetSingleDatabaseCollection(t, db.DatabaseContext)
	names := func(ids []uint64) []string {
		r := make([]string, len(ids))
		for i, id := range ids {
			r[i] = c08ChanName(id)
		}
		return r
	}
	sc := c08SysScenario{Mode: []string{"compound-since", "since-0", "both"}[k%3]}
	n := uint64(5 + rnd.Intn(4))
	sc.LastSeq = n
	withheld := map[uint64]bool{uint64(2 + rnd.Intn(int(n)-2)): true}
	if rnd.Chance(40) {
		withheld[uint64(2+rnd.Intn(int(n)-2))] = true
	}
	visibleLate := false
	for s := uint64(1); s <= n; s++ {
		var ch []uint64
		for id := uint64(1); id <= 3; id++ {
			if rnd.Chance(50) {
				ch = append(ch, id)
			}
		}
		if len(ch) == 0 {
			ch = []uint64{uint64(1 + rnd.Intn(3))}
		}
		d := c08SysDoc{Seq: s, Chans: ch}
		if withheld[s] {
			if !visibleLate && !c08Has(ch, 1) && !c08Has(ch, 2) {
				d.Chans = append(d.Chans, uint64(1+rnd.Intn(2)))
			}
			visibleLate = true
			sc.Late = append(sc.Late, d)
			if sc.LowSeq == 0 {
				sc.LowSeq = s - 1
			}
		} else {
			sc.Early = append(sc.Early, d)
		}
	}
	for _, d := range sc.Early {
		WriteDirect(t, collection, names(d.Chans), d.Seq)
	}
	db.WaitForSequence(t, n)
	allSkipped := true
	for _, d := range sc.Late {
		if !db.changeCache.skippedSeqs.Contains(d.Seq) {
			allSkipped = false
		}
	}
	dbc, uctx := GetSingleDatabaseCollectionWithUser(ctx, t, db)
	dbc.user, err = authenticator.GetUser("naomi")
	if err != nil {
		t.Fatalf("GetUser: %v", err)
	}
	changesCtx, cancel := context.WithCancelCause(base.TestCtx(t))
	defer cancel(errors.New("c08 scenario done"))
	open := func(name string, since SequenceID) *c08SysFeed {
		options := ChangesOptions{Since: since, Continuous: true, Wait: true, ChangesCtx: changesCtx}
		ch, err := dbc.MultiChangesFeed(uctx, base.SetOf("*"), options)
		if err != nil {
			t.Fatalf("MultiChangesFeed: %v", err)
		}
		return &c08SysFeed{name: name, ch: ch, got: map[uint64]int{}}
	}
	var feeds []*c08SysFeed
	if sc.Mode != "since-0" {
		feeds = append(feeds, open(fmt.Sprintf("since %d::%d", sc.LowSeq, n), SequenceID{LowSeq: sc.LowSeq, Seq: n}))
	}
	// wait until the feed has created the channel caches and registered on their late-sequence logs
	registered := func() bool {
		impl, ok := db.changeCache.getChannelCache().(*channelCacheImpl)
		if !ok {
			return false
		}
		for id := uint64(1); id <= 2; id++ {
			scc, found := impl.getActiveChannelCache(ctx, channels.NewID(c08ChanName(id), collection.GetCollectionID()))
			if !found {
				return false
			}
			scc.lateLogLock.RLock()
			l := scc._mostRecentLateLog()
			cnt := uint64(0)
			if l != nil {
				cnt = l.getListenerCount()
			}
			scc.lateLogLock.RUnlock()
			if cnt < uint64(len(feeds)) {
				return false
			}
		}
		return true
	}
	waitRegistered := func() {
		for dl := time.Now().Add(30 * time.Second); time.Now().Before(dl) && !registered(); {
			time.Sleep(2 * time.Millisecond)
		}
	}
	waitRegistered()
	if sc.Mode != "compound-since" {
		feeds = append(feeds, open("since 0", SequenceID{}))
		waitRegistered()
	}
	validAbove := false
	if impl, ok := db.changeCache.getChannelCache().(*channelCacheImpl); ok {
		for id := uint64(1); id <= 2; id++ {
			if scc, found := impl.getActiveChannelCache(ctx, channels.NewID(c08ChanName(id), collection.GetCollectionID())); found {
				scc.lock.RLock()
				for _, d := range sc.Late {
					if c08Has(d.Chans, id) && d.Seq < scc.validFrom {
						validAbove = true
					}
				}
				scc.lock.RUnlock()
			}
		}
	}
	for _, d := range sc.Late {
		WriteDirect(t, collection, names(d.Chans), d.Seq)
	}
	marker := n + 1
	WriteDirect(t, collection, []string{c08ChanName(1)}, marker)
	ok := true
	for _, f := range feeds {
		want := map[uint64]bool{marker: true}
		for _, d := range sc.Late {
			if c08Has(d.Chans, 1) || c08Has(d.Chans, 2) {
				want[d.Seq] = true
			}
		}
		missing := func() []uint64 {
			var m []uint64
			for s := range want {
				if f.got[s] == 0 {
					m = append(m, s)
				}
			}
			sort.Slice(m, func(i, j int) bool { return m[i] < m[j] })
			return m
		}
		// generous: a loaded machine must never turn into an alarm (delivery normally takes milliseconds)
		deadline := time.After(45 * time.Second)
	read:
		for len(missing()) > 0 {
			select {
			case e, more := <-f.ch:
				if !more {
					break read
				}
				if e != nil {
					f.got[e.Seq.Seq]++
				}
			case <-deadline:
				break read
			}
		}
		for _, s := range missing() {
			ok = false
			if s == marker {
				rec.Fail("seqbuf_late_reaches_open_feeds", "system-feed-stalled", map[string]any{"stream": "system", "scenario": sc, "feed": f.name},
					fmt.Sprintf("feed %q did not deliver the marker document %d", f.name, marker))
			} else {
				rec.Fail("seqbuf_late_reaches_open_feeds", "late-arrival-not-delivered-to-open-feed", map[string]any{"stream": "system", "scenario": sc, "feed": f.name},
					fmt.Sprintf("open continuous feed %q never received the late arrival %d (skipped before the feed was opened: %v; channel cache validFrom above it: %v)", f.name, s, allSkipped, validAbove))
			}
		}
		for _, d := range sc.Late {
			if !c08Has(d.Chans, 1) && !c08Has(d.Chans, 2) && f.got[d.Seq] > 0 {
				ok = false
				rec.Fail("seqbuf_late_reaches_open_feeds", "late-arrival-outside-channels", map[string]any{"stream": "system", "scenario": sc, "feed": f.name},
					fmt.Sprintf("feed %q delivered late arrival %d of a channel the user cannot read", f.name, d.Seq))
			}
		}
	}
	rec.Count("system", "system:"+sc.Mode, fmt.Sprintf("%+v", sc), allSkipped && validAbove)
	return ok
}

func c08Permutations(n int, f func([]int)) {
	p := make([]int, n)
	for i := range p {
		p[i] = i
	}
	var rec func(k int)
	rec = func(k int) {
		if k == n {
			f(p)
			return
		}
		for i := k; i < n; i++ {
			p[k], p[i] = p[i], p[k]
			rec(k + 1)
			p[k], p[i] = p[i], p[k]
		}
	}
	rec(0)
}

// all arrival orders of the events, each with one event delivered a second time at every later position;
// variant 0: nothing aged; variant 1: everything aged, one housekeeping run at the end
func c08Exhaustive(events []c08Op, f func(ops []c08Op)) {
	n := len(events)
	c08Permutations(n, func(p []int) {
		for variant := 0; variant < 2; variant++ {
			for d := 0; d < n; d++ {
				for pos := d + 1; pos <= n; pos++ {
					ops := make([]c08Op, 0, n+2)
					for i := 0; i < n; i++ {
						if i == pos {
							ops = append(ops, events[p[d]])
						}
						ops = append(ops, events[p[i]])
					}
					if pos == n {
						ops = append(ops, events[p[d]])
					}
					if variant == 1 {
						for i := range ops {
							ops[i].Aged = true
						}
						ops = append(ops, c08Op{Typ: "H"})
					}
					f(ops)
				}
			}
		}
	})
}

func c08Window(initial uint64, n int, rangeAt int) []c08Op {
	kinds := []c08Kind{c08Doc, c08Doc, c08Princ, c08Unused, c08Doc, c08Doc}
	var ev []c08Op
	for i := 1; i <= n; i++ {
		if i == rangeAt {
			ev = append(ev, c08Op{Typ: "R", S: initial + uint64(i), Hi: initial + uint64(i) + 1})
			i++
			continue
		}
		ev = append(ev, c08Op{Typ: "A", Kind: kinds[(i-1)%len(kinds)], S: initial + uint64(i)})
	}
	return ev
}

func TestVerifC08(t *testing.T) {
	rec := vNewRecorder(t, "C08", "C08.C08_Corr")
	defer rec.Finish()
	rnd := vNewRand(vSeed())
	base.SetUpTestLogging(t, base.LevelError, base.KeyNone)

	db, ctx := SetupTestDBWithOptions(t, DatabaseContextOptions{})
	defer db.Close(ctx)
	env := &c08Env{t: t, ctx: ctx, dbc: db.DatabaseContext, active: channels.NewActiveChannels(&base.SgwIntStat{})}
	thresholds := []int{0, 1, 2, 100}

	A := func(k c08Kind, s uint64, aged bool) c08Op { return c08Op{Typ: "A", Kind: k, S: s, Aged: aged} }
	R := func(lo, hi uint64, aged bool) c08Op { return c08Op{Typ: "R", S: lo, Hi: hi, Aged: aged} }
	H, X := c08Op{Typ: "H"}, c08Op{Typ: "X"}
	Y := func(bits ...bool) c08Op { return c08Op{Typ: "Y", Bits: bits} }
	// CleanSkippedSequenceQueue: every element old enough, or an adversarial choice element by element
	randAbandon := func() c08Op {
		if rnd.Chance(30) {
			return X
		}
		bits := make([]bool, 1+rnd.Intn(4))
		for i := range bits {
			bits[i] = rnd.Chance(50)
		}
		return c08Op{Typ: "Y", Bits: bits}
	}

	// ---- (s) system level, run first so that its findings lead the report: real database + caching feed + real
	//      continuous changes feeds (MultiChangesFeed with late-sequence feeds); monitors only ----
	nSys := vBudget(9, 60)
	sysFailed := 0
	for k := 0; k < nSys && sysFailed < 3; k++ {
		if !c08SystemScenario(t, rec, rnd, k) {
			sysFailed++
		}
	}
	rec.Extra("system_scenarios_failed", sysFailed)

	// ---- (a) corpus: the situations named in DESIGN.md (duplicates, skip + late arrival, unused ranges over
	//      pending and skipped, truncation of an overlapping range, abandon) ----
	corpus := []struct {
		maxp    int
		initial uint64
		ops     []c08Op
	}{
		{100, 0, []c08Op{A(c08Doc, 1, false), A(c08Doc, 1, false), A(c08Doc, 2, false)}},
		{100, 0, []c08Op{A(c08Doc, 3, false), A(c08Doc, 3, false), A(c08Doc, 2, false), A(c08Doc, 1, false)}},
		{0, 10, []c08Op{A(c08Doc, 13, false), A(c08Doc, 11, false), A(c08Doc, 12, false), A(c08Doc, 12, false), A(c08Doc, 14, false)}},
		{1, 10, []c08Op{A(c08Doc, 15, false), A(c08Doc, 13, false), A(c08Unused, 12, false), R(11, 11, false), A(c08Princ, 14, false)}},
		{100, 5, []c08Op{A(c08Doc, 9, true), H, A(c08Doc, 7, false), R(6, 8, false), A(c08Doc, 6, false), A(c08Doc, 8, false)}},
		{100, 5, []c08Op{A(c08Doc, 12, true), H, R(6, 9, false), R(10, 11, false), A(c08Doc, 13, false)}},
		{100, 5, []c08Op{R(8, 10, false), R(8, 10, false), A(c08Doc, 6, false), A(c08Doc, 7, false), A(c08Doc, 11, false)}},
		{100, 5, []c08Op{R(7, 12, false), A(c08Doc, 10, false), A(c08Doc, 6, false), H}},
		{100, 5, []c08Op{A(c08Doc, 10, false), R(7, 12, false), A(c08Doc, 6, false), H, A(c08Doc, 13, true), H}},
		{2, 0, []c08Op{A(c08Doc, 9, false), A(c08Doc, 7, false), A(c08Doc, 5, false), X, A(c08Doc, 2, false), A(c08Doc, 6, false), A(c08Doc, 6, false)}},
		{100, 0, []c08Op{A(c08Doc, 4, true), H, R(1, 3, false), A(c08Doc, 2, false)}},
		{100, 0, []c08Op{A(c08Doc, 4, true), H, R(2, 6, false), A(c08Doc, 5, false), A(c08Doc, 8, true), H}},
		{100, 7, []c08Op{A(c08Doc, 3, false), A(c08Doc, 7, false), A(c08Doc, 0, false), R(2, 5, false), A(c08Doc, 8, false)}},
		{0, 0, []c08Op{A(c08Doc, 3, false), A(c08Doc, 6, false), A(c08Doc, 1, false), A(c08Doc, 5, false), A(c08Doc, 2, false), A(c08Doc, 4, false)}},
		// the two witnesses of coq/theories/C08/C08_Refuted.v
		{100, 0, []c08Op{A(c08Doc, 2, true), H}},
		{100, 10, []c08Op{R(5, 15, false), A(c08Doc, 16, true), H}},
		// a channel cache created lazily above a skipped sequence (validFrom 7), then the late arrival 3 (channels 1, 2)
		{100, 0, []c08Op{A(c08Doc, 1, false), A(c08Doc, 2, false), A(c08Doc, 4, true), A(c08Doc, 5, false), A(c08Doc, 6, false), H,
			{Typ: "O", S: 1}, A(c08Doc, 3, false), {Typ: "O", S: 2}, A(c08Doc, 7, false)}},
		{0, 10, []c08Op{A(c08Doc, 13, false), {Typ: "O", S: 1}, {Typ: "O", S: 2}, A(c08Doc, 11, false), A(c08Doc, 14, false), A(c08Doc, 12, false), A(c08Doc, 15, false)}},
		// partial abandonment: three elements [11,12] [14,14] [16,17]; the middle one, then the last one, then a late arrival
		// of an abandoned sequence (ignored) and of a still skipped one (delivered late)
		{100, 10, []c08Op{A(c08Doc, 13, true), H, A(c08Doc, 15, true), H, A(c08Doc, 18, true), H, Y(false, true), A(c08Doc, 14, false),
			Y(false, true), A(c08Doc, 12, false), A(c08Doc, 16, false), Y(true), A(c08Doc, 11, false)}},
		// an element split by a late arrival: both halves keep the element's timestamp and are abandoned separately
		{100, 0, []c08Op{A(c08Doc, 6, true), H, A(c08Doc, 3, false), Y(false, true), A(c08Doc, 5, false), A(c08Doc, 1, false), Y(true)}},
		// an unused range cutting through two elements, then partial abandonment with more bits than elements / no bits
		{100, 0, []c08Op{A(c08Doc, 4, true), H, A(c08Doc, 9, true), H, R(2, 6, false), Y(true, false, true, true), Y(), A(c08Doc, 7, false), X}},
		// the real clock: [11,12] is skipped, 1.2 s later [14,14]; with CacheSkippedSeqMaxWait = 1 s only the first is old enough
		{100, 10, []c08Op{A(c08Doc, 13, true), H, {Typ: "sleep", S: 2100}, A(c08Doc, 15, true), H, {Typ: "Y", Bits: []bool{true, false}, Real: 2000}, A(c08Doc, 11, false), A(c08Doc, 14, false)}},
		// the two traces of C08_Refuted.tie_order_matters (inconsistent feed: 12 is a document and the start of a range)
		{100, 10, []c08Op{A(c08Doc, 12, false), R(12, 15, false), A(c08Doc, 11, false), A(c08Doc, 17, true), H}},
		{100, 10, []c08Op{R(12, 15, false), A(c08Doc, 12, false), A(c08Doc, 11, false), A(c08Doc, 17, true), H}},
		// the history of C08_nonvacuous
		{100, 10, []c08Op{A(c08Doc, 13, true), A(c08Doc, 15, true), H, R(16, 17, false), A(c08Doc, 11, false), A(c08Doc, 12, false), A(c08Doc, 19, false), A(c08Doc, 12, false)}},
	}
	for _, c := range corpus {
		env.doCase(rec, "corpus", "corpus", c.maxp, c.initial, c.ops, true)
	}

	// ---- (b) bounded-exhaustive: every arrival order of a window with one event delivered twice at every later
	//      position, fresh and aged+housekeeping, for every pending-queue threshold.  Every trace is monitored in
	//      Go.  Evaluated on the model in Coq: window of 3 always in full; window of 4 in full at initial sequence 0
	//      for thresholds 0 and 2 (a deterministic quarter of the rest in the quick tier); window of 5 a deterministic
	//      1/32 in the quick tier; everything in the thorough tier (12 shards of 400 = one round of parallel coqc) ----
	nExh := 0
	for _, maxp := range thresholds {
		for _, initial := range []uint64{0, 10} {
			for rangeAt := 0; rangeAt <= 2; rangeAt++ {
				c08Exhaustive(c08Window(initial, 3, rangeAt), func(ops []c08Op) {
					env.doCase(rec, "exhaustive", "window3", maxp, initial, ops, true)
					nExh++
				})
			}
		}
	}
	n4 := 0
	for _, maxp := range thresholds {
		for _, initial := range []uint64{0, 10} {
			for rangeAt := 0; rangeAt <= 3; rangeAt++ {
				if initial == 10 && rangeAt > 1 {
					continue
				}
				c08Exhaustive(c08Window(initial, 4, rangeAt), func(ops []c08Op) {
					n4++
					env.doCase(rec, "exhaustive", "window4", maxp, initial, ops, vThorough() || (initial == 0 && (maxp == 0 || maxp == 2)) || n4%4 == 0)
					nExh++
				})
			}
		}
	}
	n5 := 0
	for _, maxp := range thresholds {
		for rangeAt := 0; rangeAt <= 4; rangeAt++ {
			if rangeAt > 0 && rangeAt%2 == 0 && !vThorough() {
				continue
			}
			c08Exhaustive(c08Window(20, 5, rangeAt), func(ops []c08Op) {
				n5++
				env.doCase(rec, "exhaustive", "window5", maxp, 20, ops, vThorough() || n5%32 == 0)
				nExh++
			})
		}
	}
	rec.Extra("exhaustive", true)
	rec.Extra("exhaustive_traces", nExh)
	rec.Extra("exhaustive_scope", "all arrival orders x one event delivered twice at every later position x {fresh, aged+housekeeping} x CachePendingSeqMaxNum in {0,1,2,100}; windows of 3, 4 (with an unused range at each position) and 5; all monitored in Go, Coq-evaluated in full for window 3 and for window 4 at initial 0 / thresholds 0 and 2, by deterministic sample otherwise in the quick tier, in full in the thorough tier")

	// ---- (c) random, consistent feed: a window partitioned into documents, principals, unused singles and
	//      unused ranges, delivered out of order with duplicates, ageing, housekeeping and abandon ----
	pickMaxp := func() int { return []int{0, 1, 2, 3, 100}[rnd.Intn(5)] }
	nRand := vBudget(350, 6000)
	lateSeen := 0
	for i := 0; i < nRand; i++ {
		initial := []uint64{0, 1, 7, 1000}[rnd.Intn(4)]
		w := 6 + rnd.Intn(9)
		var evs []c08Op
		for s := initial + 1; s <= initial+uint64(w); {
			switch r := rnd.Intn(10); {
			case r < 5:
				evs = append(evs, A(c08Doc, s, false))
				s++
			case r < 6:
				evs = append(evs, A(c08Princ, s, false))
				s++
			case r < 7:
				evs = append(evs, A(c08Unused, s, false))
				s++
			case r < 8:
				evs = append(evs, R(s, s, false))
				s++
			default:
				l := uint64(1 + rnd.Intn(4))
				evs = append(evs, R(s, s+l, false))
				s += l + 1
			}
		}
		// out-of-order delivery: local shuffles of varying reach, sometimes a full shuffle
		reach := 1 + rnd.Intn(len(evs))
		for j := range evs {
			k := j + rnd.Intn(reach+1)
			if k >= len(evs) {
				k = len(evs) - 1
			}
			evs[j], evs[k] = evs[k], evs[j]
		}
		// some events are lost for a while (delivered at the very end: late arrivals), some are never delivered
		var ops, tail []c08Op
		agedPct := []int{0, 10, 50}[rnd.Intn(3)]
		for _, ev := range evs {
			ev.Aged = rnd.Chance(agedPct)
			if rnd.Chance(12) {
				if rnd.Chance(70) {
					tail = append(tail, ev)
				}
				continue
			}
			ops = append(ops, ev)
			if rnd.Chance(15) {
				ops = append(ops, ops[rnd.Intn(len(ops))]) // duplicate of something already delivered
			}
			if rnd.Chance(12) {
				ops = append(ops, H)
			}
			if rnd.Chance(4) {
				ops = append(ops, randAbandon())
			}
		}
		ops = append(ops, H)
		if rnd.Chance(25) {
			ops = append(ops, randAbandon())
		}
		ops = append(ops, tail...)
		ops = append(ops, H)
		res := env.doCase(rec, "random-consistent", "random", pickMaxp(), initial, ops, true)
		if res.lateAny {
			lateSeen++
		}
	}
	rec.Extra("random_traces_with_late_arrival", lateSeen)

	// ---- (c') lazily created channel caches: consistent random feeds as in (c) with channel caches opened at random
	//      moments (validFrom = highCacheSequence+1, often above a skipped sequence) and a feed registered on each;
	//      late arrivals must be readable by those feeds ----
	nLazy := vBudget(250, 3000)
	lazyBelow := 0
	for i := 0; i < nLazy; i++ {
		initial := []uint64{0, 4, 100}[rnd.Intn(3)]
		w := 6 + rnd.Intn(7)
		var evs, tail, ops []c08Op
		for s := initial + 1; s <= initial+uint64(w); s++ {
			k := c08Doc
			if rnd.Chance(12) {
				k = []c08Kind{c08Princ, c08Unused}[rnd.Intn(2)]
			}
			evs = append(evs, A(k, s, false))
		}
		reach := 1 + rnd.Intn(3)
		for j := range evs {
			k := j + rnd.Intn(reach+1)
			if k >= len(evs) {
				k = len(evs) - 1
			}
			evs[j], evs[k] = evs[k], evs[j]
		}
		opened := 0
		for j, ev := range evs {
			ev.Aged = rnd.Chance(40)
			if j < len(evs)-1 && rnd.Chance(25) {
				tail = append(tail, ev) // withheld: arrives late
				continue
			}
			ops = append(ops, ev)
			if rnd.Chance(10) {
				ops = append(ops, H)
			}
			if opened < 2 && rnd.Chance(12) {
				opened++
				ops = append(ops, c08Op{Typ: "O", S: uint64(opened)})
			}
		}
		ops = append(ops, H)
		for opened < 2 && rnd.Chance(80) {
			opened++
			ops = append(ops, c08Op{Typ: "O", S: uint64(opened)})
		}
		for _, ev := range tail {
			ops = append(ops, ev)
			if rnd.Chance(15) {
				ops = append(ops, ev)
			}
		}
		ops = append(ops, H)
		res := env.doCase(rec, "lazy-channels", "lazy", []int{0, 1, 2, 100}[rnd.Intn(4)], initial, ops, true)
		if res.lateBelow {
			lazyBelow++
		}
	}
	rec.Extra("lazy_traces_with_late_arrival_below_validFrom", lazyBelow)

	// ---- (d) adversarial feed: overlapping ranges, one number both document and unused, ranges straddling
	//      nextSequence or the initial sequence, sequences at or below the initial one.  Only the unconditional
	//      monitors apply.  Not generated: two DIFFERENT pending entries with the same start sequence (the pop
	//      order of container/heap for equal keys is not modelled); such operations are dropped and counted. ----
	nAdv := vBudget(400, 6000)
	tiesAvoided := 0
	for i := 0; i < nAdv; i++ {
		initial := []uint64{0, 3, 6}[rnd.Intn(3)]
		maxp := pickMaxp()
		n := 4 + rnd.Intn(12)
		// a probe instance decides which operations would create a tie; the trace is then replayed on a fresh one
		probe := env.newInst(maxp, initial)
		var ops []c08Op
		for j := 0; j < n; j++ {
			var op c08Op
			switch r := rnd.Intn(20); {
			case r < 9:
				op = A(c08Kind(rnd.Intn(3)), uint64(rnd.Intn(16)), rnd.Chance(25))
			case r < 16:
				lo := uint64(rnd.Intn(15))
				op = R(lo, lo+uint64(rnd.Intn(5)), rnd.Chance(25))
			case r < 19:
				op = H
			default:
				op = randAbandon()
			}
			tie := false
			for _, p := range probe.cc.pendingLogs {
				if (op.Typ == "A" || (op.Typ == "R" && op.S == op.Hi)) && p.Sequence == op.S && p.EndSequence != 0 {
					tie = true
				}
				if op.Typ == "R" && op.S != op.Hi && p.Sequence == op.S {
					if p.EndSequence != op.Hi {
						tie = true
					} else {
						op.Aged = p.TimeReceived.OlderOrEqual(c08MaxWait) // an identical duplicate: same age
					}
				}
			}
			if tie {
				tiesAvoided++
				continue
			}
			probe.apply(op)
			ops = append(ops, op)
		}
		probe.close()
		if len(ops) == 0 {
			continue
		}
		env.doCase(rec, "adversarial", "adversarial", maxp, initial, ops, true)
	}
	rec.Extra("adversarial_ops_dropped_equal_start_tie", tiesAvoided)
	rec.Extra("states_with_sequence_1_skipped_low_seq_corner", c08Seq1Skipped)

	// ---- (d') equal start sequences in the pending heap (observation (b)): INCONSISTENT feeds in which a single sequence
	//      and an unused range, or two different ranges, start at the same number.  container/heap's order among equal
	//      keys is not modelled, so these traces are monitored only (the unconditional theorems must hold whatever the
	//      order); each trace is also run with the two colliding arrivals swapped, and the traces whose final
	//      nextSequence / skipped list depend on that order are counted: the consequence exhibited on the real code ----
	nTies := vBudget(150, 2000)
	tieDepends := 0
	for i := 0; i < nTies; i++ {
		initial := []uint64{0, 5}[rnd.Intn(2)]
		maxp := pickMaxp()
		base0 := initial + 2 + uint64(rnd.Intn(3))
		first := A(c08Kind(rnd.Intn(3)), base0, rnd.Chance(30))
		second := R(base0, base0+1+uint64(rnd.Intn(4)), rnd.Chance(30))
		if rnd.Chance(25) {
			first = R(base0, base0+1+uint64(rnd.Intn(4)), rnd.Chance(30))
		}
		var pre, post []c08Op
		for j := rnd.Intn(3); j > 0; j-- {
			pre = append(pre, A(c08Doc, base0+2+uint64(rnd.Intn(6)), rnd.Chance(30)))
		}
		for s := initial + 1; s < base0; s++ {
			post = append(post, A(c08Doc, s, false))
		}
		for j := rnd.Intn(3); j > 0; j-- {
			post = append(post, A(c08Kind(rnd.Intn(3)), base0+uint64(rnd.Intn(8)), rnd.Chance(30)))
		}
		post = append(post, A(c08Doc, base0+9, true), H)
		run := func(a, b c08Op) c08Obs {
			ops := append(append(append([]c08Op(nil), pre...), a, b), post...)
			res := env.runTrace(rec, "ties", maxp, initial, ops, false)
			rec.Count("ties", "ties", fmt.Sprintf("%d|%d|%s", maxp, initial, c08OpsString(ops)), true)
			return res.obs[len(res.obs)-1]
		}
		o1, o2 := run(first, second), run(second, first)
		if o1.Next != o2.Next || fmt.Sprint(o1.Skip) != fmt.Sprint(o2.Skip) {
			tieDepends++
		}
	}
	rec.Extra("ties_traces_whose_outcome_depends_on_arrival_order_of_equal_starts", tieDepends)

	// ---- (f)-(i) feeds of real events through ProcessFeedEvent / DocChanged: verif_c08_docfeed_test.go ----
	c08DocFeedStreams(t, rec, rnd, env, randAbandon)

	// ---- (e) several feed workers delivering concurrently (processEntry serialises on c.lock): final-state
	//      monitors only ----
	nConc := vBudget(25, 200)
	for i := 0; i < nConc; i++ {
		initial := uint64(rnd.Intn(3) * 5)
		maxp := pickMaxp()
		w := 24
		in := env.newInst(maxp, initial)
		workers := 4
		parts := make([][]c08Op, workers)
		var all []c08Op
		for s := initial + 1; s <= initial+uint64(w); s++ {
			op := A([]c08Kind{c08Doc, c08Doc, c08Doc, c08Princ, c08Unused}[rnd.Intn(5)], s, false)
			if rnd.Chance(8) {
				continue // never delivered
			}
			k := rnd.Intn(workers)
			parts[k] = append(parts[k], op)
			all = append(all, op)
			if rnd.Chance(15) {
				k2 := rnd.Intn(workers)
				parts[k2] = append(parts[k2], op)
			}
		}
		var wg sync.WaitGroup
		for k := 0; k < workers; k++ {
			wg.Add(1)
			go func(p []c08Op) {
				defer wg.Done()
				for _, op := range p {
					in.apply(op)
				}
			}(parts[k])
		}
		wg.Wait()
		in.apply(c08Op{Typ: "H"})
		o := in.observe()
		key := fmt.Sprintf("%d|%d|%v", maxp, initial, parts)
		seen := map[uint64]int{}
		for _, d := range o.Dl {
			seen[d.Seq]++
		}
		inp := map[string]any{"stream": "concurrent", "maxp": maxp, "initial": initial, "workers": parts}
		for _, op := range all {
			pend := false
			for _, p := range o.Pend {
				if p[0] == op.S {
					pend = true
				}
			}
			if seen[op.S] > 1 {
				rec.Fail("seqbuf_exactly_once", "delivered-twice", inp, fmt.Sprintf("sequence %d forwarded %d times", op.S, seen[op.S]))
			}
			if seen[op.S] == 0 && !pend {
				rec.Fail("seqbuf_exactly_once", "arrival-lost", inp, fmt.Sprintf("sequence %d arrived but is neither delivered nor pending", op.S))
			}
		}
		for s := initial + 1; s < o.Next; s++ {
			if seen[s] == 0 && !c08InRanges(s, o.Skip) {
				rec.Fail("seqbuf_hwm_contiguous", "gap-hidden", inp, fmt.Sprintf("sequence %d below nextSequence %d neither delivered nor skipped", s, o.Next))
			}
			if seen[s] > 0 && c08InRanges(s, o.Skip) {
				rec.Fail("seqbuf_skipped_exact", "skipped-but-arrived", inp, fmt.Sprintf("sequence %d delivered and still skipped", s))
			}
		}
		for _, r := range o.Skip {
			if o.Stable >= r[0] {
				rec.Fail("seqbuf_stable_safe", "stable-not-below-skipped", inp, fmt.Sprintf("stable %d, skipped %v", o.Stable, r))
			}
		}
		in.close()
		rec.Count("concurrent", "concurrent", key, len(o.Skip) > 0 || len(o.Pend) > 0)
	}
}
