//go:build verif

package db

import (
	"context"
	"encoding/json"
	"errors"
	"fmt"
	"net/http/httptest"
	"strings"
	"sync/atomic"
	"testing"

	"github.com/couchbase/go-blip"
	sgbucket "github.com/couchbase/sg-bucket"
	"github.com/couchbase/sync_gateway/base"
)

// C17, second part: persistence, restart, status.
//
// Stream "world": histories of notifications, CheckpointNow calls (with the local store or the remote peer
// refusing writes), restarts (NewCheckpointer + fetchDefaultCollectionCheckpoints over the same two checkpoint
// documents; all in-memory state lost), deletions / foreign rewrites of either document and status calls, run on
// the REAL Checkpointer: real putSpecial on a rosmar data store for the local document, an in-process BLIP peer
// implementing getCheckpoint / setCheckpoint the way the passive blipHandler does for the remote one.  After
// every call the observable world (list lengths, both documents, lastCheckpointSeq, both remembered rev ids, the
// ten statistics, the status sequence) is emitted for the Coq model (Persist.v) and the Go reflections of the new
// theorems are evaluated.

type c17FailStore struct {
	base.DataStore
	fail *atomic.Bool
}

func (s *c17FailStore) Update(ctx context.Context, k string, exp uint32, cb sgbucket.UpdateFunc) (uint64, error) {
	if s.fail.Load() {
		return 0, errors.New("verif: local store refuses writes")
	}
	return s.DataStore.Update(ctx, k, exp, cb)
}

type c17Env struct {
	ctx           context.Context
	ds            base.DataStore
	local         *c17FailStore
	sender        *blip.Sender
	localDown     atomic.Bool
	remoteSetDown atomic.Bool
	closers       []func()
}

func (e *c17Env) close() {
	for i := len(e.closers) - 1; i >= 0; i-- {
		e.closers[i]()
	}
}

const c17PeerPrefix = "peer-"

func c17NewEnv(t *testing.T, ctx context.Context) *c17Env {
	e := &c17Env{ctx: ctx}
	bucket := base.GetTestBucket(t)
	e.closers = append(e.closers, func() { bucket.Close(ctx) })
	e.ds = bucket.GetSingleDataStore()
	e.local = &c17FailStore{DataStore: e.ds, fail: &e.localDown}

	const proto = "verif_c17w"
	srvCtx, err := blip.NewContext(blip.ContextOptions{ProtocolIds: []string{proto}})
	if err != nil {
		t.Fatalf("blip server context: %v", err)
	}
	// the passive side's handleSetCheckpoint: rev property (when non-empty) overrides the body's _rev, PutSpecial
	srvCtx.HandlerForProfile[MessageSetCheckpoint] = func(rq *blip.Message) {
		resp := rq.Response()
		if e.remoteSetDown.Load() {
			resp.SetError("HTTP", 503, "verif: peer refuses setCheckpoint")
			return
		}
		var body Body
		if err := rq.ReadJSONBody(&body); err != nil {
			resp.SetError("HTTP", 400, err.Error())
			return
		}
		if rev := rq.Properties[SetCheckpointRev]; rev != "" {
			body[BodyRev] = rev
		}
		matchRev, _ := body[BodyRev].(string)
		body, _ = stripAllSpecialProperties(body)
		revID, _, err := putSpecial(ctx, e.ds, DocTypeLocal, CheckpointDocIDPrefix+c17PeerPrefix+rq.Properties[SetCheckpointClient], matchRev, body, 0)
		if err != nil {
			st, msg := base.ErrorAsHTTPStatus(err)
			resp.SetError("HTTP", st, msg)
			return
		}
		resp.Properties[SetCheckpointResponseRev] = revID
	}
	// handleGetCheckpoint: 404 when missing, else rev in a property and the body without _rev / _id
	srvCtx.HandlerForProfile[MessageGetCheckpoint] = func(rq *blip.Message) {
		resp := rq.Response()
		raw, err := getSpecialBytes(ctx, e.ds, DocTypeLocal, CheckpointDocIDPrefix+c17PeerPrefix+rq.Properties[GetCheckpointClient], 0)
		if err != nil {
			st, msg := base.ErrorAsHTTPStatus(err)
			resp.SetError("HTTP", st, msg)
			return
		}
		var value Body
		if err := value.Unmarshal(raw); err != nil {
			resp.SetError("HTTP", 500, err.Error())
			return
		}
		rev, _ := value[BodyRev].(string)
		resp.Properties[GetCheckpointResponseRev] = rev
		delete(value, BodyRev)
		delete(value, BodyId)
		_ = resp.SetJSONBody(value)
	}
	server := httptest.NewServer(srvCtx.WebSocketServer())
	e.closers = append(e.closers, server.Close)
	cliCtx, err := blip.NewContext(blip.ContextOptions{ProtocolIds: []string{proto}})
	if err != nil {
		t.Fatalf("blip client context: %v", err)
	}
	sender, err := cliCtx.Dial("ws" + strings.TrimPrefix(server.URL, "http"))
	if err != nil {
		t.Fatalf("blip dial: %v", err)
	}
	e.sender = sender
	e.closers = append(e.closers, sender.Close)
	return e
}

// ---------- operations ----------
type c17POp struct {
	K    byte  // 'L' notification / plain tick, 'T' CheckpointNow(ldown, rdown), 'R' restart(hash, wdown), 'x' delete local, 'X' delete remote, 'u' touch local, 'U' touch remote, 'S' status
	L    c17Op // K == 'L'
	A, B bool
	H    int
}

func (o c17POp) coq() string {
	switch o.K {
	case 'L':
		return "PL (" + o.L.coq() + ")"
	case 'T':
		return "PTick " + cqBool(o.A) + " " + cqBool(o.B)
	case 'R':
		return "PRestart " + cqI(o.H) + " " + cqBool(o.A)
	case 'x':
		return "PDelLocal"
	case 'X':
		return "PDelRemote"
	case 'u':
		return "PTouchLocal"
	case 'U':
		return "PTouchRemote"
	}
	return "PStatus"
}
func (o c17POp) desc() string {
	switch o.K {
	case 'L':
		return o.L.desc()
	case 'T':
		s := "CheckpointNow"
		if o.A {
			s += " [local store refuses writes]"
		}
		if o.B {
			s += " [remote peer refuses setCheckpoint]"
		}
		return s
	case 'R':
		s := fmt.Sprintf("restart config_hash=%q", c17HashStr(o.H))
		if o.A {
			s += " [roll-back write fails]"
		}
		return s
	case 'x':
		return "delete local checkpoint"
	case 'X':
		return "delete remote checkpoint"
	case 'u':
		return "foreign rewrite of local checkpoint"
	case 'U':
		return "foreign rewrite of remote checkpoint"
	}
	return "status"
}
func c17POpsDesc(ops []c17POp) []string {
	p := make([]string, len(ops))
	for i, o := range ops {
		p[i] = o.desc()
	}
	return p
}

func c17HashStr(h int) string {
	if h == 0 {
		return ""
	}
	return fmt.Sprintf("h%d", h)
}
func c17HashNum(s string) int {
	if s == "" {
		return 0
	}
	var n int
	if _, err := fmt.Sscanf(s, "h%d", &n); err != nil || c17HashStr(n) != s {
		return 99
	}
	return n
}
func c17RevNum(s string) int {
	if s == "" {
		return 0
	}
	var n int
	if _, err := fmt.Sscanf(s, "0-%d", &n); err != nil || fmt.Sprintf("0-%d", n) != s {
		return -1
	}
	return n
}

type c17Doc struct {
	ok     bool
	rev    int
	hash   int
	seqStr string
	seq    SequenceID // parsed seqStr (zero for "")
}

func (d c17Doc) coq() string {
	if !d.ok {
		return "None"
	}
	q := "None"
	if d.seqStr != "" {
		q = "(Some " + c17Tok(d.seq) + ")"
	}
	return "(Some (" + cqI(d.rev) + ", " + cqI(d.hash) + ", " + q + "))"
}
func (d c17Doc) desc() string {
	if !d.ok {
		return "-"
	}
	return fmt.Sprintf("{rev 0-%d hash %s seq %q}", d.rev, c17HashStr(d.hash), d.seqStr)
}

// what getLocalCheckpoint / getRemoteCheckpoint would see
func (d c17Doc) text() string {
	if !d.ok {
		return ""
	}
	return d.seqStr
}

func (e *c17Env) readDoc(id string, bad *[]string) c17Doc {
	raw, err := getSpecialBytes(e.ctx, e.ds, DocTypeLocal, id, 0)
	if err != nil {
		return c17Doc{}
	}
	var cp replicationCheckpoint
	if err := json.Unmarshal(raw, &cp); err != nil {
		*bad = append(*bad, "undecodable checkpoint document "+string(raw))
		return c17Doc{}
	}
	d := c17Doc{ok: true, rev: c17RevNum(cp.Rev), hash: c17HashNum(cp.ConfigHash), seqStr: cp.LastSeq}
	if d.rev <= 0 {
		*bad = append(*bad, "unexpected _rev "+cp.Rev)
	}
	if cp.LastSeq != "" {
		s, err := parseIntegerSequenceID(cp.LastSeq)
		if err != nil {
			*bad = append(*bad, "stored last_sequence does not parse: "+cp.LastSeq)
		} else if s.String() != cp.LastSeq {
			*bad = append(*bad, "stored last_sequence is not what its parse prints: "+cp.LastSeq)
		}
		d.seq = s
	}
	return d
}

// ---------- ghost history kept by the harness (what the theorems quantify over) ----------
type c17HashGhost struct {
	E       []SequenceID
	inE     map[SequenceID]bool
	P       map[SequenceID]bool
	rets    []SequenceID    // every value a tick handed to _setCheckpoints under this hash
	stored  map[string]bool // every last_sequence text seen in either document under this hash
	contract bool           // the peer contract (Persist.peer_step_ok) has held for every announcement so far
}

type c17WGhost struct {
	byHash map[int]*c17HashGhost
	Ei     []SequenceID
	inEi   map[SequenceID]bool
	EiAt   []int
	Pi     map[SequenceID]bool
	look   map[int]SequenceID
	n      int
	// values written to the local document by ticks of the current Checkpointer
	lastWritten   *SequenceID
	lastWrittenAt int
	cnt           [3]int64 // expected, processed, known since the restart
}

func (g *c17WGhost) hash(h int) *c17HashGhost {
	x, ok := g.byHash[h]
	if !ok {
		x = &c17HashGhost{inE: map[SequenceID]bool{}, P: map[SequenceID]bool{}, stored: map[string]bool{}, contract: true}
		g.byHash[h] = x
	}
	return x
}
func (g *c17WGhost) newIncarnation() {
	g.Ei, g.EiAt, g.inEi, g.Pi, g.look = nil, nil, map[SequenceID]bool{}, map[SequenceID]bool{}, map[int]SequenceID{}
	g.lastWritten, g.lastWrittenAt = nil, -1
	g.cnt = [3]int64{}
}

func c17Canonical(s SequenceID) bool {
	p, err := parseIntegerSequenceID(s.String())
	return err == nil && p == s
}

// Persist.peer_step_ok for one batch of announcements
func (g *c17WGhost) announceBatch(h int, l []SequenceID) {
	hg := g.hash(h)
	inBatch := map[SequenceID]bool{}
	for _, x := range l {
		inBatch[x] = true
	}
	for _, x := range l {
		if !c17Canonical(x) {
			hg.contract = false
		}
		if !hg.P[x] {
			for _, s := range hg.rets {
				if x.Before(s) {
					hg.contract = false
				}
			}
		}
		for _, e := range hg.E {
			if !hg.P[e] && e.Before(x) && !g.inEi[e] && !inBatch[e] {
				hg.contract = false
			}
		}
	}
	for _, x := range l {
		hg.E = append(hg.E, x)
		hg.inE[x] = true
		g.Ei = append(g.Ei, x)
		g.EiAt = append(g.EiAt, g.n)
		g.inEi[x] = true
	}
}
func (g *c17WGhost) complete(h int, s SequenceID) {
	g.hash(h).P[s] = true
	g.Pi[s] = true
}

type c17WObs struct {
	le, lp     int
	loc, rem   c17Doc
	last       SequenceID
	lrev, rrev int
	st         [10]int64
	status     *string
}

func (o c17WObs) coq() string {
	st := make([]string, len(o.st))
	for i, v := range o.st {
		st[i] = cqN(uint64(v))
	}
	status := "None"
	if o.status != nil {
		if *o.status == "" {
			status = "(Some None)"
		} else {
			s, _ := parseIntegerSequenceID(*o.status)
			status = "(Some (Some " + c17Tok(s) + "))"
		}
	}
	return "(WObs " + cqI(o.le) + " " + cqI(o.lp) + " " + o.loc.coq() + " " + o.rem.coq() + " " + c17Tok(o.last) + " " +
		cqI(o.lrev) + " " + cqI(o.rrev) + " " + cqList(st) + " " + status + ")"
}
func (o c17WObs) desc() string {
	s := fmt.Sprintf("e=%d p=%d local=%s remote=%s last=%s lrev=%d rrev=%d stats=%v", o.le, o.lp, o.loc.desc(), o.rem.desc(), c17TokDesc(o.last), o.lrev, o.rrev, o.st)
	if o.status != nil {
		s += fmt.Sprintf(" status=%q", *o.status)
	}
	return s
}

// one history on the real code
type c17World struct {
	r      *c17Run
	env    *c17Env
	thr    int
	client string
	c      *Checkpointer
	cfg    *ActiveReplicatorConfig
	g      *c17WGhost
	h      int // config hash of the current Checkpointer
	ops    []c17POp
	obs    []c17WObs
	prev   c17WObs
	nontrivial bool
	dead   bool
}

var c17WorldSeq int

func c17NewWorld(r *c17Run, env *c17Env, thr int) *c17World {
	c17WorldSeq++
	w := &c17World{r: r, env: env, thr: thr, client: fmt.Sprintf("c17w-%d-%d", vSeed(), c17WorldSeq),
		g: &c17WGhost{byHash: map[int]*c17HashGhost{}}}
	w.g.newIncarnation()
	return w
}

func (w *c17World) fail(monitor, sig, detail string) {
	f, ok := w.r.fails[sig]
	size := len(w.ops) - 1000 // observed on what is stored: preferred to a failure on a returned value
	if ok && f.size <= size {
		return
	}
	if !ok {
		w.r.order = append(w.r.order, sig)
	}
	w.r.fails[sig] = c17Failure{monitor: monitor, sig: sig, detail: detail, ops: c17POpsDesc(w.ops), thr: w.thr, size: size}
}

func (w *c17World) newCheckpointer(h int) *Checkpointer {
	cfg := &ActiveReplicatorConfig{
		ActiveDB: &Database{DatabaseContext: &DatabaseContext{}},
		ReplicationStatsMap: &base.DbReplicatorStats{
			ProcessedSequenceLen:            &base.SgwIntStat{},
			ProcessedSequenceLenPostCleanup: &base.SgwIntStat{},
			ExpectedSequenceLen:             &base.SgwIntStat{},
			ExpectedSequenceLenPostCleanup:  &base.SgwIntStat{},
		},
	}
	w.cfg = cfg
	c := NewCheckpointer(w.env.ctx, w.env.ds, w.env.local, w.client, c17HashStr(h), w.env.sender, cfg, nil)
	c.expectedSeqCompactionThreshold = w.thr
	return c
}

func c17Sle(a, b SequenceID) bool { return !b.Before(a) }

// apply one call, observe, run the monitors.  Returns false when the history cannot go on.
func (w *c17World) do(o c17POp) bool {
	if w.dead {
		return false
	}
	if w.c == nil && o.K != 'R' {
		panic("c17 world: the first call must be a restart")
	}
	w.ops = append(w.ops, o)
	env, g := w.env, w.g
	var bad []string
	var predicted *SequenceID // the value the tick is about to hand to _setCheckpoints
	var status *string
	isTick := o.K == 'T' || (o.K == 'L' && o.L.K == 'T')
	panicked := ""
	func() {
		defer func() {
			if p := recover(); p != nil {
				panicked = fmt.Sprint(p)
			}
		}()
		switch {
		case isTick:
			c := w.c
			c.lock.Lock()
			if idx := c._calculateSafeExpectedSeqsIdx(); idx >= 0 {
				v := c.expectedSeqs[idx]
				predicted = &v
			}
			c.lock.Unlock()
			env.localDown.Store(o.K == 'T' && o.A)
			env.remoteSetDown.Store(o.K == 'T' && o.B)
			c.CheckpointNow()
			env.localDown.Store(false)
			env.remoteSetDown.Store(false)
		case o.K == 'L':
			c, lo := w.c, o.L
			switch lo.K {
			case 'E':
				c.AddExpectedSeqs(lo.S...)
			case 'K':
				c.AddAlreadyKnownSeq(lo.S...)
			case 'P':
				c.AddProcessedSeq(lo.S[0])
			case 'D':
				m := make(map[IDAndRev]SequenceID, len(lo.S))
				for i, s := range lo.S {
					m[c17IDRev(lo.D[i])] = s
				}
				c.AddExpectedSeqIDAndRevs(m)
			case 'Q':
				var sp *SequenceID
				if len(lo.S) == 1 {
					s := lo.S[0]
					sp = &s
				}
				c.AddProcessedSeqIDAndRev(sp, c17IDRev(lo.D[0]))
			}
		case o.K == 'R':
			env.localDown.Store(o.A)
			env.remoteSetDown.Store(o.A)
			c := w.newCheckpointer(o.H)
			err := c.fetchDefaultCollectionCheckpoints()
			env.localDown.Store(false)
			env.remoteSetDown.Store(false)
			if err != nil {
				bad = append(bad, "fetchDefaultCollectionCheckpoints failed: "+err.Error())
			}
			w.c = c
		case o.K == 'x':
			if err := resetLocalCheckpoint(env.ctx, env.ds, w.client); err != nil {
				bad = append(bad, "resetLocalCheckpoint: "+err.Error())
			}
		case o.K == 'X':
			if err := env.ds.Delete(env.ctx, RealSpecialDocID(DocTypeLocal, CheckpointDocIDPrefix+c17PeerPrefix+w.client)); err != nil && !base.IsDocNotFoundError(err) {
				bad = append(bad, "delete remote: "+err.Error())
			}
		case o.K == 'u' || o.K == 'U':
			id := CheckpointDocIDPrefix + w.client
			if o.K == 'U' {
				id = CheckpointDocIDPrefix + c17PeerPrefix + w.client
			}
			raw, err := getSpecialBytes(env.ctx, env.ds, DocTypeLocal, id, 0)
			if err == nil {
				var body Body
				if err := body.Unmarshal(raw); err == nil {
					rev, _ := body[BodyRev].(string)
					body, _ = stripAllSpecialProperties(body)
					if _, _, err := putSpecial(env.ctx, env.ds, DocTypeLocal, id, rev, body, 0); err != nil {
						bad = append(bad, "foreign rewrite: "+err.Error())
					}
				}
			}
		case o.K == 'S':
			arc := &activeReplicatorCommon{config: &ActiveReplicatorConfig{}, defaultCollection: &activeReplicatorCollection{Checkpointer: w.c}}
			s := arc.getCheckpointHighSeq()
			status = &s
		}
	}()
	if panicked != "" {
		w.fail("no_panic", "checkpointer-panic", panicked)
		w.dead = true
		w.ops = w.ops[:len(w.ops)-1]
		return false
	}

	// ---- observe ----
	c := w.c
	var ob c17WObs
	ob.le, ob.lp = c.getCounts()
	ob.loc = env.readDoc(CheckpointDocIDPrefix+w.client, &bad)
	ob.rem = env.readDoc(CheckpointDocIDPrefix+c17PeerPrefix+w.client, &bad)
	st := c.Stats()
	ob.last = c.lastCheckpointSeq
	ob.lrev, ob.rrev = c17RevNum(c.lastLocalCheckpointRevID), c17RevNum(c.lastRemoteCheckpointRevID)
	ob.st = [10]int64{st.ExpectedSequenceCount, st.ProcessedSequenceCount, st.AlreadyKnownSequenceCount, st.SetCheckpointCount,
		st.GetCheckpointHitCount, st.GetCheckpointMissCount,
		st.ProcessedSequenceLen.Value(), st.ExpectedSequenceLen.Value(), st.ProcessedSequenceLenPostCleanup.Value(), st.ExpectedSequenceLenPostCleanup.Value()}
	ob.status = status
	if ob.lrev < 0 || ob.rrev < 0 {
		bad = append(bad, "remembered rev id is not of the form 0-n")
	}
	for _, b := range bad {
		w.fail("world_wellformed", "world-malformed", b)
	}
	w.obs = append(w.obs, ob)
	prev := w.prev
	w.prev = ob

	// ---- ghost + monitors ----
	switch {
	case o.K == 'L' && !isTick:
		lo := o.L
		switch lo.K {
		case 'E':
			g.announceBatch(w.h, lo.S)
			g.cnt[0] += int64(len(lo.S))
		case 'K':
			g.announceBatch(w.h, lo.S)
			for _, s := range lo.S {
				g.complete(w.h, s)
			}
			g.cnt[2] += int64(len(lo.S))
		case 'P':
			g.complete(w.h, lo.S[0])
			g.cnt[1]++
		case 'D':
			g.announceBatch(w.h, lo.S)
			for i, s := range lo.S {
				g.look[lo.D[i]] = s
			}
			g.cnt[0] += int64(len(lo.S))
		case 'Q':
			var s SequenceID
			if len(lo.S) == 1 {
				s = lo.S[0]
			} else if v, found := g.look[lo.D[0]]; found {
				s = v
			}
			delete(g.look, lo.D[0])
			g.complete(w.h, s)
			g.cnt[1]++
		}
	case isTick:
		w.monitorTick(o, prev, ob, predicted)
	case o.K == 'R':
		w.monitorRestart(o, prev, ob)
	case o.K == 'S':
		// C17_status_is_safe: the reported position is the last checkpoint or an announced sequence up to which
		// everything announced to this Checkpointer is handled
		if *status != "" {
			if _, err := parseIntegerSequenceID(*status); err != nil {
				w.fail("status_is_safe", "status-unparseable", *status)
			} else if *status != ob.last.String() && !w.statusFromLists(*status) {
				w.fail("status_is_safe", "status-ahead-of-unprocessed", "status reports "+*status+" which is neither lastCheckpointSeq nor a position up to which every announced sequence is handled")
			}
		} else if ob.last.Seq != 0 {
			// an empty status means the reported position has Seq 0: lastCheckpointSeq does not, so it must come from the lists
			fromLists := false
			for _, x := range w.g.Ei {
				if x.Seq == 0 && w.statusFromLists(x.String()) {
					fromLists = true
				}
			}
			if !fromLists {
				w.fail("status_is_next_checkpoint", "status-loses-last-checkpoint", "status reports nothing although lastCheckpointSeq is "+ob.last.String()+" and no announced sequence with Seq 0 is checkpointable")
			}
		}
	}
	// C17_stats_count_history
	if ob.st[0] != g.cnt[0] || ob.st[1] != g.cnt[1] || ob.st[2] != g.cnt[2] {
		w.fail("stats_count_history", "stats-count-mismatch", fmt.Sprintf("ExpectedSequenceCount/ProcessedSequenceCount/AlreadyKnownSequenceCount = %d/%d/%d, calls since the restart account for %d/%d/%d", ob.st[0], ob.st[1], ob.st[2], g.cnt[0], g.cnt[1], g.cnt[2]))
	}
	if ob.st[4]+ob.st[5] != 1 {
		w.fail("stats_count_history", "stats-count-mismatch", fmt.Sprintf("GetCheckpointHitCount+GetCheckpointMissCount = %d after one fetch", ob.st[4]+ob.st[5]))
	}
	for _, d := range []c17Doc{ob.loc, ob.rem} {
		if d.ok {
			g.hash(d.hash).stored[d.seqStr] = true
		}
	}
	g.n++
	return true
}

// some sequence announced to the current Checkpointer prints as the status text, is handled, and so is everything
// announced at or below it
func (w *c17World) statusFromLists(status string) bool {
	g := w.g
	for _, x := range g.Ei {
		if x.String() != status || !g.Pi[x] {
			continue
		}
		good := true
		for _, e := range g.Ei {
			if c17LeTok(e, x) && !g.Pi[e] {
				good = false
			}
		}
		if good {
			return true
		}
	}
	return false
}

func (w *c17World) monitorTick(o c17POp, prev, ob c17WObs, predicted *SequenceID) {
	g := w.g
	hg := g.hash(w.h)
	hstr := c17HashStr(w.h)
	if predicted != nil {
		hg.rets = append(hg.rets, *predicted)
	}
	locChanged := ob.loc != prev.loc
	remChanged := ob.rem != prev.rem
	// C17_tick_persist_exact
	if predicted == nil && (locChanged || remChanged || ob.last != prev.last || ob.st[3] != prev.st[3]) {
		w.fail("tick_persist_exact", "tick-writes-without-checkpoint", "a tick whose lists yield no checkpoint changed a document, lastCheckpointSeq or SetCheckpointCount")
	}
	if predicted != nil {
		want := predicted.String()
		ldown, rdown := o.K == 'T' && o.A, o.K == 'T' && o.B
		if !ldown && (!ob.loc.ok || ob.loc.seqStr != want || ob.loc.hash != w.h) {
			w.fail("tick_persist_exact", "tick-local-not-written", "CheckpointNow computed "+want+" with the local store up; local document is "+ob.loc.desc())
		}
		if ldown && (locChanged || remChanged) {
			w.fail("tick_persist_exact", "tick-remote-before-local", "the local write failed, yet a document changed: local "+ob.loc.desc()+" remote "+ob.rem.desc())
		}
		stuck := !prev.rem.ok && prev.rrev != 0 // remote document gone while a rev id is remembered
		if !ldown && !rdown && !stuck {
			if !ob.rem.ok || ob.rem.seqStr != want || ob.rem.hash != w.h {
				w.fail("tick_persist_exact", "tick-remote-not-written", "CheckpointNow computed "+want+" with both stores up; remote document is "+ob.rem.desc())
			}
			if ob.last != *predicted || ob.st[3] != prev.st[3]+1 {
				w.fail("tick_persist_exact", "tick-success-not-recorded", "both writes succeeded for "+want+" but lastCheckpointSeq="+ob.last.String()+fmt.Sprintf(" SetCheckpointCount %d -> %d", prev.st[3], ob.st[3]))
			}
		}
	}
	if remChanged && (!ob.rem.ok || !ob.loc.ok || ob.rem.seqStr != ob.loc.seqStr || ob.rem.hash != ob.loc.hash) {
		w.fail("tick_persist_exact", "remote-ahead-of-local", "a tick changed the remote checkpoint to "+ob.rem.desc()+" while the local one is "+ob.loc.desc())
	}
	if ob.last != prev.last || ob.st[3] != prev.st[3] {
		// lastCheckpointSeq / SetCheckpointCount move only when both documents hold the value
		if ob.st[3] != prev.st[3]+1 || !ob.loc.ok || !ob.rem.ok || ob.loc.seqStr != ob.last.String() || ob.rem.seqStr != ob.last.String() || ob.loc.hash != w.h || ob.rem.hash != w.h {
			w.fail("tick_persist_exact", "last-checkpoint-not-stored", "lastCheckpointSeq="+ob.last.String()+" ("+hstr+fmt.Sprintf(", SetCheckpointCount %d -> %d)", prev.st[3], ob.st[3])+" but local "+ob.loc.desc()+" remote "+ob.rem.desc())
		}
	}
	if !locChanged || !ob.loc.ok || predicted == nil || ob.loc.seqStr != predicted.String() {
		return
	}
	cur := *predicted // the value whose text was just stored locally
	// C17_persist_tick_safe on what was stored: everything announced to this Checkpointer at or below it is handled
	for _, e := range g.Ei {
		if c17LeTok(e, cur) && !g.Pi[e] {
			w.fail("checkpoint_safe", "checkpoint-ahead-of-unprocessed", "persisted "+ob.loc.seqStr+" while expected "+c17TokDesc(e)+" is neither processed nor known")
		}
	}
	// C17_regress_only_by_late_expected on the values ticks of ONE Checkpointer stored locally
	if g.lastWritten != nil && cur.Before(*g.lastWritten) {
		late := false
		for i, e := range g.Ei {
			if e == cur && g.EiAt[i] > g.lastWrittenAt {
				late = true
			}
		}
		detail := "PERSISTED checkpoint (local document) moves backwards within one Checkpointer: " + g.lastWritten.String() + " then " + ob.loc.seqStr
		w.r.persistsLower = true
		if late {
			w.fail("checkpoint_monotone", c17KnownSig, detail+" (announced after the earlier checkpoint was persisted)")
		} else {
			w.fail("regress_only_by_late_expected", "checkpoint-regress-ordered-feed", detail+" (the lower value was not announced after the earlier checkpoint)")
		}
	}
	cc := cur
	g.lastWritten, g.lastWrittenAt = &cc, g.n
}

func (w *c17World) monitorRestart(o c17POp, prev, ob c17WObs) {
	g := w.g
	w.h = o.H
	g.newIncarnation()
	hg := g.hash(o.H)
	r := ob.last
	zero := SequenceID{}
	L, R := prev.loc, prev.rem
	// C17_local_remote_mismatch_is_safe
	if !c17Sle(r, L.seq) || !c17Sle(r, R.seq) {
		w.fail("local_remote_mismatch_is_safe", "resume-above-stored", "resumes from "+r.String()+" with local "+L.desc()+" remote "+R.desc())
	}
	if r != zero && !(L.ok && R.ok && L.hash == o.H && R.hash == o.H && (r == L.seq || r == R.seq)) {
		w.fail("local_remote_mismatch_is_safe", "resume-not-a-stored-value", "resumes from "+r.String()+" with local "+L.desc()+" remote "+R.desc())
	}
	if L.ok && R.ok && L.hash == o.H && R.hash == o.H {
		low := L
		if R.seq.Before(L.seq) {
			low = R
		}
		if r != low.seq {
			w.fail("local_remote_mismatch_is_safe", "resume-not-the-lower", "resumes from "+r.String()+" with local "+L.desc()+" remote "+R.desc())
		}
	}
	if !o.A && ob.loc.text() != ob.rem.text() {
		w.fail("local_remote_mismatch_is_safe", "rollback-docs-disagree", "after the restart local "+ob.loc.desc()+" remote "+ob.rem.desc())
	}
	if L.text() != R.text() {
		w.nontrivial = true
	}
	// C17_config_change_resets
	mismatch := !L.ok || !R.ok || L.hash != o.H || R.hash != o.H
	if o.H == 0 {
		mismatch = L.hash != 0 || R.hash != 0
	}
	if mismatch && (r != zero || ob.st[5] != 1 || ob.st[4] != 0) {
		w.fail("config_change_resets", "config-change-not-reset", "config hash "+c17HashStr(o.H)+" against local "+L.desc()+" remote "+R.desc()+": resumes from "+r.String()+fmt.Sprintf(" hit=%d miss=%d", ob.st[4], ob.st[5]))
	}
	// C17_resume_is_persisted_checkpoint: whatever happened, the resume position is a text some tick stored under this hash
	if r != zero && !hg.stored[r.String()] {
		w.fail("resume_is_persisted_checkpoint", "resume-never-stored", "resumes from "+r.String()+" which no document ever held under "+c17HashStr(o.H))
	}
	// C17_restart_never_skips, while the peer has kept its side of the contract
	if hg.contract {
		for _, e := range hg.E {
			if !hg.P[e] && (!c17Sle(r, e) || (r != zero && !r.Before(e))) {
				w.fail("restart_never_skips", "resume-skips-unhandled", "resumes from "+r.String()+" under "+c17HashStr(o.H)+" while "+c17TokDesc(e)+", announced earlier, is neither processed nor known")
				break
			}
		}
		if r != zero {
			for _, e := range hg.E {
				if !hg.P[e] {
					w.nontrivial = true
				}
			}
		}
	}
	for i := range ob.st {
		if i != 4 && i != 5 && ob.st[i] != 0 {
			w.fail("stats_count_history", "stats-count-mismatch", "a new Checkpointer starts with non-zero statistics")
			break
		}
	}
}

func (w *c17World) emit(stream string) {
	if w.dead || len(w.ops) == 0 {
		return
	}
	po := make([]string, len(w.ops))
	oo := make([]string, len(w.obs))
	od := make([]string, len(w.obs))
	for i := range w.ops {
		po[i] = w.ops[i].coq()
		oo[i] = w.obs[i].coq()
		od[i] = w.obs[i].desc()
	}
	w.r.rec.Case(stream, "world", "CWorld "+cqI(w.thr)+" "+cqList(po)+" "+cqList(oo),
		map[string]any{"threshold": w.thr, "ops": c17POpsDesc(w.ops), "observed": od}, w.nontrivial)
	w.r.rec.Size(fmt.Sprintf("world len<=%d", (len(w.ops)+9)/10*10))
	for _, o := range w.ops {
		k := string(o.K)
		if o.K == 'L' {
			k = "L" + string(o.L.K)
		}
		w.r.rec.hist["wop_"+k]++
	}
}

// ---------- generators ----------

// a peer that keeps its side: per config hash a growing, ordered universe of canonical sequences; after each
// restart the feed resumes right after the Checkpointer's lastCheckpointSeq and announces in order, in batches;
// completions arrive out of order.  late: now and then a sequence below the top is inserted (a previously
// skipped sequence) - the shape of the known finding.
func c17SessionWorld(r *c17Run, env *c17Env, rnd *vRand, late bool, stream string) {
	thr := []int{0, 1, 2, 5, 100}[rnd.Intn(5)]
	w := c17NewWorld(r, env, thr)
	type peer struct {
		u   []SequenceID // sorted, distinct, canonical
		top uint64
	}
	peers := map[int]*peer{}
	getPeer := func(h int) *peer {
		p, ok := peers[h]
		if !ok {
			p = &peer{}
			peers[h] = p
		}
		return p
	}
	grow := func(p *peer, n int) {
		for i := 0; i < n; i++ {
			p.top += 1 + uint64(rnd.Intn(3))
			s := SequenceID{Seq: p.top}
			switch rnd.Intn(6) {
			case 0: // backfill triggered by a later sequence: t:seq with seq < t; sorts by t
				s = SequenceID{TriggeredBy: p.top, Seq: 1 + uint64(rnd.Intn(int(p.top)))}
				if s.Seq >= s.TriggeredBy {
					s = SequenceID{Seq: p.top}
				}
			case 1: // low::seq with 0 < low < seq; sorts by low
				if p.top > 1 {
					s = SequenceID{LowSeq: p.top - 1, Seq: p.top + uint64(rnd.Intn(3))}
					p.top = s.Seq
				}
			}
			// keep the universe strictly increasing in Before-order
			if n := len(p.u); n > 0 && !p.u[n-1].Before(s) {
				s = SequenceID{Seq: p.top}
				if !p.u[n-1].Before(s) {
					continue
				}
			}
			if !c17Canonical(s) {
				s = SequenceID{Seq: p.top}
			}
			p.u = append(p.u, s)
		}
	}
	type pend struct {
		s   SequenceID
		doc int
	}
	var pending []pend
	pos, doc := 0, 0
	h := 1 + rnd.Intn(2)
	restart := func(hh int, wd bool) bool {
		h = hh
		if !w.do(c17POp{K: 'R', H: hh, A: wd}) {
			return false
		}
		p := getPeer(hh)
		if len(p.u) == 0 {
			grow(p, 3+rnd.Intn(6))
		}
		since := w.c.lastCheckpointSeq
		pos = 0
		for pos < len(p.u) && !since.Before(p.u[pos]) {
			pos++
		}
		pending = nil
		return true
	}
	if !restart(h, false) {
		return
	}
	n := 12 + rnd.Intn(40)
	for step := 0; step < n; step++ {
		p := getPeer(h)
		ok := true
		switch x := rnd.Intn(100); {
		case x < 22:
			if pos >= len(p.u) {
				grow(p, 1+rnd.Intn(4))
			}
			k := 1 + rnd.Intn(4)
			if pos+k > len(p.u) {
				k = len(p.u) - pos
			}
			if k <= 0 {
				continue
			}
			batch := append([]SequenceID(nil), p.u[pos:pos+k]...)
			pos += k
			switch rnd.Intn(6) {
			case 0:
				ok = w.do(c17POp{K: 'L', L: c17Op{K: 'K', S: batch}})
			case 1:
				lo := c17Op{K: 'D'}
				for _, s := range batch {
					doc++
					lo.S = append(lo.S, s)
					lo.D = append(lo.D, doc)
					pending = append(pending, pend{s, doc})
				}
				ok = w.do(c17POp{K: 'L', L: lo})
			default:
				ok = w.do(c17POp{K: 'L', L: c17Op{K: 'E', S: batch}})
				for _, s := range batch {
					pending = append(pending, pend{s, 0})
				}
			}
		case x < 26 && late && pos > 0:
			// a sequence below what was already announced turns up
			i := rnd.Intn(pos)
			base := p.u[i]
			if base.TriggeredBy != 0 || base.LowSeq != 0 || base.Seq < 2 {
				continue
			}
			s := SequenceID{Seq: base.Seq - 1}
			dup := false
			for _, e := range p.u {
				if e == s {
					dup = true
				}
			}
			if dup || (i > 0 && !p.u[i-1].Before(s)) {
				continue
			}
			p.u = append(p.u[:i], append([]SequenceID{s}, p.u[i:]...)...)
			pos++
			ok = w.do(c17POp{K: 'L', L: c17Op{K: 'E', S: []SequenceID{s}}})
			pending = append(pending, pend{s, 0})
		case x < 56:
			if len(pending) == 0 {
				continue
			}
			i := rnd.Intn(len(pending))
			if rnd.Chance(60) {
				i = 0 // mostly in order, so that checkpoints advance
			}
			pe := pending[i]
			pending = append(pending[:i], pending[i+1:]...)
			if pe.doc > 0 {
				if rnd.Bool() {
					ok = w.do(c17POp{K: 'L', L: c17Op{K: 'Q', D: []int{pe.doc}}})
				} else {
					ok = w.do(c17POp{K: 'L', L: c17Op{K: 'Q', S: []SequenceID{pe.s}, D: []int{pe.doc}}})
				}
			} else {
				ok = w.do(c17POp{K: 'L', L: c17Op{K: 'P', S: []SequenceID{pe.s}}})
			}
		case x < 76:
			switch y := rnd.Intn(100); {
			case y < 70:
				if rnd.Bool() {
					ok = w.do(c17POp{K: 'T'})
				} else {
					ok = w.do(c17POp{K: 'L', L: c17Op{K: 'T'}})
				}
			case y < 88:
				ok = w.do(c17POp{K: 'T', B: true}) // crash / failure between the two writes
			case y < 96:
				ok = w.do(c17POp{K: 'T', A: true})
			default:
				ok = w.do(c17POp{K: 'T', A: true, B: true})
			}
		case x < 83:
			hh := h
			if rnd.Chance(20) {
				hh = 1 + rnd.Intn(3)
			}
			ok = restart(hh, rnd.Chance(15))
		case x < 85:
			ok = w.do(c17POp{K: 'x'})
		case x < 87:
			ok = w.do(c17POp{K: 'X'})
		case x < 89:
			ok = w.do(c17POp{K: 'u'})
		case x < 91:
			ok = w.do(c17POp{K: 'U'})
		default:
			ok = w.do(c17POp{K: 'S'})
		}
		if !ok {
			break
		}
	}
	if !w.dead {
		w.do(c17POp{K: 'T'})
		restart(h, false)
		w.do(c17POp{K: 'S'})
	}
	w.emit(stream)
}

// anything goes: arbitrary tokens (non-canonical ones included), duplicates, completions never announced
func c17AdversarialWorld(r *c17Run, env *c17Env, rnd *vRand) {
	thr := []int{0, 1, 2, 100}[rnd.Intn(4)]
	w := c17NewWorld(r, env, thr)
	u := make([]SequenceID, 3+rnd.Intn(5))
	for j := range u {
		s := SequenceID{Seq: 1 + uint64(rnd.Intn(8))}
		switch rnd.Intn(5) {
		case 0:
			s.TriggeredBy = 1 + uint64(rnd.Intn(8))
		case 1:
			s.LowSeq = 1 + uint64(rnd.Intn(8))
		case 2:
			s.TriggeredBy = 1 + uint64(rnd.Intn(8))
			s.LowSeq = 1 + uint64(rnd.Intn(8))
		}
		if rnd.Chance(4) {
			s = SequenceID{}
		}
		u[j] = s
	}
	pick := func() SequenceID { return u[rnd.Intn(len(u))] }
	if !w.do(c17POp{K: 'R', H: rnd.Intn(3), A: rnd.Chance(10)}) {
		return
	}
	for j, n := 0, 8+rnd.Intn(30); j < n; j++ {
		ok := true
		switch x := rnd.Intn(100); {
		case x < 22:
			l := make([]SequenceID, rnd.Intn(4))
			for k := range l {
				l[k] = pick()
			}
			ok = w.do(c17POp{K: 'L', L: c17Op{K: 'E', S: l}})
		case x < 28:
			l := make([]SequenceID, rnd.Intn(3))
			for k := range l {
				l[k] = pick()
			}
			ok = w.do(c17POp{K: 'L', L: c17Op{K: 'K', S: l}})
		case x < 48:
			ok = w.do(c17POp{K: 'L', L: c17Op{K: 'P', S: []SequenceID{pick()}}})
		case x < 51:
			lo := c17Op{K: 'D'}
			used := map[int]bool{}
			for k := rnd.Intn(3); k >= 0; k-- {
				d := rnd.Intn(4)
				if used[d] {
					continue
				}
				used[d] = true
				lo.S = append(lo.S, pick())
				lo.D = append(lo.D, d)
			}
			ok = w.do(c17POp{K: 'L', L: lo})
		case x < 54:
			lo := c17Op{K: 'Q', D: []int{rnd.Intn(4)}}
			if rnd.Chance(40) {
				lo.S = []SequenceID{pick()}
			}
			ok = w.do(c17POp{K: 'L', L: lo})
		case x < 70:
			ok = w.do(c17POp{K: 'T', A: rnd.Chance(12), B: rnd.Chance(25)})
		case x < 82:
			ok = w.do(c17POp{K: 'R', H: rnd.Intn(3), A: rnd.Chance(20)})
		case x < 85:
			ok = w.do(c17POp{K: 'x'})
		case x < 88:
			ok = w.do(c17POp{K: 'X'})
		case x < 91:
			ok = w.do(c17POp{K: 'u'})
		case x < 94:
			ok = w.do(c17POp{K: 'U'})
		default:
			ok = w.do(c17POp{K: 'S'})
		}
		if !ok {
			break
		}
	}
	w.emit("world-adversarial")
}

func c17WorldStreams(t *testing.T, r *c17Run, rnd *vRand) {
	env := c17NewEnv(t, r.ctx)
	defer env.close()

	S := func(seq uint64) SequenceID { return SequenceID{Seq: seq} }
	E := func(s ...SequenceID) c17POp { return c17POp{K: 'L', L: c17Op{K: 'E', S: s}} }
	K := func(s ...SequenceID) c17POp { return c17POp{K: 'L', L: c17Op{K: 'K', S: s}} }
	P := func(s SequenceID) c17POp { return c17POp{K: 'L', L: c17Op{K: 'P', S: []SequenceID{s}}} }
	T := c17POp{K: 'T'}
	Trd := c17POp{K: 'T', B: true}
	Tld := c17POp{K: 'T', A: true}
	R := func(h int) c17POp { return c17POp{K: 'R', H: h} }
	Rwd := func(h int) c17POp { return c17POp{K: 'R', H: h, A: true} }
	St := c17POp{K: 'S'}
	corpus := [][]c17POp{
		// crash between the two writes: local 8, remote 5 -> resume 5, local rolled back; the feed re-sends 6.. and goes on
		{R(1), E(S(5), S(8)), P(S(5)), T, P(S(8)), Trd, R(1), St, E(S(8), S(9)), P(S(8)), T, R(1), St},
		// the roll-back write fails: documents keep disagreeing, the lower one is used every time
		{R(1), E(S(5), S(8)), P(S(5)), T, P(S(8)), Trd, Rwd(1), St, Rwd(1), E(S(8)), P(S(8)), T, R(1)},
		// config change: stored 7 under h1 is not used by h2, and again usable by nobody after h2 checkpointed
		{R(1), E(S(3), S(7)), P(S(3)), P(S(7)), T, R(2), St, E(S(3)), P(S(3)), T, R(1), R(2), St},
		// config change with a crash between the writes: local h2, remote h1
		{R(1), E(S(7)), P(S(7)), T, R(2), E(S(2)), P(S(2)), Trd, R(2), R(1), E(S(1)), K(S(2)), P(S(1)), T, R(1)},
		// the remote checkpoint disappears while its rev is remembered: the peer's 404 is not recognised by setRetry, all ten attempts of
		// that tick fail (local 6, remote missing); the failure clears the remembered rev, so the next tick re-creates the document
		{R(1), E(S(4)), P(S(4)), T, c17POp{K: 'X'}, E(S(6)), P(S(6)), T, St, E(S(9)), P(S(9)), T, R(1), St, E(S(4)), P(S(4)), T},
		// the local checkpoint is reset while its rev is remembered: 404 -> rev cleared -> rewritten
		{R(1), E(S(4)), P(S(4)), T, c17POp{K: 'x'}, E(S(6)), P(S(6)), T, R(1), c17POp{K: 'x'}, R(1), St},
		// foreign rewrites: 409 -> rev adopted -> rewritten, both sides
		{R(1), E(S(4)), P(S(4)), T, c17POp{K: 'u'}, c17POp{K: 'U'}, E(S(6)), P(S(6)), T, R(1), St},
		// the known regress, across the persistence path, then a restart
		{R(1), E(S(20)), P(S(20)), T, E(S(5)), P(S(5)), T, R(1), St},
		// local store down, then up; status while nothing is checkpointable
		{R(1), St, E(S(2), S(3)), St, P(S(3)), St, P(S(2)), St, Tld, St, E(S(4)), P(S(4)), T, St, R(1)},
		// a token String() cannot print (5:7 prints as 7): the stored text denotes a later position
		{R(1), E(SequenceID{TriggeredBy: 5, Seq: 7}, SequenceID{TriggeredBy: 6, Seq: 3}), P(SequenceID{TriggeredBy: 5, Seq: 7}), T, R(1), St},
		// the zero sequence as a checkpoint ("0" is not "")
		{R(1), E(S(0)), P(S(0)), T, R(1), St, c17POp{K: 'X'}, R(1)},
		{R(0), E(S(1)), P(S(1)), T, R(0), R(1)},
	}
	for _, ops := range corpus {
		for _, thr := range []int{0, 100} {
			w := c17NewWorld(r, env, thr)
			for _, o := range ops {
				if !w.do(o) {
					break
				}
			}
			w.emit("world-corpus")
		}
	}
	// matrix: every combination of (what the documents hold before the restart) x (config hash of the new
	// Checkpointer) x (roll-back write fails or not): the whole domain of setLastCheckpointSeq in small scope
	firsts := [][]c17POp{
		{},
		{R(1), E(S(5)), P(S(5)), T},
		{R(2), E(S(5)), P(S(5)), T},
		{R(1), E(S(9)), P(S(9)), T},
	}
	seconds := [][]c17POp{
		{},
		{E(S(8)), P(S(8)), T},
		{E(S(8)), P(S(8)), Trd},
		{E(S(8)), P(S(8)), Tld},
		{c17POp{K: 'x'}},
		{c17POp{K: 'X'}},
		{c17POp{K: 'u'}, c17POp{K: 'U'}},
		{E(S(8)), P(S(8)), Trd, c17POp{K: 'X'}},
		{E(S(8)), P(S(8)), Trd, c17POp{K: 'x'}},
		{E(S(0)), P(S(0)), Trd},
	}
	for _, a := range firsts {
		for _, b := range seconds {
			for _, hb := range []int{1, 2} {
				for h := 1; h <= 2; h++ {
					for _, wd := range []bool{false, true} {
						var ops []c17POp
						ops = append(ops, a...)
						if len(b) > 0 {
							if len(a) == 0 || hb != a[0].H {
								ops = append(ops, R(hb))
							} else if hb == 2 {
								continue // same as hb == 1 for this prefix
							}
							ops = append(ops, b...)
						} else if hb == 2 {
							continue
						}
						ops = append(ops, c17POp{K: 'R', H: h, A: wd}, St, E(S(12)), P(S(12)), T, R(h), St)
						w := c17NewWorld(r, env, 100)
						for _, o := range ops {
							if !w.do(o) {
								break
							}
						}
						w.emit("world-matrix")
					}
				}
			}
		}
	}
	r.rec.Extra("world_matrix", "setLastCheckpointSeq on every document state reachable by {nothing, checkpoint 5 under h1 / h2, 9 under h1} followed under h1 / h2 by {nothing, 8 stored on both, locally only, not at all, local deleted, remote deleted, both rewritten, local-only then remote deleted, local-only then local deleted, \"0\" locally only} x new config hash h1 / h2 x roll-back write failing or not")
	// compound: every ordered pair of canonical tokens of all four printable shapes (seq, trig:seq, low::seq,
	// low:trig:seq) stored as a MISMATCHED local / remote pair, both ways round - including every pair on which the
	// numeric SafeSequence order and SequenceID.Before disagree (4 vs 7:3, 3::8 vs 6, 2:9:4 vs 3 ...) - then a restart
	toks := []SequenceID{{Seq: 4}, {Seq: 6}, {Seq: 9}, {TriggeredBy: 7, Seq: 3}, {TriggeredBy: 12, Seq: 2}, {TriggeredBy: 1004, Seq: 3},
		{LowSeq: 3, Seq: 8}, {LowSeq: 5, Seq: 11}, {LowSeq: 2, TriggeredBy: 9, Seq: 4}, {LowSeq: 8, TriggeredBy: 10, Seq: 1}}
	disagree := 0
	for _, a := range toks {
		for _, b := range toks {
			if !a.Before(b) {
				continue
			}
			if b.SafeSequence() <= a.SafeSequence() {
				disagree++
			}
			for _, wd := range []bool{false, true} {
				// local b, remote a: the remote half of the second checkpoint is lost (crash between the two writes)
				w := c17NewWorld(r, env, 100)
				for _, o := range []c17POp{R(1), E(a, b), P(a), T, P(b), Trd, {K: 'R', H: 1, A: wd}, St, E(b), P(b), T, R(1), St} {
					if !w.do(o) {
						break
					}
				}
				w.emit("world-compound")
				// local a, remote b: both hold b, then a turns up late and only its local half is written
				w = c17NewWorld(r, env, 100)
				for _, o := range []c17POp{R(1), E(b), P(b), T, E(a), P(a), Trd, {K: 'R', H: 1, A: wd}, St, E(b), P(b), T, R(1), St} {
					if !w.do(o) {
						break
					}
				}
				w.emit("world-compound")
			}
		}
	}
	r.rec.Extra("world_compound_pairs_where_SafeSequence_and_Before_disagree", disagree)
	for i := 0; i < vBudget(220, 900); i++ {
		c17SessionWorld(r, env, rnd, false, "world-session")
	}
	for i := 0; i < vBudget(80, 300); i++ {
		c17SessionWorld(r, env, rnd, true, "world-late")
	}
	for i := 0; i < vBudget(160, 700); i++ {
		c17AdversarialWorld(r, env, rnd)
	}
}
