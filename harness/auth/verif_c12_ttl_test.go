//go:build verif

package auth

// C12 / C11-4: a session that CreateSession reported as created must be stored with the bucket expiry that
// corresponds to its own Expiration field -- for EVERY time-to-live, in particular across the 30-day boundary at
// which the bucket's expiry encoding switches from "seconds from now" to "absolute Unix time"
// (base.DurationToCbsExpiry; Coq: C12.Expiry, theorem C12_session_stored_until_expiry).  The check reads the
// expiry the bucket recorded (no dependence on when the bucket's reaper runs) and reads the session back.

import (
	"context"
	"fmt"
	"testing"
	"time"

	"github.com/couchbase/sync_gateway/base"
)

func c12SessionExpiryStream(t *testing.T, rec *vRecorder, rnd *vRand, a *Authenticator, raw base.DataStore) {
	ctx := context.Background()
	const day = 24 * time.Hour
	ttls := []time.Duration{time.Second, time.Minute, time.Hour, day, 29 * day, 30*day - time.Second, 30 * day, 30*day + time.Second,
		30*day + time.Minute, 31 * day, 60 * day, 365 * day, 3650 * day}
	for i := 0; i < vBudget(20, 200); i++ {
		ttls = append(ttls, time.Duration(1+rnd.Intn(80*24*3600))*time.Second)
	}
	user, err := a.NewUser("c12ttluser", "letmein", base.Set{})
	if err != nil || a.Save(user) != nil {
		rec.Err("c12ttl-user-setup")
		return
	}
	for _, ttl := range ttls {
		rec.Count("session_expiry", "session_expiry", fmt.Sprint(int64(ttl.Seconds())), ttl > 29*day)
		in := map[string]any{"ttl_seconds": int64(ttl.Seconds()), "over_30_days": ttl > 30*day}
		before := time.Now()
		s, err := a.CreateSession(ctx, user, ttl, false)
		if err != nil || s == nil {
			c12Fail(rec, "session_stored_until_expiry", "session-create-refused:valid-ttl", in, fmt.Sprint(err))
			continue
		}
		cls := "ttl<=30d"
		if ttl > 30*day {
			cls = "ttl>30d"
		}
		exp, err := raw.GetExpiry(ctx, a.DocIDForSession(s.ID))
		if err != nil {
			c12Fail(rec, "session_stored_until_expiry", "session-not-stored:"+cls, in, "CreateSession succeeded but the session document is not in the bucket: "+fmt.Sprint(err))
			continue
		}
		// the bucket records an absolute time (rosmar: absoluteExpiry on write; Couchbase Server: the same)
		abs := int64(exp)
		if exp != 0 && int64(exp) <= 30*24*3600 {
			abs = before.Unix() + int64(exp)
		}
		want := s.Expiration.Unix()
		if d := abs - want; exp == 0 || d < -120 || d > 120 {
			in["bucket_expiry"] = exp
			in["session_expiration_unix"] = want
			c12Fail(rec, "session_stored_until_expiry", "session-bucket-expiry-mismatch:"+cls, in,
				fmt.Sprintf("bucket expiry %d (absolute %d) but the session says it lives until %d", exp, abs, want))
			continue
		}
		got, gotUser, err := a.GetSession(s.ID)
		if err != nil || got == nil || gotUser == nil || got.ID != s.ID || gotUser.Name() != user.Name() {
			c12Fail(rec, "session_stored_until_expiry", "session-unreadable-after-create:"+cls, in, fmt.Sprint(err))
		}
		_ = a.DeleteSession(ctx, s.ID, user.Name())
	}
}
