//go:build verif

package auth

import (
	"bytes"
	"context"
	"errors"
	"fmt"
	"net/http"
	"net/http/httptest"
	"sort"
	"strings"
	"sync"
	"sync/atomic"
	"testing"
	"time"

	sgbucket "github.com/couchbase/sg-bucket"
	"github.com/couchbase/sync_gateway/base"
	"golang.org/x/crypto/bcrypt"
)

// C12 correspondence + monitors on the real auth.Authenticator (rosmar bucket, bcrypt.MinCost).
//
// Histories of user / session / time operations are executed on the real code; every operation and the
// projected observable it produced (who was authenticated, error kind, Set-Cookie written, cachedHashes.Len())
// is emitted as a Coq term of C12_Corr.case and re-run on the model.  Independently, Go-side monitors keep the
// *specification* ghost state (who exists, credential epoch, which sessions are live) and check every
// successful authentication against it.

// c12BcryptKey is what bcrypt actually keys on: the first 72 bytes of the cyclic repetition of password ++ NUL
// (x/crypto/blowfish ExpandKey).  Two passwords with the same key are the same password to bcrypt.
func c12BcryptKey(p []byte) [72]byte {
	k := append(append([]byte{}, p...), 0)
	var out [72]byte
	for i := range out {
		out[i] = k[i%len(k)]
	}
	return out
}

// c12Plain: at most 72 bytes and no NUL byte -- the domain on which bcrypt is injective (crypto_ok.verify_gen)
func c12Plain(p []byte) bool { return len(p) <= 72 && !bytes.Contains(p, []byte{0}) }

// c12WrongPasswordVerdict judges an ACCEPTED attempt q against the current password cur:
// "" = fine, "observed" = bcrypt itself identifies the two strings (outside the bcrypt hypothesis), else a failure text
func c12WrongPasswordVerdict(cur, q []byte) string {
	switch {
	case bytes.Equal(cur, q):
		return ""
	case len(cur) == 0:
		return "a non-empty string authenticated although the user has the empty password (no hash)"
	case c12Plain(cur) && c12Plain(q):
		return "a string different from the current password authenticated"
	case c12BcryptKey(cur) == c12BcryptKey(q):
		return "observed"
	}
	return "a string that bcrypt does not identify with the current password authenticated"
}

// ---------- passwords: interned ids (see Instance.v: ids >= 1000 are > 72 bytes, id%1000 = their 72-byte prefix)
var c12A72 = strings.Repeat("A", 72)
var c12B72 = strings.Repeat("B", 71) + "\xfe"

func c12Pw(id uint64) string {
	switch id {
	case 0:
		return ""
	case 1:
		return "letmein"
	case 2:
		return "p\x00\xffw\xc3\x28" // NUL byte, invalid UTF-8
	case 3:
		return c12A72
	case 4:
		return c12B72
	case 5:
		return "letmeiN"
	case 6:
		return "ab"
	case 7:
		return "ab\x00ab" // bcrypt-equivalent to "ab": same 72-byte cyclic expansion of password ++ NUL
	case 1003:
		return c12A72 + "x"
	case 2003:
		return c12A72 + "yz"
	case 1004:
		return c12B72 + "q"
	}
	panic(fmt.Sprintf("c12: unknown password id %d", id))
}

var c12AllPw = []uint64{0, 1, 2, 3, 4, 5, 6, 7, 1003, 2003, 1004}

// ---------- abstract operations (sessions are addressed through slots; slot -> most recent session number)
const (
	c12CreateUser = iota
	c12SetPassword
	c12SetDisabled
	c12Invalidate
	c12DeleteUser
	c12CreateSession
	c12DeleteSession
	c12Advance
	c12AuthPassword
	c12AuthCookie
	c12AuthOneTime
	c12GetSession
	c12LoginRehash
)

var c12KindName = []string{"CreateUser", "SetPassword", "SetDisabled", "InvalidateSessions", "DeleteUser", "CreateSession",
	"DeleteSession", "Advance", "AuthPassword", "AuthCookie", "AuthOneTime", "GetSession", "LoginRehash"}

type c12Op struct {
	kind int
	u, p uint64
	slot int
	n    uint64 // ttl or dt, seconds (multiples of 10)
	flag bool   // disabled value / one-time
	c    uint64 // bcrypt cost of the node executing CreateUser / SetPassword (0 = 4)
	// LoginRehash: operations scheduled just before the k-th CAS Save attempt of the re-hash
	inter [][]c12Op
}

type c12SpecUser struct {
	exists     bool
	inc, epoch int
	disabled   bool
	pw         uint64
	pwCost     uint64 // bcrypt cost the hash of pw was generated with
}
type c12SpecSess struct {
	user       uint64
	inc, epoch int
	vexp       int64
	ttl        int64
	deleted    bool
	consumed   bool
	onetime    bool
}
type c12Probe struct {
	inc, epoch int
	uuid       string
}
type c12Hash struct {
	bytes           []byte
	salt, pw0, cost uint64
}

type c12World struct {
	t                  *testing.T
	rec                *vRecorder
	ctx                context.Context
	auth               *Authenticator // BcryptCost 4, bcryptCostChanged false: never re-hashes
	auth5              *Authenticator // BcryptCost 5 (used for CreateUser / SetPassword at cost 5)
	loginNo            uint64
	prefix             string
	capN               int
	sids               []string // sids[n] = real id of session number n; sids[0] = an id that was never issued
	slots              [4]uint64
	hashes             []c12Hash
	salt               uint64
	su                 map[uint64]*c12SpecUser
	ss                 map[uint64]*c12SpecSess
	vnow               int64
	ops                []string
	outs               []string
	descs              []string
	pending            string
	retried            bool // some re-hash needed more than one CAS Save attempt
	// the SessionUUID of the user an operation was about, read from the stored user document after EVERY operation
	pu        uint64            // the user probed
	probes    []string          // per operation: the user probed
	uuids     []string          // per operation: its SessionUUID, interned (None / Some 0 = "" / Some k = k-th distinct)
	uuidIdx   map[string]int    // interning
	lastProbe map[uint64]c12Probe
	accepted, rejected int
}

var c12CaseNo int

func c12NewWorld(t *testing.T, rec *vRecorder, a *Authenticator, capN int) *c12World {
	c12CaseNo++
	cachedHashes = NewRandReplKeyCache(capN)
	w := &c12World{t: t, rec: rec, ctx: base.TestCtx(t), auth: a, auth5: c12Auth5(a), prefix: fmt.Sprintf("c%dx", c12CaseNo), capN: capN,
		su: map[uint64]*c12SpecUser{}, ss: map[uint64]*c12SpecSess{}, pu: 1, uuidIdx: map[string]int{}, lastProbe: map[uint64]c12Probe{}}
	w.sids = []string{fmt.Sprintf("neverissued%d", c12CaseNo)}
	return w
}

func (w *c12World) name(u uint64) string { return fmt.Sprintf("%su%d", w.prefix, u) }
func (w *c12World) unname(n string) (uint64, bool) {
	var u uint64
	if !strings.HasPrefix(n, w.prefix+"u") {
		return 0, false
	}
	if _, err := fmt.Sscanf(n[len(w.prefix)+1:], "%d", &u); err != nil {
		return 0, false
	}
	return u, true
}
func (w *c12World) emit(op, out, desc string) {
	w.ops = append(w.ops, op)
	w.outs = append(w.outs, out)
	w.descs = append(w.descs, desc+" => "+out)
	w.probeEpoch()
}

// probeEpoch reads the SessionUUID of user w.pu from the stored user document (a plain read of the document: no
// GetUser, which may rebuild and re-save the principal) -- the model's Epoch.epoch_of after the same operation -- and
// runs the monitors of C12_session_uuid_never_empty / C12_session_uuid_fresh_per_incarnation on it: a stored user never
// has the empty SessionUUID, and whenever the specification says the user is a new incarnation or has new credentials
// (created, password set -- to anything, also "" on a user without a hash --, sessions invalidated, re-hashed) since it
// was last looked at, its SessionUUID is one that no user had at any earlier point of the history.
func (w *c12World) probeEpoch() {
	u := w.pu
	w.probes = append(w.probes, cqN(u))
	var doc struct {
		UUID string `json:"session_uuid"`
	}
	if _, err := w.auth.datastore.Get(w.ctx, w.auth.DocIDForUser(w.name(u)), &doc); err != nil {
		if !base.IsDocNotFoundError(err) {
			w.unexpected("Get(user)", err)
		}
		w.uuids = append(w.uuids, "None")
		return
	}
	su := w.specUser(u)
	lp, seenBefore := w.lastProbe[u]
	_, known := w.uuidIdx[doc.UUID]
	if doc.UUID == "" {
		w.uuids = append(w.uuids, "(Some 0)")
		w.fail("session_uuid_never_empty", "user-without-session-uuid",
			fmt.Sprintf("the stored document of u%d has the EMPTY session UUID: every session issued to a user of that name while its UUID was empty (an earlier incarnation, or before a SetPassword that left it empty) authenticates as this user", u))
	} else {
		if !known {
			w.uuidIdx[doc.UUID] = len(w.uuidIdx) + 1
		}
		w.uuids = append(w.uuids, fmt.Sprintf("(Some %d)", w.uuidIdx[doc.UUID]))
	}
	if (!seenBefore || lp.inc != su.inc || lp.epoch != su.epoch) && known && doc.UUID != "" {
		if seenBefore && lp.inc == su.inc && lp.uuid == doc.UUID {
			w.fail("session_uuid_fresh_per_incarnation", "session-uuid-not-rotated",
				fmt.Sprintf("the credentials of u%d changed (password set / sessions invalidated) but its session UUID is still the one it had before: sessions issued before the change keep authenticating", u))
		} else {
			w.fail("session_uuid_fresh_per_incarnation", "session-uuid-reused",
				fmt.Sprintf("u%d (incarnation %d, credential epoch %d) carries a session UUID that an earlier incarnation / another user had: sessions issued to that one authenticate as this user", u, su.inc, su.epoch))
		}
	}
	w.lastProbe[u] = c12Probe{inc: su.inc, epoch: su.epoch, uuid: doc.UUID}
}
func (w *c12World) history() []string { return append([]string{}, w.descs...) }

// at most 3 reports per signature, so that one kind of failure cannot crowd out the others (the recorder keeps 50)
var c12SigCount = map[string]int{}

func c12Fail(rec *vRecorder, monitor, sig string, input any, detail string) {
	c12SigCount[sig]++
	if c12SigCount[sig] <= 3 {
		rec.Fail(monitor, sig, input, detail)
	}
}
func (w *c12World) fail(monitor, sig, detail string) {
	h := w.history()
	if w.pending != "" {
		h = append(h, w.pending+" => <the failing call>")
	}
	c12Fail(w.rec, monitor, sig, map[string]any{"cache_capacity": w.capN, "history": h}, detail)
}
func (w *c12World) unexpected(op string, err error) {
	w.rec.Err("unexpected:" + op)
	w.fail("harness", "unexpected-error-"+op, fmt.Sprintf("%s returned an error the model has no case for: %v", op, err))
}
func (w *c12World) specUser(u uint64) *c12SpecUser {
	if w.su[u] == nil {
		w.su[u] = &c12SpecUser{}
	}
	return w.su[u]
}

// record the hash the code generated for (salt, p)
func (w *c12World) noteHash(u, p, c uint64) {
	if p == 0 {
		return
	}
	usr, err := w.auth.GetUser(w.name(u))
	if err != nil || usr == nil {
		return
	}
	hb := usr.(*userImpl).PasswordHash_
	if hb != nil {
		w.hashes = append(w.hashes, c12Hash{bytes: append([]byte{}, hb...), salt: w.salt, pw0: p, cost: c})
	}
}

func (w *c12World) authFor(c uint64) *Authenticator {
	if c == 5 {
		return w.auth5
	}
	return w.auth
}

func (w *c12World) doCreateUser(u, p, c uint64) {
	w.salt++
	op := fmt.Sprintf("CreateUser %d %d %d %d", u, p, w.salt, c)
	desc := fmt.Sprintf("CreateUser(u%d,pw%d,cost%d)", u, p, c)
	var usr User
	var err error
	if w.salt%2 == 0 { // what db.UpdatePrincipal calls (then SetPassword if the update carries one)
		usr, err = w.authFor(c).NewUserNoChannels(w.name(u), c12Pw(p))
	} else {
		usr, err = w.authFor(c).NewUser(w.name(u), c12Pw(p), nil)
	}
	if err != nil {
		if errors.Is(err, bcrypt.ErrPasswordTooLong) {
			w.rec.Err("pw-too-long")
			w.emit(op, "OErr EPwTooLong", desc)
			return
		}
		w.unexpected("NewUser", err)
		w.emit(op, "ODone", desc)
		return
	}
	if err = w.authFor(c).Save(usr); err != nil {
		if base.IsCasMismatch(err) {
			w.rec.Err("user-exists")
			w.emit(op, "OErr EExists", desc)
			return
		}
		w.unexpected("Save", err)
		w.emit(op, "ODone", desc)
		return
	}
	su := w.specUser(u)
	su.exists, su.disabled, su.pw, su.pwCost = true, false, p, c
	su.inc++
	su.epoch++
	w.noteHash(u, p, c)
	w.emit(op, "ODone", desc)
}

// load runs GetUser for the operations that start with it; nil => the op is reported as ENoUser
func (w *c12World) load(u uint64, op, desc string) User { return w.loadWith(w.auth, u, op, desc) }
func (w *c12World) loadWith(au *Authenticator, u uint64, op, desc string) User {
	usr, err := au.GetUser(w.name(u))
	if err != nil {
		w.unexpected("GetUser", err)
	}
	if usr == nil {
		w.rec.Err("no-user")
		w.emit(op, "OErr ENoUser", desc)
		return nil
	}
	return usr
}
func (w *c12World) save(usr User, op, desc string) bool {
	if err := w.auth.Save(usr); err != nil {
		w.unexpected("Save", err)
		w.emit(op, "ODone", desc)
		return false
	}
	return true
}

func (w *c12World) doSetPassword(u, p, c uint64) {
	w.salt++
	op := fmt.Sprintf("SetPassword %d %d %d %d", u, p, w.salt, c)
	desc := fmt.Sprintf("SetPassword(u%d,pw%d,cost%d)", u, p, c)
	usr := w.loadWith(w.authFor(c), u, op, desc)
	if usr == nil {
		return
	}
	if err := usr.SetPassword(c12Pw(p)); err != nil {
		if errors.Is(err, bcrypt.ErrPasswordTooLong) {
			w.rec.Err("pw-too-long")
			w.emit(op, "OErr EPwTooLong", desc)
			return
		}
		w.unexpected("SetPassword", err)
		w.emit(op, "ODone", desc)
		return
	}
	if !w.save(usr, op, desc) {
		return
	}
	su := w.specUser(u)
	su.pw, su.pwCost = p, c
	su.epoch++
	w.noteHash(u, p, c)
	w.emit(op, "ODone", desc)
}

func (w *c12World) doSetDisabled(u uint64, b bool) {
	op := fmt.Sprintf("SetDisabled %d %s", u, cqBool(b))
	desc := fmt.Sprintf("SetDisabled(u%d,%v)", u, b)
	usr := w.load(u, op, desc)
	if usr == nil {
		return
	}
	usr.SetDisabled(b)
	if !w.save(usr, op, desc) {
		return
	}
	w.specUser(u).disabled = b
	w.emit(op, "ODone", desc)
}

func (w *c12World) doInvalidate(u uint64) {
	op := fmt.Sprintf("InvalidateSessions %d", u)
	desc := fmt.Sprintf("InvalidateSessions(u%d)", u)
	usr := w.load(u, op, desc)
	if usr == nil {
		return
	}
	usr.UpdateSessionUUID() // rest/session_api.go deleteUserSessions
	if !w.save(usr, op, desc) {
		return
	}
	w.specUser(u).epoch++
	w.emit(op, "ODone", desc)
}

func (w *c12World) doDeleteUser(u uint64) {
	op := fmt.Sprintf("DeleteUser %d", u)
	desc := fmt.Sprintf("DeleteUser(u%d)", u)
	usr := w.load(u, op, desc)
	if usr == nil {
		return
	}
	if err := w.auth.DeleteUser(usr); err != nil {
		w.unexpected("DeleteUser", err)
	}
	w.specUser(u).exists = false
	w.emit(op, "ODone", desc)
}

func (w *c12World) doCreateSession(u uint64, slot int, ttl uint64, onetime bool) {
	desc := fmt.Sprintf("CreateSession(u%d,slot%d,ttl=%ds,onetime=%v)", u, slot, ttl, onetime)
	failOp := fmt.Sprintf("CreateSession %d 0 %d %s", u, ttl, cqBool(onetime))
	usr := w.load(u, failOp, desc)
	if usr == nil {
		return
	}
	sess, err := w.auth.CreateSession(w.ctx, usr, time.Duration(ttl)*time.Second, onetime)
	if err != nil {
		var he *base.HTTPError
		if errors.As(err, &he) && he.Status == 400 && strings.Contains(he.Message, "time-to-live") {
			w.rec.Err("bad-ttl")
			w.emit(failOp, "OErr EBadTTL", desc)
			return
		}
		if errors.As(err, &he) && he.Status == 400 && strings.Contains(he.Message, "disabled") {
			w.rec.Err("create-session-disabled")
			w.emit(failOp, "OErr EDisabled", desc)
			return
		}
		w.unexpected("CreateSession", err)
		w.emit(failOp, "ODone", desc)
		return
	}
	w.sids = append(w.sids, sess.ID)
	n := uint64(len(w.sids) - 1)
	w.slots[slot] = n
	su := w.specUser(u)
	w.ss[n] = &c12SpecSess{user: u, inc: su.inc, epoch: su.epoch, vexp: w.vnow + int64(ttl), ttl: int64(ttl), onetime: onetime}
	if sess.Username != w.name(u) {
		w.fail("session_provenance", "session-for-other-user", "CreateSession issued a session bound to "+sess.Username)
	}
	w.emit(fmt.Sprintf("CreateSession %d %d %d %s", u, n, ttl, cqBool(onetime)), "ODone", desc+fmt.Sprintf(" -> s%d", n))
	w.doDocExpiry(n)
}

func (w *c12World) doDeleteSession(n uint64) {
	op := fmt.Sprintf("DeleteSession %d", n)
	desc := fmt.Sprintf("DeleteSession(s%d)", n)
	err := w.auth.DeleteSession(w.ctx, w.sids[n], "")
	if err != nil {
		if base.IsDocNotFoundError(err) {
			w.rec.Err("delete-session-notfound")
			w.emit(op, "OErr ENotFound", desc)
			return
		}
		w.unexpected("DeleteSession", err)
	}
	if s := w.ss[n]; s != nil {
		s.deleted = true
	}
	w.emit(op, "ODone", desc)
}

// Advance makes dt seconds pass for the session documents without sleeping.  The store removes a document when the
// BUCKET EXPIRY it was written with is reached (sync_gateway never compares LoginSession.Expiration with the clock), so
// that is what is aged: every stored session's bucket expiry (datastore.GetExpiry) is moved back by dt and the document
// is removed when it has been reached -- a document WITHOUT a bucket expiry stays, as it would in the store.  The
// Expiration field is moved back by dt as well (what the passage of time does to "now + ttl - Expiration").
func (w *c12World) doAdvance(dt uint64) {
	for n := 1; n < len(w.sids); n++ {
		key := w.auth.DocIDForSession(w.sids[n])
		var sess LoginSession
		if _, err := w.auth.datastore.Get(w.ctx, key, &sess); err != nil {
			if !base.IsDocNotFoundError(err) {
				w.unexpected("Get(session)", err)
			}
			continue
		}
		exp, err := w.auth.datastore.GetExpiry(w.ctx, key)
		if err != nil {
			w.unexpected("GetExpiry(session)", err)
			continue
		}
		sess.Expiration = sess.Expiration.Add(-time.Duration(dt) * time.Second)
		if exp == 0 { // no bucket expiry: the store keeps the document for ever
			if err := w.auth.datastore.Set(w.ctx, key, 0, nil, sess); err != nil {
				w.unexpected("Set(aged session)", err)
			}
			continue
		}
		rem := (int64(exp)-time.Now().Unix()+5)/10*10 - int64(dt) // whole seconds, the values used are multiples of 10
		if rem <= 0 {
			if err := w.auth.datastore.Delete(w.ctx, key); err != nil {
				w.unexpected("Delete(expired session)", err)
			}
			continue
		}
		if err := w.auth.datastore.Set(w.ctx, key, uint32(rem), nil, sess); err != nil {
			w.unexpected("Set(aged session)", err)
		}
	}
	w.vnow += int64(dt)
	w.emit(fmt.Sprintf("Advance %d", dt), "ODone", fmt.Sprintf("Advance(%ds)", dt))
}

// doDocExpiry observes the bucket expiry of the session document (after every create / presentation): the model's
// DocExpiry.  Monitor session_documents_carry_expiry (C12_session_documents_carry_expiry on the implementation): a
// stored session document carries a bucket expiry, and it is the document's Expiration.
func (w *c12World) doDocExpiry(n uint64) {
	desc := fmt.Sprintf("GetExpiry(s%d)", n)
	savedPending := w.pending
	w.pending = desc
	defer func() { w.pending = savedPending }()
	key := w.auth.DocIDForSession(w.sids[n])
	var sess LoginSession
	out := "OExp None"
	if _, err := w.auth.datastore.Get(w.ctx, key, &sess); err != nil {
		if !base.IsDocNotFoundError(err) {
			w.unexpected("Get(session)", err)
		}
	} else {
		exp, err := w.auth.datastore.GetExpiry(w.ctx, key)
		if err != nil {
			w.unexpected("GetExpiry(session)", err)
		}
		switch {
		case exp == 0:
			out = "OExp (Some 0)"
			w.fail("session_documents_carry_expiry", "session-document-without-expiry",
				fmt.Sprintf("the stored document of session s%d has NO bucket expiry (Expiration field: in %ds): cookie authentication never compares Expiration with the clock, so this session authenticates for ever", n, int64(time.Until(sess.Expiration)/time.Second)))
		default:
			rem := (int64(exp) - time.Now().Unix() + 5) / 10 * 10
			out = fmt.Sprintf("OExp (Some %d)", rem)
			if d := int64(exp) - sess.Expiration.Unix(); d < -2 || d > 2 {
				w.fail("session_documents_carry_expiry", "session-document-expiry-differs-from-expiration",
					fmt.Sprintf("the stored document of session s%d expires %ds away from its Expiration field", n, d))
			}
		}
	}
	w.emit(fmt.Sprintf("DocExpiry %d", n), out, desc)
}

func (w *c12World) cacheVector() map[string]bool {
	v := map[string]bool{}
	for hi, h := range w.hashes {
		for _, p := range c12AllPw {
			if cachedHashes.Contains(authKey(h.bytes, []byte(c12Pw(p)))) {
				v[fmt.Sprintf("%d|%d", hi, p)] = true
			}
		}
	}
	return v
}

// cache_never_widens on the real cache: every resident pair must pass the full bcrypt check
func (w *c12World) checkCache() {
	for _, h := range w.hashes {
		for _, p := range c12AllPw {
			if cachedHashes.Contains(authKey(h.bytes, []byte(c12Pw(p)))) {
				if bcrypt.CompareHashAndPassword(h.bytes, []byte(c12Pw(p))) != nil {
					w.fail("cache_never_widens", "cache-holds-unverified-pair", fmt.Sprintf("cachedHashes holds (sha1(pw%d), hash#%d of pw%d) which bcrypt rejects", p, h.salt, h.pw0))
				}
			}
		}
	}
}

// evBegin / end: which resident pair did the random replacement of the password cache evict during a login
func (w *c12World) evBegin() func() string {
	full := cachedHashes.Len() >= w.capN
	if !full {
		return func() string { return "None" }
	}
	before := w.cacheVector()
	return func() string {
		after := w.cacheVector()
		var gone []string
		for k := range before {
			if !after[k] {
				gone = append(gone, k)
			}
		}
		sort.Strings(gone)
		if len(gone) == 0 {
			return "None"
		}
		var hi int
		var dp uint64
		_, _ = fmt.Sscanf(gone[0], "%d|%d", &hi, &dp)
		return fmt.Sprintf("(Some (%d,%d,%d,%d))", dp, w.hashes[hi].cost, w.hashes[hi].salt, w.hashes[hi].pw0)
	}
}

// judgePassword: a password login that returned usr, judged against the specification state su at the moment the
// login read the user
func (w *c12World) judgePassword(desc string, u, p uint64, usr User, su c12SpecUser) string {
	if usr == nil {
		w.rejected++
		w.rec.Err("password-rejected")
		return "None"
	}
	w.accepted++
	w.rec.Err("password-accepted")
	ru, ok := w.unname(usr.Name())
	if !ok || ru != u {
		w.fail("password_auth_sound", "password-auth-wrong-user", "AuthenticateUser returned user "+usr.Name())
		ru = 999
	}
	switch {
	case !su.exists:
		w.fail("password_auth_sound", "deleted-user-password", desc+" authenticated a deleted user")
	case su.disabled:
		w.fail("password_auth_sound", "disabled-user-password", desc+" authenticated a disabled user")
	default:
		switch v := c12WrongPasswordVerdict([]byte(c12Pw(su.pw)), []byte(c12Pw(p))); v {
		case "":
		case "observed":
			// bcrypt keys on 72 bytes of the cyclic repetition of password ++ NUL: recorded, not judged
			w.rec.Err("bcrypt-equivalent-nonplain-password-accepted")
		default:
			w.fail("password_auth_sound", "wrong-password-authenticates", fmt.Sprintf("%s accepted although the current password is pw%d: %s", desc, su.pw, v))
		}
	}
	return fmt.Sprintf("(Some %d)", ru)
}

func (w *c12World) doAuthPassword(u, p uint64) {
	desc := fmt.Sprintf("AuthenticateUser(u%d,pw%d)", u, p)
	endEv := w.evBegin()
	usr, err := w.auth.AuthenticateUser(w.name(u), c12Pw(p))
	if err != nil {
		w.unexpected("AuthenticateUser", err)
	}
	ev := endEv()
	who := w.judgePassword(desc, u, p, usr, *w.specUser(u))
	w.checkCache()
	w.emit(fmt.Sprintf("AuthPassword %d %d %s", u, p, ev), fmt.Sprintf("OPass %s %d", who, cachedHashes.Len()), desc)
}

// a datastore that calls back around every CAS write of one document: the Save attempts of casUpdatePrincipal
type c12CasHookStore struct {
	base.DataStore
	match  string
	before func()
	after  func(error)
}

func (s *c12CasHookStore) WriteCas(ctx context.Context, k string, exp uint32, cas uint64, v any, opt sgbucket.WriteOptions) (uint64, error) {
	if k != s.match {
		return s.DataStore.WriteCas(ctx, k, exp, cas, v, opt)
	}
	if s.before != nil {
		s.before()
	}
	c, err := s.DataStore.WriteCas(ctx, k, exp, cas, v, opt)
	if s.after != nil {
		s.after(err)
	}
	return c, err
}

// an Authenticator whose bcrypt cost was changed to 5 (SetBcryptCost accepts only >= bcrypt.DefaultCost, so the two
// fields are set directly): a login with a correct password re-hashes a stored hash of another cost
func c12Auth5(a *Authenticator) *Authenticator { return c12Auth5On(a, a.datastore) }
func c12Auth5On(a *Authenticator, ds base.DataStore) *Authenticator {
	opts := a.AuthenticatorOptions
	opts.BcryptCost = 5
	a5 := NewAuthenticator(ds, nil, opts)
	a5.bcryptCostChanged = true
	return a5
}

// doLoginRehash: AuthenticateUser on the cost-5 Authenticator, split at the CAS Save attempts of rehashPassword:
// inter[k] runs just before the k-th attempt (so that attempt loses the CAS race if inter[k] wrote the user).
// Emits LoginRehash, the interleaved operations, and one RehashSave per attempt (+ one for the final reload).
func (w *c12World) doLoginRehash(u, p uint64, inter [][]c12Op) {
	w.loginNo++
	a := w.loginNo
	desc := fmt.Sprintf("AuthenticateUser@cost5#%d(u%d,pw%d)", a, u, p)
	idx := len(w.ops)
	w.emit("", "", desc) // filled in below: the operation starts here, its result is known when it returns
	endEv := w.evBegin()
	ev, lenAfter := "", -1
	settle := func() {
		if lenAfter < 0 {
			ev, lenAfter = endEv(), cachedHashes.Len()
		}
	}
	suAtRead := *w.specUser(u)
	attempt, lastMismatch := 0, false
	// the Save attempt that lost the CAS race is followed by the reload and the callback on the reloaded copy, whose
	// password comparison (repaired code) may insert into / evict from the verified-password cache: which entry was
	// evicted is known when the next attempt starts (or the login returns) and is filled into that RehashSave then
	reloadIdx, reloadEv := -1, func() string { return "None" }
	reloadNo := uint64(0)
	settleReload := func() {
		if reloadIdx >= 0 {
			w.ops[reloadIdx] = fmt.Sprintf("RehashSave %d %d %s", a, reloadNo, reloadEv())
			reloadIdx = -1
		}
	}
	hs := &c12CasHookStore{DataStore: w.auth.datastore, match: w.auth.DocIDForUser(w.name(u))}
	hs.before = func() {
		settle()
		settleReload()
		k := attempt
		attempt++
		if k < len(inter) {
			for _, io := range inter[k] {
				w.apply(io)
			}
		}
	}
	hs.after = func(err error) {
		w.salt++
		wrote := err == nil
		gone := err != nil && base.IsDocNotFoundError(err) // the document was deleted meanwhile: casUpdatePrincipal gives up
		if err != nil && !gone && !base.IsCasMismatch(err) {
			w.unexpected("Save(rehash)", err)
		}
		lastMismatch = !wrote && !gone
		if wrote {
			w.specUser(u).epoch++ // SetPassword rotates the session UUID
		}
		w.emit(fmt.Sprintf("RehashSave %d %d None", a, w.salt), "ORehash "+cqBool(wrote), fmt.Sprintf("  rehash#%d: CAS Save attempt %d", a, attempt))
		if !wrote {
			w.rec.Err("rehash-cas-mismatch")
			if lastMismatch {
				reloadIdx, reloadNo, reloadEv = len(w.ops)-1, w.salt, w.evBegin()
			}
			return
		}
		w.rec.Err("rehash-written")
		su := w.specUser(u)
		overwrittenCost := su.pwCost
		w.noteHash(u, p, 5)
		// rehash_preserves_credentials on the implementation: the document just written must still verify the
		// user's CURRENT password (the specification's), not a superseded one
		now, _ := w.auth.GetUser(w.name(u))
		ok := false
		if now != nil {
			hb := now.(*userImpl).PasswordHash_
			if su.pw == 0 {
				ok = hb == nil
			} else {
				ok = hb != nil && bcrypt.CompareHashAndPassword(hb, []byte(c12Pw(su.pw))) == nil
			}
		}
		if !su.exists || !ok {
			// the callback re-applied to the reloaded user re-hashed although the reloaded hash no longer verifies the
			// password presented.  Two shapes: the reloaded hash has ANOTHER cost than the configured one (a node still
			// hashing with the old cost changed the password: the callback before its repair checks nothing else), or
			// it has the configured cost (the cost check itself is gone / was evaluated on a stale copy)
			sig := "stale-password-reinstated-by-rehash"
			if su.exists && overwrittenCost != 5 {
				sig = "stale-password-reinstated-by-rehash-mixed-cost"
			}
			w.fail("rehash_preserves_credentials", sig,
				fmt.Sprintf("the re-hash of login #%d (password pw%d presented) overwrote the credential of u%d (hash of cost %d): the current password pw%d no longer verifies against the stored hash", a, p, u, overwrittenCost, su.pw))
			return
		}
		su.pwCost = 5
	}
	usr, err := c12Auth5On(w.auth, hs).AuthenticateUser(w.name(u), c12Pw(p))
	if err != nil {
		w.unexpected("AuthenticateUser", err)
	}
	settle()
	settleReload()
	if lastMismatch { // the last attempt lost the race: the reload found no user, or the callback cancelled
		w.salt++
		w.emit(fmt.Sprintf("RehashSave %d %d None", a, w.salt), "ORehash false", fmt.Sprintf("  rehash#%d: reload, nothing to do", a))
	}
	w.retried = w.retried || attempt > 1
	who := w.judgePassword(desc, u, p, usr, suAtRead)
	w.checkCache()
	w.ops[idx] = fmt.Sprintf("LoginRehash %d %d %d %s 5", a, u, p, ev)
	w.outs[idx] = fmt.Sprintf("OPass %s %d", who, lenAfter)
	w.descs[idx] = desc + " => " + w.outs[idx]
}

// every successful session presentation is judged against the specification ghost state
func (w *c12World) judgeSession(call string, n uint64, usr User) string {
	w.accepted++
	w.rec.Err(call + "-accepted")
	ru, ok := w.unname(usr.Name())
	s := w.ss[n]
	if s == nil {
		w.fail("session_auth_sound", "unknown-session-authenticates", fmt.Sprintf("%s(s%d) authenticated with an id that was never issued", call, n))
		return "999"
	}
	if !ok || ru != s.user {
		w.fail("session_auth_sound", "session-auth-wrong-user", fmt.Sprintf("%s(s%d) returned user %s, the session was created for u%d", call, n, usr.Name(), s.user))
		return "999"
	}
	su := w.specUser(s.user)
	switch {
	case s.deleted:
		w.fail("deleted_session_dead", "deleted-session-authenticates", fmt.Sprintf("%s(s%d): the session had been deleted", call, n))
	case s.consumed:
		w.fail("one_time_at_most_once", "one-time-session-reused", fmt.Sprintf("%s(s%d): the one-time session had already authenticated once", call, n))
	case s.vexp <= w.vnow:
		w.fail("session_auth_sound", "expired-session-authenticates", fmt.Sprintf("%s(s%d): the session expired at t=%d, now t=%d", call, n, s.vexp, w.vnow))
	case !su.exists || su.inc != s.inc:
		w.fail("recreated_user_old_session_dead", "deleted-user-session-authenticates", fmt.Sprintf("%s(s%d): user u%d was deleted (and possibly recreated) after the session was issued", call, n, s.user))
	case su.epoch != s.epoch:
		w.fail("password_change_kills_sessions", "stale-credential-session-authenticates", fmt.Sprintf("%s(s%d): the password / session UUID of u%d changed after the session was issued", call, n, s.user))
	case su.disabled && call != "GetSession":
		// DESIGN section 6 item 3: genuine defect of the code before the repair (GetSession is an admin look-up,
		// not an authentication, and is not judged)
		w.fail("session_auth_sound", "disabled-user-session-cookie", fmt.Sprintf("%s(s%d) authenticated u%d although the user is disabled (AuthenticateUser with the password refuses)", call, n, s.user))
	}
	return fmt.Sprintf("%d", ru)
}

func (w *c12World) doAuthCookie(n uint64) {
	desc := fmt.Sprintf("AuthenticateCookie(s%d)", n)
	req, _ := http.NewRequest(http.MethodGet, "http://localhost/db/", nil)
	req.AddCookie(&http.Cookie{Name: w.auth.SessionCookieName, Value: w.sids[n]})
	resp := httptest.NewRecorder()
	usr, err := w.auth.AuthenticateCookie(req, resp)
	refreshed := resp.Header().Get("Set-Cookie") != ""
	if err != nil {
		var he *base.HTTPError
		if !errors.As(err, &he) || he.Status != http.StatusUnauthorized {
			w.unexpected("AuthenticateCookie", err)
		}
		usr = nil
	} else if usr == nil {
		w.unexpected("AuthenticateCookie", errors.New("nil user and nil error although a cookie was presented"))
	}
	s := w.ss[n]
	if refreshed && s != nil {
		if s.onetime {
			w.fail("one_time_never_rewritten", "one-time-session-refreshed", desc+" re-wrote (refreshed) a one-time session: a concurrent presentation can resurrect it")
		}
		s.vexp = w.vnow + s.ttl
	}
	who := "None"
	if usr != nil {
		who = "(Some " + w.judgeSession("AuthenticateCookie", n, usr) + ")"
		if s != nil && s.onetime {
			s.consumed = true
		}
	} else {
		w.rejected++
		w.rec.Err("AuthenticateCookie-rejected")
	}
	w.emit(fmt.Sprintf("AuthCookie %d", n), fmt.Sprintf("OCookie %s %s", who, cqBool(refreshed)), desc)
	w.doDocExpiry(n)
}

func (w *c12World) doAuthOneTime(n uint64) {
	desc := fmt.Sprintf("AuthenticateOneTimeSession(s%d)", n)
	usr, err := w.auth.AuthenticateOneTimeSession(w.ctx, w.sids[n])
	out := "OErr E401"
	if err != nil {
		var he *base.HTTPError
		if !errors.As(err, &he) || he.Status != http.StatusUnauthorized {
			w.unexpected("AuthenticateOneTimeSession", err)
		}
		w.rejected++
		w.rec.Err("AuthenticateOneTimeSession-rejected")
	} else if usr == nil {
		w.unexpected("AuthenticateOneTimeSession", errors.New("nil user and nil error"))
	} else {
		out = "OUser " + w.judgeSession("AuthenticateOneTimeSession", n, usr)
		if s := w.ss[n]; s != nil && s.onetime {
			s.consumed = true
		}
	}
	w.emit(fmt.Sprintf("AuthOneTime %d", n), out, desc)
	w.doDocExpiry(n)
}

func (w *c12World) doGetSession(n uint64) {
	desc := fmt.Sprintf("GetSession(s%d)", n)
	sess, usr, err := w.auth.GetSession(w.sids[n])
	out := "OErr ENotFound"
	if err != nil {
		if !base.IsDocNotFoundError(err) {
			w.unexpected("GetSession", err)
		}
		w.rejected++
		w.rec.Err("GetSession-rejected")
	} else if usr == nil || sess == nil {
		w.unexpected("GetSession", errors.New("nil result and nil error"))
	} else {
		out = "OUser " + w.judgeSession("GetSession", n, usr)
	}
	w.emit(fmt.Sprintf("GetSession %d", n), out, desc)
}

func c12Cost(c uint64) uint64 {
	if c == 5 {
		return 5
	}
	return 4
}

func (w *c12World) apply(o c12Op) {
	w.rec.Size(c12KindName[o.kind])
	switch o.kind {
	case c12AuthPassword:
		w.pending = fmt.Sprintf("AuthenticateUser(u%d,pw%d)", o.u, o.p)
	case c12LoginRehash:
		w.pending = fmt.Sprintf("AuthenticateUser@cost5(u%d,pw%d)", o.u, o.p)
	case c12AuthCookie:
		w.pending = fmt.Sprintf("AuthenticateCookie(s%d)", w.slots[o.slot])
	case c12AuthOneTime:
		w.pending = fmt.Sprintf("AuthenticateOneTimeSession(s%d)", w.slots[o.slot])
	case c12GetSession:
		w.pending = fmt.Sprintf("GetSession(s%d)", w.slots[o.slot])
	default:
		w.pending = c12KindName[o.kind]
	}
	defer func() { w.pending = "" }()
	switch o.kind {
	case c12DeleteSession, c12AuthCookie, c12AuthOneTime, c12GetSession:
		if s := w.ss[w.slots[o.slot]]; s != nil {
			w.pu = s.user
		}
	case c12Advance:
	default:
		w.pu = o.u
	}
	switch o.kind {
	case c12CreateUser:
		w.doCreateUser(o.u, o.p, c12Cost(o.c))
	case c12SetPassword:
		w.doSetPassword(o.u, o.p, c12Cost(o.c))
	case c12LoginRehash:
		w.doLoginRehash(o.u, o.p, o.inter)
	case c12SetDisabled:
		w.doSetDisabled(o.u, o.flag)
	case c12Invalidate:
		w.doInvalidate(o.u)
	case c12DeleteUser:
		w.doDeleteUser(o.u)
	case c12CreateSession:
		w.doCreateSession(o.u, o.slot, o.n, o.flag)
	case c12DeleteSession:
		w.doDeleteSession(w.slots[o.slot])
	case c12Advance:
		w.doAdvance(o.n)
	case c12AuthPassword:
		w.doAuthPassword(o.u, o.p)
	case c12AuthCookie:
		w.doAuthCookie(w.slots[o.slot])
	case c12AuthOneTime:
		w.doAuthOneTime(w.slots[o.slot])
	case c12GetSession:
		w.doGetSession(w.slots[o.slot])
	}
}

func c12Run(t *testing.T, rec *vRecorder, a *Authenticator, stream, kind string, capN int, ops []c12Op) *c12World {
	w := c12NewWorld(t, rec, a, capN)
	for _, o := range ops {
		w.apply(o)
	}
	// non-trivial: the history both accepted and rejected an authentication attempt
	rec.Case(stream, kind, fmt.Sprintf("CRunE %d %s %s %s %s", capN, cqList(w.ops), cqList(w.outs), cqList(w.probes), cqList(w.uuids)),
		map[string]any{"cache_capacity": capN, "history": w.history()}, w.accepted > 0 && w.rejected > 0)
	return w
}

// op constructors
func cU(u, p uint64) c12Op      { return c12Op{kind: c12CreateUser, u: u, p: p} }
func sP(u, p uint64) c12Op      { return c12Op{kind: c12SetPassword, u: u, p: p} }
func sD(u uint64, b bool) c12Op { return c12Op{kind: c12SetDisabled, u: u, flag: b} }
func inv(u uint64) c12Op        { return c12Op{kind: c12Invalidate, u: u} }
func dU(u uint64) c12Op         { return c12Op{kind: c12DeleteUser, u: u} }
func cS(u uint64, slot int, ttl uint64, one bool) c12Op {
	return c12Op{kind: c12CreateSession, u: u, slot: slot, n: ttl, flag: one}
}
func dS(slot int) c12Op    { return c12Op{kind: c12DeleteSession, slot: slot} }
func adv(dt uint64) c12Op  { return c12Op{kind: c12Advance, n: dt} }
func aP(u, p uint64) c12Op { return c12Op{kind: c12AuthPassword, u: u, p: p} }
func aC(slot int) c12Op    { return c12Op{kind: c12AuthCookie, slot: slot} }
func aO(slot int) c12Op    { return c12Op{kind: c12AuthOneTime, slot: slot} }
func gS(slot int) c12Op    { return c12Op{kind: c12GetSession, slot: slot} }

// lR: login on the node whose bcrypt cost was changed to 5; inter[k] is scheduled before the k-th Save attempt
func lR(u, p uint64, inter ...[]c12Op) c12Op {
	return c12Op{kind: c12LoginRehash, u: u, p: p, inter: inter}
}
func at5(o c12Op) c12Op { o.c = 5; return o }

// a datastore whose next Get of a session document is followed by a callback: forces the schedule
// "A reads the session; B runs completely; A continues" on the real code
type c12HookStore struct {
	base.DataStore
	mu    sync.Mutex
	after func()
	match string
}

func (s *c12HookStore) Get(ctx context.Context, k string, rv any) (uint64, error) {
	cas, err := s.DataStore.Get(ctx, k, rv)
	s.mu.Lock()
	f := s.after
	if f != nil && k == s.match {
		s.after = nil
	} else {
		f = nil
	}
	s.mu.Unlock()
	if f != nil {
		f()
	}
	return cas, err
}

// Couchbase Server answers KEY_ENOENT when a deleted (or never written) document is deleted; rosmar's Delete
// succeeds again on the tombstone it left behind.  deleteOneTimeSession relies on the Couchbase behaviour ("if doc
// is not found ... someone else is simultaneously using the one-time session"), so the store handed to the
// Authenticator is rosmar + this adapter: Delete is "present? then delete" under a lock, else MissingError.
type c12CbsStore struct {
	base.DataStore
	mu sync.Mutex
}

func (s *c12CbsStore) Delete(ctx context.Context, k string) error {
	s.mu.Lock()
	defer s.mu.Unlock()
	if _, _, err := s.DataStore.GetRaw(ctx, k); err != nil {
		if base.IsDocNotFoundError(err) {
			return sgbucket.MissingError{Key: k}
		}
		return err
	}
	return s.DataStore.Delete(ctx, k)
}

// ---------- the REST stream ----------
// It drives rest/handler.go checkPublicAuth and rest/session_api.go through rest.NewRestTester.  Package rest imports
// package auth, so that code cannot live in package auth: it is in verif_c12_rest_test.go, package auth_test (the
// external test package of this directory, part of the same test binary), which registers itself here.
type VC12Rec struct {
	rec *vRecorder
	rnd *vRand
}

func (r *VC12Rec) Case(stream, kind, coq string, desc any, nontrivial bool) {
	r.rec.Case(stream, kind, coq, desc, nontrivial)
}
func (r *VC12Rec) Fail(monitor, sig string, input any, detail string) {
	c12Fail(r.rec, monitor, sig, input, detail)
}
func (r *VC12Rec) Err(k string)              { r.rec.Err(k) }
func (r *VC12Rec) Size(k string)             { r.rec.Size(k) }
func (r *VC12Rec) Extra(k string, v any)     { r.rec.Extra(k, v) }
func (r *VC12Rec) Intn(n int) int            { return r.rnd.Intn(n) }
func (r *VC12Rec) Chance(pct int) bool       { return r.rnd.Chance(pct) }
func (r *VC12Rec) Budget(q, th int) int      { return vBudget(q, th) }
func (r *VC12Rec) Password(id uint64) string { return c12Pw(id) }

var VC12RestStream func(t *testing.T, r *VC12Rec)

func TestVerifC12(t *testing.T) {
	rec := vNewRecorder(t, "C12", "C12.C12_Corr")
	defer rec.Finish()
	rnd := vNewRand(vSeed())
	ctx := base.TestCtx(t)
	bucket := base.GetTestBucket(t)
	defer bucket.Close(ctx)
	rawStore := bucket.GetSingleDataStore()
	var ds base.DataStore = &c12CbsStore{DataStore: rawStore}
	opts := DefaultAuthenticatorOptions(ctx)
	opts.BcryptCost = bcrypt.MinCost // as the repository's tests do (NewTestAuthenticator)
	a := NewAuthenticator(ds, nil, opts)
	savedCache := cachedHashes
	defer func() { cachedHashes = savedCache }()
	const bigCap = 25000

	// ---------- (a) corpus: one history per clause of the property ----------
	corpus := map[string][]c12Op{
		"disabled-user-cookie":    {cU(1, 1), cS(1, 0, 1000, false), aC(0), sD(1, true), aP(1, 1), aC(0), gS(0), sD(1, false), aC(0)},
		"disabled-user-onetime":   {cU(1, 1), cS(1, 0, 1000, true), sD(1, true), aO(0), aO(0), sD(1, false), gS(0)},
		"disabled-create-session": {cU(1, 1), sD(1, true), cS(1, 0, 1000, false), aC(0), sD(1, false), cS(1, 0, 1000, false), aC(0)},
		"password-change":         {cU(1, 1), cS(1, 0, 1000, false), aC(0), aP(1, 1), sP(1, 5), aC(0), gS(0), aO(0), aP(1, 1), aP(1, 5), sP(1, 1), aC(0), aP(1, 1)},
		"invalidate-sessions":     {cU(1, 1), cS(1, 0, 1000, false), cS(1, 1, 1000, true), inv(1), aC(0), aO(1), aP(1, 1), cS(1, 2, 1000, false), aC(2)},
		"delete-recreate-user":    {cU(1, 1), cS(1, 0, 1000, false), dU(1), aC(0), aP(1, 1), cU(1, 1), aC(0), gS(0), aP(1, 1), cS(1, 1, 1000, false), aC(1)},
		"delete-session":          {cU(1, 1), cS(1, 0, 1000, false), aC(0), dS(0), aC(0), gS(0), aO(0), dS(0)},
		"expiry":                  {cU(1, 1), cS(1, 0, 1000, false), adv(600), aC(0), adv(600), aC(0), adv(1000), aC(0), gS(0), dS(0)},
		"expiry-no-refresh":       {cU(1, 1), cS(1, 0, 1000, false), adv(70), aC(0), adv(900), aC(0), adv(70), aC(0), gS(0)},
		"one-time-cookie":         {cU(1, 1), cS(1, 0, 1000, true), gS(0), aC(0), aC(0), gS(0), dS(0)},
		"one-time-token":          {cU(1, 1), cS(1, 0, 1000, true), aO(0), aO(0), aC(0), cS(1, 1, 1000, false), aO(1), aO(1), aC(1)},
		"one-time-aged":           {cU(1, 1), cS(1, 0, 1000, true), adv(600), aC(0), aC(0)},
		"one-time-stale":          {cU(1, 1), cS(1, 0, 1000, true), sP(1, 5), aC(0), aO(0), gS(0), dS(0)},
		"empty-password":          {cU(1, 0), aP(1, 0), aP(1, 1), sP(1, 1), aP(1, 0), aP(1, 1), sP(1, 0), aP(1, 0), aP(1, 1), cU(2, 1), aP(2, 0)},
		"odd-passwords":           {cU(1, 2), aP(1, 2), aP(1, 1), cU(2, 3), aP(2, 3), aP(2, 1003), aP(2, 2003), aP(2, 1004), aP(2, 4), sP(2, 1003), aP(2, 3), cU(3, 1004)},
		"bcrypt-nul-cycle":        {cU(1, 6), aP(1, 7), aP(1, 6), aP(1, 1), sP(1, 7), aP(1, 6), aP(1, 7), aP(1, 2), cU(2, 2), aP(2, 2), aP(2, 6)},
		"two-users-same-password": {cU(1, 1), cU(2, 5), aP(1, 1), aP(2, 1), aP(2, 5), aP(1, 5), sP(2, 1), aP(2, 1), aP(2, 5), sP(1, 5), aP(1, 1), aP(1, 5)},
		"cross-user-session":      {cU(1, 1), cU(2, 1), cS(1, 0, 1000, false), cS(2, 1, 1000, false), dU(1), aC(0), aC(1), sP(2, 1), aC(1)},
		"unknown":                 {aP(1, 1), aC(0), aO(0), gS(0), dS(0), sP(1, 1), sD(1, true), inv(1), dU(1), cS(1, 0, 1000, false), cU(1, 1), cU(1, 5), cS(1, 0, 0, false), aP(1, 5), aP(1, 1)},
		// re-hashing at login after the bcrypt cost changed 4 -> 5 (auth.go rehashPassword), CAS retries forced
		"rehash-simple":             {cU(1, 1), cS(1, 0, 1000, false), aC(0), lR(1, 1), aC(0), aP(1, 1), aP(1, 5), lR(1, 1), lR(1, 5), aP(1, 1)},
		"rehash-vs-password-change": {cU(1, 1), cS(1, 0, 1000, false), lR(1, 1, []c12Op{at5(sP(1, 5))}), aP(1, 1), aP(1, 5), aC(0), lR(1, 5), lR(1, 1)},
		"rehash-vs-disable":         {cU(1, 1), lR(1, 1, []c12Op{sD(1, true)}), aP(1, 1), sD(1, false), aP(1, 1), aP(1, 5)},
		"rehash-vs-delete":          {cU(1, 1), lR(1, 1, []c12Op{dU(1)}), aP(1, 1), at5(cU(1, 5)), aP(1, 1), aP(1, 5)},
		"rehash-vs-recreate":        {cU(1, 1), lR(1, 1, []c12Op{dU(1), at5(cU(1, 5))}), aP(1, 1), aP(1, 5), lR(1, 5)},
		"rehash-two-retries":        {cU(1, 1), cS(1, 0, 1000, false), lR(1, 1, []c12Op{sD(1, true)}, []c12Op{sD(1, false), at5(sP(1, 5))}), aP(1, 1), aP(1, 5), aC(0)},
		"rehash-retry-then-write":   {cU(1, 1), lR(1, 1, []c12Op{inv(1)}, []c12Op{cS(1, 0, 1000, false)}), aC(0), aP(1, 1), aP(1, 5)},
		"rehash-nested-logins":      {cU(1, 1), lR(1, 1, []c12Op{lR(1, 1)}), aP(1, 1), lR(1, 1), aP(1, 5)},
		"rehash-nonplain":           {cU(1, 6), lR(1, 7), aP(1, 6), aP(1, 7), aP(1, 1), cU(2, 3), lR(2, 1003), aP(2, 3), lR(2, 3), aP(2, 3), cU(3, 0), lR(3, 0), aP(3, 0)},
		"refresh-then-stale":        {cU(1, 1), cS(1, 0, 1000, false), adv(450), sP(1, 5), aC(0), adv(600), aC(0)},
		// users WITHOUT a password hash (allow_empty_password=true): every incarnation / credential epoch has its own,
		// non-empty session UUID
		"passwordless-delete-recreate":    {cU(1, 0), cS(1, 0, 1000, false), aC(0), dU(1), aC(0), cU(1, 0), aC(0), gS(0), aO(0), aP(1, 0), cS(1, 1, 1000, false), aC(1), aC(0)},
		"passwordless-set-empty-password": {cU(1, 0), cS(1, 0, 1000, false), cS(1, 1, 1000, true), sP(1, 0), aC(0), aO(1), aP(1, 0), cS(1, 2, 1000, false), aC(2), sP(1, 1), aC(2), aP(1, 0), sP(1, 0), aP(1, 0), aP(1, 1), cS(1, 0, 1000, false), sP(1, 0), aC(0)},
		"passwordless-disable-invalidate": {cU(1, 0), cS(1, 0, 1000, false), sD(1, true), aC(0), aP(1, 0), sD(1, false), aC(0), inv(1), aC(0), dU(1), cU(1, 1), aC(0), dU(1), cU(1, 0), aC(0), gS(0)},
		"passwordless-two-users":          {cU(1, 0), cU(2, 0), cS(1, 0, 1000, false), cS(2, 1, 1000, true), dU(1), dU(2), cU(2, 0), cU(1, 0), aC(0), aO(1), aP(1, 0), aP(2, 1)},
		"passwordless-onetime-recreate":   {cU(1, 0), cS(1, 0, 1000, true), dU(1), cU(1, 0), aO(0), aC(0), cS(1, 1, 1000, true), aO(1), aO(1)},
		"passwordless-rehash":             {cU(1, 0), cS(1, 0, 1000, false), lR(1, 0), aC(0), sP(1, 1), lR(1, 1, []c12Op{sP(1, 0)}), aC(0), aP(1, 0), aP(1, 1)},
	}
	var names []string
	for k := range corpus {
		names = append(names, k)
	}
	sort.Strings(names)
	for _, k := range names {
		c12Run(t, rec, a, "corpus", "history:"+k, bigCap, corpus[k])
	}
	// the same with a one-slot cache (every insertion evicts)
	for _, k := range []string{"password-change", "two-users-same-password", "odd-passwords", "empty-password", "bcrypt-nul-cycle", "rehash-simple", "rehash-vs-password-change", "rehash-nonplain"} {
		c12Run(t, rec, a, "corpus", "history-cache1:"+k, 1, corpus[k])
	}

	// Two bcrypt costs in use AT ONCE: the password change that wins the CAS race is hashed with cost 4, the re-hashing
	// login wants cost 5.  The callback before its repair re-checked only the cost of the reloaded document and wrote
	// the old password back (C12_Refuted.rehash_mixed_cost_reinstates_old_password_refuted; monitor signature
	// stale-password-reinstated-by-rehash-mixed-cost); the repaired callback compares the password and cancels.
	mixedCorpus := map[string][]c12Op{
		"rehash-mixed-costs":             {cU(1, 1), lR(1, 1, []c12Op{sP(1, 5)}), aP(1, 1), aP(1, 5)},
		"rehash-mixed-costs-same-pw":     {cU(1, 1), cS(1, 0, 1000, false), lR(1, 1, []c12Op{sP(1, 1)}), aP(1, 1), aP(1, 5), aC(0), lR(1, 1)},
		"rehash-mixed-costs-two-retries": {cU(1, 1), lR(1, 1, []c12Op{sP(1, 1)}, []c12Op{sP(1, 5)}), aP(1, 1), aP(1, 5), lR(1, 5), aP(1, 5)},
		"rehash-mixed-costs-recreate":    {cU(1, 1), lR(1, 1, []c12Op{dU(1), cU(1, 5)}), aP(1, 1), aP(1, 5)},
		"rehash-mixed-costs-nonplain":    {cU(1, 6), lR(1, 7, []c12Op{sP(1, 6)}, []c12Op{sP(1, 7)}, []c12Op{sP(1, 1)}), aP(1, 6), aP(1, 1)},
	}
	for _, k := range []string{"rehash-mixed-costs", "rehash-mixed-costs-same-pw", "rehash-mixed-costs-two-retries", "rehash-mixed-costs-recreate", "rehash-mixed-costs-nonplain"} {
		c12Run(t, rec, a, "corpus", "history:"+k, bigCap, mixedCorpus[k])
		c12Run(t, rec, a, "corpus", "history-cache1:"+k, 1, mixedCorpus[k])
	}

	// ---------- (a2) re-hash: every pair of interleavings at the first two CAS Save attempts ----------
	interAlpha := [][]c12Op{nil, {at5(sP(1, 5))}, {at5(sP(1, 1))}, {sD(1, true)}, {inv(1)}, {dU(1)}, {dU(1), at5(cU(1, 5))}, {cS(1, 1, 1000, false)}, {aP(1, 1)},
		{sP(1, 5)}, {sP(1, 1)}} // the last two: a node still hashing with the old cost (two costs in use at once)
	nRe, nRetried := 0, 0
	for _, i1 := range interAlpha {
		for _, i2 := range interAlpha {
			ops := []c12Op{cU(1, 1), cS(1, 0, 1000, false), lR(1, 1, i1, i2), aP(1, 1), aP(1, 5), aC(0), aC(1), sD(1, false), lR(1, 1), aP(1, 1), aP(1, 5)}
			w := c12Run(t, rec, a, "rehash-exhaustive", "rehash-interleavings", bigCap, ops)
			nRe++
			if w.retried {
				nRetried++
			}
		}
	}
	rec.Extra("rehash_exhaustive_scope", fmt.Sprintf("login at cost 5 of a cost-4 user x all pairs of %d interleavings before the 1st and 2nd CAS Save attempt: %d histories, %d with more than one attempt", len(interAlpha), nRe, nRetried))

	// ---------- (b) bounded-exhaustive: every sequence over the alphabet, between a fixed prefix and a probe suffix ----------
	alphabet := []c12Op{sP(1, 5), sD(1, true), sD(1, false), inv(1), dU(1), cU(1, 1), cS(1, 1, 1000, false), cS(1, 1, 1000, true),
		dS(0), adv(150), adv(900), aP(1, 1), aC(0), aO(0), cU(1, 0), sP(1, 0)}
	probes := []c12Op{aP(1, 1), aP(1, 5), aP(1, 0), gS(0), aC(0), aC(1), aC(0)}
	prefixes := [][]c12Op{{cU(1, 1), cS(1, 0, 1000, false)}, {cU(1, 1), cS(1, 0, 1000, true)}, {cU(1, 0), cS(1, 0, 1000, false)}}
	maxLen := 2
	if vThorough() {
		maxLen = 3
	}
	var enum func(cur []c12Op, depth int, f func([]c12Op))
	enum = func(cur []c12Op, depth int, f func([]c12Op)) {
		f(cur)
		if depth == 0 {
			return
		}
		for _, o := range alphabet {
			enum(append(append([]c12Op{}, cur...), o), depth-1, f)
		}
	}
	nEx := 0
	for _, pre := range prefixes {
		enum(nil, maxLen, func(mid []c12Op) {
			ops := append(append(append([]c12Op{}, pre...), mid...), probes...)
			c12Run(t, rec, a, "exhaustive", fmt.Sprintf("exhaustive-len%d", len(mid)), bigCap, ops)
			nEx++
		})
	}
	rec.Extra("exhaustive", true)
	rec.Extra("exhaustive_scope", fmt.Sprintf("3 prefixes (regular / one-time first session / passwordless user) x all sequences of length <= %d over %d operations (1 user, 3 passwords incl. the empty one, 2 session slots) + 7 probes: %d histories", maxLen, len(alphabet), nEx))

	// ---------- (c) random histories ----------
	passwordless := false // this history is mostly about users without a password (allow_empty_password)
	pickPw := func(adversarial bool) uint64 {
		if passwordless && rnd.Chance(65) {
			return 0
		}
		if adversarial && rnd.Chance(35) {
			return c12AllPw[rnd.Intn(len(c12AllPw))]
		}
		return []uint64{1, 5, 0, 1, 5, 3}[rnd.Intn(6)]
	}
	ttls := []uint64{1000, 1000, 5000}
	dts := []uint64{70, 130, 450, 1100}
	gen := func(adversarial bool) []c12Op {
		passwordless = rnd.Chance(25)
		n := 6 + rnd.Intn(10)
		nu := uint64(2)
		if adversarial {
			nu = 3
		}
		var ops []c12Op
		if !adversarial {
			ops = append(ops, cU(1, pickPw(false)), cS(1, 0, 1000, rnd.Chance(30)))
		}
		// until the first re-hashing login the nodes hash with cost 4 (rarely 5), from then on mostly with cost 5 --
		// but a node may still hash with the old cost (two costs in use at once)
		changed := false
		cost := func(o c12Op) c12Op {
			if (changed && rnd.Chance(75)) || (!changed && rnd.Chance(15)) {
				return at5(o)
			}
			return o
		}
		small := func() []c12Op { // what is scheduled between a login's read and one of its Save attempts
			var l []c12Op
			for k := rnd.Intn(3); k > 0; k-- {
				u := 1 + uint64(rnd.Intn(int(nu)))
				switch rnd.Intn(7) {
				case 0:
					l = append(l, cost(sP(u, pickPw(adversarial))))
				case 1:
					l = append(l, sD(u, rnd.Chance(50)))
				case 2:
					l = append(l, dU(u))
				case 3:
					l = append(l, cost(cU(u, pickPw(adversarial))))
				case 4:
					l = append(l, inv(u))
				case 5:
					l = append(l, aP(u, pickPw(adversarial)))
				default:
					l = append(l, cS(u, rnd.Intn(3), 1000, rnd.Chance(30)))
				}
			}
			return l
		}
		for len(ops) < n {
			u := 1 + uint64(rnd.Intn(int(nu)))
			slot := rnd.Intn(3)
			if adversarial && rnd.Chance(10) {
				slot = 3 // never assigned in the mostly-valid stream; rarely in this one
			}
			var o c12Op
			r := rnd.Intn(100)
			switch {
			case r < 10:
				o = cost(cU(u, pickPw(adversarial)))
			case r < 18:
				o = cost(sP(u, pickPw(adversarial)))
			case r < 26:
				o = sD(u, rnd.Chance(60))
			case r < 30:
				o = inv(u)
			case r < 35:
				o = dU(u)
			case r < 47:
				ttl := ttls[rnd.Intn(len(ttls))]
				if adversarial && rnd.Chance(15) {
					ttl = 0
				}
				o = cS(u, slot, ttl, rnd.Chance(35))
			case r < 52:
				o = dS(slot)
			case r < 62:
				o = adv(dts[rnd.Intn(len(dts))])
			case r < 68:
				o = aP(u, pickPw(adversarial))
			case r < 76:
				changed = true
				switch rnd.Intn(3) {
				case 0:
					o = lR(u, pickPw(adversarial))
				case 1:
					o = lR(u, pickPw(adversarial), small())
				default:
					o = lR(u, pickPw(adversarial), small(), small())
				}
			case r < 90:
				o = aC(slot)
			case r < 95:
				o = aO(slot)
			default:
				o = gS(slot)
			}
			ops = append(ops, o)
		}
		return ops
	}
	nRand := vBudget(350, 4000)
	for i := 0; i < nRand; i++ {
		c12Run(t, rec, a, "random-valid", "random", bigCap, gen(false))
	}
	for i := 0; i < nRand/2; i++ {
		capN := bigCap
		if rnd.Chance(60) {
			capN = 1 + rnd.Intn(2)
		}
		c12Run(t, rec, a, "random-adversarial", "random-adversarial", capN, gen(true))
	}

	// ---------- (c') REST histories through rest.NewRestTester (verif_c12_rest_test.go) ----------
	cachedHashes = NewRandReplKeyCache(bigCap)
	c12SessionExpiryStream(t, rec, rnd, a, rawStore)
	if VC12RestStream != nil {
		VC12RestStream(t, &VC12Rec{rec: rec, rnd: rnd})
	} else {
		c12Fail(rec, "harness", "rest-stream-not-linked", nil, "verif_c12_rest_test.go (package auth_test) is not part of the test binary")
	}

	// ---------- (d) one-time sessions under concurrency (monitor only) ----------
	present := func(au *Authenticator, sid string, cookie bool) bool {
		if cookie {
			req, _ := http.NewRequest(http.MethodGet, "http://localhost/db/", nil)
			req.AddCookie(&http.Cookie{Name: au.SessionCookieName, Value: sid})
			usr, err := au.AuthenticateCookie(req, httptest.NewRecorder())
			return err == nil && usr != nil
		}
		usr, err := au.AuthenticateOneTimeSession(ctx, sid)
		return err == nil && usr != nil
	}
	cachedHashes = NewRandReplKeyCache(bigCap)
	otUser, err := a.NewUser("c12onetime", "letmein", nil)
	if err != nil || a.Save(otUser) != nil {
		t.Fatalf("cannot create the one-time test user: %v", err)
	}
	// (d1) forced schedule: A reads the session document, B presents completely, A continues.
	// Judged on the store with Couchbase delete semantics; the same schedule on plain rosmar is only observed
	// (rec.Extra rosmar_delete_quirk_observed: a second Delete of a tombstoned key succeeds there, see c12CbsStore).
	rosmarTwice := 0
	for _, plainRosmar := range []bool{false, true} {
		store := ds
		if plainRosmar {
			store = rawStore
		}
		bAuth := NewAuthenticator(store, nil, opts)
		for _, aged := range []bool{false, true} {
			for _, aCookie := range []bool{true, false} {
				for _, bCookie := range []bool{true, false} {
					sess, err := bAuth.CreateSession(ctx, otUser, 1000*time.Second, true)
					if err != nil {
						t.Fatalf("CreateSession: %v", err)
					}
					key := bAuth.DocIDForSession(sess.ID)
					if aged { // 600 of 1000 seconds elapsed: a regular session would be refreshed now
						var doc LoginSession
						_, _ = store.Get(ctx, key, &doc)
						doc.Expiration = doc.Expiration.Add(-600 * time.Second)
						_ = store.Set(ctx, key, 400, nil, doc)
					}
					bOK := false
					hs := &c12HookStore{DataStore: store, match: key}
					hs.after = func() { bOK = present(bAuth, sess.ID, bCookie) }
					aAuth := NewAuthenticator(hs, nil, opts)
					aOK := present(aAuth, sess.ID, aCookie)
					n := 0
					for _, b := range []bool{aOK, bOK} {
						if b {
							n++
						}
					}
					call := map[bool]string{true: "AuthenticateCookie", false: "AuthenticateOneTimeSession"}
					in := map[string]any{"schedule": "A reads the session document; B presents completely; A continues", "A": call[aCookie], "B": call[bCookie],
						"session_aged_600_of_1000s": aged, "store": map[bool]string{false: "rosmar + Couchbase delete semantics", true: "plain rosmar"}[plainRosmar]}
					rec.Count("concurrent", "one-time-forced-schedule", fmt.Sprintf("%v", in), true)
					if plainRosmar {
						// the in-memory test double, not sync_gateway against Couchbase Server: observed, not judged
						if n > 1 {
							rosmarTwice++
						}
						continue
					}
					if n > 1 {
						c12Fail(rec, "one_time_at_most_once", "one-time-session-authenticated-twice", in, "both presentations of one one-time session authenticated")
					}
					if n == 0 {
						c12Fail(rec, "one_time_at_most_once", "one-time-session-lost", in, "neither presentation authenticated")
					}
					if present(bAuth, sess.ID, true) {
						c12Fail(rec, "one_time_at_most_once", "one-time-session-reused", in, "a third presentation after the race authenticated")
					}
				}
			}
		}
	}
	rec.Extra("rosmar_delete_quirk_observed", rosmarTwice)
	// (d2) free-running goroutines
	rounds := vBudget(12, 100)
	for r := 0; r < rounds; r++ {
		sess, err := a.CreateSession(ctx, otUser, 1000*time.Second, true)
		if err != nil {
			t.Fatalf("CreateSession: %v", err)
		}
		var okCount int32
		var wg sync.WaitGroup
		start := make(chan struct{})
		for g := 0; g < 16; g++ {
			wg.Add(1)
			go func(g int) {
				defer wg.Done()
				<-start
				if present(a, sess.ID, g%2 == 0) {
					atomic.AddInt32(&okCount, 1)
				}
			}(g)
		}
		close(start)
		wg.Wait()
		rec.Count("concurrent", "one-time-16-goroutines", fmt.Sprintf("%d|%d", vSeed(), r), true)
		if okCount > 1 {
			c12Fail(rec, "one_time_at_most_once", "one-time-session-authenticated-twice", map[string]any{"goroutines": 16, "round": r, "successes": okCount}, "several concurrent presentations of one one-time session authenticated")
		}
	}

	// ---------- (e) verified-password cache against the full check, arbitrary byte strings (monitor only) ----------
	randPw := func() []byte {
		n := []int{0, 1, 2, 7, 8, 31, 71, 72, 72, 73, 100}[rnd.Intn(11)]
		b := make([]byte, n)
		for i := range b {
			switch rnd.Intn(8) {
			case 0:
				b[i] = 0
			case 1:
				b[i] = 0xff
			default:
				b[i] = byte(rnd.U64())
			}
		}
		return b
	}
	cachedHashes = NewRandReplKeyCache(4)
	cu, err := a.NewUser("c12cache", "", nil)
	if err != nil || a.Save(cu) != nil {
		t.Fatalf("cannot create the cache test user: %v", err)
	}
	var cur []byte
	truncSeen := 0
	nCache := vBudget(60, 600)
	var tried [][]byte
	for i := 0; i < nCache; i++ {
		if i%3 == 0 {
			p := randPw()
			u2, _ := a.GetUser("c12cache")
			if err := u2.SetPassword(string(p)); err == nil {
				if a.Save(u2) == nil {
					cur = p
				}
			} else if len(p) <= 72 {
				c12Fail(rec, "harness", "unexpected-error-SetPassword", map[string]any{"password_bytes": p}, err.Error())
			}
		}
		var q []byte
		switch rnd.Intn(6) {
		case 0, 1:
			q = append([]byte{}, cur...)
		case 2:
			q = append(append([]byte{}, cur...), byte('x'))
		case 3:
			if len(cur) > 0 {
				q = append([]byte{}, cur[:len(cur)-1]...)
			}
		case 4:
			if len(tried) > 0 {
				q = tried[rnd.Intn(len(tried))] // an earlier (possibly once valid) password
			}
		default:
			q = randPw()
		}
		tried = append(tried, q)
		warmU, _ := a.AuthenticateUser("c12cache", string(q))
		warm := cachedHashes
		cachedHashes = NewRandReplKeyCache(4) // cold: the full check decides
		coldU, _ := a.AuthenticateUser("c12cache", string(q))
		cachedHashes = warm
		in := map[string]any{"current_password_bytes": cur, "attempt_bytes": q}
		rec.Count("cache", "warm-vs-cold", fmt.Sprintf("%x|%x", cur, q), len(q) > 0 && !bytes.Equal(q, cur))
		if (warmU != nil) != (coldU != nil) {
			c12Fail(rec, "cache_never_widens", "cache-fast-path-disagrees", in, fmt.Sprintf("warm cache accepted=%v, cold cache (full bcrypt check) accepted=%v", warmU != nil, coldU != nil))
		}
		if warmU != nil {
			switch v := c12WrongPasswordVerdict(cur, q); v {
			case "":
			case "observed":
				truncSeen++ // bcrypt identifies the two strings: outside the bcrypt hypothesis (props/C12.json assumptions)
			default:
				c12Fail(rec, "password_auth_sound", "wrong-password-authenticates", in, v)
			}
		}
		if warmU == nil && bytes.Equal(q, cur) {
			c12Fail(rec, "harness", "current-password-rejected", in, "the current password was rejected")
		}
	}
	rec.Extra("bcrypt_equivalent_nonplain_accepted", truncSeen)

	// ---------- (f0) real time, real store TTL: the refresh path of AuthenticateCookie (monitor only) ----------
	// Sessions with a TTL of a few seconds: A is presented after more than 10% of its TTL (refreshed: Set-Cookie), B after
	// less (not refreshed), C never, D is one-time.  After every write the document must carry a bucket expiry equal to
	// its Expiration; after the (extended) TTL none of them may authenticate -- the store, not the code, expires them.
	{
		type rtSess struct {
			name          string
			id            string
			ttl           time.Duration
			onetime       bool
			presentAt     time.Duration // 0 = never presented before the end
			expectRefresh bool
			refreshedAt   time.Time
			created       time.Time
		}
		rts := []*rtSess{
			{name: "A-refreshed", ttl: 3 * time.Second, presentAt: 1200 * time.Millisecond, expectRefresh: true},
			{name: "B-not-refreshed", ttl: 4 * time.Second, presentAt: 100 * time.Millisecond},
			{name: "C-never-presented", ttl: 2 * time.Second},
			{name: "D-one-time", ttl: 3 * time.Second, onetime: true, presentAt: 1200 * time.Millisecond},
			{name: "E-refreshed-twice", ttl: 2 * time.Second, presentAt: 600 * time.Millisecond, expectRefresh: true},
		}
		checkDoc := func(r *rtSess, when string) {
			key := a.DocIDForSession(r.id)
			var doc LoginSession
			if _, err := ds.Get(ctx, key, &doc); err != nil {
				return
			}
			exp, err := ds.GetExpiry(ctx, key)
			in := map[string]any{"session": r.name, "ttl_ms": r.ttl.Milliseconds(), "when": when}
			if err == nil && exp == 0 {
				c12Fail(rec, "session_documents_carry_expiry", "session-document-without-expiry", in, "the stored session document has no bucket expiry "+when+": it will never expire")
			} else if err == nil {
				if d := int64(exp) - doc.Expiration.Unix(); d < -2 || d > 2 {
					c12Fail(rec, "session_documents_carry_expiry", "session-document-expiry-differs-from-expiration", in, fmt.Sprintf("bucket expiry is %ds away from the Expiration field %s", d, when))
				}
			}
		}
		cookieAt := func(r *rtSess) (bool, bool) {
			req, _ := http.NewRequest(http.MethodGet, "http://localhost/db/", nil)
			req.AddCookie(&http.Cookie{Name: a.SessionCookieName, Value: r.id})
			resp := httptest.NewRecorder()
			usr, err := a.AuthenticateCookie(req, resp)
			return err == nil && usr != nil, resp.Header().Get("Set-Cookie") != ""
		}
		start := time.Now()
		for _, r := range rts {
			sess, err := a.CreateSession(ctx, otUser, r.ttl, r.onetime)
			if err != nil {
				t.Fatalf("CreateSession: %v", err)
			}
			r.id, r.created = sess.ID, time.Now()
			checkDoc(r, "after CreateSession")
		}
		// presentations in time order
		for _, at := range []time.Duration{100 * time.Millisecond, 600 * time.Millisecond, 1200 * time.Millisecond} {
			if d := at - time.Since(start); d > 0 {
				time.Sleep(d)
			}
			for _, r := range rts {
				if r.presentAt != at {
					continue
				}
				ok, refreshed := cookieAt(r)
				in := map[string]any{"session": r.name, "ttl_ms": r.ttl.Milliseconds(), "presented_after_ms": time.Since(r.created).Milliseconds()}
				rec.Count("ttl", "real-time-refresh", r.name, true)
				if !ok {
					c12Fail(rec, "harness", "live-session-rejected", in, "a live session was refused")
				}
				if refreshed && r.onetime {
					c12Fail(rec, "one_time_never_rewritten", "one-time-session-refreshed", in, "a one-time session was refreshed")
				}
				if refreshed != r.expectRefresh && !r.onetime {
					rec.Err(fmt.Sprintf("real-time-refresh-unexpected-%v", refreshed)) // timing on a loaded machine: recorded, not judged
				}
				if refreshed {
					r.refreshedAt = time.Now()
				}
				checkDoc(r, "after the presentation")
			}
		}
		// E once more, shortly before its extended expiry: refreshed a second time
		if e := rts[4]; !e.refreshedAt.IsZero() {
			if d := time.Until(e.refreshedAt.Add(1000 * time.Millisecond)); d > 0 {
				time.Sleep(d)
			}
			if ok, refreshed := cookieAt(e); ok && refreshed {
				e.refreshedAt = time.Now()
			}
			checkDoc(e, "after the second presentation")
		}
		// wait until every session is past its (extended) expiry, with a margin for the store's whole-second expiry
		var latest time.Time
		for _, r := range rts {
			end := r.created.Add(r.ttl)
			if !r.refreshedAt.IsZero() {
				end = r.refreshedAt.Add(r.ttl)
			}
			if end.After(latest) {
				latest = end
			}
		}
		if d := time.Until(latest.Add(1600 * time.Millisecond)); d > 0 {
			time.Sleep(d)
		}
		for _, r := range rts {
			ok, _ := cookieAt(r)
			rec.Count("ttl", "real-time-expiry", r.name, true)
			if ok {
				c12Fail(rec, "session_auth_sound", "expired-session-authenticates",
					map[string]any{"session": r.name, "ttl_ms": r.ttl.Milliseconds(), "refreshed": !r.refreshedAt.IsZero(), "age_ms": time.Since(r.created).Milliseconds()},
					"a session authenticated after its (extended) expiration: the store did not remove its document")
			}
		}
	}

	// ---------- (f) real TTL expiry (thorough tier only: needs to wait for the store) ----------
	if vThorough() {
		sess, err := a.CreateSession(ctx, otUser, 1*time.Second, false)
		if err == nil {
			time.Sleep(3500 * time.Millisecond)
			if present(a, sess.ID, true) {
				c12Fail(rec, "session_auth_sound", "expired-session-authenticates", map[string]any{"ttl_s": 1, "waited_ms": 3500}, "a session authenticated 2.5 s after its TTL")
			}
			rec.Count("ttl", "real-ttl-expiry", "1s", true)
		}
	}
}
