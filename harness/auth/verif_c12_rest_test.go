//go:build verif

// C12, REST stream: rest/handler.go checkPublicAuth / setUserForPublicAuth and rest/session_api.go, driven through
// rest.NewRestTester.  Package rest imports package auth, so this file is in the EXTERNAL test package of the auth
// directory (same test binary, same `go test ./auth`); it registers itself with TestVerifC12 (verif_c12_test.go)
// through auth.VC12RestStream and reports through the recorder that test owns.
//
// A case is one REST history (admin requests that create / change / disable / delete users and the guest, create and
// delete sessions; logins, logouts, and requests with Basic / cookie / Bearer / no credentials on a handler that
// requires authentication (GET /ks/_changes) and on a public one (GET /db/_session)) with the response to every
// request; it is emitted as a Coq term C12_Corr.CRest and re-run on the model Rest.v.  Independently a Go-side monitor
// keeps the specification's ghost state and judges every request that was served.
package auth_test

import (
	"encoding/base64"
	"encoding/json"
	"fmt"
	"net/http"
	"strings"
	"testing"

	"github.com/couchbase/sync_gateway/auth"
	"github.com/couchbase/sync_gateway/rest"
)

func init() { auth.VC12RestStream = c12RestStream }

const (
	c12rPutUser = iota
	c12rSetDisabled
	c12rDeleteUser
	c12rSetGuest
	c12rAdminSession
	c12rLogin
	c12rDeleteSession
	c12rDeleteUserSession
	c12rDeleteAllSessions
	c12rLogout
	c12rRequest
)

var c12rKindName = []string{"RPutUser", "RSetDisabled", "RDeleteUser", "RSetGuest", "RAdminSession", "RLogin", "RDeleteSession",
	"RDeleteUserSession", "RDeleteAllSessions", "RLogout", "RRequest"}

// credentials: basic (user 0 = the empty user name), cookie slot (-1 none), bearer
type c12rCreds struct {
	basic  bool
	u, p   uint64
	slot   int
	bearer bool
}

type c12rOp struct {
	kind int
	u, p uint64
	slot int
	n    uint64
	flag bool // disabled value / guest enabled / one-time / public
	cr   c12rCreds
}

type c12rSpecUser struct {
	exists     bool
	inc, epoch int
	disabled   bool
	pw         uint64
}
type c12rSpecSess struct {
	user       uint64
	inc, epoch int
	gone       bool // deleted, or a one-time session that authenticated
	onetime    bool
}

type c12rWorld struct {
	t                  *testing.T
	r                  *auth.VC12Rec
	rt                 *rest.RestTester
	prefix             string
	sids               []string // sids[n] = real id of session number n; sids[0] was never issued
	slots              [4]uint64
	salt               uint64
	guest              bool
	su                 map[uint64]*c12rSpecUser
	ss                 map[uint64]*c12rSpecSess
	ops, outs, descs   []string
	accepted, rejected int
	dirty              bool // a principal document was (possibly) written since the change cache was last awaited
}

var c12rCaseNo int

func c12rNewWorld(t *testing.T, r *auth.VC12Rec, rt *rest.RestTester) *c12rWorld {
	c12rCaseNo++
	w := &c12rWorld{t: t, r: r, rt: rt, prefix: fmt.Sprintf("r%dx", c12rCaseNo), su: map[uint64]*c12rSpecUser{}, ss: map[uint64]*c12rSpecSess{}}
	w.sids = []string{fmt.Sprintf("neverissued%d", c12rCaseNo)}
	return w
}

func (w *c12rWorld) name(u uint64) string {
	if u == 0 {
		return ""
	}
	return fmt.Sprintf("%su%d", w.prefix, u)
}
func (w *c12rWorld) unname(n string) (uint64, bool) {
	var u uint64
	if !strings.HasPrefix(n, w.prefix+"u") {
		return 0, false
	}
	if _, err := fmt.Sscanf(n[len(w.prefix)+1:], "%d", &u); err != nil {
		return 0, false
	}
	return u, true
}
func (w *c12rWorld) specUser(u uint64) *c12rSpecUser {
	if w.su[u] == nil {
		w.su[u] = &c12rSpecUser{}
	}
	return w.su[u]
}
func (w *c12rWorld) emit(op, out, desc string) {
	w.ops = append(w.ops, op)
	w.outs = append(w.outs, out)
	w.descs = append(w.descs, desc+" => "+out)
}
func (w *c12rWorld) fail(sig, detail string) {
	w.r.Fail("rest_auth_sound", sig, map[string]any{"rest_history": append([]string{}, w.descs...)}, detail)
}

func c12rBool(b bool) string {
	if b {
		return "true"
	}
	return "false"
}

func (w *c12rWorld) credsCoq(cr c12rCreds) string {
	b, c := "None", "None"
	if cr.basic {
		b = fmt.Sprintf("(Some (%d, %d))", cr.u, cr.p)
	}
	if cr.slot >= 0 {
		c = fmt.Sprintf("(Some %d)", w.slots[cr.slot])
	}
	return fmt.Sprintf("(mkCreds %s %s %s)", b, c, c12rBool(cr.bearer))
}
func (w *c12rWorld) credsDesc(cr c12rCreds) string {
	var parts []string
	if cr.basic {
		parts = append(parts, fmt.Sprintf("Basic(u%d,pw%d)", cr.u, cr.p))
	}
	if cr.slot >= 0 {
		parts = append(parts, fmt.Sprintf("Cookie(s%d)", w.slots[cr.slot]))
	}
	if cr.bearer {
		parts = append(parts, "Bearer")
	}
	if len(parts) == 0 {
		return "no credentials"
	}
	return strings.Join(parts, "+")
}
func (w *c12rWorld) headers(cr c12rCreds) map[string]string {
	h := map[string]string{}
	if cr.basic {
		h["Authorization"] = "Basic " + base64.StdEncoding.EncodeToString([]byte(w.name(cr.u)+":"+w.r.Password(cr.p)))
	} else if cr.bearer {
		h["Authorization"] = "Bearer c12.not.a.token"
	}
	if cr.slot >= 0 {
		h["Cookie"] = auth.DefaultCookieName + "=" + w.sids[w.slots[cr.slot]]
	}
	return h
}

func (w *c12rWorld) admin(method, resource, body string) *rest.TestResponse {
	w.dirty = true
	return w.rt.SendAdminRequest(method, resource, body)
}

// RestTester.WaitForPendingChanges ends the test (require) when the change cache does not catch up within 30 s, which
// on a loaded machine would abort the whole check: wait through a TB that records the failure instead
type c12rQuietTB struct {
	testing.TB
	failed bool
}

type c12rAbort struct{}

func (q *c12rQuietTB) Errorf(string, ...any) { q.failed = true }
func (q *c12rQuietTB) Error(...any)          { q.failed = true }
func (q *c12rQuietTB) Fail()                 { q.failed = true }
func (q *c12rQuietTB) FailNow()              { q.failed = true; panic(c12rAbort{}) }
func (q *c12rQuietTB) Fatalf(string, ...any) { q.failed = true; panic(c12rAbort{}) }
func (q *c12rQuietTB) Fatal(...any)          { q.failed = true; panic(c12rAbort{}) }

func (w *c12rWorld) waitForChangeCache() (ok bool) {
	for attempt := 0; attempt < 3; attempt++ {
		q := &c12rQuietTB{TB: w.t}
		func() {
			defer func() {
				if r := recover(); r != nil {
					if _, mine := r.(c12rAbort); !mine {
						panic(r)
					}
				}
			}()
			w.rt.GetDatabase().WaitForPendingChanges(q)
		}()
		if !q.failed {
			return true
		}
	}
	return false
}

// the reason of a 401, as a term of Rest.reason
func c12rReason(resp *rest.TestResponse) (string, bool) {
	var body struct {
		Reason string `json:"reason"`
	}
	_ = json.Unmarshal(resp.Body.Bytes(), &body)
	switch body.Reason {
	case "Invalid login":
		return "InvalidLogin", true
	case "Login required":
		return "LoginRequired", true
	case "Session Invalid":
		return "SessionInvalid", true
	case "Session no longer valid for user":
		return "SessionStale", true
	}
	return body.Reason, false
}

// who a 200 response was served as: (user number, guest?, ok)
func (w *c12rWorld) whoServed(public bool, resp *rest.TestResponse) (uint64, bool, bool) {
	if public { // GET /db/_session
		var body struct {
			UserCtx struct {
				Name *string `json:"name"`
			} `json:"userCtx"`
		}
		if err := json.Unmarshal(resp.Body.Bytes(), &body); err != nil {
			return 0, false, false
		}
		if body.UserCtx.Name == nil {
			return 0, true, true
		}
		u, ok := w.unname(*body.UserCtx.Name)
		return u, false, ok
	}
	// GET /ks/_changes?since=0: the feed starts with the principal document of the requesting user
	var body struct {
		Results []struct {
			ID string `json:"id"`
		} `json:"results"`
	}
	if err := json.Unmarshal(resp.Body.Bytes(), &body); err != nil {
		return 0, false, false
	}
	for _, e := range body.Results {
		if strings.HasPrefix(e.ID, "_user/") {
			n := strings.TrimPrefix(e.ID, "_user/")
			if n == "GUEST" || n == "" {
				return 0, true, true
			}
			u, ok := w.unname(n)
			return u, false, ok
		}
	}
	return 0, true, true // no principal entry: the guest user without a stored document
}

// judge a request that checkPublicAuth let through, against the specification's ghost state
func (w *c12rWorld) judgeServed(desc string, public bool, cr c12rCreds, guest bool, who uint64) {
	w.accepted++
	basicUsable := cr.basic && cr.u != 0
	if guest {
		w.r.Err("rest-served-guest")
		switch {
		case basicUsable:
			w.fail("rest-guest-served-with-basic-credentials", desc+": served as the guest although Basic credentials were presented")
		case !public && cr.slot >= 0:
			w.fail("rest-guest-served-with-cookie", desc+": a handler that requires authentication ran as the guest although a session cookie was presented")
		case !public && !w.guest:
			w.fail("rest-guest-served-while-disabled", desc+": a handler that requires authentication ran as the guest although the guest user is disabled")
		}
		return
	}
	w.r.Err("rest-served-user")
	switch {
	case basicUsable:
		su := w.specUser(cr.u)
		switch {
		case who != cr.u:
			w.fail("rest-basic-auth-wrong-user", fmt.Sprintf("%s: served as u%d", desc, who))
		case !su.exists:
			w.fail("rest-basic-auth-unknown-user", desc+": served although the user does not exist")
		case su.disabled:
			w.fail("rest-basic-auth-disabled-user", desc+": served although the user is disabled")
		case su.pw != cr.p:
			w.fail("rest-basic-auth-wrong-password", fmt.Sprintf("%s: served although the user's password is pw%d", desc, su.pw))
		}
	case cr.slot >= 0:
		n := w.slots[cr.slot]
		s := w.ss[n]
		if s == nil {
			w.fail("rest-cookie-unknown-session", fmt.Sprintf("%s: served as u%d with a session id that was never issued", desc, who))
			return
		}
		su := w.specUser(s.user)
		switch {
		case who != s.user:
			w.fail("rest-cookie-wrong-user", fmt.Sprintf("%s: served as u%d, the session was issued for u%d", desc, who, s.user))
		case s.gone:
			w.fail("rest-cookie-dead-session", desc+": served although the session was deleted / is a one-time session that was used")
		case !su.exists || su.inc != s.inc:
			w.fail("rest-cookie-deleted-user", desc+": served although the session's user was deleted (and possibly recreated)")
		case su.epoch != s.epoch:
			w.fail("rest-cookie-stale-credential", desc+": served although the user's password changed / all sessions were deleted after the session was issued")
		case su.disabled:
			w.fail("rest-cookie-disabled-user", desc+": served although the session's user is disabled")
		}
		if s.onetime {
			s.gone = true
		}
	default:
		w.fail("rest-served-without-credentials", fmt.Sprintf("%s: served as u%d although neither usable Basic credentials nor a cookie were presented", desc, who))
	}
}

func (w *c12rWorld) apply(o c12rOp) {
	w.r.Size(c12rKindName[o.kind])
	switch o.kind {
	case c12rPutUser:
		w.salt++
		op := fmt.Sprintf("RPutUser %d %d %d", o.u, o.p, w.salt)
		body, _ := json.Marshal(map[string]any{"password": w.r.Password(o.p)})
		resp := w.admin(http.MethodPut, "/{{.db}}/_user/"+w.name(o.u), string(body))
		su := w.specUser(o.u)
		switch resp.Code {
		case http.StatusCreated:
			su.exists, su.disabled, su.pw = true, false, o.p
			su.inc++
			su.epoch++
		case http.StatusOK:
			su.pw = o.p
			su.epoch++
		}
		w.emit(op, fmt.Sprintf("RCode %d", resp.Code), fmt.Sprintf("admin PUT _user/u%d {password: pw%d}", o.u, o.p))
	case c12rSetDisabled:
		resp := w.admin(http.MethodPut, "/{{.db}}/_user/"+w.name(o.u), fmt.Sprintf(`{"disabled":%v}`, o.flag))
		if resp.Code == http.StatusOK {
			w.specUser(o.u).disabled = o.flag
		}
		w.emit(fmt.Sprintf("RSetDisabled %d %s", o.u, c12rBool(o.flag)), fmt.Sprintf("RCode %d", resp.Code), fmt.Sprintf("admin PUT _user/u%d {disabled: %v}", o.u, o.flag))
	case c12rDeleteUser:
		resp := w.admin(http.MethodDelete, "/{{.db}}/_user/"+w.name(o.u), "")
		if resp.Code == http.StatusOK {
			w.specUser(o.u).exists = false
		}
		w.emit(fmt.Sprintf("RDeleteUser %d", o.u), fmt.Sprintf("RCode %d", resp.Code), fmt.Sprintf("admin DELETE _user/u%d", o.u))
	case c12rSetGuest:
		resp := w.admin(http.MethodPut, "/{{.db}}/_user/GUEST", fmt.Sprintf(`{"disabled":%v}`, !o.flag))
		if resp.Code == http.StatusOK {
			w.guest = o.flag
		}
		w.emit("RSetGuest "+c12rBool(o.flag), fmt.Sprintf("RCode %d", resp.Code), fmt.Sprintf("admin PUT _user/GUEST {disabled: %v}", !o.flag))
	case c12rAdminSession:
		resp := w.admin(http.MethodPost, "/{{.db}}/_session", fmt.Sprintf(`{"name":%q,"ttl":%d}`, w.name(o.u), o.n))
		n := uint64(0)
		if resp.Code == http.StatusOK {
			var body struct {
				SessionID string `json:"session_id"`
			}
			_ = json.Unmarshal(resp.Body.Bytes(), &body)
			n = w.newSession(o.u, o.slot, body.SessionID, false)
		}
		w.emit(fmt.Sprintf("RAdminSession %d %d %d", o.u, n, o.n), fmt.Sprintf("RCode %d", resp.Code), fmt.Sprintf("admin POST _session {name: u%d, ttl: %d} -> s%d", o.u, o.n, n))
	case c12rLogin:
		res := "/{{.db}}/_session"
		if o.flag {
			res += "?one_time=true"
		}
		body, _ := json.Marshal(map[string]any{"name": w.name(o.u), "password": w.r.Password(o.p)})
		resp := w.rt.SendRequest(http.MethodPost, res, string(body))
		n := uint64(0)
		if resp.Code == http.StatusOK {
			sid := ""
			if o.flag {
				var b struct {
					ID string `json:"one_time_session_id"`
				}
				_ = json.Unmarshal(resp.Body.Bytes(), &b)
				sid = b.ID
			} else {
				for _, c := range resp.Result().Cookies() {
					if c.Name == auth.DefaultCookieName {
						sid = c.Value
					}
				}
			}
			n = w.newSession(o.u, o.slot, sid, o.flag)
			w.accepted++
			// the login itself is a password authentication: judge it
			su := w.specUser(o.u)
			if !su.exists || su.disabled || su.pw != o.p {
				w.fail("rest-login-unsound", fmt.Sprintf("POST _session {name: u%d, password: pw%d} created a session although the user is unknown / disabled / has another password", o.u, o.p))
			}
		} else {
			w.rejected++
		}
		w.emit(fmt.Sprintf("RLogin %d %d %d %s", o.u, o.p, n, c12rBool(o.flag)), fmt.Sprintf("RCode %d", resp.Code), fmt.Sprintf("POST _session {name: u%d, password: pw%d} one_time=%v -> s%d", o.u, o.p, o.flag, n))
	case c12rDeleteSession:
		n := w.slots[o.slot]
		if s := w.ss[n]; s != nil && s.gone {
			// plain rosmar lets a second Delete of a tombstoned key succeed (Couchbase Server answers not-found; see
			// verif_c12_test.go c12CbsStore): not sync_gateway's behaviour, not driven
			w.r.Err("rest-skip-second-delete")
			return
		}
		resp := w.admin(http.MethodDelete, "/{{.db}}/_session/"+w.sids[n], "")
		if resp.Code == http.StatusOK {
			if s := w.ss[n]; s != nil {
				s.gone = true
			}
		}
		w.emit(fmt.Sprintf("RDeleteSession %d", n), fmt.Sprintf("RCode %d", resp.Code), fmt.Sprintf("admin DELETE _session/s%d", n))
	case c12rDeleteUserSession:
		n := w.slots[o.slot]
		resp := w.admin(http.MethodDelete, "/{{.db}}/_user/"+w.name(o.u)+"/_session/"+w.sids[n], "")
		if resp.Code == http.StatusOK {
			if s := w.ss[n]; s != nil {
				s.gone = true
			}
		}
		w.emit(fmt.Sprintf("RDeleteUserSession %d %d", o.u, n), fmt.Sprintf("RCode %d", resp.Code), fmt.Sprintf("admin DELETE _user/u%d/_session/s%d", o.u, n))
	case c12rDeleteAllSessions:
		resp := w.admin(http.MethodDelete, "/{{.db}}/_user/"+w.name(o.u)+"/_session", "")
		if resp.Code == http.StatusOK && w.specUser(o.u).exists {
			w.specUser(o.u).epoch++
		}
		w.emit(fmt.Sprintf("RDeleteAllSessions %d", o.u), fmt.Sprintf("RCode %d", resp.Code), fmt.Sprintf("admin DELETE _user/u%d/_session", o.u))
	case c12rLogout:
		desc := "DELETE _session [" + w.credsDesc(o.cr) + "]"
		resp := w.rt.SendRequestWithHeaders(http.MethodDelete, "/{{.db}}/_session", "", w.headers(o.cr))
		out := fmt.Sprintf("RCode %d", resp.Code)
		switch resp.Code {
		case http.StatusUnauthorized:
			w.rejected++
			if r, ok := c12rReason(resp); ok {
				out = "RAuth (Denied " + r + ")"
			} else {
				w.fail("rest-unexpected-401-reason", desc+": "+r)
			}
		case http.StatusOK, http.StatusNotFound:
			// the handler ran: checkPublicAuth served the request (as whom is not visible here: judged by the model only)
			w.accepted++
			if o.cr.slot >= 0 {
				if s := w.ss[w.slots[o.cr.slot]]; s != nil {
					s.gone = true
				}
			}
		}
		w.emit("RLogout "+w.credsCoq(o.cr), out, desc)
	case c12rRequest:
		res, hname := "/{{.keyspace}}/_changes?since=0", "GET _changes (authentication required)"
		if o.flag {
			res, hname = "/{{.db}}/_session", "GET _session (public handler)"
		}
		desc := hname + " [" + w.credsDesc(o.cr) + "]"
		if !o.flag && w.dirty {
			// the _changes feed shows the principal document of the requesting user (which is how this harness sees
			// who the handler ran as) only once the change cache has caught up with the sequence of that document
			if !w.waitForChangeCache() {
				w.r.Err("rest-skip-change-cache-not-caught-up")
				return // not driven: the observation would not be reliable
			}
			w.dirty = false
		}
		resp := w.rt.SendRequestWithHeaders(http.MethodGet, res, "", w.headers(o.cr))
		out := fmt.Sprintf("RCode %d", resp.Code)
		switch resp.Code {
		case http.StatusOK:
			who, guest, ok := w.whoServed(o.flag, resp)
			switch {
			case !ok:
				w.fail("rest-served-as-foreign-user", desc+": served as a user this history does not know: "+resp.Body.String())
				out = "RAuth (Served (Some 999))"
			case guest:
				out = "RAuth (Served None)"
				w.judgeServed(desc, o.flag, o.cr, true, 0)
			default:
				out = fmt.Sprintf("RAuth (Served (Some %d))", who)
				w.judgeServed(desc, o.flag, o.cr, false, who)
			}
		case http.StatusUnauthorized:
			w.rejected++
			w.r.Err("rest-401")
			if r, ok := c12rReason(resp); ok {
				out = "RAuth (Denied " + r + ")"
			} else {
				w.fail("rest-unexpected-401-reason", desc+": "+r)
			}
		default:
			w.fail("rest-unexpected-status", fmt.Sprintf("%s: status %d %s", desc, resp.Code, resp.Body.String()))
		}
		w.emit(fmt.Sprintf("RRequest %s %s", c12rBool(o.flag), w.credsCoq(o.cr)), out, desc)
	}
}

func (w *c12rWorld) newSession(u uint64, slot int, sid string, onetime bool) uint64 {
	w.sids = append(w.sids, sid)
	n := uint64(len(w.sids) - 1)
	w.slots[slot] = n
	su := w.specUser(u)
	w.ss[n] = &c12rSpecSess{user: u, inc: su.inc, epoch: su.epoch, onetime: onetime}
	if sid == "" {
		w.fail("rest-session-id-missing", "a session was created but its id is neither in the Set-Cookie header nor in the body")
	}
	return n
}

const c12rCap = 25000

func c12rRun(t *testing.T, r *auth.VC12Rec, rt *rest.RestTester, stream, kind string, ops []c12rOp) {
	w := c12rNewWorld(t, r, rt)
	for _, o := range ops {
		w.apply(o)
	}
	coq := func(items []string) string { return "[" + strings.Join(items, "; ") + "]" }
	r.Case(stream, kind, fmt.Sprintf("CRest %d %s %s", c12rCap, coq(w.ops), coq(w.outs)),
		map[string]any{"rest_history": append([]string{}, w.descs...)}, w.accepted > 0 && w.rejected > 0)
}

// constructors
func rPut(u, p uint64) c12rOp      { return c12rOp{kind: c12rPutUser, u: u, p: p} }
func rDis(u uint64, b bool) c12rOp { return c12rOp{kind: c12rSetDisabled, u: u, flag: b} }
func rDelU(u uint64) c12rOp        { return c12rOp{kind: c12rDeleteUser, u: u} }
func rGuest(b bool) c12rOp         { return c12rOp{kind: c12rSetGuest, flag: b} }
func rAS(u uint64, slot int, ttl uint64) c12rOp {
	return c12rOp{kind: c12rAdminSession, u: u, slot: slot, n: ttl}
}
func rLogin(u, p uint64, slot int, one bool) c12rOp {
	return c12rOp{kind: c12rLogin, u: u, p: p, slot: slot, flag: one}
}
func rDelS(slot int) c12rOp            { return c12rOp{kind: c12rDeleteSession, slot: slot} }
func rDelUS(u uint64, slot int) c12rOp { return c12rOp{kind: c12rDeleteUserSession, u: u, slot: slot} }
func rDelAll(u uint64) c12rOp          { return c12rOp{kind: c12rDeleteAllSessions, u: u} }
func rLogout(cr c12rCreds) c12rOp      { return c12rOp{kind: c12rLogout, cr: cr} }
func rReq(public bool, cr c12rCreds) c12rOp {
	return c12rOp{kind: c12rRequest, flag: public, cr: cr}
}
func crNone() c12rCreds             { return c12rCreds{slot: -1} }
func crBasic(u, p uint64) c12rCreds { return c12rCreds{basic: true, u: u, p: p, slot: -1} }
func crCookie(slot int) c12rCreds   { return c12rCreds{slot: slot} }
func crBoth(u, p uint64, slot int) c12rCreds {
	return c12rCreds{basic: true, u: u, p: p, slot: slot}
}
func crBearer() c12rCreds { return c12rCreds{slot: -1, bearer: true} }

func c12RestStream(t *testing.T, r *auth.VC12Rec) {
	rt := rest.NewRestTester(t, &rest.RestTesterConfig{})
	defer rt.Close()
	_ = rt.GetDatabase() // creates the database

	// ---------- (a) corpus ----------
	both := func(cr c12rCreds) []c12rOp { return []c12rOp{rReq(false, cr), rReq(true, cr)} }
	cat := func(parts ...[]c12rOp) []c12rOp {
		var l []c12rOp
		for _, p := range parts {
			l = append(l, p...)
		}
		return l
	}
	one := func(o ...c12rOp) []c12rOp { return o }
	corpus := []struct {
		name string
		ops  []c12rOp
	}{
		{"guest-disabled-enabled", cat(one(rGuest(false)), both(crNone()), both(crBearer()), one(rGuest(true)), both(crNone()), both(crBearer()), both(crBasic(0, 1)), one(rGuest(false)), both(crBasic(0, 1)))},
		{"basic-auth", cat(one(rGuest(true), rPut(1, 1)), both(crBasic(1, 1)), both(crBasic(1, 5)), both(crBasic(1, 0)), both(crBasic(2, 1)), one(rPut(1, 5)), both(crBasic(1, 1)), both(crBasic(1, 5)))},
		{"disabled-user", cat(one(rGuest(true), rPut(1, 1), rLogin(1, 1, 0, false), rDis(1, true)), both(crBasic(1, 1)), both(crCookie(0)), one(rLogin(1, 1, 1, false), rAS(1, 2, 1000), rDis(1, false)), both(crBasic(1, 1)), both(crCookie(0)), one(rDis(2, true)))},
		{"cookie-auth", cat(one(rGuest(false), rPut(1, 1), rLogin(1, 1, 0, false), rLogin(1, 5, 1, false)), both(crCookie(0)), both(crCookie(1)), both(crCookie(3)), one(rAS(1, 2, 1000)), both(crCookie(2)), one(rAS(2, 2, 1000), rAS(1, 2, 0)))},
		{"basic-wins-over-cookie", cat(one(rGuest(true), rPut(1, 1), rPut(2, 5), rLogin(2, 5, 0, false)), both(crBoth(1, 1, 0)), both(crBoth(1, 5, 0)), both(crBoth(0, 1, 0)), both(crBoth(1, 1, 3)))},
		{"password-change-kills-cookie", cat(one(rGuest(false), rPut(1, 1), rLogin(1, 1, 0, false)), both(crCookie(0)), one(rPut(1, 5)), both(crCookie(0)), one(rLogin(1, 1, 1, false), rLogin(1, 5, 1, false)), both(crCookie(1)))},
		{"delete-all-sessions", cat(one(rGuest(false), rPut(1, 1), rPut(2, 1), rLogin(1, 1, 0, false), rLogin(2, 1, 1, false), rDelAll(1)), both(crCookie(0)), both(crCookie(1)), one(rDelAll(3), rLogin(1, 1, 2, false)), both(crCookie(2)))},
		{"delete-session", cat(one(rGuest(true), rPut(1, 1), rLogin(1, 1, 0, false), rAS(1, 1, 1000), rDelS(0)), both(crCookie(0)), both(crCookie(1)), one(rDelUS(2, 1), rDelUS(1, 1), rDelUS(1, 1), rDelS(3)), both(crCookie(1)))},
		{"delete-recreate-user", cat(one(rGuest(false), rPut(1, 1), rLogin(1, 1, 0, false), rDelU(1)), both(crCookie(0)), both(crBasic(1, 1)), one(rPut(1, 1)), both(crCookie(0)), both(crBasic(1, 1)), one(rDelU(2)))},
		{"logout", cat(one(rGuest(false), rPut(1, 1), rLogin(1, 1, 0, false), rLogout(crCookie(0))), both(crCookie(0)), one(rLogout(crCookie(0)), rLogout(crNone()), rLogout(crBasic(1, 1)), rLogin(1, 1, 1, false), rLogout(crBoth(1, 1, 1))), both(crCookie(1)), one(rGuest(true), rLogout(crNone())))},
		{"one-time-login", cat(one(rGuest(false), rPut(1, 1), rLogin(1, 1, 0, true), rReq(false, crCookie(0)), rReq(false, crCookie(0)), rLogin(1, 1, 1, true), rReq(true, crCookie(1)), rReq(true, crCookie(1)), rLogin(1, 5, 2, true)))},
		{"public-handler-ignores-bad-cookie", cat(one(rGuest(false), rPut(1, 1), rLogin(1, 1, 0, false), rPut(1, 5), rReq(true, crCookie(0)), rReq(false, crCookie(0)), rReq(true, crCookie(3)), rReq(false, crCookie(3)), rGuest(true), rReq(false, crCookie(0))))},
	}
	for _, c := range corpus {
		c12rRun(t, r, rt, "rest-corpus", "rest-history:"+c.name, c.ops)
	}

	// ---------- (b) bounded-exhaustive: every credential combination x both handler kinds, in 4 prepared states ----------
	basics := []c12rCreds{crNone(), crBearer(), crBasic(0, 1), crBasic(1, 1), crBasic(1, 5), crBasic(2, 5), crBasic(3, 1)}
	nEx := 0
	for _, guest := range []bool{false, true} {
		for _, u2disabled := range []bool{false, true} {
			// u1: password pw1, live session s0, stale session s1 (issued before a password change);
			// u2: password pw5, session s2, possibly disabled; u3 unknown; slot 3: an id that was never issued
			pre := []c12rOp{rGuest(guest), rPut(1, 5), rLogin(1, 5, 1, false), rPut(1, 1), rLogin(1, 1, 0, false), rPut(2, 5), rLogin(2, 5, 2, false), rDis(2, u2disabled)}
			var ops []c12rOp
			ops = append(ops, pre...)
			for _, b := range basics {
				for _, slot := range []int{-1, 0, 1, 2, 3} {
					if b.bearer && b.basic {
						continue
					}
					cr := b
					cr.slot = slot
					for _, public := range []bool{false, true} {
						ops = append(ops, rReq(public, cr))
						nEx++
					}
				}
			}
			c12rRun(t, r, rt, "rest-exhaustive", "rest-all-credential-combinations", ops)
		}
	}
	r.Extra("rest_exhaustive_scope", fmt.Sprintf("4 prepared states (guest on/off x second user enabled/disabled) x 7 Basic/Bearer variants x 5 cookies (none, live, stale, other user's, never issued) x 2 handler kinds: %d requests", nEx))

	// ---------- (c) random REST histories ----------
	pws := []uint64{1, 5, 3}
	randCreds := func() c12rCreds {
		cr := crNone()
		switch r.Intn(10) {
		case 0, 1, 2:
			cr = crBasic(uint64(r.Intn(4)), append(pws, 0)[r.Intn(4)])
		case 3:
			cr = crBearer()
		}
		if r.Chance(55) {
			cr.slot = r.Intn(4)
		}
		return cr
	}
	nRand := r.Budget(120, 1200)
	for i := 0; i < nRand; i++ {
		n := 8 + r.Intn(10)
		ops := []c12rOp{rGuest(r.Chance(50)), rPut(1, pws[r.Intn(3)])}
		for len(ops) < n {
			u := 1 + uint64(r.Intn(3))
			slot := r.Intn(3)
			switch k := r.Intn(100); {
			case k < 10:
				ops = append(ops, rPut(u, pws[r.Intn(3)]))
			case k < 16:
				ops = append(ops, rDis(u, r.Chance(60)))
			case k < 20:
				ops = append(ops, rDelU(u))
			case k < 25:
				ops = append(ops, rGuest(r.Chance(50)))
			case k < 31:
				ttl := uint64(1000)
				if r.Chance(10) {
					ttl = 0
				}
				ops = append(ops, rAS(u, slot, ttl))
			case k < 43:
				ops = append(ops, rLogin(u, pws[r.Intn(3)], slot, r.Chance(30)))
			case k < 47:
				ops = append(ops, rDelS(r.Intn(4)))
			case k < 51:
				ops = append(ops, rDelUS(u, r.Intn(4)))
			case k < 56:
				ops = append(ops, rDelAll(u))
			case k < 61:
				ops = append(ops, rLogout(randCreds()))
			default:
				ops = append(ops, rReq(r.Chance(35), randCreds()))
			}
		}
		c12rRun(t, r, rt, "rest-random", "rest-random", ops)
	}
}
