(* C06 proofs, part 1: the default conflict resolver keeps the same revision whichever side runs it. *)
From SG Require Import Base.Prelude C04.OrderProofs C06.Replication.
Open Scope N_scope.

Lemma is_lt_antisym : forall l r, l <> r -> is_lt (cmp_id l r) = negb (is_lt (cmp_id r l)).
Proof.
  intros l r NE. rewrite (cmp_id_antisym r l).
  destruct (cmp_id r l) eqn:E; cbn; auto.
  apply cmp_id_eq in E. congruence.
Qed.

Lemma resolver_symmetric : forall ld l rd r, l <> r ->
  resolver_choice ld l rd r = resolver_choice rd r ld l.
Proof.
  intros ld l rd r NE. unfold resolver_choice, local_wins.
  rewrite (is_lt_antisym l r NE).
  destruct ld, rd; cbn; try reflexivity; destruct (is_lt (cmp_id r l)); reflexivity.
Qed.

(* the decision is the winner order of the revision tree with "deleted" preferred instead of "live" *)
Lemma local_wins_spec : forall ld l rd r,
  local_wins ld l rd r = true <->
  (ld = true /\ rd = false) \/ (ld = rd /\ cmp_id l r <> Lt).
Proof.
  intros ld l rd r. unfold local_wins.
  destruct ld, rd; cbn; destruct (cmp_id l r); cbn; intuition congruence.
Qed.
