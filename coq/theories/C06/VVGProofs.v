(* C06 proofs, version-vector protocol with any resolver and any number of peers, part 1: what the vector operations
   do to the KNOWLEDGE of a copy (the newest value per source it has seen), imported from the C10 development
   (HLVProofs.repr / HLVOps.add_version_repr, merge_repr / HLVUpdate.update_general, update_nothing_lost_iff) --
   nothing about db.HybridLogicalVector is re-proved here.

   [okv clk h]: the vector h represents a set of versions, each handed out by the clock of its source
   ([clk q] = the last value the database q generated).  [value h q] is then what h knows of source q.
   [lossless hl hi]: UpdateWithIncomingHLV folding hl into hi drops no version hl lists -- decidable on the two
   vectors; it fails exactly when UpdateHistory meets a newer local version under a source that is "blocked" in the
   receiving vector (its current-version source or one of its merge versions), the C10 finding
   same-merge-accept-drops-local-version and, here, the stale-merge-version shape of C06_Refuted.v. *)
From SG Require Import Base.Prelude C10.AMap C10.HLV C10.HLVProofs C10.HLVOps C10.HLVUpdate C06.VV C06.VVProofs.
Open Scope N_scope.
#[local] Arguments N.max : simpl never.
#[local] Arguments N.eqb : simpl never.
#[local] Arguments N.leb : simpl never.
#[local] Arguments N.ltb : simpl never.
#[local] Arguments N.add : simpl never.

Definition lossless (hl hi : hlv) : bool := forallb (keptb hl hi) (cv hl :: mv hl ++ pv hl).

Definition okv (clk : N -> N) (h : hlv) : Prop :=
  exists S, good S /\ repr h S /\ (forall q e, In (q, e) S -> e <= clk q).

Lemma okv_mono : forall clk clk' h, (forall q, clk q <= clk' q) -> okv clk h -> okv clk' h.
Proof.
  intros clk clk' h L (S & G & R & B). exists S. split; [exact G|]. split; [exact R|].
  intros q e I. specialize (B q e I). specialize (L q). lia.
Qed.

Lemma okv_wf : forall clk h, okv clk h -> wf h.
Proof. intros clk h (S & _ & R & _). apply R. Qed.

Lemma okv_src : forall clk h, okv clk h -> src h <> 0.
Proof. intros clk h O. apply (wf_src _ (okv_wf _ _ O)). Qed.

Lemma value_own : forall h, src h <> 0 -> value h (src h) = ver h.
Proof. intros h H. unfold value. now rewrite gv_cv. Qed.

Lemma okv_ver : forall clk h, okv clk h -> ver h <> 0.
Proof.
  intros clk h (S & G & R & _). pose proof (repr_cv_in h S R) as I. unfold cv in I. apply (G _ _ I).
Qed.

Lemma okv_bound : forall clk h q, okv clk h -> value h q <= clk q.
Proof.
  intros clk h q (S & G & R & B). destruct (N.eq_dec q 0) as [->|Hq]; [rewrite value_zero; lia|].
  rewrite (repr_value h S G R q Hq). destruct (N.eq_dec (max_ver S q) 0) as [Z|Z]; [lia|].
  apply B. now apply max_ver_attained.
Qed.

(* dominance is knowledge *)
Lemma dom_value : forall h q v, v <> 0 -> dominates h (q, v) = true <-> v <= value h q.
Proof. intros. now apply dominates_value. Qed.

Lemma dom_value_false : forall h q v, v <> 0 -> dominates h (q, v) = false <-> value h q < v.
Proof.
  intros h q v Hv. destruct (dominates h (q, v)) eqn:D.
  - apply dom_value in D; auto. split; [discriminate | lia].
  - split; auto. intros _. destruct (N.lt_ge_cases (value h q) v); auto.
    assert (dominates h (q, v) = true) by (apply dom_value; auto). congruence.
Qed.

Lemma dom_cv : forall clk hi h, okv clk hi -> dominates h (cv hi) = true <-> ver hi <= value h (src hi).
Proof. intros clk hi h O. unfold cv. apply dom_value. eapply okv_ver; eauto. Qed.

Lemma dom_cv_false : forall clk hi h, okv clk hi -> dominates h (cv hi) = false <-> value h (src hi) < ver hi.
Proof. intros clk hi h O. unfold cv. apply dom_value_false. eapply okv_ver; eauto. Qed.

(* ---------- lossless ---------- *)
Lemma dominates_down : forall h s v e, v <= e -> dominates h (s, e) = true -> dominates h (s, v) = true.
Proof.
  intros h s v e L D. apply dominates_spec in D. destruct D as [x [E Le]]. apply dominates_spec. exists x. split; auto. lia.
Qed.

Lemma lossless_kept : forall hl hi Sl, good Sl -> repr hl Sl -> lossless hl hi = true ->
  forall p, In p Sl -> keptb hl hi p = true.
Proof.
  intros hl hi Sl G [W [LI DO]] L [s v] I. pose proof (DO _ I) as D.
  apply dominates_spec in D. destruct D as [e [E Le]].
  assert (K : keptb hl hi (s, e) = true).
  { unfold lossless in L. rewrite forallb_forall in L. apply L.
    apply get_value_listed in E. destruct E as [E|[E|E]]; [left; auto | right; apply in_or_app; auto | right; apply in_or_app; auto]. }
  unfold keptb in *. apply orb_true_iff in K. apply orb_true_iff. destruct K as [K|K].
  - left. eapply dominates_down; eauto.
  - right. eapply passes_down; eauto.
Qed.

(* UpdateWithIncomingHLV without loss: the result is the incoming version knowing what both knew *)
Lemma okv_update : forall clk hl hi, okv clk hl -> okv clk hi -> lossless hl hi = true ->
  let h' := update_with_incoming hl hi in
  okv clk h' /\ cv h' = cv hi /\ (forall q, q <> 0 -> value h' q = N.max (value hl q) (value hi q)).
Proof.
  intros clk hl hi (Sl & Gl & Rl & Bl) (Si & Gi & Ri & Bi) L. cbn zeta.
  assert (R : repr (update_with_incoming hl hi) (Sl ++ Si)).
  { apply update_nothing_lost_iff; auto. now apply lossless_kept. }
  destruct (update_general hl hi Sl Si Gl Gi Rl Ri) as [_ [C _]]. cbn zeta in C.
  split; [|split; [exact C|]].
  - exists (Sl ++ Si). split; [now apply good_app|]. split; [exact R|].
    intros q e I. apply in_app_or in I. destruct I; eauto.
  - intros q Hq. rewrite (repr_value _ _ (good_app _ _ Gl Gi) R q Hq), max_ver_app.
    now rewrite (repr_value hl Sl Gl Rl q Hq), (repr_value hi Si Gi Ri q Hq).
Qed.

(* ---------- AddVersion with a value generated by the clock ---------- *)
Definition bump (clk : N -> N) (me v : N) : N -> N := fun q => if q =? me then v else clk q.

Lemma bump_ge : forall clk me v, clk me <= v -> forall q, clk q <= bump clk me v q.
Proof. intros clk me v L q. unfold bump. destruct (N.eqb_spec q me); subst; lia. Qed.

Lemma okv_write : forall clk h me phys, okv clk h -> me <> 0 ->
  let v := hlc_now phys (clk me) (max_value_for_source h me) in
  exists h', add_version h (me, v) = Some h' /\ okv (bump clk me v) h' /\ cv h' = (me, v) /\ mv h' = [] /\
             value h' me = v /\ (forall q, q <> 0 -> q <> me -> value h' q = value h q).
Proof.
  intros clk h me phys (S & G & R & B) Hme v.
  assert (Hv : max_value_for_source h me < v) by (subst v; apply hlc_now_gt_floor).
  assert (Hc : clk me < v) by (subst v; apply hlc_now_gt_clock).
  destruct (add_version_repr h S me v G R Hme Hv) as [h' [A [R' [S' [V' [M' _]]]]]].
  assert (Gv : good ((me, v) :: S)) by (apply good_cons; auto; lia).
  exists h'. split; [exact A|]. split; [|split; [unfold cv; now rewrite S', V'|split; [exact M'|split]]].
  - exists ((me, v) :: S). split; [exact Gv|]. split; [exact R'|].
    intros q e [I|I]; unfold bump.
    + inv I. rewrite N.eqb_refl. lia.
    + specialize (B q e I). destruct (N.eqb_spec q me); subst; lia.
  - rewrite <- S', <- V'. apply value_own. rewrite S'. exact Hme.
  - intros q Hq Nq. rewrite (repr_value h' _ Gv R' q Hq), (repr_value h S G R q Hq). cbn [max_ver fst snd].
    destruct (N.eqb_spec me q); [congruence|reflexivity].
Qed.

Lemma okv_write_empty : forall clk me phys, me <> 0 ->
  let v := hlc_now phys (clk me) (max_value_for_source empty_hlv me) in
  exists h', add_version empty_hlv (me, v) = Some h' /\ okv (bump clk me v) h' /\ cv h' = (me, v) /\ mv h' = [] /\
             value h' me = v /\ (forall q, q <> 0 -> q <> me -> value h' q = 0).
Proof.
  intros clk me phys Hme v.
  assert (Hc : clk me < v) by (subst v; apply hlc_now_gt_clock).
  assert (Hv : v <> 0) by lia.
  destruct (add_version_empty me v Hme Hv) as [A R]. eexists. split; [exact A|].
  assert (G : good [(me, v)]) by (intros s x [I|[]]; inv I; auto).
  split; [|split; [reflexivity|split; [reflexivity|split]]].
  - exists [(me, v)]. split; [exact G|]. split; [exact R|]. intros q e [I|[]]. inv I. unfold bump. rewrite N.eqb_refl. lia.
  - apply (value_own (mkH me v [] [])). exact Hme.
  - intros q Hq Nq. rewrite (repr_value _ _ G R q Hq). cbn [max_ver fst snd]. destruct (N.eqb_spec me q); [congruence|reflexivity].
Qed.

(* ---------- MergeWithIncomingHLV ---------- *)
Lemma okv_merge : forall clk hl hi me phys, okv clk hl -> okv clk hi -> me <> 0 ->
  dominates hi (cv hl) = false -> dominates hl (cv hi) = false ->
  let v := hlc_now phys (clk me) (N.max (max_value_for_source hl me) (max_value_for_source hi me)) in
  exists h', merge_with_incoming hl (me, v) hi = Some h' /\ okv (bump clk me v) h' /\ cv h' = (me, v) /\
             value h' me = v /\ (forall q, q <> 0 -> q <> me -> value h' q = N.max (value hl q) (value hi q)).
Proof.
  intros clk hl hi me phys (Sl & Gl & Rl & Bl) (Si & Gi & Ri & Bi) Hme D1 D2 v.
  assert (Hf : N.max (max_value_for_source hl me) (max_value_for_source hi me) < v) by (subst v; apply hlc_now_gt_floor).
  assert (Hc : clk me < v) by (subst v; apply hlc_now_gt_clock).
  destruct (merge_repr hl hi Sl Si me v Gl Gi Rl Ri D1 D2 Hme ltac:(lia) ltac:(lia)) as [h' [A [R' [C' _]]]].
  assert (Gv : good ((me, v) :: Sl ++ Si)) by (apply good_cons; [apply good_app|..]; auto; lia).
  exists h'. split; [exact A|]. split; [|split; [exact C'|split]].
  - exists ((me, v) :: Sl ++ Si). split; [exact Gv|]. split; [exact R'|].
    intros q e [I|I]; unfold bump.
    + inv I. rewrite N.eqb_refl. lia.
    + apply in_app_or in I. destruct I as [I|I]; [specialize (Bl q e I)|specialize (Bi q e I)];
        destruct (N.eqb_spec q me); subst; lia.
  - assert (E : src h' = me /\ ver h' = v) by (unfold cv in C'; inv C'; auto). destruct E as [E1 E2].
    rewrite <- E1, <- E2. apply value_own. rewrite E1. exact Hme.
  - intros q Hq Nq. rewrite (repr_value h' _ Gv R' q Hq). cbn [max_ver fst snd].
    destruct (N.eqb_spec me q); [congruence|]. rewrite max_ver_app.
    now rewrite (repr_value hl Sl Gl Rl q Hq), (repr_value hi Si Gi Ri q Hq).
Qed.

(* two vectors neither of which knows the other's current version have different current-version sources *)
Lemma concurrent_src : forall clk hl hi, okv clk hl -> okv clk hi ->
  dominates hl (cv hi) = false -> dominates hi (cv hl) = false -> src hl <> src hi.
Proof.
  intros clk hl hi Ol Oi. apply concurrent_sources_differ; eapply okv_src; eauto.
Qed.
