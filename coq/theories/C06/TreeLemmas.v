(* C06 proofs, part 4: general facts about histories, insertion of histories, linear trees and trees
   with a single live leaf, used by the convergence proof. *)
From SG Require Import Base.Prelude C04.OrderProofs C04.WinnerProofs C04.WfProofs C04.FlagsProofs
  C04.PushProofs C04.DocProofs C06.Replication C06.InvProofs C06.TransferProofs.
Open Scope N_scope.

(* ---------- histories ---------- *)
Lemma chain_in : forall f t i x, In x (chain f t i) -> contains t x = true.
Proof.
  induction f as [|f IH]; intros t i x H; [destruct H|].
  rewrite chain_S in H. destruct (find_rev t i) as [r|] eqn:F; [|destruct H].
  destruct H as [<- | H]; [unfold contains; rewrite F; reflexivity|].
  destruct (rpar r); [eapply IH; eauto | destruct H].
Qed.

(* an element of a history other than its head is somebody's parent *)
Lemma chain_parent : forall f t i x, In x (chain f t i) -> x = i \/ is_parent t x = true.
Proof.
  induction f as [|f IH]; intros t i x H; [destruct H|].
  rewrite chain_S in H. destruct (find_rev t i) as [r|] eqn:F; [|destruct H].
  destruct H as [<- | H]; auto. right.
  destruct (rpar r) as [p|] eqn:P; [|destruct H].
  destruct (IH t p x H) as [-> | Q]; auto.
  apply find_rev_some in F. apply is_parent_iff. exists r. tauto.
Qed.

Lemma chain_gen : forall t, wf t -> forall f i x, In x (chain f t i) -> x = i \/ gen x < gen i.
Proof.
  intros t W. induction f as [|f IH]; intros i x H; [destruct H|].
  rewrite chain_S in H. destruct (find_rev t i) as [r|] eqn:F; [|destruct H].
  destruct H as [<- | H]; auto. right.
  destruct (rpar r) as [p|] eqn:P; [|destruct H].
  apply find_rev_some in F. destruct F as [Ir Er]. destruct W as (ND & V & PP).
  destruct (PP r p Ir P) as [_ L]. rewrite Er in L.
  destruct (IH p x H) as [-> | Q]; lia.
Qed.

(* a history computed in an extension of a well-formed tree, from a node of that tree, is the old one *)
Lemma find_rev_app_old : forall ext t i, NoDup (map rid (ext ++ t)) -> contains t i = true ->
  find_rev (ext ++ t) i = find_rev t i.
Proof.
  induction ext as [|e ext IH]; intros t i ND C; cbn [app find_rev]; auto.
  cbn [app map] in ND. inversion ND as [|? ? NI ND']; subst.
  destruct (revid_eqb (rid e) i) eqn:E; [|apply IH; auto].
  apply revid_eqb_eq in E. exfalso. apply NI. rewrite map_app. apply in_or_app. right.
  rewrite E. apply contains_in. exact C.
Qed.

Lemma chain_app_old : forall ext t, wf t -> NoDup (map rid (ext ++ t)) ->
  forall f i, contains t i = true -> chain f (ext ++ t) i = chain f t i.
Proof.
  intros ext t W ND. induction f as [|f IH]; intros i C; [reflexivity|].
  rewrite !chain_S, (find_rev_app_old ext t i ND C).
  destruct (find_rev t i) as [r|] eqn:F; [|reflexivity]. f_equal.
  destruct (rpar r) as [p|] eqn:P; [|reflexivity].
  apply IH. apply find_rev_some in F. destruct W as (_ & _ & PP). destruct (PP r p (proj1 F) P). assumption.
Qed.

Lemma history_app_old : forall ext t i, wf t -> wf (ext ++ t) -> contains t i = true ->
  history (ext ++ t) i = history t i.
Proof. intros ext t i W W' C. unfold history. apply chain_app_old; auto. apply W'. Qed.

(* the history of a node: the node itself followed by the history of its parent *)
Lemma history_step : forall t r, wf t -> In r t ->
  history t (rid r) = rid r :: match rpar r with Some p => history t p | None => [] end.
Proof.
  intros t r W Ir. unfold history.
  destruct W as (ND & V & PP). pose proof (V r Ir) as Vr.
  destruct (N.to_nat (gen (rid r))) as [|f] eqn:F; [lia|].
  rewrite chain_S, (find_rev_nodup t r ND Ir). f_equal.
  destruct (rpar r) as [p|] eqn:P; [|reflexivity].
  destruct (PP r p Ir P) as [Cp Lt].
  (* more fuel than the generation of p changes nothing *)
  assert (Fuel : forall f1 f2 i, (N.to_nat (gen i) <= f1)%nat -> (N.to_nat (gen i) <= f2)%nat ->
                 chain f1 t i = chain f2 t i).
  { induction f1 as [|f1 IH]; intros f2 i L1 L2.
    - destruct f2 as [|f2]; [reflexivity|]. rewrite chain_S. destruct (find_rev t i) as [q|] eqn:Fq; [|reflexivity].
      apply find_rev_some in Fq. destruct Fq as [Iq Eq]. pose proof (V q Iq). rewrite Eq in H. lia.
    - destruct f2 as [|f2].
      + rewrite chain_S. destruct (find_rev t i) as [q|] eqn:Fq; [|reflexivity].
        apply find_rev_some in Fq. destruct Fq as [Iq Eq]. pose proof (V q Iq). rewrite Eq in H. lia.
      + rewrite !chain_S. destruct (find_rev t i) as [q|] eqn:Fq; [|reflexivity]. f_equal.
        destruct (rpar q) as [pq|] eqn:Pq; [|reflexivity].
        apply find_rev_some in Fq. destruct Fq as [Iq Eq]. destruct (PP q pq Iq Pq) as [_ Lq]. rewrite Eq in Lq.
        apply IH; lia. }
  apply Fuel; lia.
Qed.

Lemma history_head_in : forall t i, wf t -> contains t i = true -> In i (history t i).
Proof.
  intros t i W C. apply contains_in in C. apply in_map_iff in C. destruct C as (r & <- & Ir).
  rewrite (history_step t r W Ir). left. reflexivity.
Qed.

Lemma history_in : forall t i x, In x (history t i) -> contains t x = true.
Proof. intros t i x. unfold history. apply chain_in. Qed.

Lemma history_gen : forall t i x, wf t -> In x (history t i) -> x = i \/ gen x < gen i.
Proof. intros t i x W. unfold history. apply chain_gen. exact W. Qed.

Lemma history_parent : forall t i x, In x (history t i) -> x = i \/ is_parent t x = true.
Proof. intros t i x. unfold history. apply chain_parent. Qed.

(* a leaf occurs in no history but its own *)
Lemma leaf_history : forall t c m, is_parent t c = false -> In c (history t m) -> m = c.
Proof. intros t c m L H. destruct (history_parent t m c H) as [-> | Q]; [reflexivity | congruence]. Qed.

(* ---------- split_known ---------- *)
Lemma split_known_at : forall t pre k post,
  (forall x, In x pre -> contains t x = false) -> contains t k = true ->
  split_known t (pre ++ k :: post) = (pre, Some k).
Proof.
  intros t. induction pre as [|h pre IH]; intros k post NI C; cbn [app split_known].
  - rewrite C. reflexivity.
  - rewrite (NI h (or_introl eq_refl)). rewrite (IH k post); auto. intros x I. apply NI. right. exact I.
Qed.

Lemma split_known_none : forall t l, (forall x, In x l -> contains t x = false) -> split_known t l = (l, None).
Proof.
  intros t. induction l as [|h l IH]; intros NI; cbn [split_known]; auto.
  rewrite (NI h (or_introl eq_refl)), IH; auto. intros x I. apply NI. right. exact I.
Qed.

Section Gen.
  Variable mkdig : option revid -> body -> list N.
  Notation mkid := (mkid mkdig).
  Notation tinv := (tinv mkdig).
  Notation ghist := (ghist mkdig).

  (* generations strictly decrease along a generated history *)
  Lemma ghist_gens : forall older h base, ghist (h :: older) base -> forall x, In x older -> gen x < gen h.
  Proof.
    induction older as [|o older IH]; intros h base G x I; [destruct I|].
    destruct G as [[b Hb] G]. cbn [par_of] in Hb. rewrite Hb, mkid_gen. cbn [wid].
    destruct I as [<- | I]; [lia|]. pose proof (IH o base G x I). lia.
  Qed.

  (* inserting a generated history none of whose elements is known, below a known base, succeeds *)
  Lemma add_hist_success : forall nw t base del, tinv t -> ghist nw base ->
    (forall x, In x nw -> contains t x = false) ->
    (forall k, base = Some k -> contains t k = true) ->
    add_hist t nw base del = Some (recs nw base del ++ t).
  Proof.
    induction nw as [|h older IH]; intros t base del T G NI K; cbn [add_hist recs app]; auto.
    pose proof G as G0. destruct G as [[b Hb] G].
    rewrite (IH t base false T G (fun x I => NI x (or_intror I)) K).
    change (match older with [] => base | o :: _ => Some o end) with (par_of older base).
    unfold add; cbn [rid rpar rdel]. rewrite contains_app.
    assert (E1 : contains (recs older base false) h = false).
    { apply contains_false. rewrite recs_ids. intros I. pose proof (ghist_gens _ _ _ G0 h I). lia. }
    rewrite E1, (NI h (or_introl eq_refl)). cbn [orb].
    destruct (par_of older base) as [p|] eqn:Ep; [|reflexivity].
    assert (Cp : contains (recs older base false ++ t) p = true).
    { rewrite contains_app. destruct older as [|o r]; cbn [par_of] in Ep.
      - rewrite (K p Ep). apply orb_true_r.
      - inversion Ep; subst. cbn [recs]. rewrite contains_cons; cbn [rid]. rewrite revid_eqb_refl. reflexivity. }
    rewrite Cp. cbn [negb]. rewrite Hb, mkid_gen. cbn [wid].
    destruct (gen p + 1 <=? gen p) eqn:E; [lia | reflexivity].
  Qed.
End Gen.

(* ---------- linear trees: the list is the branch, newest first, every record live ---------- *)
Fixpoint chainlist (t : tree) : Prop :=
  match t with
  | [] => True
  | r :: rest => rdel r = false /\ rpar r = hd_error (map rid rest) /\ chainlist rest
  end.

Lemma chainlist_wf_tail : forall r t, wf (r :: t) -> chainlist (r :: t) -> wf t.
Proof.
  intros r t (ND & V & PP) (_ & _ & C). split; [inversion ND; auto|]. split; [intros q I; apply V; right; exact I|].
  intros q p Iq Pq. destruct (PP q p (or_intror Iq) Pq) as [_ L]. split; auto.
  clear - C Iq Pq. induction t as [|a t IH]; [destruct Iq|].
  destruct C as (_ & Pa & C). destruct Iq as [-> | Iq].
  - rewrite Pq in Pa. destruct t as [|b t]; [discriminate|]. cbn in Pa. inversion Pa; subst.
    rewrite contains_cons. rewrite (contains_cons b t). rewrite revid_eqb_refl. apply orb_true_r.
  - rewrite contains_cons. rewrite (IH C Iq). apply orb_true_r.
Qed.

Lemma chainlist_leaves : forall t, wf t -> chainlist t -> leaves t = match t with [] => [] | r :: _ => [r] end.
Proof.
  induction t as [|r t IH]; intros W C; [reflexivity|].
  pose proof (chainlist_wf_tail r t W C) as Wt. destruct C as (_ & P & C).
  rewrite (leaves_add t r Wt W), (IH Wt C). destruct t as [|q t]; [reflexivity|].
  cbn [map hd_error] in P. rewrite P. cbn [filter].
  replace (opt_id_eqb (Some (rid q)) (Some (rid q))) with true by (symmetry; apply opt_id_eqb_eq; reflexivity).
  reflexivity.
Qed.

Lemma chainlist_cur : forall r t, wf (r :: t) -> chainlist (r :: t) ->
  tcur (r :: t) = Some (rid r) /\ del_of (r :: t) (Some (rid r)) = false.
Proof.
  intros r t W C. split.
  - unfold tcur. rewrite (chainlist_leaves _ W C). destruct C as (D & _ & _).
    cbn. unfold better. rewrite D. reflexivity.
  - destruct C as (D & _ & _). unfold del_of. cbn [find_rev]. rewrite revid_eqb_refl. exact D.
Qed.

(* all generations in a linear tree are at most the head's *)
Lemma chainlist_gen : forall r t, wf (r :: t) -> chainlist (r :: t) ->
  forall q, In q (r :: t) -> gen (rid q) <= gen (rid r).
Proof.
  intros r t. revert r. induction t as [|a t IH]; intros r W C q [<- | I]; try lia; [destruct I|].
  pose proof (chainlist_wf_tail r (a :: t) W C) as Wt.
  destruct C as (_ & P & C). cbn [map hd_error] in P.
  destruct W as (_ & _ & PP). destruct (PP r (rid a) (or_introl eq_refl) P) as [_ L].
  pose proof (IH a Wt C q I). lia.
Qed.

(* ---------- trees with exactly one live leaf ---------- *)
Lemma two_in_length {A} : forall (L : list A) a b, In a L -> In b L -> a <> b -> (2 <= length L)%nat.
Proof.
  induction L as [|x L IH]; intros a b Ia Ib N; [destruct Ia|].
  destruct Ia as [-> | Ia], Ib as [-> | Ib]; try congruence.
  - destruct L; [destruct Ib | cbn; lia].
  - destruct L; [destruct Ia | cbn; lia].
  - pose proof (IH a b Ia Ib N). cbn. lia.
Qed.

Lemma live_leaf_iff : forall t i, live_leaf t (Some i) = true <-> exists l, In l (leaves t) /\ rid l = i /\ rdel l = false.
Proof.
  intros t i. unfold live_leaf. rewrite existsb_exists. split.
  - intros (l & I & H). apply andb_true_iff in H. destruct H as [E L]. apply opt_id_eqb_eq in E. inversion E.
    exists l. unfold live in L. apply negb_true_iff in L. auto.
  - intros (l & I & E & D). exists l. split; auto. rewrite E. unfold live. rewrite D.
    replace (opt_id_eqb (Some i) (Some i)) with true by (symmetry; apply opt_id_eqb_eq; reflexivity). reflexivity.
Qed.

Lemma unique_live : forall t i, wf t -> live_count t = 1%nat -> live_leaf t (Some i) = true ->
  tcur t = Some i /\ del_of t (Some i) = false.
Proof.
  intros t i W LC LL. apply live_leaf_iff in LL. destruct LL as (l & Il & El & Dl).
  assert (NE : t <> []) by (intros ->; destruct Il).
  destruct (winning_is_max_leaf t W NE) as (w & [Iw M] & Ew).
  assert (w = l).
  { destruct (M l Il) as [O | E]; auto. exfalso.
    destruct O as [[_ D] | [D G]]; [congruence|].
    assert (N : w <> l) by (intros ->; rewrite cmp_id_refl in G; discriminate).
    assert (2 <= live_count t)%nat; [|lia].
    unfold live_count. apply (two_in_length _ w l); auto; apply filter_In; split; auto; unfold live.
    - rewrite D, Dl. reflexivity.
    - rewrite Dl. reflexivity. }
  subst w. split.
  - unfold tcur. rewrite Ew, El. reflexivity.
  - rewrite <- El. rewrite (del_of_in t l W); auto. apply in_leaves in Il. tauto.
Qed.

Lemma live_count_zero_no_leaf : forall t b, live_count t = 0%nat -> live_leaf t b = false.
Proof.
  intros t b Z. unfold live_leaf. apply not_true_is_false. intros H. apply existsb_exists in H.
  destruct H as (l & I & H). apply andb_true_iff in H. destruct H as [_ L].
  unfold live_count in Z. assert (In l (filter live (leaves t))) by (apply filter_In; auto).
  destruct (filter live (leaves t)); [destruct H | discriminate].
Qed.
