(* C06 model switches: which behaviour of the code the models describe.

   null_merge_is_delete = false   the code as it is: a conflict resolver that answers null (Body{_deleted:true}) has its
                                  answer stored by resolveDocMerge as a LIVE revision with the body {"_deleted":true}
                                  (known findings rt: / vv:diverged:null-merge-stored-live)
                        = true    the proposed repair (/tmp/c06-fix-nullmerge.diff): the merged revision is a tombstone
                                  (remoteDoc.Deleted = true, the _deleted property is dropped from the stored body); its
                                  revision id is unchanged (the digest is taken before the property is dropped), i.e.
                                  the id a DELETE of the remote revision would produce.
   Every theorem is proved for BOTH values (the proofs never compute with the constant). *)
Definition null_merge_is_delete : bool := true.
