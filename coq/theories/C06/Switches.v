(* C06 model switches: which behaviour of the code the models describe.

   null_merge_is_delete = false   the code as it is: a conflict resolver that answers null (Body{_deleted:true}) has its
                                  answer stored by resolveDocMerge as a LIVE revision with the body {"_deleted":true}
                                  (known findings rt: / vv:diverged:null-merge-stored-live)
                        = true    the proposed repair (/tmp/c06-fix-nullmerge.diff): the merged revision is a tombstone
                                  (remoteDoc.Deleted = true, the _deleted property is dropped from the stored body); its
                                  revision id is unchanged (the digest is taken before the property is dropped), i.e.
                                  the id a DELETE of the remote revision would produce.
   Every theorem is proved for BOTH values (the proofs never compute with the constant). *)
Definition null_merge_is_delete : bool := true.

(* known_tombstone_cancelled = true   the code since /repo commit 6e0c2ba: PutExistingCurrentVersion answers "already
                                      present" for an incoming tombstone whose current version the stored TOMBSTONE's
                                      vector already knows (the allowConflictingTombstone branch used to skip that test)
                             = false  the code before it: such a tombstone is written again with the INCOMING current
                                      version (fixed finding vv:redelivered-tombstone-rewritten;
                                      C06_Refuted.C06_raw_tombstone_redelivery_refuted).
   Only RAW delivery (VVG.gput) can tell the two apart: through the negotiation the offer is answered "known". *)
Definition known_tombstone_cancelled : bool := true.
