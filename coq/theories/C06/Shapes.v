(* C06, deepening round: the shapes of history on which the revision-tree replication diverges, as DECIDABLE
   predicates on histories (evaluated by running the model on the prefixes).

   In conflict-free mode the winner of a tree whose leaves are all tombstones is chosen by (generation, digest).
   As long as the active side's tree has ONE leaf, a delete or a resurrection extends the branch the passive side
   follows.  Once a conflict resolution (or a pull over a tombstone) has left a second, tombstoned branch on the
   active side, a DELETE of the live leaf can hand the win to the old tombstone, and a RESURRECTION extends whatever
   tombstone happens to win -- possibly on the dead branch.  In both cases the active side's current revision is one
   the passive side refuses (409) for ever.

     branched_delete      a DELETE of the live current revision of the active side whose tree has more than one leaf
     branched_resurrect   a PUT on the tombstoned current revision of the active side whose tree has more than one leaf
     unsendable_write     the active side's current revision becomes a LIVE revision with the body {"_deleted":true}
                          (a resolver answering null; no receiver accepts it)

   Conjectured (C06_Properties.C06_converges_iff_full_statement): a history with none of the three converges after
   Pull; Push; Pull; Push, for every resolver.  Proved: for histories without deletes (ConvThm.isgr_converges_live_pol),
   and the NECESSITY of each shape (below: a diverging history that has that shape and neither of the other two).
   Evidence for the rest: 800 000 random histories of the extracted model (default / localWins / remoteWins / random
   custom resolvers) without a counterexample, and the harness monitor peers_converged, which tags any divergence of
   the real replicator whose history has no such step ':unexplained'. *)
From SG Require Import Base.Prelude C06.Replication C06.ConvDefs C06.SysProofs.
Open Scope N_scope.

Section Shapes.
  Variable mkdig : option revid -> body -> list N.

  Definition branched (p : pdoc) : bool := (1 <? N.of_nat (length (leaves (ptree p)))).

  Definition branched_delete (s : sys) (o : op) : bool :=
    match o with
    | Delete Act d => let p := fst (s d) in
                      branched p && negb (cur_del p) && match cur p with Some _ => true | None => false end
    | _ => false
    end.

  Definition branched_resurrect (s : sys) (o : op) : bool :=
    match o with
    | Resurrect Act d _ => let p := fst (s d) in branched p && cur_del p
    | _ => false
    end.

  (* after the step the active side shows a live revision with the tombstone body *)
  Definition unsendable_write (s : sys) (o : op) : bool :=
    let p := fst (step mkdig s o (op_doc o)) in
    negb (cur_del p) && match cur_body p with Some b => b =? b_tomb | None => false end.

  Fixpoint has_shape (sh : sys -> op -> bool) (s : sys) (ops : list op) : bool :=
    match ops with
    | [] => false
    | o :: r => sh s o || has_shape sh (step mkdig s o) r
    end.

  Definition shape_free (ops : list op) : bool :=
    negb (has_shape branched_delete sys0 ops) && negb (has_shape branched_resurrect sys0 ops) &&
    negb (has_shape unsendable_write sys0 ops).

  (* the catch-up: both directions, twice (after ONE round two tombstoned peers may still show different tombstones) *)
  Definition catch_up (pol : policy) (d : N) : list op := [PullP pol d; Push d; PullP pol d; Push d].
End Shapes.

(* ---------- necessity: one witness per shape, with the concrete collision-free digest mkdig_struct ---------- *)
Definition null_policy : policy := fun _ _ _ _ _ _ => RMerge b_tomb.

Definition w_delete : list op := [Edit Act 0 3; Edit Act 0 2; Edit Pas 0 2; Pull 0; Delete Act 0].
Definition w_resurrect : list op := [Edit Act 0 2; Edit Act 0 2; Edit Pas 0 2; Delete Pas 0; Pull 0; Resurrect Act 0 4].
Definition w_null : list op := [Edit Act 0 2; Edit Pas 0 3; PullP null_policy 0].
(* beyond the recorded shapes: a resurrection on the dead branch after the lost delete -- both peers LIVE, different *)
Definition w_live_live : list op :=
  [Edit Act 0 2; Edit Act 0 3; Edit Act 0 4; Edit Pas 0 5; Pull 0; Push 0; Delete Act 0; Resurrect Act 0 6].

Definition diverged (pol : policy) (ops : list op) : bool :=
  let s := run mkdig_struct (run mkdig_struct sys0 ops) (catch_up pol 0) in
  negb (match cur (fst (s 0)), cur (snd (s 0)) with
        | Some a, Some b => revid_eqb a b | None, None => true | _, _ => false end).

Definition shapes (ops : list op) : bool * bool * bool :=
  (has_shape mkdig_struct branched_delete sys0 ops, has_shape mkdig_struct branched_resurrect sys0 ops,
   has_shape mkdig_struct (unsendable_write mkdig_struct) sys0 ops).

Lemma branched_delete_necessary :
  shapes (w_delete ++ catch_up default_policy 0) = (true, false, false) /\ diverged default_policy w_delete = true.
Proof. vm_compute. split; reflexivity. Qed.

Lemma branched_resurrect_necessary :
  shapes (w_resurrect ++ catch_up default_policy 0) = (false, true, false) /\ diverged default_policy w_resurrect = true.
Proof. vm_compute. split; reflexivity. Qed.

(* about the code as it is (Switches.null_merge_is_delete = false); with the repair a null answer is a tombstone *)
Lemma unsendable_write_necessary : null_merge_is_delete = false ->
  shapes (w_null ++ catch_up null_policy 0) = (false, false, true) /\ diverged null_policy w_null = true.
Proof. intros H. revert H. vm_compute. intros H. first [discriminate H | split; reflexivity]. Qed.

Lemma null_merge_repaired : null_merge_is_delete = true ->
  shapes (w_null ++ catch_up null_policy 0) = (false, false, false) /\ diverged null_policy w_null = false.
Proof. intros H. revert H. vm_compute. intros H. first [discriminate H | split; reflexivity]. Qed.

(* live / live: the state after the catch-up *)
Lemma live_live_divergence :
  shapes (w_live_live ++ catch_up default_policy 0) = (true, true, false) /\
  (let s := run mkdig_struct (run mkdig_struct sys0 w_live_live) (catch_up default_policy 0) in
   cur_del (fst (s 0)) = false /\ cur_del (snd (s 0)) = false /\
   cur_body (fst (s 0)) = Some 6 /\ cur_body (snd (s 0)) = Some 4 /\
   step_status mkdig_struct s (Push 0) = TConflict).
Proof. vm_compute. repeat split; reflexivity. Qed.
