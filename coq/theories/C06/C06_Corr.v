(* C06 correspondence: scenarios run by the Go harness (harness/rest/verif_c06_test.go) against two real
   Sync Gateway databases joined by an inter-Sync-Gateway replication (revision-tree sub-protocol) are
   re-run here on the model with vm_compute; the observables after every step and the final revision
   trees must agree.

   Revision ids are written I gen [n] where n is the 128-bit md5 value: for fixed-length lower-case hex
   digests the byte-wise order of the text is the numeric order, so cmp_dig on the one-element list is
   the comparison the code makes.  The md5 function is supplied as the table of the (parent, body)
   pairs that occur in the scenario, computed by the harness with db.CreateRevIDWithBytes. *)
From SG Require Export Base.Prelude Base.Bytes C06.Replication.
Open Scope N_scope.

Definition digtbl := list (option revid * body * N).
Definition mkdig_tbl (tbl : digtbl) (p : option revid) (b : body) : list N :=
  match find (fun e => opt_id_eqb (fst (fst e)) p && (snd (fst e) =? b)) tbl with
  | Some e => [snd e]
  | None => []          (* unknown pair: an id the implementation never produced *)
  end.

Record pobs := PO { o_cur : option revid; o_del : bool; o_body : option body }.
Definition pobs_eqb (a b : pobs) : bool :=
  opt_id_eqb (o_cur a) (o_cur b) && Bool.eqb (o_del a) (o_del b) && option_eqb N.eqb (o_body a) (o_body b).
Definition pobs_of (p : pdoc) : pobs := PO (cur p) (cur_del p) (cur_body p).

(* one harness step: the model operations it stands for, optionally the (applied, rejected-as-conflict)
   counts the replication reported, and what the admin side of both databases shows afterwards *)
Inductive stepc := St (ops : list op) (counts : option (N * N)) (after : list (N * pobs * pobs)).

Inductive case :=
| CScen (tbl : digtbl) (steps : list stepc) (final : list (N * tree * tree))
| CResolver (ldel : bool) (l : revid) (rdel : bool) (r : revid) (local_won : bool)
| CRevDiff (t : tree) (ids missing : list revid).   (* db.RevDiff on a stored tree: the ids it reports missing *)

Fixpoint run_count (mk : option revid -> body -> list N) (s : sys) (ops : list op) : sys * N * N :=
  match ops with
  | [] => (s, 0, 0)
  | o :: r =>
      let st := step_status mk s o in
      let '(s', a, c) := run_count mk (step mk s o) r in
      (s', (if tstatus_eqb st TApplied then a + 1 else a), (if tstatus_eqb st TConflict then c + 1 else c))
  end.

Definition obs_ok (s : sys) (l : list (N * pobs * pobs)) : bool :=
  forallb (fun e => let '(d, oa, op) := e in
                    pobs_eqb (pobs_of (fst (s d))) oa && pobs_eqb (pobs_of (snd (s d))) op) l.

Fixpoint check_steps (mk : option revid -> body -> list N) (s : sys) (steps : list stepc) : option sys :=
  match steps with
  | [] => Some s
  | St ops counts after :: r =>
      let '(s', a, c) := run_count mk s ops in
      let cnt_ok := match counts with Some (a', c') => (a =? a') && (c =? c') | None => true end in
      if cnt_ok && obs_ok s' after then check_steps mk s' r else None
  end.

Definition check (c : case) : bool :=
  match c with
  | CScen tbl steps final =>
      match check_steps (mkdig_tbl tbl) sys0 steps with
      | Some s => forallb (fun e => let '(d, ta, tp) := e in
                                    tree_eqb (ptree (fst (s d))) ta && tree_eqb (ptree (snd (s d))) tp) final
      | None => false
      end
  | CResolver ldel l rdel r w => Bool.eqb (local_wins ldel l rdel r) w
  | CRevDiff t ids missing => list_eqb revid_eqb (rev_diff t ids) missing
  end.

Definition mismatches (cs : list case) : list N := failing check cs.
