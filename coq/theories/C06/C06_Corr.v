(* C06 correspondence: scenarios run by the Go harness (harness/rest/verif_c06_test.go) against two real
   Sync Gateway databases joined by an inter-Sync-Gateway replication (revision-tree sub-protocol) are
   re-run here on the model with vm_compute; the observables after every step and the final revision
   trees must agree.

   Revision ids are written I gen [n] where n is the 128-bit md5 value: for fixed-length lower-case hex
   digests the byte-wise order of the text is the numeric order, so cmp_dig on the one-element list is
   the comparison the code makes.  The md5 function is supplied as the table of the (parent, body)
   pairs that occur in the scenario, computed by the harness with db.CreateRevIDWithBytes. *)
From SG Require Export Base.Prelude Base.Bytes C06.Replication C06.VV C06.VVF C06.VVG.
From SG Require Import C10.HLV.
Open Scope N_scope.

Definition digtbl := list (option revid * body * N).
Definition mkdig_tbl (tbl : digtbl) (p : option revid) (b : body) : list N :=
  match find (fun e => opt_id_eqb (fst (fst e)) p && (snd (fst e) =? b)) tbl with
  | Some e => [snd e]
  | None => []          (* unknown pair: an id the implementation never produced *)
  end.

Record pobs := PO { o_cur : option revid; o_del : bool; o_body : option body }.
Definition pobs_eqb (a b : pobs) : bool :=
  opt_id_eqb (o_cur a) (o_cur b) && Bool.eqb (o_del a) (o_del b) && option_eqb N.eqb (o_body a) (o_body b).
Definition pobs_of (p : pdoc) : pobs := PO (cur p) (cur_del p) (cur_body p).

(* one harness step: the model operations it stands for, optionally the (applied, rejected-as-conflict)
   counts the replication reported, and what the admin side of both databases shows afterwards *)
Inductive stepc :=
| St (ops : list op) (counts : option (N * N)) (after : list (N * pobs * pobs))
(* a step made while a continuous replication runs (see VStS below) *)
| StS (ops : list op) (fresh both : bool) (docs : list N) (after : list (N * pobs * pobs)).

(* ---- version-vector (v4) scenarios: the model of VV.v re-run on the steps the real replicator ran ---- *)
(* what the admin side shows of one document: current version (source, value), tombstone flag, body *)
Record vpobs := VO { vo_cv : option (N * N); vo_del : bool; vo_body : option N }.
Definition vpobs_of (x : option vdoc) : vpobs :=
  match x with
  | Some d => VO (Some (cv (d_hlv d))) (d_del d) (Some (d_body d))
  | None => VO None false None
  end.
Definition vpobs_eqb (a b : vpobs) : bool :=
  option_eqb (fun x y => (fst x =? fst y) && (snd x =? snd y)) (vo_cv a) (vo_cv b) &&
  Bool.eqb (vo_del a) (vo_del b) && option_eqb N.eqb (vo_body a) (vo_body b).

(* one harness step: the model operations it stands for, optionally the counts of a one-shot run
   (documents stored by the receiver, documents refused with 409), and what both databases show afterwards *)
Inductive vstepc :=
| VSt (ops : list vop) (counts : option (N * N)) (after : list (N * vpobs * vpobs))
(* a step made while a CONTINUOUS replication runs (or its start): the operations, then what the session transfers.
   A continuous replication is change driven: it offers a document in a direction only when that side's copy has been
   written since the session last offered it (a revision it was refused is NOT offered again until the sender's copy
   changes -- the checkpoint has moved past it).  [fresh]: the session is new (no checkpoint: everything is offered);
   [both]: push-and-pull, otherwise pull only; [docs]: the documents in play. *)
| VStS (ops : list vop) (fresh both : bool) (docs : list N) (after : list (N * vpobs * vpobs)).

(* per document: (the active copy, the passive copy) was written since the session last offered it *)
Definition dirty := N -> bool * bool.
Definition dirty0 : dirty := fun _ => (false, false).
Definition all_dirty : dirty := fun _ => (true, true).
Definition set_dirty (dm : dirty) (d : N) (act : bool) (v : bool) : dirty :=
  fun x => if x =? d then (if act then (v, snd (dm d)) else (fst (dm d), v)) else dm x.

Definition vstored (st : vstatus) : bool :=
  match st with VApplied | VRemoteWins | VLocalWins => true | _ => false end.

Fixpoint vrun_count (s : vsys) (ops : list vop) : vsys * N * N :=
  match ops with
  | [] => (s, 0, 0)
  | o :: r =>
      let st := fstatus_of s o in
      let '(s', a, c) := vrun_count (fstep s o) r in
      (s', (if vstored st then a + 1 else a), (if vstatus_eqb st VConflict then c + 1 else c))
  end.

(* which copy an operation writes (None: nothing written) *)
Definition vop_writes (s : vsys) (o : vop) : list (N * bool) :=
  let st := fstatus_of s o in
  match o with
  | VEdit p d _ _ | VDelete p d _ => [(d, match p with VA => true | VB => false end)]
  | VPull d => if vstored st then [(d, true)] else []
  | VPush d => if vstored st then [(d, false)] else []
  | VPullRetry d _ _ => [(d, true)]
  end.

Fixpoint vrun_dirty (s : vsys) (dm : dirty) (ops : list vop) : vsys * dirty :=
  match ops with
  | [] => (s, dm)
  | o :: r => vrun_dirty (fstep s o) (fold_left (fun m e => set_dirty m (fst e) (snd e) true) (vop_writes s o) dm) r
  end.

(* one pass of the session over the documents: pull what changed on the passive side, push what changed on the active *)
Fixpoint vsess_pass (both : bool) (docs : list N) (s : vsys) (dm : dirty) : vsys * dirty :=
  match docs with
  | [] => (s, dm)
  | d :: r =>
      let '(s1, dm1) := if snd (dm d) then vrun_dirty s (set_dirty dm d false false) [VPull d] else (s, dm) in
      let '(s2, dm2) := if both && fst (dm1 d) then vrun_dirty s1 (set_dirty dm1 d true false) [VPush d] else (s1, dm1) in
      vsess_pass both r s2 dm2
  end.
Fixpoint vsession (fuel : nat) (both : bool) (docs : list N) (s : vsys) (dm : dirty) : vsys * dirty :=
  match fuel with
  | O => (s, dm)
  | S k => let '(s1, dm1) := vsess_pass both docs s dm in vsession k both docs s1 dm1
  end.

Definition vobs_ok (s : vsys) (l : list (N * vpobs * vpobs)) : bool :=
  forallb (fun e => let '(d, oa, op) := e in
                    vpobs_eqb (vpobs_of (vdoc_of s VA d)) oa && vpobs_eqb (vpobs_of (vdoc_of s VB d)) op) l.

Fixpoint vcheck_steps_d (s : vsys) (dm : dirty) (steps : list vstepc) : bool :=
  match steps with
  | [] => true
  | VSt ops counts after :: r =>
      let '(s', a, c) := vrun_count s ops in
      let dm' := snd (vrun_dirty s dm ops) in
      let cnt_ok := match counts with Some (a', c') => (a =? a') && (c =? c') | None => true end in
      cnt_ok && vobs_ok s' after && vcheck_steps_d s' dm' r
  | VStS ops fresh both docs after :: r =>
      let '(s1, dm1) := vrun_dirty s dm ops in
      let '(s2, dm2) := vsession 6 both docs s1 (if fresh then all_dirty else dm1) in
      vobs_ok s2 after && vcheck_steps_d s2 dm2 r
  end.
Definition vcheck_steps (s : vsys) (steps : list vstepc) : bool := vcheck_steps_d s dirty0 steps.

(* ---- version-vector scenarios with custom resolvers and more than two peers: the model of VVG.v ---- *)
(* what the harness writes down: a pull of peer [me] from peer [from] with the resolver r, a push of [me] to [to] *)
Definition hpull (me from : N) (r : rspec) (d phys : N) : gop := GXfer from me (Some (rs_fun r)) d phys.
Definition hpush (me to : N) (d : N) : gop := GXfer me to None d 0.

(* what the admin side of peer p shows of document d *)
Inductive gstepc := GSt (ops : list gop) (counts : option (N * N)) (after : list (N * N * vpobs)).

Definition gstored (st : gstatus) : bool :=
  match st with GApplied | GRemoteWins | GLocalWins | GMerged => true | _ => false end.

Fixpoint grun_count (s : gsys) (ops : list gop) : gsys * N * N :=
  match ops with
  | [] => (s, 0, 0)
  | o :: r =>
      let st := gstatus_of s o in
      let '(s', a, c) := grun_count (gstep s o) r in
      (s', (if gstored st then a + 1 else a), (if gstatus_eqb st GConflict then c + 1 else c))
  end.

Definition gobs_ok (s : gsys) (l : list (N * N * vpobs)) : bool :=
  forallb (fun e => let '(p, d, o) := e in vpobs_eqb (vpobs_of (gdoc s p d)) o) l.

Fixpoint gcheck_steps (s : gsys) (steps : list gstepc) : bool :=
  match steps with
  | [] => true
  | GSt ops counts after :: r =>
      let '(s', a, c) := grun_count s ops in
      let cnt_ok := match counts with Some (a', c') => (a =? a') && (c =? c') | None => true end in
      cnt_ok && gobs_ok s' after && gcheck_steps s' r
  end.

(* the same JavaScript resolvers under the revision-tree protocol: functions of the two bodies *)
Definition rt_fun (r : rspec) : policy :=
  match r with
  | RSDefault => default_policy
  | RSLocal => local_wins_policy
  | RSRemote => remote_wins_policy
  | RSMerge b => fun _ _ _ _ _ _ => RMerge b
  | RSNil => fun _ _ _ _ _ _ => RMerge b_tomb
  | RSMix => fun _ _ lb _ _ rb => if rb <? lb then RLocal else if lb <? rb then RRemote else RMerge (lb + 10)
  end.

(* db.DefaultLWWConflictResolutionType on (tombstone flag, current version value) of the local and the remote document *)
Definition lww_doc (source value : N) (del : bool) : vdoc := mkD (mkH source value [] []) 0 del [].

Inductive case :=
| CG (steps : list gstepc)
| CVV (steps : list vstepc)
| CLww (ldel : bool) (lver : N) (rdel : bool) (rver : N) (local_won : bool)
| CScen (tbl : digtbl) (steps : list stepc) (final : list (N * tree * tree))
| CResolver (ldel : bool) (l : revid) (rdel : bool) (r : revid) (local_won : bool)
| CRevDiff (t : tree) (ids missing : list revid).   (* db.RevDiff on a stored tree: the ids it reports missing *)

Fixpoint run_count (mk : option revid -> body -> list N) (s : sys) (ops : list op) : sys * N * N :=
  match ops with
  | [] => (s, 0, 0)
  | o :: r =>
      let st := step_status mk s o in
      let '(s', a, c) := run_count mk (step mk s o) r in
      (s', (if tstatus_eqb st TApplied then a + 1 else a), (if tstatus_eqb st TConflict then c + 1 else c))
  end.

Definition obs_ok (s : sys) (l : list (N * pobs * pobs)) : bool :=
  forallb (fun e => let '(d, oa, op) := e in
                    pobs_eqb (pobs_of (fst (s d))) oa && pobs_eqb (pobs_of (snd (s d))) op) l.

Definition op_writes (mk : option revid -> body -> list N) (s : sys) (o : op) : list (N * bool) :=
  let ap := tstatus_eqb (step_status mk s o) TApplied in
  match o with
  | Edit sd d _ | Delete sd d | Resurrect sd d _ => [(d, match sd with Act => true | Pas => false end)]
  | Push d => if ap then [(d, false)] else []
  | Pull d | PullP _ d => if ap then [(d, true)] else []
  end.

Fixpoint run_dirty (mk : option revid -> body -> list N) (s : sys) (dm : dirty) (ops : list op) : sys * dirty :=
  match ops with
  | [] => (s, dm)
  | o :: r => run_dirty mk (step mk s o) (fold_left (fun m e => set_dirty m (fst e) (snd e) true) (op_writes mk s o) dm) r
  end.

Fixpoint sess_pass (mk : option revid -> body -> list N) (both : bool) (docs : list N) (s : sys) (dm : dirty) : sys * dirty :=
  match docs with
  | [] => (s, dm)
  | d :: r =>
      let '(s1, dm1) := if snd (dm d) then run_dirty mk s (set_dirty dm d false false) [Pull d] else (s, dm) in
      let '(s2, dm2) := if both && fst (dm1 d) then run_dirty mk s1 (set_dirty dm1 d true false) [Push d] else (s1, dm1) in
      sess_pass mk both r s2 dm2
  end.
Fixpoint session (fuel : nat) (mk : option revid -> body -> list N) (both : bool) (docs : list N) (s : sys) (dm : dirty) : sys * dirty :=
  match fuel with
  | O => (s, dm)
  | S k => let '(s1, dm1) := sess_pass mk both docs s dm in session k mk both docs s1 dm1
  end.

Fixpoint check_steps_d (mk : option revid -> body -> list N) (s : sys) (dm : dirty) (steps : list stepc) : option sys :=
  match steps with
  | [] => Some s
  | St ops counts after :: r =>
      let '(s', a, c) := run_count mk s ops in
      let dm' := snd (run_dirty mk s dm ops) in
      let cnt_ok := match counts with Some (a', c') => (a =? a') && (c =? c') | None => true end in
      if cnt_ok && obs_ok s' after then check_steps_d mk s' dm' r else None
  | StS ops fresh both docs after :: r =>
      let '(s1, dm1) := run_dirty mk s dm ops in
      let '(s2, dm2) := session 6 mk both docs s1 (if fresh then all_dirty else dm1) in
      if obs_ok s2 after then check_steps_d mk s2 dm2 r else None
  end.
Definition check_steps (mk : option revid -> body -> list N) (s : sys) (steps : list stepc) : option sys :=
  check_steps_d mk s dirty0 steps.

Definition check (c : case) : bool :=
  match c with
  | CG steps => gcheck_steps gsys0 steps
  | CVV steps => vcheck_steps vsys0 steps
  | CLww ldel lver rdel rver w => Bool.eqb (negb (lww_remote_wins (lww_doc 1 lver ldel) (lww_doc 2 rver rdel))) w
  | CScen tbl steps final =>
      match check_steps (mkdig_tbl tbl) sys0 steps with
      | Some s => forallb (fun e => let '(d, ta, tp) := e in
                                    tree_eqb (ptree (fst (s d))) ta && tree_eqb (ptree (snd (s d))) tp) final
      | None => false
      end
  | CResolver ldel l rdel r w => Bool.eqb (local_wins ldel l rdel r) w
  | CRevDiff t ids missing => list_eqb revid_eqb (rev_diff t ids) missing
  end.

Definition mismatches (cs : list case) : list N := failing check cs.
