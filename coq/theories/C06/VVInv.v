(* C06 proofs, version-vector protocol, part 2: the invariant of the two-peer system, preserved by every
   operation (local writes, deletes, pulls with the LWW resolver, pushes), hence true after ANY operation list. *)
From SG Require Import Base.Prelude C10.AMap C10.HLV C10.HLVProofs C10.HLVOps C06.VV C06.VVProofs.
Open Scope N_scope.
#[local] Arguments N.max : simpl never.
#[local] Arguments N.eqb : simpl never.
#[local] Arguments N.leb : simpl never.
#[local] Arguments N.ltb : simpl never.
#[local] Arguments N.add : simpl never.

Definition other (p : vside) : vside := match p with VA => VB | VB => VA end.
Definition vside_eqb (a b : vside) : bool := match a, b with VA, VA | VB, VB => true | _, _ => false end.

Lemma vsrc_inj : forall p q, vsrc p = vsrc q -> p = q.
Proof. intros [] []; cbn; intros H; try reflexivity; discriminate. Qed.
Lemma vsrc_nz : forall p, vsrc p <> 0.
Proof. intros []; cbn; discriminate. Qed.

(* the two copies of a document are consistent: the same current version means the same content, and two
   copies that have each seen the other's current version hold the same current version *)
Definition pair_ok (x y : vdoc) : Prop :=
  (cv (d_hlv x) = cv (d_hlv y) -> d_body x = d_body y /\ d_del x = d_del y) /\
  (dominates (d_hlv x) (cv (d_hlv y)) = true -> dominates (d_hlv y) (cv (d_hlv x)) = true ->
   cv (d_hlv x) = cv (d_hlv y)).

Lemma pair_ok_sym : forall x y, pair_ok x y -> pair_ok y x.
Proof.
  intros x y [A B]. split.
  - intros E. symmetry in E. destruct (A E). auto.
  - intros D1 D2. symmetry. auto.
Qed.

Record VInv (s : vsys) : Prop := mkVInv {
  vi_simple : forall p d x, vdoc_of s p d = Some x -> simple (d_hlv x);
  (* every version of a database's source, wherever it is listed, was handed out by that database's clock *)
  vi_bound : forall p q d x e, vdoc_of s q d = Some x -> listed (d_hlv x) (vsrc p, e) -> e <= p_clk (peer_of s p);
  vi_pair : forall d x y, vdoc_of s VA d = Some x -> vdoc_of s VB d = Some y -> pair_ok x y
}.

Lemma vinv0 : VInv vsys0.
Proof. constructor; cbn; intros; try destruct p; try destruct q; cbn in *; discriminate. Qed.

(* ---------- state bookkeeping ---------- *)
Lemma peer_set_peer : forall s p x q, peer_of (set_peer s p x) q = if vside_eqb q p then x else peer_of s q.
Proof. intros s [] x []; reflexivity. Qed.

Lemma vdoc_set_peer : forall s p x q d,
  vdoc_of (set_peer s p x) q d = if vside_eqb q p then p_doc x d else vdoc_of s q d.
Proof. intros s [] x [] d; reflexivity. Qed.

Lemma updf_same : forall A (f : N -> A) k x, updf f k x k = x.
Proof. intros. unfold updf. now rewrite N.eqb_refl. Qed.
Lemma updf_other : forall A (f : N -> A) k x q, q <> k -> updf f k x q = f q.
Proof. intros. unfold updf. destruct (N.eqb_spec q k); [contradiction|reflexivity]. Qed.

(* ---------- a version above the clock is unknown everywhere ---------- *)
Lemma fresh_not_dominated : forall s p q d x v, VInv s -> vdoc_of s q d = Some x -> p_clk (peer_of s p) < v ->
  dominates (d_hlv x) (vsrc p, v) = false.
Proof.
  intros s p q d x v I X Hv. destruct (dominates (d_hlv x) (vsrc p, v)) eqn:D; [|reflexivity].
  apply dominates_spec in D. destruct D as [e [E L]]. apply get_value_listed in E.
  pose proof (vi_bound s I p q d x e X E). lia.
Qed.

Lemma fresh_not_cv : forall s p q d x v, VInv s -> vdoc_of s q d = Some x -> p_clk (peer_of s p) < v ->
  cv (d_hlv x) <> (vsrc p, v).
Proof.
  intros s p q d x v I X Hv E.
  pose proof (fresh_not_dominated s p q d x v I X Hv) as D. rewrite <- E in D.
  rewrite dominates_own_cv in D; [discriminate|]. apply (vi_simple s I q d x X).
Qed.

(* ---------- local writes ---------- *)
(* the vector a local write starts from, and what AddVersion makes of it *)
Lemma local_write_vector : forall s p d phys, VInv s ->
  let pr := peer_of s p in
  let h0 := match p_doc pr d with Some x => d_hlv x | None => empty_hlv end in
  let v := hlc_now phys (p_clk pr) (max_value_for_source h0 (vsrc p)) in
  exists h', add_version h0 (vsrc p, v) = Some h' /\ src h' = vsrc p /\ ver h' = v /\ mv h' = [] /\
             (forall e, listed h' e -> e = (vsrc p, v) \/ (exists x, p_doc pr d = Some x /\ listed (d_hlv x) e)).
Proof.
  intros s p d phys I pr h0 v.
  destruct (p_doc pr d) as [x|] eqn:X.
  - assert (S : simple (d_hlv x)) by (apply (vi_simple s I p d x); exact X).
    destruct (av_simple (d_hlv x) (vsrc p) v S (vsrc_nz p)) as [h' [A [B [C [D E]]]]].
    { subst v h0. apply hlc_now_gt_floor. }
    exists h'. subst h0. repeat split; auto. intros e L. apply E in L. destruct L; [auto|right; eauto].
  - subst h0. rewrite av_empty. eexists. split; [reflexivity|]. cbn. repeat split; auto.
    intros e L. unfold listed in L. cbn in L. destruct L as [L|[L|L]]; [auto|contradiction|contradiction].
Qed.

Lemma local_write_inv : forall s p d body del phys, VInv s ->
  VInv (set_peer s p (local_write p (peer_of s p) d body del phys)).
Proof.
  intros s p d body del phys I.
  destruct (local_write_vector s p d phys I) as [h' [A [B [C [D E]]]]].
  unfold local_write. cbv zeta in A. rewrite A.
  set (v := hlc_now phys (p_clk (peer_of s p))
              (max_value_for_source match p_doc (peer_of s p) d with Some x => d_hlv x | None => empty_hlv end (vsrc p))) in *.
  assert (Hv : p_clk (peer_of s p) < v) by (subst v; apply hlc_now_gt_clock).
  set (nd := mkD h' body del ((if del then del_digest_body else body) ::
               match p_doc (peer_of s p) d with Some x => d_rev x | None => [] end)).
  set (s' := set_peer s p (mkP (updf (p_doc (peer_of s p)) d (Some nd)) v)).
  (* the documents of the new state *)
  assert (DOC : forall q d', vdoc_of s' q d' = if vside_eqb q p && (d' =? d) then Some nd else vdoc_of s q d').
  { intros q d'. unfold s'. rewrite vdoc_set_peer. destruct (vside_eqb q p) eqn:Q; [|reflexivity].
    cbn [p_doc andb]. unfold updf. destruct (N.eqb_spec d' d); [reflexivity|].
    destruct q, p; try discriminate; reflexivity. }
  assert (CLK : forall q, p_clk (peer_of s q) <= p_clk (peer_of s' q)).
  { intros q. unfold s'. rewrite peer_set_peer. destruct (vside_eqb q p) eqn:Q; [|lia].
    cbn [p_clk]. destruct q, p; try discriminate; lia. }
  assert (CLKp : p_clk (peer_of s' p) = v).
  { unfold s'. rewrite peer_set_peer. destruct p; reflexivity. }
  assert (NDcv : cv (d_hlv nd) = (vsrc p, v)) by (unfold nd, cv; cbn; now rewrite B, C).
  constructor.
  - intros q d' x X. rewrite DOC in X. destruct (vside_eqb q p && (d' =? d)).
    + inv X. cbn. split; [exact D | rewrite B; apply vsrc_nz].
    + apply (vi_simple s I q d' x X).
  - intros p0 q d' x e X L. rewrite DOC in X. destruct (vside_eqb q p && (d' =? d)) eqn:Q.
    + inv X. cbn [d_hlv] in L. apply E in L. destruct L as [L|[x0 [X0 L]]].
      * inv L. apply vsrc_inj in H0. subst p0. rewrite CLKp. lia.
      * pose proof (vi_bound s I p0 p d x0 e X0 L). specialize (CLK p0). lia.
    + pose proof (vi_bound s I p0 q d' x e X L). specialize (CLK p0). lia.
  - intros d' x y X Y. rewrite DOC in X, Y.
    destruct (N.eqb_spec d' d) as [->|Nd].
    + (* the written document: the other copy cannot know the new version *)
      destruct p; cbn [vside_eqb andb] in X, Y.
      * inv X. split.
        -- intros Ecv. rewrite NDcv in Ecv. symmetry in Ecv.
           exfalso. exact (fresh_not_cv s VA VB d y v I Y Hv Ecv).
        -- intros _ D2. rewrite NDcv in D2. rewrite (fresh_not_dominated s VA VB d y v I Y Hv) in D2. discriminate.
      * inv Y. split.
        -- intros Ecv. rewrite NDcv in Ecv.
           exfalso. exact (fresh_not_cv s VB VA d x v I X Hv Ecv).
        -- intros D1 _. rewrite NDcv in D1. rewrite (fresh_not_dominated s VB VA d x v I X Hv) in D1. discriminate.
    + rewrite !andb_false_r in X, Y. apply (vi_pair s I d' x y X Y).
Qed.

(* ---------- what a transfer can store ---------- *)
Lemma adopt_facts : forall hl i, simple (d_hlv i) -> (hl = empty_hlv \/ simple hl) ->
  let r := adopt hl i in
  simple (d_hlv r) /\ cv (d_hlv r) = cv (d_hlv i) /\ d_body r = d_body i /\ d_del r = d_del i /\
  (forall e, listed (d_hlv r) e -> listed (d_hlv i) e \/ (hl <> empty_hlv /\ listed hl e)).
Proof.
  intros hl i Si [->|Sl]; cbn zeta; unfold adopt; cbn [d_hlv d_body d_del].
  - rewrite update_with_incoming_empty. repeat split; auto; apply Si.
  - unfold update_with_incoming. repeat split; auto.
    + destruct (uh_simple (d_hlv i) hl Si Sl); auto.
    + destruct (uh_simple (d_hlv i) hl Si Sl); auto.
    + now apply uh_cv.
    + intros e L. apply uh_listed in L; [|exact Sl]. destruct L; [auto|right]. split; [|assumption].
      intros ->. destruct Sl as [_ N]. apply N. reflexivity.
Qed.

Lemma local_wins_facts : forall l i, simple (d_hlv l) -> simple (d_hlv i) ->
  let r := resolve_local_wins l i in
  simple (d_hlv r) /\ cv (d_hlv r) = cv (d_hlv l) /\ d_body r = d_body l /\ d_del r = d_del l /\
  (forall e, listed (d_hlv r) e -> listed (d_hlv l) e \/ listed (d_hlv i) e).
Proof.
  intros l i Sl Si. cbn zeta. unfold resolve_local_wins, update_with_incoming. cbn [d_hlv d_body d_del].
  repeat split; auto.
  - destruct (uh_simple (d_hlv l) (d_hlv i) Sl Si); auto.
  - destruct (uh_simple (d_hlv l) (d_hlv i) Sl Si); auto.
  - now apply uh_cv.
  - intros e L. apply uh_listed in L; [|exact Si]. exact L.
Qed.

(* the result of a transfer, classified *)
Inductive tresult (resolver : bool) (i : vdoc) (l : option vdoc) : option vdoc -> vstatus -> Prop :=
| TRkeep : forall st, st <> VApplied -> st <> VRemoteWins -> st <> VLocalWins -> tresult resolver i l l st
| TRnew : l = None -> tresult resolver i l (Some (adopt empty_hlv i)) VApplied
| TRadopt : forall x st, l = Some x -> dominates (d_hlv x) (cv (d_hlv i)) = false ->
    (st = VApplied \/ st = VRemoteWins) -> tresult resolver i l (Some (adopt (d_hlv x) i)) st
| TRlocal : forall x, l = Some x -> resolver = true ->
    dominates (d_hlv x) (cv (d_hlv i)) = false -> dominates (d_hlv i) (cv (d_hlv x)) = false ->
    d_del i && d_del x = false -> lww_remote_wins x i = false ->
    tresult resolver i l (Some (resolve_local_wins x i)) VLocalWins.

Lemma vtransfer_result : forall resolver i l,
  (forall x, l = Some x -> mv (d_hlv x) = []) ->
  tresult resolver i l (fst (vtransfer resolver (Some i) l)) (snd (vtransfer resolver (Some i) l)).
Proof.
  intros resolver i l Hm. unfold vtransfer. destruct l as [x|]; [|cbn; now apply TRnew].
  destruct (dominates (d_hlv x) (cv (d_hlv i))) eqn:D; [cbn; apply TRkeep; discriminate|].
  destruct (d_del i && d_del x) eqn:T; [cbn; eapply TRadopt; eauto|].
  destruct (is_in_conflict (d_hlv x) (d_hlv i)) eqn:C.
  - cbn. eapply TRadopt; eauto.
  - apply (proj1 (proj2 (status_cases _ _))) in C. destruct C as [_ [C1 [_ _]]].
    destruct resolver; [|cbn; apply TRkeep; discriminate].
    destruct (lww_remote_wins x i) eqn:W; cbn.
    + unfold resolve_remote_wins. eapply TRadopt; eauto.
    + eapply TRlocal; eauto.
  - cbn. apply TRkeep; discriminate.
Qed.

(* ---------- transfers preserve the invariant ---------- *)
(* storing [r] as the copy of side [p] of document [d] *)
Definition store (s : vsys) (p : vside) (d : N) (r : option vdoc) : vsys :=
  set_peer s p (set_doc (peer_of s p) d r).

Lemma vdoc_store : forall s p d r q d',
  vdoc_of (store s p d r) q d' = if vside_eqb q p && (d' =? d) then r else vdoc_of s q d'.
Proof.
  intros s p d r q d'. unfold store. rewrite vdoc_set_peer. destruct (vside_eqb q p) eqn:Q; [|reflexivity].
  cbn [set_doc p_doc andb]. unfold updf. destruct (N.eqb_spec d' d); [reflexivity|].
  destruct q, p; try discriminate; reflexivity.
Qed.

Lemma clk_store : forall s p d r q, p_clk (peer_of (store s p d r) q) = p_clk (peer_of s q).
Proof. intros s [] d r []; reflexivity. Qed.

Lemma store_inv : forall s p d i r st resolver, VInv s ->
  vdoc_of s (other p) d = Some i ->
  tresult resolver i (vdoc_of s p d) r st ->
  VInv (store s p d r).
Proof.
  intros s p d i r st resolver I Xi T.
  assert (Si : simple (d_hlv i)) by (apply (vi_simple s I (other p) d i Xi)).
  (* what is known about the stored copy *)
  assert (K : r = vdoc_of s p d \/
              exists y, r = Some y /\ simple (d_hlv y) /\
                (forall e, listed (d_hlv y) e -> listed (d_hlv i) e \/ exists x, vdoc_of s p d = Some x /\ listed (d_hlv x) e) /\
                pair_ok y i).
  { destruct T as [st0 _ _ _ | Hn | x st0 Hx D _ | x Hx _ D1 D2 _ _].
    - left. reflexivity.
    - right. destruct (adopt_facts empty_hlv i Si (or_introl eq_refl)) as [A [B [C [D E]]]].
      eexists. split; [reflexivity|]. split; [exact A|]. split.
      + intros e L. apply E in L. destruct L as [L|[N _]]; [auto|contradiction].
      + split; [intros _; auto | intros _ _; exact B].
    - right. assert (Sx : simple (d_hlv x)) by (apply (vi_simple s I p d x Hx)).
      destruct (adopt_facts (d_hlv x) i Si (or_intror Sx)) as [A [B [C [D' E]]]].
      eexists. split; [reflexivity|]. split; [exact A|]. split.
      + intros e L. apply E in L. destruct L as [L|[_ L]]; [auto|right; eauto].
      + split; [intros _; auto | intros _ _; exact B].
    - right. assert (Sx : simple (d_hlv x)) by (apply (vi_simple s I p d x Hx)).
      destruct (local_wins_facts x i Sx Si) as [A [B [C [D' E]]]].
      eexists. split; [reflexivity|]. split; [exact A|]. split.
      + intros e L. apply E in L. destruct L as [L|L]; [right; eauto|auto].
      + assert (PX : pair_ok x i).
        { destruct p; cbn [other] in Xi; [exact (vi_pair s I d x i Hx Xi) | apply pair_ok_sym; exact (vi_pair s I d i x Xi Hx)]. }
        split.
        * rewrite B, C, D'. apply PX.
        * intros _ Dy. rewrite B in Dy. congruence. }
  destruct K as [-> | [y [-> [Sy [Ly Py]]]]].
  { (* nothing stored *)
    assert (E : forall q d', vdoc_of (store s p d (vdoc_of s p d)) q d' = vdoc_of s q d').
    { intros q d'. rewrite vdoc_store. destruct (vside_eqb q p) eqn:Q; [|reflexivity].
      destruct (N.eqb_spec d' d); [|reflexivity]. subst. destruct q, p; try discriminate; reflexivity. }
    constructor.
    - intros q d' x X. rewrite E in X. apply (vi_simple s I q d' x X).
    - intros p0 q d' x e X L. rewrite E in X. rewrite clk_store. apply (vi_bound s I p0 q d' x e X L).
    - intros d' x z X Z. rewrite E in X, Z. apply (vi_pair s I d' x z X Z). }
  constructor.
  - intros q d' x X. rewrite vdoc_store in X. destruct (vside_eqb q p && (d' =? d)).
    + inv X. exact Sy.
    + apply (vi_simple s I q d' x X).
  - intros p0 q d' x e X L. rewrite clk_store. rewrite vdoc_store in X.
    destruct (vside_eqb q p && (d' =? d)).
    + inv X. apply Ly in L. destruct L as [L|[x0 [X0 L]]].
      * apply (vi_bound s I p0 (other p) d i e Xi L).
      * apply (vi_bound s I p0 p d x0 e X0 L).
    + apply (vi_bound s I p0 q d' x e X L).
  - intros d' x z X Z. rewrite vdoc_store in X, Z.
    destruct (N.eqb_spec d' d) as [->|Nd].
    + destruct p; cbn [vside_eqb andb other] in X, Z, Xi.
      * inv X. rewrite Xi in Z. inv Z. exact Py.
      * inv Z. rewrite Xi in X. inv X. apply pair_ok_sym. exact Py.
    + rewrite !andb_false_r in X, Z. apply (vi_pair s I d' x z X Z).
Qed.

(* ---------- every operation preserves the invariant ---------- *)
Lemma vstep_pull : forall s d, vstep s (VPull d) = store s VA d (fst (vtransfer true (vdoc_of s VB d) (vdoc_of s VA d))).
Proof.
  intros s d. unfold vstep, vstep_full, pull_full. destruct (vtransfer true (vdoc_of s VB d) (vdoc_of s VA d)). reflexivity.
Qed.
Lemma vstep_push : forall s d, vstep s (VPush d) = store s VB d (fst (vtransfer false (vdoc_of s VA d) (vdoc_of s VB d))).
Proof.
  intros s d. unfold vstep, vstep_full, push_full. destruct (vtransfer false (vdoc_of s VA d) (vdoc_of s VB d)). reflexivity.
Qed.

(* the retried pull is the pull made after the interposed local PUT *)
Lemma vstep_pull_retry : forall s d body phys,
  vstep s (VPullRetry d body phys) = vstep (vstep s (VEdit VA d body phys)) (VPull d) /\
  vstatus_of s (VPullRetry d body phys) = vstatus_of (vstep s (VEdit VA d body phys)) (VPull d).
Proof. intros. split; reflexivity. Qed.

Lemma transfer_inv : forall s p d resolver, VInv s ->
  VInv (store s p d (fst (vtransfer resolver (vdoc_of s (other p) d) (vdoc_of s p d)))).
Proof.
  intros s p d resolver I. destruct (vdoc_of s (other p) d) as [i|] eqn:Xi.
  - eapply store_inv; [exact I | exact Xi |]. apply vtransfer_result.
    intros x X. apply (vi_simple s I p d x X).
  - (* nothing to send *)
    cbn [vtransfer fst]. constructor.
    + intros q d' x X. rewrite vdoc_store in X. destruct (vside_eqb q p && (d' =? d)) eqn:Q.
      * apply andb_true_iff in Q. destruct Q as [Q1 Q2]. apply N.eqb_eq in Q2. subst.
        destruct q, p; try discriminate; apply (vi_simple s I _ d x X).
      * apply (vi_simple s I q d' x X).
    + intros p0 q d' x e X L. rewrite clk_store. rewrite vdoc_store in X. destruct (vside_eqb q p && (d' =? d)) eqn:Q.
      * apply andb_true_iff in Q. destruct Q as [Q1 Q2]. apply N.eqb_eq in Q2. subst.
        destruct q, p; try discriminate; apply (vi_bound s I p0 _ d x e X L).
      * apply (vi_bound s I p0 q d' x e X L).
    + intros d' x z X Z. rewrite vdoc_store in X, Z.
      destruct (N.eqb_spec d' d) as [->|Nd].
      * destruct p; cbn [vside_eqb andb other] in X, Z, Xi; [rewrite Xi in Z | rewrite Xi in X]; discriminate.
      * rewrite !andb_false_r in X, Z. apply (vi_pair s I d' x z X Z).
Qed.

Theorem vstep_inv : forall s o, VInv s -> VInv (vstep s o).
Proof.
  intros s o I. destruct o as [p d body phys | p d phys | d | d | d body phys].
  - apply local_write_inv. exact I.
  - unfold vstep, vstep_full. destruct (vdoc_of s p d) as [x|]; [|exact I].
    apply local_write_inv. exact I.
  - rewrite vstep_pull. apply (transfer_inv s VA d true I).
  - rewrite vstep_push. apply (transfer_inv s VB d false I).
  - rewrite (proj1 (vstep_pull_retry s d body phys)). rewrite vstep_pull.
    apply (transfer_inv _ VA d true). apply local_write_inv. exact I.
Qed.

Theorem vrun_inv : forall ops s, VInv s -> VInv (vrun s ops).
Proof. induction ops as [|o r IH]; intros s I; [exact I|]. cbn. apply IH, vstep_inv, I. Qed.

Theorem reachable_vinv : forall ops, VInv (vrun vsys0 ops).
Proof. intros ops. apply vrun_inv, vinv0. Qed.
