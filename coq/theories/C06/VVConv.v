(* C06 proofs, version-vector protocol, part 3: convergence of Pull d; Push d after ANY operation list, the
   winner both sides adopt, caught-up peers transfer nothing, local writes generate fresh versions. *)
From SG Require Import Base.Prelude C10.AMap C10.HLV C10.HLVProofs C10.HLVOps C06.VV C06.VVProofs C06.VVInv.
Open Scope N_scope.
#[local] Arguments N.max : simpl never.
#[local] Arguments N.eqb : simpl never.
#[local] Arguments N.leb : simpl never.
#[local] Arguments N.ltb : simpl never.
#[local] Arguments N.add : simpl never.

(* ---------- the verdict of IsInConflict on vectors without merge versions ---------- *)
Lemma conflict_iff : forall hl hi, mv hl = [] ->
  (is_in_conflict hl hi = Conflict <->
   equal_cv hl hi = false /\ dominates hi (cv hl) = false /\ dominates hl (cv hi) = false).
Proof.
  intros hl hi Hm. rewrite (proj1 (proj2 (status_cases hl hi))). rewrite (same_merge_simple hl hi Hm). tauto.
Qed.

Lemma no_conflict_when_seen : forall hl hi, cv hl <> cv hi -> dominates hi (cv hl) = true ->
  is_in_conflict hl hi = NoConflict.
Proof.
  intros hl hi N D. unfold is_in_conflict. apply equal_cv_false in N. now rewrite N, D.
Qed.

(* ---------- Pull then Push on the two copies of one document ---------- *)
Definition pull_of (a b : option vdoc) : option vdoc := fst (vtransfer true b a).
Definition push_of (a b : option vdoc) : option vdoc := fst (vtransfer false a b).

Lemma adopt_obs : forall hl i, (hl = empty_hlv \/ simple hl) -> simple (d_hlv i) ->
  vobs (Some (adopt hl i)) = vobs (Some i).
Proof.
  intros hl i Hl Si. destruct (adopt_facts hl i Si Hl) as [_ [B [C [D _]]]]. cbn zeta in *.
  unfold vobs. now rewrite B, C, D.
Qed.

(* the receiver already holds the sender's current version *)
Lemma transfer_known : forall resolver i l, src (d_hlv l) <> 0 -> cv (d_hlv i) = cv (d_hlv l) ->
  vtransfer resolver (Some i) (Some l) = (Some l, VKnown).
Proof.
  intros resolver i l Hs E. unfold vtransfer. rewrite E, dominates_own_cv by assumption. reflexivity.
Qed.

Lemma pull_push_converge : forall a b,
  (forall x, a = Some x -> simple (d_hlv x)) -> (forall y, b = Some y -> simple (d_hlv y)) ->
  (forall x y, a = Some x -> b = Some y -> pair_ok x y) ->
  vobs (pull_of a b) = vobs (push_of (pull_of a b) b).
Proof.
  intros a b Sa Sb PO. unfold pull_of, push_of.
  destruct b as [y|].
  2:{ (* the passive side has no document: nothing is pulled, the active copy is pushed as it is *)
      cbn [vtransfer fst]. destruct a as [x|]; [|reflexivity].
      cbn [vtransfer fst]. symmetry. apply adopt_obs; [auto | apply Sa; reflexivity]. }
  assert (Sy : simple (d_hlv y)) by (apply Sb; reflexivity).
  destruct a as [x|].
  2:{ (* new on the active side *)
      assert (P : fst (vtransfer true (Some y) None) = Some (adopt empty_hlv y)) by reflexivity. rewrite P.
      assert (O : vobs (Some (adopt empty_hlv y)) = vobs (Some y)) by (apply adopt_obs; auto).
      rewrite transfer_known; cbn [fst].
      - exact O.
      - apply Sy.
      - unfold adopt. cbn [d_hlv]. now rewrite update_with_incoming_empty. }
  assert (Sx : simple (d_hlv x)) by (apply Sa; reflexivity).
  (* storing the passive copy on the active side, then pushing: the passive side knows it *)
  assert (ADOPT : vobs (Some (adopt (d_hlv x) y)) =
                  vobs (fst (vtransfer false (Some (adopt (d_hlv x) y)) (Some y)))).
  { destruct (adopt_facts (d_hlv x) y Sy (or_intror Sx)) as [_ [B _]]. cbn zeta in B.
    rewrite transfer_known; [|apply Sy|exact B]. cbn [fst]. apply adopt_obs; auto. }
  remember (vtransfer true (Some y) (Some x)) as t eqn:Et. unfold vtransfer in Et.
  destruct (dominates (d_hlv x) (cv (d_hlv y))) eqn:Dxy.
  { (* the active side already knows the passive version: push *)
    subst t. cbn [fst]. unfold vtransfer.
    destruct (dominates (d_hlv y) (cv (d_hlv x))) eqn:Dyx.
    - cbn [fst]. destruct (PO x y eq_refl eq_refl) as [PEq PCaus]. pose proof (PCaus Dxy Dyx) as E. destruct (PEq E) as [E1 E2]. unfold vobs. now rewrite E, E1, E2.
    - assert (N : cv (d_hlv y) <> cv (d_hlv x)).
      { intros E. rewrite (dominates_same_cv (d_hlv x) (d_hlv y)) in Dyx; [discriminate|apply Sy|auto]. }
      destruct (d_del x && d_del y); [cbn [fst]; symmetry; apply adopt_obs; auto|].
      rewrite (no_conflict_when_seen (d_hlv y) (d_hlv x) N Dxy). cbn [fst]. symmetry. apply adopt_obs; auto. }
  destruct (d_del y && d_del x) eqn:T; [subst t; cbn [fst]; exact ADOPT|].
  destruct (is_in_conflict (d_hlv x) (d_hlv y)) eqn:C.
  - subst t. cbn [fst]. exact ADOPT.
  - apply conflict_iff in C; [|apply Sx]. destruct C as [C0 [C1 C2]].
    destruct (lww_remote_wins x y); subst t; cbn [fst]; [exact ADOPT|].
    (* local wins: the resolved copy keeps its version, has seen the passive one, and is pushed *)
    destruct (local_wins_facts x y Sx Sy) as [Sr [B [Cb [Cd _]]]]. cbn zeta in *.
    set (r := resolve_local_wins x y) in *.
    unfold vtransfer. rewrite B, C1. rewrite Cd. rewrite andb_comm in T. rewrite T.
    assert (N : cv (d_hlv y) <> cv (d_hlv r)).
    { rewrite B. intros E. apply equal_cv_false in C0. auto. }
    assert (D : dominates (d_hlv r) (cv (d_hlv y)) = true).
    { unfold r, resolve_local_wins, update_with_incoming. cbn [d_hlv]. apply uh_dominates_inc; [apply Sx | exact Sy |].
      apply concurrent_sources_differ; [apply Sx | apply Sy | exact C2 | exact C1]. }
    rewrite (no_conflict_when_seen (d_hlv y) (d_hlv r) N D). cbn [fst]. symmetry. apply adopt_obs; auto.
  - (* "already present" contradicts the first test *)
    exfalso. apply (proj1 (status_cases _ _)) in C. destruct C as [C|[_ C]]; [|congruence].
    apply equal_cv_spec in C. rewrite (dominates_same_cv (d_hlv y) (d_hlv x)) in Dxy; [discriminate|apply Sx|auto].
Qed.

(* ---------- lifted to the system ---------- *)
Lemma pull_docs : forall s d,
  vdoc_of (vstep s (VPull d)) VA d = pull_of (vdoc_of s VA d) (vdoc_of s VB d) /\
  vdoc_of (vstep s (VPull d)) VB d = vdoc_of s VB d.
Proof. intros s d. rewrite vstep_pull, !vdoc_store. cbn. now rewrite N.eqb_refl. Qed.

Lemma push_docs : forall s d,
  vdoc_of (vstep s (VPush d)) VB d = push_of (vdoc_of s VA d) (vdoc_of s VB d) /\
  vdoc_of (vstep s (VPush d)) VA d = vdoc_of s VA d.
Proof. intros s d. rewrite vstep_push, !vdoc_store. cbn. now rewrite N.eqb_refl. Qed.

Theorem lww_converges_inv : forall s d, VInv s ->
  let s' := vstep (vstep s (VPull d)) (VPush d) in
  vobs (vdoc_of s' VA d) = vobs (vdoc_of s' VB d).
Proof.
  intros s d I. cbn zeta.
  destruct (push_docs (vstep s (VPull d)) d) as [P1 P2]. destruct (pull_docs s d) as [Q1 Q2].
  rewrite P1, P2, Q1, Q2. apply pull_push_converge.
  - intros x X. apply (vi_simple s I VA d x X).
  - intros y Y. apply (vi_simple s I VB d y Y).
  - intros x y X Y. apply (vi_pair s I d x y X Y).
Qed.

Theorem lww_converges : forall ops d,
  let s := vrun (vrun vsys0 ops) [VPull d; VPush d] in
  vobs (vdoc_of s VA d) = vobs (vdoc_of s VB d).
Proof. intros ops d. cbn [vrun]. apply lww_converges_inv, reachable_vinv. Qed.

(* ---------- the single winner both sides adopt ---------- *)
Theorem lww_winner_adopted : forall ops d x y,
  let s := vrun vsys0 ops in
  vdoc_of s VA d = Some x -> vdoc_of s VB d = Some y ->
  dominates (d_hlv x) (cv (d_hlv y)) = false -> dominates (d_hlv y) (cv (d_hlv x)) = false ->
  d_del x && d_del y = false ->
  vstatus_of s (VPull d) = (if lww_remote_wins x y then VRemoteWins else VLocalWins) /\
  let s' := vstep (vstep s (VPull d)) (VPush d) in
  vobs (vdoc_of s' VA d) = vobs (Some (lww_winner x y)) /\ vobs (vdoc_of s' VB d) = vobs (Some (lww_winner x y)).
Proof.
  intros ops d x y s X Y D1 D2 T.
  pose proof (reachable_vinv ops) as I. fold s in I.
  assert (Sx : simple (d_hlv x)) by (apply (vi_simple s I VA d x X)).
  assert (Sy : simple (d_hlv y)) by (apply (vi_simple s I VB d y Y)).
  assert (N : equal_cv (d_hlv x) (d_hlv y) = false).
  { apply equal_cv_false. intros E. rewrite (dominates_same_cv (d_hlv x) (d_hlv y)) in D2; [discriminate|apply Sy|auto]. }
  assert (C : is_in_conflict (d_hlv x) (d_hlv y) = Conflict) by (apply conflict_iff; [apply Sx|auto]).
  assert (TR : vtransfer true (Some y) (Some x) =
               if lww_remote_wins x y then (Some (resolve_remote_wins x y), VRemoteWins)
               else (Some (resolve_local_wins x y), VLocalWins)).
  { unfold vtransfer. rewrite D1. rewrite andb_comm in T. rewrite T, C. reflexivity. }
  split.
  - unfold vstatus_of, vstep_full, pull_full. rewrite X, Y, TR. destruct (lww_remote_wins x y); reflexivity.
  - cbn zeta. pose proof (lww_converges_inv s d I) as CV. cbn zeta in CV.
    destruct (push_docs (vstep s (VPull d)) d) as [_ P2]. destruct (pull_docs s d) as [Q1 _].
    assert (A : vobs (vdoc_of (vstep (vstep s (VPull d)) (VPush d)) VA d) = vobs (Some (lww_winner x y))).
    { rewrite P2, Q1. unfold pull_of. rewrite X, Y, TR. unfold lww_winner.
      destruct (lww_remote_wins x y); cbn [fst].
      - apply adopt_obs; auto.
      - destruct (local_wins_facts x y Sx Sy) as [_ [B [Cb [Cd _]]]]. cbn zeta in *. unfold vobs. now rewrite B, Cb, Cd. }
    split; [exact A | rewrite <- CV; exact A].
Qed.

(* after a resolution the stored vector has seen the current versions of BOTH sides: offering either again is
   answered "known" *)
Theorem resolution_dominates_both : forall l i, simple (d_hlv l) -> simple (d_hlv i) ->
  dominates (d_hlv l) (cv (d_hlv i)) = false -> dominates (d_hlv i) (cv (d_hlv l)) = false ->
  let r := if lww_remote_wins l i then resolve_remote_wins l i else resolve_local_wins l i in
  dominates (d_hlv r) (cv (d_hlv l)) = true /\ dominates (d_hlv r) (cv (d_hlv i)) = true.
Proof.
  intros l i Sl Si D1 D2. cbn zeta.
  assert (Ne : src (d_hlv l) <> src (d_hlv i)) by (apply concurrent_sources_differ; [apply Sl|apply Si|auto|auto]).
  destruct (lww_remote_wins l i); unfold resolve_remote_wins, adopt, resolve_local_wins, update_with_incoming; cbn [d_hlv].
  - split; [apply uh_dominates_inc; [apply Si|exact Sl|auto] | apply uh_dominates_own; [exact Sl|apply Si]].
  - split; [apply uh_dominates_own; [exact Si|apply Sl] | apply uh_dominates_inc; [apply Sl|exact Si|auto]].
Qed.

(* ---------- caught-up peers transfer nothing ---------- *)
Lemma store_same : forall s p d q d', vdoc_of (store s p d (vdoc_of s p d)) q d' = vdoc_of s q d'.
Proof.
  intros s p d q d'. rewrite vdoc_store. destruct (vside_eqb q p) eqn:Q; [|reflexivity].
  destruct (N.eqb_spec d' d); [|reflexivity]. subst. destruct q, p; try discriminate; reflexivity.
Qed.

Theorem vv_caught_up_transfers_nothing : forall ops d,
  let s := vrun vsys0 ops in
  vobs (vdoc_of s VA d) = vobs (vdoc_of s VB d) ->
  (forall q d', vdoc_of (vstep s (VPull d)) q d' = vdoc_of s q d') /\
  (forall q d', vdoc_of (vstep s (VPush d)) q d' = vdoc_of s q d') /\
  (vstatus_of s (VPull d) = VKnown \/ vstatus_of s (VPull d) = VNothing) /\
  (vstatus_of s (VPush d) = VKnown \/ vstatus_of s (VPush d) = VNothing).
Proof.
  intros ops d s O. pose proof (reachable_vinv ops) as I. fold s in I.
  destruct (vdoc_of s VA d) as [x|] eqn:X, (vdoc_of s VB d) as [y|] eqn:Y; cbn in O; try discriminate.
  - assert (E : cv (d_hlv x) = cv (d_hlv y)) by congruence.
    assert (Sx : simple (d_hlv x)) by (apply (vi_simple s I VA d x X)).
    assert (Sy : simple (d_hlv y)) by (apply (vi_simple s I VB d y Y)).
    assert (T1 : vtransfer true (Some y) (Some x) = (Some x, VKnown)) by (apply transfer_known; [apply Sx|auto]).
    assert (T2 : vtransfer false (Some x) (Some y) = (Some y, VKnown)) by (apply transfer_known; [apply Sy|auto]).
    repeat split.
    + intros q d'. rewrite vstep_pull, X, Y, T1. cbn [fst]. rewrite <- X. apply store_same.
    + intros q d'. rewrite vstep_push, X, Y, T2. cbn [fst]. rewrite <- Y. apply store_same.
    + left. unfold vstatus_of, vstep_full, pull_full. now rewrite X, Y, T1.
    + left. unfold vstatus_of, vstep_full, push_full. now rewrite X, Y, T2.
  - repeat split.
    + intros q d'. rewrite vstep_pull, X, Y. cbn [vtransfer fst]. rewrite <- X. apply store_same.
    + intros q d'. rewrite vstep_push, X, Y. cbn [vtransfer fst]. rewrite <- Y. apply store_same.
    + right. unfold vstatus_of, vstep_full, pull_full. now rewrite X, Y.
    + right. unfold vstatus_of, vstep_full, push_full. now rewrite X, Y.
Qed.

(* re-running the caught-up replication: a second Pull d; Push d stores nothing *)
Theorem vv_rerun_transfers_nothing : forall ops d,
  let s := vrun (vrun vsys0 ops) [VPull d; VPush d] in
  (forall q d', vdoc_of (vstep s (VPull d)) q d' = vdoc_of s q d') /\
  (forall q d', vdoc_of (vstep s (VPush d)) q d' = vdoc_of s q d') /\
  (vstatus_of s (VPull d) = VKnown \/ vstatus_of s (VPull d) = VNothing) /\
  (vstatus_of s (VPush d) = VKnown \/ vstatus_of s (VPush d) = VNothing).
Proof.
  intros ops d. cbn zeta.
  assert (R : vrun (vrun vsys0 ops) [VPull d; VPush d] = vrun vsys0 (ops ++ [VPull d; VPush d])).
  { generalize vsys0. induction ops as [|o r IH]; intros s0; [reflexivity|]. cbn. apply IH. }
  rewrite R. apply vv_caught_up_transfers_nothing. rewrite <- R. apply lww_converges.
Qed.

(* a transfer is never answered "already present" after the revision was sent: CheckChangeVersion filtered it *)
Theorem vv_never_cancelled : forall ops o, vstatus_of (vrun vsys0 ops) o <> VCancelled.
Proof.
  intros ops o. pose proof (reachable_vinv ops) as I. set (s := vrun vsys0 ops) in *. clearbody s.
  assert (K : forall resolver i l, (forall x, l = Some x -> simple (d_hlv x)) ->
              snd (vtransfer resolver i l) <> VCancelled).
  { intros resolver [i|] [x|] Sl; try (cbn; discriminate).
    unfold vtransfer.
    destruct (dominates (d_hlv x) (cv (d_hlv i))) eqn:D; [cbn; discriminate|].
    destruct (d_del i && d_del x); [cbn; discriminate|].
    destruct (is_in_conflict (d_hlv x) (d_hlv i)) eqn:C.
    - cbn; discriminate.
    - destruct resolver; [destruct (lww_remote_wins x i)|]; cbn; discriminate.
    - exfalso. apply (proj1 (status_cases _ _)) in C. destruct C as [C|[_ C]]; [|congruence].
      apply equal_cv_spec in C. rewrite (dominates_same_cv (d_hlv i) (d_hlv x)) in D; [discriminate| |auto].
      apply (Sl x eq_refl). }
  assert (P : forall s0, VInv s0 -> forall d, vstatus_of s0 (VPull d) <> VCancelled).
  { intros s0 I0 d. unfold vstatus_of, vstep_full, pull_full.
    specialize (K true (vdoc_of s0 VB d) (vdoc_of s0 VA d) (fun x X => vi_simple s0 I0 VA d x X)).
    destruct (vtransfer true (vdoc_of s0 VB d) (vdoc_of s0 VA d)). exact K. }
  destruct o as [p d body phys | p d phys | d | d | d body phys].
  - cbn. discriminate.
  - unfold vstatus_of, vstep_full. destruct (vdoc_of s p d) as [x|]; cbn; discriminate.
  - apply P, I.
  - unfold vstatus_of, vstep_full, push_full.
    specialize (K false (vdoc_of s VA d) (vdoc_of s VB d) (fun x X => vi_simple s I VB d x X)).
    destruct (vtransfer false (vdoc_of s VA d) (vdoc_of s VB d)). exact K.
  - rewrite (proj2 (vstep_pull_retry s d body phys)). apply P. apply vstep_inv, I.
Qed.

(* ---------- local writes ---------- *)
(* every PUT succeeds, and the version it generates is above every version of the writer's source listed by
   any copy of any document on either side *)
Theorem vv_local_write_fresh : forall ops p d body phys,
  let s := vrun vsys0 ops in
  exists x, vdoc_of (vstep s (VEdit p d body phys)) p d = Some x /\
            d_body x = body /\ d_del x = false /\ src (d_hlv x) = vsrc p /\
            (forall q d' y e, vdoc_of s q d' = Some y -> listed (d_hlv y) (vsrc p, e) -> e < ver (d_hlv x)).
Proof.
  intros ops p d body phys s. pose proof (reachable_vinv ops) as I. fold s in I.
  destruct (local_write_vector s p d phys I) as [h' [A [B [C [D E]]]]]. cbv zeta in A.
  unfold vstep, vstep_full, edit_sys. cbn [fst]. rewrite vdoc_set_peer.
  assert (Q : vside_eqb p p = true) by (destruct p; reflexivity). rewrite Q.
  unfold local_write. rewrite A. cbn [p_doc]. rewrite updf_same.
  eexists. split; [reflexivity|]. cbn [d_body d_del d_hlv]. repeat split; auto.
  intros q d' y e Y L. rewrite C. pose proof (vi_bound s I p q d' y e Y L) as Bd.
  pose proof (hlc_now_gt_clock phys (p_clk (peer_of s p))
               (max_value_for_source match p_doc (peer_of s p) d with Some x => d_hlv x | None => empty_hlv end (vsrc p))). lia.
Qed.

(* documents are independent *)
Lemma local_write_other_doc : forall s p q d d' body del phys, d' <> d ->
  vdoc_of (set_peer s p (local_write p (peer_of s p) d body del phys)) q d' = vdoc_of s q d'.
Proof.
  intros s p q d d' body del phys N. rewrite vdoc_set_peer. destruct (vside_eqb q p) eqn:Q; [|reflexivity].
  unfold local_write. destruct (add_version _ _); cbn [p_doc].
  - rewrite updf_other by auto. destruct q, p; try discriminate; reflexivity.
  - destruct q, p; try discriminate; reflexivity.
Qed.

Theorem vv_documents_independent : forall s o q d, d <> vop_doc o -> vdoc_of (vstep s o) q d = vdoc_of s q d.
Proof.
  intros s o q d N. destruct o as [p d0 body phys | p d0 phys | d0 | d0 | d0 body phys]; cbn [vop_doc] in N.
  - unfold vstep, vstep_full, edit_sys. cbn [fst]. now apply local_write_other_doc.
  - unfold vstep, vstep_full. destruct (vdoc_of s p d0) as [x|]; cbn [fst]; try reflexivity.
    now apply local_write_other_doc.
  - rewrite vstep_pull, vdoc_store. destruct (N.eqb_spec d d0); [contradiction|]. now rewrite andb_false_r.
  - rewrite vstep_push, vdoc_store. destruct (N.eqb_spec d d0); [contradiction|]. now rewrite andb_false_r.
  - rewrite (proj1 (vstep_pull_retry s d0 body phys)). rewrite vstep_pull, vdoc_store.
    destruct (N.eqb_spec d d0); [contradiction|]. rewrite andb_false_r.
    unfold vstep, vstep_full, edit_sys. cbn [fst]. now apply local_write_other_doc.
Qed.

(* reachable vectors never carry merge versions and always have a real source *)
Theorem vv_reachable_simple : forall ops p d x, vdoc_of (vrun vsys0 ops) p d = Some x ->
  mv (d_hlv x) = [] /\ src (d_hlv x) <> 0.
Proof. intros ops p d x X. exact (vi_simple _ (reachable_vinv ops) p d x X). Qed.

Theorem vv_reachable_consistent : forall ops d x y,
  let s := vrun vsys0 ops in
  vdoc_of s VA d = Some x -> vdoc_of s VB d = Some y ->
  simple (d_hlv x) /\ simple (d_hlv y) /\
  (cv (d_hlv x) = cv (d_hlv y) -> d_body x = d_body y /\ d_del x = d_del y) /\
  (dominates (d_hlv x) (cv (d_hlv y)) = true -> dominates (d_hlv y) (cv (d_hlv x)) = true -> cv (d_hlv x) = cv (d_hlv y)).
Proof.
  intros ops d x y s X Y. pose proof (reachable_vinv ops) as I.
  split; [exact (vi_simple _ I VA d x X)|]. split; [exact (vi_simple _ I VB d y Y)|]. exact (vi_pair _ I d x y X Y).
Qed.
