(* C06 proofs, part 9: a pull preserves the invariant, always succeeds, and leaves the passive side's
   current revision known to the active side. *)
From SG Require Import Base.Prelude C04.OrderProofs C04.WinnerProofs C04.WfProofs C04.FlagsProofs
  C04.PushProofs C04.DocProofs C06.Replication C06.InvProofs C06.TransferProofs C06.TreeLemmas C06.ConvDefs
  C06.ConvLocal C06.ConvPush C06.ConvPullShape.
Open Scope N_scope.

Section Pull.
  Variable mkdig : option revid -> body -> list N.
  Hypothesis mkdig_inj : forall p b p' b',
    gen (wid p) = gen (wid p') -> mkdig p b = mkdig p' b' -> p = p' /\ b = b'.
  Notation mkid := (mkid mkdig).
  Notation linv := (linv mkdig).
  Notation ghist := (ghist mkdig).
  Notation tinv := (tinv mkdig).

  (* the insertion step once the shape is known *)
  Lemma shape_finish : forall A ext0 nw' known bb bod1 c' older,
    nw' = c' :: older ->
    tinv (ext0 ++ ptree A) -> ghist nw' (hd_error known) ->
    (forall x, In x nw' -> contains (ext0 ++ ptree A) x = false) ->
    (forall k, hd_error known = Some k -> contains (ext0 ++ ptree A) k = true) ->
    finish_put (P (ext0 ++ ptree A) bod1) (nw' ++ known) false bb =
    (P (recs nw' (hd_error known) false ++ ext0 ++ ptree A) ((wid (hd_error nw'), bb) :: bod1), TApplied).
  Proof.
    intros A ext0 nw' known bb bod1 c' older E T1 GH NI KN. unfold finish_put. cbn [ptree pbody].
    rewrite (split_known_of_spec _ nw' known NI KN).
    rewrite (ps_add mkdig A ext0 nw' (hd_error known) T1 GH NI KN).
    rewrite E. reflexivity.
  Qed.

  Lemma shape_finish0 : forall A nw' known bb c' older,
    nw' = c' :: older ->
    tinv ([] ++ ptree A) -> ghist nw' (hd_error known) ->
    (forall x, In x nw' -> contains ([] ++ ptree A) x = false) ->
    (forall k, hd_error known = Some k -> contains ([] ++ ptree A) k = true) ->
    finish_put A (nw' ++ known) false bb =
    (P (recs nw' (hd_error known) false ++ [] ++ ptree A) ((wid (hd_error nw'), bb) :: pbody A), TApplied).
  Proof.
    intros [tA bodA] nw' known bb c' older E T1 GH NI KN.
    apply (shape_finish (P tA bodA) [] nw' known bb bodA c' older E T1 GH NI KN).
  Qed.

  (* tombstoning the current revision of the active side always succeeds *)
  Lemma tomb_add : forall A B ca, linv A B -> cur A = Some ca ->
    add (ptree A) (R (mkid (Some ca) b_tomb) (Some ca) true) = Some (R (mkid (Some ca) b_tomb) (Some ca) true :: ptree A) /\
    contains (ptree A) (mkid (Some ca) b_tomb) = false.
  Proof.
    intros A B ca L CA. pose proof (li_A _ _ _ L) as TA. pose proof (proj1 TA) as WA.
    destruct (cur_contains _ _ WA CA) as [Cca _].
    assert (F : contains (ptree A) (mkid (Some ca) b_tomb) = false).
    { apply not_true_is_false. intros C. apply contains_in in C. apply in_map_iff in C. destruct C as (q & Eq & Iq).
      pose proof (gen_parent mkdig mkdig_inj _ q _ _ TA Iq Eq) as Pq.
      pose proof (cur_leaf _ _ WA CA) as Lf.
      assert (is_parent (ptree A) ca = true) by (apply is_parent_iff; exists q; auto). congruence. }
    split; auto. unfold add. cbn [rid rpar]. rewrite F, Cca. cbn [negb]. rewrite mkid_gen. cbn [wid].
    destruct (gen ca + 1 <=? gen ca) eqn:E; [lia | reflexivity].
  Qed.

  Theorem pull_result_pol : forall pol, policy_ok pol -> forall A B, linv A B ->
    let A' := fst (transfer mkdig (Some pol) B A) in
    linv A' B /\ (forall cb, cur B = Some cb -> contains (ptree A') cb = true).
  Proof.
    intros pol POK A B L. cbn zeta. unfold transfer, offer.
    destruct (cur B) as [cb|] eqn:CBc; [|cbn [fst]; split; [exact L | intros; discriminate]].
    pose proof (li_A _ _ _ L) as TA. pose proof (li_B _ _ _ L) as TB.
    pose proof (proj1 TA) as WA. pose proof (proj1 TB) as WB.
    destruct (cur_contains _ _ WB CBc) as [Ccb Vcb].
    destruct (history_head _ _ WB Ccb Vcb) as [rest Hh]. rewrite Hh. cbn [firstn]. rewrite rev_diff_one.
    destruct (linv_curB mkdig A B L) as [_ DB]. rewrite DB.
    destruct (li_bpB _ _ _ L cb CBc) as [bB LB].
    assert (CBd : cur_body B = Some bB) by (unfold cur_body; rewrite CBc; exact LB). rewrite CBd.
    assert (G : ghist (cb :: rest) None) by (rewrite <- Hh; apply history_ghist; exact TB).
    destruct (contains (ptree A) cb) eqn:Ca.
    { cbn [fst]. split; [exact L|]. intros cb' E. inversion E; subst; exact Ca. }
    (* the body of B's current revision *)
    assert (BBok : bB <> b_tomb /\ exists par, cb = mkid par bB).
    { destruct (li_boB _ _ _ L cb bB (lookup_in _ _ _ LB)) as [N (par & [E | E])]; split; auto; [eauto|].
      exfalso. destruct (bnode mkdig A B cb cb L) as (qb & _ & _ & NT); [rewrite Hh; left; reflexivity|].
      destruct par as [l|].
      - eapply (tomb_clash mkdig mkdig_inj); eauto.
      - destruct NT as (b2 & E2 & N2). rewrite E in E2. apply (mkid_inj mkdig mkdig_inj) in E2.
        destruct E2 as [E2 E3]. congruence. }
    assert (US : unsendable false bB = false).
    { unfold unsendable. cbn [negb andb]. apply N.eqb_neq. apply BBok. }
    rewrite US.
    unfold put_existing. cbn [split_known]. rewrite Ca.
    destruct (split_known (ptree A) rest) as [n p] eqn:SK.
    assert (SK' : split_known (ptree A) (cb :: rest) = (cb :: n, p)) by (cbn [split_known]; rewrite Ca, SK; reflexivity).
    destruct (split_known_spec _ _ _ _ SK') as (known & Ehist & -> & NI & KN).
    cbn [andb negb].
    assert (DC : dcur (update_flags (ptree A)) = cur A) by reflexivity.
    assert (DD : ddel (update_flags (ptree A)) = cur_del A) by reflexivity.
    unfold illegal_conflict. cbn [andb negb]. rewrite DC, DD.
    assert (HB : forall x, In x (cb :: n) -> In x (history (ptree B) cb)).
    { intros x Ix. rewrite Hh, Ehist. apply in_or_app. left. exact Ix. }
    assert (KB : forall k, hd_error known = Some k -> In k (history (ptree B) cb)).
    { intros k Ek. rewrite Hh, Ehist. apply in_or_app. right. destruct known; inversion Ek. left. reflexivity. }
    assert (GH : ghist (cb :: n) (hd_error known)) by (apply ghist_split; rewrite <- Ehist; exact G).
    destruct (opt_id_eqb (hd_error known) (cur A) || is_none (cur A)) eqn:LG.
    - (* no conflict: the new revisions extend the current one, or the document is new *)
      assert (PA : hd_error known = cur A).
      { apply orb_true_iff in LG. destruct LG as [E | E]; [apply opt_id_eqb_eq in E; exact E|].
        destruct (cur A) eqn:CA; [discriminate|]. unfold cur in CA. rewrite (tcur_none_nil _ WA CA) in KN.
        destruct known as [|k kn]; auto. specialize (KN k eq_refl). discriminate. }
      rewrite Ehist.
      rewrite (shape_finish0 A (cb :: n) known bB cb n eq_refl TA GH NI KN). cbn [fst hd_error wid].
      assert (HNW : exists pre n0, cb :: n = pre ++ cb :: n0 /\
                      (pre = [] \/ exists lb, lb <> b_tomb /\ pre = [mkid (Some cb) lb]) /\
                      (forall x, In x (cb :: n0) -> In x (history (ptree B) cb))).
      { exists [], n. split; auto. }
      assert (LC0 : ([] : tree) = [] /\ hd_error known = cur A \/ live_count ([] ++ ptree A) = 0%nat) by (left; auto).
      assert (BB0 : bB <> b_tomb /\ exists par, wid (hd_error (cb :: n)) = mkid par bB).
      { destruct BBok as [N (par & E)]. split; auto. exists par. exact E. }
      split.
      + exact (ps_linv mkdig mkdig_inj A B cb [] (cb :: n) (hd_error known) bB (pbody A) L CBc Ca
                 (or_introl eq_refl) TA HNW GH NI KN KB LC0 BB0 (li_boA _ _ _ L)).
      + intros cb' E. inversion E; subst cb'.
        apply (ps_contains_cb mkdig A B cb [] (cb :: n) (hd_error known) HNW).
    - (* conflict: resolve with the default policy *)
      apply orb_false_iff in LG. destruct LG as [NP NN].
      destruct (cur A) as [ca|] eqn:CA; [|discriminate].
      destruct (linv_curA mkdig A B ca L CA) as (LCA & LLA & DA). rewrite DA. cbn [negb].
      set (lbody := match lookup_body (pbody A) ca with Some x => x | None => b_empty end).
      set (T := mkid (Some ca) b_tomb). set (RT := R T (Some ca) true).
      destruct (tomb_add A B ca L CA) as [ADD FR]. fold T RT in ADD, FR.
      assert (TL : tombstone_local mkdig A ca false = Some (P (RT :: ptree A) ((T, b_empty) :: pbody A))).
      { unfold tombstone_local. fold T RT. rewrite ADD. reflexivity. }
      rewrite TL.
      assert (T1 : tinv ([RT] ++ ptree A)).
      { destruct (add_inv mkdig _ _ _ _ _ TA ADD) as [T1 _]. exact T1. }
      assert (Z : live_count ([RT] ++ ptree A) = 0%nat).
      { pose proof (live_count_add (ptree A) RT WA (proj1 T1)) as LA. cbn [rpar rdel RT] in LA.
        rewrite LLA, LCA in LA. cbn [app]. lia. }
      assert (NTB : forall x, In x (history (ptree B) cb) -> x <> T).
      { intros x Ix E. destruct (bnode mkdig A B cb x L Ix) as (qb & _ & _ & NT).
        eapply (tomb_clash mkdig mkdig_inj); eauto. }
      assert (NI1 : forall x, In x (cb :: n) -> contains ([RT] ++ ptree A) x = false).
      { intros x Ix. cbn [app]. rewrite contains_cons. cbn [rid RT]. rewrite (NI x Ix), orb_false_r.
        apply revid_eqb_neq. intros E. apply (NTB x (HB x Ix)). auto. }
      assert (KN1 : forall k, hd_error known = Some k -> contains ([RT] ++ ptree A) k = true).
      { intros k Ek. cbn [app]. rewrite contains_cons, (KN k Ek). apply orb_true_r. }
      assert (EXT : [RT] = [] \/ exists ca0, cur A = Some ca0 /\ [RT] = [R (mkid (Some ca0) b_tomb) (Some ca0) true]).
      { right. exists ca. split; auto. }
      assert (BO1 : forall i b, In (i, b) ((T, b_empty) :: pbody A) ->
                     b <> b_tomb /\ exists par, i = mkid par b \/ i = mkid par b_tomb).
      { intros i b [H | H]; [|apply (li_boA _ _ _ L); exact H]. inversion H; subst.
        split; [discriminate|]. exists (Some ca). right. reflexivity. }
      change (RT :: ptree A) with ([RT] ++ ptree A).
      destruct (pol false ca lbody false (wid (hd_error (cb :: rest))) bB) as [| |mb] eqn:LW.
      + (* local wins: the local body is cloned as a child of the remote leaf *)
        cbn [local_wins_rewrite hd_error]. fold lbody. set (new := mkid (Some cb) lbody).
        assert (NL : lbody <> b_tomb).
        { unfold lbody. destruct (lookup_body (pbody A) ca) as [x|] eqn:LK; [|discriminate].
          destruct (li_boA _ _ _ L ca x (lookup_in _ _ _ LK)). assumption. }
        assert (GH' : ghist (new :: cb :: n) (hd_error known)).
        { apply ghist_split. rewrite <- app_comm_cons, <- Ehist. apply (ghist_ext mkdig (cb :: rest) lbody G). }
        assert (NI' : forall x, In x (new :: cb :: n) -> contains ([RT] ++ ptree A) x = false).
        { intros x [<- | Ix]; [|apply NI1; exact Ix].
          apply not_true_is_false. intros C. apply contains_in in C. apply in_map_iff in C. destruct C as (q & Eq & Iq).
          pose proof (gen_parent mkdig mkdig_inj _ q _ _ T1 Iq Eq) as Pq.
          destruct (proj1 T1) as (_ & _ & PP). destruct (PP q cb Iq Pq) as [Cc _].
          rewrite (NI1 cb (or_introl eq_refl)) in Cc. discriminate. }
        rewrite Ehist, app_comm_cons.
        rewrite (shape_finish A [RT] (new :: cb :: n) known lbody ((T, b_empty) :: pbody A) new (cb :: n) eq_refl T1 GH' NI' KN1).
        cbn [fst hd_error wid].
        assert (HNW : exists pre n0, new :: cb :: n = pre ++ cb :: n0 /\
                        (pre = [] \/ exists lb, lb <> b_tomb /\ pre = [mkid (Some cb) lb]) /\
                        (forall x, In x (cb :: n0) -> In x (history (ptree B) cb))).
        { exists [new], n. split; [reflexivity|]. split; auto. right. exists lbody. auto. }
        assert (BB1 : lbody <> b_tomb /\ exists par, wid (hd_error (new :: cb :: n)) = mkid par lbody).
        { split; auto. exists (Some cb). reflexivity. }
        split.
        * exact (ps_linv mkdig mkdig_inj A B cb [RT] (new :: cb :: n) (hd_error known) lbody ((T, b_empty) :: pbody A) L CBc Ca
                   EXT T1 HNW GH' NI' KN1 KB (or_intror Z) BB1 BO1).
        * intros cb' E. inversion E; subst cb'. cbn [ptree].
          apply (ps_contains_cb mkdig A B cb [RT] (new :: cb :: n) (hd_error known) HNW).
      + (* remote wins *)
        rewrite Ehist.
        rewrite (shape_finish A [RT] (cb :: n) known bB ((T, b_empty) :: pbody A) cb n eq_refl T1 GH NI1 KN1).
        cbn [fst hd_error wid].
        assert (HNW : exists pre n0, cb :: n = pre ++ cb :: n0 /\
                        (pre = [] \/ exists lb, lb <> b_tomb /\ pre = [mkid (Some cb) lb]) /\
                        (forall x, In x (cb :: n0) -> In x (history (ptree B) cb))).
        { exists [], n. split; auto. }
        assert (BB1 : bB <> b_tomb /\ exists par, wid (hd_error (cb :: n)) = mkid par bB).
        { destruct BBok as [N (par & E)]. split; auto. exists par. exact E. }
        split.
        * exact (ps_linv mkdig mkdig_inj A B cb [RT] (cb :: n) (hd_error known) bB ((T, b_empty) :: pbody A) L CBc Ca
                   EXT T1 HNW GH NI1 KN1 KB (or_intror Z) BB1 BO1).
        * intros cb' E. inversion E; subst cb'. cbn [ptree].
          apply (ps_contains_cb mkdig A B cb [RT] (cb :: n) (hd_error known) HNW).
      + (* merge: the merged body becomes a child of the remote leaf *)
        cbn [hd_error]. set (new := mkid (Some cb) mb).
        assert (NL : mb <> b_tomb) by (eapply POK; eauto).
        assert (NT : (mb =? b_tomb) = false) by (apply N.eqb_neq; exact NL).
        rewrite NT, andb_false_r. cbn [orb].
        assert (GH' : ghist (new :: cb :: n) (hd_error known)).
        { apply ghist_split. rewrite <- app_comm_cons, <- Ehist. apply (ghist_ext mkdig (cb :: rest) mb G). }
        assert (NI' : forall x, In x (new :: cb :: n) -> contains ([RT] ++ ptree A) x = false).
        { intros x [<- | Ix]; [|apply NI1; exact Ix].
          apply not_true_is_false. intros C. apply contains_in in C. apply in_map_iff in C. destruct C as (q & Eq & Iq).
          pose proof (gen_parent mkdig mkdig_inj _ q _ _ T1 Iq Eq) as Pq.
          destruct (proj1 T1) as (_ & _ & PP). destruct (PP q cb Iq Pq) as [Cc _].
          rewrite (NI1 cb (or_introl eq_refl)) in Cc. discriminate. }
        rewrite Ehist, app_comm_cons.
        rewrite (shape_finish A [RT] (new :: cb :: n) known mb ((T, b_empty) :: pbody A) new (cb :: n) eq_refl T1 GH' NI' KN1).
        cbn [fst hd_error wid].
        assert (HNW : exists pre n0, new :: cb :: n = pre ++ cb :: n0 /\
                        (pre = [] \/ exists lb, lb <> b_tomb /\ pre = [mkid (Some cb) lb]) /\
                        (forall x, In x (cb :: n0) -> In x (history (ptree B) cb))).
        { exists [new], n. split; [reflexivity|]. split; auto. right. exists mb. auto. }
        assert (BB1 : mb <> b_tomb /\ exists par, wid (hd_error (new :: cb :: n)) = mkid par mb).
        { split; auto. exists (Some cb). reflexivity. }
        split.
        * exact (ps_linv mkdig mkdig_inj A B cb [RT] (new :: cb :: n) (hd_error known) mb ((T, b_empty) :: pbody A) L CBc Ca
                   EXT T1 HNW GH' NI' KN1 KB (or_intror Z) BB1 BO1).
        * intros cb' E. inversion E; subst cb'. cbn [ptree].
          apply (ps_contains_cb mkdig A B cb [RT] (new :: cb :: n) (hd_error known) HNW).
  Qed.

  Lemma default_policy_ok : policy_ok default_policy.
  Proof. intros ldel l lb rdel r rb mb H. unfold default_policy in H. destruct (local_wins _ _ _ _); discriminate. Qed.

  Theorem pull_result : forall A B, linv A B ->
    let A' := fst (transfer mkdig (Some default_policy) B A) in
    linv A' B /\ (forall cb, cur B = Some cb -> contains (ptree A') cb = true).
  Proof. exact (pull_result_pol default_policy default_policy_ok). Qed.
End Pull.
