(* C06 proofs, part 12: replication with conflicts ALLOWED on both sides and no resolver, where a transfer
   offers EVERY leaf of the sender with its ancestry (the changes feed in style=all_docs, _revs_diff,
   then PutExistingRev without the conflict check).  After Push; Pull both trees hold the same revisions,
   hence the same leaves, the same winner and the same tombstone state.

   The two trees are parts of one history: a source forest S of which each database has received some
   revisions with their ancestries (C04.PushProofs.sub_tree; the tombstone bit of a non-leaf revision is
   not transferred and is excluded from the statement, as in the property text).

   Note: the BLIP replicator (ISGR, Couchbase Lite) never runs this protocol: its changes feed carries
   only the winning revision (Conflicts:false); with a single offered leaf one round is not enough on
   conflicting trees (see winner_only_not_union below). *)
From Coq Require Import Permutation.
From SG Require Import Base.Prelude C04.OrderProofs C04.WinnerProofs C04.WfProofs C04.FlagsProofs
  C04.PushProofs C04.DocProofs C06.Replication C06.InvProofs C06.TransferProofs C06.TreeLemmas C06.ConvDefs.
Open Scope N_scope.

(* what the sender offers: every leaf with its ancestry and its tombstone bit *)
Definition offers (src : tree) : list push := map (fun l => (history src (rid l), rdel l)) (leaves src).
(* the receiver inserts, for every offered leaf, the revisions it lacks (conflicts allowed) *)
Definition transfer_all (src dst : tree) : option tree := push_all dst (offers src).

Lemma history_linked : forall S t, wf S -> sub_tree S t -> forall n r, (N.to_nat (gen (rid r)) <= n)%nat -> In r t ->
  linked S (history t (rid r)).
Proof.
  intros S t WS ST. pose proof (sub_tree_wf S t WS ST) as W. destruct ST as (ND & A & B & D).
  induction n as [|n IH]; intros r L Ir.
  - destruct W as (_ & V & _). pose proof (V r Ir). lia.
  - rewrite (history_step t r W Ir). cbn [linked]. destruct (A r Ir) as [CS PS]. split; auto.
    destruct (rpar r) as [p|] eqn:P.
    + pose proof (B r p Ir P) as Cp.
      pose proof Cp as Cp0. apply contains_in in Cp0. apply in_map_iff in Cp0. destruct Cp0 as (q & Eq & Iq).
      pose proof W as W0. destruct W0 as (ND' & V & PP). destruct (PP r p Ir P) as [_ Lt].
      pose proof (V q Iq) as Vq. rewrite Eq in Vq.
      destruct (history_head t p W Cp Vq) as [rest Hh].
      split; [rewrite Hh; cbn [hd_error]; symmetry; exact PS|].
      rewrite <- Eq. apply IH; auto. rewrite Eq. lia.
    + cbn [hd_error linked]. split; auto.
Qed.

Lemma offers_valid : forall S t, wf S -> sub_tree S t -> Forall (valid_push S) (offers t).
Proof.
  intros S t WS ST. pose proof (sub_tree_wf S t WS ST) as W. apply Forall_forall. intros p Ip.
  unfold offers in Ip. apply in_map_iff in Ip. destruct Ip as (l & <- & Il).
  apply in_leaves in Il. destruct Il as [Il NP].
  unfold valid_push. cbn [fst snd]. rewrite (history_step t l W Il).
  split.
  - rewrite <- (history_step t l W Il). eapply history_linked; eauto.
  - destruct ST as (_ & _ & _ & D). apply D; auto.
Qed.

(* every revision of a well-formed tree lies on the branch of some leaf *)
Lemma leaf_above : forall t, wf t -> forall r, In r t -> exists l, In l (leaves t) /\ In (rid r) (history t (rid l)).
Proof.
  intros t W. destruct (tree_nil_dec t) as [-> | NE]; [intros r []|].
  destruct (max_gen_exists t NE) as (m & _ & Hm).
  assert (H : forall n r, (N.to_nat (gen (rid m) - gen (rid r)) <= n)%nat -> In r t ->
                exists l, In l (leaves t) /\ In (rid r) (history t (rid l))).
  { induction n as [|n IH]; intros r L Ir.
    - (* maximal generation: a leaf *)
      exists r. split; [|apply history_head_in; auto; apply contains_in; apply in_map; exact Ir].
      apply in_leaves. split; auto. apply is_parent_false. intros c Ic Pc.
      destruct W as (_ & _ & PP). destruct (PP c (rid r) Ic Pc) as [_ Lt]. pose proof (Hm c Ic). pose proof (Hm r Ir). lia.
    - destruct (is_parent t (rid r)) eqn:IP.
      + apply is_parent_iff in IP. destruct IP as (c & Ic & Pc).
        pose proof W as W0. destruct W as (_ & _ & PP). destruct (PP c (rid r) Ic Pc) as [_ Lt].
        pose proof (Hm c Ic).
        destruct (IH c ltac:(lia) Ic) as (l & Il & Hl). exists l. split; auto.
        apply (history_trans t (rid l) (rid c) (rid r) W0 Hl).
        rewrite (history_step t c W0 Ic), Pc. right. apply history_head_in; auto.
        apply contains_in. apply in_map. exact Ir.
      + exists r. split; [apply in_leaves; auto | apply history_head_in; auto; apply contains_in; apply in_map; exact Ir]. }
  intros r Ir. apply (H _ r (le_n _) Ir).
Qed.

Lemma offers_cover : forall t, wf t -> forall i,
  (exists p, In p (offers t) /\ In i (fst p)) <-> contains t i = true.
Proof.
  intros t W i. split.
  - intros (p & Ip & Ii). unfold offers in Ip. apply in_map_iff in Ip. destruct Ip as (l & <- & _).
    cbn [fst] in Ii. eapply history_in; eauto.
  - intros C. apply contains_in in C. apply in_map_iff in C. destruct C as (r & <- & Ir).
    destruct (leaf_above t W r Ir) as (l & Il & Hl).
    exists (history t (rid l), rdel l). split; auto. unfold offers. apply in_map_iff. exists l. auto.
Qed.

Lemma transfer_all_union : forall S src dst, wf S -> sub_tree S src -> sub_tree S dst ->
  exists dst', transfer_all src dst = Some dst' /\ sub_tree S dst' /\
    forall i, contains dst' i = true <-> (contains dst i = true \/ contains src i = true).
Proof.
  intros S src dst WS Ss Sd. unfold transfer_all.
  destruct (push_all_ok S WS (offers src) dst Sd (offers_valid S src WS Ss)) as (t' & E & ST' & C).
  exists t'. split; auto. split; auto. intros i. rewrite C.
  rewrite (offers_cover src (sub_tree_wf S src WS Ss) i). reflexivity.
Qed.

Lemma rev_diff_nil : forall t ids, (forall i, In i ids -> contains t i = true) -> rev_diff t ids = [].
Proof.
  intros t. induction ids as [|i ids IH]; intros H; [reflexivity|].
  unfold rev_diff. cbn [filter]. rewrite (H i (or_introl eq_refl)). cbn [negb]. apply IH.
  intros j Ij. apply H. right. exact Ij.
Qed.

Theorem revdiff_union : forall S A B, wf S -> sub_tree S A -> sub_tree S B ->
  exists B' A', transfer_all A B = Some B' /\ transfer_all B' A = Some A' /\
    wf A' /\ wf B' /\
    (forall i, contains A' i = true <-> (contains A i = true \/ contains B i = true)) /\
    (forall i, contains B' i = true <-> (contains A i = true \/ contains B i = true)) /\
    Permutation (leaves A') (leaves B') /\
    tcur A' = tcur B' /\ winning A' = winning B' /\
    del_of A' (tcur A') = del_of B' (tcur B') /\
    rev_diff A' (map rid (leaves B')) = [] /\ rev_diff B' (map rid (leaves A')) = [].
Proof.
  intros S A B WS SA SB.
  destruct (transfer_all_union S A B WS SA SB) as (B' & EB & SB' & CB).
  destruct (transfer_all_union S B' A WS SB' SA) as (A' & EA & SA' & CA).
  exists B', A'. split; auto. split; auto.
  assert (CA' : forall i, contains A' i = true <-> (contains A i = true \/ contains B i = true)).
  { intros i. rewrite CA, CB. tauto. }
  assert (CB' : forall i, contains B' i = true <-> (contains A i = true \/ contains B i = true)).
  { intros i. rewrite CB. tauto. }
  assert (SAME : forall i, contains A' i = true <-> contains B' i = true) by (intros i; rewrite CA', CB'; tauto).
  pose proof (sub_tree_leaves_perm S A' B' SA' SB' SAME) as PL.
  assert (WF : winner_fold (leaves A') = winner_fold (leaves B')) by (apply winner_perm; exact PL).
  split; [eapply sub_tree_wf; eauto|]. split; [eapply sub_tree_wf; eauto|].
  split; auto. split; auto. split; auto.
  split; [unfold tcur; rewrite WF; reflexivity|].
  split; [unfold winning; rewrite WF; reflexivity|].
  split.
  - unfold tcur. rewrite <- WF. apply (winner_del_same S A' B' SA' SB' PL).
  - split; apply rev_diff_nil; intros i Ii; apply in_map_iff in Ii; destruct Ii as (l & <- & Il);
      apply in_leaves in Il; destruct Il as [Il _].
    + apply SAME. apply contains_in. apply in_map. exact Il.
    + apply SAME. apply contains_in. apply in_map. exact Il.
Qed.

(* ---------- with only the winning revision offered (what BLIP does) one round is not enough ---------- *)
Definition offer_winner (src : tree) : list push :=
  match tcur src with
  | Some c => [(history src c, del_of src (Some c))]
  | None => []
  end.
Definition transfer_winner (src dst : tree) : option tree := push_all dst (offer_winner src).

Definition wn_S : tree :=
  [ R (I 2 [9]) (Some (I 1 [1])) true; R (I 2 [1]) (Some (I 1 [1])) false; R (I 1 [1]) None false; R (I 1 [5]) None false ].
Definition wn_A : tree := [ R (I 2 [1]) (Some (I 1 [1])) false; R (I 1 [1]) None false; R (I 1 [5]) None false ].
Definition wn_B : tree := [ R (I 2 [9]) (Some (I 1 [1])) true; R (I 1 [1]) None false ].

(* A holds the live leaves 2-1 (winner) and 1-5; B holds the tombstone 2-9.  After Push; Pull of the winners
   A shows 2-1 and B shows 2-1, but B never receives A's other leaf 1-5: the trees are not equal. *)
Example winner_only_not_union :
  wf wn_S /\ sub_tree wn_S wn_A /\ sub_tree wn_S wn_B /\
  exists B' A', transfer_winner wn_A wn_B = Some B' /\ transfer_winner B' wn_A = Some A' /\
    contains A' (I 1 [5]) = true /\ contains B' (I 1 [5]) = false.
Proof.
  assert (W : wf wn_S).
  { split; [repeat constructor; cbn; intuition congruence|]. split.
    - intros r H. cbn in H. intuition (subst; cbn; lia).
    - intros r p H E. cbn in H. intuition (subst; cbn in E; inversion E; subst; split; cbn; auto; lia). }
  split; auto. split.
  { split; [repeat constructor; cbn; intuition congruence|]. split.
    - intros r H. cbn in H. intuition (subst; vm_compute; auto).
    - split; [intros r p H E; cbn in H; intuition (subst; cbn in E; inversion E; subst; reflexivity)|].
      intros r H NP. cbn in H. intuition (subst; vm_compute in NP; try discriminate; reflexivity). }
  split.
  { split; [repeat constructor; cbn; intuition congruence|]. split.
    - intros r H. cbn in H. intuition (subst; vm_compute; auto).
    - split; [intros r p H E; cbn in H; intuition (subst; cbn in E; inversion E; subst; reflexivity)|].
      intros r H NP. cbn in H. intuition (subst; vm_compute in NP; try discriminate; reflexivity). }
  eexists. eexists. split; [vm_compute; reflexivity|]. split; [vm_compute; reflexivity|]. split; vm_compute; reflexivity.
Qed.
