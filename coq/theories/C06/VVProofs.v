(* C06 proofs, version-vector protocol, part 1: facts about the vector operations on vectors without merge
   versions (the LWW resolver never creates any), built on the C10 development (HLVProofs, HLVOps). *)
From SG Require Import Base.Prelude C10.AMap C10.HLV C10.HLVProofs C10.HLVOps C06.VV.
Open Scope N_scope.
#[local] Arguments N.max : simpl never.
#[local] Arguments N.eqb : simpl never.
#[local] Arguments N.leb : simpl never.
#[local] Arguments N.ltb : simpl never.
#[local] Arguments N.add : simpl never.

(* a vector as the modelled paths produce it: no merge versions, a real source *)
Definition simple (h : hlv) : Prop := mv h = [] /\ src h <> 0.

Lemma gv_cv : forall h, src h <> 0 -> get_value h (src h) = Some (ver h).
Proof.
  intros h H. unfold get_value. destruct (N.eqb_spec (src h) 0); [contradiction|]. now rewrite N.eqb_refl.
Qed.

Lemma dominates_own_cv : forall h, src h <> 0 -> dominates h (cv h) = true.
Proof. intros h H. apply dominates_spec. exists (ver h). split; [now apply gv_cv | cbn; lia]. Qed.

Lemma dominates_same_cv : forall h g, src g <> 0 -> cv h = cv g -> dominates g (cv h) = true.
Proof. intros h g H E. rewrite E. now apply dominates_own_cv. Qed.

Lemma equal_cv_false : forall a b, equal_cv a b = false <-> cv a <> cv b.
Proof.
  intros a b. pose proof (equal_cv_spec a b) as S. destruct (equal_cv a b).
  - split; [discriminate | intros N; exfalso; apply N, S; reflexivity].
  - split; [intros _ E; apply S in E; discriminate | reflexivity].
Qed.

Lemma same_merge_simple : forall hl hi, mv hl = [] -> same_merge hl hi = false.
Proof. intros hl hi H. unfold same_merge. rewrite H. cbn. now rewrite andb_false_r. Qed.

(* two vectors neither of which has seen the other's current version have different sources *)
Lemma concurrent_sources_differ : forall hl hi, src hl <> 0 -> src hi <> 0 ->
  dominates hl (cv hi) = false -> dominates hi (cv hl) = false -> src hl <> src hi.
Proof.
  intros hl hi Hl Hi A B E.
  assert (A' : dominates hl (cv hi) = true \/ dominates hi (cv hl) = true).
  { destruct (N.le_ge_cases (ver hi) (ver hl)) as [L|L].
    - left. apply dominates_spec. exists (ver hl). split; [cbn; rewrite <- E; now apply gv_cv | cbn; lia].
    - right. apply dominates_spec. exists (ver hi). split; [cbn; rewrite E; now apply gv_cv | cbn; lia]. }
  destruct A'; congruence.
Qed.

(* ---------- UpdateHistory when the incoming vector has no merge versions ---------- *)
Lemma uh_form : forall h inc, mv inc = [] -> src inc <> 0 ->
  update_history h inc =
  mkH (src h) (ver h) (mv h) (fold_left (putG (guard h)) (cv inc :: pv inc) (pv h)).
Proof.
  intros h inc Hm Hs. unfold update_history. rewrite Hm.
  destruct (N.eqb_spec (src inc) 0) as [E|_]; [contradiction|].
  cbn [add_mv_until_older]. rewrite add_all_spec.
  destruct (atp_keeps h (src inc) (ver inc)) as [A [B C]]. rewrite A, B, C.
  assert (G : guard (fst (add_version_to_pv h (src inc) (ver inc))) = guard h)
    by (unfold guard; now rewrite A, C).
  rewrite G. f_equal. cbn [fold_left]. f_equal. rewrite atp_fst. unfold putG, cv. cbn [fst snd].
  destruct (guard h (src inc)); reflexivity.
Qed.

Lemma uh_keeps : forall h inc, simple inc ->
  src (update_history h inc) = src h /\ ver (update_history h inc) = ver h /\ mv (update_history h inc) = mv h.
Proof. intros h inc [Hm Hs]. rewrite uh_form by assumption. cbn. auto. Qed.

Lemma uh_cv : forall h inc, simple inc -> cv (update_history h inc) = cv h.
Proof. intros h inc S. destruct (uh_keeps h inc S) as [A [B _]]. unfold cv. now rewrite A, B. Qed.

Lemma uh_simple : forall h inc, simple h -> simple inc -> simple (update_history h inc).
Proof.
  intros h inc [Hm Hs] S. destruct (uh_keeps h inc S) as [A [_ C]]. split; [now rewrite C | now rewrite A].
Qed.

Lemma putG_In : forall G p e x, In x (putG G p e) -> In x p \/ x = e.
Proof.
  intros G p [s v] x. unfold putG, pv_put. cbn [fst snd].
  destruct (G s); [|auto]. destruct (lookup p s); [destruct (n <? v)|]; auto;
    intros H; apply In_set in H; destruct H as [H|[H _]]; auto.
Qed.

Lemma foldput_In : forall G l p x, In x (fold_left (putG G) l p) -> In x p \/ In x l.
Proof.
  intros G. induction l as [|e r IH]; intros p x H; [auto|].
  cbn [fold_left] in H. apply IH in H. destruct H as [H|H]; [|right; right; exact H].
  apply putG_In in H. destruct H as [H|H]; [auto | right; left; auto].
Qed.

(* nothing is invented: what the updated vector lists was listed by one of the two *)
Lemma uh_listed : forall h inc p, simple inc -> listed (update_history h inc) p -> listed h p \/ listed inc p.
Proof.
  intros h inc p [Hm Hs] L. rewrite uh_form in L by assumption. unfold listed in *. cbn [cv src ver mv pv] in L.
  destruct L as [L|[L|L]]; [left; left; exact L | left; right; left; exact L |].
  apply foldput_In in L. destruct L as [L|L]; [left; right; right; exact L|].
  destruct L as [L|L]; [right; left; symmetry; exact L | right; right; right; exact L].
Qed.

(* the updated vector has seen the current version of the vector it absorbed *)
Lemma uh_dominates_inc : forall h inc, mv h = [] -> simple inc -> src h <> src inc ->
  dominates (update_history h inc) (cv inc) = true.
Proof.
  intros h inc Hm [Im Is] Ne. rewrite uh_form by assumption.
  assert (G : guard h (src inc) = true).
  { unfold guard, mem. rewrite Hm. cbn. destruct (N.eqb_spec (src h) (src inc)); [contradiction|reflexivity]. }
  destruct (foldput_in (guard h) (cv inc :: pv inc) (pv h) (src inc) (ver inc) (or_introl eq_refl) G) as [o [E L]].
  apply dominates_spec. exists o. split; [|exact L]. unfold get_value. cbn [src ver mv pv cv fst].
  destruct (N.eqb_spec (src inc) 0); [contradiction|].
  destruct (N.eqb_spec (src inc) (src h)); [exfalso; apply Ne; auto|].
  rewrite Hm. cbn [lookup]. exact E.
Qed.

(* ... and still its own *)
Lemma uh_dominates_own : forall h inc, simple inc -> src h <> 0 -> dominates (update_history h inc) (cv h) = true.
Proof.
  intros h inc S Hs. rewrite <- (uh_cv h inc S). apply dominates_own_cv.
  destruct (uh_keeps h inc S) as [A _]. now rewrite A.
Qed.

Lemma update_with_incoming_empty : forall hi, update_with_incoming empty_hlv hi = hi.
Proof. exact update_empty. Qed.

(* ---------- AddVersion on a vector without merge versions ---------- *)
Lemma mvfs_simple : forall h s e, mv h = [] -> get_value h s = Some e -> e <= max_value_for_source h s.
Proof.
  intros h s e Hm. unfold get_value, max_value_for_source. rewrite Hm.
  destruct (N.eqb_spec s 0); [discriminate|]. destruct (N.eqb_spec s (src h)).
  - intros E. inv E. lia.
  - cbn [lookup]. intros E. rewrite E. lia.
Qed.

Lemma av_simple : forall h s v, simple h -> s <> 0 -> max_value_for_source h s < v ->
  exists h', add_version h (s, v) = Some h' /\ src h' = s /\ ver h' = v /\ mv h' = [] /\
             (forall p, listed h' p -> p = (s, v) \/ listed h p).
Proof.
  intros h s v [Hm Hs] Hs0 Hv. unfold add_version.
  destruct (N.eqb_spec (src h) 0); [contradiction|].
  assert (NoErr : (match get_value h s with Some e => v <? e | None => false end) = false).
  { destruct (get_value h s) as [e|] eqn:E; [|reflexivity]. apply (mvfs_simple h s e Hm) in E.
    destruct (N.ltb_spec v e); [lia|reflexivity]. }
  rewrite NoErr. unfold invalidate_mv. rewrite Hm. cbn [fold_left src ver mv pv].
  destruct (N.eqb_spec s (src h)).
  - eexists. split; [reflexivity|]. cbn [src ver mv pv]. repeat split; auto.
    intros p L. unfold listed in L. cbn [cv src ver mv pv] in L.
    destruct L as [L|[L|L]]; [left; subst; f_equal; auto | contradiction | right; right; right; exact L].
  - eexists. split; [reflexivity|]. cbn [src ver mv pv]. repeat split; auto.
    intros p L. unfold listed in L. cbn [cv src ver mv pv] in L.
    destruct L as [L|[L|L]]; [left; exact L | contradiction |].
    apply In_remove in L. destruct L as [L _]. apply In_set in L. destruct L as [L|[L _]].
    + right. left. exact L.
    + right. right. right. exact L.
Qed.

Lemma av_empty : forall s v, add_version empty_hlv (s, v) = Some (mkH s v [] []).
Proof. reflexivity. Qed.

Lemma hlc_now_gt_floor : forall phys hi floor, floor < hlc_now phys hi floor.
Proof. intros. unfold hlc_now. lia. Qed.
Lemma hlc_now_gt_clock : forall phys hi floor, hi < hlc_now phys hi floor.
Proof. intros. unfold hlc_now. lia. Qed.

(* ---------- the default resolver ---------- *)
Lemma lww_symmetric_lemma : forall x y,
  (d_del x <> d_del y \/ ver (d_hlv x) <> ver (d_hlv y)) -> lww_winner x y = lww_winner y x.
Proof.
  intros x y H. unfold lww_winner, lww_remote_wins.
  destruct (d_del x), (d_del y); cbn; try reflexivity;
    (destruct H as [H|H]; [congruence|]);
    destruct (N.ltb_spec (ver (d_hlv x)) (ver (d_hlv y))), (N.ltb_spec (ver (d_hlv y)) (ver (d_hlv x)));
    try reflexivity; lia.
Qed.

Lemma lww_policy_lemma : forall l i,
  lww_remote_wins l i = true <->
  (d_del i = true /\ d_del l = false) \/ (d_del i = d_del l /\ ver (d_hlv l) < ver (d_hlv i)).
Proof.
  intros l i. unfold lww_remote_wins.
  destruct (d_del l), (d_del i); cbn [andb negb]; rewrite ?N.ltb_lt; intuition congruence.
Qed.

(* equal values, same tombstone state: the LOCAL document wins whichever side runs the resolver *)
Lemma lww_equal_values_local_lemma : forall x y,
  d_del x = d_del y -> ver (d_hlv x) = ver (d_hlv y) -> lww_winner x y = x /\ lww_winner y x = y.
Proof.
  intros x y D V. unfold lww_winner, lww_remote_wins. rewrite D, V.
  destruct (d_del y); cbn; rewrite N.ltb_irrefl; auto.
Qed.
