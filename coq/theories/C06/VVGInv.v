(* C06 proofs, version-vector protocol with any resolver, part 2: the invariant of the chain A <-> B <-> C (peers
   1, 2, 3; 2 is passive towards both; 1 and 3 resolve with ANY resolver), preserved by every regular step.

   regular step: no UpdateWithIncomingHLV of the step drops a version ([lossless]), no resolution writes a
   revision-tree id that already exists (VVF.v), nothing unsendable is offered.  All three are decidable on the
   state and the operation; each is necessary (C06_Refuted.v).

   The invariant, per document:
     ci_ok     every copy's vector represents versions handed out by the clocks of their sources
     ci_uniq   the same current version means the same body and tombstone flag, on any two peers
     ci_m      an active copy and the passive copy that have each seen the other's current version hold the same one
     ci_mid    whatever an active peer knows about a foreign source, the passive peer knows too (an active peer
               learns about other sources only from the passive one) *)
From SG Require Import Base.Prelude C10.AMap C10.HLV C10.HLVProofs C10.HLVOps C10.HLVUpdate
  C06.VV C06.VVProofs C06.VVF C06.VVG C06.VVGProofs.
Open Scope N_scope.
#[local] Arguments N.max : simpl never.
#[local] Arguments N.eqb : simpl never.
#[local] Arguments N.leb : simpl never.
#[local] Arguments N.ltb : simpl never.
#[local] Arguments N.add : simpl never.

Definition gclk (s : gsys) : N -> N := fun q => p_clk (s q).

(* ---------- regular transfers ---------- *)
Definition xfer_regular (res : option vresolver) (sndr rcv : option vdoc) : bool :=
  match sndr with
  | None => true
  | Some i =>
      match rcv with
      | None => negb (unsendable i)
      | Some l =>
          if dominates (d_hlv l) (cv (d_hlv i)) then true
          else negb (unsendable i) &&
               (if d_del i && d_del l then lossless (d_hlv l) (d_hlv i)
                else match is_in_conflict (d_hlv l) (d_hlv i) with
                     | AlreadyPresent => true
                     | NoConflict => lossless (d_hlv l) (d_hlv i)
                     | Conflict =>
                         match res with
                         | None => true
                         | Some f =>
                             match f l i with
                             | VRemote => lossless (d_hlv l) (d_hlv i) && negb (clash_remote l i)
                             | VLocal => lossless (d_hlv i) (d_hlv l) && negb (clash_local l i)
                             | VMerge mb => negb (clash_merge mb l i)
                             end
                         end
                     end)
      end
  end.

Definition greg (s : gsys) (o : gop) : bool :=
  match o with
  | GEdit _ _ body _ => negb (body =? del_digest_body)
  | GDelete _ _ _ => true
  | GXfer from to res d _ => xfer_regular res (gdoc s from d) (gdoc s to d)
  end.

Fixpoint greg_from (s : gsys) (ops : list gop) : bool :=
  match ops with
  | [] => true
  | o :: r => greg s o && greg_from (gstep s o) r
  end.

(* the chain topology: 2 is passive; 1 and 3 pull from it with a resolver and push to it *)
Definition active (a : N) : Prop := a = 1 \/ a = 3.
Definition chain_op (o : gop) : Prop :=
  match o with
  | GEdit p _ _ _ | GDelete p _ _ => p = 1 \/ p = 2 \/ p = 3
  | GXfer from to res _ _ => (from = 2 /\ active to /\ res <> None) \/ (active from /\ to = 2 /\ res = None)
  end.

(* ---------- what a transfer stores ---------- *)
Record stored (clk : N -> N) (me : N) (l : option vdoc) (i r : vdoc) (c' : N) : Prop := mkStored {
  st_clk : clk me <= c';
  st_ok : okv (bump clk me c') (d_hlv r);
  st_new : forall x, l = Some x -> dominates (d_hlv x) (cv (d_hlv i)) = false;
  st_kind :
    (cv (d_hlv r) = cv (d_hlv i) /\ d_body r = d_body i /\ d_del r = d_del i) \/
    (exists x, l = Some x /\ cv (d_hlv r) = cv (d_hlv x) /\ d_body r = d_body x /\ d_del r = d_del x /\
               dominates (d_hlv i) (cv (d_hlv x)) = false /\ cv (d_hlv x) <> cv (d_hlv i) /\ d_del i && d_del x = false) \/
    (cv (d_hlv r) = (me, c') /\ clk me < c');
  st_ge_i : forall q, q <> 0 -> value (d_hlv i) q <= value (d_hlv r) q;
  st_ge_l : forall x, l = Some x -> forall q, q <> 0 -> value (d_hlv x) q <= value (d_hlv r) q;
  st_le : forall q, q <> 0 -> q <> me ->
          value (d_hlv r) q <= N.max (match l with Some x => value (d_hlv x) q | None => 0 end) (value (d_hlv i) q)
}.

Definition keeps (st : gstatus) : Prop := st = GKnown \/ st = GCancelled \/ st = GConflict.

Lemma adopt_stored : forall clk me x i, okv clk (d_hlv x) -> okv clk (d_hlv i) ->
  dominates (d_hlv x) (cv (d_hlv i)) = false -> lossless (d_hlv x) (d_hlv i) = true ->
  stored clk me (Some x) i (adopt (d_hlv x) i) (clk me).
Proof.
  intros clk me x i Ox Oi D L.
  destruct (okv_update clk (d_hlv x) (d_hlv i) Ox Oi L) as [O [C V]]. cbn zeta in *.
  constructor; unfold adopt; cbn [d_hlv d_body d_del].
  - lia.
  - eapply okv_mono; [|exact O]. apply bump_ge. lia.
  - intros x0 E. inv E. exact D.
  - left. auto.
  - intros q Hq. rewrite (V q Hq). lia.
  - intros x0 E q Hq. inv E. rewrite (V q Hq). lia.
  - intros q Hq _. rewrite (V q Hq). lia.
Qed.

Lemma adopt_new_stored : forall clk me i, okv clk (d_hlv i) -> stored clk me None i (adopt empty_hlv i) (clk me).
Proof.
  intros clk me i Oi. constructor; unfold adopt; cbn [d_hlv d_body d_del]; rewrite ?update_with_incoming_empty.
  - lia.
  - eapply okv_mono; [|exact Oi]. apply bump_ge. lia.
  - intros x E. discriminate.
  - left. auto.
  - intros. lia.
  - intros x E. discriminate.
  - intros. lia.
Qed.

Lemma gtransfer_cases : forall clk res me phys i l,
  me <> 0 -> okv clk (d_hlv i) -> (forall x, l = Some x -> okv clk (d_hlv x)) ->
  xfer_regular res (Some i) l = true ->
  let t := gtransfer res me phys (clk me) (Some i) l in
  (fst (fst t) = l /\ snd t = clk me /\ keeps (snd (fst t)) /\
   (snd (fst t) = GKnown -> exists x, l = Some x /\ dominates (d_hlv x) (cv (d_hlv i)) = true) /\
   (snd (fst t) = GConflict -> res = None /\ exists x, l = Some x /\ dominates (d_hlv x) (cv (d_hlv i)) = false /\
                                dominates (d_hlv i) (cv (d_hlv x)) = false /\ d_del i && d_del x = false) /\
   (snd (fst t) = GCancelled -> exists x, l = Some x /\ dominates (d_hlv x) (cv (d_hlv i)) = false /\
                                 is_in_conflict (d_hlv x) (d_hlv i) = AlreadyPresent)) \/
  (exists r, fst (fst t) = Some r /\ stored clk me l i r (snd t) /\
             (res = None -> cv (d_hlv r) = cv (d_hlv i) /\ d_body r = d_body i /\ d_del r = d_del i) /\
             (snd (fst t) = GApplied \/ snd (fst t) = GRemoteWins \/ snd (fst t) = GLocalWins \/ snd (fst t) = GMerged) /\
             (snd (fst t) = GApplied -> cv (d_hlv r) = cv (d_hlv i)) /\
             (snd (fst t) <> GApplied -> exists x, l = Some x /\ dominates (d_hlv i) (cv (d_hlv x)) = false)).
Proof.
  intros clk res me phys i l Hme Oi Ol Reg. cbn zeta. unfold gtransfer. unfold xfer_regular in Reg.
  destruct l as [x|].
  2:{ apply negb_true_iff in Reg. rewrite Reg. right. eexists. cbn [fst snd]. split; [reflexivity|].
      split; [apply adopt_new_stored; auto|]. unfold adopt; cbn [d_hlv]. rewrite update_with_incoming_empty.
      repeat split; auto. intros F; congruence. }
  pose proof (Ol x eq_refl) as Ox.
  destruct (dominates (d_hlv x) (cv (d_hlv i))) eqn:D.
  { left. cbn [fst snd]. split; [reflexivity|]. split; [reflexivity|]. split; [unfold keeps; auto|].
    split; [intros _; eauto|]. split; discriminate. }
  apply andb_true_iff in Reg. destruct Reg as [US Reg]. apply negb_true_iff in US. rewrite US.
  destruct (d_del i && d_del x) eqn:T.
  { right. eexists. cbn [fst snd]. split; [reflexivity|]. split; [apply adopt_stored; auto|].
    unfold adopt; cbn [d_hlv]. destruct (okv_update clk _ _ Ox Oi Reg) as [_ [C _]]. cbn zeta in C.
    repeat split; auto. intros F; congruence. }
  destruct (is_in_conflict (d_hlv x) (d_hlv i)) eqn:IC.
  - (* no conflict *)
    right. eexists. cbn [fst snd]. split; [reflexivity|]. split; [apply adopt_stored; auto|].
    unfold adopt; cbn [d_hlv]. destruct (okv_update clk _ _ Ox Oi Reg) as [_ [C _]]. cbn zeta in C.
    repeat split; auto. intros F; congruence.
  - (* conflict *)
    apply (proj1 (proj2 (status_cases _ _))) in IC. destruct IC as [C0 [C1 [C2 _]]].
    assert (Ncv : cv (d_hlv x) <> cv (d_hlv i)) by (now apply equal_cv_false).
    destruct res as [f|].
    2:{ left. cbn [fst snd]. split; [reflexivity|]. split; [reflexivity|]. split; [unfold keeps; auto|].
        split; [discriminate|]. split; [|discriminate]. intros _. split; auto. exists x. auto. }
    destruct (f x i) as [| |mb] eqn:F.
    + (* local wins *)
      apply andb_true_iff in Reg. destruct Reg as [L NC]. apply negb_true_iff in NC.
      right. eexists. cbn [fst snd]. split; [reflexivity|].
      unfold fresolve_local_wins. rewrite NC. unfold resolve_local_wins.
      destruct (okv_update clk (d_hlv i) (d_hlv x) Oi Ox L) as [O [C V]]. cbn zeta in *.
      split; [|split; [discriminate|split; [auto|split; [discriminate|intros _; eauto]]]].
      constructor; cbn [d_hlv d_body d_del].
      * lia.
      * eapply okv_mono; [|exact O]. apply bump_ge. lia.
      * intros x0 E. inv E. exact D.
      * right. left. exists x. repeat split; auto.
      * intros q Hq. rewrite (V q Hq). lia.
      * intros x0 E q Hq. inv E. rewrite (V q Hq). lia.
      * intros q Hq _. rewrite (V q Hq). lia.
    + (* remote wins *)
      apply andb_true_iff in Reg. destruct Reg as [L NC]. apply negb_true_iff in NC.
      right. eexists. cbn [fst snd]. split; [reflexivity|].
      unfold fresolve_remote_wins. rewrite NC. unfold resolve_remote_wins.
      split; [apply adopt_stored; auto|]. split; [discriminate|split; [auto|split; [discriminate|intros _; eauto]]].
    + (* merge *)
      apply negb_true_iff in Reg.
      destruct (okv_merge clk (d_hlv x) (d_hlv i) me phys Ox Oi Hme C1 C2) as [h' [A [O [C [Vm V]]]]].
      cbv zeta in A. rewrite A. right. eexists. cbn [fst snd]. split; [reflexivity|].
      set (v := hlc_now phys (clk me) (N.max (max_value_for_source (d_hlv x) me) (max_value_for_source (d_hlv i) me))) in *.
      assert (Hc : clk me < v) by (subst v; apply hlc_now_gt_clock).
      assert (Bx : value (d_hlv x) me <= clk me) by (apply okv_bound; auto).
      assert (Bi : value (d_hlv i) me <= clk me) by (apply okv_bound; auto).
      unfold merged_doc. rewrite Reg.
      destruct (null_merge_is_delete && (mb =? del_digest_body));
      (split; [|split; [discriminate|split; [auto|split; [discriminate|intros _; eauto]]]];
       constructor; cbn [d_hlv d_body d_del];
       [ lia | exact O | intros x0 E; inv E; exact D | right; right; auto
       | intros q Hq; destruct (N.eq_dec q me) as [->|Nq]; [rewrite Vm; lia | rewrite (V q Hq Nq); lia]
       | intros x0 E q Hq; inv E; destruct (N.eq_dec q me) as [->|Nq]; [rewrite Vm; lia | rewrite (V q Hq Nq); lia]
       | intros q Hq Nq; rewrite (V q Hq Nq); lia ]).
  - (* already present *)
    left. cbn [fst snd]. split; [reflexivity|]. split; [reflexivity|]. split; [unfold keeps; auto|].
    split; [discriminate|]. split; [discriminate|]. intros _. exists x. auto.
Qed.

(* ---------- state bookkeeping ---------- *)
Lemma gdoc_gset : forall s p x q d, gdoc (gset s p x) q d = if q =? p then p_doc x d else gdoc s q d.
Proof. intros. unfold gdoc, gset. destruct (q =? p); reflexivity. Qed.

Lemma gclk_gset : forall s p x q, gclk (gset s p x) q = if q =? p then p_clk x else gclk s q.
Proof. intros. unfold gclk, gset. destruct (q =? p); reflexivity. Qed.

(* storing copy r of document d at peer me, whose clock becomes c' *)
Definition store_state (s : gsys) (me d : N) (r : option vdoc) (c' : N) : gsys :=
  gset s me (mkP (updf (p_doc (s me)) d r) c').

Lemma gdoc_store : forall s me d r c' q d',
  gdoc (store_state s me d r c') q d' = if (q =? me) && (d' =? d) then r else gdoc s q d'.
Proof.
  intros. unfold store_state. rewrite gdoc_gset. destruct (N.eqb_spec q me); [|reflexivity]. subst.
  cbn [p_doc andb]. unfold updf, gdoc. destruct (d' =? d); reflexivity.
Qed.

Lemma gclk_store : forall s me d r c' q, gclk (store_state s me d r c') q = bump (gclk s) me c' q.
Proof. intros. unfold store_state, bump. rewrite gclk_gset. reflexivity. Qed.

Record CInv (s : gsys) : Prop := mkCInv {
  ci_ok : forall p d x, gdoc s p d = Some x -> okv (gclk s) (d_hlv x);
  ci_uniq : forall p q d x w, gdoc s p d = Some x -> gdoc s q d = Some w -> cv (d_hlv x) = cv (d_hlv w) ->
            d_body x = d_body w /\ d_del x = d_del w;
  ci_m : forall a d x y, active a -> gdoc s a d = Some x -> gdoc s 2 d = Some y ->
         dominates (d_hlv x) (cv (d_hlv y)) = true -> dominates (d_hlv y) (cv (d_hlv x)) = true ->
         cv (d_hlv x) = cv (d_hlv y);
  ci_mid : forall a d x q, active a -> gdoc s a d = Some x -> q <> 0 -> q <> a -> value (d_hlv x) q <> 0 ->
           exists y, gdoc s 2 d = Some y /\ value (d_hlv x) q <= value (d_hlv y) q
}.

Lemma cinv0 : CInv gsys0.
Proof. constructor; intros; discriminate. Qed.

Lemma CInv_ext : forall s s', (forall p d, gdoc s' p d = gdoc s p d) -> (forall q, gclk s' q = gclk s q) ->
  CInv s -> CInv s'.
Proof.
  intros s s' Ed Ec I. constructor.
  - intros p d x X. rewrite Ed in X. eapply okv_mono; [|eapply (ci_ok s I); eauto]. intros q. rewrite Ec. lia.
  - intros p q d x w X W. rewrite Ed in X, W. eapply (ci_uniq s I); eauto.
  - intros a d x y A X Y. rewrite Ed in X, Y. eapply (ci_m s I); eauto.
  - intros a d x q A X Hq Nq V. rewrite Ed in X. destruct (ci_mid s I a d x q A X Hq Nq V) as [y [Y L]].
    exists y. rewrite Ed. auto.
Qed.

Lemma active_not2 : forall a, active a -> a <> 2.
Proof. intros a [->| ->]; discriminate. Qed.
Lemma active_nz : forall a, active a -> a <> 0.
Proof. intros a [->| ->]; discriminate. Qed.

(* a version above the clock of its source is known nowhere and is nobody's current version *)
Lemma fresh_unknown : forall s p d w me c, CInv s -> gdoc s p d = Some w -> gclk s me < c ->
  dominates (d_hlv w) (me, c) = false /\ cv (d_hlv w) <> (me, c).
Proof.
  intros s p d w me c I W L. pose proof (ci_ok s I p d w W) as O.
  pose proof (okv_bound _ _ me O) as B. split.
  - apply dom_value_false; lia.
  - intros E. unfold cv in E. inv E. rewrite (value_own _ (okv_src _ _ O)) in B. lia.
Qed.

(* ---------- a pull stores r on the active peer a ---------- *)
Lemma pull_inv : forall s a d i r c', CInv s -> active a -> gdoc s 2 d = Some i ->
  stored (gclk s) a (gdoc s a d) i r c' -> CInv (store_state s a d (Some r) c').
Proof.
  intros s a d i r c' I A Yi St.
  pose proof (active_not2 a A) as N2. pose proof (active_nz a A) as Nz.
  pose proof (ci_ok s I 2 d i Yi) as Oi.
  assert (CLK : forall q, gclk s q <= bump (gclk s) a c' q) by (apply bump_ge; apply (st_clk _ _ _ _ _ _ St)).
  (* the stored copy against any old copy w of the same document *)
  assert (UQ : forall p w, gdoc s p d = Some w -> cv (d_hlv r) = cv (d_hlv w) -> d_body r = d_body w /\ d_del r = d_del w).
  { intros p w W E. destruct (st_kind _ _ _ _ _ _ St) as [[C [B D]] | [[x [X [C [B [D _]]]]] | [C L]]].
    - rewrite B, D. apply (ci_uniq s I 2 p d i w Yi W). congruence.
    - rewrite B, D. apply (ci_uniq s I a p d x w X W). congruence.
    - exfalso. destruct (fresh_unknown s p d w a c' I W L) as [_ F]. congruence. }
  constructor.
  - intros p d' x X. rewrite gdoc_store in X. eapply okv_mono with (clk := bump (gclk s) a c'); [intros q; rewrite gclk_store; lia|].
    destruct ((p =? a) && (d' =? d)); [inv X; apply (st_ok _ _ _ _ _ _ St)|].
    eapply okv_mono; [exact CLK | eapply (ci_ok s I); eauto].
  - intros p q d' x w X W E. rewrite gdoc_store in X, W.
    destruct (N.eqb_spec d' d) as [->|Nd]; [|rewrite !andb_false_r in X, W; eapply (ci_uniq s I); eauto].
    rewrite !andb_true_r in X, W.
    destruct (p =? a), (q =? a).
    + inv X. inv W. auto.
    + inv X. eapply UQ; eauto.
    + inv W. symmetry in E. destruct (UQ p x X E). auto.
    + eapply (ci_uniq s I); eauto.
  - intros a0 d' x y A0 X Y D1 D2. rewrite gdoc_store in X, Y.
    assert (E2 : (2 =? a) = false) by (apply N.eqb_neq; auto). rewrite E2 in Y. cbn [andb] in Y.
    destruct (N.eqb_spec d' d) as [->|Nd]; [|rewrite andb_false_r in X; eapply (ci_m s I); eauto].
    rewrite andb_true_r in X. destruct (N.eqb_spec a0 a) as [->|Na]; [|eapply (ci_m s I); eauto].
    inv X. rewrite Yi in Y. inv Y.
    destruct (st_kind _ _ _ _ _ _ St) as [[C _] | [[x0 [X0 [C [_ [_ [Dn _]]]]]] | [C L]]].
    + exact C.
    + rewrite C in D2. congruence.
    + rewrite C in D2. destruct (fresh_unknown s 2 d y a c' I Yi L) as [F _]. congruence.
  - intros a0 d' x q A0 X Hq Nq V. rewrite gdoc_store in X.
    assert (Y2 : gdoc (store_state s a d (Some r) c') 2 d' = gdoc s 2 d').
    { rewrite gdoc_store. assert (E2 : (2 =? a) = false) by (apply N.eqb_neq; auto). now rewrite E2. }
    rewrite Y2.
    destruct (N.eqb_spec d' d) as [->|Nd]; [|rewrite andb_false_r in X; eapply (ci_mid s I); eauto].
    rewrite andb_true_r in X. destruct (N.eqb_spec a0 a) as [->|Na]; [|eapply (ci_mid s I); eauto].
    inv X. exists i. split; [exact Yi|].
    pose proof (st_le _ _ _ _ _ _ St q Hq Nq) as LE.
    destruct (gdoc s a d) as [x0|] eqn:X0.
    + destruct (N.eq_dec (value (d_hlv x0) q) 0) as [Z|Z]; [lia|].
      destruct (ci_mid s I a d x0 q A X0 Hq Nq Z) as [y [Y L]]. rewrite Yi in Y. inv Y. lia.
    + lia.
Qed.

(* ---------- a push stores r on the passive peer ---------- *)
Lemma push_inv : forall s a d i r c', CInv s -> active a -> gdoc s a d = Some i ->
  stored (gclk s) 2 (gdoc s 2 d) i r c' -> cv (d_hlv r) = cv (d_hlv i) -> d_body r = d_body i -> d_del r = d_del i ->
  CInv (store_state s 2 d (Some r) c').
Proof.
  intros s a d i r c' I A Xi St C Bd Dl.
  pose proof (active_not2 a A) as N2. pose proof (active_nz a A) as Nz.
  pose proof (ci_ok s I a d i Xi) as Oi.
  assert (CLK : forall q, gclk s q <= bump (gclk s) 2 c' q) by (apply bump_ge; apply (st_clk _ _ _ _ _ _ St)).
  assert (Ea : (a =? 2) = false) by (apply N.eqb_neq; auto).
  assert (UQ : forall p w, gdoc s p d = Some w -> cv (d_hlv r) = cv (d_hlv w) -> d_body r = d_body w /\ d_del r = d_del w).
  { intros p w W E. rewrite Bd, Dl. apply (ci_uniq s I a p d i w Xi W). congruence. }
  (* the pushed version is one the active peer generated itself, and the passive peer did not know it *)
  assert (SRC : src (d_hlv i) = a).
  { destruct (N.eq_dec (src (d_hlv i)) a) as [E|NE]; auto. exfalso.
    pose proof (okv_src _ _ Oi) as Hs. pose proof (okv_ver _ _ Oi) as Hv.
    assert (V : value (d_hlv i) (src (d_hlv i)) <> 0) by (rewrite value_own; auto).
    destruct (ci_mid s I a d i (src (d_hlv i)) A Xi Hs NE V) as [y [Y L]].
    pose proof (st_new _ _ _ _ _ _ St y Y) as D. apply (dom_cv_false _ _ _ Oi) in D.
    rewrite value_own in L; auto. lia. }
  assert (UNK : forall a0 z, active a0 -> a0 <> a -> gdoc s a0 d = Some z -> dominates (d_hlv z) (cv (d_hlv i)) = false).
  { intros a0 z A0 Na Z. destruct (dominates (d_hlv z) (cv (d_hlv i))) eqn:D; auto. exfalso.
    apply (dom_cv _ _ _ Oi) in D. rewrite SRC in D. pose proof (okv_ver _ _ Oi) as Hv.
    assert (V : value (d_hlv z) a <> 0) by lia.
    destruct (ci_mid s I a0 d z a A0 Z Nz ltac:(auto) V) as [y [Y L]].
    pose proof (st_new _ _ _ _ _ _ St y Y) as D'. apply (dom_cv_false _ _ _ Oi) in D'. rewrite SRC in D'. lia. }
  constructor.
  - intros p d' x X. rewrite gdoc_store in X. eapply okv_mono with (clk := bump (gclk s) 2 c'); [intros q; rewrite gclk_store; lia|].
    destruct ((p =? 2) && (d' =? d)); [injection X as <-; apply (st_ok _ _ _ _ _ _ St)|].
    eapply okv_mono; [exact CLK | eapply (ci_ok s I); eauto].
  - intros p q d' x w X W E. rewrite gdoc_store in X, W.
    destruct (N.eqb_spec d' d) as [->|Nd]; [|rewrite !andb_false_r in X, W; eapply (ci_uniq s I); eauto].
    rewrite !andb_true_r in X, W.
    destruct (p =? 2), (q =? 2).
    + injection X as <-. injection W as <-. auto.
    + injection X as <-. eapply UQ; eauto.
    + injection W as <-. symmetry in E. destruct (UQ p x X E). auto.
    + eapply (ci_uniq s I); eauto.
  - intros a0 d' x y A0 X Y D1 D2. rewrite gdoc_store in X, Y.
    assert (E0 : (a0 =? 2) = false) by (apply N.eqb_neq; apply active_not2; auto). rewrite E0 in X. cbn [andb] in X.
    rewrite N.eqb_refl in Y. cbn [andb] in Y.
    destruct (N.eqb_spec d' d) as [->|Nd]; [|eapply (ci_m s I); eauto]. injection Y as <-.
    destruct (N.eq_dec a0 a) as [->|Na].
    + rewrite Xi in X. injection X as <-. symmetry. exact C.
    + rewrite C in D1. rewrite (UNK a0 x A0 Na X) in D1. discriminate.
  - intros a0 d' x q A0 X Hq Nq V. rewrite gdoc_store in X.
    assert (E0 : (a0 =? 2) = false) by (apply N.eqb_neq; apply active_not2; auto). rewrite E0 in X. cbn [andb] in X.
    rewrite gdoc_store, N.eqb_refl. cbn [andb].
    destruct (N.eqb_spec d' d) as [->|Nd]; [|eapply (ci_mid s I); eauto].
    exists r. split; [reflexivity|].
    destruct (N.eq_dec a0 a) as [->|Na].
    + rewrite Xi in X. injection X as <-. apply (st_ge_i _ _ _ _ _ _ St q Hq).
    + destruct (ci_mid s I a0 d x q A0 X Hq Nq V) as [y [Y L]].
      pose proof (st_ge_l _ _ _ _ _ _ St y Y q Hq). lia.
Qed.

(* ---------- local writes ---------- *)
Lemma write_inv : forall s p d body del phys, CInv s -> p <> 0 ->
  CInv (gset s p (glocal_write p (s p) d body del phys)).
Proof.
  intros s p d body del phys I Hp. unfold glocal_write.
  set (h0 := match p_doc (s p) d with Some x => d_hlv x | None => empty_hlv end).
  set (rev0 := match p_doc (s p) d with Some x => d_rev x | None => [] end).
  set (v := hlc_now phys (p_clk (s p)) (max_value_for_source h0 p)).
  assert (W : exists h', add_version h0 (p, v) = Some h' /\ okv (bump (gclk s) p v) h' /\ cv h' = (p, v) /\
                         value h' p = v /\
                         (forall q, q <> 0 -> q <> p -> value h' q = match gdoc s p d with Some x => value (d_hlv x) q | None => 0 end)).
  { unfold gdoc. subst h0 v. destruct (p_doc (s p) d) as [x|] eqn:X.
    - destruct (okv_write (gclk s) (d_hlv x) p phys (ci_ok s I p d x X) Hp) as [h' [A [O [C [_ [Vp V]]]]]].
      exists h'. auto.
    - destruct (okv_write_empty (gclk s) p phys Hp) as [h' [A [O [C [_ [Vp V]]]]]]. exists h'. auto. }
  destruct W as [h' [A [O [C [Vp V]]]]]. rewrite A.
  assert (Hc : gclk s p < v) by (subst v; apply hlc_now_gt_clock).
  set (nd := mkD h' body del ((if del then del_digest_body else body) :: rev0)).
  change (gset s p (mkP (updf (p_doc (s p)) d (Some nd)) v)) with (store_state s p d (Some nd) v).
  assert (CLK : forall q, gclk s q <= bump (gclk s) p v q) by (apply bump_ge; lia).
  assert (FR : forall q w, gdoc s q d = Some w -> dominates (d_hlv w) (p, v) = false /\ cv (d_hlv w) <> (p, v))
    by (intros q w Wq; eapply fresh_unknown; eauto).
  constructor.
  - intros q d' x X. rewrite gdoc_store in X. eapply okv_mono with (clk := bump (gclk s) p v); [intros q0; rewrite gclk_store; lia|].
    destruct ((q =? p) && (d' =? d)); [inv X; exact O|]. eapply okv_mono; [exact CLK | eapply (ci_ok s I); eauto].
  - intros q1 q2 d' x w X Wd E. rewrite gdoc_store in X, Wd.
    destruct (N.eqb_spec d' d) as [->|Nd]; [|rewrite !andb_false_r in X, Wd; eapply (ci_uniq s I); eauto].
    rewrite !andb_true_r in X, Wd. destruct (q1 =? p), (q2 =? p).
    + inv X. inv Wd. auto.
    + inv X. unfold nd in E. cbn [d_hlv] in E. rewrite C in E. destruct (FR q2 w Wd) as [_ F]. congruence.
    + inv Wd. unfold nd in E. cbn [d_hlv] in E. rewrite C in E. destruct (FR q1 x X) as [_ F]. congruence.
    + eapply (ci_uniq s I); eauto.
  - intros a d' x y Aa X Y D1 D2. rewrite gdoc_store in X, Y.
    destruct (N.eqb_spec d' d) as [->|Nd]; [|rewrite !andb_false_r in X, Y; eapply (ci_m s I); eauto].
    rewrite !andb_true_r in X, Y. destruct (N.eqb_spec a p) as [->|Na], (N.eqb_spec 2 p) as [E2|N2].
    + exfalso. apply (active_not2 p Aa). auto.
    + inv X. unfold nd in D2. cbn [d_hlv] in D2. rewrite C in D2. destruct (FR 2 y Y) as [F _]. congruence.
    + inv Y. unfold nd in D1. cbn [d_hlv] in D1. rewrite C in D1. destruct (FR a x X) as [F _]. congruence.
    + eapply (ci_m s I); eauto.
  - intros a d' x q Aa X Hq Nq Vq. rewrite gdoc_store in X. rewrite gdoc_store.
    destruct (N.eqb_spec d' d) as [->|Nd]; [|rewrite !andb_false_r in *; eapply (ci_mid s I); eauto].
    rewrite !andb_true_r in *.
    destruct (N.eqb_spec a p) as [->|Na].
    + (* the writer is the active peer: nothing new about foreign sources *)
      inv X. unfold nd in *. cbn [d_hlv] in *. rewrite (V q Hq Nq) in *.
      assert (E2 : (2 =? p) = false) by (apply N.eqb_neq; intros E; apply (active_not2 p Aa); auto). rewrite E2.
      destruct (gdoc s p d) as [x0|] eqn:X0; [|congruence]. eapply (ci_mid s I); eauto.
    + destruct (ci_mid s I a d x q Aa X Hq Nq Vq) as [y [Y L]].
      destruct (N.eqb_spec 2 p) as [E2|N2].
      * (* the writer is the passive peer: it still knows what it knew *)
        subst p. exists nd. split; [reflexivity|]. unfold nd. cbn [d_hlv].
        destruct (N.eq_dec q 2) as [->|Nq2].
        -- rewrite Vp. pose proof (okv_bound _ _ 2 (ci_ok s I a d x X)). lia.
        -- rewrite (V q Hq Nq2), Y. exact L.
      * exists y. auto.
Qed.
