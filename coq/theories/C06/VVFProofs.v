(* C06 proofs, version-vector protocol, part 4: the faithful transfer (VVF.v) coincides with the transfer on vectors
   (VV.v) on every history without a revision-tree clash; the theorems of VVConv carry over to such histories. *)
From SG Require Import Base.Prelude C10.AMap C10.HLV C10.HLVProofs C06.VV C06.VVProofs C06.VVInv C06.VVConv C06.VVF.
Open Scope N_scope.

Lemma ftransfer_clean : forall r a b, transfer_clashes r a b = false -> ftransfer r a b = vtransfer r a b.
Proof.
  intros r [i|] [l|] H; try reflexivity. unfold transfer_clashes in H. unfold ftransfer, vtransfer.
  destruct (dominates (d_hlv l) (cv (d_hlv i))); [reflexivity|].
  destruct (d_del i && d_del l); [reflexivity|].
  destruct (is_in_conflict (d_hlv l) (d_hlv i)); try reflexivity.
  destruct r; [|reflexivity]. cbn in H.
  unfold fresolve_remote_wins, fresolve_local_wins.
  destruct (lww_remote_wins l i); rewrite H; reflexivity.
Qed.

Lemma fstep_clean : forall s o, step_clashes s o = false -> fstep_full s o = vstep_full s o.
Proof.
  intros s o H. destruct o as [p d body phys | p d phys | d | d | d body phys]; cbn [fstep_full vstep_full step_clashes] in *;
    try reflexivity.
  - unfold fpull_full, pull_full. now rewrite (ftransfer_clean _ _ _ H).
  - unfold fpull_full, pull_full. now rewrite (ftransfer_clean _ _ _ H).
Qed.

Lemma frun_clean : forall ops s, clash_free_from s ops = true -> frun s ops = vrun s ops.
Proof.
  induction ops as [|o r IH]; intros s H; [reflexivity|]. cbn [clash_free_from] in H.
  apply andb_true_iff in H. destruct H as [H1 H2]. apply negb_true_iff in H1.
  cbn [frun vrun]. unfold fstep in *. unfold vstep. rewrite (fstep_clean s o H1) in *. apply IH. exact H2.
Qed.

Lemma clash_free_app : forall a b s, clash_free_from s (a ++ b) = clash_free_from s a && clash_free_from (frun s a) b.
Proof.
  induction a as [|o r IH]; intros b s; [reflexivity|]. cbn [app clash_free_from frun]. rewrite IH. now rewrite andb_assoc.
Qed.

Lemma frun_app : forall a b s, frun s (a ++ b) = frun (frun s a) b.
Proof. induction a as [|o r IH]; intros b s; [reflexivity|]. cbn [app frun]. apply IH. Qed.

Lemma vrun_app : forall a b s, vrun s (a ++ b) = vrun (vrun s a) b.
Proof. induction a as [|o r IH]; intros b s; [reflexivity|]. cbn [app vrun]. apply IH. Qed.

(* convergence for every history without a revision-tree clash *)
Theorem flww_converges : forall ops d, clash_free (ops ++ [VPull d; VPush d]) = true ->
  let s := frun (frun vsys0 ops) [VPull d; VPush d] in
  vobs (vdoc_of s VA d) = vobs (vdoc_of s VB d).
Proof.
  intros ops d H. cbn zeta. rewrite <- frun_app. rewrite (frun_clean _ _ H). rewrite vrun_app.
  apply lww_converges.
Qed.

Lemma fstatus_clean : forall s o, step_clashes s o = false -> fstatus_of s o = vstatus_of s o.
Proof. intros s o H. unfold fstatus_of, vstatus_of. now rewrite (fstep_clean s o H). Qed.

(* the winner both sides adopt, without a clash in the pull *)
Theorem flww_winner_adopted : forall ops d x y, clash_free (ops ++ [VPull d; VPush d]) = true ->
  let s := frun vsys0 ops in
  vdoc_of s VA d = Some x -> vdoc_of s VB d = Some y ->
  dominates (d_hlv x) (cv (d_hlv y)) = false -> dominates (d_hlv y) (cv (d_hlv x)) = false ->
  d_del x && d_del y = false ->
  fstatus_of s (VPull d) = (if lww_remote_wins x y then VRemoteWins else VLocalWins) /\
  let s' := fstep (fstep s (VPull d)) (VPush d) in
  vobs (vdoc_of s' VA d) = vobs (Some (lww_winner x y)) /\ vobs (vdoc_of s' VB d) = vobs (Some (lww_winner x y)).
Proof.
  intros ops d x y H. cbn zeta. unfold clash_free in H. rewrite clash_free_app in H. apply andb_true_iff in H.
  destruct H as [H1 H2]. rewrite (frun_clean _ _ H1) in *. cbn [clash_free_from] in H2.
  apply andb_true_iff in H2. destruct H2 as [C1 H2]. apply negb_true_iff in C1.
  apply andb_true_iff in H2. destruct H2 as [C2 _]. apply negb_true_iff in C2.
  intros X Y D1 D2 T.
  destruct (lww_winner_adopted ops d x y X Y D1 D2 T) as [S1 S2]. cbn zeta in S2.
  split; [rewrite (fstatus_clean _ _ C1); exact S1|].
  unfold fstep in *. rewrite (fstep_clean _ _ C1) in *. rewrite (fstep_clean _ _ C2). exact S2.
Qed.

(* ---------- the other theorems of VVConv, for the faithful model ---------- *)
Lemma fresolve_hlv : forall l i,
  d_hlv (fresolve_remote_wins l i) = d_hlv (resolve_remote_wins l i) /\
  d_hlv (fresolve_local_wins l i) = d_hlv (resolve_local_wins l i).
Proof.
  intros l i. unfold fresolve_remote_wins, fresolve_local_wins, tombstoned, resolve_remote_wins, resolve_local_wins, adopt.
  destruct (clash_remote l i), (clash_local l i); cbn [d_hlv]; auto.
Qed.

Theorem fresolution_dominates_both : forall l i, simple (d_hlv l) -> simple (d_hlv i) ->
  dominates (d_hlv l) (cv (d_hlv i)) = false -> dominates (d_hlv i) (cv (d_hlv l)) = false ->
  let r := if lww_remote_wins l i then fresolve_remote_wins l i else fresolve_local_wins l i in
  dominates (d_hlv r) (cv (d_hlv l)) = true /\ dominates (d_hlv r) (cv (d_hlv i)) = true.
Proof.
  intros l i Sl Si D1 D2. pose proof (resolution_dominates_both l i Sl Si D1 D2) as H. cbn zeta in *.
  destruct (fresolve_hlv l i) as [E1 E2]. destruct (lww_remote_wins l i); [rewrite E1 | rewrite E2]; exact H.
Qed.

(* a transfer between copies one of which already knows the other's current version runs no resolution *)
Lemma no_clash_known : forall r i l, dominates (d_hlv l) (cv (d_hlv i)) = true -> transfer_clashes r (Some i) (Some l) = false.
Proof. intros r i l D. unfold transfer_clashes. rewrite D. cbn. now rewrite andb_false_r. Qed.

Theorem fvv_caught_up_transfers_nothing : forall ops d, clash_free ops = true ->
  let s := frun vsys0 ops in
  vobs (vdoc_of s VA d) = vobs (vdoc_of s VB d) ->
  (forall q d', vdoc_of (fstep s (VPull d)) q d' = vdoc_of s q d') /\
  (forall q d', vdoc_of (fstep s (VPush d)) q d' = vdoc_of s q d') /\
  (fstatus_of s (VPull d) = VKnown \/ fstatus_of s (VPull d) = VNothing) /\
  (fstatus_of s (VPush d) = VKnown \/ fstatus_of s (VPush d) = VNothing).
Proof.
  intros ops d CF. cbn zeta. rewrite (frun_clean _ _ CF). intros O.
  pose proof (vv_caught_up_transfers_nothing ops d O) as H.
  assert (C1 : step_clashes (vrun vsys0 ops) (VPull d) = false).
  { cbn [step_clashes]. destruct (vdoc_of (vrun vsys0 ops) VA d) as [x|] eqn:X, (vdoc_of (vrun vsys0 ops) VB d) as [y|] eqn:Y; try reflexivity.
    apply no_clash_known. assert (E : cv (d_hlv y) = cv (d_hlv x)) by (cbn in O; congruence). rewrite E.
    apply dominates_own_cv. apply (vv_reachable_simple ops VA d x X). }
  assert (C2 : step_clashes (vrun vsys0 ops) (VPush d) = false) by reflexivity.
  unfold fstep, fstatus_of. rewrite (fstep_clean _ _ C1), (fstep_clean _ _ C2). exact H.
Qed.

Theorem fvv_rerun_transfers_nothing : forall ops d, clash_free (ops ++ [VPull d; VPush d]) = true ->
  let s := frun (frun vsys0 ops) [VPull d; VPush d] in
  (forall q d', vdoc_of (fstep s (VPull d)) q d' = vdoc_of s q d') /\
  (forall q d', vdoc_of (fstep s (VPush d)) q d' = vdoc_of s q d') /\
  (fstatus_of s (VPull d) = VKnown \/ fstatus_of s (VPull d) = VNothing) /\
  (fstatus_of s (VPush d) = VKnown \/ fstatus_of s (VPush d) = VNothing).
Proof.
  intros ops d CF. cbn zeta. rewrite <- frun_app. apply fvv_caught_up_transfers_nothing; [exact CF|].
  rewrite frun_app. apply flww_converges. exact CF.
Qed.

Theorem fvv_never_cancelled : forall ops o, clash_free (ops ++ [o]) = true -> fstatus_of (frun vsys0 ops) o <> VCancelled.
Proof.
  intros ops o CF. unfold clash_free in CF. rewrite clash_free_app in CF. apply andb_true_iff in CF. destruct CF as [C1 C2].
  cbn [clash_free_from] in C2. apply andb_true_iff in C2. destruct C2 as [C2 _]. apply negb_true_iff in C2.
  rewrite (fstatus_clean _ _ C2). rewrite (frun_clean _ _ C1). apply vv_never_cancelled.
Qed.

Theorem fvv_local_write_fresh : forall ops p d body phys, clash_free ops = true ->
  let s := frun vsys0 ops in
  exists x, vdoc_of (fstep s (VEdit p d body phys)) p d = Some x /\
            d_body x = body /\ d_del x = false /\ src (d_hlv x) = vsrc p /\
            (forall q d' y e, vdoc_of s q d' = Some y -> listed (d_hlv y) (vsrc p, e) -> e < ver (d_hlv x)).
Proof.
  intros ops p d body phys CF. cbn zeta. rewrite (frun_clean _ _ CF). apply vv_local_write_fresh.
Qed.

Theorem fvv_reachable_consistent : forall ops d x y, clash_free ops = true ->
  let s := frun vsys0 ops in
  vdoc_of s VA d = Some x -> vdoc_of s VB d = Some y ->
  simple (d_hlv x) /\ simple (d_hlv y) /\
  (cv (d_hlv x) = cv (d_hlv y) -> d_body x = d_body y /\ d_del x = d_del y) /\
  (dominates (d_hlv x) (cv (d_hlv y)) = true -> dominates (d_hlv y) (cv (d_hlv x)) = true -> cv (d_hlv x) = cv (d_hlv y)).
Proof.
  intros ops d x y CF. cbn zeta. rewrite (frun_clean _ _ CF). apply vv_reachable_consistent.
Qed.

Theorem fvv_documents_independent : forall s o q d, d <> vop_doc o -> vdoc_of (fstep s o) q d = vdoc_of s q d.
Proof.
  intros s o q d N. destruct o as [p d0 body phys | p d0 phys | d0 | d0 | d0 body phys]; cbn [vop_doc] in N.
  - apply (vv_documents_independent s (VEdit p d0 body phys) q d N).
  - apply (vv_documents_independent s (VDelete p d0 phys) q d N).
  - unfold fstep, fstep_full, fpull_full. destruct (ftransfer true (vdoc_of s VB d0) (vdoc_of s VA d0)) as [x st]. cbn [fst].
    rewrite vdoc_set_peer. destruct q; cbn [vside_eqb]; [|reflexivity]. cbn [set_doc p_doc]. unfold updf.
    destruct (N.eqb_spec d d0); [contradiction|reflexivity].
  - unfold fstep, fstep_full, fpush_full. destruct (ftransfer false (vdoc_of s VA d0) (vdoc_of s VB d0)) as [x st]. cbn [fst].
    rewrite vdoc_set_peer. destruct q; cbn [vside_eqb]; [reflexivity|]. cbn [set_doc p_doc]. unfold updf.
    destruct (N.eqb_spec d d0); [contradiction|reflexivity].
  - unfold fstep, fstep_full, fpull_full.
    destruct (ftransfer true (vdoc_of (edit_sys s VA d0 body phys) VB d0) (vdoc_of (edit_sys s VA d0 body phys) VA d0)) as [x st]. cbn [fst].
    rewrite vdoc_set_peer.
    pose proof (vv_documents_independent s (VEdit VA d0 body phys) q d N) as E. unfold vstep, vstep_full in E. cbn [fst] in E.
    destruct q; cbn [vside_eqb]; [|exact E]. cbn [set_doc p_doc]. unfold updf.
    destruct (N.eqb_spec d d0); [contradiction|]. exact E.
Qed.
