(* C06 proofs, version-vector protocol, part 4: the faithful transfer (VVF.v) coincides with the transfer on vectors
   (VV.v) on every history without a revision-tree clash; the theorems of VVConv carry over to such histories. *)
From SG Require Import Base.Prelude C10.AMap C10.HLV C10.HLVProofs C06.VV C06.VVProofs C06.VVInv C06.VVConv C06.VVF.
Open Scope N_scope.

Lemma ftransfer_clean : forall r a b, transfer_clashes r a b = false -> ftransfer r a b = vtransfer r a b.
Proof.
  intros r [i|] [l|] H; try reflexivity. unfold transfer_clashes in H. unfold ftransfer, vtransfer.
  destruct (dominates (d_hlv l) (cv (d_hlv i))); [reflexivity|].
  destruct (d_del i && d_del l); [reflexivity|].
  destruct (is_in_conflict (d_hlv l) (d_hlv i)); try reflexivity.
  destruct r; [|reflexivity]. cbn in H.
  unfold fresolve_remote_wins, fresolve_local_wins.
  destruct (lww_remote_wins l i); rewrite H; reflexivity.
Qed.

Lemma fstep_clean : forall s o, step_clashes s o = false -> fstep_full s o = vstep_full s o.
Proof.
  intros s o H. destruct o as [p d body phys | p d phys | d | d | d body phys]; cbn [fstep_full vstep_full step_clashes] in *;
    try reflexivity.
  - unfold fpull_full, pull_full. now rewrite (ftransfer_clean _ _ _ H).
  - unfold fpull_full, pull_full. now rewrite (ftransfer_clean _ _ _ H).
Qed.

Lemma frun_clean : forall ops s, clash_free_from s ops = true -> frun s ops = vrun s ops.
Proof.
  induction ops as [|o r IH]; intros s H; [reflexivity|]. cbn [clash_free_from] in H.
  apply andb_true_iff in H. destruct H as [H1 H2]. apply negb_true_iff in H1.
  cbn [frun vrun]. unfold fstep in *. unfold vstep. rewrite (fstep_clean s o H1) in *. apply IH. exact H2.
Qed.

Lemma clash_free_app : forall a b s, clash_free_from s (a ++ b) = clash_free_from s a && clash_free_from (frun s a) b.
Proof.
  induction a as [|o r IH]; intros b s; [reflexivity|]. cbn [app clash_free_from frun]. rewrite IH. now rewrite andb_assoc.
Qed.

Lemma frun_app : forall a b s, frun s (a ++ b) = frun (frun s a) b.
Proof. induction a as [|o r IH]; intros b s; [reflexivity|]. cbn [app frun]. apply IH. Qed.

Lemma vrun_app : forall a b s, vrun s (a ++ b) = vrun (vrun s a) b.
Proof. induction a as [|o r IH]; intros b s; [reflexivity|]. cbn [app vrun]. apply IH. Qed.

(* convergence for every history without a revision-tree clash *)
Theorem flww_converges : forall ops d, clash_free (ops ++ [VPull d; VPush d]) = true ->
  let s := frun (frun vsys0 ops) [VPull d; VPush d] in
  vobs (vdoc_of s VA d) = vobs (vdoc_of s VB d).
Proof.
  intros ops d H. cbn zeta. rewrite <- frun_app. rewrite (frun_clean _ _ H). rewrite vrun_app.
  apply lww_converges.
Qed.

Lemma fstatus_clean : forall s o, step_clashes s o = false -> fstatus_of s o = vstatus_of s o.
Proof. intros s o H. unfold fstatus_of, vstatus_of. now rewrite (fstep_clean s o H). Qed.

(* the winner both sides adopt, without a clash in the pull *)
Theorem flww_winner_adopted : forall ops d x y, clash_free (ops ++ [VPull d; VPush d]) = true ->
  let s := frun vsys0 ops in
  vdoc_of s VA d = Some x -> vdoc_of s VB d = Some y ->
  dominates (d_hlv x) (cv (d_hlv y)) = false -> dominates (d_hlv y) (cv (d_hlv x)) = false ->
  d_del x && d_del y = false ->
  fstatus_of s (VPull d) = (if lww_remote_wins x y then VRemoteWins else VLocalWins) /\
  let s' := fstep (fstep s (VPull d)) (VPush d) in
  vobs (vdoc_of s' VA d) = vobs (Some (lww_winner x y)) /\ vobs (vdoc_of s' VB d) = vobs (Some (lww_winner x y)).
Proof.
  intros ops d x y H. cbn zeta. unfold clash_free in H. rewrite clash_free_app in H. apply andb_true_iff in H.
  destruct H as [H1 H2]. rewrite (frun_clean _ _ H1) in *. cbn [clash_free_from] in H2.
  apply andb_true_iff in H2. destruct H2 as [C1 H2]. apply negb_true_iff in C1.
  apply andb_true_iff in H2. destruct H2 as [C2 _]. apply negb_true_iff in C2.
  intros X Y D1 D2 T.
  destruct (lww_winner_adopted ops d x y X Y D1 D2 T) as [S1 S2]. cbn zeta in S2.
  split; [rewrite (fstatus_clean _ _ C1); exact S1|].
  unfold fstep in *. rewrite (fstep_clean _ _ C1) in *. rewrite (fstep_clean _ _ C2). exact S2.
Qed.
