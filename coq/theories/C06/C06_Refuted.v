(* C06 -- statements the faithful model of the UNCHANGED code violates (not part of the obligations).

   The full convergence statement (all histories, deletes and resurrections included) is false for the
   revision-tree replication protocol with the default resolver.  Two shapes, both replayed on the real
   code by the harness (corpus scenarios "delete-after-local-wins" / "delete-after-disjoint-pull" and
   "resurrect-after-remote-delete"; monitor peers_converged):

   1. A delete on the active side that is never replicated.  The active side resolved a conflict as "local
      wins" (or pulled a disconnected branch over a tombstone), which leaves a tombstoned old branch in its
      tree; it then deletes the document.  Both leaves are now tombstones and the winner is the one with the
      larger (generation, digest) -- possibly the OLD tombstone.  The push offers that revision (only the
      current revision is ever offered), the passive side rejects it with 409 (a tombstone whose parent is
      not one of its live leaves), and keeps the live document for ever.

   2. A resurrection on the active side that is never replicated.  The passive side deleted the document,
      the active side edited it concurrently and pulled: the resolver picks the remote tombstone, tombstones
      the local branch, and the longer LOCAL tombstone becomes the active side's current revision.  A later
      PUT on the active side extends that branch; the push is rejected with 409 by the passive side (its
      document is a tombstone and the pushed history shares a revision with its tree), which stays deleted. *)
From SG Require Import Base.Prelude C06.Replication C06.ConvDefs C06.SysProofs.
Open Scope N_scope.

Definition converges_full_statement : Prop :=
  forall (mkdig : option revid -> body -> list N),
    (forall p b p' b', gen (wid p) = gen (wid p') -> mkdig p b = mkdig p' b' -> p = p' /\ b = b') ->
    forall ops d,
      let s := run mkdig (run mkdig sys0 ops) [Pull d; Push d] in
      obs (fst (s d)) = obs (snd (s d)).

Definition ops_delete_lost : list op :=
  [Edit Act 0 3; Edit Act 0 2; Edit Pas 0 2; Pull 0; Delete Act 0].
Definition ops_resurrect_lost : list op :=
  [Edit Act 0 2; Edit Act 0 2; Edit Pas 0 2; Delete Pas 0; Pull 0; Resurrect Act 0 4].

Definition final (ops : list op) : dstate := run mkdig_struct (run mkdig_struct sys0 ops) [Pull 0; Push 0] 0.
Definition tomb_flag (p : pdoc) : bool := snd (fst (obs p)).

(* after pull;push: the active side shows a tombstone, the passive side a live document *)
Theorem C06_delete_not_replicated_refuted :
  tomb_flag (fst (final ops_delete_lost)) = true /\ tomb_flag (snd (final ops_delete_lost)) = false /\
  step_status mkdig_struct (run mkdig_struct (run mkdig_struct sys0 ops_delete_lost) [Pull 0]) (Push 0) = TConflict.
Proof. vm_compute. repeat split; reflexivity. Qed.

(* after pull;push: the active side shows a live document, the passive side a tombstone *)
Theorem C06_resurrection_not_replicated_refuted :
  tomb_flag (fst (final ops_resurrect_lost)) = false /\ tomb_flag (snd (final ops_resurrect_lost)) = true /\
  step_status mkdig_struct (run mkdig_struct (run mkdig_struct sys0 ops_resurrect_lost) [Pull 0]) (Push 0) = TConflict.
Proof. vm_compute. repeat split; reflexivity. Qed.

Theorem C06_converges_full_statement_refuted : ~ converges_full_statement.
Proof.
  intros H. specialize (H mkdig_struct mkdig_struct_inj ops_resurrect_lost 0). cbn zeta in H.
  assert (E : tomb_flag (fst (final ops_resurrect_lost)) = tomb_flag (snd (final ops_resurrect_lost))).
  { unfold tomb_flag, final. rewrite H. reflexivity. }
  vm_compute in E. discriminate.
Qed.
Print Assumptions C06_converges_full_statement_refuted.
