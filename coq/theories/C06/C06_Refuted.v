(* C06 -- statements the faithful model of the UNCHANGED code violates (not part of the obligations).

   The full convergence statement (all histories, deletes and resurrections included) is false for the
   revision-tree replication protocol with the default resolver.  Two shapes, both replayed on the real
   code by the harness (corpus scenarios "delete-after-local-wins" / "delete-after-disjoint-pull" and
   "resurrect-after-remote-delete"; monitor peers_converged):

   1. A delete on the active side that is never replicated.  The active side resolved a conflict as "local
      wins" (or pulled a disconnected branch over a tombstone), which leaves a tombstoned old branch in its
      tree; it then deletes the document.  Both leaves are now tombstones and the winner is the one with the
      larger (generation, digest) -- possibly the OLD tombstone.  The push offers that revision (only the
      current revision is ever offered), the passive side rejects it with 409 (a tombstone whose parent is
      not one of its live leaves), and keeps the live document for ever.

   2. A resurrection on the active side that is never replicated.  The passive side deleted the document,
      the active side edited it concurrently and pulled: the resolver picks the remote tombstone, tombstones
      the local branch, and the longer LOCAL tombstone becomes the active side's current revision.  A later
      PUT on the active side extends that branch; the push is rejected with 409 by the passive side (its
      document is a tombstone and the pushed history shares a revision with its tree), which stays deleted. *)
From SG Require Import Base.Prelude C06.Replication C06.ConvDefs C06.SysProofs.
Open Scope N_scope.

Definition converges_full_statement : Prop :=
  forall (mkdig : option revid -> body -> list N),
    (forall p b p' b', gen (wid p) = gen (wid p') -> mkdig p b = mkdig p' b' -> p = p' /\ b = b') ->
    forall ops d,
      let s := run mkdig (run mkdig sys0 ops) [Pull d; Push d] in
      obs (fst (s d)) = obs (snd (s d)).

Definition ops_delete_lost : list op :=
  [Edit Act 0 3; Edit Act 0 2; Edit Pas 0 2; Pull 0; Delete Act 0].
Definition ops_resurrect_lost : list op :=
  [Edit Act 0 2; Edit Act 0 2; Edit Pas 0 2; Delete Pas 0; Pull 0; Resurrect Act 0 4].

Definition final (ops : list op) : dstate := run mkdig_struct (run mkdig_struct sys0 ops) [Pull 0; Push 0] 0.
Definition tomb_flag (p : pdoc) : bool := snd (fst (obs p)).

(* after pull;push: the active side shows a tombstone, the passive side a live document *)
Theorem C06_delete_not_replicated_refuted :
  tomb_flag (fst (final ops_delete_lost)) = true /\ tomb_flag (snd (final ops_delete_lost)) = false /\
  step_status mkdig_struct (run mkdig_struct (run mkdig_struct sys0 ops_delete_lost) [Pull 0]) (Push 0) = TConflict.
Proof. vm_compute. repeat split; reflexivity. Qed.

(* after pull;push: the active side shows a live document, the passive side a tombstone *)
Theorem C06_resurrection_not_replicated_refuted :
  tomb_flag (fst (final ops_resurrect_lost)) = false /\ tomb_flag (snd (final ops_resurrect_lost)) = true /\
  step_status mkdig_struct (run mkdig_struct (run mkdig_struct sys0 ops_resurrect_lost) [Pull 0]) (Push 0) = TConflict.
Proof. vm_compute. repeat split; reflexivity. Qed.

Theorem C06_converges_full_statement_refuted : ~ converges_full_statement.
Proof.
  intros H. specialize (H mkdig_struct mkdig_struct_inj ops_resurrect_lost 0). cbn zeta in H.
  assert (E : tomb_flag (fst (final ops_resurrect_lost)) = tomb_flag (snd (final ops_resurrect_lost))).
  { unfold tomb_flag, final. rewrite H. reflexivity. }
  vm_compute in E. discriminate.
Qed.
Print Assumptions C06_converges_full_statement_refuted.

(* ======== version-vector protocol (VV.v) ========

   A. The LWW resolver is NOT symmetric when the two current-version VALUES are equal (and the tombstone flags
      agree): DefaultLWWConflictResolutionType keeps the remote document only if its value is STRICTLY greater, so
      the local document wins whichever side runs the resolver.  Equal values from two sources are reachable: a
      value is the wall clock with the low 16 bits cleared (65.536 microsecond ticks) plus a counter, generated
      independently by each database.  With the fixed roles of the model (only the active side resolves) this does
      not break convergence -- C06_lww_converges has no premise on the values.  It does matter as soon as BOTH sides
      resolve the same conflict before seeing each other's result (two replicators pulling from each other, outside
      this model's topology): each keeps its own document and records the other's current version as "seen", after
      which CheckChangeVersion answers "known" in both directions and nothing is ever transferred again.  With
      different values both would have picked the same winner (C06_lww_symmetric).  Not exercised on the real code
      (the harness cannot force two hybrid logical clocks to collide); recorded here as the honest treatment of the
      equal-value case, not as a defect of the two-peer ISGR topology. *)
From SG Require Import C10.HLV C06.VV.

Definition ops_equal_values : list vop := [VEdit VA 0 2 100; VEdit VB 0 3 100].

Theorem C06_lww_symmetric_equal_values_refuted :
  exists x y,
    vdoc_of (vrun vsys0 ops_equal_values) VA 0 = Some x /\ vdoc_of (vrun vsys0 ops_equal_values) VB 0 = Some y /\
    ver (d_hlv x) = ver (d_hlv y) /\ cv (d_hlv x) <> cv (d_hlv y) /\
    lww_winner x y = x /\ lww_winner y x = y /\ lww_winner x y <> lww_winner y x.
Proof.
  eexists. eexists. split; [vm_compute; reflexivity|]. split; [vm_compute; reflexivity|].
  vm_compute. repeat split; try reflexivity; discriminate.
Qed.
Print Assumptions C06_lww_symmetric_equal_values_refuted.

(* both sides resolve the equal-value conflict on their own: the results differ, and each transfer between them is
   answered "known" -- the copies stay different for ever *)
Theorem C06_equal_values_two_resolvers_stuck_refuted :
  exists x y,
    vdoc_of (vrun vsys0 ops_equal_values) VA 0 = Some x /\ vdoc_of (vrun vsys0 ops_equal_values) VB 0 = Some y /\
    let x' := fst (vtransfer true (Some y) (Some x)) in     (* the active side resolves *)
    let y' := fst (vtransfer true (Some x) (Some y)) in     (* the passive side resolves the same conflict *)
    vobs x' <> vobs y' /\
    vtransfer true y' x' = (x', VKnown) /\ vtransfer true x' y' = (y', VKnown).
Proof.
  eexists. eexists. split; [vm_compute; reflexivity|]. split; [vm_compute; reflexivity|].
  vm_compute. repeat split; try reflexivity; discriminate.
Qed.
Print Assumptions C06_equal_values_two_resolvers_stuck_refuted.

(* B. HISTORIC, repaired by /repo commit d3fd06e (kept to document what the revision-tree id of the model is for).
      Before the repair resolveRemoteWinsHLV tombstoned the local revision unconditionally.  When the incoming
      revision IS the local revision -- the same document created with the same body on both sides: same
      revision-tree id, different versions -- the tombstone became the child of the very revision being stored and
      the winner of the tree: the active side ended with a TOMBSTONE carrying the passive side's current version,
      the passive side stayed live, and every later transfer was answered "known".  The repaired code (and VV.v)
      skips the tombstone when the ids are equal; the corpus scenario "same-body-both-sides" replays it. *)
Definition resolve_remote_wins_pre_d3fd06e (l i : vdoc) : vdoc :=
  if list_eqb N.eqb (d_rev i) (d_rev l) && negb (d_del l)
  then mkD (update_with_incoming (d_hlv l) (d_hlv i)) tomb_body true (del_digest_body :: d_rev l)
  else resolve_remote_wins l i.

Definition ops_same_body : list vop := [VEdit VA 0 3 10; VEdit VB 0 3 20].

Theorem C06_pre_d3fd06e_same_revision_diverges :
  exists x y,
    vdoc_of (vrun vsys0 ops_same_body) VA 0 = Some x /\ vdoc_of (vrun vsys0 ops_same_body) VB 0 = Some y /\
    d_rev x = d_rev y /\ lww_remote_wins x y = true /\
    let r := resolve_remote_wins_pre_d3fd06e x y in
    d_del r = true /\ d_del y = false /\ cv (d_hlv r) = cv (d_hlv y) /\
    vtransfer false (Some r) (Some y) = (Some y, VKnown) /\ vtransfer true (Some y) (Some r) = (Some r, VKnown) /\
    (* the repaired resolution stores the live revision *)
    vobs (Some (resolve_remote_wins x y)) = vobs (Some y).
Proof.
  eexists. eexists. split; [vm_compute; reflexivity|]. split; [vm_compute; reflexivity|].
  vm_compute. repeat split; reflexivity.
Qed.
Print Assumptions C06_pre_d3fd06e_same_revision_diverges.


(* ======== deepening round ======== *)
From SG Require Import C06.VVF C06.VVG C06.VVGInv C06.VVGConv C06.Shapes.

(* C. The revision-tree shapes as decidable predicates on histories, each NECESSARY (Shapes.v): a diverging history
      that has this shape and neither of the other two.  The third is new: a custom resolver that answers null is
      "treated as a delete" by the resolver wrapper (Body{_deleted:true}), but resolveDocMerge stores that body as a
      LIVE revision; no receiver accepts it (reserved property), so it never replicates.  Replayed on the real
      replicator under both protocols (harness scenarios js-null; signatures rt: / vv:diverged:null-merge-stored-live). *)
Theorem C06_branched_delete_necessary :
  shapes (w_delete ++ catch_up default_policy 0) = (true, false, false) /\ diverged default_policy w_delete = true.
Proof. exact branched_delete_necessary. Qed.
Theorem C06_branched_resurrect_necessary :
  shapes (w_resurrect ++ catch_up default_policy 0) = (false, true, false) /\ diverged default_policy w_resurrect = true.
Proof. exact branched_resurrect_necessary. Qed.
Theorem C06_unsendable_write_necessary : null_merge_is_delete = false ->
  shapes (w_null ++ catch_up null_policy 0) = (false, false, true) /\ diverged null_policy w_null = true.
Proof. exact unsendable_write_necessary. Qed.
(* with the repair /tmp/c06-fix-nullmerge.diff (model switch Switches.null_merge_is_delete) the same history converges *)
Theorem C06_null_merge_repaired : null_merge_is_delete = true ->
  shapes (w_null ++ catch_up null_policy 0) = (false, false, false) /\ diverged null_policy w_null = false.
Proof. exact null_merge_repaired. Qed.

(* D. Beyond the three recorded final states (deleted / live, live / deleted, two different tombstones): BOTH peers
      live with different revisions.  The lost delete of shape 1 followed by a resurrection: the PUT extends the OLD
      tombstone (the winner among the active side's tombstones), the passive side never saw that branch and refuses
      it (409).  Replayed on the real replicator (corpus scenario resurrect-after-lost-delete, signature
      rt:diverged:active=live,passive=live). *)
Theorem C06_resurrection_on_dead_branch_refuted :
  shapes (w_live_live ++ catch_up default_policy 0) = (true, true, false) /\
  (let s := run mkdig_struct (run mkdig_struct sys0 w_live_live) (catch_up default_policy 0) in
   cur_del (fst (s 0)) = false /\ cur_del (snd (s 0)) = false /\
   cur_body (fst (s 0)) = Some 6 /\ cur_body (snd (s 0)) = Some 4 /\
   step_status mkdig_struct s (Push 0) = TConflict).
Proof. exact live_live_divergence. Qed.

(* E. Version-vector protocol, DEFAULT resolver: the revision-tree id a resolution is about to write already exists on
      the local branch (VVF.v).  The same document created with the same first body on both sides (same revision-tree
      id, different versions), edited on the active side before the first replication.
      E1. the passive side's write is the later one: "remote wins" tombstones the local revision and has nothing to add
          (the pulled revision is an ancestor): the active side ends DELETED carrying the passive side's current version,
          the passive side stays live with that version, and every later transfer is answered "known".  d3fd06e repaired
          only the case "the pulled revision IS the local revision".  C06_lww_converges needs the premise clash_free. *)
Definition ops_ancestor_remote : list vop := [VEdit VA 0 3 10; VEdit VA 0 4 20; VEdit VB 0 3 30].

Theorem C06_remote_wins_ancestor_diverges :
  clash_free (ops_ancestor_remote ++ [VPull 0; VPush 0]) = false /\
  let s := frun (frun vsys0 ops_ancestor_remote) [VPull 0; VPush 0] in
  vobs (vdoc_of s VA 0) = Some ((2, 30), 0, true) /\ vobs (vdoc_of s VB 0) = Some ((2, 30), 3, false) /\
  fstatus_of s (VPull 0) = VKnown /\ fstatus_of s (VPush 0) = VKnown.
Proof. vm_compute. repeat split; reflexivity. Qed.

Definition flww_converges_full_statement : Prop :=
  forall ops d, let s := frun (frun vsys0 ops) [VPull d; VPush d] in vobs (vdoc_of s VA d) = vobs (vdoc_of s VB d).

Theorem C06_lww_converges_full_statement_refuted : ~ flww_converges_full_statement.
Proof. intros H. specialize (H ops_ancestor_remote 0). vm_compute in H. discriminate. Qed.
Print Assumptions C06_lww_converges_full_statement_refuted.

(*    E2. the active side's write is the later one: "local wins" rewrites the local body as a child of the pulled
          revision -- which IS the local revision -- and tombstones "the old" local revision: the WINNER of the conflict
          is deleted on the active side, keeps its current version, and the push deletes it on the passive side too.
          The peers agree -- on a tombstone nobody wrote.  C06_lww_winner_adopted needs the premise clash_free. *)
Definition ops_rewritten_exists : list vop := [VEdit VB 0 3 10; VEdit VA 0 3 20; VEdit VA 0 4 30].

Theorem C06_local_wins_rewritten_revision_exists :
  clash_free (ops_rewritten_exists ++ [VPull 0; VPush 0]) = false /\
  let s0 := frun vsys0 ops_rewritten_exists in
  vobs (vdoc_of s0 VA 0) = Some ((1, 30), 4, false) /\ vobs (vdoc_of s0 VB 0) = Some ((2, 10), 3, false) /\
  fstatus_of s0 (VPull 0) = VLocalWins /\
  let s := frun s0 [VPull 0; VPush 0] in
  vobs (vdoc_of s VA 0) = Some ((1, 30), 0, true) /\ vobs (vdoc_of s VB 0) = Some ((1, 30), 0, true).
Proof. vm_compute. repeat split; reflexivity. Qed.

(* F. Version-vector protocol, custom resolvers (VVG.v).
      F1. the stale merge version: a merge on the active side records the passive side's version m as a merge version;
          the passive side writes again (v > m) before it receives the merge; the next conflict is resolved "local
          wins": UpdateHistory answers versionInMVOlder for the incoming current version and IGNORES it (the same line
          as C10's same-merge-accept-drops-local-version), so the resolved vector does not record (passive, v): the
          push is refused with 409 for ever, every further pull re-runs the resolution, and the second one writes a
          revision that already exists (E2) -- the active side's document becomes a tombstone. *)
Definition ops_stale_mv : list gop :=
  [GEdit 1 0 2 10; GEdit 2 0 3 20; gpull 1 (rs_fun (RSMerge 9)) 0 30; GEdit 2 0 4 40; gpull 1 (rs_fun RSLocal) 0 0; gpush 1 0].

Theorem C06_stale_merge_version_diverges :
  greg_from gsys0 ops_stale_mv = false /\
  let s := grun gsys0 ops_stale_mv in
  vobs (gdoc s 1 0) = Some ((1, 30), 9, false) /\ vobs (gdoc s 2 0) = Some ((2, 40), 4, false) /\
  gstatus_of s (gpush 1 0) = GConflict /\
  (* the second local-wins pull deletes the document on the active side *)
  gstatus_of s (gpull 1 (rs_fun RSLocal) 0 0) = GLocalWins /\
  vobs (gdoc (gstep s (gpull 1 (rs_fun RSLocal) 0 0)) 1 0) = Some ((1, 30), 0, true).
Proof. vm_compute. repeat split; reflexivity. Qed.

(*    F2. a resolver that answers null *)
Definition ops_null_vv : list gop := [GEdit 1 0 2 10; GEdit 2 0 3 20; gpull 1 (rs_fun RSNil) 0 30; gpush 1 0].

Theorem C06_null_merge_diverges_vv : null_merge_is_delete = false ->
  greg_from gsys0 (ops_null_vv ++ [gpull 1 (rs_fun RSNil) 0 0; gpush 1 0]) = false /\
  let s := grun gsys0 ops_null_vv in
  vobs (gdoc s 1 0) = Some ((1, 30), 1, false) /\ vobs (gdoc s 2 0) = Some ((2, 20), 3, false) /\
  gstatus_of s (gpush 1 0) = GError /\ gstatus_of s (gpull 1 (rs_fun RSNil) 0 0) = GKnown.
Proof. intros H. revert H. vm_compute. intros H. first [discriminate H | repeat split; reflexivity]. Qed.

(* ... and with the repair: the merged revision is a tombstone carrying the merge's new version, the history is regular
   and the push delivers it *)
Theorem C06_null_merge_repaired_vv : null_merge_is_delete = true ->
  greg_from gsys0 ops_null_vv = true /\
  let s := grun gsys0 ops_null_vv in
  vobs (gdoc s 1 0) = Some ((1, 30), 0, true) /\ vobs (gdoc s 2 0) = Some ((1, 30), 0, true).
Proof. intros H. revert H. vm_compute. intros H. first [discriminate H | repeat split; reflexivity]. Qed.

(* G. RAW re-delivery of a tombstone (the recorded finding vv:redelivered-tombstone-rewritten, its two faces).
      C06_vv_redelivery_noop is about an offer made again THROUGH the negotiation (CheckChangeVersion answers "known").
      A revision handed to PutExistingCurrentVersion twice (gput) is cancelled as "already present"
      (C06_vv_raw_redelivery_cancelled) unless incoming and stored document are both tombstones: that branch
      (allowConflictingTombstone) skips IsInConflict and adopts the incoming vector.  When the stored tombstone carries
      the incoming current version the observables do not change (the implementation writes a new sequence); when the
      stored tombstone is NEWER -- here the tombstone a merge resolver produced against the incoming tombstone, with its
      own new current version -- the stored current version is REPLACED by the older incoming one. *)
Definition ops_merged_tombstone : list gop :=
  [GEdit 1 0 2 10; gpush 1 0; GEdit 2 0 3 20; GDelete 2 0 30; GEdit 1 0 4 40; gpull 1 (rs_fun (RSMerge 9)) 0 50].

Theorem C06_raw_tombstone_redelivery_refuted : known_tombstone_cancelled = false ->
  let s := grun gsys0 ops_merged_tombstone in
  exists x y, gdoc s 1 0 = Some x /\ gdoc s 2 0 = Some y /\
    greg_from gsys0 ops_merged_tombstone = true /\
    vobs (Some x) = Some ((1, 50), 0, true) /\ vobs (Some y) = Some ((2, 30), 0, true) /\
    dominates (d_hlv x) (cv (d_hlv y)) = true /\
    (* through the negotiation: known, nothing stored *)
    gtransfer (Some (rs_fun (RSMerge 9))) 1 0 (gclk s 1) (Some y) (Some x) = (Some x, GKnown, gclk s 1) /\
    (* raw: the merge's current version is replaced by the tombstone it had merged *)
    vobs (fst (fst (gput (Some (rs_fun (RSMerge 9))) 1 0 (gclk s 1) y x))) = Some ((2, 30), 0, true) /\
    snd (fst (gput (Some (rs_fun (RSMerge 9))) 1 0 (gclk s 1) y x)) = GApplied.
Proof.
  intros H. revert H. vm_compute. intros H. first [discriminate H |
    eexists; eexists; split; [reflexivity|]; split; [reflexivity|]; repeat split; reflexivity].
Qed.

(* since 6e0c2ba: the raw re-delivery is cancelled, the merge's current version stays *)
Theorem C06_raw_tombstone_redelivery_repaired : known_tombstone_cancelled = true ->
  let s := grun gsys0 ops_merged_tombstone in
  exists x y, gdoc s 1 0 = Some x /\ gdoc s 2 0 = Some y /\
    vobs (Some x) = Some ((1, 50), 0, true) /\ vobs (Some y) = Some ((2, 30), 0, true) /\
    gput (Some (rs_fun (RSMerge 9))) 1 0 (gclk s 1) y x = (Some x, GCancelled, gclk s 1).
Proof.
  intros H. revert H. vm_compute. intros H. first [discriminate H |
    eexists; eexists; split; [reflexivity|]; split; [reflexivity|]; repeat split; reflexivity].
Qed.
