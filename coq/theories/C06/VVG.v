(* C06 model, part 3 (deepening round): version-vector replication between ANY NUMBER of Sync Gateways with ANY
   conflict resolver.

   Peers are numbered; a peer's number is its source id (0, the empty source name, never acts).  A transfer
   [GXfer from to res d phys] offers the current version of document d held by [from] to [to]:
     res = None      the receiver has no resolver (the passive side of an inter-Sync-Gateway replication; a push)
     res = Some f    the receiver resolves conflicts with f (the active side; a pull).  f is ANY function of the two
                     candidates (local document, incoming document) that answers "local", "remote" or a merged body
                     (db/sg_replicate_conflict_resolver.go ConflictResolver.ResolveForHLV):
                       lww_resolver      DefaultLWWConflictResolutionType (conflict_resolution_type "default")
                       local_resolver    LocalWinsConflictResolver        ("localWins")
                       remote_resolver   RemoteWinsConflictResolver       ("remoteWins")
                       anything else     a custom JavaScript resolver; "return null" is the merged body
                                         {"_deleted":true} (body number 1), see below
   The transfer itself is VV.v's / VVF.v's (CheckChangeVersion, tombstone over tombstone, IsInConflict,
   resolveRemoteWinsHLV, resolveLocalWinsHLV with the revision-tree clash of VVF.v), plus
     merge (db/crud.go resolveDocMergeHLV): the local revision is tombstoned in the tree, the merged body becomes a
       child of the incoming revision, floor = max(maxValueForSource(me) of both vectors), v = hlc.Now(floor) on the
       receiver's clock, newHLV = local.Copy(); newHLV.MergeWithIncomingHLV((me, v), incoming) -- the C10 model of
       MergeWithIncomingHLV, reused.  The tombstone flag of the stored document is the INCOMING revision's flag
       (resolveDocMerge does not touch newDoc.Deleted): a merge against an incoming TOMBSTONE is stored as a tombstone
       with the new version and the merged body is dropped (seen on the real replicator, seed 8); [phys] is the
       wall-clock reading of that write.
     a live revision whose body is {"_deleted":true} -- what a resolver answering null leaves behind -- is refused
       by every receiver (reserved property): the transfer fails, nothing is stored.
   Two-peer inter-Sync-Gateway replication is the instance peers {1, 2}, pulls = GXfer 2 1 (Some f), pushes =
   GXfer 1 2 None; the chain A <-> B <-> C is peers {1, 2, 3} with B = 2 passive towards both. *)
From SG Require Import Base.Prelude C10.AMap C10.HLV C06.VV C06.VVF.
From SG Require Export C06.Switches.
Open Scope N_scope.

Inductive vres := VLocal | VRemote | VMerge (b : N).
Definition vresolver := vdoc -> vdoc -> vres.          (* local, incoming *)
Definition lww_resolver : vresolver := fun l i => if lww_remote_wins l i then VRemote else VLocal.
Definition local_resolver : vresolver := fun _ _ => VLocal.
Definition remote_resolver : vresolver := fun _ _ => VRemote.

Definition gsys := N -> vpeer.
Definition gsys0 : gsys := fun _ => vpeer0.
Definition gdoc (s : gsys) (p d : N) : option vdoc := p_doc (s p) d.

Inductive gop :=
| GEdit (p d body phys : N)                  (* PUT on the current revision: create / update / resurrect *)
| GDelete (p d phys : N)                     (* DELETE of the current revision *)
| GXfer (from to : N) (res : option vresolver) (d phys : N).

Inductive gstatus :=
| GNothing | GKnown | GCancelled | GApplied | GRemoteWins | GLocalWins | GMerged | GConflict | GError.

Definition gstatus_eqb (a b : gstatus) : bool :=
  match a, b with
  | GNothing, GNothing | GKnown, GKnown | GCancelled, GCancelled | GApplied, GApplied | GRemoteWins, GRemoteWins
  | GLocalWins, GLocalWins | GMerged, GMerged | GConflict, GConflict | GError, GError => true
  | _, _ => false
  end.

(* a local write by the peer whose source id is [me] (VV.local_write with a numbered source) *)
Definition glocal_write (me : N) (pr : vpeer) (d body : N) (del : bool) (phys : N) : vpeer :=
  let cur := p_doc pr d in
  let h0 := match cur with Some x => d_hlv x | None => empty_hlv end in
  let rev0 := match cur with Some x => d_rev x | None => [] end in
  let v := hlc_now phys (p_clk pr) (max_value_for_source h0 me) in
  match add_version h0 (me, v) with
  | Some h' => mkP (updf (p_doc pr) d (Some (mkD h' body del ((if del then del_digest_body else body) :: rev0)))) v
  | None => mkP (p_doc pr) v
  end.

(* the merged revision is a child of the incoming one *)
Definition clash_merge (mb : N) (l i : vdoc) : bool := on_branch (mb :: d_rev i) l.

Definition merged_doc (h : hlv) (mb : N) (l i : vdoc) : vdoc :=
  if clash_merge mb l i then tombstoned h l
  else if null_merge_is_delete && (mb =? del_digest_body) then mkD h tomb_body true (mb :: d_rev i)
  else mkD h (if d_del i then tomb_body else mb) (d_del i) (mb :: d_rev i).

(* what no receiver accepts: a live revision with the body {"_deleted":true} *)
Definition unsendable (i : vdoc) : bool := negb (d_del i) && (d_body i =? del_digest_body).

(* result: what the receiver stores, the status, the receiver's clock afterwards *)
Definition gtransfer (res : option vresolver) (me phys clk : N) (sndr rcv : option vdoc)
  : option vdoc * gstatus * N :=
  match sndr with
  | None => (rcv, GNothing, clk)
  | Some i =>
      match rcv with
      | None => if unsendable i then (rcv, GError, clk) else (Some (adopt empty_hlv i), GApplied, clk)
      | Some l =>
          if dominates (d_hlv l) (cv (d_hlv i)) then (rcv, GKnown, clk)
          else if unsendable i then (rcv, GError, clk)
          else if d_del i && d_del l then (Some (adopt (d_hlv l) i), GApplied, clk)
          else match is_in_conflict (d_hlv l) (d_hlv i) with
               | AlreadyPresent => (rcv, GCancelled, clk)
               | NoConflict => (Some (adopt (d_hlv l) i), GApplied, clk)
               | Conflict =>
                   match res with
                   | None => (rcv, GConflict, clk)
                   | Some f =>
                       match f l i with
                       | VRemote => (Some (fresolve_remote_wins l i), GRemoteWins, clk)
                       | VLocal => (Some (fresolve_local_wins l i), GLocalWins, clk)
                       | VMerge mb =>
                           let v := hlc_now phys clk (N.max (max_value_for_source (d_hlv l) me)
                                                            (max_value_for_source (d_hlv i) me)) in
                           match merge_with_incoming (d_hlv l) (me, v) (d_hlv i) with
                           | Some h => (Some (merged_doc h mb l i), GMerged, v)
                           | None => (rcv, GError, v)
                           end
                       end
                   end
               end
      end
  end.

(* RAW delivery: the revision handed straight to PutExistingCurrentVersion, without the CheckChangeVersion filter of
   the changes / rev negotiation (the same BLIP rev arriving twice after both copies passed the negotiation) *)
Definition gput (res : option vresolver) (me phys clk : N) (i l : vdoc) : option vdoc * gstatus * N :=
  if unsendable i then (Some l, GError, clk)
  else if d_del i && d_del l then
         if known_tombstone_cancelled && dominates (d_hlv l) (cv (d_hlv i)) then (Some l, GCancelled, clk)
         else (Some (adopt (d_hlv l) i), GApplied, clk)
  else match is_in_conflict (d_hlv l) (d_hlv i) with
       | AlreadyPresent => (Some l, GCancelled, clk)
       | NoConflict => (Some (adopt (d_hlv l) i), GApplied, clk)
       | Conflict =>
           match res with
           | None => (Some l, GConflict, clk)
           | Some f =>
               match f l i with
               | VRemote => (Some (fresolve_remote_wins l i), GRemoteWins, clk)
               | VLocal => (Some (fresolve_local_wins l i), GLocalWins, clk)
               | VMerge mb =>
                   let v := hlc_now phys clk (N.max (max_value_for_source (d_hlv l) me)
                                                    (max_value_for_source (d_hlv i) me)) in
                   match merge_with_incoming (d_hlv l) (me, v) (d_hlv i) with
                   | Some h => (Some (merged_doc h mb l i), GMerged, v)
                   | None => (Some l, GError, v)
                   end
               end
           end
       end.

Definition gset (s : gsys) (p : N) (x : vpeer) : gsys := fun q => if q =? p then x else s q.

Definition gstep_full (s : gsys) (o : gop) : gsys * gstatus :=
  match o with
  | GEdit p d body phys =>
      if p =? 0 then (s, GNothing) else (gset s p (glocal_write p (s p) d body false phys), GNothing)
  | GDelete p d phys =>
      if p =? 0 then (s, GNothing) else
      match gdoc s p d with
      | Some _ => (gset s p (glocal_write p (s p) d tomb_body true phys), GNothing)
      | None => (s, GNothing)
      end
  | GXfer from to res d phys =>
      if (from =? 0) || (to =? 0) || (from =? to) then (s, GNothing) else
      let '(x, st, clk) := gtransfer res to phys (p_clk (s to)) (gdoc s from d) (gdoc s to d) in
      (gset s to (mkP (updf (p_doc (s to)) d x) clk), st)
  end.

Definition gstep (s : gsys) (o : gop) : gsys := fst (gstep_full s o).
Definition gstatus_of (s : gsys) (o : gop) : gstatus := snd (gstep_full s o).

Fixpoint grun (s : gsys) (ops : list gop) : gsys :=
  match ops with
  | [] => s
  | o :: r => grun (gstep s o) r
  end.

Definition gop_doc (o : gop) : N := match o with GEdit _ d _ _ | GDelete _ d _ | GXfer _ _ _ d _ => d end.

(* ---------- resolvers as data (what the harness can write down) ---------- *)
(* the JavaScript resolvers of the harness, each a function of the two candidates' bodies and tombstone flags *)
Inductive rspec :=
| RSDefault                 (* conflict_resolution_type "default" *)
| RSLocal | RSRemote        (* return conflict.LocalDocument / conflict.RemoteDocument *)
| RSMerge (b : N)           (* return {k: "v<b>"} *)
| RSNil                     (* return null *)
| RSMix.                    (* the larger body number wins; equal numbers: merge to {k: "v<n+10>"} *)

Definition rs_fun (r : rspec) : vresolver :=
  match r with
  | RSDefault => lww_resolver
  | RSLocal => local_resolver
  | RSRemote => remote_resolver
  | RSMerge b => fun _ _ => VMerge b
  | RSNil => fun _ _ => VMerge del_digest_body
  | RSMix => fun l i => if d_body i <? d_body l then VLocal
                        else if d_body l <? d_body i then VRemote else VMerge (d_body l + 10)
  end.
