(* C06 proofs, part 3: a transfer is idempotent (re-running a replication that has caught up moves no
   revision) and transfers between peers with the same current revision are the identity.
   Assumption: md5 over (parent id, body) is collision free ([mkdig_inj]). *)
From SG Require Import Base.Prelude C04.OrderProofs C04.WinnerProofs C04.WfProofs C04.FlagsProofs
  C04.PushProofs C04.DocProofs C06.Replication C06.InvProofs.
Open Scope N_scope.

Section Transfer.
  Variable mkdig : option revid -> body -> list N.
  Hypothesis mkdig_inj : forall p b p' b',
    gen (wid p) = gen (wid p') -> mkdig p b = mkdig p' b' -> p = p' /\ b = b'.
  Notation mkid := (mkid mkdig).
  Notation tinv := (tinv mkdig).
  Notation pinv := (pinv mkdig).
  Notation ghist := (ghist mkdig).

  Lemma mkid_inj : forall p b p' b', mkid p b = mkid p' b' -> p = p' /\ b = b'.
  Proof.
    intros p b p' b' H. unfold Replication.mkid in H. inversion H as [[Hg Hd]].
    apply mkdig_inj; auto. lia.
  Qed.

  (* in a tree with generated ids the parent of a record can be read off its id *)
  Lemma gen_parent : forall t r p b, tinv t -> In r t -> rid r = mkid p b -> rpar r = p.
  Proof.
    intros t r p b [_ G] Ir E. destruct (G r Ir) as [b' E']. rewrite E in E'.
    apply mkid_inj in E'. destruct E'. congruence.
  Qed.

  (* once an element of a generated history is known to a tree, all older ones are *)
  Lemma known_closed : forall t, tinv t -> forall l, ghist l None ->
    forall k rest, (exists pre, l = pre ++ k :: rest) -> contains t k = true ->
    forall x, In x rest -> contains t x = true.
  Proof.
    intros t T l G k rest. revert k. induction rest as [|y rest IH]; intros k [pre E] C x I; [destruct I|].
    assert (Gk : ghist (k :: y :: rest) None).
    { subst l. clear - G. induction pre as [|a pre IHp]; cbn [app] in G; auto. destruct G as [_ G]. auto. }
    destruct Gk as [[b Hb] Gk]. cbn [par_of] in Hb.
    apply contains_in in C. apply in_map_iff in C. destruct C as (r & Er & Ir).
    rewrite <- Er in Hb. pose proof (gen_parent t r _ _ T Ir Hb) as P.
    destruct T as [W GT]. destruct W as (ND & V & PP). destruct (PP r y Ir P) as [Cy _].
    destruct I as [<- | I]; auto.
    eapply (IH y); eauto. exists (pre ++ [k]). rewrite <- app_assoc. exact E.
  Qed.

  Lemma finish_put_all : forall p hist del b p', pinv p -> ghist hist None ->
    finish_put p hist del b = (p', TApplied) ->
    forall x, In x hist \/ contains (ptree p) x = true -> contains (ptree p') x = true.
  Proof.
    intros p hist del b p' T G H x Hx. unfold finish_put in H.
    destruct (split_known (ptree p) hist) as [nw parent] eqn:S.
    destruct (split_known_spec _ _ _ _ S) as (known & E & -> & NI & K).
    destruct (add_hist (ptree p) nw (hd_error known) del) as [t'|] eqn:A; [|discriminate].
    inversion H; subst p'. cbn [ptree]. subst hist.
    destruct (add_hist_inv mkdig _ _ _ _ _ T (ghist_split mkdig _ _ G) A) as [_ C].
    apply C. destruct Hx as [I | Cx]; auto.
    apply in_app_or in I. destruct I as [I | I]; auto. left.
    destruct known as [|k rest]; [destruct I|].
    pose proof (K k eq_refl) as Ck. destruct I as [<- | I]; auto.
    eapply known_closed; eauto.
  Qed.

  Lemma inject_fillers_incl : forall n l x, In x l -> In x (inject_fillers mkdig n l).
  Proof. induction n as [|n IH]; intros l x I; cbn [inject_fillers]; auto. apply IH. right. exact I. Qed.

  Lemma local_wins_rewrite_incl : forall l ldel lbody hist h' d' b',
    local_wins_rewrite mkdig l ldel lbody hist = (h', d', b') -> forall x, In x hist -> In x h'.
  Proof.
    intros l ldel lbody hist h' d' b' H x I. unfold local_wins_rewrite in H.
    destruct ldel; inversion H; subst; right; auto using inject_fillers_incl.
  Qed.

  Lemma tombstone_local_mono : forall p l ldel p1, tombstone_local mkdig p l ldel = Some p1 ->
    forall x, contains (ptree p) x = true -> contains (ptree p1) x = true.
  Proof.
    intros p l ldel p1 H x C. unfold tombstone_local in H. destruct ldel; [inversion H; subst; auto|].
    destruct (add (ptree p) _) as [t'|] eqn:E; [|discriminate]. inversion H; subst. cbn [ptree].
    apply add_some_cons in E. destruct E as [-> _]. rewrite contains_cons, C. apply orb_true_r.
  Qed.

  (* an applied revision is known afterwards, with all its ancestry *)
  Lemma put_existing_applied : forall res force p hist del b p', pinv p -> ghist hist None ->
    put_existing mkdig res force p hist del b = (p', TApplied) ->
    forall x, In x hist \/ contains (ptree p) x = true -> contains (ptree p') x = true.
  Proof.
    intros res force p hist del b p' T G H x Hx. unfold put_existing in H.
    destruct (split_known (ptree p) hist) as [nw parent] eqn:S.
    destruct nw as [|n0 nw']; [discriminate|].
    destruct (negb _ && illegal_conflict _ _ _ _ _ _) eqn:C.
    - destruct res as [f|]; [|discriminate].
      destruct (dcur (update_flags (ptree p))) as [l|]; [|discriminate].
      destruct (f _ _ _ _ _ _) as [| |mb].
      + destruct (local_wins_rewrite mkdig l _ _ hist) as [[h' d'] b'] eqn:LW.
        destruct (tombstone_local mkdig p l _) as [p1|] eqn:TL; [|discriminate].
        destruct (finish_put p1 h' d' b') as [p2 st2] eqn:F.
        destruct st2; try discriminate. inversion H; subst p2.
        pose proof (tombstone_local_inv mkdig _ _ _ _ T TL) as T1.
        pose proof (local_wins_rewrite_ghist mkdig _ _ _ _ _ _ _ G LW) as G'.
        apply (finish_put_all p1 h' d' b' p' T1 G' F).
        destruct Hx as [I | Cx]; [left; eapply local_wins_rewrite_incl; eauto | right; eapply tombstone_local_mono; eauto].
      + destruct (tombstone_local mkdig p l _) as [p1|] eqn:TL; [|discriminate].
        destruct (finish_put p1 hist del b) as [p2 st2] eqn:F.
        destruct st2; try discriminate. inversion H; subst p2.
        pose proof (tombstone_local_inv mkdig _ _ _ _ T TL) as T1.
        apply (finish_put_all p1 hist del b p' T1 G F).
        destruct Hx as [I | Cx]; [left; auto | right; eapply tombstone_local_mono; eauto].
      + destruct (tombstone_local mkdig p l _) as [p1|] eqn:TL; [|discriminate].
        destruct (finish_put p1 (mkid (hd_error hist) mb :: hist) _ mb) as [p2 st2] eqn:F.
        destruct st2; try discriminate. inversion H; subst p2.
        pose proof (tombstone_local_inv mkdig _ _ _ _ T TL) as T1.
        apply (finish_put_all p1 _ _ mb p' T1 (ghist_ext mkdig _ mb G) F).
        destruct Hx as [I | Cx]; [left; right; auto | right; eapply tombstone_local_mono; eauto].
    - apply (finish_put_all p hist del b p' T G H). exact Hx.
  Qed.

  (* a revision that is not applied leaves the receiver untouched *)
  Lemma finish_put_unchanged : forall p hist del b p' st, finish_put p hist del b = (p', st) ->
    st <> TApplied -> p' = p.
  Proof.
    intros p hist del b p' st H N. unfold finish_put in H.
    destruct (split_known (ptree p) hist) as [nw parent].
    destruct (add_hist (ptree p) nw parent del); inversion H; subst; congruence.
  Qed.

  Lemma put_existing_unchanged : forall res force p hist del b p' st,
    put_existing mkdig res force p hist del b = (p', st) -> st <> TApplied -> p' = p.
  Proof.
    intros res force p hist del b p' st H N. unfold put_existing in H.
    destruct (split_known (ptree p) hist) as [nw parent].
    destruct nw as [|n0 nw']; [inversion H; auto|].
    destruct (negb _ && illegal_conflict _ _ _ _ _ _).
    - destruct res as [f|]; [|inversion H; auto].
      destruct (dcur (update_flags (ptree p))) as [l|]; [|inversion H; auto].
      destruct (f _ _ _ _ _ _) as [| |mb].
      + destruct (local_wins_rewrite mkdig l _ _ hist) as [[h' d'] b'].
        destruct (tombstone_local mkdig p l _) as [p1|]; [|inversion H; auto].
        destruct (finish_put p1 h' d' b') as [p2 st2]. destruct st2; inversion H; subst; congruence.
      + destruct (tombstone_local mkdig p l _) as [p1|]; [|inversion H; auto].
        destruct (finish_put p1 hist del b) as [p2 st2]. destruct st2; inversion H; subst; congruence.
      + destruct (tombstone_local mkdig p l _) as [p1|]; [|inversion H; auto].
        destruct (finish_put p1 _ _ mb) as [p2 st2]. destruct st2; inversion H; subst; congruence.
    - eapply finish_put_unchanged; eauto.
  Qed.

  Lemma rev_diff_one : forall t c, rev_diff t [c] = if contains t c then [] else [c].
  Proof. intros. unfold rev_diff. cbn [filter]. destruct (contains t c); reflexivity. Qed.

  (* re-running a transfer changes nothing and applies nothing *)
  Theorem transfer_idempotent : forall res src dst, pinv src -> pinv dst ->
    let r := transfer mkdig res src dst in
    fst (transfer mkdig res src (fst r)) = fst r /\ snd (transfer mkdig res src (fst r)) <> TApplied.
  Proof.
    intros res src dst Ts Td. cbn zeta. unfold transfer.
    destruct (offer src) as [[[hist del] b]|] eqn:O; [|cbn; split; congruence].
    assert (G : ghist hist None).
    { unfold offer in O. destruct (cur src); [|discriminate]. inversion O; subst. apply history_ghist. exact Ts. }
    destruct hist as [|c rest]; [cbn; split; congruence|].
    cbn [firstn]. rewrite !rev_diff_one.
    destruct (contains (ptree dst) c) eqn:C.
    - cbn [fst]. rewrite C. cbn. split; congruence.
    - destruct (unsendable del b) eqn:U; [cbn [fst]; rewrite C; cbn; split; congruence|].
      destruct (put_existing mkdig res true dst (c :: rest) del b) as [p' st] eqn:E. cbn [fst].
      destruct (tstatus_eqb st TApplied) eqn:A.
      + assert (st = TApplied) by (destruct st; cbn in A; congruence). subst st.
        pose proof (put_existing_applied _ _ _ _ _ _ _ Td G E c (or_introl (or_introl eq_refl))) as C'.
        rewrite C'. cbn. split; congruence.
      + assert (N : st <> TApplied) by (intros ->; cbn in A; congruence).
        pose proof (put_existing_unchanged _ _ _ _ _ _ _ _ E N) as ->.
        rewrite C, E. cbn. auto.
  Qed.

  (* the current revision is a revision of the tree *)
  Lemma cur_contains : forall t c, wf t -> tcur t = Some c -> contains t c = true /\ 1 <= gen c.
  Proof.
    intros t c W H. destruct (tree_nil_dec t) as [-> | NE]; [discriminate|].
    destruct (winning_is_max_leaf t W NE) as (w & [Iw _] & Ew). unfold tcur in H. rewrite Ew in H.
    inversion H; subst c. apply in_leaves in Iw. destruct Iw as [Iw _].
    split; [apply contains_in; apply in_map; exact Iw | destruct W as (_ & V & _); auto].
  Qed.

  Lemma history_head : forall t c, wf t -> contains t c = true -> 1 <= gen c ->
    exists rest, history t c = c :: rest.
  Proof.
    intros t c W C V. unfold history. destruct (N.to_nat (gen c)) as [|f] eqn:F; [lia|].
    rewrite chain_S. unfold contains in C. destruct (find_rev t c); [eexists; reflexivity | discriminate].
  Qed.

  (* peers with the same current revision: nothing is missing, Push and Pull are the identity *)
  Theorem same_current_no_transfer : forall res src dst c, pinv src -> pinv dst ->
    cur src = Some c -> cur dst = Some c ->
    rev_diff (ptree dst) [c] = [] /\ transfer mkdig res src dst = (dst, TKnown).
  Proof.
    intros res src dst c [Ws _] [Wd _] Cs Cd.
    destruct (cur_contains _ _ Ws Cs) as [Cc Vc]. destruct (cur_contains _ _ Wd Cd) as [Cc' _].
    rewrite rev_diff_one, Cc'. split; auto.
    unfold transfer, offer. rewrite Cs.
    destruct (history_head _ _ Ws Cc Vc) as [rest ->]. cbn [firstn]. rewrite rev_diff_one, Cc'. reflexivity.
  Qed.
End Transfer.
