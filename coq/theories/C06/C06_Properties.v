(* C06 -- Replicating peers converge to the same documents.
   Nothing but the property theorems; each is closed by [exact] of a lemma proved elsewhere.

   Model: Replication.v -- two peers with fixed roles ([Act] owns the replication and the default conflict
   resolver, [Pas] is passive), per document a revision tree (C04 model) and the bodies of the revisions
   received as leaves; operations Edit / Delete / Resurrect on either side, Push d / Pull d = one atomic
   transfer of the sender's CURRENT revision with its ancestry (rev_diff, then PutExistingRev with
   noconflicts; the active side resolves with DefaultConflictResolver).  [mkdig] is md5 over
   (parent id, body); the only fact used about it is collision freedom. *)
From SG Require Import C10.HLV C10.HLVProofs C06.VV C06.VVProofs C06.VVInv C06.VVConv C06.VVF C06.VVFProofs
  C06.VVG C06.VVGProofs C06.VVGInv C06.VVGConv.
From SG Require Import Base.Prelude C04.RevId C04.RevTree C04.WfProofs
  C04.PushProofs C06.Replication C06.ResolverProofs C06.InvProofs C06.TransferProofs C06.ConvDefs C06.ConvThm C06.SysProofs
  C06.UnionProofs C06.RedeliverProofs C06.Shapes.
From Coq Require Import Permutation.
Open Scope N_scope.

Definition collision_free (mkdig : option revid -> body -> list N) : Prop :=
  forall p b p' b', gen (wid p) = gen (wid p') -> mkdig p b = mkdig p' b' -> p = p' /\ b = b'.

(* ---- the default policy keeps the same revision whichever side runs it: the choice is a function of
   the (deleted, generation, digest) triples of the two leaves only ---- *)
Theorem C06_default_resolver_symmetric : forall ldel l rdel r, l <> r ->
  resolver_choice ldel l rdel r = resolver_choice rdel r ldel l.
Proof. exact resolver_symmetric. Qed.
Print Assumptions C06_default_resolver_symmetric.

Theorem C06_default_resolver_order : forall ldel l rdel r,
  local_wins ldel l rdel r = true <-> (ldel = true /\ rdel = false) \/ (ldel = rdel /\ cmp_id l r <> Lt).
Proof. exact local_wins_spec. Qed.
Print Assumptions C06_default_resolver_order.

(* ---- every reachable state (ALL operation lists) holds well-formed trees with digest-generated ids ---- *)
Theorem C06_reachable_trees_wellformed : forall mkdig ops d,
  let v := run mkdig sys0 ops d in
  wf (ptree (fst v)) /\ wf (ptree (snd v)) /\ gen_tree mkdig (ptree (fst v)) /\ gen_tree mkdig (ptree (snd v)).
Proof.
  intros mkdig ops d. destruct (reachable_inv mkdig ops d) as [[W1 G1] [W2 G2]]. cbn zeta. auto.
Qed.
Print Assumptions C06_reachable_trees_wellformed.

(* ---- conflicts allowed on both sides, no resolver, every leaf offered with its ancestry (style=all_docs +
   _revs_diff + PutExistingRev): for ANY source history S and ANY two databases holding parts of it, after
   Push; Pull both hold the union of the revisions, hence the same leaves, the same winner and the same
   tombstone state, and rev_diff is empty both ways.  (The BLIP replicator offers only the winning
   revision; for it one round is not enough on conflicting trees: UnionProofs.winner_only_not_union.) ---- *)
Theorem C06_revdiff_union : forall S A B, wf S -> sub_tree S A -> sub_tree S B ->
  exists B' A', transfer_all A B = Some B' /\ transfer_all B' A = Some A' /\
    wf A' /\ wf B' /\
    (forall i, contains A' i = true <-> (contains A i = true \/ contains B i = true)) /\
    (forall i, contains B' i = true <-> (contains A i = true \/ contains B i = true)) /\
    Permutation (leaves A') (leaves B') /\
    tcur A' = tcur B' /\ winning A' = winning B' /\
    del_of A' (tcur A') = del_of B' (tcur B') /\
    rev_diff A' (map rid (leaves B')) = [] /\ rev_diff B' (map rid (leaves A')) = [].
Proof. exact revdiff_union. Qed.
Print Assumptions C06_revdiff_union.

(* ---- re-running a replication that has run transfers nothing (ALL operation lists, deletes included) ---- *)
Theorem C06_rerun_transfers_nothing : forall mkdig, collision_free mkdig -> forall ops d o,
  (o = Push d \/ o = Pull d) ->
  let s := run mkdig sys0 ops in
  step mkdig (step mkdig s o) o d = step mkdig s o d /\
  step_status mkdig (step mkdig s o) o <> TApplied.
Proof. exact rerun_transfers_nothing. Qed.
Print Assumptions C06_rerun_transfers_nothing.

(* ---- caught-up peers: rev_diff is empty both ways, Push and Pull are the identity ---- *)
Theorem C06_caught_up_transfers_nothing : forall mkdig ops d c,
  let s := run mkdig sys0 ops in
  cur (fst (s d)) = Some c -> cur (snd (s d)) = Some c ->
  rev_diff (ptree (snd (s d))) [c] = [] /\ rev_diff (ptree (fst (s d))) [c] = [] /\
  step mkdig s (Push d) d = s d /\ step mkdig s (Pull d) d = s d /\
  step_status mkdig s (Push d) = TKnown /\ step_status mkdig s (Pull d) = TKnown.
Proof. exact same_current_identity. Qed.
Print Assumptions C06_caught_up_transfers_nothing.

(* ---- documents are independent: an operation on one document leaves the others alone ---- *)
Theorem C06_documents_independent : forall mkdig s o d, d <> op_doc o -> step mkdig s o d = s d.
Proof. exact step_frame. Qed.
Print Assumptions C06_documents_independent.

(* ---- convergence with the default resolver, PARTIAL: every history WITHOUT USER DELETES -- any number of
   documents, any interleaving of edits on both sides with pushes and pulls (conflicts of any shape,
   equal-generation ties, resolutions not yet propagated back) -- followed by Pull d; Push d leaves both
   peers with the same current revision, tombstone flag and body for d ---- *)
Theorem C06_isgr_default_converges_partial : forall mkdig, collision_free mkdig -> forall ops d,
  Forall no_delete ops ->
  let s := run mkdig (run mkdig sys0 ops) [Pull d; Push d] in
  obs (fst (s d)) = obs (snd (s d)).
Proof. exact isgr_converges_live. Qed.
Print Assumptions C06_isgr_default_converges_partial.

(* ---- the same for EVERY resolver: localWins, remoteWins, a custom resolver modelled as an ARBITRARY function of the
   two candidates (tombstone flag, revision id, body of each) answering local / remote / a merged body -- which may
   even change from one pull to the next (every PullP of the history carries its own).  [no_delete] also excludes
   resolvers that answer the tombstone body as their merge result (a JavaScript resolver returning null) ---- *)
Theorem C06_converges_any_resolver_partial : forall mkdig, collision_free mkdig -> forall pol, policy_ok pol ->
  forall ops d, Forall no_delete ops ->
  let s := run mkdig (run mkdig sys0 ops) [PullP pol d; Push d] in
  obs (fst (s d)) = obs (snd (s d)).
Proof. exact isgr_converges_live_pol. Qed.
Print Assumptions C06_converges_any_resolver_partial.

(* The full statement (deletes and resurrections allowed) is FALSE for the unchanged code:
   C06_Refuted.C06_converges_full_statement_refuted, replayed on the implementation by the harness. *)
Definition C06_isgr_default_converges_full_statement : Prop :=
  forall mkdig, collision_free mkdig -> forall ops d,
  let s := run mkdig (run mkdig sys0 ops) [Pull d; Push d] in
  obs (fst (s d)) = obs (snd (s d)).

(* ---- the characterisation of the divergence, as far as it is proved.  Three DECIDABLE predicates on histories
   (Shapes.v, evaluated by running the model on the prefixes): a DELETE / a resurrecting PUT on the active side made
   while its revision tree has more than one leaf, and a write that leaves a live revision with the body
   {"_deleted":true} (a resolver answering null).  The conjectured characterisation -- NOT proved in full: ---- *)
Definition C06_converges_iff_full_statement : Prop :=
  forall mkdig, collision_free mkdig -> forall pol ops d,
  shape_free mkdig (ops ++ catch_up pol d) = true ->
  let s := run mkdig (run mkdig sys0 ops) (catch_up pol d) in
  obs (fst (s d)) = obs (snd (s d)).
(* Proved: the histories without deletes (C06_converges_any_resolver_partial, which are shape free but for the third
   shape, excluded there by policy_ok), and that each of the three shapes is NECESSARY: C06_Refuted.v has, for each, a
   diverging history with that shape and neither of the others (C06_branched_delete_necessary,
   C06_branched_resurrect_necessary, C06_unsendable_write_necessary), all replayed on the real replicator.  The
   remaining direction is supported by random testing of the extracted model and by the harness, which reports any
   divergence of the implementation on a history without such a step as ':unexplained'. *)


(* ---- at-least-once delivery is harmless: the message a pull (a push) delivered -- stored as it came, resolved either
   way (the revision that LOST is the parent of the rewritten local revision), merged, or already known -- delivered
   AGAIN after ANY later history and with ANY resolver is answered "known" and changes nothing ---- *)
Theorem C06_redelivery_noop : forall mkdig, collision_free mkdig -> forall ops1 ops2 d o msg res',
  (o = Pull d \/ exists f, o = PullP f d) ->
  let s0 := run mkdig sys0 ops1 in
  offer (snd (s0 d)) = Some msg -> unsendable (snd (fst msg)) (snd msg) = false ->
  (step_status mkdig s0 o = TApplied \/ step_status mkdig s0 o = TKnown) ->
  let s2 := run mkdig (step mkdig s0 o) ops2 in
  deliver mkdig res' msg (fst (s2 d)) = (fst (s2 d), TKnown).
Proof. exact pull_redelivery_noop. Qed.
Print Assumptions C06_redelivery_noop.

Theorem C06_push_redelivery_noop : forall mkdig, collision_free mkdig -> forall ops1 ops2 d msg res',
  let s0 := run mkdig sys0 ops1 in
  offer (fst (s0 d)) = Some msg -> unsendable (snd (fst msg)) (snd msg) = false ->
  (step_status mkdig s0 (Push d) = TApplied \/ step_status mkdig s0 (Push d) = TKnown) ->
  let s2 := run mkdig (step mkdig s0 (Push d)) ops2 in
  deliver mkdig res' msg (snd (s2 d)) = (snd (s2 d), TKnown).
Proof. exact push_redelivery_noop. Qed.
Print Assumptions C06_push_redelivery_noop.

(* ======== VERSION-VECTOR sub-protocol (v4, the default) with the default "last write wins" resolver ========
   Model: VV.v (vector algebra: the C10 model of db.HybridLogicalVector) with the transfer AS THE CODE RUNS IT, VVF.v:
   when the revision-tree id a resolution is about to write already exists on the local branch, resolveRemoteWinsHLV /
   resolveLocalWinsHLV tombstone the local revision and add nothing (found in the deepening round and replayed on the
   real replicator: C06_Refuted.C06_remote_wins_ancestor_diverges, C06_local_wins_rewritten_revision_exists).
   [clash_free ops] -- decidable, computed by running the model -- says that no resolution of the history does that;
   the theorems below that were stated without it in the build round are FALSE for the unchanged code without it
   (C06_lww_converges_full_statement_refuted).  Two peers with fixed roles: VA owns the replication and the LWW resolver,
   VB never resolves.  VEdit / VDelete = local writes (hlc.Now + AddVersion; the wall clock reading [phys] is an
   arbitrary input of every write, so two sources MAY generate equal values), VPull d / VPush d = one atomic transfer
   of the sender's current version, VPullRetry d body phys = a pull whose write loses its CAS to a local PUT on the
   active side.  All theorems quantify over ALL operation lists. *)

(* ---- convergence: after ANY clash-free history -- edits, deletes, resurrections, pulls, pushes on both peers, any
   number of documents, conflicts of any shape, resolutions not yet pushed back, EQUAL current-version values included
   -- Pull d; Push d leaves both peers with the same current version, body and tombstone flag for d ---- *)
Theorem C06_lww_converges : forall ops d, clash_free (ops ++ [VPull d; VPush d]) = true ->
  let s := frun (frun vsys0 ops) [VPull d; VPush d] in
  vobs (vdoc_of s VA d) = vobs (vdoc_of s VB d).
Proof. exact flww_converges. Qed.
Print Assumptions C06_lww_converges.

(* ---- the single winner: when neither copy has seen the other's current version (and they are not two tombstones),
   the pull resolves the conflict by the LWW policy and after the push BOTH sides show the winner's current version,
   body and tombstone flag ---- *)
Theorem C06_lww_winner_adopted : forall ops d x y, clash_free (ops ++ [VPull d; VPush d]) = true ->
  let s := frun vsys0 ops in
  vdoc_of s VA d = Some x -> vdoc_of s VB d = Some y ->
  dominates (d_hlv x) (cv (d_hlv y)) = false -> dominates (d_hlv y) (cv (d_hlv x)) = false ->
  d_del x && d_del y = false ->
  fstatus_of s (VPull d) = (if lww_remote_wins x y then VRemoteWins else VLocalWins) /\
  let s' := fstep (fstep s (VPull d)) (VPush d) in
  vobs (vdoc_of s' VA d) = vobs (Some (lww_winner x y)) /\ vobs (vdoc_of s' VB d) = vobs (Some (lww_winner x y)).
Proof. exact flww_winner_adopted. Qed.
Print Assumptions C06_lww_winner_adopted.

(* ---- the LWW policy: a tombstone beats a live document; otherwise the strictly greater value wins ---- *)
Theorem C06_lww_policy : forall l i,
  lww_remote_wins l i = true <->
  (d_del i = true /\ d_del l = false) \/ (d_del i = d_del l /\ ver (d_hlv l) < ver (d_hlv i)).
Proof. exact lww_policy_lemma. Qed.
Print Assumptions C06_lww_policy.

(* ---- ... and its winner does not depend on which side is local, unless both the tombstone flags and the values
   are equal ---- *)
Theorem C06_lww_symmetric : forall x y,
  (d_del x <> d_del y \/ ver (d_hlv x) <> ver (d_hlv y)) -> lww_winner x y = lww_winner y x.
Proof. exact lww_symmetric_lemma. Qed.
Print Assumptions C06_lww_symmetric.

(* ---- the equal-value case, honestly: the LOCAL document wins in BOTH orientations (so the symmetric statement is
   false there: C06_Refuted.C06_lww_symmetric_equal_values_refuted).  With the fixed roles of this model that does
   not matter -- C06_lww_converges has no premise on the values -- because only one side ever resolves. ---- *)
Theorem C06_lww_equal_values_local_bias : forall x y,
  d_del x = d_del y -> ver (d_hlv x) = ver (d_hlv y) -> lww_winner x y = x /\ lww_winner y x = y.
Proof. exact lww_equal_values_local_lemma. Qed.
Print Assumptions C06_lww_equal_values_local_bias.

(* ---- after a resolution the stored vector has seen the current versions of both sides (a second offer of either
   is answered "known"), clash or not ---- *)
Theorem C06_lww_resolution_dominates_both : forall l i, simple (d_hlv l) -> simple (d_hlv i) ->
  dominates (d_hlv l) (cv (d_hlv i)) = false -> dominates (d_hlv i) (cv (d_hlv l)) = false ->
  let r := if lww_remote_wins l i then fresolve_remote_wins l i else fresolve_local_wins l i in
  dominates (d_hlv r) (cv (d_hlv l)) = true /\ dominates (d_hlv r) (cv (d_hlv i)) = true.
Proof. exact fresolution_dominates_both. Qed.
Print Assumptions C06_lww_resolution_dominates_both.

(* ---- caught-up peers (same current version, body, tombstone flag -- or no document on either side): Pull and Push
   change nothing on either side and nothing is sent ---- *)
Theorem C06_vv_caught_up_transfers_nothing : forall ops d, clash_free ops = true ->
  let s := frun vsys0 ops in
  vobs (vdoc_of s VA d) = vobs (vdoc_of s VB d) ->
  (forall q d', vdoc_of (fstep s (VPull d)) q d' = vdoc_of s q d') /\
  (forall q d', vdoc_of (fstep s (VPush d)) q d' = vdoc_of s q d') /\
  (fstatus_of s (VPull d) = VKnown \/ fstatus_of s (VPull d) = VNothing) /\
  (fstatus_of s (VPush d) = VKnown \/ fstatus_of s (VPush d) = VNothing).
Proof. exact fvv_caught_up_transfers_nothing. Qed.
Print Assumptions C06_vv_caught_up_transfers_nothing.

(* ---- re-running the replication that has just run transfers nothing ---- *)
Theorem C06_vv_rerun_transfers_nothing : forall ops d, clash_free (ops ++ [VPull d; VPush d]) = true ->
  let s := frun (frun vsys0 ops) [VPull d; VPush d] in
  (forall q d', vdoc_of (fstep s (VPull d)) q d' = vdoc_of s q d') /\
  (forall q d', vdoc_of (fstep s (VPush d)) q d' = vdoc_of s q d') /\
  (fstatus_of s (VPull d) = VKnown \/ fstatus_of s (VPull d) = VNothing) /\
  (fstatus_of s (VPush d) = VKnown \/ fstatus_of s (VPush d) = VNothing).
Proof. exact fvv_rerun_transfers_nothing. Qed.
Print Assumptions C06_vv_rerun_transfers_nothing.

(* ---- a revision that was sent is never answered "already present": CheckChangeVersion filtered it before ---- *)
Theorem C06_vv_never_cancelled : forall ops o, clash_free (ops ++ [o]) = true -> fstatus_of (frun vsys0 ops) o <> VCancelled.
Proof. exact fvv_never_cancelled. Qed.
Print Assumptions C06_vv_never_cancelled.

(* ---- every local write succeeds (AddVersion never refuses the generated value) and its version is strictly above
   every version of the writer's source that any copy of any document lists, on either side ---- *)
Theorem C06_vv_local_write_fresh : forall ops p d body phys, clash_free ops = true ->
  let s := frun vsys0 ops in
  exists x, vdoc_of (fstep s (VEdit p d body phys)) p d = Some x /\
            d_body x = body /\ d_del x = false /\ src (d_hlv x) = vsrc p /\
            (forall q d' y e, vdoc_of s q d' = Some y -> listed (d_hlv y) (vsrc p, e) -> e < ver (d_hlv x)).
Proof. exact fvv_local_write_fresh. Qed.
Print Assumptions C06_vv_local_write_fresh.

(* ---- reachable copies are consistent: no merge versions, a real source; the same current version on both sides means
   the same body and tombstone flag; two copies that have each seen the other's current version hold the same one ---- *)
Theorem C06_vv_reachable_consistent : forall ops d x y, clash_free ops = true ->
  let s := frun vsys0 ops in
  vdoc_of s VA d = Some x -> vdoc_of s VB d = Some y ->
  simple (d_hlv x) /\ simple (d_hlv y) /\
  (cv (d_hlv x) = cv (d_hlv y) -> d_body x = d_body y /\ d_del x = d_del y) /\
  (dominates (d_hlv x) (cv (d_hlv y)) = true -> dominates (d_hlv y) (cv (d_hlv x)) = true -> cv (d_hlv x) = cv (d_hlv y)).
Proof. exact fvv_reachable_consistent. Qed.
Print Assumptions C06_vv_reachable_consistent.

(* ---- documents are independent under the version-vector protocol too ---- *)
Theorem C06_vv_documents_independent : forall s o q d, d <> vop_doc o -> vdoc_of (fstep s o) q d = vdoc_of s q d.
Proof. exact fvv_documents_independent. Qed.
Print Assumptions C06_vv_documents_independent.

(* ---- the faithful model IS the model on vectors wherever no resolution clashes ---- *)
Theorem C06_vv_clash_free_is_clean : forall ops s, clash_free_from s ops = true -> frun s ops = vrun s ops.
Proof. exact frun_clean. Qed.
Print Assumptions C06_vv_clash_free_is_clean.

(* ======== VERSION-VECTOR sub-protocol with ANY resolver and more than two peers (deepening round) ========
   Model: VVG.v.  Peers are numbered (a peer's number is its source id); GXfer from to res d phys is one atomic transfer
   of the current version of d held by [from] to [to], which resolves conflicts with [res] -- None on a passive side,
   Some f on an active side, f ANY function of the two candidates answering local / remote / a merged body:
   lww_resolver (default), local_resolver (localWins), remote_resolver (remoteWins), anything else (a custom
   JavaScript resolver).  A merge is db.MergeWithIncomingHLV (new current version from the receiver's clock, both
   candidates as merge versions), the C10 model, used through C10's update lemmas (HLVOps.merge_repr,
   HLVUpdate.update_general / update_nothing_lost_iff) -- nothing about the vector algebra is re-proved.
   The chain A <-> B <-> C: peers 1, 2, 3; 2 is passive towards both ([chain_op]); two-peer replication is the
   sub-case in which 3 never acts.  [greg_from s ops] (decidable): every step of the history is REGULAR -- no
   UpdateWithIncomingHLV drops a version ([lossless]), no resolution writes an existing revision-tree id, nothing
   unsendable is offered.  Each clause is necessary (C06_Refuted.C06_stale_merge_version_diverges,
   C06_local_wins_rewritten_revision_exists, C06_null_merge_diverges_vv). *)

(* ---- the invariant of the chain holds after every regular history ---- *)
Theorem C06_chain_invariant : forall ops, Forall chain_op ops -> greg_from gsys0 ops = true -> CInv (grun gsys0 ops).
Proof. intros ops F R. exact (grun_inv ops gsys0 cinv0 F R). Qed.
Print Assumptions C06_chain_invariant.

(* ---- two peers, ANY resolver (default, localWins, remoteWins, custom incl. merge): after any regular history,
   Pull d; Push d leaves the active peer a and the passive peer with the same current version, body and flag ---- *)
Theorem C06_custom_converges : forall ops a f d phys, Forall chain_op ops -> active a ->
  greg_from gsys0 (ops ++ [gpull a f d phys; gpush a d]) = true ->
  let s := grun gsys0 (ops ++ [gpull a f d phys; gpush a d]) in
  vobs (gdoc s a d) = vobs (gdoc s 2 d).
Proof. exact custom_converges. Qed.
Print Assumptions C06_custom_converges.

(* ---- three peers in a chain, any resolvers on A and C, any regular history of edits / deletes on all three and
   pulls / pushes of A and C in any order: the catch-up A-pull, A-push, C-pull, C-push, A-pull leaves ALL THREE with
   the same current version, body and tombstone flag ---- *)
Theorem C06_chain_converges : forall ops fA fC fA' d p1 p2 p3, Forall chain_op ops ->
  greg_from gsys0 (ops ++ chain_final fA fC fA' d p1 p2 p3) = true ->
  let s := grun gsys0 (ops ++ chain_final fA fC fA' d p1 p2 p3) in
  vobs (gdoc s 1 d) = vobs (gdoc s 2 d) /\ vobs (gdoc s 3 d) = vobs (gdoc s 2 d).
Proof. exact chain_converges. Qed.
Print Assumptions C06_chain_converges.

(* ---- ... and its last pull never runs a resolver: whatever C made of the conflict (adopted, kept its own, merged)
   has seen A's current version by the time it reaches A through B, so A answers "known" or stores it as a
   fast-forward -- no second conflict ---- *)
Theorem C06_merge_not_reconflicted : forall ops fA fC fA' d p1 p2 p3, Forall chain_op ops ->
  greg_from gsys0 (ops ++ chain_final fA fC fA' d p1 p2 p3) = true ->
  let s4 := grun gsys0 (ops ++ [gpull 1 fA d p1; gpush 1 d; gpull 3 fC d p2; gpush 3 d]) in
  quiet (gstatus_of s4 (gpull 1 fA' d p3)).
Proof. exact merge_not_reconflicted. Qed.
Print Assumptions C06_merge_not_reconflicted.

(* ---- a merge has seen both candidates and everything either of them had seen: ANY third copy whose current version
   one of the two candidates knew accepts the merge without a conflict ---- *)
Theorem C06_merge_accepted_by_third : forall clk hl hi hz me phys, okv clk hl -> okv clk hi -> okv clk hz -> me <> 0 ->
  dominates hi (cv hl) = false -> dominates hl (cv hi) = false ->
  dominates hl (cv hz) = true \/ dominates hi (cv hz) = true ->
  let v := hlc_now phys (clk me) (N.max (max_value_for_source hl me) (max_value_for_source hi me)) in
  exists h', merge_with_incoming hl (me, v) hi = Some h' /\
             dominates h' (cv hl) = true /\ dominates h' (cv hi) = true /\ dominates h' (cv hz) = true /\
             is_in_conflict hz h' <> Conflict.
Proof. exact merge_accepted_by_third. Qed.
Print Assumptions C06_merge_accepted_by_third.

(* ---- re-delivery: the same offer made again right after a regular transfer (applied, resolved either way, merged,
   refused or known), with any resolver of the same kind of side, stores nothing ---- *)
Theorem C06_vv_redelivery_noop : forall s from to res d phys res' phys', CInv s ->
  chain_op (GXfer from to res d phys) -> greg s (GXfer from to res d phys) = true ->
  let s1 := gstep s (GXfer from to res d phys) in
  (res' = None <-> res = None) ->
  gdoc s1 from d = gdoc s from d /\
  let t := gtransfer res' to phys' (gclk s1 to) (gdoc s1 from d) (gdoc s1 to d) in
  fst (fst t) = gdoc s1 to d /\ snd t = gclk s1 to /\
  (snd (fst t) = GKnown \/ snd (fst t) = GNothing \/ snd (fst t) = GConflict).
Proof. exact redelivery_noop. Qed.
Print Assumptions C06_vv_redelivery_noop.

(* ---- RAW re-delivery (the revision handed to the write path again, without the negotiation): a revision the stored
   vector already knows is answered "already present" and nothing is stored -- TOMBSTONES INCLUDED, for the code since
   6e0c2ba (model switch Switches.known_tombstone_cancelled; before it a tombstone onto a tombstone was written again
   with the incoming current version: fixed finding vv:redelivered-tombstone-rewritten,
   C06_Refuted.C06_raw_tombstone_redelivery_refuted).  Two tombstones need no further premise; otherwise the answer is
   IsInConflict's, which needs that the incoming vector is not "newer" in turn ---- *)
Theorem C06_vv_raw_redelivery_cancelled : forall res me phys clk i l, known_tombstone_cancelled = true ->
  dominates (d_hlv l) (cv (d_hlv i)) = true -> VVG.unsendable i = false ->
  (d_del i && d_del l = true \/ cv (d_hlv l) = cv (d_hlv i) \/ dominates (d_hlv i) (cv (d_hlv l)) = false) ->
  gput res me phys clk i l = (Some l, GCancelled, clk).
Proof. exact raw_redelivery_cancelled. Qed.
Print Assumptions C06_vv_raw_redelivery_cancelled.

(* ---- non-vacuity: a history with an equal-generation conflict resolved as "remote wins" on document 0
   and a "local wins" on document 1 (longer local branch), with a concrete collision-free digest ---- *)
Definition ex_ops : list op :=
  [Edit Act 0 2; Edit Pas 0 3; Edit Act 1 2; Edit Act 1 4; Edit Pas 1 5; Pull 0; Pull 1; Edit Pas 0 6].

Example C06_nonvacuous :
  collision_free mkdig_struct /\ Forall no_delete ex_ops /\
  (let s := run mkdig_struct sys0 ex_ops in
   (* after the pulls the active side holds a tombstoned branch in both documents *)
   length (leaves (ptree (fst (s 0)))) = 2%nat /\ length (leaves (ptree (fst (s 1)))) = 2%nat /\
   (* and the peers differ *)
   obs (fst (s 0)) <> obs (snd (s 0)) /\ obs (fst (s 1)) <> obs (snd (s 1))) /\
  (let s := run mkdig_struct (run mkdig_struct sys0 ex_ops) [Pull 1; Push 1] in
   obs (fst (s 1)) = obs (snd (s 1)) /\ cur_body (fst (s 1)) = Some 4).
Proof.
  split; [exact mkdig_struct_inj|]. split; [repeat constructor; discriminate|].
  split; vm_compute; repeat split; try reflexivity; discriminate.
Qed.

(* ---- non-vacuity, version-vector protocol: document 0 -- the passive write is the later one (remote wins);
   document 1 -- the active write is the later one (local wins, resolution pushed back); document 2 -- an OLDER
   tombstone on the active side beats a newer edit; document 3 -- equal values (the local copy wins) ---- *)
Definition ex_vops : list vop :=
  [VEdit VA 0 2 10; VEdit VB 0 3 20; VEdit VB 1 2 30; VEdit VA 1 3 40;
   VEdit VA 2 2 50; VPush 2; VDelete VA 2 60; VEdit VB 2 4 70; VEdit VA 3 5 80; VEdit VB 3 6 80].

Example C06_vv_nonvacuous :
  clash_free (ex_vops ++ [VPull 0; VPush 0; VPull 1; VPush 1; VPull 2; VPush 2; VPull 3; VPush 3]) = true /\
  (let s := frun vsys0 ex_vops in
   fstatus_of s (VPull 0) = VRemoteWins /\ fstatus_of s (VPull 1) = VLocalWins /\
   fstatus_of s (VPull 2) = VLocalWins /\ fstatus_of s (VPull 3) = VLocalWins /\
   fstatus_of s (VPush 0) = VConflict /\
   vobs (vdoc_of s VA 0) <> vobs (vdoc_of s VB 0)) /\
  (let s := frun (frun vsys0 ex_vops) [VPull 0; VPush 0; VPull 1; VPush 1; VPull 2; VPush 2; VPull 3; VPush 3] in
   vobs (vdoc_of s VB 0) = Some ((2, 20), 3, false) /\ vobs (vdoc_of s VA 0) = Some ((2, 20), 3, false) /\
   vobs (vdoc_of s VB 1) = Some ((1, 40), 3, false) /\
   vobs (vdoc_of s VB 2) = Some ((1, 60), 0, true) /\
   vobs (vdoc_of s VB 3) = Some ((1, 80), 5, false)).
Proof. vm_compute. repeat split; try reflexivity; discriminate. Qed.


(* ---- non-vacuity, any resolver and the chain: A and B create the document, C too; A merges (body 9), pushes; C merges
   again (body 8), pushes; the history is regular, A's closing pull is a fast-forward, all three show C's merge ---- *)
Definition ex_gops : list gop :=
  [GEdit 1 0 2 10; GEdit 2 0 3 20; GEdit 3 0 4 30].

Example C06_chain_nonvacuous :
  let fin := chain_final (rs_fun (RSMerge 9)) (rs_fun (RSMerge 8)) (rs_fun RSDefault) 0 40 50 0 in
  Forall chain_op ex_gops /\ greg_from gsys0 (ex_gops ++ fin) = true /\
  (let s := grun gsys0 (ex_gops ++ fin) in
   vobs (gdoc s 1 0) = Some ((3, 50), 8, false) /\ vobs (gdoc s 2 0) = Some ((3, 50), 8, false) /\
   vobs (gdoc s 3 0) = Some ((3, 50), 8, false)) /\
  (let s4 := grun gsys0 (ex_gops ++ [gpull 1 (rs_fun (RSMerge 9)) 0 40; gpush 1 0; gpull 3 (rs_fun (RSMerge 8)) 0 50; gpush 3 0]) in
   gstatus_of s4 (gpull 1 (rs_fun RSDefault) 0 0) = GApplied /\
   gstatus_of (grun gsys0 (ex_gops ++ [gpull 1 (rs_fun (RSMerge 9)) 0 40; gpush 1 0])) (gpull 3 (rs_fun (RSMerge 8)) 0 50) = GMerged).
Proof.
  cbn zeta. split; [repeat (apply Forall_cons; [cbn; auto|]); apply Forall_nil|]. vm_compute. repeat split; reflexivity.
Qed.

(* ---- non-vacuity, custom resolvers under the revision-tree protocol: a merge (doc 0), localWins on a shorter local
   branch (doc 1) ---- *)
Definition ex_pol : policy := fun _ _ lb _ _ rb => if lb =? 2 then RMerge 9 else RLocal.
Definition ex_ops_pol : list op := [Edit Act 0 2; Edit Pas 0 3; Edit Act 1 4; Edit Pas 1 5; Edit Pas 1 3].

Example C06_custom_nonvacuous :
  collision_free mkdig_struct /\ policy_ok ex_pol /\ Forall no_delete ex_ops_pol /\
  (let s := run mkdig_struct (run mkdig_struct sys0 ex_ops_pol) [PullP ex_pol 0; Push 0; PullP ex_pol 1; Push 1] in
   cur_body (fst (s 0)) = Some 9 /\ cur_body (snd (s 0)) = Some 9 /\ cur_body (fst (s 1)) = Some 4 /\ cur_body (snd (s 1)) = Some 4 /\
   obs (fst (s 0)) = obs (snd (s 0)) /\ obs (fst (s 1)) = obs (snd (s 1))).
Proof.
  split; [exact mkdig_struct_inj|]. split.
  - intros ldel l lb rdel r rb mb H. unfold ex_pol in H. destruct (lb =? 2); inversion H. discriminate.
  - split; [repeat constructor; discriminate|]. vm_compute. repeat split; reflexivity.
Qed.
