(* C06 -- Replicating peers converge to the same documents.
   Nothing but the property theorems; each is closed by [exact] of a lemma proved elsewhere.

   Model: Replication.v -- two peers with fixed roles ([Act] owns the replication and the default conflict
   resolver, [Pas] is passive), per document a revision tree (C04 model) and the bodies of the revisions
   received as leaves; operations Edit / Delete / Resurrect on either side, Push d / Pull d = one atomic
   transfer of the sender's CURRENT revision with its ancestry (rev_diff, then PutExistingRev with
   noconflicts; the active side resolves with DefaultConflictResolver).  [mkdig] is md5 over
   (parent id, body); the only fact used about it is collision freedom. *)
From SG Require Import Base.Prelude C04.RevId C04.RevTree C04.WfProofs
  C04.PushProofs C06.Replication C06.ResolverProofs C06.InvProofs C06.TransferProofs C06.ConvDefs C06.ConvThm C06.SysProofs
  C06.UnionProofs.
From Coq Require Import Permutation.
Open Scope N_scope.

Definition collision_free (mkdig : option revid -> body -> list N) : Prop :=
  forall p b p' b', gen (wid p) = gen (wid p') -> mkdig p b = mkdig p' b' -> p = p' /\ b = b'.

(* ---- the default policy keeps the same revision whichever side runs it: the choice is a function of
   the (deleted, generation, digest) triples of the two leaves only ---- *)
Theorem C06_default_resolver_symmetric : forall ldel l rdel r, l <> r ->
  resolver_choice ldel l rdel r = resolver_choice rdel r ldel l.
Proof. exact resolver_symmetric. Qed.
Print Assumptions C06_default_resolver_symmetric.

Theorem C06_default_resolver_order : forall ldel l rdel r,
  local_wins ldel l rdel r = true <-> (ldel = true /\ rdel = false) \/ (ldel = rdel /\ cmp_id l r <> Lt).
Proof. exact local_wins_spec. Qed.
Print Assumptions C06_default_resolver_order.

(* ---- every reachable state (ALL operation lists) holds well-formed trees with digest-generated ids ---- *)
Theorem C06_reachable_trees_wellformed : forall mkdig ops d,
  let v := run mkdig sys0 ops d in
  wf (ptree (fst v)) /\ wf (ptree (snd v)) /\ gen_tree mkdig (ptree (fst v)) /\ gen_tree mkdig (ptree (snd v)).
Proof.
  intros mkdig ops d. destruct (reachable_inv mkdig ops d) as [[W1 G1] [W2 G2]]. cbn zeta. auto.
Qed.
Print Assumptions C06_reachable_trees_wellformed.

(* ---- conflicts allowed on both sides, no resolver, every leaf offered with its ancestry (style=all_docs +
   _revs_diff + PutExistingRev): for ANY source history S and ANY two databases holding parts of it, after
   Push; Pull both hold the union of the revisions, hence the same leaves, the same winner and the same
   tombstone state, and rev_diff is empty both ways.  (The BLIP replicator offers only the winning
   revision; for it one round is not enough on conflicting trees: UnionProofs.winner_only_not_union.) ---- *)
Theorem C06_revdiff_union : forall S A B, wf S -> sub_tree S A -> sub_tree S B ->
  exists B' A', transfer_all A B = Some B' /\ transfer_all B' A = Some A' /\
    wf A' /\ wf B' /\
    (forall i, contains A' i = true <-> (contains A i = true \/ contains B i = true)) /\
    (forall i, contains B' i = true <-> (contains A i = true \/ contains B i = true)) /\
    Permutation (leaves A') (leaves B') /\
    tcur A' = tcur B' /\ winning A' = winning B' /\
    del_of A' (tcur A') = del_of B' (tcur B') /\
    rev_diff A' (map rid (leaves B')) = [] /\ rev_diff B' (map rid (leaves A')) = [].
Proof. exact revdiff_union. Qed.
Print Assumptions C06_revdiff_union.

(* ---- re-running a replication that has run transfers nothing (ALL operation lists, deletes included) ---- *)
Theorem C06_rerun_transfers_nothing : forall mkdig, collision_free mkdig -> forall ops d o,
  (o = Push d \/ o = Pull d) ->
  let s := run mkdig sys0 ops in
  step mkdig (step mkdig s o) o d = step mkdig s o d /\
  step_status mkdig (step mkdig s o) o <> TApplied.
Proof. exact rerun_transfers_nothing. Qed.
Print Assumptions C06_rerun_transfers_nothing.

(* ---- caught-up peers: rev_diff is empty both ways, Push and Pull are the identity ---- *)
Theorem C06_caught_up_transfers_nothing : forall mkdig ops d c,
  let s := run mkdig sys0 ops in
  cur (fst (s d)) = Some c -> cur (snd (s d)) = Some c ->
  rev_diff (ptree (snd (s d))) [c] = [] /\ rev_diff (ptree (fst (s d))) [c] = [] /\
  step mkdig s (Push d) d = s d /\ step mkdig s (Pull d) d = s d /\
  step_status mkdig s (Push d) = TKnown /\ step_status mkdig s (Pull d) = TKnown.
Proof. exact same_current_identity. Qed.
Print Assumptions C06_caught_up_transfers_nothing.

(* ---- documents are independent: an operation on one document leaves the others alone ---- *)
Theorem C06_documents_independent : forall mkdig s o d, d <> op_doc o -> step mkdig s o d = s d.
Proof. exact step_frame. Qed.
Print Assumptions C06_documents_independent.

(* ---- convergence with the default resolver, PARTIAL: every history WITHOUT USER DELETES -- any number of
   documents, any interleaving of edits on both sides with pushes and pulls (conflicts of any shape,
   equal-generation ties, resolutions not yet propagated back) -- followed by Pull d; Push d leaves both
   peers with the same current revision, tombstone flag and body for d ---- *)
Theorem C06_isgr_default_converges_partial : forall mkdig, collision_free mkdig -> forall ops d,
  Forall no_delete ops ->
  let s := run mkdig (run mkdig sys0 ops) [Pull d; Push d] in
  obs (fst (s d)) = obs (snd (s d)).
Proof. exact isgr_converges_live. Qed.
Print Assumptions C06_isgr_default_converges_partial.

(* The full statement (deletes and resurrections allowed) is FALSE for the unchanged code:
   C06_Refuted.C06_converges_full_statement_refuted, replayed on the implementation by the harness. *)
Definition C06_isgr_default_converges_full_statement : Prop :=
  forall mkdig, collision_free mkdig -> forall ops d,
  let s := run mkdig (run mkdig sys0 ops) [Pull d; Push d] in
  obs (fst (s d)) = obs (snd (s d)).

(* ---- non-vacuity: a history with an equal-generation conflict resolved as "remote wins" on document 0
   and a "local wins" on document 1 (longer local branch), with a concrete collision-free digest ---- *)
Definition ex_ops : list op :=
  [Edit Act 0 2; Edit Pas 0 3; Edit Act 1 2; Edit Act 1 4; Edit Pas 1 5; Pull 0; Pull 1; Edit Pas 0 6].

Example C06_nonvacuous :
  collision_free mkdig_struct /\ Forall no_delete ex_ops /\
  (let s := run mkdig_struct sys0 ex_ops in
   (* after the pulls the active side holds a tombstoned branch in both documents *)
   length (leaves (ptree (fst (s 0)))) = 2%nat /\ length (leaves (ptree (fst (s 1)))) = 2%nat /\
   (* and the peers differ *)
   obs (fst (s 0)) <> obs (snd (s 0)) /\ obs (fst (s 1)) <> obs (snd (s 1))) /\
  (let s := run mkdig_struct (run mkdig_struct sys0 ex_ops) [Pull 1; Push 1] in
   obs (fst (s 1)) = obs (snd (s 1)) /\ cur_body (fst (s 1)) = Some 4).
Proof.
  split; [exact mkdig_struct_inj|]. split; [repeat constructor; discriminate|].
  split; vm_compute; repeat split; try reflexivity; discriminate.
Qed.
