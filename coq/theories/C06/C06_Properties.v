(* C06 -- Replicating peers converge to the same documents.
   Nothing but the property theorems; each is closed by [exact] of a lemma proved elsewhere.

   Model: Replication.v -- two peers with fixed roles ([Act] owns the replication and the default conflict
   resolver, [Pas] is passive), per document a revision tree (C04 model) and the bodies of the revisions
   received as leaves; operations Edit / Delete / Resurrect on either side, Push d / Pull d = one atomic
   transfer of the sender's CURRENT revision with its ancestry (rev_diff, then PutExistingRev with
   noconflicts; the active side resolves with DefaultConflictResolver).  [mkdig] is md5 over
   (parent id, body); the only fact used about it is collision freedom. *)
From SG Require Import C10.HLV C10.HLVProofs C06.VV C06.VVProofs C06.VVInv C06.VVConv.
From SG Require Import Base.Prelude C04.RevId C04.RevTree C04.WfProofs
  C04.PushProofs C06.Replication C06.ResolverProofs C06.InvProofs C06.TransferProofs C06.ConvDefs C06.ConvThm C06.SysProofs
  C06.UnionProofs.
From Coq Require Import Permutation.
Open Scope N_scope.

Definition collision_free (mkdig : option revid -> body -> list N) : Prop :=
  forall p b p' b', gen (wid p) = gen (wid p') -> mkdig p b = mkdig p' b' -> p = p' /\ b = b'.

(* ---- the default policy keeps the same revision whichever side runs it: the choice is a function of
   the (deleted, generation, digest) triples of the two leaves only ---- *)
Theorem C06_default_resolver_symmetric : forall ldel l rdel r, l <> r ->
  resolver_choice ldel l rdel r = resolver_choice rdel r ldel l.
Proof. exact resolver_symmetric. Qed.
Print Assumptions C06_default_resolver_symmetric.

Theorem C06_default_resolver_order : forall ldel l rdel r,
  local_wins ldel l rdel r = true <-> (ldel = true /\ rdel = false) \/ (ldel = rdel /\ cmp_id l r <> Lt).
Proof. exact local_wins_spec. Qed.
Print Assumptions C06_default_resolver_order.

(* ---- every reachable state (ALL operation lists) holds well-formed trees with digest-generated ids ---- *)
Theorem C06_reachable_trees_wellformed : forall mkdig ops d,
  let v := run mkdig sys0 ops d in
  wf (ptree (fst v)) /\ wf (ptree (snd v)) /\ gen_tree mkdig (ptree (fst v)) /\ gen_tree mkdig (ptree (snd v)).
Proof.
  intros mkdig ops d. destruct (reachable_inv mkdig ops d) as [[W1 G1] [W2 G2]]. cbn zeta. auto.
Qed.
Print Assumptions C06_reachable_trees_wellformed.

(* ---- conflicts allowed on both sides, no resolver, every leaf offered with its ancestry (style=all_docs +
   _revs_diff + PutExistingRev): for ANY source history S and ANY two databases holding parts of it, after
   Push; Pull both hold the union of the revisions, hence the same leaves, the same winner and the same
   tombstone state, and rev_diff is empty both ways.  (The BLIP replicator offers only the winning
   revision; for it one round is not enough on conflicting trees: UnionProofs.winner_only_not_union.) ---- *)
Theorem C06_revdiff_union : forall S A B, wf S -> sub_tree S A -> sub_tree S B ->
  exists B' A', transfer_all A B = Some B' /\ transfer_all B' A = Some A' /\
    wf A' /\ wf B' /\
    (forall i, contains A' i = true <-> (contains A i = true \/ contains B i = true)) /\
    (forall i, contains B' i = true <-> (contains A i = true \/ contains B i = true)) /\
    Permutation (leaves A') (leaves B') /\
    tcur A' = tcur B' /\ winning A' = winning B' /\
    del_of A' (tcur A') = del_of B' (tcur B') /\
    rev_diff A' (map rid (leaves B')) = [] /\ rev_diff B' (map rid (leaves A')) = [].
Proof. exact revdiff_union. Qed.
Print Assumptions C06_revdiff_union.

(* ---- re-running a replication that has run transfers nothing (ALL operation lists, deletes included) ---- *)
Theorem C06_rerun_transfers_nothing : forall mkdig, collision_free mkdig -> forall ops d o,
  (o = Push d \/ o = Pull d) ->
  let s := run mkdig sys0 ops in
  step mkdig (step mkdig s o) o d = step mkdig s o d /\
  step_status mkdig (step mkdig s o) o <> TApplied.
Proof. exact rerun_transfers_nothing. Qed.
Print Assumptions C06_rerun_transfers_nothing.

(* ---- caught-up peers: rev_diff is empty both ways, Push and Pull are the identity ---- *)
Theorem C06_caught_up_transfers_nothing : forall mkdig ops d c,
  let s := run mkdig sys0 ops in
  cur (fst (s d)) = Some c -> cur (snd (s d)) = Some c ->
  rev_diff (ptree (snd (s d))) [c] = [] /\ rev_diff (ptree (fst (s d))) [c] = [] /\
  step mkdig s (Push d) d = s d /\ step mkdig s (Pull d) d = s d /\
  step_status mkdig s (Push d) = TKnown /\ step_status mkdig s (Pull d) = TKnown.
Proof. exact same_current_identity. Qed.
Print Assumptions C06_caught_up_transfers_nothing.

(* ---- documents are independent: an operation on one document leaves the others alone ---- *)
Theorem C06_documents_independent : forall mkdig s o d, d <> op_doc o -> step mkdig s o d = s d.
Proof. exact step_frame. Qed.
Print Assumptions C06_documents_independent.

(* ---- convergence with the default resolver, PARTIAL: every history WITHOUT USER DELETES -- any number of
   documents, any interleaving of edits on both sides with pushes and pulls (conflicts of any shape,
   equal-generation ties, resolutions not yet propagated back) -- followed by Pull d; Push d leaves both
   peers with the same current revision, tombstone flag and body for d ---- *)
Theorem C06_isgr_default_converges_partial : forall mkdig, collision_free mkdig -> forall ops d,
  Forall no_delete ops ->
  let s := run mkdig (run mkdig sys0 ops) [Pull d; Push d] in
  obs (fst (s d)) = obs (snd (s d)).
Proof. exact isgr_converges_live. Qed.
Print Assumptions C06_isgr_default_converges_partial.

(* The full statement (deletes and resurrections allowed) is FALSE for the unchanged code:
   C06_Refuted.C06_converges_full_statement_refuted, replayed on the implementation by the harness. *)
Definition C06_isgr_default_converges_full_statement : Prop :=
  forall mkdig, collision_free mkdig -> forall ops d,
  let s := run mkdig (run mkdig sys0 ops) [Pull d; Push d] in
  obs (fst (s d)) = obs (snd (s d)).

(* ======== VERSION-VECTOR sub-protocol (v4, the default) with the default "last write wins" resolver ========
   Model: VV.v (vector algebra: the C10 model of db.HybridLogicalVector).  Two peers with fixed roles: VA owns the
   replication and the LWW resolver, VB never resolves.  VEdit / VDelete = local writes (hlc.Now + AddVersion; the wall
   clock reading [phys] is an arbitrary input of every write, so two sources MAY generate equal values),
   VPull d / VPush d = one atomic transfer of the sender's current version (CheckChangeVersion, then
   PutExistingCurrentVersion: IsInConflict, tombstone-over-tombstone, DefaultLWWConflictResolutionType,
   resolveRemoteWinsHLV / resolveLocalWinsHLV), VPullRetry d body phys = a pull whose write loses its CAS to a local
   PUT on the active side (the update callback is re-run on the updated document against the same incoming revision
   and vector).  All theorems quantify over ALL operation lists. *)

(* ---- convergence: after ANY history -- edits, deletes, resurrections, pulls, pushes on both peers, any number of
   documents, conflicts of any shape, resolutions not yet pushed back, EQUAL current-version values included --
   Pull d; Push d leaves both peers with the same current version, body and tombstone flag for d ---- *)
Theorem C06_lww_converges : forall ops d,
  let s := vrun (vrun vsys0 ops) [VPull d; VPush d] in
  vobs (vdoc_of s VA d) = vobs (vdoc_of s VB d).
Proof. exact lww_converges. Qed.
Print Assumptions C06_lww_converges.

(* ---- the single winner: when neither copy has seen the other's current version (and they are not two tombstones),
   the pull resolves the conflict by the LWW policy and after the push BOTH sides show the winner's current version,
   body and tombstone flag ---- *)
Theorem C06_lww_winner_adopted : forall ops d x y,
  let s := vrun vsys0 ops in
  vdoc_of s VA d = Some x -> vdoc_of s VB d = Some y ->
  dominates (d_hlv x) (cv (d_hlv y)) = false -> dominates (d_hlv y) (cv (d_hlv x)) = false ->
  d_del x && d_del y = false ->
  vstatus_of s (VPull d) = (if lww_remote_wins x y then VRemoteWins else VLocalWins) /\
  let s' := vstep (vstep s (VPull d)) (VPush d) in
  vobs (vdoc_of s' VA d) = vobs (Some (lww_winner x y)) /\ vobs (vdoc_of s' VB d) = vobs (Some (lww_winner x y)).
Proof. exact lww_winner_adopted. Qed.
Print Assumptions C06_lww_winner_adopted.

(* ---- the LWW policy: a tombstone beats a live document; otherwise the strictly greater value wins ---- *)
Theorem C06_lww_policy : forall l i,
  lww_remote_wins l i = true <->
  (d_del i = true /\ d_del l = false) \/ (d_del i = d_del l /\ ver (d_hlv l) < ver (d_hlv i)).
Proof. exact lww_policy_lemma. Qed.
Print Assumptions C06_lww_policy.

(* ---- ... and its winner does not depend on which side is local, unless both the tombstone flags and the values
   are equal ---- *)
Theorem C06_lww_symmetric : forall x y,
  (d_del x <> d_del y \/ ver (d_hlv x) <> ver (d_hlv y)) -> lww_winner x y = lww_winner y x.
Proof. exact lww_symmetric_lemma. Qed.
Print Assumptions C06_lww_symmetric.

(* ---- the equal-value case, honestly: the LOCAL document wins in BOTH orientations (so the symmetric statement is
   false there: C06_Refuted.C06_lww_symmetric_equal_values_refuted).  With the fixed roles of this model that does
   not matter -- C06_lww_converges has no premise on the values -- because only one side ever resolves. ---- *)
Theorem C06_lww_equal_values_local_bias : forall x y,
  d_del x = d_del y -> ver (d_hlv x) = ver (d_hlv y) -> lww_winner x y = x /\ lww_winner y x = y.
Proof. exact lww_equal_values_local_lemma. Qed.
Print Assumptions C06_lww_equal_values_local_bias.

(* ---- after a resolution the stored vector has seen the current versions of both sides (a second offer of either
   is answered "known") ---- *)
Theorem C06_lww_resolution_dominates_both : forall l i, simple (d_hlv l) -> simple (d_hlv i) ->
  dominates (d_hlv l) (cv (d_hlv i)) = false -> dominates (d_hlv i) (cv (d_hlv l)) = false ->
  let r := if lww_remote_wins l i then resolve_remote_wins l i else resolve_local_wins l i in
  dominates (d_hlv r) (cv (d_hlv l)) = true /\ dominates (d_hlv r) (cv (d_hlv i)) = true.
Proof. exact resolution_dominates_both. Qed.
Print Assumptions C06_lww_resolution_dominates_both.

(* ---- caught-up peers (same current version, body, tombstone flag -- or no document on either side): Pull and Push
   change nothing on either side and nothing is sent ---- *)
Theorem C06_vv_caught_up_transfers_nothing : forall ops d,
  let s := vrun vsys0 ops in
  vobs (vdoc_of s VA d) = vobs (vdoc_of s VB d) ->
  (forall q d', vdoc_of (vstep s (VPull d)) q d' = vdoc_of s q d') /\
  (forall q d', vdoc_of (vstep s (VPush d)) q d' = vdoc_of s q d') /\
  (vstatus_of s (VPull d) = VKnown \/ vstatus_of s (VPull d) = VNothing) /\
  (vstatus_of s (VPush d) = VKnown \/ vstatus_of s (VPush d) = VNothing).
Proof. exact vv_caught_up_transfers_nothing. Qed.
Print Assumptions C06_vv_caught_up_transfers_nothing.

(* ---- re-running the replication that has just run transfers nothing ---- *)
Theorem C06_vv_rerun_transfers_nothing : forall ops d,
  let s := vrun (vrun vsys0 ops) [VPull d; VPush d] in
  (forall q d', vdoc_of (vstep s (VPull d)) q d' = vdoc_of s q d') /\
  (forall q d', vdoc_of (vstep s (VPush d)) q d' = vdoc_of s q d') /\
  (vstatus_of s (VPull d) = VKnown \/ vstatus_of s (VPull d) = VNothing) /\
  (vstatus_of s (VPush d) = VKnown \/ vstatus_of s (VPush d) = VNothing).
Proof. exact vv_rerun_transfers_nothing. Qed.
Print Assumptions C06_vv_rerun_transfers_nothing.

(* ---- a revision that was sent is never answered "already present": CheckChangeVersion filtered it before ---- *)
Theorem C06_vv_never_cancelled : forall ops o, vstatus_of (vrun vsys0 ops) o <> VCancelled.
Proof. exact vv_never_cancelled. Qed.
Print Assumptions C06_vv_never_cancelled.

(* ---- every local write succeeds (AddVersion never refuses the generated value) and its version is strictly above
   every version of the writer's source that any copy of any document lists, on either side ---- *)
Theorem C06_vv_local_write_fresh : forall ops p d body phys,
  let s := vrun vsys0 ops in
  exists x, vdoc_of (vstep s (VEdit p d body phys)) p d = Some x /\
            d_body x = body /\ d_del x = false /\ src (d_hlv x) = vsrc p /\
            (forall q d' y e, vdoc_of s q d' = Some y -> listed (d_hlv y) (vsrc p, e) -> e < ver (d_hlv x)).
Proof. exact vv_local_write_fresh. Qed.
Print Assumptions C06_vv_local_write_fresh.

(* ---- reachable copies are consistent: no merge versions, a real source; the same current version on both sides means
   the same body and tombstone flag; two copies that have each seen the other's current version hold the same one ---- *)
Theorem C06_vv_reachable_consistent : forall ops d x y,
  let s := vrun vsys0 ops in
  vdoc_of s VA d = Some x -> vdoc_of s VB d = Some y ->
  simple (d_hlv x) /\ simple (d_hlv y) /\
  (cv (d_hlv x) = cv (d_hlv y) -> d_body x = d_body y /\ d_del x = d_del y) /\
  (dominates (d_hlv x) (cv (d_hlv y)) = true -> dominates (d_hlv y) (cv (d_hlv x)) = true -> cv (d_hlv x) = cv (d_hlv y)).
Proof. exact vv_reachable_consistent. Qed.
Print Assumptions C06_vv_reachable_consistent.

(* ---- documents are independent under the version-vector protocol too ---- *)
Theorem C06_vv_documents_independent : forall s o q d, d <> vop_doc o -> vdoc_of (vstep s o) q d = vdoc_of s q d.
Proof. exact vv_documents_independent. Qed.
Print Assumptions C06_vv_documents_independent.

(* ---- non-vacuity: a history with an equal-generation conflict resolved as "remote wins" on document 0
   and a "local wins" on document 1 (longer local branch), with a concrete collision-free digest ---- *)
Definition ex_ops : list op :=
  [Edit Act 0 2; Edit Pas 0 3; Edit Act 1 2; Edit Act 1 4; Edit Pas 1 5; Pull 0; Pull 1; Edit Pas 0 6].

Example C06_nonvacuous :
  collision_free mkdig_struct /\ Forall no_delete ex_ops /\
  (let s := run mkdig_struct sys0 ex_ops in
   (* after the pulls the active side holds a tombstoned branch in both documents *)
   length (leaves (ptree (fst (s 0)))) = 2%nat /\ length (leaves (ptree (fst (s 1)))) = 2%nat /\
   (* and the peers differ *)
   obs (fst (s 0)) <> obs (snd (s 0)) /\ obs (fst (s 1)) <> obs (snd (s 1))) /\
  (let s := run mkdig_struct (run mkdig_struct sys0 ex_ops) [Pull 1; Push 1] in
   obs (fst (s 1)) = obs (snd (s 1)) /\ cur_body (fst (s 1)) = Some 4).
Proof.
  split; [exact mkdig_struct_inj|]. split; [repeat constructor; discriminate|].
  split; vm_compute; repeat split; try reflexivity; discriminate.
Qed.

(* ---- non-vacuity, version-vector protocol: document 0 -- the passive write is the later one (remote wins);
   document 1 -- the active write is the later one (local wins, resolution pushed back); document 2 -- an OLDER
   tombstone on the active side beats a newer edit; document 3 -- equal values (the local copy wins) ---- *)
Definition ex_vops : list vop :=
  [VEdit VA 0 2 10; VEdit VB 0 3 20; VEdit VB 1 2 30; VEdit VA 1 3 40;
   VEdit VA 2 2 50; VPush 2; VDelete VA 2 60; VEdit VB 2 4 70; VEdit VA 3 5 80; VEdit VB 3 6 80].

Example C06_vv_nonvacuous :
  (let s := vrun vsys0 ex_vops in
   vstatus_of s (VPull 0) = VRemoteWins /\ vstatus_of s (VPull 1) = VLocalWins /\
   vstatus_of s (VPull 2) = VLocalWins /\ vstatus_of s (VPull 3) = VLocalWins /\
   vstatus_of s (VPush 0) = VConflict /\
   vobs (vdoc_of s VA 0) <> vobs (vdoc_of s VB 0)) /\
  (let s := vrun (vrun vsys0 ex_vops) [VPull 0; VPush 0; VPull 1; VPush 1; VPull 2; VPush 2; VPull 3; VPush 3] in
   vobs (vdoc_of s VB 0) = Some ((2, 20), 3, false) /\ vobs (vdoc_of s VA 0) = Some ((2, 20), 3, false) /\
   vobs (vdoc_of s VB 1) = Some ((1, 40), 3, false) /\
   vobs (vdoc_of s VB 2) = Some ((1, 60), 0, true) /\
   vobs (vdoc_of s VB 3) = Some ((1, 80), 5, false)).
Proof. vm_compute. repeat split; try reflexivity; discriminate. Qed.

